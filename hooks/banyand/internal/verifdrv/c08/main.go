//go:build verif

// Driver for C08: criteria semantics with/without indexes and pruning.
//
//	bloom <mode> <n> <adds> <queries>            pkg/filter.BloomFilter (mode new|resize|rtstream|rtsidx)
//	dict <vt> <values> <queries>                 pkg/filter.DictionaryFilter
//	tf <v*6> | <criteria>                        logical.BuildTagFilter(...).Match
//	skip <engine> <cfg> <summaries> | <criteria> compiled filter .ShouldSkip on explicit block summaries
//	part <engine> <cfg> <sids> <lo> <hi> <rows> | <criteria>   real part writer + real part iterator
//	inv <cfg> <rows> | <criteria>                real bluge element index + compiled inverted filter
package main

import (
	"context"
	"fmt"
	"os"
	"path/filepath"
	"sort"
	"strconv"
	"strings"
	"time"

	"github.com/apache/skywalking-banyandb/api/common"
	commonv1 "github.com/apache/skywalking-banyandb/api/proto/banyandb/common/v1"
	databasev1 "github.com/apache/skywalking-banyandb/api/proto/banyandb/database/v1"
	modelv1 "github.com/apache/skywalking-banyandb/api/proto/banyandb/model/v1"
	"github.com/apache/skywalking-banyandb/banyand/internal/sidx"
	"github.com/apache/skywalking-banyandb/banyand/internal/verifdrv/drv"
	"github.com/apache/skywalking-banyandb/banyand/measure"
	"github.com/apache/skywalking-banyandb/banyand/observability"
	"github.com/apache/skywalking-banyandb/banyand/protector"
	"github.com/apache/skywalking-banyandb/banyand/stream"
	"github.com/apache/skywalking-banyandb/pkg/convert"
	"github.com/apache/skywalking-banyandb/pkg/encoding"
	"github.com/apache/skywalking-banyandb/pkg/filter"
	"github.com/apache/skywalking-banyandb/pkg/fs"
	"github.com/apache/skywalking-banyandb/pkg/index"
	"github.com/apache/skywalking-banyandb/pkg/index/posting/roaring"
	pbv1 "github.com/apache/skywalking-banyandb/pkg/pb/v1"
	"github.com/apache/skywalking-banyandb/pkg/query/logical"
	logicalstream "github.com/apache/skywalking-banyandb/pkg/query/logical/stream"
	logicaltrace "github.com/apache/skywalking-banyandb/pkg/query/logical/trace"
	"github.com/apache/skywalking-banyandb/pkg/query/model"
)

// ---------------------------------------------------------------------------------------
// fixed schema: one family "f" with tags s,t (string) i,k (int) a (string array) j (int array) [p (binary pad)]

var tagNames = []string{"s", "t", "i", "k", "a", "j"}
var tagTypes = []databasev1.TagType{
	databasev1.TagType_TAG_TYPE_STRING, databasev1.TagType_TAG_TYPE_STRING,
	databasev1.TagType_TAG_TYPE_INT, databasev1.TagType_TAG_TYPE_INT,
	databasev1.TagType_TAG_TYPE_STRING_ARRAY, databasev1.TagType_TAG_TYPE_INT_ARRAY,
}

func tagIdx(name string) int {
	for i, n := range tagNames {
		if n == name {
			return i
		}
	}
	return -1
}

func tagSpecs(withPad bool) []*databasev1.TagSpec {
	var ts []*databasev1.TagSpec
	for i, n := range tagNames {
		ts = append(ts, &databasev1.TagSpec{Name: n, Type: tagTypes[i]})
	}
	if withPad {
		ts = append(ts, &databasev1.TagSpec{Name: "p", Type: databasev1.TagType_TAG_TYPE_DATA_BINARY})
	}
	return ts
}

// cfg: one char per tag: n none, v inverted, k skipping
func indexRules(cfg string) []*databasev1.IndexRule {
	var rules []*databasev1.IndexRule
	for i, n := range tagNames {
		if i >= len(cfg) {
			break
		}
		var t databasev1.IndexRule_Type
		switch cfg[i] {
		case 'v':
			t = databasev1.IndexRule_TYPE_INVERTED
		case 'k':
			t = databasev1.IndexRule_TYPE_SKIPPING
		default:
			continue
		}
		rules = append(rules, &databasev1.IndexRule{
			Metadata: &commonv1.Metadata{Name: n, Group: "g", Id: uint32(i + 1)},
			Tags:     []string{n}, Type: t,
		})
	}
	return rules
}

func streamSchema(cfg string) logical.Schema {
	sm := &databasev1.Stream{
		Metadata:    &commonv1.Metadata{Name: "st", Group: "g"},
		TagFamilies: []*databasev1.TagFamilySpec{{Name: "f", Tags: tagSpecs(false)}},
		Entity:      &databasev1.Entity{},
	}
	s, err := logicalstream.BuildSchema(sm, indexRules(cfg))
	if err != nil {
		panic(err)
	}
	return s
}

func traceSchema() (logical.Schema, map[string]bool) {
	tr := &databasev1.Trace{Metadata: &commonv1.Metadata{Name: "tr", Group: "g"}}
	names := map[string]bool{}
	for i, n := range tagNames {
		tr.Tags = append(tr.Tags, &databasev1.TraceTagSpec{Name: n, Type: tagTypes[i]})
		names[n] = true
	}
	s, err := logicaltrace.BuildSchema(tr, nil)
	if err != nil {
		panic(err)
	}
	return s, names
}

// ---------------------------------------------------------------------------------------
// wire values

func parseVal(s string) *modelv1.TagValue {
	if s == "" {
		panic("empty value token")
	}
	switch s[0] {
	case 'M':
		return nil
	case 'N':
		return &modelv1.TagValue{Value: &modelv1.TagValue_Null{}}
	case 'S':
		return &modelv1.TagValue{Value: &modelv1.TagValue_Str{Str: &modelv1.Str{Value: string(drv.UnHex(s[1:]))}}}
	case 'I':
		v, err := strconv.ParseInt(s[1:], 10, 64)
		if err != nil {
			panic(err)
		}
		return &modelv1.TagValue{Value: &modelv1.TagValue_Int{Int: &modelv1.Int{Value: v}}}
	case 'A':
		arr := []string{}
		if len(s) > 1 {
			for _, e := range strings.Split(s[1:], ",") {
				arr = append(arr, string(drv.UnHex(e)))
			}
		}
		return &modelv1.TagValue{Value: &modelv1.TagValue_StrArray{StrArray: &modelv1.StrArray{Value: arr}}}
	case 'J':
		arr := []int64{}
		if len(s) > 1 {
			for _, e := range strings.Split(s[1:], ",") {
				v, err := strconv.ParseInt(e, 10, 64)
				if err != nil {
					panic(err)
				}
				arr = append(arr, v)
			}
		}
		return &modelv1.TagValue{Value: &modelv1.TagValue_IntArray{IntArray: &modelv1.IntArray{Value: arr}}}
	}
	panic("bad value token " + s)
}

var opNames = map[string]modelv1.Condition_BinaryOp{
	"eq": modelv1.Condition_BINARY_OP_EQ, "ne": modelv1.Condition_BINARY_OP_NE,
	"lt": modelv1.Condition_BINARY_OP_LT, "le": modelv1.Condition_BINARY_OP_LE,
	"gt": modelv1.Condition_BINARY_OP_GT, "ge": modelv1.Condition_BINARY_OP_GE,
	"in": modelv1.Condition_BINARY_OP_IN, "nin": modelv1.Condition_BINARY_OP_NOT_IN,
	"hav": modelv1.Condition_BINARY_OP_HAVING, "nhav": modelv1.Condition_BINARY_OP_NOT_HAVING,
	"match": modelv1.Condition_BINARY_OP_MATCH,
}

// prefix notation: and C C | or C C | <op> <tag> <value>
func parseCriteria(tok []string, pos *int) *modelv1.Criteria {
	t := tok[*pos]
	*pos++
	switch t {
	case "and", "or":
		l := parseCriteria(tok, pos)
		r := parseCriteria(tok, pos)
		op := modelv1.LogicalExpression_LOGICAL_OP_AND
		if t == "or" {
			op = modelv1.LogicalExpression_LOGICAL_OP_OR
		}
		return &modelv1.Criteria{Exp: &modelv1.Criteria_Le{Le: &modelv1.LogicalExpression{Op: op, Left: l, Right: r}}}
	}
	op, ok := opNames[t]
	if !ok {
		panic("bad criteria token " + t)
	}
	name := tok[*pos]
	val := parseVal(tok[*pos+1])
	*pos += 2
	return &modelv1.Criteria{Exp: &modelv1.Criteria_Condition{Condition: &modelv1.Condition{Name: name, Op: op, Value: val}}}
}

func splitBar(f []string) ([]string, []string) {
	for i, t := range f {
		if t == "|" {
			return f[:i], f[i+1:]
		}
	}
	return f, nil
}

func criteriaOf(tok []string) *modelv1.Criteria {
	if len(tok) == 0 {
		return nil
	}
	pos := 0
	c := parseCriteria(tok, &pos)
	if pos != len(tok) {
		panic("trailing criteria tokens")
	}
	return c
}

func errClass(err error) string {
	s := err.Error()
	switch {
	case strings.Contains(s, "not defined") || strings.Contains(s, "does not exist") || strings.Contains(s, "tag value is nil"):
		return "ERR:tag"
	case strings.Contains(s, "unsupported condition operation") || strings.Contains(s, "not supported"):
		return "ERR:op"
	case strings.Contains(s, "unsupported condition value") || strings.Contains(s, "tag filter parses"):
		return "ERR:value"
	case strings.Contains(s, "not a float value"):
		return "ERR:range-type"
	}
	return "ERR:other"
}

// ---------------------------------------------------------------------------------------
// (a) pkg/filter

func hexList(s string) [][]byte {
	if s == "_" {
		return nil
	}
	var out [][]byte
	for _, e := range strings.Split(s, ",") {
		out = append(out, drv.UnHex(e))
	}
	return out
}

func bitsHex(bits []uint64) string {
	p := make([]string, len(bits))
	for i, w := range bits {
		p[i] = fmt.Sprintf("%016x", w)
	}
	return strings.Join(p, ",")
}

func newBloom(mode string, n int) *filter.BloomFilter {
	switch mode {
	case "new", "rtstream", "rtsidx":
		return filter.NewBloomFilter(n)
	case "resize":
		// the writers' path: pooled filter, Reset, SetN, ResizeBits(OptimalBitsSize(n))
		bf := filter.NewBloomFilter(0)
		bf.Reset()
		bf.SetN(n)
		bf.ResizeBits(filter.OptimalBitsSize(n))
		return bf
	}
	panic("bad bloom mode " + mode)
}

func doBloom(f []string) string {
	mode := f[1]
	n, _ := strconv.Atoi(f[2])
	adds, qs := hexList(f[3]), hexList(f[4])
	bf := newBloom(mode, n)
	var isNew strings.Builder
	for _, a := range adds {
		isNew.WriteString(drv.B01(bf.Add(a)))
	}
	switch mode {
	case "rtstream":
		bf = stream.VerifBloomRoundTrip(bf)
	case "rtsidx":
		b2, err := sidx.VerifBloomRoundTrip(bf)
		if err != nil {
			return "ERR"
		}
		bf = b2
	}
	var r1, r2 strings.Builder
	for _, q := range qs {
		r1.WriteString(drv.B01(bf.MightContain(q)))
	}
	for _, q := range qs {
		r2.WriteString(drv.B01(bf.MightContain(q)))
	}
	if isNew.Len() == 0 {
		isNew.WriteString("-")
	}
	if r1.Len() == 0 {
		r1.WriteString("-")
		r2.WriteString("-")
	}
	return fmt.Sprintf("%d %s %s %s %s %s", len(bf.Bits()), bitsHex(bf.Bits()), isNew.String(), r1.String(), r2.String(), drv.B01(bf.ContainsAll(qs)))
}

var vtNames = map[string]pbv1.ValueType{"str": pbv1.ValueTypeStr, "int": pbv1.ValueTypeInt64, "strarr": pbv1.ValueTypeStrArr, "intarr": pbv1.ValueTypeInt64Arr}

// stored dictionary values. scalar types: hex of the value. strarr: elements e1,e2 (marshalled with MarshalVarArray);
// intarr: decimal ints i1,i2 (8-byte ordered encoding each). "_" = empty array; "~" = no values at all.
func dictValues(vt pbv1.ValueType, s string) [][]byte {
	var vals [][]byte
	if s == "~" {
		return vals
	}
	for _, v := range strings.Split(s, ";") {
		switch vt {
		case pbv1.ValueTypeStrArr:
			var b []byte
			for _, e := range hexList(v) {
				b = encoding.MarshalVarArray(b, e)
			}
			vals = append(vals, b)
		case pbv1.ValueTypeInt64Arr:
			var b []byte
			if v != "_" {
				for _, e := range strings.Split(v, ",") {
					x, err := strconv.ParseInt(e, 10, 64)
					if err != nil {
						panic(err)
					}
					b = append(b, convert.Int64ToBytes(x)...)
				}
			}
			vals = append(vals, b)
		case pbv1.ValueTypeInt64:
			x, err := strconv.ParseInt(v, 10, 64)
			if err != nil {
				panic(err)
			}
			vals = append(vals, convert.Int64ToBytes(x))
		default:
			vals = append(vals, drv.UnHex(v))
		}
	}
	return vals
}

// query items: for int/intarr decimal (converted to ordered bytes), else hex
func dictItems(vt pbv1.ValueType, s string) [][]byte {
	if s == "_" || s == "" {
		return nil
	}
	var out [][]byte
	for _, e := range strings.Split(s, ",") {
		if vt == pbv1.ValueTypeInt64 || vt == pbv1.ValueTypeInt64Arr {
			x, err := strconv.ParseInt(e, 10, 64)
			if err != nil {
				panic(err)
			}
			out = append(out, convert.Int64ToBytes(x))
		} else {
			out = append(out, drv.UnHex(e))
		}
	}
	return out
}

func doDict(f []string) string {
	vt, ok := vtNames[f[1]]
	if !ok {
		panic("bad vt")
	}
	vals := dictValues(vt, f[2])
	df := &filter.DictionaryFilter{}
	df.Set(vals, vt)
	var res strings.Builder
	for _, q := range strings.Split(f[3], ";") {
		switch q[0] {
		case 'm':
			it := dictItems(vt, q[1:])
			var one []byte
			if len(it) > 0 {
				one = it[0]
			}
			res.WriteString(drv.B01(df.MightContain(one)))
		case 'c':
			res.WriteString(drv.B01(df.ContainsAll(dictItems(vt, q[1:]))))
		default:
			panic("bad dict query")
		}
	}
	var after []string
	for _, v := range df.VerifValues() {
		after = append(after, drv.Hex(v))
	}
	if len(after) == 0 {
		after = []string{"_"}
	}
	return res.String() + " " + strings.Join(after, ";")
}

// ---------------------------------------------------------------------------------------
// (b) tag filter

func rowFamilies(vals []string) []*modelv1.TagFamily {
	tf := &modelv1.TagFamily{Name: "f"}
	for i, v := range vals {
		if v == "X" { // row is shorter than the schema: tags from here on are absent
			break
		}
		tf.Tags = append(tf.Tags, &modelv1.Tag{Key: tagNames[i], Value: parseVal(v)})
	}
	return []*modelv1.TagFamily{tf}
}

func doTF(f []string) string {
	left, crit := splitBar(f[1:])
	if len(left) != len(tagNames) && !(len(left) > 0 && len(left) < len(tagNames) && left[len(left)-1] == "X") {
		panic("tf: need 6 values (or fewer, terminated by X)")
	}
	schema := streamSchema("nnnnnn")
	c := criteriaOf(crit)
	flt, err := logical.BuildTagFilter(c, map[string]int{}, schema, schema, false, "")
	if err != nil {
		return "B" + errClass(err)
	}
	ok, err := flt.Match(logical.TagFamilies(rowFamilies(left)), schema)
	if err != nil {
		return "M" + errClass(err)
	}
	// repeat: the answer must not depend on evaluation history
	ok2, err2 := flt.Match(logical.TagFamilies(rowFamilies(left)), schema)
	if err2 != nil || ok2 != ok {
		return "UNSTABLE"
	}
	return drv.B01(ok)
}

// ---------------------------------------------------------------------------------------
// compiled filters

func compileStream(cfg string, c *modelv1.Criteria, typ databasev1.IndexRule_Type) (index.Filter, logical.Schema, error) {
	schema := streamSchema(cfg)
	flt, _, err := logicalstream.VerifBuildLocalFilter(c, schema, map[string]int{}, nil, typ)
	return flt, schema, err
}

func compileTrace(c *modelv1.Criteria) (index.Filter, error) {
	schema, names := traceSchema()
	flt, _, _, _, _, _, err := logicaltrace.VerifBuildFilter(c, schema, names, map[string]int{}, nil, "", "", "")
	return flt, err
}

func fltName(f index.Filter) string {
	if f == nil {
		return "nil"
	}
	if f == index.Filter(logicalstream.ENode) {
		return "enode"
	}
	return "f"
}

// ---------------------------------------------------------------------------------------
// (c1) ShouldSkip on explicit summaries
//
// summary token:  <tag>=<kind>/<min>/<max>/<payload>
//   kind: none | bloom | dict | absent(tag not in block)      min,max: hex or -
//   payload bloom: <n>:<items hex,>   dict: <values as in dict op>
//   value type of the tag comes from the fixed schema.

func tagVT(name string) pbv1.ValueType {
	switch tagTypes[tagIdx(name)] {
	case databasev1.TagType_TAG_TYPE_STRING:
		return pbv1.ValueTypeStr
	case databasev1.TagType_TAG_TYPE_INT:
		return pbv1.ValueTypeInt64
	case databasev1.TagType_TAG_TYPE_STRING_ARRAY:
		return pbv1.ValueTypeStrArr
	}
	return pbv1.ValueTypeInt64Arr
}

type summary struct {
	bloom    *filter.BloomFilter
	dict     *filter.DictionaryFilter
	name     string
	min, max []byte
}

func parseSummaries(toks []string) []summary {
	var out []summary
	for _, t := range toks {
		eq := strings.IndexByte(t, '=')
		name := t[:eq]
		parts := strings.SplitN(t[eq+1:], "/", 4)
		if parts[0] == "absent" {
			continue
		}
		s := summary{name: name}
		if parts[1] != "-" {
			s.min = drv.UnHex(parts[1])
		}
		if parts[2] != "-" {
			s.max = drv.UnHex(parts[2])
		}
		vt := tagVT(name)
		switch parts[0] {
		case "bloom":
			np := strings.SplitN(parts[3], ":", 2)
			n, _ := strconv.Atoi(np[0])
			bf := newBloom("resize", n)
			for _, it := range hexList(np[1]) {
				bf.Add(it)
			}
			s.bloom = bf
		case "dict":
			df := &filter.DictionaryFilter{}
			df.Set(dictValues(vt, parts[3]), vt)
			s.dict = df
		case "none":
		default:
			panic("bad summary kind")
		}
		out = append(out, s)
	}
	return out
}

// tfBits evaluates the scan predicate (BuildTagFilter + Match) on every row: 1 / 0 / E(rror); "B" if the filter does not build.
func tfBits(c *modelv1.Criteria, rows [][]string) string {
	schema := streamSchema("nnnnnn")
	flt, err := logical.BuildTagFilter(c, map[string]int{}, schema, schema, false, "")
	if err != nil {
		return "B"
	}
	var sb strings.Builder
	for _, r := range rows {
		ok, err := flt.Match(logical.TagFamilies(rowFamilies(r)), schema)
		switch {
		case err != nil:
			sb.WriteByte('E')
		case ok:
			sb.WriteByte('1')
		default:
			sb.WriteByte('0')
		}
	}
	if sb.Len() == 0 {
		return "-"
	}
	return sb.String()
}

func doSkip(f []string) string {
	engine, cfg := f[1], f[2]
	nsum, _ := strconv.Atoi(f[3])
	left, crit := splitBar(f[4:])
	c := criteriaOf(crit)
	sums := parseSummaries(left[:nsum])
	var rows [][]string
	for _, t := range left[nsum:] {
		rows = append(rows, strings.Split(t, ":"))
	}
	bits := tfBits(c, rows)
	var flt index.Filter
	var err error
	var op index.FilterOp
	cres := drv.Safe(func() string {
		switch engine {
		case "stream":
			flt, _, err = compileStream(cfg, c, databasev1.IndexRule_TYPE_SKIPPING)
		case "trace":
			flt, err = compileTrace(c)
		default:
			panic("bad engine")
		}
		return ""
	})
	if cres != "" {
		return "CPANIC " + bits
	}
	if err != nil {
		return "C" + errClass(err) + " " + bits
	}
	switch engine {
	case "stream":
		var tfl []stream.VerifTagFilter
		for _, s := range sums {
			tfl = append(tfl, stream.VerifTagFilter{Name: s.name, Min: s.min, Max: s.max, Bloom: s.bloom, Dict: s.dict})
		}
		op = stream.VerifFilterOp(tfl)
	case "trace":
		var cl []sidx.VerifCache
		for _, s := range sums {
			cl = append(cl, sidx.VerifCache{Name: s.name, Min: s.min, Max: s.max, Bloom: s.bloom, Dict: s.dict, ValueType: tagVT(s.name)})
		}
		op = sidx.VerifFilterOp(cl)
	}
	if flt == nil || fltName(flt) == "enode" {
		return "never " + bits
	}
	once := func() string {
		r := drv.Safe(func() string {
			sk, e := flt.ShouldSkip(op)
			if e != nil {
				return "S" + errClass(e)
			}
			return drv.B01(sk)
		})
		if strings.HasPrefix(r, "PANIC") {
			r = "PANIC"
		}
		return r
	}
	r1 := once()
	r2 := once()
	if r1 != r2 {
		return "UNSTABLE:" + r1 + "/" + r2 + " " + bits
	}
	return r1 + " " + bits
}

// ---------------------------------------------------------------------------------------
// rows:  sid:ts:v:v:v:v:v:v[:P<n>][*count]

type row struct {
	vals  []string
	sid   uint64
	ts    int64
	pad   int
	count int
}

func parseRows(toks []string) []row {
	var rows []row
	for _, t := range toks {
		cnt := 1
		if i := strings.IndexByte(t, '*'); i >= 0 {
			cnt, _ = strconv.Atoi(t[i+1:])
			t = t[:i]
		}
		p := strings.Split(t, ":")
		sid, _ := strconv.ParseUint(p[0], 10, 64)
		ts, _ := strconv.ParseInt(p[1], 10, 64)
		r := row{sid: sid, ts: ts, vals: p[2 : 2+len(tagNames)], count: cnt}
		if len(p) > 2+len(tagNames) && strings.HasPrefix(p[2+len(tagNames)], "P") {
			r.pad, _ = strconv.Atoi(p[2+len(tagNames)][1:])
		}
		rows = append(rows, r)
	}
	return rows
}

func expandRows(rows []row) []row {
	var out []row
	for _, r := range rows {
		for k := 0; k < r.count; k++ {
			r2 := r
			r2.ts = r.ts + int64(k)
			r2.count = 1
			out = append(out, r2)
		}
	}
	return out
}

func parseSids(s string) []uint64 {
	var out []uint64
	for _, e := range strings.Split(s, ",") {
		v, _ := strconv.ParseUint(e, 10, 64)
		out = append(out, v)
	}
	return out
}

func streamRows(rows []row, cfg string) []stream.VerifRow {
	var vr []stream.VerifRow
	for n, r := range rows {
		x := stream.VerifRow{SeriesID: r.sid, Ts: r.ts, ElementID: uint64(n + 1)}
		for i, v := range r.vals {
			tv := parseVal(v)
			if tv == nil {
				tv = pbv1.NullTagValue
			}
			x.Tags = append(x.Tags, stream.VerifTag{Family: "f", Name: tagNames[i], Type: tagTypes[i], Value: tv, Indexed: i < len(cfg) && cfg[i] == 'k'})
		}
		if r.pad > 0 {
			x.Tags = append(x.Tags, stream.VerifTag{Family: "f", Name: "p", Type: databasev1.TagType_TAG_TYPE_DATA_BINARY,
				Value: &modelv1.TagValue{Value: &modelv1.TagValue_BinaryData{BinaryData: make([]byte, r.pad)}}})
		}
		vr = append(vr, x)
	}
	return vr
}

func sidxRows(rows []row) []sidx.VerifRow {
	var vr []sidx.VerifRow
	for _, r := range rows {
		x := sidx.VerifRow{SeriesID: r.sid, Key: r.ts}
		for i, v := range r.vals {
			tv := parseVal(v)
			if tv == nil {
				tv = pbv1.NullTagValue
			}
			x.Tags = append(x.Tags, traceTag(tagNames[i], tagTypes[i], tv))
		}
		vr = append(vr, x)
	}
	return vr
}

func allSids(rows []row) []uint64 {
	m := map[uint64]bool{}
	var out []uint64
	for _, r := range rows {
		if !m[r.sid] {
			m[r.sid] = true
			out = append(out, r.sid)
		}
	}
	sort.Slice(out, func(i, j int) bool { return out[i] < out[j] })
	return out
}

func joinOrDash(p []string) string {
	if len(p) == 0 {
		return "-"
	}
	return strings.Join(p, ",")
}

// part: output  <filter kind> <all blocks of the part> <blocks the iterator returned> <tf bits per row token>
func doPart(f []string) string {
	// cfg may be "<query cfg>/<write cfg>": index rules in force when the part was written differ from the
	// ones the query is compiled against (an index rule added after the data was written).
	engine, cfg := f[1], f[2]
	wcfg := cfg
	if i := strings.IndexByte(cfg, '/'); i >= 0 {
		cfg, wcfg = cfg[:i], cfg[i+1:]
	}
	sids := parseSids(f[3])
	lo, _ := strconv.ParseInt(f[4], 10, 64)
	hi, _ := strconv.ParseInt(f[5], 10, 64)
	left, crit := splitBar(f[6:])
	rowToks := parseRows(left)
	rows := expandRows(rowToks)
	c := criteriaOf(crit)
	var rv [][]string
	for _, r := range rowToks {
		rv = append(rv, r.vals)
	}
	bits := tfBits(c, rv)
	var all, got []string
	var kind string
	switch engine {
	case "stream":
		var flt index.Filter
		var err error
		if p := drv.Safe(func() string {
			flt, _, err = compileStream(cfg, c, databasev1.IndexRule_TYPE_SKIPPING)
			return ""
		}); p != "" {
			return "CPANIC " + bits
		}
		if err != nil {
			return "C" + errClass(err) + " " + bits
		}
		kind = fltName(flt)
		vr := streamRows(rows, wcfg)
		ab, err := stream.VerifScanPart(vr, allSids(rows), -1<<62, 1<<62, nil)
		if err != nil {
			return "E" + errClass(err)
		}
		for _, b := range ab {
			all = append(all, fmt.Sprintf("%d@%d-%d#%d", b.SeriesID, b.MinTs, b.MaxTs, b.Count))
		}
		res := drv.Safe(func() string {
			blocks, err := stream.VerifScanPart(vr, sids, lo, hi, flt)
			if err != nil {
				return "E" + errClass(err)
			}
			for _, b := range blocks {
				got = append(got, fmt.Sprintf("%d@%d-%d#%d", b.SeriesID, b.MinTs, b.MaxTs, b.Count))
			}
			return ""
		})
		if res != "" {
			if strings.HasPrefix(res, "PANIC") {
				res = "PANIC"
			}
			return kind + " " + joinOrDash(all) + " " + res + " " + bits
		}
	case "trace":
		flt, err := compileTrace(c)
		if err != nil {
			return "C" + errClass(err) + " " + bits
		}
		kind = fltName(flt)
		vr := sidxRows(rows)
		ab, err := sidx.VerifScanPart(vr, allSids(rows), -1<<62, 1<<62, nil, true)
		if err != nil {
			return "E" + errClass(err)
		}
		for _, b := range ab {
			all = append(all, fmt.Sprintf("%d@%d-%d#%d", b.SeriesID, b.MinKey, b.MaxKey, b.Count))
		}
		res := drv.Safe(func() string {
			blocks, err := sidx.VerifScanPart(vr, sids, lo, hi, flt, true)
			if err != nil {
				return "E" + errClass(err)
			}
			for _, b := range blocks {
				got = append(got, fmt.Sprintf("%d@%d-%d#%d", b.SeriesID, b.MinKey, b.MaxKey, b.Count))
			}
			return ""
		})
		if res != "" {
			if strings.HasPrefix(res, "PANIC") {
				res = "PANIC"
			}
			return kind + " " + joinOrDash(all) + " " + res + " " + bits
		}
	default:
		panic("bad engine")
	}
	sort.Strings(got)
	sort.Strings(all)
	return kind + " " + joinOrDash(all) + " " + joinOrDash(got) + " " + bits
}

// sum: per block and tag, the summary the read path reconstructs and, for every row of the block (in row-token
// order), whether the summary admits the row's stored value(s):  sid@minTs/tag/kind/min/max/<bits>
//   bit: 1 = every stored item of the row's value passes the filter (MightContain resp. ContainsAll for arrays),
//        0 = some item is rejected (a false negative of the summary), n = the row has no value for the tag
func doSum(f []string) string {
	engine, cfg := f[1], f[2]
	rowToks := parseRows(f[3:])
	rows := expandRows(rowToks)
	var out []string
	itemsOf := func(r row, ti int) ([][]byte, bool) {
		tv := parseVal(r.vals[ti])
		if tv == nil {
			return nil, false
		}
		t := traceTag(tagNames[ti], tagTypes[ti], tv)
		if t.ValueArr != nil {
			return t.ValueArr, true
		}
		if t.Value != nil {
			return [][]byte{t.Value}, true
		}
		return nil, false
	}
	probe := func(sid uint64, lo, hi int64, tag string, mc func([]byte) bool, ca func([][]byte) bool) string {
		ti := tagIdx(tag)
		var sb strings.Builder
		for _, r := range rows {
			if r.sid != sid || r.ts < lo || r.ts > hi {
				continue
			}
			items, ok := itemsOf(r, ti)
			if !ok {
				sb.WriteByte('n')
				continue
			}
			good := true
			if tagVT(tag) == pbv1.ValueTypeStrArr || tagVT(tag) == pbv1.ValueTypeInt64Arr {
				good = ca(items)
				for _, it := range items {
					good = good && ca([][]byte{it})
				}
			} else {
				for _, it := range items {
					good = good && mc(it) && ca([][]byte{it})
				}
			}
			sb.WriteString(drv.B01(good))
		}
		if sb.Len() == 0 {
			return "-"
		}
		return sb.String()
	}
	switch engine {
	case "stream":
		err := stream.VerifEachSummary(streamRows(rows, cfg), func(sid uint64, lo, hi int64, tag, kind string, mn, mx []byte, mc func([]byte) bool, ca func([][]byte) bool) {
			out = append(out, fmt.Sprintf("%d@%d/%s/%s/%s/%s/%s", sid, lo, tag, kind, drv.Hex(mn), drv.Hex(mx), probe(sid, lo, hi, tag, mc, ca)))
		})
		if err != nil {
			return "E" + errClass(err)
		}
	case "trace":
		err := sidx.VerifEachSummary(sidxRows(rows), func(sid uint64, lo, hi int64, tag, kind string, mn, mx []byte, mc func([]byte) bool, ca func([][]byte) bool) {
			out = append(out, fmt.Sprintf("%d@%d/%s/%s/%s/%s/%s", sid, lo, tag, kind, drv.Hex(mn), drv.Hex(mx), probe(sid, lo, hi, tag, mc, ca)))
		})
		if err != nil {
			return "E" + errClass(err)
		}
	default:
		panic("bad engine")
	}
	sort.Strings(out)
	return joinOrDash(out)
}

// traceTag mirrors banyand/trace encodeTagValue + buildSidxTags.
func traceTag(name string, tt databasev1.TagType, tv *modelv1.TagValue) sidx.Tag {
	t := sidx.Tag{Name: name}
	switch tt {
	case databasev1.TagType_TAG_TYPE_INT:
		t.ValueType = pbv1.ValueTypeInt64
		if tv.GetInt() != nil {
			t.Value = convert.Int64ToBytes(tv.GetInt().GetValue())
		}
	case databasev1.TagType_TAG_TYPE_STRING:
		t.ValueType = pbv1.ValueTypeStr
		if tv.GetStr() != nil {
			t.Value = []byte(tv.GetStr().GetValue())
		}
	case databasev1.TagType_TAG_TYPE_INT_ARRAY:
		t.ValueType = pbv1.ValueTypeInt64Arr
		if tv.GetIntArray() != nil {
			t.ValueArr = make([][]byte, len(tv.GetIntArray().Value))
			for i, v := range tv.GetIntArray().Value {
				t.ValueArr[i] = convert.Int64ToBytes(v)
			}
		}
	case databasev1.TagType_TAG_TYPE_STRING_ARRAY:
		t.ValueType = pbv1.ValueTypeStrArr
		if tv.GetStrArray() != nil {
			t.ValueArr = make([][]byte, len(tv.GetStrArray().Value))
			for i, v := range tv.GetStrArray().Value {
				t.ValueArr[i] = []byte(v)
			}
		}
	}
	return t
}

// ---------------------------------------------------------------------------------------
// (d) real inverted index

var scratchRoot string
var invSeq int

func doInv(f []string) string {
	cfg := f[1]
	left, crit := splitBar(f[2:])
	rows := expandRows(parseRows(left))
	c := criteriaOf(crit)
	var rv [][]string
	for _, r := range rows {
		rv = append(rv, r.vals)
	}
	bits := tfBits(c, rv)
	var flt index.Filter
	var err error
	if p := drv.Safe(func() string {
		flt, _, err = compileStream(cfg, c, databasev1.IndexRule_TYPE_INVERTED)
		return ""
	}); p != "" {
		return "CPANIC " + bits
	}
	if err != nil {
		return "C" + errClass(err) + " " + bits
	}
	if flt == nil || fltName(flt) == "enode" {
		return "all " + bits
	}
	// keep lines independent of each other: the shared roaring.DummyPostingList singleton can be modified by a
	// query (finding F61); the effect inside one query stays observable, the carry-over to later lines does not.
	roaring.DummyPostingList.Reset()
	invSeq++
	dir := filepath.Join(scratchRoot, fmt.Sprintf("inv%d", invSeq))
	if err := os.MkdirAll(dir, 0o755); err != nil {
		panic(err)
	}
	defer os.RemoveAll(dir)
	ix, err := stream.VerifNewIndex(dir)
	if err != nil {
		return "E:open"
	}
	defer ix.Close()
	rules := indexRules(cfg)
	var docs index.Documents
	for n, r := range rows {
		var fields []index.Field
		for _, rule := range rules {
			if rule.Type != databasev1.IndexRule_TYPE_INVERTED {
				continue
			}
			i := tagIdx(rule.Tags[0])
			tv := parseVal(r.vals[i])
			if tv == nil {
				continue
			}
			fields = stream.VerifAppendField(fields, index.FieldKey{IndexRuleID: rule.Metadata.Id, Analyzer: rule.Analyzer, SeriesID: common.SeriesID(r.sid)}, tagTypes[i], tv, rule.NoSort)
		}
		docs = append(docs, index.Document{DocID: uint64(n + 1), Fields: fields, Timestamp: r.ts})
	}
	if err := ix.Write(docs); err != nil {
		return "E:write"
	}
	res := drv.Safe(func() string {
		ids, err := ix.Search(allSids(rows), flt)
		if err != nil {
			return "E:search"
		}
		sort.Slice(ids, func(i, j int) bool { return ids[i] < ids[j] })
		p := make([]string, len(ids))
		for i, v := range ids {
			p[i] = strconv.FormatUint(v, 10)
		}
		return joinOrDash(p)
	})
	if strings.HasPrefix(res, "PANIC") {
		res = "PANIC"
	}
	return res + " " + bits
}

// mpart <sids> <lo> <hi> <sid:ts[*count]>...   measure: real memPart writer + real partIter, time / series pruning only.
// output: <part min-max> <primary block bounds> <all blocks> <blocks returned>
func doMPart(f []string) string {
	sids := parseSids(f[1])
	lo, _ := strconv.ParseInt(f[2], 10, 64)
	hi, _ := strconv.ParseInt(f[3], 10, 64)
	var pts []measure.VerifPoint
	seen := map[uint64]bool{}
	var all []uint64
	for _, t := range f[4:] {
		cnt := 1
		if i := strings.IndexByte(t, '*'); i >= 0 {
			cnt, _ = strconv.Atoi(t[i+1:])
			t = t[:i]
		}
		p := strings.Split(t, ":")
		sid, _ := strconv.ParseUint(p[0], 10, 64)
		ts, _ := strconv.ParseInt(p[1], 10, 64)
		for k := 0; k < cnt; k++ {
			pts = append(pts, measure.VerifPoint{SeriesID: sid, Ts: ts + int64(k), Version: int64(len(pts) + 1)})
		}
		if !seen[sid] {
			seen[sid] = true
			all = append(all, sid)
		}
	}
	sort.Slice(all, func(i, j int) bool { return all[i] < all[j] })
	fmtBlocks := func(bs []measure.VerifBlock) string {
		var out []string
		for _, b := range bs {
			out = append(out, fmt.Sprintf("%d@%d-%d#%d", b.SeriesID, b.MinTs, b.MaxTs, b.Count))
		}
		sort.Strings(out)
		return joinOrDash(out)
	}
	ab, pmin, pmax, prim, err := measure.VerifScanPart(pts, all, -1<<62, 1<<62)
	if err != nil {
		return "E" + errClass(err)
	}
	got, _, _, _, err := measure.VerifScanPart(pts, sids, lo, hi)
	if err != nil {
		return "E" + errClass(err)
	}
	var pb []string
	for _, b := range prim {
		pb = append(pb, fmt.Sprintf("%d~%d", b[0], b[1]))
	}
	return fmt.Sprintf("%d~%d %s %s %s", pmin, pmax, joinOrDash(pb), fmtBlocks(ab), fmtBlocks(got))
}

// bnd <order-by tag> <rows v:v:v:v:v:v>... | <criteria>   trace buildFilter: the sidx key range [minVal,maxVal]
// derived for the order-by tag.  output: <min> <max> <tf bits>
func doBnd(f []string) string {
	tag := f[1]
	left, crit := splitBar(f[2:])
	c := criteriaOf(crit)
	var rows [][]string
	for _, t := range left {
		rows = append(rows, strings.Split(t, ":"))
	}
	bits := tfBits(c, rows)
	schema, names := traceSchema()
	_, _, _, _, mn, mx, err := logicaltrace.VerifBuildFilter(c, schema, names, map[string]int{}, nil, "", "", tag)
	if err != nil {
		return "C" + errClass(err) + " " + bits
	}
	return fmt.Sprintf("%d %d %s", mn, mx, bits)
}

// e2e <cfg> <lo> <hi> <rows | "/" batch separator> | <criteria>
// End to end through a real stream TSDB: every batch becomes one part (one mustAddElements call); the production
// stream.Query runs with the inverted and skipping filters compiled for <cfg> over all series and [lo,hi]
// (seconds relative to a base instant). output: <element ids returned> <tf bits>   (row n has element id n+1)
func doE2E(f []string) string {
	cfg := f[1]
	lo, _ := strconv.ParseInt(f[2], 10, 64)
	hi, _ := strconv.ParseInt(f[3], 10, 64)
	left, crit := splitBar(f[4:])
	c := criteriaOf(crit)
	base := time.Now().Add(-3 * time.Hour).Truncate(time.Hour)
	rules := indexRules(cfg)
	var batches [][]stream.VerifE2ERow
	var cur []stream.VerifE2ERow
	var rv [][]string
	n := 0
	for _, t := range left {
		if t == "/" {
			if len(cur) > 0 {
				batches = append(batches, cur)
				cur = nil
			}
			continue
		}
		r := parseRows([]string{t})[0]
		n++
		vals := r.vals
		rv = append(rv, vals)
		sr := streamRows([]row{r}, cfg)[0]
		sr.ElementID = uint64(n)
		sr.Ts = base.Add(time.Duration(r.ts) * time.Second).UnixNano()
		cur = append(cur, stream.VerifE2ERow{
			Entity: fmt.Sprintf("e%d", r.sid), Row: sr,
			Fields: func(sid common.SeriesID) []index.Field {
				var fields []index.Field
				for _, rule := range rules {
					if rule.Type != databasev1.IndexRule_TYPE_INVERTED {
						continue
					}
					i := tagIdx(rule.Tags[0])
					tv := parseVal(vals[i])
					if tv == nil {
						continue
					}
					fields = stream.VerifAppendField(fields, index.FieldKey{IndexRuleID: rule.Metadata.Id, Analyzer: rule.Analyzer, SeriesID: sid}, tagTypes[i], tv, rule.NoSort)
				}
				return fields
			},
		})
	}
	if len(cur) > 0 {
		batches = append(batches, cur)
	}
	bits := tfBits(c, rv)
	var inv, skp index.Filter
	var err error
	if p := drv.Safe(func() string {
		inv, _, err = compileStream(cfg, c, databasev1.IndexRule_TYPE_INVERTED)
		if err == nil {
			skp, _, err = compileStream(cfg, c, databasev1.IndexRule_TYPE_SKIPPING)
		}
		return ""
	}); p != "" {
		return "CPANIC " + bits
	}
	if err != nil {
		return "C" + errClass(err) + " " + bits
	}
	roaring.DummyPostingList.Reset()
	invSeq++
	dir := filepath.Join(scratchRoot, fmt.Sprintf("e2e%d", invSeq))
	if err := os.MkdirAll(dir, 0o755); err != nil {
		panic(err)
	}
	defer os.RemoveAll(dir)
	sm := &databasev1.Stream{
		Metadata:    &commonv1.Metadata{Name: "st", Group: "g"},
		TagFamilies: []*databasev1.TagFamilySpec{{Name: "f", Tags: append([]*databasev1.TagSpec{{Name: "e", Type: databasev1.TagType_TAG_TYPE_STRING}}, tagSpecs(false)...)}},
		Entity:      &databasev1.Entity{TagNames: []string{"e"}},
	}
	res := drv.Safe(func() string {
		ids, err := stream.VerifE2E(dir, "st", sm, batches, base.Add(time.Duration(lo)*time.Second), base.Add(time.Duration(hi)*time.Second),
			inv, skp, []model.TagProjection{{Family: "f", Names: tagNames}})
		if err != nil {
			return "E:" + errClass(err)
		}
		sort.Slice(ids, func(i, j int) bool { return ids[i] < ids[j] })
		p := make([]string, len(ids))
		for i, v := range ids {
			p[i] = strconv.FormatUint(v, 10)
		}
		return joinOrDash(p)
	})
	if strings.HasPrefix(res, "PANIC") {
		res = "PANIC"
	}
	return res + " " + bits
}

// traceDecoder mirrors banyand/trace mustDecodeTagValueAndArray for the four tag types used here.
func traceDecoder(vt pbv1.ValueType, value []byte, valueArr [][]byte) *modelv1.TagValue {
	switch vt {
	case pbv1.ValueTypeInt64:
		if value == nil {
			return pbv1.NullTagValue
		}
		return &modelv1.TagValue{Value: &modelv1.TagValue_Int{Int: &modelv1.Int{Value: convert.BytesToInt64(value)}}}
	case pbv1.ValueTypeStr:
		if value == nil {
			return pbv1.NullTagValue
		}
		return &modelv1.TagValue{Value: &modelv1.TagValue_Str{Str: &modelv1.Str{Value: string(value)}}}
	case pbv1.ValueTypeStrArr:
		if valueArr == nil {
			return pbv1.NullTagValue
		}
		var vs []string
		for _, v := range valueArr {
			vs = append(vs, string(v))
		}
		return &modelv1.TagValue{Value: &modelv1.TagValue_StrArray{StrArray: &modelv1.StrArray{Value: vs}}}
	case pbv1.ValueTypeInt64Arr:
		if valueArr == nil {
			return pbv1.NullTagValue
		}
		var vs []int64
		for _, v := range valueArr {
			vs = append(vs, convert.BytesToInt64(v))
		}
		return &modelv1.TagValue{Value: &modelv1.TagValue_IntArray{IntArray: &modelv1.IntArray{Value: vs}}}
	}
	return pbv1.NullTagValue
}

// sq <sids> <minKey|-> <maxKey|-> <sid:key:payloadhex:v*6>... | <criteria>
// A real SIDX instance (ConvertToMemPart + IntroduceMemPart), StreamingQuery with the production tag-filter adapter
// around logical.BuildTagFilter and an optional key range. Payloads repeat across elements (trace id / spans).
// output: <sorted distinct payloads returned> <tf bits>
func doSQ(f []string) string {
	sids := parseSids(f[1])
	left, crit := splitBar(f[4:])
	c := criteriaOf(crit)
	var reqs []sidx.WriteRequest
	var rv [][]string
	for _, t := range left {
		p := strings.Split(t, ":")
		sid, _ := strconv.ParseUint(p[0], 10, 64)
		key, _ := strconv.ParseInt(p[1], 10, 64)
		vals := p[3 : 3+len(tagNames)]
		rv = append(rv, vals)
		var tags []sidx.Tag
		for i, v := range vals {
			tv := parseVal(v)
			if tv == nil {
				tv = pbv1.NullTagValue
			}
			tags = append(tags, traceTag(tagNames[i], tagTypes[i], tv))
		}
		reqs = append(reqs, sidx.WriteRequest{SeriesID: common.SeriesID(sid), Key: key, Data: drv.UnHex(p[2]), Tags: tags})
	}
	bits := tfBits(c, rv)
	schema, _ := traceSchema()
	flt, err := logical.BuildTagFilter(c, map[string]int{}, schema, schema, false, "")
	if err != nil {
		return "C" + errClass(err) + " " + bits
	}
	invSeq++
	dir := filepath.Join(scratchRoot, fmt.Sprintf("sq%d", invSeq))
	defer os.RemoveAll(dir)
	opts := sidx.NewDefaultOptions()
	opts.Memory = protector.NewMemory(observability.NewBypassRegistry())
	opts.Path = dir
	sx, err := sidx.NewSIDX(fs.NewLocalFileSystem(), opts)
	if err != nil {
		return "E:open " + bits
	}
	defer sx.Close()
	mp, err := sx.ConvertToMemPart(reqs, 1, nil, nil)
	if err != nil {
		return "E:convert " + bits
	}
	sx.IntroduceMemPart(1, mp)
	req := sidx.QueryRequest{TagFilter: logical.NewTagFilterMatcher(flt, schema, traceDecoder)}
	for _, s := range sids {
		req.SeriesIDs = append(req.SeriesIDs, common.SeriesID(s))
	}
	if f[2] != "-" {
		v, _ := strconv.ParseInt(f[2], 10, 64)
		req.MinKey = &v
	}
	if f[3] != "-" {
		v, _ := strconv.ParseInt(f[3], 10, 64)
		req.MaxKey = &v
	}
	set := map[string]bool{}
	resCh, errCh := sx.StreamingQuery(context.Background(), req)
	for r := range resCh {
		if r.Error != nil {
			return "E:query " + bits
		}
		for _, d := range r.Data {
			set[drv.Hex(d)] = true
		}
	}
	if e, ok := <-errCh; ok && e != nil {
		return "E:query " + bits
	}
	var out []string
	for k := range set {
		out = append(out, k)
	}
	sort.Strings(out)
	return joinOrDash(out) + " " + bits
}

func handle(f []string) string {
	if len(f) == 0 {
		return "bad-op"
	}
	switch f[0] {
	case "bloom":
		return doBloom(f)
	case "dict":
		return doDict(f)
	case "tf":
		return doTF(f)
	case "skip":
		return doSkip(f)
	case "part", "partx":
		return doPart(f)
	case "inv", "invx":
		return doInv(f)
	case "sum":
		return doSum(f)
	case "mpart":
		return doMPart(f)
	case "bnd":
		return doBnd(f)
	case "e2e":
		return doE2E(f)
	case "sq":
		return doSQ(f)
	}
	return "bad-op"
}

func main() {
	scratchRoot = filepath.Join("/verif/.scratch", fmt.Sprintf("c08-%d", os.Getpid()))
	if v := os.Getenv("VERIF_SCRATCH"); v != "" {
		scratchRoot = filepath.Join(v, fmt.Sprintf("c08-%d", os.Getpid()))
	}
	_ = os.MkdirAll(scratchRoot, 0o755)
	defer os.RemoveAll(scratchRoot)
	drv.Run(handle)
}
