//go:build verif

// Driver for C09: ordered results are globally sorted; limit/offset is a window of them.
//
//	sort   <asc|desc> <it>|<it>|...           pkg/iter/sort.NewItemIter over in-memory sorted iterators
//	                                          it = "-" (empty) or "keyhex:id,keyhex:id,..."
//	sidx   <op>... Q <query>...               real sidx through its public interface on a scratch dir
//	       op: W<pid>=<sid>:<key>:<data>,...  ConvertToMemPart + IntroduceMemPart
//	           F<pid>+<pid>...                Flush + IntroduceFlushed
//	           M<new>=<pid>+<pid>...          Merge + IntroduceMerged
//	       query: <asc|desc>;<maxBatch>;<minKey|*>;<maxKey|*>;<sid>+<sid>...
//	mmerge <asc|desc> <off> <lim> <node>|...  measure.MergeGroupMIterators (sort.NewItemIter + sortedMIterator de-dup)
//	                                          then the row-path limitIterator; node = "-" or "ts:sid:ver:val,..."
//	smerge <asc|desc> <grp>|...               stream.MergeGroupElements; grp = "-" or "ts:id,..."
//	topq   <n> <top|bot> v1,v2,...            measure.TopQueue Insert* then Elements
//	tsidx  <asc|desc|unspec|nil> <maxBatch> <maxTrace> <inst>|<inst>...
//	                                          banyand/trace streamSIDXTraceBatches over real sidx instances (one scratch sidx per
//	                                          <inst>; inst = "-" or parts separated by ';', part = "key:traceID,..."; series 1)
//	slimit <asc|desc> <off> <lim> <page>|...  stream row-path plan limit -> localIndexScan over storage pages ("-" or "ts,ts,..")
//	djp    <stream|trace> <asc|desc> min:max,min:max,...   getDisjointParts on bare part time ranges -> groups of part ids
//	squery <asc|desc> <min> <max> <maxElem> <sid>+.. <part>|..  banyand/stream tsResult over real mem parts; part = "sid:ts,..."
//	miq    <asc|desc> <ent|fld> <seg>|<seg>..  measure index-mode ordered query over a real TSDB with one daily segment per
//	                                          <seg> = "name:sort,..." (buildIndexQueryResult, segResultHeap, indexSortResult)
//	sidxq  <maxElem> <iter> <part>|<part>..   banyand/stream idxResult (index-ordered stream query) over real mem parts; part and
//	                                          iter = "sid:ts:id,..." (iter = what the ordered index yields, in sort-key order)
//	dq     <trace|measure> <none|asc|desc> <nodes> <rows> <limit> <offset> <seed>
//	                                          real DistributedAnalyze + Execute of the trace / measure logical plan against fake
//	                                          data nodes that evaluate the pushed-down request faithfully (limit 0 = unset)
//	mqr    <ts|sid> <asc|desc> <min> <max> <sid>+<sid>.. <part>|<part>..
//	                                          banyand/measure queryResult over real mem parts (one per <part>),
//	                                          part = "sid:ts:ver:val,..."; output = one "sid=ts:ver:val,.." per Pull
package main

import (
	"context"
	"fmt"
	"os"
	"path/filepath"
	"strconv"
	"strings"
	"time"

	"google.golang.org/protobuf/types/known/timestamppb"

	"github.com/apache/skywalking-banyandb/api/common"
	commonv1 "github.com/apache/skywalking-banyandb/api/proto/banyandb/common/v1"
	databasev1 "github.com/apache/skywalking-banyandb/api/proto/banyandb/database/v1"
	tracev1 "github.com/apache/skywalking-banyandb/api/proto/banyandb/trace/v1"
	measurev1 "github.com/apache/skywalking-banyandb/api/proto/banyandb/measure/v1"
	modelv1 "github.com/apache/skywalking-banyandb/api/proto/banyandb/model/v1"
	streamv1 "github.com/apache/skywalking-banyandb/api/proto/banyandb/stream/v1"
	"github.com/apache/skywalking-banyandb/banyand/internal/sidx"
	"github.com/apache/skywalking-banyandb/banyand/internal/verifdrv/drv"
	"github.com/apache/skywalking-banyandb/banyand/measure"
	"github.com/apache/skywalking-banyandb/banyand/observability"
	"github.com/apache/skywalking-banyandb/banyand/protector"
	bstream "github.com/apache/skywalking-banyandb/banyand/stream"
	"github.com/apache/skywalking-banyandb/banyand/trace"
	"github.com/apache/skywalking-banyandb/pkg/bus"
	"github.com/apache/skywalking-banyandb/pkg/fs"
	"github.com/apache/skywalking-banyandb/pkg/index"
	itersort "github.com/apache/skywalking-banyandb/pkg/iter/sort"
	"github.com/apache/skywalking-banyandb/pkg/logger"
	"github.com/apache/skywalking-banyandb/pkg/query/executor"
	"github.com/apache/skywalking-banyandb/pkg/query/logical"
	lmeasure "github.com/apache/skywalking-banyandb/pkg/query/logical/measure"
	lstream "github.com/apache/skywalking-banyandb/pkg/query/logical/stream"
	ltrace "github.com/apache/skywalking-banyandb/pkg/query/logical/trace"
)

var (
	scratch string
	caseNo  int
)

// ---------------------------------------------------------------- pkg/iter/sort

type item struct {
	key []byte
	id  string
}

func (i item) SortedField() []byte { return i.key }

type sliceIter struct {
	items []item
	pos   int
}

func (s *sliceIter) Next() bool {
	if s.pos >= len(s.items) {
		return false
	}
	s.pos++
	return true
}
func (s *sliceIter) Val() item    { return s.items[s.pos-1] }
func (s *sliceIter) Close() error { return nil }

func doSort(f []string) string {
	if len(f) != 3 {
		return "bad-op"
	}
	desc := f[1] == "desc"
	var iters []itersort.Iterator[item]
	for _, spec := range strings.Split(f[2], "|") {
		si := &sliceIter{}
		if spec != "-" {
			for _, e := range strings.Split(spec, ",") {
				kv := strings.SplitN(e, ":", 2)
				si.items = append(si.items, item{key: drv.UnHex(kv[0]), id: kv[1]})
			}
		}
		iters = append(iters, si)
	}
	it := itersort.NewItemIter(iters, desc)
	var out []string
	for it.Next() {
		v := it.Val()
		out = append(out, drv.Hex(v.key)+":"+v.id)
	}
	if err := it.Close(); err != nil {
		return "ERR"
	}
	if len(out) == 0 {
		return "-"
	}
	return strings.Join(out, ",")
}

// ---------------------------------------------------------------- sidx

func ids(s string) map[uint64]struct{} {
	m := map[uint64]struct{}{}
	for _, x := range strings.Split(s, "+") {
		v, err := strconv.ParseUint(x, 10, 64)
		if err != nil {
			panic("bad id " + x)
		}
		m[v] = struct{}{}
	}
	return m
}

func renderBatches(rs []*sidx.QueryResponse) string {
	if len(rs) == 0 {
		return "-"
	}
	var bs []string
	for _, r := range rs {
		if r.Error != nil {
			return "ERR"
		}
		if len(r.Keys) != len(r.Data) || len(r.Keys) != len(r.SIDs) {
			return "ERR-ragged"
		}
		var es []string
		for i := range r.Keys {
			es = append(es, fmt.Sprintf("%d:%s:%d", r.Keys[i], string(r.Data[i]), r.SIDs[i]))
		}
		if len(es) == 0 {
			bs = append(bs, "_")
		} else {
			bs = append(bs, strings.Join(es, ","))
		}
	}
	return strings.Join(bs, "/")
}

func doSidx(f []string) string {
	caseNo++
	dir := filepath.Join(scratch, fmt.Sprintf("s%d", caseNo))
	if err := os.MkdirAll(dir, 0o755); err != nil {
		panic(err)
	}
	defer os.RemoveAll(dir)
	opts, err := sidx.NewOptions(dir, protector.NewMemory(observability.NewBypassRegistry()))
	if err != nil {
		panic(err)
	}
	s, err := sidx.NewSIDX(fs.NewLocalFileSystem(), opts)
	if err != nil {
		panic(err)
	}
	defer s.Close()
	i := 1
	for ; i < len(f) && f[i] != "Q"; i++ {
		op := f[i]
		switch op[0] {
		case 'W':
			eq := strings.IndexByte(op, '=')
			pid, perr := strconv.ParseUint(op[1:eq], 10, 64)
			if perr != nil {
				return "bad-op"
			}
			var reqs []sidx.WriteRequest
			for _, e := range strings.Split(op[eq+1:], ",") {
				p := strings.SplitN(e, ":", 3)
				sid, _ := strconv.ParseUint(p[0], 10, 64)
				key, _ := strconv.ParseInt(p[1], 10, 64)
				reqs = append(reqs, sidx.WriteRequest{SeriesID: common.SeriesID(sid), Key: key, Data: []byte(p[2])})
			}
			mp, cerr := s.ConvertToMemPart(reqs, 1, nil, nil)
			if cerr != nil {
				return "ERR-write"
			}
			s.IntroduceMemPart(pid, mp)
		case 'F':
			intro, ferr := s.Flush(ids(op[1:]))
			if ferr != nil || intro == nil {
				return "ERR-flush"
			}
			s.IntroduceFlushed(intro)
			intro.Release()
		case 'M':
			eq := strings.IndexByte(op, '=')
			nid, perr := strconv.ParseUint(op[1:eq], 10, 64)
			if perr != nil {
				return "bad-op"
			}
			intro, merr := s.Merge(nil, ids(op[eq+1:]), nid, nil)
			if merr != nil || intro == nil {
				return "ERR-merge"
			}
			s.IntroduceMerged(intro)()
			intro.Release()
		default:
			return "bad-op"
		}
	}
	out := []string{"L " + sidx.VerifC09Layout(s)}
	for i++; i < len(f); i++ {
		q := strings.Split(f[i], ";")
		if len(q) != 5 {
			return "bad-op"
		}
		req := sidx.QueryRequest{}
		if q[0] == "desc" {
			req.Order = &index.OrderBy{Sort: modelv1.Sort_SORT_DESC}
		} else {
			req.Order = &index.OrderBy{Sort: modelv1.Sort_SORT_ASC}
		}
		req.MaxBatchSize, _ = strconv.Atoi(q[1])
		if q[2] != "*" {
			v, _ := strconv.ParseInt(q[2], 10, 64)
			req.MinKey = &v
		}
		if q[3] != "*" {
			v, _ := strconv.ParseInt(q[3], 10, 64)
			req.MaxKey = &v
		}
		for _, x := range strings.Split(q[4], "+") {
			v, _ := strconv.ParseUint(x, 10, 64)
			req.SeriesIDs = append(req.SeriesIDs, common.SeriesID(v))
		}
		var st string
		{
			var rs []*sidx.QueryResponse
			resCh, errCh := s.StreamingQuery(context.Background(), req)
			for r := range resCh {
				rs = append(rs, r)
			}
			st = renderBatches(rs)
			for e := range errCh {
				if e != nil {
					st = "ERR"
				}
			}
		}
		var sy string
		rs, qerr := s.QuerySync(context.Background(), req)
		if qerr != nil {
			sy = "ERR"
		} else {
			sy = renderBatches(rs)
		}
		out = append(out, "S "+st+" Y "+sy)
	}
	return strings.Join(out, " | ")
}

// ---------------------------------------------------------------- measure merge / limit

type sliceMIter struct {
	dps []*measurev1.InternalDataPoint
	pos int
}

func (s *sliceMIter) Next() bool {
	if s.pos >= len(s.dps) {
		return false
	}
	s.pos++
	return true
}

func (s *sliceMIter) Current() []*measurev1.InternalDataPoint {
	return []*measurev1.InternalDataPoint{s.dps[s.pos-1]}
}
func (s *sliceMIter) Close() error { return nil }

func tsOf(n int64) *timestamppb.Timestamp {
	return &timestamppb.Timestamp{Seconds: n / 1000000000, Nanos: int32(n % 1000000000)}
}

func doMMerge(f []string) string {
	if len(f) != 5 {
		return "bad-op"
	}
	off, _ := strconv.ParseUint(f[2], 10, 32)
	lim, _ := strconv.ParseUint(f[3], 10, 32)
	var iters []executor.MIterator
	for _, spec := range strings.Split(f[4], "|") {
		mi := &sliceMIter{}
		if spec != "-" {
			for _, e := range strings.Split(spec, ",") {
				p := strings.Split(e, ":")
				ts, _ := strconv.ParseInt(p[0], 10, 64)
				sid, _ := strconv.ParseUint(p[1], 10, 64)
				ver, _ := strconv.ParseInt(p[2], 10, 64)
				val, _ := strconv.ParseInt(p[3], 10, 64)
				mi.dps = append(mi.dps, &measurev1.InternalDataPoint{DataPoint: &measurev1.DataPoint{
					Timestamp: tsOf(ts), Sid: sid, Version: ver,
					Fields: []*measurev1.DataPoint_Field{{Name: "v", Value: &modelv1.FieldValue{Value: &modelv1.FieldValue_Int{Int: &modelv1.Int{Value: val}}}}},
				}})
			}
		}
		iters = append(iters, mi)
	}
	crit := &measurev1.QueryRequest{}
	if f[1] == "desc" {
		crit.OrderBy = &modelv1.QueryOrder{Sort: modelv1.Sort_SORT_DESC}
	} else if f[1] == "asc" {
		crit.OrderBy = &modelv1.QueryOrder{Sort: modelv1.Sort_SORT_ASC}
	}
	order, err := lmeasure.ResolveCrossGroupMergeOrder(crit, nil)
	if err != nil {
		return "ERR-order"
	}
	merged := lmeasure.MergeGroupMIterators(iters, order)
	it := lmeasure.VerifC09Limit(merged, uint32(off), uint32(lim))
	var out []string
	for it.Next() {
		for _, idp := range it.Current() {
			dp := idp.GetDataPoint()
			out = append(out, fmt.Sprintf("%d:%d:%d:%d", dp.Timestamp.AsTime().UnixNano(), dp.Sid, dp.Version, dp.Fields[0].Value.GetInt().GetValue()))
		}
	}
	_ = it.Close()
	if len(out) == 0 {
		return "-"
	}
	return strings.Join(out, ",")
}

func doSMerge(f []string) string {
	if len(f) != 3 {
		return "bad-op"
	}
	var groups [][]*streamv1.Element
	for _, spec := range strings.Split(f[2], "|") {
		var g []*streamv1.Element
		if spec != "-" {
			for _, e := range strings.Split(spec, ",") {
				p := strings.SplitN(e, ":", 2)
				ts, _ := strconv.ParseInt(p[0], 10, 64)
				g = append(g, &streamv1.Element{ElementId: p[1], Timestamp: tsOf(ts)})
			}
		}
		groups = append(groups, g)
	}
	res := lstream.MergeGroupElements(groups, true, logical.TagSpec{}, f[1] == "desc")
	var out []string
	for _, e := range res {
		out = append(out, fmt.Sprintf("%d:%s", e.Timestamp.AsTime().UnixNano(), e.ElementId))
	}
	if len(out) == 0 {
		return "-"
	}
	return strings.Join(out, ",")
}

func doTopQ(f []string) string {
	if len(f) != 4 {
		return "bad-op"
	}
	n, _ := strconv.Atoi(f[1])
	q := lmeasure.NewTopQueue[int64](n, f[2] == "bot")
	var acc strings.Builder
	if f[3] != "-" {
		for _, x := range strings.Split(f[3], ",") {
			v, _ := strconv.ParseInt(x, 10, 64)
			acc.WriteString(drv.B01(q.Insert(lmeasure.NewTopElement[int64](nil, v))))
		}
	}
	var out []string
	for _, e := range q.Elements() {
		out = append(out, strconv.FormatInt(e.Val(), 10))
	}
	a := acc.String()
	if a == "" {
		a = "-"
	}
	if len(out) == 0 {
		return a + " -"
	}
	return a + " " + strings.Join(out, ",")
}

func doMQR(f []string) string {
	if len(f) != 7 {
		return "bad-op"
	}
	minTS, _ := strconv.ParseInt(f[3], 10, 64)
	maxTS, _ := strconv.ParseInt(f[4], 10, 64)
	var sids []uint64
	for _, x := range strings.Split(f[5], "+") {
		v, _ := strconv.ParseUint(x, 10, 64)
		sids = append(sids, v)
	}
	var parts [][]measure.VerifC09DP
	for _, spec := range strings.Split(f[6], "|") {
		var rows []measure.VerifC09DP
		for _, e := range strings.Split(spec, ",") {
			p := strings.Split(e, ":")
			sid, _ := strconv.ParseUint(p[0], 10, 64)
			ts, _ := strconv.ParseInt(p[1], 10, 64)
			ver, _ := strconv.ParseInt(p[2], 10, 64)
			val, _ := strconv.ParseUint(p[3], 10, 64)
			rows = append(rows, measure.VerifC09DP{Sid: sid, Ts: ts, Version: ver, Val: val})
		}
		parts = append(parts, rows)
	}
	return measure.VerifC09Query(parts, sids, minTS, maxTS, f[1] == "ts", f[2] != "desc")
}

func doTSidx(f []string) string {
	if len(f) != 5 {
		return "bad-op"
	}
	caseNo++
	req := sidx.QueryRequest{SeriesIDs: []common.SeriesID{1}}
	switch f[1] {
	case "asc":
		req.Order = &index.OrderBy{Sort: modelv1.Sort_SORT_ASC}
	case "desc":
		req.Order = &index.OrderBy{Sort: modelv1.Sort_SORT_DESC}
	case "unspec":
		req.Order = &index.OrderBy{Sort: modelv1.Sort_SORT_UNSPECIFIED}
	}
	req.MaxBatchSize, _ = strconv.Atoi(f[2])
	maxTrace, _ := strconv.Atoi(f[3])
	var instances []sidx.SIDX
	root := filepath.Join(scratch, fmt.Sprintf("t%d", caseNo))
	defer os.RemoveAll(root)
	defer func() {
		for _, s := range instances {
			_ = s.Close()
		}
	}()
	for i, spec := range strings.Split(f[4], "|") {
		dir := filepath.Join(root, fmt.Sprintf("i%d", i))
		if err := os.MkdirAll(dir, 0o755); err != nil {
			panic(err)
		}
		opts, err := sidx.NewOptions(dir, protector.NewMemory(observability.NewBypassRegistry()))
		if err != nil {
			panic(err)
		}
		s, err := sidx.NewSIDX(fs.NewLocalFileSystem(), opts)
		if err != nil {
			panic(err)
		}
		instances = append(instances, s)
		if spec == "-" {
			continue
		}
		for pi, part := range strings.Split(spec, ";") {
			var reqs []sidx.WriteRequest
			for _, e := range strings.Split(part, ",") {
				kv := strings.SplitN(e, ":", 2)
				key, _ := strconv.ParseInt(kv[0], 10, 64)
				reqs = append(reqs, sidx.WriteRequest{SeriesID: 1, Key: key, Data: trace.VerifC09EncodeTraceID(kv[1])})
			}
			mp, cerr := s.ConvertToMemPart(reqs, 1, nil, nil)
			if cerr != nil {
				return "ERR-write"
			}
			s.IntroduceMemPart(uint64(pi+1), mp)
		}
	}
	return trace.VerifC09StreamSIDX(instances, req, maxTrace)
}

func doSLimit(f []string) string {
	if len(f) != 5 {
		return "bad-op"
	}
	off, _ := strconv.ParseUint(f[2], 10, 32)
	lim, _ := strconv.ParseUint(f[3], 10, 32)
	var pages [][]int64
	for _, spec := range strings.Split(f[4], "|") {
		pg := []int64{}
		if spec != "-" {
			for _, x := range strings.Split(spec, ",") {
				v, _ := strconv.ParseInt(x, 10, 64)
				pg = append(pg, v)
			}
		}
		pages = append(pages, pg)
	}
	res, err := lstream.VerifC09Limit(pages, uint32(off), uint32(lim), f[1] == "desc")
	if err != nil {
		return "ERR"
	}
	if len(res) == 0 {
		return "-"
	}
	var out []string
	for _, v := range res {
		out = append(out, strconv.FormatInt(v, 10))
	}
	return strings.Join(out, ",")
}

func doDJP(f []string) string {
	if len(f) != 4 {
		return "bad-op"
	}
	var ranges [][2]int64
	for _, e := range strings.Split(f[3], ",") {
		kv := strings.SplitN(e, ":", 2)
		a, _ := strconv.ParseInt(kv[0], 10, 64)
		b, _ := strconv.ParseInt(kv[1], 10, 64)
		ranges = append(ranges, [2]int64{a, b})
	}
	var groups [][]uint64
	if f[1] == "trace" {
		groups = trace.VerifC09Disjoint(ranges, f[2] != "desc")
	} else {
		groups = bstream.VerifC09Disjoint(ranges, f[2] != "desc")
	}
	var gs []string
	for _, g := range groups {
		var ids []string
		for _, id := range g {
			ids = append(ids, strconv.FormatUint(id, 10))
		}
		gs = append(gs, strings.Join(ids, ","))
	}
	if len(gs) == 0 {
		return "-"
	}
	return strings.Join(gs, "/")
}

func doSQuery(f []string) string {
	if len(f) != 7 {
		return "bad-op"
	}
	minTS, _ := strconv.ParseInt(f[2], 10, 64)
	maxTS, _ := strconv.ParseInt(f[3], 10, 64)
	maxElem, _ := strconv.Atoi(f[4])
	var sids []uint64
	for _, x := range strings.Split(f[5], "+") {
		v, _ := strconv.ParseUint(x, 10, 64)
		sids = append(sids, v)
	}
	var parts [][]bstream.VerifC09Elem
	for _, spec := range strings.Split(f[6], "|") {
		var rows []bstream.VerifC09Elem
		for _, e := range strings.Split(spec, ",") {
			kv := strings.SplitN(e, ":", 2)
			sid, _ := strconv.ParseUint(kv[0], 10, 64)
			ts, _ := strconv.ParseInt(kv[1], 10, 64)
			rows = append(rows, bstream.VerifC09Elem{Sid: sid, Ts: ts})
		}
		parts = append(parts, rows)
	}
	res, err := bstream.VerifC09TSQuery(parts, sids, minTS, maxTS, f[1] != "desc", maxElem)
	if err != nil {
		return "ERR"
	}
	if len(res) == 0 {
		return "-"
	}
	var out []string
	for _, v := range res {
		out = append(out, strconv.FormatInt(v, 10))
	}
	return strings.Join(out, ",")
}

func doMIQ(f []string) string {
	if len(f) != 4 {
		return "bad-op"
	}
	caseNo++
	dir := filepath.Join(scratch, fmt.Sprintf("m%d", caseNo))
	if err := os.MkdirAll(dir, 0o755); err != nil {
		panic(err)
	}
	defer os.RemoveAll(dir)
	var segs [][]measure.VerifC09Doc
	for _, spec := range strings.Split(f[3], "|") {
		var docs []measure.VerifC09Doc
		for _, e := range strings.Split(spec, ",") {
			kv := strings.SplitN(e, ":", 2)
			v, _ := strconv.ParseInt(kv[1], 10, 64)
			docs = append(docs, measure.VerifC09Doc{Name: kv[0], Sort: v})
		}
		segs = append(segs, docs)
	}
	out, err := measure.VerifC09IndexQuery(dir, segs, f[1] == "desc", f[2] == "fld")
	if err != nil {
		return "ERR " + strings.ReplaceAll(err.Error(), " ", "_")
	}
	return out
}

func parseIdxElems(spec string) []bstream.VerifC09IdxElem {
	var rows []bstream.VerifC09IdxElem
	for _, e := range strings.Split(spec, ",") {
		p := strings.Split(e, ":")
		sid, _ := strconv.ParseUint(p[0], 10, 64)
		ts, _ := strconv.ParseInt(p[1], 10, 64)
		id, _ := strconv.ParseUint(p[2], 10, 64)
		rows = append(rows, bstream.VerifC09IdxElem{Sid: sid, Ts: ts, ID: id})
	}
	return rows
}

func doSIdxQ(f []string) string {
	if len(f) != 4 {
		return "bad-op"
	}
	maxElem, _ := strconv.Atoi(f[1])
	var parts [][]bstream.VerifC09IdxElem
	for _, spec := range strings.Split(f[3], "|") {
		parts = append(parts, parseIdxElems(spec))
	}
	res, err := bstream.VerifC09IdxQuery(parts, parseIdxElems(f[2]), maxElem)
	if err != nil {
		return "ERR"
	}
	var pages []string
	var cur []string
	for _, id := range res {
		if id == 0 {
			pages = append(pages, strings.Join(cur, ","))
			cur = nil
			continue
		}
		cur = append(cur, strconv.FormatUint(id, 10))
	}
	if len(pages) == 0 {
		return "-"
	}
	return strings.Join(pages, "/")
}

type dqFuture struct{ m bus.Message }

func (f dqFuture) Get() (bus.Message, error)      { return f.m, nil }
func (f dqFuture) GetAll() ([]bus.Message, error) { return []bus.Message{f.m}, nil }

// dqCluster plays the data nodes: node n owns rows (ids, ordered ascending by id = key = time); it answers the pushed-down
// request the way a data node does: requested order, the first Limit rows (the pushed request carries no offset).
type dqCluster struct {
	kind   string
	nodes  [][]int
	pushed []string
}

func (c *dqCluster) Broadcast(_ time.Duration, _ bus.Topic, message bus.Message) ([]bus.Future, error) {
	var limit int
	desc := false
	switch req := message.Data().(type) {
	case *tracev1.QueryRequest:
		limit = int(req.GetLimit())
		c.pushed = append(c.pushed, fmt.Sprintf("%d+%d", req.GetLimit(), req.GetOffset()))
		desc = req.GetOrderBy() != nil && req.GetOrderBy().GetSort() == modelv1.Sort_SORT_DESC
	case *measurev1.InternalQueryRequest:
		limit = int(req.GetRequest().GetLimit())
		c.pushed = append(c.pushed, fmt.Sprintf("%d+%d", req.GetRequest().GetLimit(), req.GetRequest().GetOffset()))
		desc = req.GetRequest().GetOrderBy() != nil && req.GetRequest().GetOrderBy().GetSort() == modelv1.Sort_SORT_DESC
	default:
		return nil, fmt.Errorf("unexpected message %T", message.Data())
	}
	var ff []bus.Future
	for _, rows := range c.nodes {
		own := append([]int{}, rows...)
		if desc {
			for i, j := 0, len(own)-1; i < j; i, j = i+1, j-1 {
				own[i], own[j] = own[j], own[i]
			}
		}
		if limit < len(own) {
			own = own[:limit]
		}
		if c.kind == "trace" {
			resp := &tracev1.InternalQueryResponse{}
			for _, i := range own {
				resp.InternalTraces = append(resp.InternalTraces, &tracev1.InternalTrace{TraceId: fmt.Sprintf("t%05d", i), Key: int64(i)})
			}
			ff = append(ff, dqFuture{m: bus.NewMessage(1, resp)})
		} else {
			resp := &measurev1.InternalQueryResponse{}
			for _, i := range own {
				resp.DataPoints = append(resp.DataPoints, &measurev1.InternalDataPoint{DataPoint: &measurev1.DataPoint{
					Timestamp: tsOf(int64(i+1) * 1000000000), Sid: uint64(i + 1), Version: 1,
				}})
			}
			ff = append(ff, dqFuture{m: bus.NewMessage(1, resp)})
		}
	}
	return ff, nil
}

func (c *dqCluster) TimeRange() *modelv1.TimeRange {
	return &modelv1.TimeRange{Begin: tsOf(0), End: tsOf(1000000 * 1000000000)}
}
func (c *dqCluster) NodeSelectors() map[string][]string { return nil }

func doDQ(f []string) string {
	if len(f) != 8 {
		return "bad-op"
	}
	kind, order := f[1], f[2]
	nodes, _ := strconv.Atoi(f[3])
	rows, _ := strconv.Atoi(f[4])
	limit, _ := strconv.Atoi(f[5])
	offset, _ := strconv.Atoi(f[6])
	seed, _ := strconv.Atoi(f[7])
	cl := &dqCluster{kind: kind, nodes: make([][]int, nodes)}
	for i := 0; i < rows; i++ {
		n := int((uint64(i)*2654435761+uint64(seed))%7919) % nodes
		cl.nodes[n] = append(cl.nodes[n], i)
	}
	var ob *modelv1.QueryOrder
	switch order {
	case "asc":
		ob = &modelv1.QueryOrder{Sort: modelv1.Sort_SORT_ASC}
	case "desc":
		ob = &modelv1.QueryOrder{Sort: modelv1.Sort_SORT_DESC}
	}
	ctx := executor.WithDistributedExecutionContext(context.Background(), cl)
	var ids []string
	if kind == "trace" {
		tr := &databasev1.Trace{
			Tags: []*databasev1.TraceTagSpec{
				{Name: "trace_id", Type: databasev1.TagType_TAG_TYPE_STRING},
				{Name: "duration", Type: databasev1.TagType_TAG_TYPE_INT},
			},
			TraceIdTagName: "trace_id",
		}
		s, err := ltrace.BuildSchema(tr, []*databasev1.IndexRule{{Tags: []string{"duration"}}})
		if err != nil {
			return "SCHEMAERR"
		}
		req := &tracev1.QueryRequest{Name: "t", Groups: []string{"g"}, TagProjection: []string{}, Limit: uint32(limit), Offset: uint32(offset), OrderBy: ob}
		plan, err := ltrace.DistributedAnalyze(req, []logical.Schema{s})
		if err != nil {
			return "ANALYZEERR"
		}
		it, err := plan.(executor.TraceExecutable).Execute(ctx)
		if err != nil {
			return "EXECERR"
		}
		for {
			r, ok := it.Next()
			if !ok {
				break
			}
			v, _ := strconv.Atoi(strings.TrimPrefix(r.TID, "t"))
			ids = append(ids, strconv.Itoa(v))
		}
	} else {
		md := &databasev1.Measure{
			Metadata: &commonv1.Metadata{Name: "m", Group: "g"},
			TagFamilies: []*databasev1.TagFamilySpec{{Name: "default",
				Tags: []*databasev1.TagSpec{{Name: "svc", Type: databasev1.TagType_TAG_TYPE_STRING}}}},
			Entity: &databasev1.Entity{TagNames: []string{"svc"}},
		}
		s, err := lmeasure.BuildSchema(md, nil)
		if err != nil {
			return "SCHEMAERR"
		}
		req := &measurev1.QueryRequest{Name: "m", Groups: []string{"g"}, Limit: uint32(limit), Offset: uint32(offset), OrderBy: ob}
		plan, err := lmeasure.DistributedAnalyze(req, []logical.Schema{s}, 0)
		if err != nil {
			return "ANALYZEERR"
		}
		it, err := plan.(executor.MeasureExecutable).Execute(ctx)
		if err != nil {
			return "EXECERR"
		}
		for it.Next() {
			for _, idp := range it.Current() {
				ids = append(ids, strconv.FormatUint(idp.GetDataPoint().GetSid()-1, 10))
			}
		}
		_ = it.Close()
	}
	got := "-"
	if len(ids) > 0 {
		got = strings.Join(ids, ",")
	}
	return "pushed=" + strings.Join(cl.pushed, ",") + " got=" + got
}

func handle(f []string) string {
	if len(f) == 0 {
		return "bad-op"
	}
	switch f[0] {
	case "sort":
		return doSort(f)
	case "sidx", "sidxdup", "sidxf11":
		return doSidx(f)
	case "mmerge":
		return doMMerge(f)
	case "smerge":
		return doSMerge(f)
	case "topq":
		return doTopQ(f)
	case "mqr":
		return doMQR(f)
	case "tsidx":
		return doTSidx(f)
	case "sidxq":
		return doSIdxQ(f)
	case "dq":
		return doDQ(f)
	case "djp":
		return doDJP(f)
	case "squery":
		return doSQuery(f)
	case "miq":
		return doMIQ(f)
	case "slimit":
		return doSLimit(f)
	}
	return "bad-op"
}

func main() {
	_ = logger.Init(logger.Logging{Env: "prod", Level: "error"})
	root := os.Getenv("VERIF_SCRATCH")
	if root == "" {
		root = "/verif/.scratch"
	}
	if err := os.MkdirAll(root, 0o755); err != nil {
		panic(err)
	}
	var err error
	scratch, err = os.MkdirTemp(root, "c09-")
	if err != nil {
		panic(err)
	}
	defer os.RemoveAll(scratch)
	drv.Run(handle)
}
