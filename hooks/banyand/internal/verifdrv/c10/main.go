//go:build verif

// Driver for C10: aggregation functions (Map/Reduce/Partial wire form), TopQueue, the row-path
// measure plans (group-by, aggregation, top, distributed de-dup + reduce) and the vectorized
// BatchAggregation Map/Reduce operators, all run in-process on the line protocol of checks/C10.py.
package main

import (
	"context"
	"fmt"
	"math"
	"strconv"
	"strings"
	"time"

	"google.golang.org/protobuf/proto"
	"google.golang.org/protobuf/types/known/timestamppb"

	"github.com/apache/skywalking-banyandb/api/common"
	commonv1 "github.com/apache/skywalking-banyandb/api/proto/banyandb/common/v1"
	databasev1 "github.com/apache/skywalking-banyandb/api/proto/banyandb/database/v1"
	measurev1 "github.com/apache/skywalking-banyandb/api/proto/banyandb/measure/v1"
	modelv1 "github.com/apache/skywalking-banyandb/api/proto/banyandb/model/v1"
	"github.com/apache/skywalking-banyandb/banyand/dquery"
	"github.com/apache/skywalking-banyandb/banyand/internal/verifdrv/drv"
	bmeasure "github.com/apache/skywalking-banyandb/banyand/measure"
	"github.com/apache/skywalking-banyandb/pkg/bus"
	"github.com/apache/skywalking-banyandb/pkg/index"
	pbv1 "github.com/apache/skywalking-banyandb/pkg/pb/v1"
	"github.com/apache/skywalking-banyandb/pkg/query/aggregation"
	"github.com/apache/skywalking-banyandb/pkg/query/executor"
	"github.com/apache/skywalking-banyandb/pkg/query/logical"
	lmeasure "github.com/apache/skywalking-banyandb/pkg/query/logical/measure"
	"github.com/apache/skywalking-banyandb/pkg/query/model"
	"github.com/apache/skywalking-banyandb/pkg/query/vectorized"
	vmeasure "github.com/apache/skywalking-banyandb/pkg/query/vectorized/measure"
	"github.com/apache/skywalking-banyandb/pkg/query/vectorized/measure/frame"
)

// ---------------------------------------------------------------------------------------
// parsing helpers

func parseFn(s string) modelv1.AggregationFunction {
	switch s {
	case "sum":
		return modelv1.AggregationFunction_AGGREGATION_FUNCTION_SUM
	case "count":
		return modelv1.AggregationFunction_AGGREGATION_FUNCTION_COUNT
	case "min":
		return modelv1.AggregationFunction_AGGREGATION_FUNCTION_MIN
	case "max":
		return modelv1.AggregationFunction_AGGREGATION_FUNCTION_MAX
	case "mean":
		return modelv1.AggregationFunction_AGGREGATION_FUNCTION_MEAN
	}
	panic("bad fn " + s)
}

func parseInts(s string) []int64 {
	if s == "-" || s == "" {
		return nil
	}
	parts := strings.Split(s, ",")
	out := make([]int64, len(parts))
	for i, p := range parts {
		v, err := strconv.ParseInt(p, 10, 64)
		if err != nil {
			panic("bad int " + p)
		}
		out[i] = v
	}
	return out
}

// ---------------------------------------------------------------------------------------
// fn: pkg/query/aggregation on a partitioned list

// fn: an empty partition sends its Map partial; fns: an empty partition sends nothing (what the plans do);
// fnz: an empty partition is decoded from an empty field list (the F12 form, sent by no plan).
func doFn(f []string) string {
	af := parseFn(f[1])
	form := map[string]string{"fn": "p", "fns": "s", "fnz": "z"}[f[0]]
	var parts [][]int64
	for _, p := range strings.Split(f[2], "|") {
		parts = append(parts, parseInts(p))
	}
	whole, err := aggregation.NewMap[int64](af)
	if err != nil {
		return "ERR"
	}
	red, err := aggregation.NewReduce[int64](af)
	if err != nil {
		return "ERR"
	}
	var ps []string
	for _, p := range parts {
		m, _ := aggregation.NewMap[int64](af)
		for _, v := range p {
			m.In(v)
			whole.In(v)
		}
		part := m.Partial()
		ps = append(ps, fmt.Sprintf("%d:%d", part.Value, part.Count))
		if len(p) == 0 && form == "s" {
			continue
		}
		fvs, encErr := aggregation.PartialToFieldValues(af, part)
		if encErr != nil {
			return "ERR"
		}
		if len(p) == 0 && form == "z" {
			fvs = nil
		}
		// the wire: every field value goes through protobuf
		for i, fv := range fvs {
			b, mErr := proto.Marshal(fv)
			if mErr != nil {
				return "ERR"
			}
			nfv := &modelv1.FieldValue{}
			if uErr := proto.Unmarshal(b, nfv); uErr != nil {
				return "ERR"
			}
			fvs[i] = nfv
		}
		back, decErr := aggregation.FieldValuesToPartial[int64](af, fvs)
		if decErr != nil {
			return "ERR"
		}
		red.Combine(back)
	}
	return fmt.Sprintf("whole=%d parts=%s red=%d", whole.Val(), strings.Join(ps, ";"), red.Val())
}

// ff: float64 accumulators, single partition, bit patterns only.
func doFloat(f []string) string {
	af := parseFn(f[1])
	m, err := aggregation.NewMap[float64](af)
	if err != nil {
		return "ERR"
	}
	if f[2] != "-" {
		for _, h := range strings.Split(f[2], ",") {
			u, pErr := strconv.ParseUint(h, 16, 64)
			if pErr != nil {
				panic("bad float bits " + h)
			}
			m.In(math.Float64frombits(u))
		}
	}
	p := m.Partial()
	return fmt.Sprintf("val=%016x part=%016x:%016x", math.Float64bits(m.Val()), math.Float64bits(p.Value), math.Float64bits(p.Count))
}

// ---------------------------------------------------------------------------------------
// top: measure_top.go TopQueue

func doTop(f []string) string {
	n, _ := strconv.Atoi(f[1])
	reverted := f[2] == "a"
	vals := parseInts(f[3])
	q := lmeasure.NewTopQueue[int64](n, reverted)
	var acc strings.Builder
	for i, v := range vals {
		idp := &measurev1.InternalDataPoint{DataPoint: &measurev1.DataPoint{Sid: uint64(i)}}
		acc.WriteString(drv.B01(q.Insert(lmeasure.NewTopElement[int64](idp, v))))
	}
	els := q.Elements()
	out := make([]string, len(els))
	for i, e := range els {
		out[i] = strconv.FormatInt(e.Val(), 10)
	}
	a := acc.String()
	if a == "" {
		a = "-"
	}
	return "acc=" + a + " out=" + dash(strings.Join(out, ","))
}

func dash(s string) string {
	if s == "" {
		return "-"
	}
	return s
}

// ---------------------------------------------------------------------------------------
// scenario shared by the row-path plans and the vectorized operators

type row struct {
	tags  [3]string
	val   int64
	shard uint32
}

type scenario struct {
	fnName string
	mask   string
	rows   []row
	nodes  [][]uint32
	af     modelv1.AggregationFunction
	topN   int
	topAsc bool
	// proj: tag projection of the request (row path), in request order
	proj []string
	// limit: QueryRequest.Limit of row-path scenarios (top field suffix "@L"); 0 = large
	limit uint32
	// t3int: every row's t3 is a decimal integer => t3 is declared TAG_TYPE_INT (int64 tag column)
	t3int bool
}

var tagNames = [3]string{"t1", "t2", "t3"}

func untag(s string) string {
	if s == "_" {
		return ""
	}
	return s
}

func entag(s string) string {
	if s == "" {
		return "_"
	}
	return s
}

// <kind> <fn> <mask> <top> <nodes> <rows>
func parseScenario(f []string) *scenario {
	sc := &scenario{fnName: f[1], af: parseFn(f[1]), mask: f[2][:3]}
	// optional suffix pXYZ: the request's tag projection lists tags X, Y, Z (1-based, any order, a superset of the grouped tags)
	sc.proj = []string{"t1", "t2", "t3"}
	if len(f[2]) > 4 && f[2][3] == 'p' {
		sc.proj = nil
		for _, c := range f[2][4:] {
			sc.proj = append(sc.proj, tagNames[int(c-'1')])
		}
	}
	if i := strings.Index(f[3], "@"); i >= 0 {
		l, _ := strconv.Atoi(f[3][i+1:])
		sc.limit = uint32(l)
		f[3] = f[3][:i]
	}
	if f[3] != "0" {
		p := strings.Split(f[3], ":")
		sc.topN, _ = strconv.Atoi(p[0])
		sc.topAsc = p[1] == "a"
	}
	for _, n := range strings.Split(f[4], "/") {
		var shards []uint32
		if n != "-" {
			for _, s := range strings.Split(n, "+") {
				v, err := strconv.ParseUint(s, 10, 32)
				if err != nil {
					panic("bad shard " + s)
				}
				shards = append(shards, uint32(v))
			}
		}
		sc.nodes = append(sc.nodes, shards)
	}
	if len(f) > 5 && f[5] != "-" {
		for _, r := range strings.Split(f[5], ",") {
			p := strings.Split(r, ".")
			sh, err := strconv.ParseUint(p[0], 10, 32)
			if err != nil {
				panic("bad row " + r)
			}
			v, err := strconv.ParseInt(p[4], 10, 64)
			if err != nil {
				panic("bad row " + r)
			}
			sc.rows = append(sc.rows, row{shard: uint32(sh), tags: [3]string{untag(p[1]), untag(p[2]), untag(p[3])}, val: v})
		}
	}
	sc.t3int = len(sc.rows) > 0
	for _, r := range sc.rows {
		if _, err := strconv.ParseInt(r.tags[2], 10, 64); err != nil {
			sc.t3int = false
		}
	}
	return sc
}

func (sc *scenario) groupTags() []string {
	var out []string
	for i := 0; i < 3; i++ {
		if sc.mask[i] == '1' {
			out = append(out, tagNames[i])
		}
	}
	return out
}

func (sc *scenario) nodeRows(shards []uint32) []row {
	var out []row
	for _, r := range sc.rows {
		for _, s := range shards {
			if s == r.shard {
				out = append(out, r)
				break
			}
		}
	}
	return out
}

func (sc *scenario) keyOf(tags [3]string) string {
	var out []string
	for i := 0; i < 3; i++ {
		if sc.mask[i] == '1' {
			out = append(out, entag(tags[i]))
		}
	}
	if len(out) == 0 {
		return "*"
	}
	return strings.Join(out, ".")
}

// ---------------------------------------------------------------------------------------
// row path: real Analyze / DistributedAnalyze plans over a fake storage and a fake broadcaster

func measureSchema(t3int bool) *databasev1.Measure {
	t3 := databasev1.TagType_TAG_TYPE_STRING
	if t3int {
		t3 = databasev1.TagType_TAG_TYPE_INT
	}
	return &databasev1.Measure{
		Metadata: &commonv1.Metadata{Name: "m", Group: "g"},
		Entity:   &databasev1.Entity{TagNames: []string{"t1"}},
		TagFamilies: []*databasev1.TagFamilySpec{{
			Name: "default",
			Tags: []*databasev1.TagSpec{
				{Name: "t1", Type: databasev1.TagType_TAG_TYPE_STRING},
				{Name: "t2", Type: databasev1.TagType_TAG_TYPE_STRING},
				{Name: "t3", Type: t3},
			},
		}},
		Fields: []*databasev1.FieldSpec{{
			Name: "v", FieldType: databasev1.FieldType_FIELD_TYPE_INT,
			EncodingMethod:    databasev1.EncodingMethod_ENCODING_METHOD_GORILLA,
			CompressionMethod: databasev1.CompressionMethod_COMPRESSION_METHOD_ZSTD,
		}},
	}
}

type fakeResult struct {
	res []*model.MeasureResult
	i   int
}

func (f *fakeResult) Pull() *model.MeasureResult {
	if f.i >= len(f.res) {
		return nil
	}
	r := f.res[f.i]
	f.i++
	return r
}

func (f *fakeResult) Release() {}

// fakeEC is the storage of one node: it returns its rows one result per row. When the plan asks for series
// order (group-by on the entity), rows of one series (= one value of the entity tag t1) are made contiguous,
// series in first-appearance order, which is what a series-ordered scan guarantees.
type fakeEC struct {
	rows  []row
	t3int bool
}

func (f *fakeEC) Query(_ context.Context, opts model.MeasureQueryOptions) (model.MeasureQueryResult, error) {
	rows := f.rows
	if opts.Order != nil && opts.Order.Type == index.OrderByTypeSeries {
		var order []string
		by := map[string][]row{}
		for _, r := range rows {
			if _, ok := by[r.tags[0]]; !ok {
				order = append(order, r.tags[0])
			}
			by[r.tags[0]] = append(by[r.tags[0]], r)
		}
		rows = nil
		for _, k := range order {
			rows = append(rows, by[k]...)
		}
	}
	if len(rows) == 0 {
		return nil, nil
	}
	sids := map[string]common.SeriesID{}
	fr := &fakeResult{}
	for i, r := range rows {
		sid, ok := sids[r.tags[0]]
		if !ok {
			sid = common.SeriesID(len(sids) + 1)
			sids[r.tags[0]] = sid
		}
		tf := model.TagFamily{Name: "default"}
		for j := 0; j < 3; j++ {
			tv := &modelv1.TagValue{Value: &modelv1.TagValue_Str{Str: &modelv1.Str{Value: r.tags[j]}}}
			if j == 2 && f.t3int {
				iv, _ := strconv.ParseInt(r.tags[j], 10, 64)
				tv = &modelv1.TagValue{Value: &modelv1.TagValue_Int{Int: &modelv1.Int{Value: iv}}}
			}
			tf.Tags = append(tf.Tags, model.Tag{Name: tagNames[j], Values: []*modelv1.TagValue{tv}})
		}
		fr.res = append(fr.res, &model.MeasureResult{
			SID:         sid,
			Timestamps:  []int64{int64(1000 + i)},
			Versions:    []int64{1},
			ShardIDs:    []common.ShardID{common.ShardID(r.shard)},
			TagFamilies: []model.TagFamily{tf},
			Fields: []model.Field{{Name: "v", Values: []*modelv1.FieldValue{
				{Value: &modelv1.FieldValue_Int{Int: &modelv1.Int{Value: r.val}}},
			}}},
		})
	}
	return fr, nil
}

func (sc *scenario) request() *measurev1.QueryRequest {
	req := &measurev1.QueryRequest{
		Groups: []string{"g"},
		Name:   "m",
		TimeRange: &modelv1.TimeRange{
			Begin: timestamppb.New(time.Unix(0, 0)),
			End:   timestamppb.New(time.Unix(10, 0)),
		},
		TagProjection: &modelv1.TagProjection{TagFamilies: []*modelv1.TagProjection_TagFamily{
			{Name: "default", Tags: sc.proj},
		}},
		FieldProjection: &measurev1.QueryRequest_FieldProjection{Names: []string{"v"}},
		Agg:             &measurev1.QueryRequest_Aggregation{Function: sc.af, FieldName: "v"},
		Limit:           100000,
	}
	if sc.limit > 0 {
		req.Limit = sc.limit
	}
	if gt := sc.groupTags(); len(gt) > 0 {
		req.GroupBy = &measurev1.QueryRequest_GroupBy{
			TagProjection: &modelv1.TagProjection{TagFamilies: []*modelv1.TagProjection_TagFamily{
				{Name: "default", Tags: gt},
			}},
			FieldName: "v",
		}
	}
	if sc.topN > 0 {
		srt := modelv1.Sort_SORT_DESC
		if sc.topAsc {
			srt = modelv1.Sort_SORT_ASC
		}
		req.Top = &measurev1.QueryRequest_Top{Number: int32(sc.topN), FieldName: "v", FieldValueSort: srt}
	}
	return req
}

func drain(it executor.MIterator) ([]*measurev1.InternalDataPoint, error) {
	var out []*measurev1.InternalDataPoint
	for it.Next() {
		cur := it.Current()
		if len(cur) > 0 {
			out = append(out, cur[0])
		}
	}
	return out, it.Close()
}

// runNode is what a data node does with an (internal) query: banyand/query/processor.go executeMeasurePlan
// (row path) + collectInternalDataPoints.
func runNode(req *measurev1.QueryRequest, rows []row, emitPartial, t3int bool) ([]*measurev1.InternalDataPoint, error) {
	ms := measureSchema(t3int)
	s, err := lmeasure.BuildSchema(ms, nil)
	if err != nil {
		return nil, err
	}
	plan, err := lmeasure.Analyze(req, []*commonv1.Metadata{ms.Metadata}, []logical.Schema{s},
		[]executor.MeasureExecutionContext{&fakeEC{rows: rows, t3int: t3int}}, emitPartial)
	if err != nil {
		return nil, err
	}
	it, err := plan.(executor.MeasureExecutable).Execute(context.Background())
	if err != nil {
		return nil, err
	}
	return drain(it)
}

type fakeFuture struct {
	msg bus.Message
}

func (f *fakeFuture) Get() (bus.Message, error)      { return f.msg, nil }
func (f *fakeFuture) GetAll() ([]bus.Message, error) { return []bus.Message{f.msg}, nil }

type fakeCluster struct {
	sc        *scenario
	tr        *modelv1.TimeRange
	responses [][]*measurev1.InternalDataPoint
	err       error
}

func (c *fakeCluster) TimeRange() *modelv1.TimeRange      { return c.tr }
func (c *fakeCluster) NodeSelectors() map[string][]string { return nil }

func (c *fakeCluster) Broadcast(_ time.Duration, _ bus.Topic, message bus.Message) ([]bus.Future, error) {
	ireq := message.Data().(*measurev1.InternalQueryRequest)
	var out []bus.Future
	for _, shards := range c.sc.nodes {
		// the request crosses the wire
		b, err := proto.Marshal(ireq)
		if err != nil {
			return nil, err
		}
		nreq := &measurev1.InternalQueryRequest{}
		if err = proto.Unmarshal(b, nreq); err != nil {
			return nil, err
		}
		dps, err := runNode(nreq.Request, c.sc.nodeRows(shards), nreq.AggReturnPartial, c.sc.t3int)
		if err != nil {
			c.err = err
			return nil, err
		}
		resp := &measurev1.InternalQueryResponse{DataPoints: dps}
		rb, err := proto.Marshal(resp)
		if err != nil {
			return nil, err
		}
		back := &measurev1.InternalQueryResponse{}
		if err = proto.Unmarshal(rb, back); err != nil {
			return nil, err
		}
		c.responses = append(c.responses, back.DataPoints)
		out = append(out, &fakeFuture{msg: bus.NewMessage(1, back)})
	}
	return out, nil
}

func tagsOf(dp *measurev1.DataPoint) [3]string {
	var t [3]string
	for _, tf := range dp.GetTagFamilies() {
		for _, tg := range tf.GetTags() {
			for i := 0; i < 3; i++ {
				if tg.GetKey() == tagNames[i] {
					if iv, ok := tg.GetValue().GetValue().(*modelv1.TagValue_Int); ok {
						t[i] = strconv.FormatInt(iv.Int.GetValue(), 10)
					} else {
						t[i] = tg.GetValue().GetStr().GetValue()
					}
				}
			}
		}
	}
	return t
}

func (sc *scenario) showFinal(dps []*measurev1.InternalDataPoint) string {
	var out []string
	for _, idp := range dps {
		dp := idp.GetDataPoint()
		val := "?"
		if len(dp.GetFields()) == 1 {
			if iv, ok := dp.GetFields()[0].GetValue().GetValue().(*modelv1.FieldValue_Int); ok {
				val = strconv.FormatInt(iv.Int.GetValue(), 10)
			}
		}
		out = append(out, sc.keyOf(tagsOf(dp))+"="+val)
	}
	return dash(strings.Join(out, ";"))
}

func (sc *scenario) showPartials(resps [][]*measurev1.InternalDataPoint) string {
	var nodes []string
	for _, dps := range resps {
		var out []string
		for _, idp := range dps {
			dp := idp.GetDataPoint()
			var fs []string
			for _, fl := range dp.GetFields() {
				if iv, ok := fl.GetValue().GetValue().(*modelv1.FieldValue_Int); ok {
					fs = append(fs, strconv.FormatInt(iv.Int.GetValue(), 10))
				} else {
					fs = append(fs, "?")
				}
			}
			out = append(out, fmt.Sprintf("%d~%s~%s", idp.GetShardId(), sc.keyOf(tagsOf(dp)), strings.Join(fs, ":")))
		}
		nodes = append(nodes, dash(strings.Join(out, ";")))
	}
	return dash(strings.Join(nodes, "/"))
}

// all distinct rows once: the reference placement "everything in one place"
func (sc *scenario) allRows() []row {
	return sc.rows
}

func doRow(f []string) string {
	sc := parseScenario(f)
	req := sc.request()
	local, err := runNode(req, sc.allRows(), false, sc.t3int)
	if err != nil {
		return "ERR local " + errClass(err)
	}
	ms := measureSchema(sc.t3int)
	s, err := lmeasure.BuildSchema(ms, nil)
	if err != nil {
		return "ERR schema"
	}
	plan, err := lmeasure.DistributedAnalyze(req, []logical.Schema{s}, 0)
	if err != nil {
		return "ERR danalyze " + errClass(err)
	}
	cl := &fakeCluster{sc: sc, tr: req.TimeRange}
	it, err := plan.(executor.MeasureExecutable).Execute(executor.WithDistributedExecutionContext(context.Background(), cl))
	if err != nil {
		return "ERR dexec " + errClass(err)
	}
	dist, err := drain(it)
	if err != nil {
		return "ERR ddrain " + errClass(err)
	}
	return "L=" + sc.showFinal(local) + " D=" + sc.showFinal(dist) + " R=" + sc.showPartials(cl.responses)
}

func errClass(err error) string {
	s := err.Error()
	s = strings.ReplaceAll(s, " ", "_")
	if len(s) > 60 {
		s = s[:60]
	}
	return s
}

// ---------------------------------------------------------------------------------------
// vectorized path: BuildOperators (AggModeAll / AggModeMap) -> frame -> ReduceRawFrames -> ApplyTopToReduce

func vecSchema(t3int bool) *vectorized.BatchSchema {
	t3 := vectorized.ColumnTypeString
	if t3int {
		t3 = vectorized.ColumnTypeInt64
	}
	return vectorized.NewBatchSchema([]vectorized.ColumnDef{
		{Role: vectorized.RoleShardID, Name: "shard_id", Type: vectorized.ColumnTypeInt64},
		{Role: vectorized.RoleTag, TagFamily: "default", Name: "t1", Type: vectorized.ColumnTypeString},
		{Role: vectorized.RoleTag, TagFamily: "default", Name: "t2", Type: vectorized.ColumnTypeString},
		{Role: vectorized.RoleTag, TagFamily: "default", Name: "t3", Type: t3},
		{Role: vectorized.RoleField, Name: "v", Type: vectorized.ColumnTypeInt64},
	})
}

func (sc *scenario) vecOpts() model.MeasureQueryOptions {
	opts := model.MeasureQueryOptions{Agg: &model.MeasureAgg{FieldName: "v", Func: sc.af}}
	if gt := sc.groupTags(); len(gt) > 0 {
		opts.GroupBy = &model.MeasureGroupBy{TagFamily: "default", TagNames: gt}
	}
	return opts
}

// batches of at most 3 rows so that Consume is exercised across batch boundaries
func vecBatches(s *vectorized.BatchSchema, rows []row) []*vectorized.RecordBatch {
	var out []*vectorized.RecordBatch
	for i := 0; i < len(rows); i += 3 {
		j := i + 3
		if j > len(rows) {
			j = len(rows)
		}
		b := vectorized.NewRecordBatch(s, j-i)
		for _, r := range rows[i:j] {
			b.Columns[0].(*vectorized.TypedColumn[int64]).Append(int64(r.shard))
			b.Columns[1].(*vectorized.TypedColumn[string]).Append(r.tags[0])
			b.Columns[2].(*vectorized.TypedColumn[string]).Append(r.tags[1])
			if ic, ok := b.Columns[3].(*vectorized.TypedColumn[int64]); ok {
				iv, _ := strconv.ParseInt(r.tags[2], 10, 64)
				ic.Append(iv)
			} else {
				b.Columns[3].(*vectorized.TypedColumn[string]).Append(r.tags[2])
			}
			b.Columns[4].(*vectorized.TypedColumn[int64]).Append(r.val)
		}
		b.Len = j - i
		out = append(out, b)
	}
	return out
}

func vecRun(sc *scenario, rows []row, mode vmeasure.AggMode) ([]*vectorized.RecordBatch, error) {
	s := vecSchema(sc.t3int)
	ops, err := vmeasure.BuildOperators(sc.vecOpts(), s, vectorized.NewMemoryTracker(1<<30), 4, mode)
	if err != nil {
		return nil, err
	}
	op := ops[0]
	ctx := context.Background()
	if err = op.Init(ctx); err != nil {
		return nil, err
	}
	defer op.Close()
	for _, b := range vecBatches(s, rows) {
		if err = op.Consume(ctx, b); err != nil {
			return nil, err
		}
	}
	if err = op.Finalize(ctx); err != nil {
		return nil, err
	}
	var out []*vectorized.RecordBatch
	for {
		nb, nErr := op.NextBatch(ctx)
		if nErr != nil {
			return nil, nErr
		}
		if nb == nil {
			break
		}
		// detach from the operator's pool
		body, eErr := frame.Encode(nb)
		if eErr != nil {
			return nil, eErr
		}
		cp, dErr := frame.Decode(body)
		if dErr != nil {
			return nil, dErr
		}
		out = append(out, cp)
	}
	return out, nil
}

func colByName(b *vectorized.RecordBatch, role vectorized.ColumnRole, name string) vectorized.Column {
	for i, def := range b.Schema.Columns {
		if def.Role == role && def.Name == name {
			return b.Columns[i]
		}
	}
	return nil
}

func (sc *scenario) vecTags(b *vectorized.RecordBatch, r int) [3]string {
	var t [3]string
	for i := 0; i < 3; i++ {
		if c := colByName(b, vectorized.RoleTag, tagNames[i]); c != nil {
			if ic, ok := c.(*vectorized.TypedColumn[int64]); ok {
				t[i] = strconv.FormatInt(ic.Data()[r], 10)
			} else {
				t[i] = c.(*vectorized.TypedColumn[string]).Data()[r]
			}
		}
	}
	return t
}

func (sc *scenario) vecShowFinal(bs []*vectorized.RecordBatch) string {
	var out []string
	for _, b := range bs {
		vc := colByName(b, vectorized.RoleField, "v").(*vectorized.TypedColumn[int64])
		for r := 0; r < b.Len; r++ {
			out = append(out, sc.keyOf(sc.vecTags(b, r))+"="+strconv.FormatInt(vc.Data()[r], 10))
		}
	}
	return dash(strings.Join(out, ";"))
}

func (sc *scenario) vecShowPartials(nodes [][]*vectorized.RecordBatch) string {
	var ns []string
	for _, bs := range nodes {
		var out []string
		for _, b := range bs {
			vc := colByName(b, vectorized.RoleField, "v").(*vectorized.TypedColumn[int64])
			var cc *vectorized.TypedColumn[int64]
			if c := colByName(b, vectorized.RoleField, "v__agg_count"); c != nil {
				cc = c.(*vectorized.TypedColumn[int64])
			}
			sh := b.Columns[0].(*vectorized.TypedColumn[int64])
			for r := 0; r < b.Len; r++ {
				fs := strconv.FormatInt(vc.Data()[r], 10)
				if cc != nil {
					fs += ":" + strconv.FormatInt(cc.Data()[r], 10)
				}
				out = append(out, fmt.Sprintf("%d~%s~%s", sh.Data()[r], sc.keyOf(sc.vecTags(b, r)), fs))
			}
		}
		ns = append(ns, dash(strings.Join(out, ";")))
	}
	return dash(strings.Join(ns, "/"))
}

func vecFn(af modelv1.AggregationFunction) vmeasure.AggFunc {
	switch af {
	case modelv1.AggregationFunction_AGGREGATION_FUNCTION_SUM:
		return vmeasure.AggSum
	case modelv1.AggregationFunction_AGGREGATION_FUNCTION_COUNT:
		return vmeasure.AggCount
	case modelv1.AggregationFunction_AGGREGATION_FUNCTION_MIN:
		return vmeasure.AggMin
	case modelv1.AggregationFunction_AGGREGATION_FUNCTION_MAX:
		return vmeasure.AggMax
	}
	return vmeasure.AggMean
}

func doVec(f []string) string {
	sc := parseScenario(f)
	local, err := vecRun(sc, sc.allRows(), vmeasure.AggModeAll)
	if err != nil {
		return "ERR local " + errClass(err)
	}
	if sc.topN > 0 && len(local) > 0 {
		local, err = vmeasure.ApplyTopToReduce(local, vmeasure.ReduceTopSpec{FieldName: "v", N: sc.topN, Asc: sc.topAsc}, 4)
		if err != nil {
			return "ERR ltop " + errClass(err)
		}
	}
	var frames [][]byte
	var nodes [][]*vectorized.RecordBatch
	for _, shards := range sc.nodes {
		part, pErr := vecRun(sc, sc.nodeRows(shards), vmeasure.AggModeMap)
		if pErr != nil {
			return "ERR map " + errClass(pErr)
		}
		nodes = append(nodes, part)
		if len(part) == 0 {
			frames = append(frames, nil) // body-less response of a node without rows
		}
		for _, b := range part {
			body, eErr := frame.Encode(b)
			if eErr != nil {
				return "ERR enc " + errClass(eErr)
			}
			frames = append(frames, body)
		}
	}
	red, _, err := vmeasure.ReduceRawFrames(frames, sc.groupTags(), []vmeasure.AggReduceSpec{{OutputName: "v", Func: vecFn(sc.af)}},
		4, vectorized.NewMemoryTracker(1<<30))
	if err != nil {
		return "ERR reduce " + errClass(err)
	}
	if sc.topN > 0 && len(red) > 0 {
		red, err = vmeasure.ApplyTopToReduce(red, vmeasure.ReduceTopSpec{FieldName: "v", N: sc.topN, Asc: sc.topAsc}, 4)
		if err != nil {
			return "ERR top " + errClass(err)
		}
	}
	return "L=" + sc.vecShowFinal(local) + " D=" + sc.vecShowFinal(red) + " R=" + sc.vecShowPartials(nodes)
}

// ---------------------------------------------------------------------------------------
// tnp: banyand/measure topNPostProcessor, directly (Put ... Val) or through dquery.processTopNResponse

// tnp <n> <a|d> <agg|none> <p|r> <resp>/<resp>/...   resp = ts.key.val.ver,... | -
func doTnp(f []string) string {
	n, _ := strconv.Atoi(f[1])
	srt := modelv1.Sort_SORT_DESC
	if f[2] == "a" {
		srt = modelv1.Sort_SORT_ASC
	}
	agg := modelv1.AggregationFunction_AGGREGATION_FUNCTION_UNSPECIFIED
	if f[3] != "none" {
		agg = parseFn(f[3])
	}
	type item struct {
		key      string
		ts       uint64
		val, ver int64
	}
	var resps [][]item
	total := 0
	for _, r := range strings.Split(f[5], "/") {
		var items []item
		if r != "-" {
			for _, it := range strings.Split(r, ",") {
				p := strings.Split(it, ".")
				ts, e1 := strconv.ParseUint(p[0], 10, 64)
				v, e2 := strconv.ParseInt(p[2], 10, 64)
				ver, e3 := strconv.ParseInt(p[3], 10, 64)
				if e1 != nil || e2 != nil || e3 != nil {
					panic("bad tnp item " + it)
				}
				items = append(items, item{key: p[1], ts: ts, val: v, ver: ver})
			}
		}
		total += len(items)
		resps = append(resps, items)
	}
	entity := func(k string) []*modelv1.Tag {
		return []*modelv1.Tag{{Key: "svc", Value: &modelv1.TagValue{Value: &modelv1.TagValue_Str{Str: &modelv1.Str{Value: k}}}}}
	}
	var lists []*measurev1.TopNList
	var err error
	if f[4] == "r" {
		var ff []bus.Future
		for _, items := range resps {
			l := &measurev1.TopNList{Timestamp: timestamppb.New(time.UnixMilli(0))}
			for _, it := range items {
				l.Items = append(l.Items, &measurev1.TopNList_Item{
					Entity:    entity(it.key),
					Value:     &modelv1.FieldValue{Value: &modelv1.FieldValue_Int{Int: &modelv1.Int{Value: it.val}}},
					Version:   it.ver,
					Timestamp: timestamppb.New(time.UnixMilli(int64(it.ts))),
				})
			}
			resp := &measurev1.TopNResponse{Lists: []*measurev1.TopNList{l}}
			b, mErr := proto.Marshal(resp)
			if mErr != nil {
				return "ERR"
			}
			back := &measurev1.TopNResponse{}
			if uErr := proto.Unmarshal(b, back); uErr != nil {
				return "ERR"
			}
			ff = append(ff, &fakeFuture{msg: bus.NewMessage(1, back)})
		}
		lists, _, err = dquery.VerifC10ProcessTopNInt(ff, int32(n), agg, srt)
	} else {
		pp := bmeasure.CreateTopNPostProcessorInt(int32(n), agg, srt)
		for _, items := range resps {
			for _, it := range items {
				pp.Put(pbv1.EntityValues{entity(it.key)[0].Value}, it.val, it.ts, it.ver)
			}
		}
		lists, err = pp.Val([]string{"svc"})
	}
	if err != nil {
		return "ERR " + errClass(err)
	}
	if total == 0 {
		return "E"
	}
	show := func(l *measurev1.TopNList) string {
		var out []string
		for _, it := range l.Items {
			out = append(out, it.Entity[0].GetValue().GetStr().GetValue()+"="+strconv.FormatInt(it.Value.GetInt().GetValue(), 10))
		}
		return strings.Join(out, ",")
	}
	if f[3] == "none" {
		var out []string
		for _, l := range lists {
			ts := l.Timestamp.AsTime().UnixNano() // valWithoutAggregation: time.Unix(0, ms)
			out = append(out, strconv.FormatInt(ts, 10)+":"+show(l))
		}
		return "T=" + strings.Join(out, ";")
	}
	if len(lists) != 1 {
		return fmt.Sprintf("ERR %d lists", len(lists))
	}
	return "A=" + dash(show(lists[0]))
}

func handle(f []string) string {
	if len(f) == 0 {
		return "bad-op"
	}
	switch f[0] {
	case "fn", "fns", "fnz":
		return doFn(f)
	case "ff":
		return doFloat(f)
	case "top":
		return doTop(f)
	case "tnp":
		return doTnp(f)
	case "row":
		return doRow(f)
	case "vec":
		return doVec(f)
	}
	return "bad-op"
}

func main() {
	drv.Run(handle)
}
