//go:build verif

// Driver for C11: pkg/encoding storage codecs, pkg/compress/zstd, banyand/internal/encoding
// tag value codec. One case per line; everything after a ";" field is model-side token data
// (zstd / float<->decimal parameter values) and is ignored here, except by the "tok" op which
// produces exactly those tokens from the real code.
package main

import (
	"encoding/binary"
	"fmt"
	"math"
	"os"
	"runtime"
	"runtime/metrics"
	"runtime/pprof"
	"strconv"
	"strings"
	"time"

	databasev1 "github.com/apache/skywalking-banyandb/api/proto/banyandb/database/v1"
	modelv1 "github.com/apache/skywalking-banyandb/api/proto/banyandb/model/v1"
	benc "github.com/apache/skywalking-banyandb/banyand/internal/encoding"
	"github.com/apache/skywalking-banyandb/banyand/internal/verifdrv/drv"
	"github.com/apache/skywalking-banyandb/banyand/measure"
	"github.com/apache/skywalking-banyandb/banyand/stream"
	"github.com/apache/skywalking-banyandb/banyand/trace"
	"github.com/apache/skywalking-banyandb/pkg/bytes"
	"github.com/apache/skywalking-banyandb/pkg/compress/zstd"
	"github.com/apache/skywalking-banyandb/pkg/convert"
	"github.com/apache/skywalking-banyandb/pkg/encoding"
	"github.com/apache/skywalking-banyandb/pkg/encoding/vararray"
	"github.com/apache/skywalking-banyandb/pkg/logger"
	pbv1 "github.com/apache/skywalking-banyandb/pkg/pb/v1"
	"google.golang.org/protobuf/types/known/timestamppb"
)

const (
	caseTimeout = 10 * time.Second
	heapLimit   = 3 << 30
)

// ---------------------------------------------------------------------------------------
// protocol helpers

func item(s string) []byte {
	switch s {
	case "n":
		return nil
	case "-":
		return []byte{}
	}
	return drv.UnHex(s)
}

func showItem(b []byte) string {
	if b == nil {
		return "n"
	}
	return drv.Hex(b)
}

func items(f []string) [][]byte {
	out := make([][]byte, 0, len(f))
	for _, s := range f {
		out = append(out, item(s))
	}
	return out
}

func showItems(a [][]byte) string {
	if len(a) == 0 {
		return "[]"
	}
	p := make([]string, len(a))
	for i, b := range a {
		p[i] = showItem(b)
	}
	return strings.Join(p, " ")
}

func sameItems(a, b [][]byte) bool {
	if len(a) != len(b) {
		return false
	}
	for i := range a {
		if (a[i] == nil) != (b[i] == nil) || string(a[i]) != string(b[i]) {
			return false
		}
	}
	return true
}

func i64s(f []string) []int64 {
	out := make([]int64, len(f))
	for i, s := range f {
		v, err := strconv.ParseInt(s, 10, 64)
		if err != nil {
			panic("bad int in protocol: " + s)
		}
		out[i] = v
	}
	return out
}

func u64s(f []string) []uint64 {
	out := make([]uint64, len(f))
	for i, s := range f {
		v, err := strconv.ParseUint(s, 10, 64)
		if err != nil {
			panic("bad uint in protocol: " + s)
		}
		out[i] = v
	}
	return out
}

func showI64s(a []int64) string {
	if len(a) == 0 {
		return "[]"
	}
	p := make([]string, len(a))
	for i, v := range a {
		p[i] = strconv.FormatInt(v, 10)
	}
	return strings.Join(p, " ")
}

func showU64s(a []uint64) string {
	if len(a) == 0 {
		return "[]"
	}
	p := make([]string, len(a))
	for i, v := range a {
		p[i] = strconv.FormatUint(v, 10)
	}
	return strings.Join(p, " ")
}

func showU32s(a []uint32) string {
	if len(a) == 0 {
		return "[]"
	}
	p := make([]string, len(a))
	for i, v := range a {
		p[i] = strconv.FormatUint(uint64(v), 10)
	}
	return strings.Join(p, " ")
}

func eqI64(a, b []int64) bool {
	if len(a) != len(b) {
		return false
	}
	for i := range a {
		if a[i] != b[i] {
			return false
		}
	}
	return true
}

func eqU64(a, b []uint64) bool {
	if len(a) != len(b) {
		return false
	}
	for i := range a {
		if a[i] != b[i] {
			return false
		}
	}
	return true
}

func atoi(s string) int {
	v, err := strconv.ParseUint(s, 10, 63)
	if err != nil {
		panic("bad count in protocol: " + s)
	}
	return int(v)
}

func atou(s string) uint64 {
	v, err := strconv.ParseUint(s, 10, 64)
	if err != nil {
		panic("bad count in protocol: " + s)
	}
	return v
}

// safe maps Go panics to an outcome class: a runtime fault (index out of range, nil
// dereference, ...) is "PANIC-RT", a deliberate panic(...) / logger.Panicf is "PANIC".
func safe(f func() string) (res string) {
	defer func() {
		if r := recover(); r != nil {
			if re, ok := r.(runtime.Error); ok {
				res = "PANIC-RT " + re.Error()
			} else {
				res = "PANIC"
			}
		}
	}()
	return f()
}

// guarded runs one case with a wall-clock limit. A case that does not finish (or that drives the
// heap beyond heapLimit, see watchdog) terminates the driver without an output line, which the
// harness reports as CRASH for exactly that case.
func guarded(f func() string) string {
	ch := make(chan string, 1)
	go func() { ch <- safe(f) }()
	select {
	case r := <-ch:
		return r
	case <-time.After(caseTimeout):
		_ = pprof.Lookup("goroutine").WriteTo(os.Stderr, 2)
		fmt.Fprintln(os.Stderr, "HANG: case exceeded the time limit")
		os.Exit(3)
	}
	return ""
}

func watchdog() {
	s := []metrics.Sample{{Name: "/memory/classes/heap/objects:bytes"}}
	for {
		time.Sleep(20 * time.Millisecond)
		metrics.Read(s)
		if s[0].Value.Kind() == metrics.KindUint64 && s[0].Value.Uint64() > heapLimit {
			fmt.Fprintln(os.Stderr, "MEMORY: live heap exceeded the limit (unbounded allocation)")
			os.Exit(4)
		}
	}
}

func vtOf(s string) pbv1.ValueType {
	switch s {
	case "I":
		return pbv1.ValueTypeInt64
	case "F":
		return pbv1.ValueTypeFloat64
	case "S":
		return pbv1.ValueTypeStr
	}
	panic("bad value type " + s)
}

// ---------------------------------------------------------------------------------------
// tokens: the zstd pairs and float<->decimal values the model takes as parameters

// walk follows n consecutive compressBlock frames starting at src and records one token
// Z<compressed>=<plain|!> for each zstd frame. Returns the tail (nil when framing breaks).
func walk(src []byte, n int, toks *[]string) []byte {
	for i := 0; i < n; i++ {
		if len(src) < 1 {
			return nil
		}
		switch src[0] {
		case 0:
			if len(src) < 2 || len(src)-2 < int(src[1]) {
				return nil
			}
			src = src[2+int(src[1]):]
		case 1:
			tail, bl := encoding.BytesToVarUint64(src[1:])
			if uint64(len(tail)) < bl {
				return nil
			}
			cb := tail[:bl]
			plain, err := zstd.Decompress(nil, cb)
			if err != nil {
				*toks = append(*toks, "Z"+drv.Hex(cb)+"=!")
			} else {
				*toks = append(*toks, "Z"+drv.Hex(cb)+"="+drv.Hex(plain))
			}
			src = tail[bl:]
		default:
			return nil
		}
	}
	return src
}

func walkDict(src []byte, toks *[]string) {
	tail, count := encoding.BytesToVarUint64(src)
	if count == 0 {
		return
	}
	walk(tail, 2, toks)
}

func walkTag(t string, buf []byte, toks *[]string) {
	if len(buf) == 0 {
		return
	}
	switch {
	case buf[0] == byte(encoding.EncodeTypePlain):
		walk(buf[1:], 2, toks)
	case t == "S" && buf[0] == byte(encoding.EncodeTypeDictionary):
		walkDict(buf[1:], toks)
	case t == "S":
		walk(buf[1:], 2, toks)
	}
}

func f64of(s string) float64 {
	return math.Float64frombits(binary.BigEndian.Uint64(drv.UnHex(s)))
}

func bitsHex(f float64) string { return fmt.Sprintf("%016x", math.Float64bits(f)) }

// floatTokens: T<bits>=<d>:<e> | T<bits>=! for every input, D<v>:<e>=<bits> for every decimal the
// encoder produced (the decoder's value for it).
func floatTokens(fs []float64, toks *[]string) {
	seen := map[string]bool{}
	for _, f := range fs {
		k := bitsHex(f)
		if seen[k] {
			continue
		}
		seen[k] = true
		d, e, ok := encoding.VerifFloatToDecimal(f)
		if ok {
			*toks = append(*toks, fmt.Sprintf("T%s=%d:%d", k, d, e))
		} else {
			*toks = append(*toks, "T"+k+"=!")
		}
	}
	// the scaled decimals: recompute with the real scaling helper, independent of the verification step
	minExp := int16(math.MaxInt16)
	type de struct {
		d int64
		e int16
	}
	var des []de
	for _, f := range fs {
		d, e, ok := encoding.VerifFloatToDecimal(f)
		if !ok {
			return
		}
		des = append(des, de{d, e})
		if e < minExp {
			minExp = e
		}
	}
	seenD := map[string]bool{}
	for _, x := range des {
		v := x.d
		if diff := x.e - minExp; diff != 0 {
			var ok bool
			v, ok = encoding.VerifMulPow10(x.d, diff)
			if !ok {
				continue
			}
		}
		k := fmt.Sprintf("D%d:%d", v, minExp)
		if seenD[k] {
			continue
		}
		seenD[k] = true
		out, err := encoding.DecimalIntListToFloat64List(nil, []int64{v}, minExp, 1)
		if err == nil && len(out) == 1 {
			*toks = append(*toks, k+"="+bitsHex(out[0]))
		}
	}
}

func decimalTokens(vals []int64, exp int16, toks *[]string) {
	seen := map[int64]bool{}
	for _, v := range vals {
		if seen[v] {
			continue
		}
		seen[v] = true
		out, err := encoding.DecimalIntListToFloat64List(nil, []int64{v}, exp, 1)
		if err == nil && len(out) == 1 {
			*toks = append(*toks, fmt.Sprintf("D%d:%d=%s", v, exp, bitsHex(out[0])))
		}
	}
}

func tagFloatTokens(vals [][]byte, toks *[]string) {
	var fs []float64
	for _, v := range vals {
		if v == nil || string(v) == "null" || len(v) != 8 {
			return
		}
		fs = append(fs, math.Float64frombits(binary.BigEndian.Uint64(v)))
	}
	floatTokens(fs, toks)
}

func tokens(f []string) string {
	var toks []string
	switch f[0] {
	case "u64b":
		walk(encoding.EncodeUint64Block(nil, u64s(f[1:])), 1, &toks)
	case "bb":
		walk(encoding.EncodeBytesBlock(nil, items(f[1:])), 2, &toks)
	case "bbt":
		walk(encoding.EncodeBytesBlock(nil, items(f[2:])), 2, &toks)
	case "cblk":
		walk(encoding.VerifCompressBlock(item(f[1])), 1, &toks)
	case "dict":
		d := encoding.NewDictionary()
		for _, it := range items(f[1:]) {
			if !d.Add(it) {
				return "-"
			}
		}
		walkDict(d.Encode(nil), &toks)
	case "tag":
		vals := items(f[2:])
		if f[1] == "F" {
			tagFloatTokens(vals, &toks)
		}
		bb := &bytes.Buffer{}
		r := safe(func() string {
			_, err := benc.EncodeTagValues(bb, vals, vtOf(f[1]))
			if err != nil {
				return "ERR"
			}
			return "ok"
		})
		if r == "ok" {
			walkTag(f[1], bb.Buf, &toks)
		}
	case "col":
		vals := items(f[2:])
		if f[1] == "F" {
			tagFloatTokens(vals, &toks)
		}
		var enc []byte
		if safe(func() string { enc, _ = measure.VerifC11ColumnRoundTrip(vtOf(f[1]), vals); return "ok" }) == "ok" && len(enc) > 0 {
			inner := enc
			if f[1] != "S" {
				if enc[0] != byte(encoding.EncodeTypePlain) {
					inner = nil
				} else {
					inner = enc[1:]
				}
			}
			if len(inner) > 0 {
				walkTag("S", inner, &toks)
			}
		}
	case "f64":
		var fs []float64
		for _, s := range f[1:] {
			fs = append(fs, f64of(s))
		}
		floatTokens(fs, &toks)
	case "dec-u64b", "dec-cblk":
		walk(drv.UnHex(f[1]), 1, &toks)
	case "dec-bb", "dec-bbt":
		walk(drv.UnHex(f[1]), 2, &toks)
	case "dec-dict", "dec-dictv":
		walkDict(drv.UnHex(f[1]), &toks)
	case "dec-tag":
		buf := drv.UnHex(f[2])
		walkTag(f[1], buf, &toks)
		if f[1] == "F" && len(buf) >= 11 && buf[0] != byte(encoding.EncodeTypePlain) {
			// decimals the decoder will convert: decode the int list with the real code
			exp := int16(binary.BigEndian.Uint16(buf[1:3]))
			first := convert.BytesToInt64(buf[3:11])
			_ = safe(func() string {
				vals, err := encoding.BytesToInt64List(nil, buf[11:], encoding.EncodeType(buf[0]), first, atoi(f[3]))
				if err == nil {
					decimalTokens(vals, exp, &toks)
				}
				return ""
			})
		}
	}
	if len(toks) == 0 {
		return "-"
	}
	return strings.Join(toks, " ")
}

// ---------------------------------------------------------------------------------------
// per-engine tag value marshalling (measure / stream / trace each carry their own copy)

func tvParse(typ string, a []string) (databasev1.TagType, *modelv1.TagValue) {
	switch typ {
	case "str":
		return databasev1.TagType_TAG_TYPE_STRING, &modelv1.TagValue{Value: &modelv1.TagValue_Str{Str: &modelv1.Str{Value: string(drv.UnHex(a[0]))}}}
	case "bin":
		return databasev1.TagType_TAG_TYPE_DATA_BINARY, &modelv1.TagValue{Value: &modelv1.TagValue_BinaryData{BinaryData: drv.UnHex(a[0])}}
	case "int":
		return databasev1.TagType_TAG_TYPE_INT, &modelv1.TagValue{Value: &modelv1.TagValue_Int{Int: &modelv1.Int{Value: i64s(a[:1])[0]}}}
	case "sarr":
		var vs []string
		for _, h := range a {
			vs = append(vs, string(drv.UnHex(h)))
		}
		return databasev1.TagType_TAG_TYPE_STRING_ARRAY, &modelv1.TagValue{Value: &modelv1.TagValue_StrArray{StrArray: &modelv1.StrArray{Value: vs}}}
	case "iarr":
		return databasev1.TagType_TAG_TYPE_INT_ARRAY, &modelv1.TagValue{Value: &modelv1.TagValue_IntArray{IntArray: &modelv1.IntArray{Value: i64s(a)}}}
	case "ts":
		v := i64s(a[:2])
		return databasev1.TagType_TAG_TYPE_TIMESTAMP, &modelv1.TagValue{Value: &modelv1.TagValue_Timestamp{Timestamp: &timestamppb.Timestamp{Seconds: v[0], Nanos: int32(v[1])}}}
	case "null":
		tt := map[string]databasev1.TagType{
			"str": databasev1.TagType_TAG_TYPE_STRING, "bin": databasev1.TagType_TAG_TYPE_DATA_BINARY,
			"int": databasev1.TagType_TAG_TYPE_INT, "sarr": databasev1.TagType_TAG_TYPE_STRING_ARRAY,
			"iarr": databasev1.TagType_TAG_TYPE_INT_ARRAY, "ts": databasev1.TagType_TAG_TYPE_TIMESTAMP,
		}[a[0]]
		return tt, pbv1.NullTagValue
	}
	panic("bad tv type " + typ)
}

func tvShow(tv *modelv1.TagValue) string {
	switch v := tv.GetValue().(type) {
	case *modelv1.TagValue_Null:
		return "N"
	case *modelv1.TagValue_Str:
		return "S" + drv.Hex([]byte(v.Str.GetValue()))
	case *modelv1.TagValue_BinaryData:
		return "B" + drv.Hex(v.BinaryData)
	case *modelv1.TagValue_Int:
		return "I" + strconv.FormatInt(v.Int.GetValue(), 10)
	case *modelv1.TagValue_StrArray:
		p := []string{"SA"}
		for _, s := range v.StrArray.GetValue() {
			p = append(p, drv.Hex([]byte(s)))
		}
		return strings.Join(p, " ")
	case *modelv1.TagValue_IntArray:
		p := []string{"IA"}
		for _, i := range v.IntArray.GetValue() {
			p = append(p, strconv.FormatInt(i, 10))
		}
		return strings.Join(p, " ")
	case *modelv1.TagValue_Timestamp:
		return fmt.Sprintf("T%d:%d", v.Timestamp.GetSeconds(), v.Timestamp.GetNanos())
	}
	return "?"
}

func tvRoundTrip(engine string, tt databasev1.TagType, tv *modelv1.TagValue) ([]byte, *modelv1.TagValue) {
	switch engine {
	case "m":
		return measure.VerifC11TagRoundTrip(tt, tv)
	case "s":
		return stream.VerifC11TagRoundTrip(tt, tv)
	case "t":
		return trace.VerifC11TagRoundTrip(tt, tv)
	}
	panic("bad engine " + engine)
}

// ---------------------------------------------------------------------------------------
// cases

func res(err error, ok func() string) string {
	if err != nil {
		return "ERR"
	}
	return "ok " + ok()
}

func handle(f []string) string {
	if len(f) == 0 {
		return "bad-op"
	}
	for i, s := range f {
		if s == ";" {
			f = f[:i]
			break
		}
	}
	a := f[1:]
	switch f[0] {
	case "tok":
		return tokens(a)

	// ---- round trips -------------------------------------------------------------------
	case "vi64":
		vs := i64s(a)
		enc := encoding.VarInt64ListToBytes(nil, vs)
		dec := make([]int64, len(vs))
		tail, err := encoding.BytesToVarInt64List(dec, enc)
		if err != nil {
			return drv.Hex(enc) + " ERR"
		}
		if eqI64(dec, vs) && len(tail) == 0 {
			return drv.Hex(enc) + " ="
		}
		return fmt.Sprintf("%s NE %s tail=%d", drv.Hex(enc), showI64s(dec), len(tail))
	case "vu64":
		us := u64s(a)
		enc := encoding.VarUint64sToBytes(nil, us)
		dec := make([]uint64, len(us))
		tail, err := encoding.BytesToVarUint64s(dec, enc)
		if err != nil {
			return drv.Hex(enc) + " ERR"
		}
		if eqU64(dec, us) && len(tail) == 0 {
			return drv.Hex(enc) + " ="
		}
		return fmt.Sprintf("%s NE %s tail=%d", drv.Hex(enc), showU64s(dec), len(tail))
	case "vu1":
		u := atou(a[0])
		enc := encoding.VarUint64ToBytes(nil, u)
		tail, v := encoding.BytesToVarUint64(enc)
		return fmt.Sprintf("%s %d %d", drv.Hex(enc), v, len(tail))
	case "vi1":
		v := i64s(a)[0]
		enc := encoding.VarInt64ToBytes(nil, v)
		tail, d, err := encoding.BytesToVarInt64(enc)
		if err != nil {
			return drv.Hex(enc) + " ERR"
		}
		return fmt.Sprintf("%s %d %d", drv.Hex(enc), d, len(tail))
	case "fx64":
		v := i64s(a)[0]
		enc := encoding.Int64ToBytes(nil, v)
		return fmt.Sprintf("%s %d", drv.Hex(enc), encoding.BytesToInt64(enc))
	case "i64l":
		vs := i64s(a)
		enc, mt, first := encoding.Int64ListToBytes(nil, vs)
		dec, err := encoding.BytesToInt64List(nil, enc, mt, first, len(vs))
		head := fmt.Sprintf("%s %d %d", drv.Hex(enc), mt, first)
		if err != nil {
			return head + " ERR"
		}
		if eqI64(dec, vs) {
			return head + " ="
		}
		return head + " NE " + showI64s(dec)
	case "u64b":
		us := u64s(a)
		enc := encoding.EncodeUint64Block(nil, us)
		dec, tail, err := encoding.DecodeUint64Block(nil, enc, uint64(len(us)))
		if err != nil {
			return drv.Hex(enc) + " ERR"
		}
		if eqU64(dec, us) && len(tail) == 0 {
			return drv.Hex(enc) + " ="
		}
		return fmt.Sprintf("%s NE %s tail=%d", drv.Hex(enc), showU64s(dec), len(tail))
	case "cblk":
		p := item(a[0])
		enc := encoding.VerifCompressBlock(p)
		dec, tail, err := encoding.VerifDecompressBlock(enc)
		if err != nil {
			return drv.Hex(enc) + " ERR"
		}
		if string(dec) == string(p) && len(tail) == 0 {
			return drv.Hex(enc) + " ="
		}
		return fmt.Sprintf("%s NE %s tail=%d", drv.Hex(enc), drv.Hex(dec), len(tail))
	case "bytes":
		b := item(a[0])
		enc := encoding.EncodeBytes(nil, b)
		tail, v, err := encoding.DecodeBytes(enc)
		if err != nil {
			return drv.Hex(enc) + " ERR"
		}
		return fmt.Sprintf("%s %s %d", drv.Hex(enc), drv.Hex(v), len(tail))
	case "bb":
		its := items(a)
		enc := encoding.EncodeBytesBlock(nil, its)
		var dec encoding.BytesBlockDecoder
		out, err := dec.Decode(nil, enc, uint64(len(its)))
		if err != nil {
			return drv.Hex(enc) + " ERR"
		}
		if sameItems(out, its) {
			return drv.Hex(enc) + " ="
		}
		return drv.Hex(enc) + " NE " + showItems(out)
	case "tv":
		tt, tv := tvParse(a[1], a[2:])
		raw, out := tvRoundTrip(a[0], tt, tv)
		return showItem(raw) + " " + tvShow(out)
	case "col":
		vals := items(a[1:])
		enc, out := measure.VerifC11ColumnRoundTrip(vtOf(a[0]), vals)
		if sameItems(out, vals) {
			return drv.Hex(enc) + " ="
		}
		return drv.Hex(enc) + " NE " + showItems(out)
	case "bbt":
		// EncodeBytesBlock + trailing bytes, decoded by a zero-value BytesBlockDecoder.DecodeWithTail
		tailIn := drv.UnHex(a[0])
		its := items(a[1:])
		enc := encoding.EncodeBytesBlock(nil, its)
		var dec encoding.BytesBlockDecoder
		out, tail, err := dec.DecodeWithTail(nil, append(append([]byte(nil), enc...), tailIn...), uint64(len(its)))
		if err != nil {
			return drv.Hex(enc) + " ERR"
		}
		if sameItems(out, its) && string(tail) == string(tailIn) {
			return drv.Hex(enc) + " ="
		}
		return fmt.Sprintf("%s NE %s tail=%s", drv.Hex(enc), showItems(out), drv.Hex(tail))
	case "rle":
		var src []uint32
		for _, u := range u64s(a) {
			src = append(src, uint32(u))
		}
		return showU32s(encoding.VerifEncodeRLE(src))
	case "bp":
		var src []uint32
		for _, u := range u64s(a) {
			src = append(src, uint32(u))
		}
		enc := encoding.VerifEncodeBitPacking(src)
		dec, err := encoding.VerifDecodeBitPacking(enc)
		if err != nil {
			return drv.Hex(enc) + " ERR"
		}
		same := len(dec) == len(src)
		for i := 0; same && i < len(src); i++ {
			same = dec[i] == src[i]
		}
		if same {
			return drv.Hex(enc) + " ="
		}
		return drv.Hex(enc) + " NE " + showU32s(dec)
	case "dict":
		its := items(a)
		d := encoding.NewDictionary()
		for i, it := range its {
			if !d.Add(it) {
				return fmt.Sprintf("REFUSED %d", i)
			}
		}
		enc := d.Encode(nil)
		out, err := encoding.NewDictionary().Decode(nil, enc, uint64(len(its)))
		if err != nil {
			return drv.Hex(enc) + " ERR"
		}
		if sameItems(out, its) {
			return drv.Hex(enc) + " ="
		}
		return drv.Hex(enc) + " NE " + showItems(out)
	case "va":
		var enc []byte
		for _, it := range items(a) {
			enc = vararray.MarshalVarArray(enc, it)
		}
		buf := append([]byte(nil), enc...)
		var out []string
		for idx := 0; idx < len(buf); {
			end, next, err := encoding.UnmarshalVarArray(buf, idx)
			if err != nil {
				out = append(out, "ERR")
				break
			}
			out = append(out, drv.Hex(buf[idx:end]))
			idx = next
		}
		return drv.Hex(enc) + " " + strings.Join(out, " ")
	case "tag":
		vals := items(a[1:])
		bb := &bytes.Buffer{}
		et, err := benc.EncodeTagValues(bb, vals, vtOf(a[0]))
		if err != nil {
			return "ERR"
		}
		enc := append([]byte(nil), bb.Buf...)
		head := fmt.Sprintf("%d %s", et, drv.Hex(enc))
		return head + " " + safe(func() string {
			out, derr := benc.DecodeTagValues(nil, &encoding.BytesBlockDecoder{}, &bytes.Buffer{Buf: append([]byte(nil), enc...)}, vtOf(a[0]), len(vals))
			if derr != nil {
				return "ERR"
			}
			if sameItems(out, vals) {
				return "="
			}
			return "NE " + showItems(out)
		})
	case "f64":
		fs := make([]float64, len(a))
		for i, s := range a {
			fs[i] = f64of(s)
		}
		ds, exp, err := encoding.Float64ListToDecimalIntList(nil, fs)
		if err != nil {
			return "REFUSED"
		}
		out, err := encoding.DecimalIntListToFloat64List(nil, ds, exp, len(ds))
		if err != nil {
			return fmt.Sprintf("%d %s ERR", exp, showI64s(ds))
		}
		same := len(out) == len(fs)
		for i := 0; same && i < len(fs); i++ {
			same = math.Float64bits(out[i]) == math.Float64bits(fs[i])
		}
		if same {
			return fmt.Sprintf("%d %s =", exp, showI64s(ds))
		}
		p := make([]string, len(out))
		for i, o := range out {
			p[i] = bitsHex(o)
		}
		return fmt.Sprintf("%d %s NE %s", exp, showI64s(ds), strings.Join(p, " "))
	case "mp10":
		v := i64s(a[:1])[0]
		n, _ := strconv.ParseInt(a[1], 10, 16)
		r, ok := encoding.VerifMulPow10(v, int16(n))
		if !ok {
			return "REFUSED"
		}
		return strconv.FormatInt(r, 10)

	// ---- decoders on arbitrary bytes -----------------------------------------------------
	case "dec-vi64":
		dst := make([]int64, atoi(a[1]))
		tail, err := encoding.BytesToVarInt64List(dst, drv.UnHex(a[0]))
		return res(err, func() string { return fmt.Sprintf("%s tail=%d", showI64s(dst), len(tail)) })
	case "dec-vu64":
		dst := make([]uint64, atoi(a[1]))
		tail, err := encoding.BytesToVarUint64s(dst, drv.UnHex(a[0]))
		return res(err, func() string { return fmt.Sprintf("%s tail=%d", showU64s(dst), len(tail)) })
	case "dec-vu1":
		tail, v := encoding.BytesToVarUint64(drv.UnHex(a[0]))
		return fmt.Sprintf("ok %d tail=%d", v, len(tail))
	case "dec-bytes":
		tail, v, err := encoding.DecodeBytes(drv.UnHex(a[0]))
		return res(err, func() string { return fmt.Sprintf("%s tail=%d", drv.Hex(v), len(tail)) })
	case "dec-i64l":
		mt, _ := strconv.ParseUint(a[1], 10, 8)
		first := i64s(a[2:3])[0]
		n := atoi(a[3])
		out, err := encoding.BytesToInt64List(nil, drv.UnHex(a[0]), encoding.EncodeType(mt), first, n)
		return res(err, func() string { return showI64s(out) })
	case "dec-u64b":
		out, tail, err := encoding.DecodeUint64Block(nil, drv.UnHex(a[0]), atou(a[1]))
		return res(err, func() string { return fmt.Sprintf("%s tail=%d", showU64s(out), len(tail)) })
	case "dec-cblk":
		out, tail, err := encoding.VerifDecompressBlock(drv.UnHex(a[0]))
		return res(err, func() string { return fmt.Sprintf("%s tail=%d", drv.Hex(out), len(tail)) })
	case "dec-bb":
		var dec encoding.BytesBlockDecoder
		out, err := dec.Decode(nil, drv.UnHex(a[0]), atou(a[1]))
		return res(err, func() string { return showItems(out) })
	case "dec-bbt":
		var dec encoding.BytesBlockDecoder
		out, tail, err := dec.DecodeWithTail(nil, drv.UnHex(a[0]), atou(a[1]))
		return res(err, func() string { return fmt.Sprintf("%s tail=%d", showItems(out), len(tail)) })
	case "dec-bp":
		out, err := encoding.VerifDecodeBitPacking(drv.UnHex(a[0]))
		return res(err, func() string { return showU32s(out) })
	case "dec-dict":
		out, err := encoding.NewDictionary().Decode(nil, drv.UnHex(a[0]), atou(a[1]))
		return res(err, func() string { return showItems(out) })
	case "dec-dictv":
		out, err := encoding.DecodeDictionaryValues(drv.UnHex(a[0]))
		return res(err, func() string { return showItems(out) })
	case "dec-va":
		buf := drv.UnHex(a[0])
		idx := atoi(a[1])
		end, next, err := encoding.UnmarshalVarArray(buf, idx)
		return res(err, func() string { return fmt.Sprintf("%s next=%d", drv.Hex(buf[idx:end]), next) })
	case "dec-tag":
		out, err := benc.DecodeTagValues(nil, &encoding.BytesBlockDecoder{}, &bytes.Buffer{Buf: drv.UnHex(a[1])}, vtOf(a[0]), atoi(a[2]))
		return res(err, func() string { return showItems(out) })
	}
	return "bad-op"
}

// allocated returns the cumulative number of heap bytes allocated by the process.
func allocated() uint64 {
	s := []metrics.Sample{{Name: "/gc/heap/allocs:bytes"}}
	metrics.Read(s)
	if s[0].Value.Kind() == metrics.KindUint64 {
		return s[0].Value.Uint64()
	}
	return 0
}

// accounted runs one case and prefixes the result with ALLOC-EXCESS when the case allocated more
// than a generous linear budget in the size of its input line (64 MiB + 256 bytes per input byte):
// "decoders never allocate without bound" as a measured predicate.
func accounted(f []string) string {
	if len(f) > 0 && f[0] == "tok" {
		return handle(f)
	}
	size := 0
	for _, s := range f {
		if s == ";" {
			break
		}
		size += len(s) + 1
	}
	before := allocated()
	r := safe(func() string { return handle(f) })
	if d := allocated() - before; d > 64<<20+256*uint64(size) {
		return fmt.Sprintf("ALLOC-EXCESS %dMiB %s", d>>20, r)
	}
	return r
}

func main() {
	_ = logger.Init(logger.Logging{Env: "prod", Level: "panic"})
	go watchdog()
	drv.Run(func(f []string) string { return guarded(func() string { return accounted(f) }) })
}
