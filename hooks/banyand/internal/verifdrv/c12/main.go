//go:build verif

// Driver for C12: pkg/convert ordered encodings, pkg/pb/v1 Series marshal/unmarshal.
package main

import (
	"bytes"
	"encoding/binary"
	"fmt"
	"math"
	"strconv"
	"strings"

	modelv1 "github.com/apache/skywalking-banyandb/api/proto/banyandb/model/v1"
	"github.com/apache/skywalking-banyandb/banyand/internal/verifdrv/drv"
	"github.com/apache/skywalking-banyandb/pkg/convert"
	pbv1 "github.com/apache/skywalking-banyandb/pkg/pb/v1"
	ltrace "github.com/apache/skywalking-banyandb/pkg/query/logical/trace"
	vtrace "github.com/apache/skywalking-banyandb/pkg/query/vectorized/trace"
	"google.golang.org/protobuf/types/known/timestamppb"
)

func parseTV(s string) *modelv1.TagValue {
	switch s[0] {
	case 'N':
		return pbv1.NullTagValue
	case 'S':
		return &modelv1.TagValue{Value: &modelv1.TagValue_Str{Str: &modelv1.Str{Value: string(drv.UnHex(s[1:]))}}}
	case 'B':
		return &modelv1.TagValue{Value: &modelv1.TagValue_BinaryData{BinaryData: drv.UnHex(s[1:])}}
	case 'I':
		v, err := strconv.ParseInt(s[1:], 10, 64)
		if err != nil {
			panic(err)
		}
		return &modelv1.TagValue{Value: &modelv1.TagValue_Int{Int: &modelv1.Int{Value: v}}}
	}
	panic("bad tv " + s)
}

func showTV(tv *modelv1.TagValue) string {
	switch v := tv.Value.(type) {
	case *modelv1.TagValue_Null:
		return "N"
	case *modelv1.TagValue_Str:
		return "S" + drv.Hex([]byte(v.Str.Value))
	case *modelv1.TagValue_BinaryData:
		return "B" + drv.Hex(v.BinaryData)
	case *modelv1.TagValue_Int:
		return "I" + strconv.FormatInt(v.Int.Value, 10)
	}
	return "?" + tv.String()
}

func handle(f []string) string {
	if len(f) == 0 {
		return "bad-op"
	}
	switch f[0] {
	case "i64":
		a, _ := strconv.ParseInt(f[1], 10, 64)
		b, _ := strconv.ParseInt(f[2], 10, 64)
		ea, eb := convert.Int64ToBytes(a), convert.Int64ToBytes(b)
		return fmt.Sprintf("%s %s %s %d", drv.HexRaw(ea), drv.HexRaw(eb), drv.B01(bytes.Compare(ea, eb) < 0), convert.BytesToInt64(ea))
	case "i32":
		a, _ := strconv.ParseInt(f[1], 10, 32)
		b, _ := strconv.ParseInt(f[2], 10, 32)
		ea, eb := convert.Int32ToBytes(int32(a)), convert.Int32ToBytes(int32(b))
		return fmt.Sprintf("%s %s %s %d", drv.HexRaw(ea), drv.HexRaw(eb), drv.B01(bytes.Compare(ea, eb) < 0), convert.BytesToInt32(ea))
	case "sk": // composite / distributed sort keys of int64 values: sk <trace|vtrace|tag> a b
		a, _ := strconv.ParseInt(f[2], 10, 64)
		b, _ := strconv.ParseInt(f[3], 10, 64)
		var ea, eb []byte
		switch f[1] {
		case "trace":
			ea, eb = ltrace.VerifC12SortKey(a), ltrace.VerifC12SortKey(b)
		case "vtrace":
			ea, eb = vtrace.NewMergeItem(a, 0, 0, nil).SortedField(), vtrace.NewMergeItem(b, 0, 0, nil).SortedField()
		case "tag":
			var err error
			if ea, err = pbv1.MarshalTagValue(&modelv1.TagValue{Value: &modelv1.TagValue_Int{Int: &modelv1.Int{Value: a}}}); err != nil {
				return "ERR"
			}
			if eb, err = pbv1.MarshalTagValue(&modelv1.TagValue{Value: &modelv1.TagValue_Int{Int: &modelv1.Int{Value: b}}}); err != nil {
				return "ERR"
			}
		default:
			return "bad-op"
		}
		return fmt.Sprintf("%s %s %s", drv.HexRaw(ea), drv.HexRaw(eb), drv.B01(bytes.Compare(ea, eb) < 0))
	case "skts": // timestamp tag sort key: skts secA nanosA secB nanosB
		sa, _ := strconv.ParseInt(f[1], 10, 64)
		na, _ := strconv.ParseInt(f[2], 10, 32)
		sb, _ := strconv.ParseInt(f[3], 10, 64)
		nb, _ := strconv.ParseInt(f[4], 10, 32)
		ea, err := pbv1.MarshalTagValue(&modelv1.TagValue{Value: &modelv1.TagValue_Timestamp{Timestamp: &timestamppb.Timestamp{Seconds: sa, Nanos: int32(na)}}})
		if err != nil {
			return "ERR"
		}
		eb, err := pbv1.MarshalTagValue(&modelv1.TagValue{Value: &modelv1.TagValue_Timestamp{Timestamp: &timestamppb.Timestamp{Seconds: sb, Nanos: int32(nb)}}})
		if err != nil {
			return "ERR"
		}
		return fmt.Sprintf("%s %s %s", drv.HexRaw(ea), drv.HexRaw(eb), drv.B01(bytes.Compare(ea, eb) < 0))
	case "i16":
		a, _ := strconv.ParseInt(f[1], 10, 16)
		ea := convert.Int16ToBytes(int16(a))
		return fmt.Sprintf("%s %d", drv.HexRaw(ea), convert.BytesToInt16(ea))
	case "f64":
		a := math.Float64frombits(binary.BigEndian.Uint64(drv.UnHex(f[1])))
		b := math.Float64frombits(binary.BigEndian.Uint64(drv.UnHex(f[2])))
		ea, eb := convert.Float64ToOrderedBytes(a), convert.Float64ToOrderedBytes(b)
		return fmt.Sprintf("%s %s %s %016x", drv.HexRaw(ea), drv.HexRaw(eb), drv.B01(bytes.Compare(ea, eb) < 0),
			math.Float64bits(convert.OrderedBytesToFloat64(ea)))
	case "ser":
		s := &pbv1.Series{Subject: string(drv.UnHex(f[1]))}
		for _, t := range f[2:] {
			s.EntityValues = append(s.EntityValues, parseTV(t))
		}
		if err := s.Marshal(); err != nil {
			return "MERR"
		}
		m := append([]byte(nil), s.Buffer...)
		id := s.ID
		var u pbv1.Series
		us := drv.Safe(func() string {
			if err := u.Unmarshal(m); err != nil {
				return "ERR"
			}
			parts := []string{drv.Hex([]byte(u.Subject))}
			for _, tv := range u.EntityValues {
				parts = append(parts, showTV(tv))
			}
			if u.ID != id {
				return "IDMISMATCH"
			}
			return strings.Join(parts, " ")
		})
		return drv.HexRaw(m) + " " + us
	}
	return "bad-op"
}

func main() { drv.Run(handle) }
