//go:build verif

// Driver for C13: a trace is stored, returned and sampled as a whole.
// The case handlers live in package trace (hooks/banyand/trace/zz_verif_c13*.go) because
// they drive unexported engine code (fragment guard, drop set, merge chain, tsTable).
package main

import (
	"fmt"
	"os"
	"path/filepath"

	"github.com/apache/skywalking-banyandb/banyand/internal/verifdrv/drv"
	"github.com/apache/skywalking-banyandb/banyand/trace"
)

func main() {
	base := os.Getenv("VERIF_SCRATCH")
	if base == "" {
		base = "/verif/.scratch"
	}
	dir := filepath.Join(base, fmt.Sprintf("c13-%d", os.Getpid()))
	if err := os.MkdirAll(dir, 0o755); err != nil {
		panic(err)
	}
	defer os.RemoveAll(dir)
	trace.VerifC13SetScratch(dir)
	drv.Run(trace.VerifC13)
}
