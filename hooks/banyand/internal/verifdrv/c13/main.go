//go:build verif

// Driver for C13: a trace is stored, returned and sampled as a whole.
// The case handlers live in package trace (hooks/banyand/trace/zz_verif_c13*.go) because
// they drive unexported engine code (fragment guard, drop set, merge chain, tsTable).
//
// Table-level cases are dominated by fsync-ing real part files, so the driver fans the input
// out to a few worker processes (the same binary, VERIF_C13_WORKER=1, each one a plain
// drv.Run loop with its own scratch directory) and prints the answers in input order.
// Cases are independent: every case builds its own table in its own directory.
package main

import (
	"bufio"
	"fmt"
	"io"
	"os"
	"os/exec"
	"path/filepath"
	"runtime"
	"strconv"
	"strings"
	"sync"

	"github.com/apache/skywalking-banyandb/banyand/internal/verifdrv/drv"
	"github.com/apache/skywalking-banyandb/banyand/trace"
)

func scratchBase() string {
	base := os.Getenv("VERIF_SCRATCH")
	if base == "" {
		base = "/verif/.scratch"
	}
	return base
}

func worker() {
	dir := filepath.Join(scratchBase(), fmt.Sprintf("c13-%d", os.Getpid()))
	if err := os.MkdirAll(dir, 0o755); err != nil {
		panic(err)
	}
	defer os.RemoveAll(dir)
	trace.VerifC13SetScratch(dir)
	drv.Run(trace.VerifC13)
}

// runChunk feeds lines to one worker process; if the worker dies the line it died on is
// answered with "PANIC worker died" and a fresh worker takes the rest.
func runChunk(self string, lines []string, out []string, idx []int) {
	pos := 0
	for pos < len(idx) {
		cmd := exec.Command(self)
		cmd.Env = append(os.Environ(), "VERIF_C13_WORKER=1")
		cmd.Stderr = io.Discard
		stdin, _ := cmd.StdinPipe()
		stdout, _ := cmd.StdoutPipe()
		if err := cmd.Start(); err != nil {
			for ; pos < len(idx); pos++ {
				out[idx[pos]] = "PANIC cannot start worker: " + err.Error()
			}
			return
		}
		go func(from int) {
			w := bufio.NewWriter(stdin)
			for i := from; i < len(idx); i++ {
				fmt.Fprintln(w, lines[idx[i]])
			}
			w.Flush()
			stdin.Close()
		}(pos)
		r := bufio.NewReaderSize(stdout, 1<<20)
		for pos < len(idx) {
			line, err := r.ReadString('\n')
			if err != nil {
				break
			}
			out[idx[pos]] = strings.TrimRight(line, "\r\n")
			pos++
		}
		_ = cmd.Wait()
		if pos < len(idx) {
			out[idx[pos]] = "PANIC worker process died"
			pos++
		}
	}
}

// sweepStale removes scratch directories of c13 driver processes that no longer exist
// (a killed run cannot run its deferred cleanup).
func sweepStale() {
	entries, err := os.ReadDir(scratchBase())
	if err != nil {
		return
	}
	for _, e := range entries {
		if !strings.HasPrefix(e.Name(), "c13-") {
			continue
		}
		pid, convErr := strconv.Atoi(strings.TrimPrefix(e.Name(), "c13-"))
		if convErr != nil {
			continue
		}
		if _, statErr := os.Stat(fmt.Sprintf("/proc/%d", pid)); os.IsNotExist(statErr) {
			_ = os.RemoveAll(filepath.Join(scratchBase(), e.Name()))
		}
	}
}

func main() {
	if os.Getenv("VERIF_C13_WORKER") != "" {
		worker()
		return
	}
	sweepStale()
	var lines []string
	in := bufio.NewReaderSize(os.Stdin, 1<<20)
	for {
		line, err := in.ReadString('\n')
		if len(line) > 0 {
			lines = append(lines, strings.TrimRight(line, "\r\n"))
		}
		if err != nil {
			break
		}
	}
	n := runtime.NumCPU() / 2
	if v, err := strconv.Atoi(os.Getenv("VERIF_C13_WORKERS")); err == nil && v > 0 {
		n = v
	}
	n = max(1, min(n, 8, (len(lines)+49)/50))
	self, err := os.Executable()
	if err != nil || n == 1 {
		// small inputs (replays): run in-process
		dir := filepath.Join(scratchBase(), fmt.Sprintf("c13-%d", os.Getpid()))
		if err := os.MkdirAll(dir, 0o755); err != nil {
			panic(err)
		}
		defer os.RemoveAll(dir)
		trace.VerifC13SetScratch(dir)
		w := bufio.NewWriter(os.Stdout)
		defer w.Flush()
		for _, l := range lines {
			res := drv.Safe(func() string { return trace.VerifC13(strings.Fields(l)) })
			fmt.Fprintln(w, strings.ReplaceAll(res, "\n", "\\n"))
		}
		return
	}
	out := make([]string, len(lines))
	chunks := make([][]int, n)
	for i := range lines {
		chunks[i%n] = append(chunks[i%n], i)
	}
	var wg sync.WaitGroup
	for _, idx := range chunks {
		wg.Add(1)
		go func(idx []int) {
			defer wg.Done()
			runChunk(self, lines, out, idx)
		}(idx)
	}
	wg.Wait()
	w := bufio.NewWriterSize(os.Stdout, 1<<20)
	defer w.Flush()
	for _, l := range out {
		fmt.Fprintln(w, l)
	}
}
