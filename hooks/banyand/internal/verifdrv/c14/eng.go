//go:build verif

package main

import (
	"fmt"
	"os"
	"path/filepath"
	"strconv"
	"strings"
	"time"

	"github.com/apache/skywalking-banyandb/banyand/internal/verifdrv/drv"
	"github.com/apache/skywalking-banyandb/banyand/stream"
	"github.com/apache/skywalking-banyandb/banyand/trace"
)

// eng <K> <op> ...   — "engine holders" cases (oracle only, no Lean model): a real stream engine and a
// real trace engine, each over its own TSDB with K daily segments; the driver holds its own references
// while the engines' entry points run.
//
//	H<e><i> driver takes a reference on segment i of engine e (s = stream, t = trace)   R<e><i> releases it
//	U<e><i> the driver, as a holder, looks at IndexDB()/directory
//	Q<o><m><v><lo><hi> stream.Query over segments lo..hi: o = i (ordered by index rule) | t (by time),
//	        m = y (entity exists) | n (matches no series), v = 1 vectorized | 0 row path; result pulled + released
//	P<e><how><i> chunked-sync part handler for segment i: create, then Close. how: ok | ts | gr | tb,
//	        trace also sx (first part is a sidx part; fails, the data path is relative) | os (core then sidx)
//	K<e> real database.Tick inside the last hour of the newest segment: rotation pre-creates the next segment
//	I idle reclaim on both engines          X<e><i> DeleteExpiredSegments([i])
//
// output: "init=<dump> <res>=<dump> ..."; dump = stream segments ',' joined '/' trace segments, each
// refCount.index!=nil.mustBeDeleted.dirExists
type engine interface {
	K() int
	State(i int) (int32, bool, bool, bool)
	Hold(i int) error
	Release(i int)
	Look(i int) bool
	IdleReclaim() int
	Delete(i int) int64
	SyncPart(i int, how string) string
	RotationTick() string
	Close() error
}

type engWorld struct {
	st   *stream.VerifC14Engine
	tr   *trace.VerifC14Engine
	held map[byte][]int
	k    int
}

func (w *engWorld) eng(c byte) engine {
	if c == 's' {
		return w.st
	}
	if c == 't' {
		return w.tr
	}
	panic("bad engine letter")
}

func (w *engWorld) dump() string {
	one := func(e engine) string {
		parts := make([]string, e.K())
		for i := 0; i < e.K(); i++ {
			rc, op, mbd, dir := e.State(i)
			parts[i] = fmt.Sprintf("%d.%s.%s.%s", rc, drv.B01(op), drv.B01(mbd), drv.B01(dir))
		}
		return strings.Join(parts, ",")
	}
	return one(w.st) + "/" + one(w.tr)
}

func (w *engWorld) op(o string) string {
	switch o[0] {
	case 'H':
		e, i := o[1], dig(o[2], w.eng(o[1]).K())
		if err := w.eng(e).Hold(i); err != nil {
			return "err"
		}
		w.held[e][i]++
		return "ok"
	case 'R':
		e, i := o[1], dig(o[2], w.eng(o[1]).K())
		if w.held[e][i] == 0 {
			return "-"
		}
		w.held[e][i]--
		w.eng(e).Release(i)
		return "ok"
	case 'U':
		e, i := o[1], dig(o[2], w.eng(o[1]).K())
		if w.held[e][i] == 0 {
			return "-"
		}
		return drv.B01(w.eng(e).Look(i))
	case 'Q':
		lo, hi := dig(o[4], w.st.K()), dig(o[5], w.st.K())
		n, res := w.st.Query(lo, hi, o[1] == 'i', o[2] == 'y', o[3] == '1')
		return res + ":" + strconv.Itoa(n)
	case 'P':
		return w.eng(o[1]).SyncPart(dig(o[4], w.eng(o[1]).K()), o[2:4])
	case 'I':
		return strconv.Itoa(w.st.IdleReclaim()) + "+" + strconv.Itoa(w.tr.IdleReclaim())
	case 'X':
		return strconv.FormatInt(w.eng(o[1]).Delete(dig(o[2], w.eng(o[1]).K())), 10)
	case 'K':
		r := w.eng(o[1]).RotationTick()
		for len(w.held[o[1]]) < w.eng(o[1]).K() {
			w.held[o[1]] = append(w.held[o[1]], 0)
		}
		return r
	}
	panic("bad eng op " + o)
}

func engCase(f []string) string {
	k, err := strconv.Atoi(f[1])
	if err != nil || k < 1 || k > 4 {
		return "bad-op"
	}
	if err := os.MkdirAll("/verif/.scratch", 0o755); err != nil {
		panic(err)
	}
	dir, err := os.MkdirTemp("/verif/.scratch", "c14e-")
	if err != nil {
		panic(err)
	}
	defer os.RemoveAll(dir)
	base := time.Now().UTC().Truncate(24 * time.Hour).Add(-time.Duration(k+2) * 24 * time.Hour)
	st, err := stream.NewVerifC14Engine(filepath.Join(dir, "stream"), base, k)
	if err != nil {
		panic(err)
	}
	defer st.Close()
	cwd, err := os.Getwd()
	if err != nil {
		panic(err)
	}
	rel, err := filepath.Rel(cwd, filepath.Join(dir, "trace"))
	if err != nil {
		panic(err)
	}
	tr, err := trace.NewVerifC14Engine(rel, base, k)
	if err != nil {
		panic(err)
	}
	defer tr.Close()
	w := &engWorld{st: st, tr: tr, k: k, held: map[byte][]int{'s': make([]int, k), 't': make([]int, k)}}
	out := []string{"init=" + w.dump()}
	for _, o := range f[2:] {
		r := w.op(o)
		out = append(out, r+"="+w.dump())
	}
	// leave nothing pinned so that Close is clean
	for _, e := range []byte{'s', 't'} {
		for i := range w.held[e] {
			for w.held[e][i] > 0 {
				w.held[e][i]--
				w.eng(e).Release(i)
			}
		}
	}
	return strings.Join(out, " ")
}
