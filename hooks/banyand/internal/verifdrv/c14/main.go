//go:build verif

// Driver for C14: the real storage.segment / segmentController dormant-reference protocol,
// exercised op by op (sequential differential) and, with the `stress` case kind, concurrently.
//
// protocol: one case per line
//
//	<kind> <K> <op> <op> ...         (K = number of daily segments, 1..6)
//
// output: "init=<dump> <res>=<dump> ..." – one token per op; <dump> is, per segment,
// refCount.index!=nil.mustBeDeleted.dirExists.inControllerList.openTables joined by ','.
// ops (c = client digit, i/j = segment digit):
//
//	a<c><i>  incRef                      r<c><i>  DecRef if c holds i      u<c><i>  holder looks at IndexDB()/dir
//	s<c><lo><hi> SelectSegments(reopen)  p<c><lo><hi> SelectSegments(false) q<c> DecRef all of c's last p
//	g<i> age segment  G age all          i closeIdleSegments               t<j> retention run, segments <j expired
//	o DeleteOldestSegment                x<i> DeleteExpiredSegments([i])   e GetExpiredSegmentsTimeRange
//	n TakeFileSnapshot                   m metrics collection              k rotation tick (segments(true)...)
//	f<i><v> inject shard-open failure    c db.Close                        R every client releases everything
//	h<c><i> arm: during the next TSTable.Close another goroutine runs client c's incRef(i)
//	T<j>    TTL := K-j days via UpdateOptions (mock clock stays at day K): segments < j are past the
//	        retention deadline but still present; SelectSegments filters them out and must DecRef them
//	D<i>    arm: while the next op reopens segment i (inside initialize, under s.mu, after acquire's
//	        mustBeDeleted check) another goroutine runs DeleteExpiredSegments([i]); it is joined after the op
package main

import (
	"context"
	"errors"
	"fmt"
	"os"
	"path/filepath"
	"sort"
	"strconv"
	"strings"
	"sync"
	"sync/atomic"
	"time"

	"github.com/apache/skywalking-banyandb/api/common"
	commonv1 "github.com/apache/skywalking-banyandb/api/proto/banyandb/common/v1"
	"github.com/apache/skywalking-banyandb/banyand/internal/storage"
	"github.com/apache/skywalking-banyandb/banyand/internal/verifdrv/drv"
	"github.com/apache/skywalking-banyandb/pkg/fs"
	"github.com/apache/skywalking-banyandb/pkg/logger"
	"github.com/apache/skywalking-banyandb/pkg/timestamp"
)

const (
	nShards = 2
	ttlDays = 30
)

type tbl struct {
	w      *world
	seg    int
	closed atomic.Bool
}

func (t *tbl) Close() error {
	if t.closed.CompareAndSwap(false, true) {
		t.w.openTables[t.seg].Add(-1)
	}
	t.w.mu.Lock()
	f := t.w.onClose
	t.w.onClose = nil
	t.w.mu.Unlock()
	if f != nil {
		f()
	}
	return nil
}
func (t *tbl) Collect(storage.Metrics) {}
func (t *tbl) TakeFileSnapshot(dst string) (bool, error) {
	if t.closed.Load() {
		t.w.usedClosed.Add(1)
	}
	return true, os.WriteFile(filepath.Join(dst, "part"), []byte("x"), 0o600)
}

type (
	hseg = storage.VerifC14Seg[*tbl, struct{}]
	iseg = storage.Segment[*tbl, struct{}]
)

type world struct {
	db         storage.TSDB[*tbl, struct{}]
	v          *storage.VerifC14[*tbl, struct{}]
	clock      timestamp.MockClock
	dir        string
	segs       []*hseg
	byLoc      map[string]int
	bySuffix   map[string]int
	openTables []atomic.Int32
	fail       []atomic.Int32
	held       [][]int  // client -> seg -> count
	peeked     [][]iseg // client -> last stats-peek result
	peekPinned [][]bool
	mu         sync.Mutex
	onClose    func()
	hookRes    string
	openHook   atomic.Int32 // segment+1 armed by D
	delDone    chan struct{}
	usedClosed atomic.Int32
	k          int
	ttl        int // days
	closed     bool
	snapN      int
}

var base = time.Date(2024, 5, 10, 0, 0, 0, 0, time.UTC)

func day(i int) time.Time { return base.Add(time.Duration(i) * 24 * time.Hour) }

func open(k int) *world {
	if err := os.MkdirAll("/verif/.scratch", 0o755); err != nil {
		panic(err)
	}
	dir, err := os.MkdirTemp("/verif/.scratch", "c14-")
	if err != nil {
		panic(err)
	}
	w := &world{dir: dir, k: k, ttl: ttlDays, byLoc: map[string]int{}, bySuffix: map[string]int{}}
	w.openTables = make([]atomic.Int32, k)
	w.fail = make([]atomic.Int32, k)
	for c := 0; c < 10; c++ {
		w.held = append(w.held, make([]int, k))
		w.peeked = append(w.peeked, nil)
		w.peekPinned = append(w.peekPinned, nil)
	}
	w.clock = timestamp.NewMockClock()
	w.clock.Set(day(k))
	ctx := timestamp.SetClock(context.Background(), w.clock)
	ctx = common.SetPosition(ctx, func(p common.Position) common.Position { p.Database = "d"; return p })
	for i := 0; i < k; i++ {
		w.bySuffix[day(i).Format("20060102")] = i
	}
	opts := storage.TSDBOpts[*tbl, struct{}]{
		Location:        filepath.Join(dir, "db"),
		SegmentInterval: storage.IntervalRule{Unit: storage.DAY, Num: 1},
		TTL:             storage.IntervalRule{Unit: storage.DAY, Num: ttlDays},
		ShardNum:        nShards,
		TSTableCreator: func(_ fs.FileSystem, _ string, p common.Position, _ *logger.Logger, _ timestamp.TimeRange, _ struct{}, _ any) (*tbl, error) {
			i, ok := w.bySuffix[p.Segment]
			if !ok {
				return nil, fmt.Errorf("unknown segment %q", p.Segment)
			}
			sh, _ := strconv.Atoi(p.Shard)
			if w.openHook.CompareAndSwap(int32(i+1), 0) {
				w.raceDelete(i)
			}
			if int(w.fail[i].Load()) == sh+1 {
				return nil, errors.New("injected shard open failure")
			}
			w.openTables[i].Add(1)
			return &tbl{w: w, seg: i}, nil
		},
		DisableRotation:    true,
		SegmentIdleTimeout: time.Hour,
	}
	db, err := storage.OpenTSDB(ctx, opts, nil, "g")
	if err != nil {
		panic(err)
	}
	w.db = db
	w.v = storage.NewVerifC14(db)
	for i := 0; i < k; i++ {
		s, cerr := db.CreateSegmentIfNotExist(day(i).Add(6 * time.Hour))
		if cerr != nil {
			panic(cerr)
		}
		for sh := 0; sh < nShards; sh++ {
			if _, terr := s.CreateTSTableIfNotExist(common.ShardID(sh)); terr != nil {
				panic(terr)
			}
		}
		w.byLoc[s.Location()] = i
		s.DecRef()
	}
	lst := w.v.List()
	if len(lst) != k {
		panic("unexpected segment list length")
	}
	w.segs = lst
	return w
}

// raceDelete runs on the goroutine that is inside segment.initialize (holding s.mu): it starts a
// second goroutine that deletes the same segment and waits until that one has stored the delete flag
// (and, with overwhelming probability, has loaded refCount == 0 and is blocked on s.mu).
func (w *world) raceDelete(i int) {
	done := make(chan struct{})
	w.delDone = done
	go func() {
		defer close(done)
		w.db.DeleteExpiredSegments([]string{w.segs[i].Suffix()})
	}()
	deadline := time.Now().Add(2 * time.Second)
	for time.Now().Before(deadline) {
		if _, _, mbd, _ := w.segs[i].StateNoLock(); mbd {
			break
		}
		time.Sleep(time.Millisecond)
	}
	time.Sleep(30 * time.Millisecond)
}

func (w *world) inList(i int) bool {
	for _, s := range w.v.List() {
		if s.Same(w.segs[i]) {
			return true
		}
	}
	return false
}

func (w *world) dump() string {
	parts := make([]string, w.k)
	for i, s := range w.segs {
		rc, op, mbd, dir := s.State()
		parts[i] = fmt.Sprintf("%d.%s.%s.%s.%s.%d", rc, drv.B01(op), drv.B01(mbd), drv.B01(dir), drv.B01(!w.closed && w.inList(i)), w.openTables[i].Load())
	}
	return strings.Join(parts, ",")
}

func errTok(err error) string {
	switch {
	case err == nil:
		return "ok"
	case errors.Is(err, storage.ErrSegmentClosed):
		return "closed"
	default:
		return "ierr"
	}
}

func dig(b byte, max int) int {
	n := int(b - '0')
	if n < 0 || n >= max {
		panic("bad digit in op")
	}
	return n
}

func (w *world) rng(lo, hi int) timestamp.TimeRange {
	return timestamp.NewInclusiveTimeRange(day(lo).Add(time.Hour), day(hi).Add(23*time.Hour))
}

func (w *world) idxOf(s iseg) int {
	i, ok := w.byLoc[s.Location()]
	if !ok {
		panic("unknown segment location " + s.Location())
	}
	return i
}

func (w *world) op(o string) string {
	switch o[0] {
	case 'a':
		c, i := dig(o[1], 10), dig(o[2], w.k)
		err := w.segs[i].IncRef()
		if err == nil {
			w.held[c][i]++
		}
		return errTok(err)
	case 'r':
		c, i := dig(o[1], 10), dig(o[2], w.k)
		if w.held[c][i] == 0 {
			return "-"
		}
		w.held[c][i]--
		w.segs[i].DecRef()
		return "ok"
	case 'u':
		c, i := dig(o[1], 10), dig(o[2], w.k)
		if w.held[c][i] == 0 {
			return "-"
		}
		_, _, _, dir := w.segs[i].State()
		return drv.B01(w.segs[i].IndexOpen() && dir)
	case 's', 'p':
		c, lo, hi := dig(o[1], 10), dig(o[2], w.k), dig(o[3], w.k)
		if o[0] == 'p' && w.peeked[c] != nil {
			return "-"
		}
		before := make([]int32, w.k)
		for i, s := range w.segs {
			before[i], _, _, _ = s.State()
		}
		ss, err := w.db.SelectSegments(w.rng(lo, hi), o[0] == 's')
		if err != nil {
			return errTok(err)
		}
		var idx []int
		for _, s := range ss {
			idx = append(idx, w.idxOf(s))
		}
		if o[0] == 's' {
			sort.Ints(idx)
			res := "ok:"
			for _, i := range idx {
				w.held[c][i]++
				res += strconv.Itoa(i)
			}
			return res
		}
		res := "ok:"
		pinned := make([]bool, len(ss))
		type pr struct {
			i int
			p bool
		}
		var prs []pr
		for n, s := range ss {
			i := w.idxOf(s)
			rc, _, _, _ := w.segs[i].State()
			pinned[n] = rc > before[i]
			prs = append(prs, pr{i, pinned[n]})
		}
		sort.Slice(prs, func(a, b int) bool { return prs[a].i < prs[b].i })
		for _, x := range prs {
			res += strconv.Itoa(x.i)
			if x.p {
				res += "+"
			} else {
				res += "-"
			}
		}
		if ss == nil {
			ss = []iseg{}
		}
		w.peeked[c] = ss
		w.peekPinned[c] = pinned
		return res
	case 'q':
		c := dig(o[1], 10)
		if w.peeked[c] == nil {
			return "-"
		}
		for _, s := range w.peeked[c] {
			s.DecRef()
		}
		w.peeked[c] = nil
		return "ok"
	case 'g':
		w.segs[dig(o[1], w.k)].SetLastAccessed(1)
		return "ok"
	case 'G':
		for _, s := range w.segs {
			s.SetLastAccessed(1)
		}
		return "ok"
	case 'i':
		return strconv.Itoa(w.v.CloseIdle())
	case 't':
		j := dig(o[1], w.k+1)
		w.v.RetentionRun(day(j).Add(time.Duration(w.ttl)*24*time.Hour + time.Hour))
		return "ok"
	case 'o':
		ok, err := w.db.DeleteOldestSegment()
		if err != nil {
			return "err"
		}
		return drv.B01(ok)
	case 'x':
		i := dig(o[1], w.k)
		return strconv.FormatInt(w.db.DeleteExpiredSegments([]string{w.segs[i].Suffix()}), 10)
	case 'e':
		w.db.GetExpiredSegmentsTimeRange()
		return "ok"
	case 'n':
		w.snapN++
		dst := filepath.Join(w.dir, "snap"+strconv.Itoa(w.snapN))
		if err := os.MkdirAll(dst, 0o755); err != nil {
			panic(err)
		}
		ok, err := w.db.TakeFileSnapshot(dst)
		_ = os.RemoveAll(dst)
		if err != nil {
			return "err"
		}
		return drv.B01(ok)
	case 'm':
		if w.closed {
			return "0"
		}
		return strconv.Itoa(w.v.CollectMetrics())
	case 'k':
		if w.closed {
			return "-"
		}
		n, err := w.v.VerifC14Tick(day(w.k).UnixNano())
		if err != nil {
			return errTok(err)
		}
		return "ok:" + strconv.Itoa(n)
	case 'f':
		w.fail[dig(o[1], w.k)].Store(int32(dig(o[2], nShards+1)))
		return "ok"
	case 'c':
		if w.closed {
			return "-"
		}
		w.closed = true
		if err := w.db.Close(); err != nil {
			return "err"
		}
		return "ok"
	case 'R':
		for c := range w.held {
			if w.peeked[c] != nil {
				for _, s := range w.peeked[c] {
					s.DecRef()
				}
				w.peeked[c] = nil
			}
			for i := range w.held[c] {
				for w.held[c][i] > 0 {
					w.held[c][i]--
					w.segs[i].DecRef()
				}
			}
		}
		return "ok"
	case 'T':
		if w.closed {
			return "-"
		}
		w.ttl = w.k - dig(o[1], w.k)
		w.db.UpdateOptions(&commonv1.ResourceOpts{
			ShardNum:        nShards,
			SegmentInterval: &commonv1.IntervalRule{Unit: commonv1.IntervalRule_UNIT_DAY, Num: 1},
			Ttl:             &commonv1.IntervalRule{Unit: commonv1.IntervalRule_UNIT_DAY, Num: uint32(w.ttl)},
		})
		return "ok"
	case 'D':
		w.openHook.Store(int32(dig(o[1], w.k) + 1))
		return "ok"
	case 'h':
		c, i := dig(o[1], 10), dig(o[2], w.k)
		w.mu.Lock()
		w.onClose = func() {
			done := make(chan error, 1)
			go func() { done <- w.segs[i].IncRef() }()
			select {
			case err := <-done:
				if err == nil {
					w.held[c][i]++
				}
				w.hookRes = "+h:" + errTok(err)
			case <-time.After(2 * time.Second):
				w.hookRes = "+h:blocked"
			}
		}
		w.mu.Unlock()
		return "ok"
	}
	panic("bad op " + o)
}

func (w *world) finish() {
	if !w.closed {
		w.closed = true
		_ = w.db.Close()
	}
	_ = os.RemoveAll(w.dir)
}

func seq(f []string) string {
	k, err := strconv.Atoi(f[1])
	if err != nil || k < 1 || k > 6 {
		return "bad-op"
	}
	w := open(k)
	defer w.finish()
	var out []string
	out = append(out, "init="+w.dump())
	for _, o := range f[2:] {
		r := w.op(o)
		if o[0] != 'h' && o[0] != 'D' {
			// a hook is armed for the op that follows `h` / `D` only
			w.mu.Lock()
			w.onClose = nil
			w.mu.Unlock()
			w.openHook.Store(0)
			r += w.hookRes
			w.hookRes = ""
			if w.delDone != nil {
				select {
				case <-w.delDone:
					r += "+D:done"
				case <-time.After(10 * time.Second):
					r += "+D:stuck"
				}
				w.delDone = nil
			}
		}
		out = append(out, r+"="+w.dump())
	}
	if n := w.usedClosed.Load(); n != 0 {
		out = append(out, fmt.Sprintf("USED-CLOSED-TABLE:%d", n))
	}
	return strings.Join(out, " ")
}

func main() {
	_ = logger.Init(logger.Logging{Env: "prod", Level: "fatal"})
	time.Local = time.UTC
	drv.Run(func(f []string) string {
		if len(f) < 2 {
			return "bad-op"
		}
		if f[0] == "stress" {
			return stress(f)
		}
		if f[0] == "eng" {
			return engCase(f)
		}
		return seq(f)
	})
}
