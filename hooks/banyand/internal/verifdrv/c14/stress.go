//go:build verif

package main

import (
	"fmt"
	"math/rand"
	"os"
	"path/filepath"
	"runtime"
	"sort"
	"strconv"
	"strings"
	"sync"
	"sync/atomic"
	"time"
)

// stress <K> <goroutines> <iterations> <seed> <classes>
//
// Supporting exploration only (no proof value): N goroutines run random operations of the enabled
// classes against one real TSDB and assert the model-independent oracle:
//   - between a successful pin and its DecRef the holder sees IndexDB() != nil and the directory;
//   - at quiescence every refCount is 0, idle-close closes every listed segment, retention removes
//     every directory;
//   - no panic.
//
// classes: s query (SelectSegments reopen + use + DecRef)   a direct incRef/use/DecRef
//
//	p stats peek (SelectSegments(false) + DecRef)        i age + closeIdleSegments
//	n snapshot   m metrics   k rotation tick             e GetExpiredSegmentsTimeRange
//	t retention of the oldest listed segment (at most K-1 times)   o DeleteOldestSegment
//
// output: "ok ops=<n>" or "VIOL <first violation> (n=<count>)".
func stress(f []string) string {
	if len(f) < 6 {
		return "bad-op"
	}
	k, _ := strconv.Atoi(f[1])
	n, _ := strconv.Atoi(f[2])
	iters, _ := strconv.Atoi(f[3])
	seed, _ := strconv.ParseInt(f[4], 10, 64)
	classes := f[5]
	if k < 1 || k > 6 || n < 1 || n > 64 || classes == "" {
		return "bad-op"
	}
	w := open(k)
	defer w.finish()
	var (
		viol   atomic.Int64
		first  atomic.Value
		ops    atomic.Int64
		delMu  sync.Mutex
		delCnt int
	)
	var catMu sync.Mutex
	cats := map[string]int{}
	report := func(format string, a ...any) {
		msg := fmt.Sprintf(format, a...)
		cat := "other"
		for _, c := range []string{"closed index", "no directory", "refCount", "leak", "panic", "blocked", "snapshot"} {
			if strings.Contains(msg, c) {
				cat = strings.ReplaceAll(c, " ", "-")
				break
			}
		}
		catMu.Lock()
		cats[cat]++
		catMu.Unlock()
		if viol.Add(1) == 1 {
			first.Store(msg)
		}
	}
	use := func(i int, what string) {
		for round := 0; round < 3; round++ {
			_, _, _, dir := w.segs[i].State()
			if !w.segs[i].IndexOpen() {
				report("%s: holder of segment %d sees a closed index", what, i)
			}
			if !dir {
				report("%s: holder of segment %d sees no directory", what, i)
			}
			if rc, _, _, _ := w.segs[i].State(); rc <= 0 {
				report("%s: holder of segment %d sees refCount %d", what, i, rc)
			}
			runtime.Gosched()
		}
	}
	var wg sync.WaitGroup
	for g := 0; g < n; g++ {
		wg.Add(1)
		go func(g int) {
			defer wg.Done()
			defer func() {
				if r := recover(); r != nil {
					report("panic: %v", r)
				}
			}()
			rnd := rand.New(rand.NewSource(seed*1000 + int64(g)))
			for it := 0; it < iters; it++ {
				ops.Add(1)
				switch classes[rnd.Intn(len(classes))] {
				case 's':
					lo := rnd.Intn(k)
					hi := lo + rnd.Intn(k-lo)
					ss, err := w.db.SelectSegments(w.rng(lo, hi), true)
					if err != nil {
						continue // closed error while a delete is in flight: allowed, must not leak (checked at the end)
					}
					for _, s := range ss {
						use(w.idxOf(s), "query")
					}
					for _, s := range ss {
						s.DecRef()
					}
				case 'a':
					i := rnd.Intn(k)
					if err := w.segs[i].IncRef(); err != nil {
						continue
					}
					use(i, "incRef")
					w.segs[i].DecRef()
				case 'p':
					ss, err := w.db.SelectSegments(w.rng(0, k-1), false)
					if err != nil {
						continue
					}
					runtime.Gosched()
					for _, s := range ss {
						s.DecRef()
					}
				case 'i':
					w.segs[rnd.Intn(k)].SetLastAccessed(1)
					w.v.CloseIdle()
				case 'n':
					dst := filepath.Join(w.dir, fmt.Sprintf("snap-%d-%d", g, it))
					_ = os.MkdirAll(dst, 0o755)
					if _, err := w.db.TakeFileSnapshot(dst); err != nil && !strings.Contains(err.Error(), "no such file") {
						report("snapshot: %v", err)
					}
					_ = os.RemoveAll(dst)
				case 'm':
					w.v.CollectMetrics()
				case 'k':
					_, _ = w.v.VerifC14Tick(day(k).UnixNano())
				case 'e':
					w.db.GetExpiredSegmentsTimeRange()
				case 't':
					delMu.Lock()
					if delCnt < k-1 && rnd.Intn(20) == 0 {
						delCnt++
						j := delCnt
						delMu.Unlock()
						w.v.RetentionRun(day(j).Add(ttlDays*24*time.Hour + time.Hour))
					} else {
						delMu.Unlock()
					}
				case 'o':
					delMu.Lock()
					if delCnt < k-1 && rnd.Intn(20) == 0 {
						delCnt++
						delMu.Unlock()
						_, _ = w.db.DeleteOldestSegment()
					} else {
						delMu.Unlock()
					}
				}
			}
		}(g)
	}
	wg.Wait()
	if w.usedClosed.Load() != 0 {
		report("a closed TSTable was used for a snapshot")
	}
	// quiescence: nothing is held any more
	for i, s := range w.segs {
		if rc, _, _, _ := s.State(); rc != 0 {
			report("leak: segment %d has refCount %d at quiescence", i, rc)
		}
	}
	for _, s := range w.segs {
		s.SetLastAccessed(1)
	}
	w.v.CloseIdle()
	for i, s := range w.segs {
		_, op, mbd, dir := s.State()
		if w.inList(i) && op {
			report("idle-close blocked on segment %d", i)
		}
		if mbd && dir {
			report("deleted segment %d still has its directory at quiescence", i)
		}
		if !mbd && !dir {
			report("segment %d lost its directory without being deleted", i)
		}
	}
	w.v.RetentionRun(day(k).Add(ttlDays*24*time.Hour + time.Hour))
	for i, s := range w.segs {
		if _, _, _, dir := s.State(); dir {
			report("retention blocked on segment %d", i)
		}
	}
	if c := viol.Load(); c != 0 {
		var keys []string
		for k := range cats {
			keys = append(keys, k)
		}
		sort.Strings(keys)
		var parts []string
		for _, k := range keys {
			parts = append(parts, fmt.Sprintf("%s:%d", k, cats[k]))
		}
		return fmt.Sprintf("VIOL %v (n=%d %s)", first.Load(), c, strings.Join(parts, ","))
	}
	return "ok"
}
