//go:build verif

package main

import (
	"context"
	"encoding/hex"
	"encoding/json"
	"fmt"
	"os"
	"path/filepath"
	"strconv"
	"strings"
	"time"

	"google.golang.org/protobuf/proto"
	"google.golang.org/protobuf/types/known/timestamppb"

	"github.com/apache/skywalking-banyandb/api/common"
	streamv1 "github.com/apache/skywalking-banyandb/api/proto/banyandb/stream/v1"
	"github.com/apache/skywalking-banyandb/banyand/query"
	"github.com/apache/skywalking-banyandb/pkg/bus"
	modelv1 "github.com/apache/skywalking-banyandb/api/proto/banyandb/model/v1"
	"github.com/apache/skywalking-banyandb/banyand/internal/sidx"
	"github.com/apache/skywalking-banyandb/banyand/observability"
	"github.com/apache/skywalking-banyandb/banyand/protector"
	"github.com/apache/skywalking-banyandb/banyand/stream"
	"github.com/apache/skywalking-banyandb/banyand/trace"
	"github.com/apache/skywalking-banyandb/pkg/fs"
	"github.com/apache/skywalking-banyandb/pkg/index"
	vtrace "github.com/apache/skywalking-banyandb/pkg/query/vectorized/trace"
)

// spar <dataset json> <query json>      stream: row path vs vectorized path over the same real tsTable parts
//   dataset: {"id":..,"batches":[[[series, tsMs, eid, "filterhex"],...],...]}   (one memory part per batch and segment)
//   query:   {"series":[..],"lo":ms,"hi":ms,"order":"asc|desc|","max":n,"bs":n}
// output: row=<ts:eid:tags,...|-|ERR:..> vec=<...>

type sDataset struct {
	ID      string            `json:"id"`
	Batches [][][]interface{} `json:"batches"`
}

type sQuery struct {
	Order  string `json:"order"`
	Series []int  `json:"series"`
	Lo     int64  `json:"lo"`
	Hi     int64  `json:"hi"`
	Max    int    `json:"max"`
	BS     int    `json:"bs"`
}

var (
	curStream    *stream.VerifC15Stream
	curStreamKey string
	curStreamDir string
)

func closeStream() {
	if curStream != nil {
		_ = curStream.Close()
		_ = os.RemoveAll(curStreamDir)
		curStream = nil
		curStreamKey = ""
	}
}

func streamParityOpen(dsJSON string) string {
	if curStream == nil || curStreamKey != dsJSON {
		closeStream()
		var ds sDataset
		if err := json.Unmarshal([]byte(dsJSON), &ds); err != nil {
			return "bad-op dataset json"
		}
		dsSeq++
		curStreamDir = filepath.Join(scratch, fmt.Sprintf("st%d", dsSeq))
		e, err := stream.VerifC15OpenStream(curStreamDir)
		if err != nil {
			return "SETUP-ERR " + classify(err.Error())
		}
		for _, b := range ds.Batches {
			rows := make([]stream.VerifC15Row, 0, len(b))
			for _, r := range b {
				rows = append(rows, stream.VerifC15Row{
					Series: int(r[0].(float64)), TS: int64(r[1].(float64)) * 1000000, ID: uint64(r[2].(float64)),
					Filter: string(unhex(r[3].(string))),
				})
			}
			if len(rows) == 0 {
				continue
			}
			if werr := e.WriteBatch(rows); werr != nil {
				_ = e.Close()
				return "SETUP-ERR " + classify(werr.Error())
			}
		}
		curStream, curStreamKey = e, dsJSON
	}
	return ""
}

func streamParity(f []string) string {
	if len(f) != 3 {
		return "bad-op"
	}
	if r := streamParityOpen(f[1]); r != "" {
		return r
	}
	var q sQuery
	if err := json.Unmarshal([]byte(f[2]), &q); err != nil {
		return "bad-op query json"
	}
	run := func(fn func() (string, error)) string {
		return drv2(func() string {
			s, err := fn()
			if err != nil {
				return "ERR:" + classify(err.Error())
			}
			return s
		})
	}
	row := run(func() (string, error) { return curStream.QueryRow(q.Series, q.Lo*1000000, q.Hi*1000000, q.Order, q.Max) })
	vec := run(func() (string, error) { return curStream.QueryVec(q.Series, q.Lo*1000000, q.Hi*1000000, q.Order, q.Max, q.BS) })
	return "row=" + row + " vec=" + vec
}

// tpar <asc|desc> <maxBatchSize> <maxTraceSize> <vecBatch> <instance>|<instance>...
//   instance = - | part;part;...    part = key:traceid,key:traceid,...   (one sidx memory part each)
// phase 1 of an ordered trace query over real sidx instances: push path vs pull path.
// output: row=<key:tid,...> vec=<key:tid,...>
func traceParity(f []string) string {
	if len(f) != 6 {
		return "bad-op"
	}
	req := sidx.QueryRequest{SeriesIDs: []common.SeriesID{1}}
	if f[1] == "desc" {
		req.Order = &index.OrderBy{Sort: modelv1.Sort_SORT_DESC}
	} else {
		req.Order = &index.OrderBy{Sort: modelv1.Sort_SORT_ASC}
	}
	req.MaxBatchSize, _ = strconv.Atoi(f[2])
	maxTrace, _ := strconv.Atoi(f[3])
	vecBatch, _ := strconv.Atoi(f[4])
	dsSeq++
	root := filepath.Join(scratch, fmt.Sprintf("tr%d", dsSeq))
	defer os.RemoveAll(root)
	var instances []sidx.SIDX
	defer func() {
		for _, s := range instances {
			_ = s.Close()
		}
	}()
	for i, spec := range strings.Split(f[5], "|") {
		dir := filepath.Join(root, fmt.Sprintf("i%d", i))
		if err := os.MkdirAll(dir, 0o755); err != nil {
			panic(err)
		}
		opts, err := sidx.NewOptions(dir, protector.NewMemory(observability.NewBypassRegistry()))
		if err != nil {
			panic(err)
		}
		s, err := sidx.NewSIDX(fs.NewLocalFileSystem(), opts)
		if err != nil {
			panic(err)
		}
		instances = append(instances, s)
		if spec == "-" {
			continue
		}
		for pi, part := range strings.Split(spec, ";") {
			var reqs []sidx.WriteRequest
			for _, e := range strings.Split(part, ",") {
				kv := strings.SplitN(e, ":", 2)
				key, _ := strconv.ParseInt(kv[0], 10, 64)
				reqs = append(reqs, sidx.WriteRequest{SeriesID: 1, Key: key, Data: trace.VerifC15EncodeTraceID(kv[1])})
			}
			mp, cerr := s.ConvertToMemPart(reqs, 1, nil, nil)
			if cerr != nil {
				return "SETUP-ERR write"
			}
			s.IntroduceMemPart(uint64(pi+1), mp)
		}
	}
	var push, pull string
	res := drv2(func() string {
		push, pull = trace.VerifC15Phase1(instances, req, maxTrace, vecBatch)
		return ""
	})
	if res != "" {
		return "row=" + res + " vec=" + res
	}
	return "row=" + push + " vec=" + pull
}

// sresp <chunk>|<chunk>|...      chunk = nil | - (empty) | key:payloadhex,...
// vtrace.SidxResponseIterator over a chunk list; output = the items it yields, key:payloadhex,...  (| ERR)
func sidxRespIter(f []string) string {
	if len(f) != 2 {
		return "bad-op"
	}
	var chunks []*vtrace.SidxRowBatch
	for _, c := range strings.Split(f[1], "|") {
		switch c {
		case "nil":
			chunks = append(chunks, nil)
		case "-":
			chunks = append(chunks, &vtrace.SidxRowBatch{})
		default:
			b := &vtrace.SidxRowBatch{}
			for _, e := range strings.Split(c, ",") {
				kv := strings.SplitN(e, ":", 2)
				k, _ := strconv.ParseInt(kv[0], 10, 64)
				b.Keys = append(b.Keys, k)
				b.Data = append(b.Data, rawHex(kv[1]))
				b.SIDs = append(b.SIDs, 1)
				b.PartIDs = append(b.PartIDs, 1)
			}
			chunks = append(chunks, b)
		}
	}
	it := vtrace.NewSidxResponseIterator(chunks)
	var out []string
	for n := 0; it.Next(); n++ {
		if n > 100000 {
			return "ERR endless"
		}
		v := it.Val()
		out = append(out, fmt.Sprintf("%d:%x", v.Key, v.Payload))
	}
	if err := it.Error(); err != nil {
		return "ERR " + classify(err.Error())
	}
	_ = it.Close()
	if len(out) == 0 {
		return "-"
	}
	return strings.Join(out, ",")
}

// fbt <tag> <schemaType> <col>,<col>,...     col = <name>.<valueType>.<t|u>   (t = stored with the "#type" suffix, u = legacy plain name)
// trace block tag resolution: vectorized findBlockTag vs the row path's resolveTagProjection.  output: vec=<stored name|nil> row=<..>
func findBlockTagOp(f []string) string {
	if len(f) != 4 {
		return "bad-op"
	}
	st, _ := strconv.Atoi(f[2])
	var cols []trace.VerifC15Column
	if f[3] != "-" {
		for _, c := range strings.Split(f[3], ",") {
			p := strings.Split(c, ".")
			vt, _ := strconv.Atoi(p[1])
			cols = append(cols, trace.VerifC15Column{Name: p[0], Type: vt, Typed: p[2] == "t"})
		}
	}
	vec, row := trace.VerifC15FindTag(cols, f[1], st)
	return "vec=" + vec + " row=" + row
}

// splan <dataset json> <query json>    stream, logical-plan level: the real streamQueryProcessor.Rev (Analyze -> Execute, or
//   -> VecExecutable/ExecuteVectorized + egress filter) with the engine flag off and on over the same real parts.
//   query: {"lo":ms,"hi":ms,"sort":"asc|desc|","limit":n,"offset":n,"crit":["filter-tag","eq|ne","<hex>"]|null,"series":k|0}
// output: row=<ts:eid:tags,...|-|ERR:..> vec=<...>
type pQuery struct {
	Sort   string   `json:"sort"`
	Crit   []string `json:"crit"`
	Lo     int64    `json:"lo"`
	Hi     int64    `json:"hi"`
	Limit  uint32   `json:"limit"`
	Offset uint32   `json:"offset"`
	Series int      `json:"series"`
	BS     int      `json:"bs"`
}

func streamPlanParity(f []string) string {
	if len(f) != 3 {
		return "bad-op"
	}
	if r := streamParityOpen(f[1]); r != "" {
		return r
	}
	var q pQuery
	if err := json.Unmarshal([]byte(f[2]), &q); err != nil {
		return "bad-op query json"
	}
	req := &streamv1.QueryRequest{
		Groups: []string{"test"}, Name: "benchmark", Limit: q.Limit, Offset: q.Offset,
		TimeRange:  &modelv1.TimeRange{Begin: timestamppb.New(time.UnixMilli(q.Lo)), End: timestamppb.New(time.UnixMilli(q.Hi))},
		Projection: &modelv1.TagProjection{TagFamilies: []*modelv1.TagProjection_TagFamily{{Name: "benchmark-family", Tags: []string{"entity-tag", "filter-tag"}}}},
	}
	if q.Sort != "" {
		req.OrderBy = &modelv1.QueryOrder{Sort: sortOf(q.Sort)}
	}
	var crits []*modelv1.Criteria
	if len(q.Crit) == 3 {
		crits = append(crits, &modelv1.Criteria{Exp: &modelv1.Criteria_Condition{Condition: &modelv1.Condition{
			Name: q.Crit[0], Op: condOps[q.Crit[1]], Value: parseTagValue("S" + q.Crit[2])}}})
	}
	if q.Series > 0 {
		crits = append(crits, &modelv1.Criteria{Exp: &modelv1.Criteria_Condition{Condition: &modelv1.Condition{
			Name: "entity-tag", Op: modelv1.Condition_BINARY_OP_EQ, Value: parseTagValue("S" + hex.EncodeToString([]byte("entity"+strconv.Itoa(q.Series))))}}})
	}
	switch len(crits) {
	case 1:
		req.Criteria = crits[0]
	case 2:
		req.Criteria = &modelv1.Criteria{Exp: &modelv1.Criteria_Le{Le: &modelv1.LogicalExpression{Op: modelv1.LogicalExpression_LOGICAL_OP_AND, Left: crits[0], Right: crits[1]}}}
	}
	run := func(vec bool) string {
		curStream.SetVectorized(vec, q.BS)
		proc := query.VerifC15NewStreamProcessor(func() stream.Stream { return curStream.Stream() })
		return drv2(func() string {
			resp := proc.Query(context.Background(), bus.NewMessage(1, proto.Clone(req).(*streamv1.QueryRequest)))
			switch d := resp.Data().(type) {
			case *streamv1.QueryResponse:
				if len(d.GetElements()) == 0 {
					return "-"
				}
				out := make([]string, 0, len(d.GetElements()))
				for _, e := range d.GetElements() {
					var tags []string
					for _, tf := range e.GetTagFamilies() {
						for _, t := range tf.GetTags() {
							tags = append(tags, t.GetKey()+"="+showTagValue(t.GetValue()))
						}
					}
					out = append(out, fmt.Sprintf("%d:%s:%s", e.GetTimestamp().AsTime().UnixNano(), e.GetElementId(), strings.Join(tags, ";")))
				}
				return strings.Join(out, ",")
			case *common.Error:
				return "ERR:" + classify(d.Error())
			case []byte:
				return "FRAME"
			}
			return fmt.Sprintf("BAD:%T", resp.Data())
		})
	}
	return "row=" + run(false) + " vec=" + run(true)
}
