//go:build verif

package main

import (
	"encoding/json"
	"fmt"
	"os"
	"path/filepath"
	"strconv"
	"strings"

	"github.com/apache/skywalking-banyandb/api/common"
	modelv1 "github.com/apache/skywalking-banyandb/api/proto/banyandb/model/v1"
	"github.com/apache/skywalking-banyandb/banyand/internal/sidx"
	"github.com/apache/skywalking-banyandb/banyand/observability"
	"github.com/apache/skywalking-banyandb/banyand/protector"
	"github.com/apache/skywalking-banyandb/banyand/stream"
	"github.com/apache/skywalking-banyandb/banyand/trace"
	"github.com/apache/skywalking-banyandb/pkg/fs"
	"github.com/apache/skywalking-banyandb/pkg/index"
	vtrace "github.com/apache/skywalking-banyandb/pkg/query/vectorized/trace"
)

// spar <dataset json> <query json>      stream: row path vs vectorized path over the same real tsTable parts
//   dataset: {"id":..,"batches":[[[series, tsMs, eid, "filterhex"],...],...]}   (one memory part per batch and segment)
//   query:   {"series":[..],"lo":ms,"hi":ms,"order":"asc|desc|","max":n,"bs":n}
// output: row=<ts:eid:tags,...|-|ERR:..> vec=<...>

type sDataset struct {
	ID      string            `json:"id"`
	Batches [][][]interface{} `json:"batches"`
}

type sQuery struct {
	Order  string `json:"order"`
	Series []int  `json:"series"`
	Lo     int64  `json:"lo"`
	Hi     int64  `json:"hi"`
	Max    int    `json:"max"`
	BS     int    `json:"bs"`
}

var (
	curStream    *stream.VerifC15Stream
	curStreamKey string
	curStreamDir string
)

func closeStream() {
	if curStream != nil {
		_ = curStream.Close()
		_ = os.RemoveAll(curStreamDir)
		curStream = nil
		curStreamKey = ""
	}
}

func streamParity(f []string) string {
	if len(f) != 3 {
		return "bad-op"
	}
	if curStream == nil || curStreamKey != f[1] {
		closeStream()
		var ds sDataset
		if err := json.Unmarshal([]byte(f[1]), &ds); err != nil {
			return "bad-op dataset json"
		}
		dsSeq++
		curStreamDir = filepath.Join(scratch, fmt.Sprintf("st%d", dsSeq))
		e, err := stream.VerifC15OpenStream(curStreamDir)
		if err != nil {
			return "SETUP-ERR " + classify(err.Error())
		}
		for _, b := range ds.Batches {
			rows := make([]stream.VerifC15Row, 0, len(b))
			for _, r := range b {
				rows = append(rows, stream.VerifC15Row{
					Series: int(r[0].(float64)), TS: int64(r[1].(float64)) * 1000000, ID: uint64(r[2].(float64)),
					Filter: string(unhex(r[3].(string))),
				})
			}
			if len(rows) == 0 {
				continue
			}
			if werr := e.WriteBatch(rows); werr != nil {
				_ = e.Close()
				return "SETUP-ERR " + classify(werr.Error())
			}
		}
		curStream, curStreamKey = e, f[1]
	}
	var q sQuery
	if err := json.Unmarshal([]byte(f[2]), &q); err != nil {
		return "bad-op query json"
	}
	run := func(fn func() (string, error)) string {
		return drv2(func() string {
			s, err := fn()
			if err != nil {
				return "ERR:" + classify(err.Error())
			}
			return s
		})
	}
	row := run(func() (string, error) { return curStream.QueryRow(q.Series, q.Lo*1000000, q.Hi*1000000, q.Order, q.Max) })
	vec := run(func() (string, error) { return curStream.QueryVec(q.Series, q.Lo*1000000, q.Hi*1000000, q.Order, q.Max, q.BS) })
	return "row=" + row + " vec=" + vec
}

// tpar <asc|desc> <maxBatchSize> <maxTraceSize> <vecBatch> <instance>|<instance>...
//   instance = - | part;part;...    part = key:traceid,key:traceid,...   (one sidx memory part each)
// phase 1 of an ordered trace query over real sidx instances: push path vs pull path.
// output: row=<key:tid,...> vec=<key:tid,...>
func traceParity(f []string) string {
	if len(f) != 6 {
		return "bad-op"
	}
	req := sidx.QueryRequest{SeriesIDs: []common.SeriesID{1}}
	if f[1] == "desc" {
		req.Order = &index.OrderBy{Sort: modelv1.Sort_SORT_DESC}
	} else {
		req.Order = &index.OrderBy{Sort: modelv1.Sort_SORT_ASC}
	}
	req.MaxBatchSize, _ = strconv.Atoi(f[2])
	maxTrace, _ := strconv.Atoi(f[3])
	vecBatch, _ := strconv.Atoi(f[4])
	dsSeq++
	root := filepath.Join(scratch, fmt.Sprintf("tr%d", dsSeq))
	defer os.RemoveAll(root)
	var instances []sidx.SIDX
	defer func() {
		for _, s := range instances {
			_ = s.Close()
		}
	}()
	for i, spec := range strings.Split(f[5], "|") {
		dir := filepath.Join(root, fmt.Sprintf("i%d", i))
		if err := os.MkdirAll(dir, 0o755); err != nil {
			panic(err)
		}
		opts, err := sidx.NewOptions(dir, protector.NewMemory(observability.NewBypassRegistry()))
		if err != nil {
			panic(err)
		}
		s, err := sidx.NewSIDX(fs.NewLocalFileSystem(), opts)
		if err != nil {
			panic(err)
		}
		instances = append(instances, s)
		if spec == "-" {
			continue
		}
		for pi, part := range strings.Split(spec, ";") {
			var reqs []sidx.WriteRequest
			for _, e := range strings.Split(part, ",") {
				kv := strings.SplitN(e, ":", 2)
				key, _ := strconv.ParseInt(kv[0], 10, 64)
				reqs = append(reqs, sidx.WriteRequest{SeriesID: 1, Key: key, Data: trace.VerifC15EncodeTraceID(kv[1])})
			}
			mp, cerr := s.ConvertToMemPart(reqs, 1, nil, nil)
			if cerr != nil {
				return "SETUP-ERR write"
			}
			s.IntroduceMemPart(uint64(pi+1), mp)
		}
	}
	var push, pull string
	res := drv2(func() string {
		push, pull = trace.VerifC15Phase1(instances, req, maxTrace, vecBatch)
		return ""
	})
	if res != "" {
		return "row=" + res + " vec=" + res
	}
	return "row=" + push + " vec=" + pull
}

// sresp <chunk>|<chunk>|...      chunk = nil | - (empty) | key:payloadhex,...
// vtrace.SidxResponseIterator over a chunk list; output = the items it yields, key:payloadhex,...  (| ERR)
func sidxRespIter(f []string) string {
	if len(f) != 2 {
		return "bad-op"
	}
	var chunks []*vtrace.SidxRowBatch
	for _, c := range strings.Split(f[1], "|") {
		switch c {
		case "nil":
			chunks = append(chunks, nil)
		case "-":
			chunks = append(chunks, &vtrace.SidxRowBatch{})
		default:
			b := &vtrace.SidxRowBatch{}
			for _, e := range strings.Split(c, ",") {
				kv := strings.SplitN(e, ":", 2)
				k, _ := strconv.ParseInt(kv[0], 10, 64)
				b.Keys = append(b.Keys, k)
				b.Data = append(b.Data, rawHex(kv[1]))
				b.SIDs = append(b.SIDs, 1)
				b.PartIDs = append(b.PartIDs, 1)
			}
			chunks = append(chunks, b)
		}
	}
	it := vtrace.NewSidxResponseIterator(chunks)
	var out []string
	for n := 0; it.Next(); n++ {
		if n > 100000 {
			return "ERR endless"
		}
		v := it.Val()
		out = append(out, fmt.Sprintf("%d:%x", v.Key, v.Payload))
	}
	if err := it.Error(); err != nil {
		return "ERR " + classify(err.Error())
	}
	_ = it.Close()
	if len(out) == 0 {
		return "-"
	}
	return strings.Join(out, ",")
}
