//go:build verif

package main

import (
	"encoding/hex"
	"errors"
	"fmt"
	"math"
	"strconv"
	"strings"

	"google.golang.org/protobuf/proto"

	modelv1 "github.com/apache/skywalking-banyandb/api/proto/banyandb/model/v1"
	"github.com/apache/skywalking-banyandb/pkg/query/vectorized"
	baseframe "github.com/apache/skywalking-banyandb/pkg/query/vectorized/frame"
	mframe "github.com/apache/skywalking-banyandb/pkg/query/vectorized/measure/frame"
	sframe "github.com/apache/skywalking-banyandb/pkg/query/vectorized/stream/frame"
)

// frame-enc <codec> <len> <sel> <col>...
//   codec  m | s
//   len    RecordBatch.Len
//   sel    -  (nil Selection) | e (empty, non-nil) | i,j,k
//   col    <role>:<deftype>:<coltype>:<namehex>:<famhex>:<cells>
//          role/deftype/coltype are the numeric vectorized.ColumnRole / ColumnType values
//          cells  - | cell,cell,...   cell = v<payload> (valid) | n<payload> (null, payload = stored slot)
//          payload: int64 decimal | float64 16 hex digits | string/bytes hex ("" = empty)
//                   tagvalue/fieldvalue: hex of the marshalled message, or ~ for a nil pointer
// output: ERR <class>  |  <frame hex> <decoded>     decoded: ok <nrows> <col>... | ERR <class>
//          decoded col: <role>:<type>:<namehex>:<famhex>:<cells>, cell = n | v<payload>

func encDec(codec string) (func(*vectorized.RecordBatch) ([]byte, error), func([]byte) (*vectorized.RecordBatch, error), bool) {
	switch codec {
	case "m":
		return mframe.Encode, mframe.Decode, true
	case "s":
		return sframe.Encode, sframe.Decode, true
	}
	return nil, nil, false
}

func errClass(err error) string {
	switch {
	case errors.Is(err, baseframe.ErrTruncated):
		return "ERR trunc"
	case errors.Is(err, baseframe.ErrBadMagic):
		return "ERR magic"
	case errors.Is(err, baseframe.ErrBadVersion):
		return "ERR version"
	case errors.Is(err, baseframe.ErrUnsupportedColumnType):
		return "ERR type"
	case errors.Is(err, baseframe.ErrUnsupportedColumnRole):
		return "ERR role"
	}
	if strings.Contains(err.Error(), "cell unmarshal") {
		return "ERR proto"
	}
	if strings.Contains(err.Error(), "nil batch") {
		return "ERR nil"
	}
	return "ERR other:" + classify(err.Error())
}

func rawHex(s string) []byte {
	if s == "" {
		return []byte{}
	}
	b, err := hex.DecodeString(s)
	if err != nil {
		panic("bad hex " + s)
	}
	return b
}

func buildColumn(ct int, cells []string) vectorized.Column {
	col := vectorized.NewColumnForType(vectorized.ColumnType(ct), len(cells))
	for i, c := range cells {
		null := c[0] == 'n'
		p := c[1:]
		switch tc := col.(type) {
		case *vectorized.TypedColumn[int64]:
			v, err := strconv.ParseInt(p, 10, 64)
			if err != nil {
				panic(err)
			}
			tc.Append(v)
		case *vectorized.TypedColumn[float64]:
			u, err := strconv.ParseUint(p, 16, 64)
			if err != nil {
				panic(err)
			}
			tc.Append(math.Float64frombits(u))
		case *vectorized.TypedColumn[string]:
			tc.Append(string(rawHex(p)))
		case *vectorized.TypedColumn[[]byte]:
			tc.Append(rawHex(p))
		case *vectorized.TypedColumn[*modelv1.TagValue]:
			if p == "~" {
				tc.Append(nil)
			} else {
				tv := &modelv1.TagValue{}
				if err := proto.Unmarshal(rawHex(p), tv); err != nil {
					panic("bad tagvalue payload")
				}
				tc.Append(tv)
			}
		case *vectorized.TypedColumn[*modelv1.FieldValue]:
			if p == "~" {
				tc.Append(nil)
			} else {
				fv := &modelv1.FieldValue{}
				if err := proto.Unmarshal(rawHex(p), fv); err != nil {
					panic("bad fieldvalue payload")
				}
				tc.Append(fv)
			}
		default:
			panic("cells given for an array column")
		}
		if null {
			col.MarkNullAt(i)
		}
	}
	return col
}

func parseBatch(f []string) *vectorized.RecordBatch {
	n, err := strconv.Atoi(f[2])
	if err != nil {
		panic(err)
	}
	b := &vectorized.RecordBatch{Len: n}
	switch f[3] {
	case "-":
	case "e":
		b.Selection = []uint16{}
	default:
		for _, s := range strings.Split(f[3], ",") {
			v, perr := strconv.ParseUint(s, 10, 16)
			if perr != nil {
				panic(perr)
			}
			b.Selection = append(b.Selection, uint16(v))
		}
	}
	var defs []vectorized.ColumnDef
	for _, c := range f[4:] {
		p := strings.Split(c, ":")
		if len(p) != 6 {
			panic("bad column " + c)
		}
		role, _ := strconv.Atoi(p[0])
		dt, _ := strconv.Atoi(p[1])
		ct, _ := strconv.Atoi(p[2])
		defs = append(defs, vectorized.ColumnDef{
			Role: vectorized.ColumnRole(role), Type: vectorized.ColumnType(dt),
			Name: string(rawHex(p[3])), TagFamily: string(rawHex(p[4])),
		})
		var cells []string
		if p[5] != "-" {
			cells = strings.Split(p[5], ",")
		}
		b.Columns = append(b.Columns, buildColumn(ct, cells))
	}
	b.Schema = vectorized.NewBatchSchema(defs)
	return b
}

func showBatch(b *vectorized.RecordBatch) string {
	var sb strings.Builder
	fmt.Fprintf(&sb, "ok %d", b.Len)
	if b.Selection != nil {
		sb.WriteString(" SELECTION-NOT-NIL")
	}
	for ci, def := range b.Schema.Columns {
		col := b.Columns[ci]
		fmt.Fprintf(&sb, " %d:%d:%s:%s:", int(def.Role), int(col.Type()), hex.EncodeToString([]byte(def.Name)), hex.EncodeToString([]byte(def.TagFamily)))
		if int(def.Type) != int(col.Type()) {
			sb.WriteString("TYPE-MISMATCH")
		}
		if col.Len() != b.Len {
			fmt.Fprintf(&sb, "LEN-MISMATCH(%d)", col.Len())
		}
		if col.Len() == 0 {
			sb.WriteByte('-')
			continue
		}
		for i := 0; i < col.Len(); i++ {
			if i > 0 {
				sb.WriteByte(',')
			}
			if col.IsNull(i) {
				sb.WriteByte('n')
				continue
			}
			sb.WriteByte('v')
			switch tc := col.(type) {
			case *vectorized.TypedColumn[int64]:
				sb.WriteString(strconv.FormatInt(tc.Data()[i], 10))
			case *vectorized.TypedColumn[float64]:
				fmt.Fprintf(&sb, "%016x", math.Float64bits(tc.Data()[i]))
			case *vectorized.TypedColumn[string]:
				sb.WriteString(hex.EncodeToString([]byte(tc.Data()[i])))
			case *vectorized.TypedColumn[[]byte]:
				sb.WriteString(hex.EncodeToString(tc.Data()[i]))
			case *vectorized.TypedColumn[*modelv1.TagValue]:
				if tc.Data()[i] == nil {
					sb.WriteByte('~')
				} else {
					raw, err := proto.MarshalOptions{Deterministic: true}.Marshal(tc.Data()[i])
					if err != nil {
						sb.WriteString("MARSHAL-ERR")
					}
					sb.WriteString(hex.EncodeToString(raw))
				}
			case *vectorized.TypedColumn[*modelv1.FieldValue]:
				if tc.Data()[i] == nil {
					sb.WriteByte('~')
				} else {
					raw, err := proto.MarshalOptions{Deterministic: true}.Marshal(tc.Data()[i])
					if err != nil {
						sb.WriteString("MARSHAL-ERR")
					}
					sb.WriteString(hex.EncodeToString(raw))
				}
			default:
				sb.WriteString("?")
			}
		}
	}
	return sb.String()
}

func frameEnc(f []string) string {
	if len(f) < 4 {
		return "bad-op"
	}
	enc, dec, ok := encDec(f[1])
	if !ok {
		return "bad-op"
	}
	b := parseBatch(f)
	raw, err := enc(b)
	if err != nil {
		return errClass(err)
	}
	back, derr := dec(raw)
	if derr != nil {
		return hex.EncodeToString(raw) + " " + errClass(derr)
	}
	return hex.EncodeToString(raw) + " " + showBatch(back)
}

func frameDec(f []string) string {
	if len(f) != 3 {
		return "bad-op"
	}
	_, dec, ok := encDec(f[1])
	if !ok {
		return "bad-op"
	}
	raw := rawHex(strings.TrimPrefix(f[2], "x"))
	back, err := dec(raw)
	if err != nil {
		return errClass(err)
	}
	return showBatch(back)
}
