//go:build verif

// Driver for C15: vectorized execution returns what row execution returns.
//
//	frame-enc <codec> <len> <sel> <col>...   vectorized/frame Codec.Encode then Decode (codec m=measure s=stream)
//	frame-dec <codec> <hex>                  Codec.Decode on arbitrary bytes
//	dispatch  <json>                         plan.Dispatch accept / reject class on a request shape (empty storage)
//	par       <dataset json> <request json>  standalone: measureQueryProcessor.Rev with the flag off, then on
//	dist      <dataset json> <request json>  liaison + data nodes in-process: proto wire vs raw-frame wire
//	spar      <dataset json> <query json>    stream: row path vs vectorized path over real tsTable parts
//	tpar      ...                            trace ordered query phase 1: push path vs pull path over real sidx
//	sresp     <chunks>                       vtrace.SidxResponseIterator over a chunk list
//
// See frame.go / parity.go in this directory.
package main

import (
	"os"
	"path/filepath"

	"github.com/apache/skywalking-banyandb/banyand/internal/verifdrv/drv"
	"github.com/apache/skywalking-banyandb/pkg/logger"
)

var scratch string

func handle(f []string) string {
	if len(f) == 0 {
		return "bad-op"
	}
	switch f[0] {
	case "frame-enc":
		return frameEnc(f)
	case "frame-dec":
		return frameDec(f)
	case "dispatch":
		return dispatchOp(f)
	case "par":
		return parityOp(f, false)
	case "dist":
		return parityOp(f, true)
	case "smerge":
		return sortedMergeOp(f)
	case "spar":
		return streamParity(f)
	case "tpar":
		return traceParity(f)
	case "sresp":
		return sidxRespIter(f)
	case "fbt":
		return findBlockTagOp(f)
	case "splan":
		return streamPlanParity(f)
	}
	return "bad-op"
}

func main() {
	lvl := os.Getenv("VERIF_LOG")
	if lvl == "" {
		lvl = "fatal"
	}
	_ = logger.Init(logger.Logging{Env: "prod", Level: lvl})
	root := os.Getenv("VERIF_SCRATCH")
	if root == "" {
		root = "/verif/.scratch"
	}
	_ = os.MkdirAll(root, 0o755)
	var err error
	scratch, err = os.MkdirTemp(root, "c15-")
	if err != nil {
		panic(err)
	}
	defer func() {
		closeDataset()
		closeStream()
		_ = os.RemoveAll(scratch)
	}()
	_ = filepath.Join
	drv.Run(handle)
}
