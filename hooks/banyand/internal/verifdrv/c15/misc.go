//go:build verif

package main

func dispatchOp(f []string) string     { return "bad-op" }
func sortedMergeOp(f []string) string { return "bad-op" }
