//go:build verif

package main

import (
	"context"
	"fmt"
	"strconv"
	"strings"
	"time"

	"google.golang.org/protobuf/types/known/timestamppb"

	commonv1 "github.com/apache/skywalking-banyandb/api/proto/banyandb/common/v1"
	databasev1 "github.com/apache/skywalking-banyandb/api/proto/banyandb/database/v1"
	measurev1 "github.com/apache/skywalking-banyandb/api/proto/banyandb/measure/v1"
	modelv1 "github.com/apache/skywalking-banyandb/api/proto/banyandb/model/v1"
	itersort "github.com/apache/skywalking-banyandb/pkg/iter/sort"
	lmeasure "github.com/apache/skywalking-banyandb/pkg/query/logical/measure"
	"github.com/apache/skywalking-banyandb/pkg/query/model"
	vmeasure "github.com/apache/skywalking-banyandb/pkg/query/vectorized/measure"
	vecplan "github.com/apache/skywalking-banyandb/pkg/query/vectorized/measure/plan"
	"github.com/apache/skywalking-banyandb/pkg/query/vectorized"
	vstream "github.com/apache/skywalking-banyandb/pkg/query/vectorized/stream"
	vtrace "github.com/apache/skywalking-banyandb/pkg/query/vectorized/trace"
)

// dispatch E<0|1> S=<fam>:<tag.t>,..;<fam>:.. F=<field.t>,.. R=<rule>:<tag>:<nosort 0|1>,..|- EN=<tag>,..
//          tp=<fam>:<t>,<t>;..|-  fp=<f>,..|-  ob=<rule>|@time|-  gb=<fam>:<t>,..;..|@empty|-  agg=<FN>:<field>|-  top=<n>:<field>|-
// output: fallthrough | accept | reject <class>
//
// plan.Dispatch is run with an execution context whose storage answers with an empty (non-nil) result, so the
// whole decision chain (projection check, order_by, Analyze, Execute/Build) runs and the outcome depends on the
// request shape and schema only.

type emptyResult struct{}

func (emptyResult) Pull() *model.MeasureResult { return nil }
func (emptyResult) Release()                   {}

type emptyEC struct{}

func (emptyEC) Query(context.Context, model.MeasureQueryOptions) (model.MeasureQueryResult, error) {
	return emptyResult{}, nil
}

func parseFamilies(s string) []rqTP {
	var out []rqTP
	if s == "" {
		return out
	}
	for _, f := range strings.Split(s, ";") {
		name, tags, _ := strings.Cut(f, ":")
		g := rqTP{F: name}
		if tags != "" {
			g.Tags = strings.Split(tags, ",")
		}
		out = append(out, g)
	}
	return out
}

func rejectClass(msg string) string {
	switch {
	case strings.Contains(msg, "missing runtime context"):
		return "ctx"
	case strings.Contains(msg, "tag is not defined"):
		return "tag:" + strings.TrimSuffix(msg, ": tag is not defined")
	case strings.Contains(msg, "not found in schema"):
		return "field:" + strings.TrimSuffix(strings.TrimPrefix(msg, "field "), " not found in schema")
	case strings.Contains(msg, "parse order_by"):
		return "order"
	case strings.Contains(msg, "build query"):
		return "crit"
	case strings.Contains(msg, "must list at least one tag family"):
		return "gb-nofamily"
	case strings.Contains(msg, "supports a single tag family"):
		return "gb-multifamily"
	case strings.Contains(msg, "has no tags"):
		return "gb-notags"
	case strings.Contains(msg, "GroupBy tag family"):
		return "gb-family"
	case strings.Contains(msg, "GroupBy tag"):
		return "gb-tag"
	case strings.Contains(msg, "Agg field"):
		return "agg-field"
	case strings.Contains(msg, "UNSPECIFIED"):
		return "agg-fn"
	case strings.Contains(msg, "plan.Top.Build: field"):
		return "top-field"
	}
	return "other:" + classify(msg)
}

func dispatchOp(f []string) string {
	kv := map[string]string{}
	enabled := false
	for _, t := range f[1:] {
		if t == "E1" {
			enabled = true
			continue
		}
		if t == "E0" {
			continue
		}
		k, v, ok := strings.Cut(t, "=")
		if !ok {
			return "bad-op"
		}
		kv[k] = v
	}
	ds := dataset{}
	for _, g := range parseFamilies(kv["S"]) {
		fam := dsFamily{N: g.F}
		for _, t := range g.Tags {
			n, ty, _ := strings.Cut(t, ".")
			fam.Tags = append(fam.Tags, dsTag{N: n, T: ty})
		}
		ds.Families = append(ds.Families, fam)
	}
	if kv["F"] != "" && kv["F"] != "-" {
		for _, t := range strings.Split(kv["F"], ",") {
			n, ty, _ := strings.Cut(t, ".")
			ds.Fields = append(ds.Fields, dsField{N: n, T: ty})
		}
	}
	if kv["R"] != "" && kv["R"] != "-" {
		for i, r := range strings.Split(kv["R"], ",") {
			p := strings.Split(r, ":")
			ds.Rules = append(ds.Rules, dsRule{N: p[0], Tag: p[1], ID: uint32(i + 1), NoSort: p[2] == "1"})
		}
	}
	if kv["EN"] != "" && kv["EN"] != "-" {
		ds.Entity = strings.Split(kv["EN"], ",")
	}
	sch, rules := ds.schema()
	ls, err := lmeasure.BuildSchema(sch, rules)
	if err != nil {
		return "SETUP-ERR " + classify(err.Error())
	}
	req := &measurev1.QueryRequest{
		Groups: []string{groupName}, Name: measureName,
		TimeRange: &modelv1.TimeRange{Begin: timestamppb.New(time.UnixMilli(1715299200000)), End: timestamppb.New(time.UnixMilli(1715299300000))},
	}
	if v := kv["tp"]; v != "-" && v != "" {
		req.TagProjection = toTagProjection(parseFamilies(v))
	} else if v == "" {
		req.TagProjection = &modelv1.TagProjection{}
	}
	if v := kv["fp"]; v != "-" {
		req.FieldProjection = &measurev1.QueryRequest_FieldProjection{}
		if v != "" {
			req.FieldProjection.Names = strings.Split(v, ",")
		}
	}
	switch v := kv["ob"]; v {
	case "-", "":
	case "@time":
		req.OrderBy = &modelv1.QueryOrder{Sort: modelv1.Sort_SORT_DESC}
	default:
		req.OrderBy = &modelv1.QueryOrder{IndexRuleName: v, Sort: modelv1.Sort_SORT_ASC}
	}
	switch v := kv["gb"]; v {
	case "-", "":
	case "@empty":
		req.GroupBy = &measurev1.QueryRequest_GroupBy{TagProjection: &modelv1.TagProjection{}}
	default:
		req.GroupBy = &measurev1.QueryRequest_GroupBy{TagProjection: toTagProjection(parseFamilies(v))}
	}
	if v := kv["agg"]; v != "-" && v != "" {
		fn, field, _ := strings.Cut(v, ":")
		afn, ok := aggFns[fn]
		if !ok {
			return "bad-op"
		}
		req.Agg = &measurev1.QueryRequest_Aggregation{Function: afn, FieldName: field}
	}
	if v := kv["top"]; v != "-" && v != "" {
		n, field, _ := strings.Cut(v, ":")
		nn, _ := strconv.Atoi(n)
		req.Top = &measurev1.QueryRequest_Top{Number: int32(nn), FieldName: field, FieldValueSort: modelv1.Sort_SORT_DESC}
	}
	cfg := vmeasure.DefaultConfig()
	cfg.Enabled = enabled
	it, _, handled, derr := vecplan.Dispatch(context.Background(), req, &commonv1.Metadata{Name: measureName, Group: groupName},
		sch, ls, emptyEC{}, cfg, false, false)
	if derr != nil {
		if !handled {
			return "INCONSISTENT error-without-handled " + classify(derr.Error())
		}
		return "reject " + rejectClass(derr.Error())
	}
	if !handled {
		if it != nil {
			return "INCONSISTENT iterator-without-handled"
		}
		return "fallthrough"
	}
	n := 0
	for it.Next() {
		n++
	}
	if cerr := it.Close(); cerr != nil {
		return "accept-close-err " + classify(cerr.Error())
	}
	if n != 0 {
		return fmt.Sprintf("accept-rows %d", n)
	}
	return "accept"
}

var _ = databasev1.TagType_TAG_TYPE_INT


// smerge s <asc|desc> <batchSize> <maxRows> <k|t> <batch>|<batch>...   stream.SortedMerge (k: order-key schema, t: time order)
//          batch = - | ts:elem[:keyhex],...        output: ts:elem[:keyhex],...  (emission order)
// smerge t <asc|desc> <batchSize> <iter>|<iter>...                      trace.SortedMerge over sorted iterators
//          iter  = - | key:series:part:payloadhex,...   output: key:series:part:payloadhex,...

type sliceIter struct {
	items []*vtrace.MergeItem
	pos   int
}

func (s *sliceIter) Next() bool {
	if s.pos >= len(s.items) {
		return false
	}
	s.pos++
	return true
}
func (s *sliceIter) Val() *vtrace.MergeItem { return s.items[s.pos-1] }
func (s *sliceIter) Close() error           { return nil }

func sortedMergeOp(f []string) string {
	if len(f) < 5 {
		return "bad-op"
	}
	desc := f[2] == "desc"
	bs, _ := strconv.Atoi(f[3])
	ctx := context.Background()
	if f[1] == "t" {
		var iters []itersort.Iterator[*vtrace.MergeItem]
		for _, it := range strings.Split(f[4], "|") {
			si := &sliceIter{}
			if it != "-" {
				for _, r := range strings.Split(it, ",") {
					p := strings.Split(r, ":")
					k, _ := strconv.ParseInt(p[0], 10, 64)
					sid, _ := strconv.ParseInt(p[1], 10, 64)
					pid, _ := strconv.ParseInt(p[2], 10, 64)
					si.items = append(si.items, vtrace.NewMergeItem(k, sid, pid, rawHex(p[3])))
				}
			}
			iters = append(iters, si)
		}
		op := vtrace.NewSortedMerge(iters, desc, bs)
		if err := op.Init(ctx); err != nil {
			return "ERR init"
		}
		var out []string
		for {
			b, err := op.NextBatch(ctx)
			if err != nil {
				return "ERR next " + classify(err.Error())
			}
			if b == nil {
				break
			}
			keys := b.Columns[0].(*vectorized.TypedColumn[int64]).Data()
			sids := b.Columns[1].(*vectorized.TypedColumn[int64]).Data()
			pids := b.Columns[2].(*vectorized.TypedColumn[int64]).Data()
			pl := b.Columns[3].(*vectorized.TypedColumn[[]byte]).Data()
			if b.Len > bs && bs > 0 {
				return "ERR batch larger than batchSize"
			}
			for i := 0; i < b.Len; i++ {
				out = append(out, fmt.Sprintf("%d:%d:%d:%x", keys[i], sids[i], pids[i], pl[i]))
			}
		}
		_ = op.Close()
		if len(out) == 0 {
			return "-"
		}
		return strings.Join(out, ",")
	}
	if f[1] != "s" || len(f) != 7 {
		return "bad-op"
	}
	maxRows, _ := strconv.Atoi(f[4])
	var schema *vectorized.BatchSchema
	if f[5] == "k" {
		schema = vstream.BuildStreamBatchSchema(nil, "fam", "tag")
	} else {
		schema = vstream.BuildStreamBatchSchema(nil, "", "")
	}
	op := vstream.NewSortedMergeWithCap(schema, desc, bs, maxRows)
	if err := op.Init(ctx); err != nil {
		return "ERR init"
	}
	for _, bt := range strings.Split(f[6], "|") {
		b := vectorized.NewRecordBatch(schema, 4)
		if bt != "-" {
			for _, r := range strings.Split(bt, ",") {
				p := strings.Split(r, ":")
				ts, _ := strconv.ParseInt(p[0], 10, 64)
				el, _ := strconv.ParseInt(p[1], 10, 64)
				b.Columns[0].(*vectorized.TypedColumn[int64]).Append(ts)
				b.Columns[1].(*vectorized.TypedColumn[int64]).Append(el)
				b.Columns[2].(*vectorized.TypedColumn[int64]).Append(0)
				if f[5] == "k" {
					b.Columns[3].(*vectorized.TypedColumn[[]byte]).Append(rawHex(p[2]))
				}
				b.Len++
			}
		}
		if err := op.Consume(ctx, b); err != nil {
			return "ERR consume " + classify(err.Error())
		}
	}
	if err := op.Finalize(ctx); err != nil {
		return "ERR finalize"
	}
	var out []string
	for {
		b, err := op.NextBatch(ctx)
		if err != nil {
			return "ERR next " + classify(err.Error())
		}
		if b == nil {
			break
		}
		if bs > 0 && b.Len > bs {
			return "ERR batch larger than batchSize"
		}
		tss := b.Columns[0].(*vectorized.TypedColumn[int64]).Data()
		els := b.Columns[1].(*vectorized.TypedColumn[int64]).Data()
		for i := 0; i < b.Len; i++ {
			if f[5] == "k" {
				out = append(out, fmt.Sprintf("%d:%d:%x", tss[i], els[i], b.Columns[3].(*vectorized.TypedColumn[[]byte]).Data()[i]))
			} else {
				out = append(out, fmt.Sprintf("%d:%d", tss[i], els[i]))
			}
		}
	}
	_ = op.Close()
	if len(out) == 0 {
		return "-"
	}
	return strings.Join(out, ",")
}
