//go:build verif

package main

import (
	"context"
	"encoding/hex"
	"encoding/json"
	"fmt"
	"math"
	"os"
	"path/filepath"
	"sort"
	"strconv"
	"strings"
	"time"

	"google.golang.org/protobuf/proto"
	"google.golang.org/protobuf/types/known/timestamppb"

	"github.com/apache/skywalking-banyandb/api/common"
	"github.com/apache/skywalking-banyandb/api/data"
	commonv1 "github.com/apache/skywalking-banyandb/api/proto/banyandb/common/v1"
	databasev1 "github.com/apache/skywalking-banyandb/api/proto/banyandb/database/v1"
	measurev1 "github.com/apache/skywalking-banyandb/api/proto/banyandb/measure/v1"
	modelv1 "github.com/apache/skywalking-banyandb/api/proto/banyandb/model/v1"
	"github.com/apache/skywalking-banyandb/banyand/dquery"
	"github.com/apache/skywalking-banyandb/banyand/measure"
	"github.com/apache/skywalking-banyandb/banyand/query"
	"github.com/apache/skywalking-banyandb/pkg/bus"
	vmeasure "github.com/apache/skywalking-banyandb/pkg/query/vectorized/measure"
)

// ---------------------------------------------------------------- dataset description

type dsTag struct {
	N string `json:"n"`
	T string `json:"t"` // s i b sa ia
}

type dsFamily struct {
	N    string  `json:"n"`
	Tags []dsTag `json:"tags"`
}

type dsField struct {
	N string `json:"n"`
	T string `json:"t"` // i f s b
}

type dsRule struct {
	N      string `json:"n"`
	Tag    string `json:"tag"`
	ID     uint32 `json:"id"`
	NoSort bool   `json:"nosort"`
}

type dsPoint struct {
	Ts     int64      `json:"ts"` // milliseconds
	Ver    int64      `json:"ver"`
	Tags   [][]string `json:"tags"`
	Fields []string   `json:"fields"`
}

type dataset struct {
	ID        string      `json:"id"`
	IndexMode bool        `json:"indexMode"`
	Shards    uint32      `json:"shards"`
	Nodes     int         `json:"nodes"`
	Flush     bool        `json:"flush"`
	Batch     int         `json:"batch"`
	Families  []dsFamily  `json:"families"`
	Entity    []string    `json:"entity"`
	Fields    []dsField   `json:"fields"`
	Rules     []dsRule    `json:"rules"`
	Batches   [][]dsPoint `json:"batches"`
	Feat      []string    `json:"feat"` // generator bookkeeping, unused here
}

const (
	groupName   = "g"
	measureName = "m"
)

func tagType(t string) databasev1.TagType {
	switch t {
	case "s":
		return databasev1.TagType_TAG_TYPE_STRING
	case "i":
		return databasev1.TagType_TAG_TYPE_INT
	case "b":
		return databasev1.TagType_TAG_TYPE_DATA_BINARY
	case "sa":
		return databasev1.TagType_TAG_TYPE_STRING_ARRAY
	case "ia":
		return databasev1.TagType_TAG_TYPE_INT_ARRAY
	}
	panic("bad tag type " + t)
}

func fieldType(t string) databasev1.FieldType {
	switch t {
	case "i":
		return databasev1.FieldType_FIELD_TYPE_INT
	case "f":
		return databasev1.FieldType_FIELD_TYPE_FLOAT
	case "s":
		return databasev1.FieldType_FIELD_TYPE_STRING
	case "b":
		return databasev1.FieldType_FIELD_TYPE_DATA_BINARY
	}
	panic("bad field type " + t)
}

func (d *dataset) schema() (*databasev1.Measure, []*databasev1.IndexRule) {
	m := &databasev1.Measure{
		Metadata:  &commonv1.Metadata{Name: measureName, Group: groupName},
		Entity:    &databasev1.Entity{TagNames: d.Entity},
		IndexMode: d.IndexMode,
	}
	for _, f := range d.Families {
		tf := &databasev1.TagFamilySpec{Name: f.N}
		for _, t := range f.Tags {
			tf.Tags = append(tf.Tags, &databasev1.TagSpec{Name: t.N, Type: tagType(t.T)})
		}
		m.TagFamilies = append(m.TagFamilies, tf)
	}
	for _, f := range d.Fields {
		m.Fields = append(m.Fields, &databasev1.FieldSpec{
			Name: f.N, FieldType: fieldType(f.T),
			EncodingMethod:    databasev1.EncodingMethod_ENCODING_METHOD_GORILLA,
			CompressionMethod: databasev1.CompressionMethod_COMPRESSION_METHOD_ZSTD,
		})
	}
	var rules []*databasev1.IndexRule
	for _, r := range d.Rules {
		rules = append(rules, &databasev1.IndexRule{
			Metadata: &commonv1.Metadata{Name: r.N, Group: groupName, Id: r.ID},
			Tags:     []string{r.Tag},
			Type:     databasev1.IndexRule_TYPE_INVERTED,
			NoSort:   r.NoSort,
		})
	}
	return m, rules
}

func unhex(s string) []byte {
	if s == "" || s == "-" {
		return []byte{}
	}
	b, err := hex.DecodeString(s)
	if err != nil {
		panic("bad hex " + s)
	}
	return b
}

// parseTagValue: N | S<hex> | I<dec> | B<hex> | T<hex;hex;...> (string array) | A<d;d;...> (int array).
func parseTagValue(s string) *modelv1.TagValue {
	if s == "" {
		panic("empty tag value")
	}
	switch s[0] {
	case 'N':
		return &modelv1.TagValue{Value: &modelv1.TagValue_Null{}}
	case 'S':
		return &modelv1.TagValue{Value: &modelv1.TagValue_Str{Str: &modelv1.Str{Value: string(unhex(s[1:]))}}}
	case 'I':
		v, err := strconv.ParseInt(s[1:], 10, 64)
		if err != nil {
			panic(err)
		}
		return &modelv1.TagValue{Value: &modelv1.TagValue_Int{Int: &modelv1.Int{Value: v}}}
	case 'B':
		return &modelv1.TagValue{Value: &modelv1.TagValue_BinaryData{BinaryData: unhex(s[1:])}}
	case 'T':
		arr := &modelv1.StrArray{}
		if len(s) > 1 {
			for _, p := range strings.Split(s[1:], ";") {
				arr.Value = append(arr.Value, string(unhex(p)))
			}
		}
		return &modelv1.TagValue{Value: &modelv1.TagValue_StrArray{StrArray: arr}}
	case 'A':
		arr := &modelv1.IntArray{}
		if len(s) > 1 {
			for _, p := range strings.Split(s[1:], ";") {
				v, err := strconv.ParseInt(p, 10, 64)
				if err != nil {
					panic(err)
				}
				arr.Value = append(arr.Value, v)
			}
		}
		return &modelv1.TagValue{Value: &modelv1.TagValue_IntArray{IntArray: arr}}
	}
	panic("bad tag value " + s)
}

// parseFieldValue: N | I<dec> | F<16 hex digits of the float64 bits> | S<hex> | B<hex>.
func parseFieldValue(s string) *modelv1.FieldValue {
	switch s[0] {
	case 'N':
		return &modelv1.FieldValue{Value: &modelv1.FieldValue_Null{}}
	case 'I':
		v, err := strconv.ParseInt(s[1:], 10, 64)
		if err != nil {
			panic(err)
		}
		return &modelv1.FieldValue{Value: &modelv1.FieldValue_Int{Int: &modelv1.Int{Value: v}}}
	case 'F':
		u, err := strconv.ParseUint(s[1:], 16, 64)
		if err != nil {
			panic(err)
		}
		return &modelv1.FieldValue{Value: &modelv1.FieldValue_Float{Float: &modelv1.Float{Value: math.Float64frombits(u)}}}
	case 'S':
		return &modelv1.FieldValue{Value: &modelv1.FieldValue_Str{Str: &modelv1.Str{Value: string(unhex(s[1:]))}}}
	case 'B':
		return &modelv1.FieldValue{Value: &modelv1.FieldValue_BinaryData{BinaryData: unhex(s[1:])}}
	}
	panic("bad field value " + s)
}

func hx(b []byte) string {
	if len(b) == 0 {
		return "-"
	}
	return hex.EncodeToString(b)
}

func showTagValue(tv *modelv1.TagValue) string {
	if tv == nil {
		return "nil"
	}
	switch v := tv.Value.(type) {
	case nil:
		return "unset"
	case *modelv1.TagValue_Null:
		return "N"
	case *modelv1.TagValue_Str:
		return "S" + hx([]byte(v.Str.GetValue()))
	case *modelv1.TagValue_Int:
		return "I" + strconv.FormatInt(v.Int.GetValue(), 10)
	case *modelv1.TagValue_BinaryData:
		return "B" + hx(v.BinaryData)
	case *modelv1.TagValue_StrArray:
		ps := make([]string, 0, len(v.StrArray.GetValue()))
		for _, s := range v.StrArray.GetValue() {
			ps = append(ps, hx([]byte(s)))
		}
		return "T" + strings.Join(ps, ";")
	case *modelv1.TagValue_IntArray:
		ps := make([]string, 0, len(v.IntArray.GetValue()))
		for _, s := range v.IntArray.GetValue() {
			ps = append(ps, strconv.FormatInt(s, 10))
		}
		return "A" + strings.Join(ps, ";")
	case *modelv1.TagValue_Timestamp:
		return "Z" + strconv.FormatInt(v.Timestamp.AsTime().UnixNano(), 10)
	}
	return "?"
}

func showFieldValue(fv *modelv1.FieldValue) string {
	if fv == nil {
		return "nil"
	}
	switch v := fv.Value.(type) {
	case nil:
		return "unset"
	case *modelv1.FieldValue_Null:
		return "N"
	case *modelv1.FieldValue_Int:
		return "I" + strconv.FormatInt(v.Int.GetValue(), 10)
	case *modelv1.FieldValue_Float:
		return fmt.Sprintf("F%016x", math.Float64bits(v.Float.GetValue()))
	case *modelv1.FieldValue_Str:
		return "S" + hx([]byte(v.Str.GetValue()))
	case *modelv1.FieldValue_BinaryData:
		return "B" + hx(v.BinaryData)
	}
	return "?"
}

func showDataPoint(dp *measurev1.DataPoint) string {
	var sb strings.Builder
	if dp.GetTimestamp() == nil {
		sb.WriteString("t-")
	} else {
		fmt.Fprintf(&sb, "t%d", dp.GetTimestamp().AsTime().UnixNano())
	}
	fmt.Fprintf(&sb, "/s%d/v%d/", dp.GetSid(), dp.GetVersion())
	for i, tf := range dp.GetTagFamilies() {
		if i > 0 {
			sb.WriteByte(';')
		}
		sb.WriteString(tf.GetName())
		sb.WriteByte('{')
		for j, t := range tf.GetTags() {
			if j > 0 {
				sb.WriteByte(',')
			}
			sb.WriteString(t.GetKey())
			sb.WriteByte('=')
			sb.WriteString(showTagValue(t.GetValue()))
		}
		sb.WriteByte('}')
	}
	sb.WriteByte('/')
	for i, f := range dp.GetFields() {
		if i > 0 {
			sb.WriteByte(',')
		}
		sb.WriteString(f.GetName())
		sb.WriteByte('=')
		sb.WriteString(showFieldValue(f.GetValue()))
	}
	return sb.String()
}

// ---------------------------------------------------------------- request description

type rqTP struct {
	F    string   `json:"f"`
	Tags []string `json:"tags"`
}

type rqCrit struct {
	C   []string `json:"c,omitempty"` // name, op, value
	And []rqCrit `json:"and,omitempty"`
	Or  []rqCrit `json:"or,omitempty"`
}

type rqOrder struct {
	Rule string `json:"rule"`
	Sort string `json:"sort"`
}

type rqAgg struct {
	Fn    string `json:"fn"`
	Field string `json:"field"`
}

type rqTop struct {
	N     int32  `json:"n"`
	Field string `json:"field"`
	Sort  string `json:"sort"`
}

type request struct {
	TR     []int64  `json:"tr"` // [beginMs, endMs]; absent = nil TimeRange
	TP     []rqTP   `json:"tp"`
	FP     []string `json:"fp"`
	Crit   *rqCrit  `json:"crit"`
	OB     *rqOrder `json:"ob"`
	Limit  uint32   `json:"limit"`
	Offset uint32   `json:"offset"`
	GB     []rqTP   `json:"gb"`
	GBSet  bool     `json:"gbset"` // group_by present although gb is empty
	Agg    *rqAgg   `json:"agg"`
	Top    *rqTop   `json:"top"`
	Trace  bool     `json:"trace"`
}

func sortOf(s string) modelv1.Sort {
	switch s {
	case "asc":
		return modelv1.Sort_SORT_ASC
	case "desc":
		return modelv1.Sort_SORT_DESC
	}
	return modelv1.Sort_SORT_UNSPECIFIED
}

var condOps = map[string]modelv1.Condition_BinaryOp{
	"eq": modelv1.Condition_BINARY_OP_EQ, "ne": modelv1.Condition_BINARY_OP_NE,
	"lt": modelv1.Condition_BINARY_OP_LT, "gt": modelv1.Condition_BINARY_OP_GT,
	"le": modelv1.Condition_BINARY_OP_LE, "ge": modelv1.Condition_BINARY_OP_GE,
	"having": modelv1.Condition_BINARY_OP_HAVING, "not_having": modelv1.Condition_BINARY_OP_NOT_HAVING,
	"in": modelv1.Condition_BINARY_OP_IN, "not_in": modelv1.Condition_BINARY_OP_NOT_IN,
	"match": modelv1.Condition_BINARY_OP_MATCH,
}

var aggFns = map[string]modelv1.AggregationFunction{
	"MEAN": modelv1.AggregationFunction_AGGREGATION_FUNCTION_MEAN,
	"MAX":  modelv1.AggregationFunction_AGGREGATION_FUNCTION_MAX,
	"MIN":  modelv1.AggregationFunction_AGGREGATION_FUNCTION_MIN,
	"COUNT": modelv1.AggregationFunction_AGGREGATION_FUNCTION_COUNT,
	"SUM":  modelv1.AggregationFunction_AGGREGATION_FUNCTION_SUM,
	"UNSPEC": modelv1.AggregationFunction_AGGREGATION_FUNCTION_UNSPECIFIED,
}

func buildCrit(c *rqCrit) *modelv1.Criteria {
	if c == nil {
		return nil
	}
	if len(c.C) == 3 {
		op, ok := condOps[c.C[1]]
		if !ok {
			panic("bad op " + c.C[1])
		}
		return &modelv1.Criteria{Exp: &modelv1.Criteria_Condition{Condition: &modelv1.Condition{
			Name: c.C[0], Op: op, Value: parseTagValue(c.C[2]),
		}}}
	}
	mk := func(op modelv1.LogicalExpression_LogicalOp, cs []rqCrit) *modelv1.Criteria {
		le := &modelv1.LogicalExpression{Op: op}
		if len(cs) > 0 {
			le.Left = buildCrit(&cs[0])
		}
		if len(cs) > 1 {
			le.Right = buildCrit(&cs[1])
		}
		return &modelv1.Criteria{Exp: &modelv1.Criteria_Le{Le: le}}
	}
	if c.And != nil {
		return mk(modelv1.LogicalExpression_LOGICAL_OP_AND, c.And)
	}
	if c.Or != nil {
		return mk(modelv1.LogicalExpression_LOGICAL_OP_OR, c.Or)
	}
	return &modelv1.Criteria{}
}

func toTagProjection(tp []rqTP) *modelv1.TagProjection {
	out := &modelv1.TagProjection{}
	for _, f := range tp {
		out.TagFamilies = append(out.TagFamilies, &modelv1.TagProjection_TagFamily{Name: f.F, Tags: f.Tags})
	}
	return out
}

func (r *request) build() *measurev1.QueryRequest {
	q := &measurev1.QueryRequest{
		Groups: []string{groupName}, Name: measureName,
		Limit: r.Limit, Offset: r.Offset, Trace: r.Trace,
		Criteria: buildCrit(r.Crit),
	}
	if len(r.TR) == 2 {
		q.TimeRange = &modelv1.TimeRange{
			Begin: timestamppb.New(time.UnixMilli(r.TR[0])),
			End:   timestamppb.New(time.UnixMilli(r.TR[1])),
		}
	}
	if r.TP != nil {
		q.TagProjection = toTagProjection(r.TP)
	}
	if r.FP != nil {
		q.FieldProjection = &measurev1.QueryRequest_FieldProjection{Names: r.FP}
	}
	if r.OB != nil {
		q.OrderBy = &modelv1.QueryOrder{IndexRuleName: r.OB.Rule, Sort: sortOf(r.OB.Sort)}
	}
	if r.GB != nil || r.GBSet {
		q.GroupBy = &measurev1.QueryRequest_GroupBy{TagProjection: toTagProjection(r.GB)}
	}
	if r.Agg != nil {
		fn, ok := aggFns[r.Agg.Fn]
		if !ok {
			panic("bad agg fn")
		}
		q.Agg = &measurev1.QueryRequest_Aggregation{Function: fn, FieldName: r.Agg.Field}
	}
	if r.Top != nil {
		q.Top = &measurev1.QueryRequest_Top{Number: r.Top.N, FieldName: r.Top.Field, FieldValueSort: sortOf(r.Top.Sort)}
	}
	return q
}

// ---------------------------------------------------------------- engines

type cluster struct {
	key     string
	ds      *dataset
	dir     string
	single  *measure.VerifC15Engine   // every shard on one engine (standalone)
	nodes   []*measure.VerifC15Engine // shard s lives on node s % len(nodes) (distributed)
	schema  *databasev1.Measure
	rules   []*databasev1.IndexRule
	layout  string
	nlayout string
}

var (
	cur   *cluster
	dsSeq int
)

func closeDataset() {
	if cur == nil {
		return
	}
	if cur.single != nil {
		_ = cur.single.Close()
	}
	for _, n := range cur.nodes {
		_ = n.Close()
	}
	_ = os.RemoveAll(cur.dir)
	cur = nil
}

func vecCfg(on bool, batch int) vmeasure.VectorizedConfig {
	c := vmeasure.DefaultConfig()
	c.Enabled = on
	if batch > 0 {
		c.BatchSize = batch
	}
	c.BroadcastTimeout = 20 * time.Second
	return c
}

func (c *cluster) writeRequests(batch []dsPoint) []*measurev1.WriteRequest {
	out := make([]*measurev1.WriteRequest, 0, len(batch))
	for i, p := range batch {
		dp := &measurev1.DataPointValue{Timestamp: timestamppb.New(time.UnixMilli(p.Ts)), Version: p.Ver}
		for _, fam := range p.Tags {
			tf := &modelv1.TagFamilyForWrite{}
			for _, t := range fam {
				tf.Tags = append(tf.Tags, parseTagValue(t))
			}
			dp.TagFamilies = append(dp.TagFamilies, tf)
		}
		for _, f := range p.Fields {
			dp.Fields = append(dp.Fields, parseFieldValue(f))
		}
		out = append(out, &measurev1.WriteRequest{
			Metadata: &commonv1.Metadata{Name: measureName, Group: groupName}, DataPoint: dp, MessageId: uint64(i + 1),
		})
	}
	return out
}

func openDataset(dsJSON string, distributed bool) (*cluster, error) {
	if cur != nil && cur.key == dsJSON {
		if (!distributed && cur.single != nil) || (distributed && cur.nodes != nil) {
			return cur, nil
		}
	} else {
		closeDataset()
	}
	if cur == nil {
		var ds dataset
		dec := json.NewDecoder(strings.NewReader(dsJSON))
		dec.DisallowUnknownFields()
		if err := dec.Decode(&ds); err != nil {
			return nil, fmt.Errorf("dataset json: %w", err)
		}
		if ds.Shards == 0 {
			ds.Shards = 1
		}
		if ds.Nodes <= 0 {
			ds.Nodes = 2
		}
		dsSeq++
		c := &cluster{key: dsJSON, ds: &ds, dir: filepath.Join(scratch, fmt.Sprintf("ds%d", dsSeq))}
		c.schema, c.rules = ds.schema()
		cur = c
	}
	c := cur
	flushTimeout := time.Hour
	if c.ds.Flush {
		flushTimeout = time.Millisecond
	}
	open := func(sub string) (*measure.VerifC15Engine, error) {
		// each engine gets its own copy of the schema objects (OnIndexUpdate/parse keep references)
		sch := proto.Clone(c.schema).(*databasev1.Measure)
		rules := make([]*databasev1.IndexRule, len(c.rules))
		for i := range c.rules {
			rules[i] = proto.Clone(c.rules[i]).(*databasev1.IndexRule)
		}
		return measure.VerifC15Open(filepath.Join(c.dir, sub), sch, rules, c.ds.Shards, flushTimeout, vecCfg(false, c.ds.Batch))
	}
	if !distributed {
		e, err := open("single")
		if err != nil {
			return nil, err
		}
		c.single = e
		for _, b := range c.ds.Batches {
			var evs []*measurev1.InternalWriteRequest
			for _, wr := range c.writeRequests(b) {
				ev, lerr := e.Locate(wr)
				if lerr != nil {
					return nil, fmt.Errorf("locate: %w", lerr)
				}
				evs = append(evs, ev)
			}
			if err := e.WriteBatch(evs); err != nil {
				return nil, fmt.Errorf("write: %w", err)
			}
		}
		if c.ds.Flush && !e.WaitFlushed(60*time.Second) {
			return nil, fmt.Errorf("flush did not finish")
		}
		c.layout = e.Layout()
		return c, nil
	}
	for n := 0; n < c.ds.Nodes; n++ {
		e, err := open(fmt.Sprintf("node%d", n))
		if err != nil {
			return nil, err
		}
		c.nodes = append(c.nodes, e)
	}
	for _, b := range c.ds.Batches {
		per := make([][]*measurev1.InternalWriteRequest, len(c.nodes))
		for _, wr := range c.writeRequests(b) {
			ev, lerr := c.nodes[0].Locate(wr)
			if lerr != nil {
				return nil, fmt.Errorf("locate: %w", lerr)
			}
			n := int(ev.ShardId) % len(c.nodes)
			per[n] = append(per[n], ev)
		}
		for n, evs := range per {
			if len(evs) == 0 {
				continue
			}
			if err := c.nodes[n].WriteBatch(evs); err != nil {
				return nil, fmt.Errorf("write: %w", err)
			}
		}
	}
	for _, e := range c.nodes {
		if c.ds.Flush && !e.WaitFlushed(60*time.Second) {
			return nil, fmt.Errorf("flush did not finish")
		}
		c.nlayout += e.Layout() + "|"
	}
	return c, nil
}

// ---------------------------------------------------------------- running a query

var traceNoise = strings.NewReplacer("\n", " ", "\t", " ")

func classify(msg string) string {
	// strip the entry-point prefix: "fail to analyze|dispatch|execute ... for measure m: "
	if i := strings.Index(msg, "for measure "+measureName+": "); i >= 0 {
		msg = msg[i+len("for measure "+measureName+": "):]
	}
	msg = traceNoise.Replace(msg)
	bs := []byte(msg)
	for i, c := range bs {
		if c == ' ' {
			bs[i] = '_'
		} else if c < 0x21 || c > 0x7e {
			bs[i] = '?'
		}
	}
	if len(bs) > 160 {
		bs = bs[:160]
	}
	return string(bs)
}

func showResponse(m bus.Message) string {
	switch d := m.Data().(type) {
	case *measurev1.QueryResponse:
		parts := make([]string, 0, len(d.GetDataPoints()))
		for _, dp := range d.GetDataPoints() {
			parts = append(parts, showDataPoint(dp))
		}
		if len(parts) == 0 {
			return "OK:0:"
		}
		return fmt.Sprintf("OK:%d:%s", len(parts), strings.Join(parts, "|"))
	case *common.Error:
		return "ERR:" + classify(d.Error())
	case nil:
		return "NIL"
	}
	return fmt.Sprintf("BAD:%T", m.Data())
}

func runStandalone(c *cluster, req *measurev1.QueryRequest, vec bool) string {
	c.single.SetVectorized(vecCfg(vec, c.ds.Batch))
	data.SetMeasureWireModeRaw(vec)
	procs := query.VerifC15NewProcessors("n0", func(_, _ string) (measure.Measure, error) { return c.single.Measure(), nil })
	return drv2(func() string {
		resp := procs.Query(context.Background(), bus.NewMessage(1, proto.Clone(req).(*measurev1.QueryRequest)))
		return showResponse(resp)
	})
}

func drv2(f func() string) (res string) {
	defer func() {
		if r := recover(); r != nil {
			res = "PANIC:" + classify(fmt.Sprint(r))
		}
	}()
	return f()
}

// localBroadcaster delivers TopicInternalMeasureQuery to every data node in-process, passing request and
// response bodies through the same encodings the queue uses (proto for requests; the per-topic response codec).
type localBroadcaster struct {
	nodes []*query.VerifC15Processors
	wire  []string
}

type readyFuture struct {
	m   bus.Message
	err error
}

func (f *readyFuture) Get() (bus.Message, error)      { return f.m, f.err }
func (f *readyFuture) GetAll() ([]bus.Message, error) { return []bus.Message{f.m}, f.err }

func (b *localBroadcaster) Broadcast(_ time.Duration, topic bus.Topic, m bus.Message) ([]bus.Future, error) {
	if topic != data.TopicInternalMeasureQuery {
		return nil, fmt.Errorf("unexpected topic %s", topic.String())
	}
	reqBody, err := proto.Marshal(m.Data().(proto.Message))
	if err != nil {
		return nil, err
	}
	codec := data.TopicResponseMap[topic]
	var ff []bus.Future
	for i, n := range b.nodes {
		ir := &measurev1.InternalQueryRequest{}
		if err := proto.Unmarshal(reqBody, ir); err != nil {
			return nil, err
		}
		resp := n.InternalQuery(context.Background(), bus.NewMessage(m.ID(), ir))
		var body []byte
		switch d := resp.Data().(type) {
		case proto.Message:
			body, err = proto.Marshal(d)
			if err != nil {
				return nil, err
			}
			b.wire = append(b.wire, fmt.Sprintf("n%d:proto:%d", i, len(body)))
		case []byte:
			if !data.MeasureWireModeRaw() {
				ff = append(ff, &readyFuture{err: fmt.Errorf("invalid response: unexpected raw body")})
				continue
			}
			body = d
			b.wire = append(b.wire, fmt.Sprintf("n%d:raw:%d", i, len(body)))
		case *common.Error:
			ff = append(ff, &readyFuture{err: fmt.Errorf("%s", d.Error())})
			b.wire = append(b.wire, fmt.Sprintf("n%d:err", i))
			continue
		default:
			ff = append(ff, &readyFuture{err: fmt.Errorf("invalid response %T", d)})
			continue
		}
		v, uerr := codec.Unmarshal(body)
		if uerr != nil {
			ff = append(ff, &readyFuture{err: uerr})
			continue
		}
		ff = append(ff, &readyFuture{m: bus.NewMessageWithNode(m.ID(), fmt.Sprintf("n%d", i), v)})
	}
	return ff, nil
}

func runDistributed(c *cluster, req *measurev1.QueryRequest, vec bool) (string, string) {
	data.SetMeasureWireModeRaw(vec)
	br := &localBroadcaster{}
	for i, e := range c.nodes {
		e.SetVectorized(vecCfg(vec, c.ds.Batch))
		eng := e
		br.nodes = append(br.nodes, query.VerifC15NewProcessors(fmt.Sprintf("n%d", i),
			func(_, _ string) (measure.Measure, error) { return eng.Measure(), nil }))
	}
	grp := &commonv1.Group{
		Metadata: &commonv1.Metadata{Name: groupName}, Catalog: commonv1.Catalog_CATALOG_MEASURE,
		ResourceOpts: &commonv1.ResourceOpts{ShardNum: c.ds.Shards},
	}
	l := dquery.VerifC15NewLiaison("l0", br,
		func(_, _ string) (measure.Measure, error) { return c.nodes[0].Measure(), nil },
		func(name string) *commonv1.Group {
			if name == groupName {
				return grp
			}
			return nil
		})
	out := drv2(func() string {
		resp := l.Query(context.Background(), bus.NewMessage(1, proto.Clone(req).(*measurev1.QueryRequest)))
		return showResponse(resp)
	})
	return out, strings.Join(br.wire, ",")
}

func parityOp(f []string, distributed bool) string {
	if len(f) != 3 {
		return "bad-op"
	}
	defer data.SetMeasureWireModeRaw(false)
	c, err := openDataset(f[1], distributed)
	if err != nil {
		closeDataset()
		return "SETUP-ERR " + classify(err.Error())
	}
	var r request
	dec := json.NewDecoder(strings.NewReader(f[2]))
	dec.DisallowUnknownFields()
	if err := dec.Decode(&r); err != nil {
		return "bad-op request json: " + err.Error()
	}
	req := r.build()
	if !distributed {
		row := runStandalone(c, req, false)
		vec := runStandalone(c, req, true)
		return fmt.Sprintf("row=%s vec=%s layout=%s", row, vec, c.layout)
	}
	row, rw := runDistributed(c, req, false)
	vec, vw := runDistributed(c, req, true)
	return fmt.Sprintf("row=%s vec=%s wire=%s/%s layout=%s", row, vec, rw, vw, c.nlayout)
}

var _ = sort.Strings
