//go:build verif

// Driver for C16: pkg/node round-robin selector (driven with schema.Metadata / node events and a fake
// group registry for OnInit), pkg/partition ShardID / TraceShardID / Locator.Locate / ApplyLocators.
//
// Protocol (one case per line):
//
//	sel|sels <events…> [| <events…>]…     every `|`-separated sequence runs on a fresh selector; `sels` installs the
//	                                      label selector "role=data" first. Events:
//	    g:n:r   OnAddOrUpdate(group g, ShardNum n, Replicas r)       ~g:n:r  same with Catalog UNSPECIFIED (ignored)
//	    !g      OnAddOrUpdate(group g, ResourceOpts nil) (ignored)   %g:n:r  same spec but Kind != group (ignored)
//	    ^g      OnDelete(group g)                                    &g      OnDelete with Kind != group (ignored)
//	    +x      AddNode(x, labels role=data)                         *x      AddNode(x, labels role=meta)
//	    -x      RemoveNode(x)
//	    @g:n:r,g:n:r…  OnInit([group]) with a registry listing these groups (`@-` = none; `~g:n:r` / `!g` entries invalid)
//	  output per sequence: for every group named anywhere on the line (+ "zz") and every shard 0..max ShardNum on the line:
//	    g:s=<r0>,<r1>,<r2>,<r3>/<LocateAll(g,s,3) joined by +>   (node name, U = unknown shard, N = no nodes),
//	    then S=<String() entries sorted by key>. `+`/`*`/`-` with an empty name are events for a node without a name.
//	shard <n> <keyhex>                     Hash, ShardID(key,n), TraceShardID(key,n)
//	spec <s|m> <n> <name> <schema> <entity> <shardingkey|-> <spec|-|.> <specwrite> <refwrite>
//	                                      stream/measure write routed by the liaison (streamService/measureService.navigate):
//	                                      once with the client's spec and `specwrite` (laid out like the spec), once without a
//	                                      spec and `refwrite` (laid out like the schema). schema/spec: `fa:t0,t1/fb:t2`
//	                                      (`-` no spec, `.` spec without families); writes: `TV,TV/TV` (`.` = family without tags).
//	                                      output: <shard> <entity values> for each of the two
//	loc <n> <k|-> <subjecthex> <TV>…       Locate/ApplyLocators over two different tag-family layouts;
//	                                      sharding key = first k entity tags (`-` = no sharding-key locator)
package main

import (
	"context"
	"encoding/json"
	"fmt"
	"sort"
	"strconv"
	"strings"

	commonv1 "github.com/apache/skywalking-banyandb/api/proto/banyandb/common/v1"
	databasev1 "github.com/apache/skywalking-banyandb/api/proto/banyandb/database/v1"
	modelv1 "github.com/apache/skywalking-banyandb/api/proto/banyandb/model/v1"
	"github.com/apache/skywalking-banyandb/banyand/internal/verifdrv/drv"
	liaisongrpc "github.com/apache/skywalking-banyandb/banyand/liaison/grpc"
	"github.com/apache/skywalking-banyandb/banyand/metadata"
	"github.com/apache/skywalking-banyandb/banyand/metadata/schema"
	"github.com/apache/skywalking-banyandb/banyand/queue/pub"
	"github.com/apache/skywalking-banyandb/pkg/convert"
	"github.com/apache/skywalking-banyandb/pkg/node"
	"github.com/apache/skywalking-banyandb/pkg/partition"
	pbv1 "github.com/apache/skywalking-banyandb/pkg/pb/v1"
)

const maxReplicaProbe = 4

// copies asked from LocateAll (replicas+1 with the generator's maximum of 2 replicas)
const locateAllCopies = 3

// fakeRepo serves only GroupRegistry().ListGroup (all OnInit needs); any other call panics on the nil embedded interface.
type fakeRepo struct {
	metadata.Repo
	groups []*commonv1.Group
}

type fakeGroups struct {
	schema.Group
	groups []*commonv1.Group
}

func (f *fakeRepo) GroupRegistry() schema.Group { return &fakeGroups{groups: f.groups} }

func (f *fakeGroups) ListGroup(context.Context) ([]*commonv1.Group, error) { return f.groups, nil }

func u32(s string) uint32 {
	v, err := strconv.ParseUint(s, 10, 32)
	if err != nil {
		panic("bad number in protocol: " + s)
	}
	return uint32(v)
}

// groupSpec parses `g:n:r`, `~g:n:r`, `!g`.
func groupSpec(tok string, rev int64) *commonv1.Group {
	cat := commonv1.Catalog_CATALOG_MEASURE
	if strings.HasPrefix(tok, "~") {
		cat = commonv1.Catalog_CATALOG_UNSPECIFIED
		tok = tok[1:]
	}
	if strings.HasPrefix(tok, "!") {
		return &commonv1.Group{Metadata: &commonv1.Metadata{Name: tok[1:], ModRevision: rev}, Catalog: cat}
	}
	p := strings.Split(tok, ":")
	if len(p) != 3 {
		panic("bad group token " + tok)
	}
	return &commonv1.Group{
		Metadata: &commonv1.Metadata{Name: p[0], ModRevision: rev}, Catalog: cat,
		ResourceOpts: &commonv1.ResourceOpts{ShardNum: u32(p[1]), Replicas: u32(p[2])},
	}
}

func groupName(tok string) string {
	tok = strings.TrimLeft(tok, "~!%^&")
	if i := strings.IndexByte(tok, ':'); i >= 0 {
		return tok[:i]
	}
	return tok
}

func dnode(name, role string) *databasev1.Node {
	return &databasev1.Node{Metadata: &commonv1.Metadata{Name: name}, Labels: map[string]string{"role": role}}
}

func runSeq(withSelector bool, events []string, groups []string, maxShard uint32) string {
	repo := &fakeRepo{}
	s := node.NewRoundRobinSelector("c16", repo)
	if withSelector {
		ls, err := pub.ParseLabelSelector("role=data")
		if err != nil {
			panic(err)
		}
		s.SetNodeSelector(ls)
	}
	h := s.(schema.EventHandler)
	// node events travel through the liaison's clusterNodeService (banyand/liaison/grpc/node.go), as in a cluster
	reg, nh := liaisongrpc.VerifC16NodeRegistry(s)
	nodeEv := func(name, role string) schema.Metadata {
		return schema.Metadata{TypeMeta: schema.TypeMeta{Kind: schema.KindNode, Name: name}, Spec: dnode(name, role)}
	}
	for i, ev := range events {
		switch ev[0] {
		case '+':
			nh.OnAddOrUpdate(nodeEv(ev[1:], "data"))
		case '*':
			nh.OnAddOrUpdate(nodeEv(ev[1:], "meta"))
		case '-':
			nh.OnDelete(nodeEv(ev[1:], "data"))
		case '^':
			h.OnDelete(schema.Metadata{TypeMeta: schema.TypeMeta{Kind: schema.KindGroup}, Spec: &commonv1.Group{Metadata: &commonv1.Metadata{Name: ev[1:]}}})
		case '&':
			h.OnDelete(schema.Metadata{TypeMeta: schema.TypeMeta{Kind: schema.KindStream}, Spec: &commonv1.Group{Metadata: &commonv1.Metadata{Name: ev[1:]}}})
		case '%':
			h.OnAddOrUpdate(schema.Metadata{TypeMeta: schema.TypeMeta{Kind: schema.KindMeasure}, Spec: groupSpec(ev[1:], int64(i+1))})
		case '@':
			repo.groups = nil
			if ev != "@-" {
				for j, g := range strings.Split(ev[1:], ",") {
					repo.groups = append(repo.groups, groupSpec(g, int64(j+1)))
				}
			}
			ok, revs := h.OnInit([]schema.Kind{schema.KindGroup})
			if !ok || len(revs) != 1 {
				return "INIT-REFUSED"
			}
		default:
			h.OnAddOrUpdate(schema.Metadata{TypeMeta: schema.TypeMeta{Kind: schema.KindGroup}, Spec: groupSpec(ev, int64(i+1))})
		}
	}
	var out []string
	for _, g := range groups {
		for sh := uint32(0); sh <= maxShard; sh++ {
			rs := make([]string, 0, maxReplicaProbe)
			for r := uint32(0); r < maxReplicaProbe; r++ {
				n, err := reg.Locate(g, "", sh, r)
				switch {
				case err == nil:
					rs = append(rs, n)
				case strings.Contains(err.Error(), "no nodes available"):
					rs = append(rs, "N")
				case strings.Contains(err.Error(), "unknown shard"):
					rs = append(rs, "U")
				default:
					rs = append(rs, "ERR")
				}
			}
			all, err := reg.LocateAll(g, sh, locateAllCopies)
			la := strings.Join(all, "+")
			switch {
			case err == nil:
			case strings.Contains(err.Error(), "no nodes available"):
				la = "N"
			case strings.Contains(err.Error(), "unknown shard"):
				la = "U"
			default:
				la = "ERR"
			}
			out = append(out, fmt.Sprintf("%s:%d=%s/%s", g, sh, strings.Join(rs, ","), la))
		}
	}
	out = append(out, "S="+stringer(s))
	return strings.Join(out, " ")
}

// stringer canonicalises Selector.String() (a JSON object) into `key>value` entries sorted by key.
func stringer(s node.Selector) string {
	str := s.String()
	if str == "" {
		return "-"
	}
	m := map[string]string{}
	if err := json.Unmarshal([]byte(str), &m); err != nil {
		return "BADJSON"
	}
	keys := make([]string, 0, len(m))
	for k := range m {
		keys = append(keys, k)
	}
	sort.Strings(keys)
	parts := make([]string, 0, len(keys))
	for _, k := range keys {
		v := m[k]
		if strings.Contains(v, "no nodes available") {
			v = "N"
		} else if strings.Contains(v, "unknown shard") {
			v = "U"
		}
		parts = append(parts, k+">"+v)
	}
	return strings.Join(parts, ";")
}

func handleSel(f []string) string {
	var seqs [][]string
	cur := []string{}
	names := map[string]bool{"zz": true}
	maxShard := uint32(0)
	for _, t := range f[1:] {
		if t == "|" {
			seqs = append(seqs, cur)
			cur = []string{}
			continue
		}
		cur = append(cur, t)
		var specs []string
		switch t[0] {
		case '+', '-', '*':
		case '@':
			if t != "@-" {
				specs = strings.Split(t[1:], ",")
			}
		default:
			specs = []string{t}
		}
		for _, sp := range specs {
			names[groupName(sp)] = true
			if p := strings.Split(sp, ":"); len(p) == 3 {
				if n := u32(p[1]); n > maxShard {
					maxShard = n
				}
			}
		}
	}
	seqs = append(seqs, cur)
	groups := make([]string, 0, len(names))
	for g := range names {
		groups = append(groups, g)
	}
	sort.Strings(groups)
	res := make([]string, 0, len(seqs))
	for _, sq := range seqs {
		sq := sq
		res = append(res, drv.Safe(func() string { return runSeq(f[0] == "sels", sq, groups, maxShard) }))
	}
	return strings.Join(res, " | ")
}

func parseTV(s string) *modelv1.TagValue {
	switch s[0] {
	case 'N':
		return pbv1.NullTagValue
	case 'S':
		return &modelv1.TagValue{Value: &modelv1.TagValue_Str{Str: &modelv1.Str{Value: string(drv.UnHex(s[1:]))}}}
	case 'B':
		return &modelv1.TagValue{Value: &modelv1.TagValue_BinaryData{BinaryData: drv.UnHex(s[1:])}}
	case 'I':
		v, err := strconv.ParseInt(s[1:], 10, 64)
		if err != nil {
			panic(err)
		}
		return &modelv1.TagValue{Value: &modelv1.TagValue_Int{Int: &modelv1.Int{Value: v}}}
	}
	panic("bad tv " + s)
}

func shardOrErr(id uint, err error) string {
	if err != nil {
		return "ERR"
	}
	return strconv.FormatUint(uint64(id), 10)
}

// layout builds a schema (tag families), a write (tag families for write) and entity / sharding-key locators.
// variant 0: all entity tags in one family in order. variant 1: entity tags spread over three families in reverse
// order with unrelated filler tags in between (the shard must not depend on the layout).
func layout(variant int, tvs []*modelv1.TagValue, k int) ([]*modelv1.TagFamilyForWrite, partition.Locator, *partition.Locator) {
	names := make([]string, len(tvs))
	for i := range tvs {
		names[i] = "e" + strconv.Itoa(i)
	}
	var specs []*databasev1.TagFamilySpec
	var write []*modelv1.TagFamilyForWrite
	if variant == 0 {
		fs := &databasev1.TagFamilySpec{Name: "f0"}
		fw := &modelv1.TagFamilyForWrite{}
		for i, tv := range tvs {
			fs.Tags = append(fs.Tags, &databasev1.TagSpec{Name: names[i]})
			fw.Tags = append(fw.Tags, tv)
		}
		specs, write = []*databasev1.TagFamilySpec{fs}, []*modelv1.TagFamilyForWrite{fw}
	} else {
		filler := &modelv1.TagValue{Value: &modelv1.TagValue_Str{Str: &modelv1.Str{Value: "filler|\\"}}}
		for fi := 0; fi < 3; fi++ {
			fs := &databasev1.TagFamilySpec{Name: "f" + strconv.Itoa(fi)}
			fw := &modelv1.TagFamilyForWrite{}
			fs.Tags = append(fs.Tags, &databasev1.TagSpec{Name: "x" + strconv.Itoa(fi)})
			fw.Tags = append(fw.Tags, filler)
			for i := len(tvs) - 1; i >= 0; i-- {
				if i%3 != fi {
					continue
				}
				fs.Tags = append(fs.Tags, &databasev1.TagSpec{Name: names[i]}, &databasev1.TagSpec{Name: "y" + names[i]})
				fw.Tags = append(fw.Tags, tvs[i], filler)
			}
			specs, write = append(specs, fs), append(write, fw)
		}
	}
	el := partition.NewEntityLocator(specs, &databasev1.Entity{TagNames: names}, 1)
	if k < 0 {
		return write, el, nil
	}
	sl := partition.NewShardingKeyLocator(specs, &databasev1.ShardingKey{TagNames: names[:k]})
	return write, el, &sl
}

func locate(variant int, subject string, tvs []*modelv1.TagValue, k int, n uint32) string {
	write, el, sl := layout(variant, tvs, k)
	var skr partition.Router
	if sl != nil {
		skr = *sl
	}
	evs, id, err := partition.ApplyLocators(subject, write, el, skr, n)
	if err != nil {
		return "ERR"
	}
	// the entity values handed on must be subject + the entity tags in entity order
	if len(evs) != len(tvs)+1 || evs[0].GetStr().GetValue() != subject {
		return "BAD-ENTITY-VALUES"
	}
	for i := range tvs {
		if evs[i+1] != tvs[i] {
			return "BAD-ENTITY-VALUES"
		}
	}
	return strconv.FormatUint(uint64(id), 10)
}

func parseFamilies(s string) []liaisongrpc.VerifC16Family {
	var out []liaisongrpc.VerifC16Family
	for _, fam := range strings.Split(s, "/") {
		p := strings.SplitN(fam, ":", 2)
		if len(p) != 2 {
			panic("bad family " + fam)
		}
		f := liaisongrpc.VerifC16Family{Name: p[0]}
		if p[1] != "" {
			f.Tags = strings.Split(p[1], ",")
		}
		out = append(out, f)
	}
	return out
}

func parseWrite(s string) []*modelv1.TagFamilyForWrite {
	var out []*modelv1.TagFamilyForWrite
	for _, fam := range strings.Split(s, "/") {
		fw := &modelv1.TagFamilyForWrite{}
		if fam != "." {
			for _, t := range strings.Split(fam, ",") {
				fw.Tags = append(fw.Tags, parseTV(t))
			}
		}
		out = append(out, fw)
	}
	return out
}

func showTV(tv *modelv1.TagValue) string {
	switch v := tv.GetValue().(type) {
	case *modelv1.TagValue_Null:
		return "N"
	case *modelv1.TagValue_Str:
		return "S" + drv.Hex([]byte(v.Str.GetValue()))
	case *modelv1.TagValue_BinaryData:
		return "B" + drv.Hex(v.BinaryData)
	case *modelv1.TagValue_Int:
		return "I" + strconv.FormatInt(v.Int.GetValue(), 10)
	}
	return "?"
}

func showNav(name string, evs pbv1.EntityValues, id uint64, err error) string {
	if err != nil {
		return "ERR -"
	}
	if len(evs) == 0 || evs[0].GetStr().GetValue() != name {
		return "BAD-SUBJECT -"
	}
	vs := make([]string, 0, len(evs))
	for _, ev := range evs[1:] {
		vs = append(vs, showTV(ev))
	}
	if len(vs) == 0 {
		return strconv.FormatUint(id, 10) + " -"
	}
	return strconv.FormatUint(id, 10) + " " + strings.Join(vs, ",")
}

func handleSpec(f []string) string {
	if len(f) != 10 {
		return "bad-op"
	}
	kind, n, name := f[1][0], u32(f[2]), f[3]
	var schemaFams []*databasev1.TagFamilySpec
	for _, fam := range parseFamilies(f[4]) {
		fs := &databasev1.TagFamilySpec{Name: fam.Name}
		for _, t := range fam.Tags {
			fs.Tags = append(fs.Tags, &databasev1.TagSpec{Name: t})
		}
		schemaFams = append(schemaFams, fs)
	}
	entity := strings.Split(f[5], ",")
	var sk []string
	if f[6] != "-" {
		sk = strings.Split(f[6], ",")
	}
	hasSpec := f[7] != "-"
	var spec []liaisongrpc.VerifC16Family
	if hasSpec && f[7] != "." {
		spec = parseFamilies(f[7])
	}
	evs, id, err := liaisongrpc.VerifC16Navigate(kind, n, name, schemaFams, entity, sk, hasSpec, spec, parseWrite(f[8]))
	a := showNav(name, evs, uint64(id), err)
	evs, id, err = liaisongrpc.VerifC16Navigate(kind, n, name, schemaFams, entity, sk, false, nil, parseWrite(f[9]))
	return a + " " + showNav(name, evs, uint64(id), err)
}

func handle(f []string) string {
	if len(f) == 0 {
		return "bad-op"
	}
	switch f[0] {
	case "spec":
		return handleSpec(f)
	case "sel", "sels":
		return handleSel(f)
	case "shard":
		n := u32(f[1])
		key := drv.UnHex(f[2])
		return fmt.Sprintf("%016x %s %d", convert.Hash(key), shardOrErr(partition.ShardID(key, n)), uint64(partition.TraceShardID(string(key), n)))
	case "loc":
		n := u32(f[1])
		k := -1
		if f[2] != "-" {
			k = int(u32(f[2]))
		}
		subject := string(drv.UnHex(f[3]))
		tvs := make([]*modelv1.TagValue, 0, len(f)-4)
		for _, t := range f[4:] {
			tvs = append(tvs, parseTV(t))
		}
		if k > len(tvs) {
			return "bad-op"
		}
		// the key that Locate hashes, recomputed through the exported pieces (for the model to compare), and the
		// shard ShardID gives for the routing key directly (entity, or subject + sharding-key tags)
		evs := append(pbv1.EntityValues{pbv1.EntityStrValue(subject)}, tvs...)
		ent, err := evs.ToEntity()
		if err != nil {
			return "ERR"
		}
		rk := ent
		if k >= 0 {
			rk = ent[:k+1]
		}
		return fmt.Sprintf("%s %s %s %s", drv.Hex(ent.Marshal()), locate(0, subject, tvs, k, n), locate(1, subject, tvs, k, n),
			shardOrErr(partition.ShardID(rk.Marshal(), n)))
	}
	return "bad-op"
}

func main() { drv.Run(handle) }
