//go:build verif

package main

import (
	"context"
	"fmt"
	"sort"
	"strings"
	"time"

	"google.golang.org/protobuf/types/known/timestamppb"

	commonv1 "github.com/apache/skywalking-banyandb/api/proto/banyandb/common/v1"
	databasev1 "github.com/apache/skywalking-banyandb/api/proto/banyandb/database/v1"
	modelv1 "github.com/apache/skywalking-banyandb/api/proto/banyandb/model/v1"
	streamv1 "github.com/apache/skywalking-banyandb/api/proto/banyandb/stream/v1"
	"github.com/apache/skywalking-banyandb/pkg/bus"
	"github.com/apache/skywalking-banyandb/pkg/query/executor"
	"github.com/apache/skywalking-banyandb/pkg/query/logical"
	lstream "github.com/apache/skywalking-banyandb/pkg/query/logical/stream"
)

type dqFuture struct{ m bus.Message }

func (f dqFuture) Get() (bus.Message, error)      { return f.m, nil }
func (f dqFuture) GetAll() ([]bus.Message, error) { return []bus.Message{f.m}, nil }

// streamCluster plays the data nodes of a stream query: every node owns some elements and evaluates the
// pushed-down request the way a data node does: order by time (ascending unless the request says DESC),
// skip `offset`, return `limit` rows, limit 0 meaning the server default of 20.
type streamCluster struct {
	nodes  [][]*streamv1.Element
	pushed []string
}

func (c *streamCluster) Broadcast(_ time.Duration, _ bus.Topic, message bus.Message) ([]bus.Future, error) {
	req := message.Data().(*streamv1.QueryRequest)
	c.pushed = append(c.pushed, fmt.Sprintf("%d+%d", req.GetLimit(), req.GetOffset()))
	limit := int(req.GetLimit())
	if limit == 0 {
		limit = 20
	}
	desc := req.GetOrderBy() != nil && req.GetOrderBy().GetSort() == modelv1.Sort_SORT_DESC
	var ff []bus.Future
	for _, rows := range c.nodes {
		own := append([]*streamv1.Element{}, rows...)
		sort.SliceStable(own, func(i, j int) bool {
			if desc {
				return own[i].Timestamp.AsTime().After(own[j].Timestamp.AsTime())
			}
			return own[i].Timestamp.AsTime().Before(own[j].Timestamp.AsTime())
		})
		off := int(req.GetOffset())
		if off > len(own) {
			off = len(own)
		}
		own = own[off:]
		if limit < len(own) {
			own = own[:limit]
		}
		ff = append(ff, dqFuture{m: bus.NewMessage(1, &streamv1.QueryResponse{Elements: own})})
	}
	return ff, nil
}

func (c *streamCluster) TimeRange() *modelv1.TimeRange {
	return &modelv1.TimeRange{Begin: timestamppb.New(time.Unix(0, 0)), End: timestamppb.New(time.Unix(100000, 0))}
}
func (c *streamCluster) NodeSelectors() map[string][]string { return nil }

// dqs.<order> nodes rows limit offset seed      order = none | asc | desc ; limit 0 = unset
// Real stream DistributedAnalyze + Execute (distributedLimit over distributedPlan) against faithful data nodes.
// Element i (0-based) has timestamp i+1 and id e<i>; it lives on node (i*2654435761+seed) mod 7919 mod nodes.
func handleDqs(f []string) string {
	if len(f) != 6 {
		return "bad-op"
	}
	_, order, _ := strings.Cut(f[0], ".")
	nodes, rows, limit, offset, seed := atoi(f[1]), atoi(f[2]), atoi(f[3]), atoi(f[4]), atoi(f[5])
	sm := &databasev1.Stream{
		Metadata: &commonv1.Metadata{Name: "sw", Group: "default"},
		TagFamilies: []*databasev1.TagFamilySpec{{Name: "searchable",
			Tags: []*databasev1.TagSpec{{Name: "svc", Type: databasev1.TagType_TAG_TYPE_STRING}}}},
		Entity: &databasev1.Entity{TagNames: []string{"svc"}},
	}
	s, err := lstream.BuildSchema(sm, nil)
	if err != nil {
		return "SCHEMAERR " + err.Error()
	}
	cl := &streamCluster{nodes: make([][]*streamv1.Element, nodes)}
	for i := 0; i < rows; i++ {
		e := &streamv1.Element{ElementId: fmt.Sprintf("e%d", i), Timestamp: timestamppb.New(time.Unix(int64(i+1), 0))}
		n := int((uint64(i)*2654435761+uint64(seed))%7919) % nodes
		cl.nodes[n] = append(cl.nodes[n], e)
	}
	req := &streamv1.QueryRequest{Name: "sw", Groups: []string{"default"}, Projection: &modelv1.TagProjection{},
		Limit: uint32(limit), Offset: uint32(offset)}
	switch order {
	case "asc":
		req.OrderBy = &modelv1.QueryOrder{Sort: modelv1.Sort_SORT_ASC}
	case "desc":
		req.OrderBy = &modelv1.QueryOrder{Sort: modelv1.Sort_SORT_DESC}
	}
	plan, err := lstream.DistributedAnalyze(req, []logical.Schema{s})
	if err != nil {
		return "ANALYZEERR " + err.Error()
	}
	got, err := plan.(executor.StreamExecutable).Execute(executor.WithDistributedExecutionContext(context.Background(), cl))
	if err != nil {
		return "EXECERR " + err.Error()
	}
	var ids []string
	for _, e := range got {
		ids = append(ids, strings.TrimPrefix(e.ElementId, "e"))
	}
	return fmt.Sprintf("pushed=%s got=%s", strings.Join(cl.pushed, ","), ifEmpty(len(ids) == 0, "-")+strings.Join(ids, ","))
}
