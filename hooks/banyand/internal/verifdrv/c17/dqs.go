//go:build verif

package main

import (
	"context"
	"fmt"
	"sort"
	"strings"
	"time"

	"google.golang.org/protobuf/types/known/timestamppb"

	commonv1 "github.com/apache/skywalking-banyandb/api/proto/banyandb/common/v1"
	databasev1 "github.com/apache/skywalking-banyandb/api/proto/banyandb/database/v1"
	modelv1 "github.com/apache/skywalking-banyandb/api/proto/banyandb/model/v1"
	streamv1 "github.com/apache/skywalking-banyandb/api/proto/banyandb/stream/v1"
	"github.com/apache/skywalking-banyandb/pkg/bus"
	"github.com/apache/skywalking-banyandb/pkg/query/executor"
	"github.com/apache/skywalking-banyandb/pkg/query/logical"
	lmeasure "github.com/apache/skywalking-banyandb/pkg/query/logical/measure"
	lstream "github.com/apache/skywalking-banyandb/pkg/query/logical/stream"
	measurev1 "github.com/apache/skywalking-banyandb/api/proto/banyandb/measure/v1"
)

type dqFuture struct{ m bus.Message }

func (f dqFuture) Get() (bus.Message, error)      { return f.m, nil }
func (f dqFuture) GetAll() ([]bus.Message, error) { return []bus.Message{f.m}, nil }

// streamCluster plays the data nodes of a stream query: every node owns some elements and evaluates the
// pushed-down request the way a data node does: order by time (ascending unless the request says DESC),
// skip `offset`, return `limit` rows, limit 0 meaning the server default of 20.
type streamCluster struct {
	nodes  [][]*streamv1.Element
	pushed []string
}

func (c *streamCluster) Broadcast(_ time.Duration, _ bus.Topic, message bus.Message) ([]bus.Future, error) {
	req := message.Data().(*streamv1.QueryRequest)
	c.pushed = append(c.pushed, fmt.Sprintf("%d+%d", req.GetLimit(), req.GetOffset()))
	limit := int(req.GetLimit())
	if limit == 0 {
		limit = 20
	}
	desc := req.GetOrderBy() != nil && req.GetOrderBy().GetSort() == modelv1.Sort_SORT_DESC
	var ff []bus.Future
	for _, rows := range c.nodes {
		own := append([]*streamv1.Element{}, rows...)
		sort.SliceStable(own, func(i, j int) bool {
			if desc {
				return own[i].Timestamp.AsTime().After(own[j].Timestamp.AsTime())
			}
			return own[i].Timestamp.AsTime().Before(own[j].Timestamp.AsTime())
		})
		off := int(req.GetOffset())
		if off > len(own) {
			off = len(own)
		}
		own = own[off:]
		if limit < len(own) {
			own = own[:limit]
		}
		ff = append(ff, dqFuture{m: bus.NewMessage(1, &streamv1.QueryResponse{Elements: own})})
	}
	return ff, nil
}

func (c *streamCluster) TimeRange() *modelv1.TimeRange {
	return &modelv1.TimeRange{Begin: timestamppb.New(time.Unix(0, 0)), End: timestamppb.New(time.Unix(100000, 0))}
}
func (c *streamCluster) NodeSelectors() map[string][]string { return nil }

// dqs.<order> nodes rows limit offset seed      order = none | asc | desc ; limit 0 = unset
// Real stream DistributedAnalyze + Execute (distributedLimit over distributedPlan) against faithful data nodes.
// Element i (0-based) has timestamp i+1 and id e<i>; it lives on node (i*2654435761+seed) mod 7919 mod nodes.
func handleDqs(f []string) string {
	if len(f) != 6 {
		return "bad-op"
	}
	_, order, _ := strings.Cut(f[0], ".")
	nodes, rows, limit, offset, seed := atoi(f[1]), atoi(f[2]), atoi(f[3]), atoi(f[4]), atoi(f[5])
	sm := &databasev1.Stream{
		Metadata: &commonv1.Metadata{Name: "sw", Group: "default"},
		TagFamilies: []*databasev1.TagFamilySpec{{Name: "searchable",
			Tags: []*databasev1.TagSpec{{Name: "svc", Type: databasev1.TagType_TAG_TYPE_STRING}}}},
		Entity: &databasev1.Entity{TagNames: []string{"svc"}},
	}
	s, err := lstream.BuildSchema(sm, nil)
	if err != nil {
		return "SCHEMAERR " + err.Error()
	}
	cl := &streamCluster{nodes: make([][]*streamv1.Element, nodes)}
	for i := 0; i < rows; i++ {
		e := &streamv1.Element{ElementId: fmt.Sprintf("e%d", i), Timestamp: timestamppb.New(time.Unix(int64(i+1), 0))}
		n := int((uint64(i)*2654435761+uint64(seed))%7919) % nodes
		cl.nodes[n] = append(cl.nodes[n], e)
	}
	req := &streamv1.QueryRequest{Name: "sw", Groups: []string{"default"}, Projection: &modelv1.TagProjection{},
		Limit: uint32(limit), Offset: uint32(offset)}
	switch order {
	case "asc":
		req.OrderBy = &modelv1.QueryOrder{Sort: modelv1.Sort_SORT_ASC}
	case "desc":
		req.OrderBy = &modelv1.QueryOrder{Sort: modelv1.Sort_SORT_DESC}
	case "unspec":
		req.OrderBy = &modelv1.QueryOrder{} // order_by present, sort left unspecified: nodes answer ascending
	}
	plan, err := lstream.DistributedAnalyze(req, []logical.Schema{s})
	if err != nil {
		return "ANALYZEERR " + err.Error()
	}
	got, err := plan.(executor.StreamExecutable).Execute(executor.WithDistributedExecutionContext(context.Background(), cl))
	if err != nil {
		return "EXECERR " + err.Error()
	}
	var ids []string
	for _, e := range got {
		ids = append(ids, strings.TrimPrefix(e.ElementId, "e"))
	}
	return fmt.Sprintf("pushed=%s got=%s", strings.Join(cl.pushed, ","), ifEmpty(len(ids) == 0, "-")+strings.Join(ids, ","))
}

// measureCluster plays the data nodes of a measure query (no aggregation): ascending time unless the request
// says DESC (logical.ParseOrderBy returns nil for an unspecified sort), offset, limit (0 = server default 100).
type measureCluster struct {
	nodes  [][]*measurev1.InternalDataPoint
	pushed []string
}

func (c *measureCluster) Broadcast(_ time.Duration, _ bus.Topic, message bus.Message) ([]bus.Future, error) {
	var req *measurev1.QueryRequest
	switch v := message.Data().(type) {
	case *measurev1.InternalQueryRequest:
		req = v.GetRequest()
	case *measurev1.QueryRequest:
		req = v
	default:
		return nil, fmt.Errorf("unexpected query payload %T", v)
	}
	c.pushed = append(c.pushed, fmt.Sprintf("%d+%d", req.GetLimit(), req.GetOffset()))
	limit := int(req.GetLimit())
	if limit == 0 {
		limit = 100
	}
	desc := req.GetOrderBy() != nil && req.GetOrderBy().GetSort() == modelv1.Sort_SORT_DESC
	var ff []bus.Future
	for i, rows := range c.nodes {
		own := append([]*measurev1.InternalDataPoint{}, rows...)
		sort.SliceStable(own, func(a, b int) bool {
			ta, tb := own[a].DataPoint.Timestamp.AsTime(), own[b].DataPoint.Timestamp.AsTime()
			if desc {
				return ta.After(tb)
			}
			return ta.Before(tb)
		})
		off := int(req.GetOffset())
		if off > len(own) {
			off = len(own)
		}
		own = own[off:]
		if limit < len(own) {
			own = own[:limit]
		}
		ff = append(ff, dqFuture{m: bus.NewMessage(bus.MessageID(i), &measurev1.InternalQueryResponse{DataPoints: own})})
	}
	return ff, nil
}

func (c *measureCluster) TimeRange() *modelv1.TimeRange {
	return &modelv1.TimeRange{Begin: timestamppb.New(time.Unix(0, 0)), End: timestamppb.New(time.Unix(100000, 0))}
}
func (c *measureCluster) NodeSelectors() map[string][]string { return nil }

// dqm.<order> nodes rows limit offset seed      order = none | unspec | asc | desc ; limit 0 = unset
// Real measure DistributedAnalyze + Execute against faithful data nodes. Data point i (0-based) has timestamp
// i+1 s and series id = its node + 1 (one series per shard).
func handleDqm(f []string) string {
	if len(f) != 6 {
		return "bad-op"
	}
	_, order, _ := strings.Cut(f[0], ".")
	nodes, rows, limit, offset, seed := atoi(f[1]), atoi(f[2]), atoi(f[3]), atoi(f[4]), atoi(f[5])
	md := &databasev1.Measure{
		Metadata: &commonv1.Metadata{Name: "m", Group: "g"},
		Entity:   &databasev1.Entity{TagNames: []string{"id"}},
		TagFamilies: []*databasev1.TagFamilySpec{{Name: "default", Tags: []*databasev1.TagSpec{
			{Name: "id", Type: databasev1.TagType_TAG_TYPE_STRING}}}},
	}
	s, err := lmeasure.BuildSchema(md, nil)
	if err != nil {
		return "SCHEMAERR " + err.Error()
	}
	cl := &measureCluster{nodes: make([][]*measurev1.InternalDataPoint, nodes)}
	for i := 0; i < rows; i++ {
		n := int((uint64(i)*2654435761+uint64(seed))%7919) % nodes
		cl.nodes[n] = append(cl.nodes[n], &measurev1.InternalDataPoint{DataPoint: &measurev1.DataPoint{
			Sid: uint64(n + 1), Timestamp: &timestamppb.Timestamp{Seconds: int64(i + 1)}, Version: 1,
			TagFamilies: []*modelv1.TagFamily{{Name: "default", Tags: []*modelv1.Tag{
				{Key: "id", Value: &modelv1.TagValue{Value: &modelv1.TagValue_Str{Str: &modelv1.Str{Value: fmt.Sprintf("s%d", n)}}}}}}},
		}})
	}
	req := &measurev1.QueryRequest{Name: "m", Groups: []string{"g"},
		TagProjection: &modelv1.TagProjection{TagFamilies: []*modelv1.TagProjection_TagFamily{{Name: "default", Tags: []string{"id"}}}},
		Limit:         uint32(limit), Offset: uint32(offset)}
	switch order {
	case "asc":
		req.OrderBy = &modelv1.QueryOrder{Sort: modelv1.Sort_SORT_ASC}
	case "desc":
		req.OrderBy = &modelv1.QueryOrder{Sort: modelv1.Sort_SORT_DESC}
	case "unspec":
		req.OrderBy = &modelv1.QueryOrder{}
	}
	plan, err := lmeasure.DistributedAnalyze(req, []logical.Schema{s}, 0)
	if err != nil {
		return "ANALYZEERR " + err.Error()
	}
	mi, err := plan.(executor.MeasureExecutable).Execute(executor.WithDistributedExecutionContext(context.Background(), cl))
	if err != nil {
		return "EXECERR " + err.Error()
	}
	defer mi.Close()
	var ids []string
	for mi.Next() {
		for _, dp := range mi.Current() {
			ids = append(ids, fmt.Sprint(dp.GetDataPoint().GetTimestamp().GetSeconds()-1))
		}
	}
	return fmt.Sprintf("pushed=%s got=%s", strings.Join(cl.pushed, ","), ifEmpty(len(ids) == 0, "-")+strings.Join(ids, ","))
}
