//go:build verif

package main

import (
	"context"
	"errors"
	"fmt"
	"net"
	"strings"
	"time"

	"google.golang.org/grpc"
	"google.golang.org/grpc/credentials/insecure"
	"google.golang.org/grpc/test/bufconn"
	"google.golang.org/protobuf/proto"

	"github.com/apache/skywalking-banyandb/api/data"
	clusterv1 "github.com/apache/skywalking-banyandb/api/proto/banyandb/cluster/v1"
	"github.com/apache/skywalking-banyandb/banyand/queue"
	"github.com/apache/skywalking-banyandb/banyand/queue/pub"
	"github.com/apache/skywalking-banyandb/banyand/queue/sub"
	"github.com/apache/skywalking-banyandb/pkg/bus"
)

// faultStream injects one fault into the request stream as the server receives it (after the transport):
//
//	flipd  data bit q of data message i is flipped once (the sender's retry arrives intact)
//	flipc  checksum character q of data message i is altered once
//	dup    data message i is delivered twice in a row
//	abort  the i-th receive fails (connection reset)
type faultStream struct {
	grpc.ServerStream
	fault   string
	at, arg int
	seen    int
	replay  *clusterv1.SyncPartRequest
	done    bool
}

func (s *faultStream) RecvMsg(m any) error {
	req, isReq := m.(*clusterv1.SyncPartRequest)
	if isReq && s.replay != nil {
		proto.Reset(req)
		proto.Merge(req, s.replay)
		s.replay = nil
		return nil
	}
	if isReq && !s.done && s.fault == "abort" && s.seen == s.at {
		s.done = true
		return errors.New("verif: connection reset")
	}
	if err := s.ServerStream.RecvMsg(m); err != nil {
		return err
	}
	if !isReq || req.GetCompletion() != nil {
		return nil
	}
	idx := s.seen
	s.seen++
	if s.done || idx != s.at {
		return nil
	}
	s.done = true
	switch s.fault {
	case "flipd":
		req.ChunkData = flipBit(req.ChunkData, s.arg)
	case "flipc":
		req.ChunkChecksum = corruptChecksum(req.ChunkChecksum, s.arg)
	case "dup":
		s.replay = proto.Clone(req).(*clusterv1.SyncPartRequest)
	}
	return nil
}

// e2e.<fault> reorder maxBuf maxGap chunkSize k eager layout p q
// The real chunkedSyncClient.SyncStreamingParts talks to the real server.SyncPart over an in-process gRPC
// connection; the fault hits data message i = p mod n.
func handleE2E(f []string) string {
	if len(f) != 10 {
		return "bad-op"
	}
	_, fault, _ := strings.Cut(f[0], ".")
	reorder := f[1] == "1"
	maxBuf, maxGap, chunkSize, k := atoi(f[2]), atoi(f[3]), atoi(f[4]), atoi(f[5])
	eager := f[6] == "1"
	layout := parseLayout(f[7])
	p, q := atoi(f[8]), atoi(f[9])
	topic := data.TopicMeasurePartSync.String()

	total := 0
	for _, pt := range layout {
		for _, fl := range pt.files {
			total += fl.size
		}
	}
	n := (total + chunkSize - 1) / chunkSize
	at := -1
	if n > 0 && fault != "none" {
		at = p % n
	}

	h := &recHandler{}
	srv := sub.VerifC17NewServer(reorder, uint32(maxBuf), uint32(maxGap), map[bus.Topic]queue.ChunkedSyncHandler{data.TopicMeasurePartSync: h})
	lis := bufconn.Listen(1 << 20)
	fs := &faultStream{fault: fault, at: at, arg: q}
	gs := grpc.NewServer(grpc.StreamInterceptor(func(s any, ss grpc.ServerStream, _ *grpc.StreamServerInfo, handler grpc.StreamHandler) error {
		fs.ServerStream = ss
		return handler(s, fs)
	}))
	clusterv1.RegisterChunkedSyncServiceServer(gs, srv)
	go func() { _ = gs.Serve(lis) }()
	defer gs.Stop()

	conn, err := grpc.NewClient("passthrough:///bufnet",
		grpc.WithContextDialer(func(ctx context.Context, _ string) (net.Conn, error) { return lis.DialContext(ctx) }),
		grpc.WithTransportCredentials(insecure.NewCredentials()))
	if err != nil {
		return "DIALERR " + err.Error()
	}
	defer conn.Close()

	client := pub.VerifC17NewChunkedSyncClient(conn, uint32(chunkSize))
	ctx, cancel := context.WithTimeout(context.Background(), 20*time.Second)
	defer cancel()
	res, serr := client.SyncStreamingParts(ctx, streamingParts(layout, k, eager, topic))
	gs.Stop() // the handler goroutine has returned (or is cancelled) once Stop returns
	snd := "err"
	if serr == nil {
		snd = fmt.Sprintf("ok:%s:%d:%d", drv01(res.Success), len(res.FailedParts), res.ChunksCount)
	}
	lg := "-"
	if len(h.log) > 0 {
		lg = strings.Join(h.log, ",")
	}
	return fmt.Sprintf("n=%d snd=%s log=%s inst=%s leak=%d disc=%d", n, snd, lg, h.installedDigest(), len(h.open), h.discarded)
}
