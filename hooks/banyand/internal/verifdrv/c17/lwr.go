//go:build verif

package main

import (
	"context"
	"fmt"
	"io"
	"sort"
	"strings"
	"time"

	"google.golang.org/grpc"
	"google.golang.org/protobuf/types/known/timestamppb"

	"github.com/apache/skywalking-banyandb/api/common"
	commonv1 "github.com/apache/skywalking-banyandb/api/proto/banyandb/common/v1"
	databasev1 "github.com/apache/skywalking-banyandb/api/proto/banyandb/database/v1"
	measurev1 "github.com/apache/skywalking-banyandb/api/proto/banyandb/measure/v1"
	modelv1 "github.com/apache/skywalking-banyandb/api/proto/banyandb/model/v1"
	streamv1 "github.com/apache/skywalking-banyandb/api/proto/banyandb/stream/v1"
	tracev1 "github.com/apache/skywalking-banyandb/api/proto/banyandb/trace/v1"
	lgrpc "github.com/apache/skywalking-banyandb/banyand/liaison/grpc"
	"github.com/apache/skywalking-banyandb/banyand/queue"
	"github.com/apache/skywalking-banyandb/pkg/bus"
	"github.com/apache/skywalking-banyandb/pkg/partition"
)

const lwrGroup = "g"

// scriptedBidi is the server side of a client-streaming Write call: Recv replays the requests, Send records.
type scriptedBidi[Req any, Res any] struct {
	grpc.ServerStream
	reqs    []*Req
	replies []*Res
}

func (s *scriptedBidi[Req, Res]) Recv() (*Req, error) {
	if len(s.reqs) == 0 {
		return nil, io.EOF
	}
	r := s.reqs[0]
	s.reqs = s.reqs[1:]
	return r, nil
}

func (s *scriptedBidi[Req, Res]) Send(r *Res) error {
	s.replies = append(s.replies, r)
	return nil
}
func (s *scriptedBidi[Req, Res]) Context() context.Context { return context.Background() }

// modRegistry places shard s (replica r) of every resource on node (s+r) mod n.
type modRegistry struct{ n int }

func (m modRegistry) Locate(_, _ string, shardID, replicaID uint32) (string, error) {
	return fmt.Sprintf("n%d", (int(shardID)+int(replicaID))%m.n), nil
}

func (m modRegistry) LocateAll(_ string, shardID uint32, replicas int) ([]string, error) {
	var out []string
	for r := 0; r < replicas; r++ {
		out = append(out, fmt.Sprintf("n%d", (int(shardID)+r)%m.n))
	}
	return out, nil
}
func (m modRegistry) String() string { return "verif-mod-registry" }

// capture is the liaison's pipeline: it records, in publish order, what every node is sent.
type captured struct {
	node  string
	topic string
	data  any
}

type capturePublisher struct{ msgs []captured }

func (p *capturePublisher) Publish(_ context.Context, topic bus.Topic, messages ...bus.Message) (bus.Future, error) {
	for _, m := range messages {
		p.msgs = append(p.msgs, captured{node: m.Node(), topic: topic.String(), data: m.Data()})
	}
	return nil, nil
}

func (p *capturePublisher) Close() (map[string]*common.Error, error) { return nil, nil }

type captureClient struct {
	queue.Client
	pub *capturePublisher
}

func (c *captureClient) NewBatchPublisher(_ time.Duration) queue.BatchPublisher { return c.pub }

func lwrTagFamilies() []*databasev1.TagFamilySpec {
	return []*databasev1.TagFamilySpec{{Name: "default", Tags: []*databasev1.TagSpec{
		{Name: "svc", Type: databasev1.TagType_TAG_TYPE_STRING},
		{Name: "code", Type: databasev1.TagType_TAG_TYPE_INT},
	}}}
}

func lwrFamiliesForWrite(key string, i int) []*modelv1.TagFamilyForWrite {
	return []*modelv1.TagFamilyForWrite{{Tags: []*modelv1.TagValue{
		{Value: &modelv1.TagValue_Str{Str: &modelv1.Str{Value: key}}},
		{Value: &modelv1.TagValue_Int{Int: &modelv1.Int{Value: int64(i)}}},
	}}}
}

type lwrReq struct {
	res  int    // addressed resource
	meta bool   // the request carries metadata
	key  string // trace id / entity value
}

// lwr.<engine> nodes shards script      engine = trc | str | msr
// script: requests joined by ',': <resource index><M|-><key index>, e.g. 0M1,0-2,1M1,1-3 ("-": no metadata, i.e.
// the same resource as the previous request, as the Write API allows).
// The real liaison Write handler is driven with an in-memory stream; the output lists, per request, the node
// and shard it was published to, the shard/node a direct call of the partition function gives, whether the
// forwarded request carries metadata (and which), and the reply.
func handleLwr(f []string) string {
	if len(f) != 4 {
		return "bad-op"
	}
	_, engine, _ := strings.Cut(f[0], ".")
	nodes, shards := atoi(f[1]), atoi(f[2])
	var reqs []lwrReq
	for _, tok := range strings.Split(f[3], ",") {
		if len(tok) < 3 {
			return "bad-op"
		}
		reqs = append(reqs, lwrReq{res: int(tok[0] - '0'), meta: tok[1] == 'M', key: "k" + tok[2:]})
	}
	names := []string{"res0", "res1", "res2"}
	md := func(r int) *commonv1.Metadata { return &commonv1.Metadata{Group: lwrGroup, Name: names[r]} }
	var traces []*databasev1.Trace
	var streams []*databasev1.Stream
	var measures []*databasev1.Measure
	for r := range names {
		traces = append(traces, &databasev1.Trace{
			Metadata: md(r),
			Tags: []*databasev1.TraceTagSpec{
				{Name: "trace_id", Type: databasev1.TagType_TAG_TYPE_STRING},
				{Name: "span_id", Type: databasev1.TagType_TAG_TYPE_STRING},
				{Name: "ts", Type: databasev1.TagType_TAG_TYPE_TIMESTAMP},
			},
			TraceIdTagName: "trace_id", SpanIdTagName: "span_id", TimestampTagName: "ts",
		})
		streams = append(streams, &databasev1.Stream{Metadata: md(r), TagFamilies: lwrTagFamilies(), Entity: &databasev1.Entity{TagNames: []string{"svc"}}})
		measures = append(measures, &databasev1.Measure{
			Metadata: md(r), TagFamilies: lwrTagFamilies(), Entity: &databasev1.Entity{TagNames: []string{"svc"}},
			Fields: []*databasev1.FieldSpec{{Name: "v", FieldType: databasev1.FieldType_FIELD_TYPE_INT,
				EncodingMethod: databasev1.EncodingMethod_ENCODING_METHOD_GORILLA, CompressionMethod: databasev1.CompressionMethod_COMPRESSION_METHOD_ZSTD}},
		})
	}
	pub := &capturePublisher{}
	reg := modRegistry{n: nodes}
	lia := lgrpc.NewVerifC17WriteLiaison(lwrGroup, uint32(shards), reg, &captureClient{pub: pub}, traces, streams, measures)
	now := timestamppb.New(time.Unix(1700000000, 0))

	type reply struct {
		name, status string
		id           uint64
	}
	var replies []reply
	expShard := make([]uint32, len(reqs))
	var werr error
	switch engine {
	case "trc":
		st := &scriptedBidi[tracev1.WriteRequest, tracev1.WriteResponse]{}
		for i, r := range reqs {
			wr := &tracev1.WriteRequest{Version: uint64(i + 1), Span: []byte(fmt.Sprintf("span-%d", i)), Tags: []*modelv1.TagValue{
				{Value: &modelv1.TagValue_Str{Str: &modelv1.Str{Value: r.key}}},
				{Value: &modelv1.TagValue_Str{Str: &modelv1.Str{Value: fmt.Sprintf("s%d", i)}}},
				{Value: &modelv1.TagValue_Timestamp{Timestamp: now}},
			}}
			if r.meta {
				wr.Metadata = md(r.res)
			}
			st.reqs = append(st.reqs, wr)
			expShard[i] = uint32(partition.TraceShardID(r.key, uint32(shards)))
		}
		werr = lia.TraceWrite(st)
		for _, rp := range st.replies {
			replies = append(replies, reply{rp.GetMetadata().GetName(), rp.Status, rp.Version})
		}
	case "str":
		st := &scriptedBidi[streamv1.WriteRequest, streamv1.WriteResponse]{}
		for i, r := range reqs {
			wr := &streamv1.WriteRequest{MessageId: uint64(i + 1), Element: &streamv1.ElementValue{
				ElementId: fmt.Sprintf("e%d", i), Timestamp: now, TagFamilies: lwrFamiliesForWrite(r.key, i)}}
			if r.meta {
				wr.Metadata = md(r.res)
			}
			st.reqs = append(st.reqs, wr)
			_, sh, err := partition.NewEntityLocator(lwrTagFamilies(), &databasev1.Entity{TagNames: []string{"svc"}}, 0).
				Locate(names[r.res], lwrFamiliesForWrite(r.key, i), uint32(shards))
			if err != nil {
				return "LOCERR " + err.Error()
			}
			expShard[i] = uint32(sh)
		}
		werr = lia.StreamWrite(st)
		for _, rp := range st.replies {
			replies = append(replies, reply{rp.GetMetadata().GetName(), rp.Status, rp.MessageId})
		}
	case "msr":
		st := &scriptedBidi[measurev1.WriteRequest, measurev1.WriteResponse]{}
		for i, r := range reqs {
			wr := &measurev1.WriteRequest{MessageId: uint64(i + 1), DataPoint: &measurev1.DataPointValue{
				Timestamp: now, Version: int64(i + 1), TagFamilies: lwrFamiliesForWrite(r.key, i),
				Fields: []*modelv1.FieldValue{{Value: &modelv1.FieldValue_Int{Int: &modelv1.Int{Value: int64(i)}}}}}}
			if r.meta {
				wr.Metadata = md(r.res)
			}
			st.reqs = append(st.reqs, wr)
			_, sh, err := partition.NewEntityLocator(lwrTagFamilies(), &databasev1.Entity{TagNames: []string{"svc"}}, 0).
				Locate(names[r.res], lwrFamiliesForWrite(r.key, i), uint32(shards))
			if err != nil {
				return "LOCERR " + err.Error()
			}
			expShard[i] = uint32(sh)
		}
		werr = lia.MeasureWrite(st)
		for _, rp := range st.replies {
			replies = append(replies, reply{rp.GetMetadata().GetName(), rp.Status, rp.MessageId})
		}
	default:
		return "bad-op"
	}

	// what each node was sent, in publish order: request number, shard, forwarded metadata
	var sent []string
	for _, c := range pub.msgs {
		var id uint64
		var shard uint32
		var m *commonv1.Metadata
		switch v := c.data.(type) {
		case *tracev1.InternalWriteRequest:
			id, shard, m = v.GetRequest().GetVersion(), v.GetShardId(), v.GetRequest().GetMetadata()
		case *streamv1.InternalWriteRequest:
			id, shard, m = v.GetRequest().GetMessageId(), v.GetShardId(), v.GetRequest().GetMetadata()
		case *measurev1.InternalWriteRequest:
			id, shard, m = v.GetRequest().GetMessageId(), v.GetShardId(), v.GetRequest().GetMetadata()
		default:
			sent = append(sent, "?")
			continue
		}
		name := "-"
		if m != nil {
			name = m.GetName()
		}
		exp := uint32(0)
		if id >= 1 && int(id) <= len(expShard) {
			exp = expShard[id-1]
		}
		expNode, _ := reg.Locate("", "", exp, 0)
		sent = append(sent, fmt.Sprintf("%d:%s:%d:%s:%d:%s", id, c.node, shard, expNode, exp, name))
	}
	var rs []string
	sort.SliceStable(replies, func(a, b int) bool { return replies[a].id < replies[b].id })
	for _, r := range replies {
		rs = append(rs, fmt.Sprintf("%d:%s:%s", r.id, r.name, strings.TrimPrefix(r.status, "STATUS_")))
	}
	ret := "ok"
	if werr != nil {
		ret = "err"
	}
	return fmt.Sprintf("ret=%s sent=%s replies=%s", ret, ifEmpty(len(sent) == 0, "-")+strings.Join(sent, ","), ifEmpty(len(rs) == 0, "-")+strings.Join(rs, ","))
}
