//go:build verif

// Driver for C17: the chunked part transfer between nodes.
//
//	rec.*  real pub.streamPartsAsChunks (sender chunking) -> scripted delivery with faults ->
//	       real sub.(*server).SyncPart (receiver session machine) with a recording handler.
//	msr.*  same with the real measure ChunkedSyncHandler on a temp shard (see real.go).
//	e2e.*  real SyncStreamingParts <-> real SyncPart over an in-process gRPC pipe (see e2e.go).
//
// Injected with `go build -tags verif -overlay`; not part of /repo.
package main

import (
	"context"
	"errors"
	"fmt"
	"hash/crc32"
	"io"
	"os"
	"sort"
	"strconv"
	"strings"

	"google.golang.org/grpc"
	"google.golang.org/protobuf/proto"

	"github.com/apache/skywalking-banyandb/api/data"
	clusterv1 "github.com/apache/skywalking-banyandb/api/proto/banyandb/cluster/v1"
	"github.com/apache/skywalking-banyandb/banyand/internal/verifdrv/drv"
	"github.com/apache/skywalking-banyandb/banyand/queue"
	"github.com/apache/skywalking-banyandb/banyand/queue/pub"
	"github.com/apache/skywalking-banyandb/banyand/queue/sub"
	"github.com/apache/skywalking-banyandb/pkg/bus"
	"github.com/apache/skywalking-banyandb/pkg/logger"
)

// ---------------------------------------------------------------------------------------------
// deterministic content and readers

// genContent is the byte content of a file with the given seed (same LCG in checks/C17.py and the Lean driver).
func genContent(seed uint64, size int) []byte {
	x := (seed*2654435761 + 12345) % 2147483648
	out := make([]byte, size)
	for i := range out {
		x = (x*1103515245 + 12345) % 2147483648
		out[i] = byte((x >> 16) & 0xff)
	}
	return out
}

// policyReader is an fs.SeqReader over a byte slice with a configurable (legal) io.Reader behaviour:
// at most k bytes per call (k=0: unlimited); io.EOF either together with a short final read (eager, like
// pkg/bytes.Buffer) or only on the next call (like bufio/os.File).
type policyReader struct {
	data   []byte
	off    int
	k      int
	eager  bool
	failAt int // >0: the read that would pass this offset fails with an I/O error instead
}

func (r *policyReader) Read(p []byte) (int, error) {
	if r.failAt > 0 && r.off >= r.failAt {
		return 0, errors.New("verif: injected read error")
	}
	rem := len(r.data) - r.off
	if r.failAt > 0 && rem > r.failAt-r.off {
		rem = r.failAt - r.off
		n := len(p)
		if rem < n {
			n = rem
		}
		if r.k > 0 && r.k < n {
			n = r.k
		}
		copy(p, r.data[r.off:r.off+n])
		r.off += n
		return n, nil
	}
	n := len(p)
	if rem < n {
		n = rem
	}
	if r.k > 0 && r.k < n {
		n = r.k
	}
	copy(p, r.data[r.off:r.off+n])
	r.off += n
	if n == rem {
		if r.eager && n < len(p) {
			return n, io.EOF
		}
		if n == 0 {
			return 0, io.EOF
		}
	}
	return n, nil
}
func (r *policyReader) Path() string { return "" }
func (r *policyReader) Close() error { return nil }

// ---------------------------------------------------------------------------------------------
// layout

type fileSpec struct {
	name string
	size int
	seed uint64
}

type partSpec struct {
	id    uint64
	ptype string
	files []fileSpec
}

// parseLayout: parts joined by '/', each "id.ptype:name=size=seed,name=size=seed" (files may be absent).
func parseLayout(s string) []partSpec {
	var out []partSpec
	if s == "-" {
		return out
	}
	for _, ps := range strings.Split(s, "/") {
		hd, rest, _ := strings.Cut(ps, ":")
		ids, pt, _ := strings.Cut(hd, ".")
		id, err := strconv.ParseUint(ids, 10, 64)
		if err != nil {
			panic("bad layout " + s)
		}
		p := partSpec{id: id, ptype: pt}
		if rest != "" {
			for _, fsr := range strings.Split(rest, ",") {
				f := strings.Split(fsr, "=")
				sz, _ := strconv.Atoi(f[1])
				sd, _ := strconv.ParseUint(f[2], 10, 64)
				p.files = append(p.files, fileSpec{name: f[0], size: sz, seed: sd})
			}
		}
		out = append(out, p)
	}
	return out
}

const (
	c17Group   = "verif-c17"
	c17MinTS   = int64(1700000000000000000)
	c17Session = "sync-c17"
)

func streamingParts(layout []partSpec, k int, eager bool, topic string) []queue.StreamingPartData {
	var parts []queue.StreamingPartData
	for _, p := range layout {
		sp := queue.StreamingPartData{
			ID: p.id, Group: c17Group, ShardID: 0, Topic: topic, PartType: p.ptype,
			MinTimestamp: c17MinTS, MaxTimestamp: c17MinTS + 1000, TotalCount: 1, BlocksCount: 1,
		}
		for _, f := range p.files {
			sp.Files = append(sp.Files, queue.FileInfo{Name: f.name, Reader: &policyReader{data: genContent(f.seed, f.size), k: k, eager: eager}})
		}
		parts = append(parts, sp)
	}
	return parts
}

// ---------------------------------------------------------------------------------------------
// fake streams

// refClient is the client side of the stream used to obtain the sender's reference chunking: every chunk is
// acknowledged with CHUNK_RECEIVED, every request is recorded (deep copy: the sender reuses its buffer).
type refClient struct {
	grpc.ClientStream
	reqs    []*clusterv1.SyncPartRequest
	pending []*clusterv1.SyncPartResponse
}

func (c *refClient) Send(r *clusterv1.SyncPartRequest) error {
	c.reqs = append(c.reqs, proto.Clone(r).(*clusterv1.SyncPartRequest))
	if r.GetCompletion() == nil {
		c.pending = append(c.pending, &clusterv1.SyncPartResponse{SessionId: r.SessionId, ChunkIndex: r.ChunkIndex, Status: clusterv1.SyncStatus_SYNC_STATUS_CHUNK_RECEIVED})
	}
	return nil
}

func (c *refClient) Recv() (*clusterv1.SyncPartResponse, error) {
	if len(c.pending) == 0 {
		return nil, io.EOF
	}
	r := c.pending[0]
	c.pending = c.pending[1:]
	return r, nil
}
func (c *refClient) CloseSend() error         { return nil }
func (c *refClient) Context() context.Context { return context.Background() }

// scriptServer is the server side of the stream: Recv yields the scripted requests then io.EOF.
type scriptServer struct {
	grpc.ServerStream
	in    []*clusterv1.SyncPartRequest
	resps []*clusterv1.SyncPartResponse
}

func (s *scriptServer) Recv() (*clusterv1.SyncPartRequest, error) {
	if len(s.in) == 0 {
		return nil, io.EOF
	}
	r := s.in[0]
	s.in = s.in[1:]
	return r, nil
}

func (s *scriptServer) Send(r *clusterv1.SyncPartResponse) error {
	s.resps = append(s.resps, r)
	return nil
}
func (s *scriptServer) Context() context.Context { return context.Background() }

// ---------------------------------------------------------------------------------------------
// recording handler

type recFile struct {
	ptype string
	name  string
	data  []byte
}

type recPart struct {
	h        *recHandler
	id       uint64
	files    []*recFile
	finished bool
	closed   bool
}

type recHandler struct {
	log       []string
	installed []*recPart
	open      []*recPart
	discarded int
}

func (h *recHandler) CreatePartHandler(ctx *queue.ChunkedSyncPartContext) (queue.PartHandler, error) {
	h.log = append(h.log, fmt.Sprintf("N%d.%s", ctx.ID, ctx.PartType))
	p := &recPart{h: h, id: ctx.ID}
	h.open = append(h.open, p)
	return p, nil
}

func (h *recHandler) HandleFileChunk(ctx *queue.ChunkedSyncPartContext, chunk []byte) error {
	if ctx.Handler == nil {
		return fmt.Errorf("part handler is nil")
	}
	p := ctx.Handler.(*recPart)
	h.log = append(h.log, fmt.Sprintf("W%s/%s:%d", ctx.PartType, ctx.FileName, len(chunk)))
	if p.finished || p.closed {
		h.log = append(h.log, "!write-after-end")
	}
	for _, f := range p.files {
		if f.ptype == ctx.PartType && f.name == ctx.FileName {
			f.data = append(f.data, chunk...)
			return nil
		}
	}
	p.files = append(p.files, &recFile{ptype: ctx.PartType, name: ctx.FileName, data: append([]byte(nil), chunk...)})
	return nil
}

func (p *recPart) NewPartType(ctx *queue.ChunkedSyncPartContext) error {
	p.h.log = append(p.h.log, "T"+ctx.PartType)
	return nil
}

func (p *recPart) remove() {
	for i, q := range p.h.open {
		if q == p {
			p.h.open = append(p.h.open[:i], p.h.open[i+1:]...)
			return
		}
	}
}

// FinishSync installs the part (what tsTable.mustAddFilePart does in the engines).
func (p *recPart) FinishSync() error {
	p.h.log = append(p.h.log, "F")
	if !p.finished && !p.closed {
		p.finished = true
		p.remove()
		p.h.installed = append(p.h.installed, p)
	}
	return nil
}

// Close discards a part that was not finished (what MustRMAll(partPath) does in the engines).
func (p *recPart) Close() error {
	p.h.log = append(p.h.log, "X")
	if !p.finished && !p.closed {
		p.closed = true
		p.remove()
		p.h.discarded++
	}
	return nil
}

func digestPart(id uint64, files []*recFile) string {
	var sb strings.Builder
	fmt.Fprintf(&sb, "%d[", id)
	for i, f := range files {
		if i > 0 {
			sb.WriteByte(' ')
		}
		fmt.Fprintf(&sb, "%s/%s:%d:%08x", f.ptype, f.name, len(f.data), crc32.ChecksumIEEE(f.data))
	}
	sb.WriteByte(']')
	return sb.String()
}

func (h *recHandler) installedDigest() string {
	if len(h.installed) == 0 {
		return "-"
	}
	var out []string
	for _, p := range h.installed {
		out = append(out, digestPart(p.id, p.files))
	}
	return strings.Join(out, ";")
}

// ---------------------------------------------------------------------------------------------
// reference chunking + scripted delivery

func referenceChunks(parts []queue.StreamingPartData, chunkSize uint32, topic string) (chunks []*clusterv1.SyncPartRequest, completion *clusterv1.SyncPartRequest, err error) {
	md := &clusterv1.SyncMetadata{Group: c17Group, ShardId: 0, Topic: topic, Timestamp: 1, TotalParts: uint32(len(parts))}
	rc := &refClient{}
	_, failed, _, serr := pub.VerifC17StreamPartsAsChunks(rc, c17Session, md, parts, chunkSize)
	if serr != nil || len(failed) > 0 {
		return nil, nil, fmt.Errorf("sender failed: %v %v", serr, failed)
	}
	for _, r := range rc.reqs {
		if r.GetCompletion() != nil {
			completion = r
		} else {
			chunks = append(chunks, r)
		}
	}
	return chunks, completion, nil
}

func flipBit(b []byte, bit int) []byte {
	out := append([]byte(nil), b...)
	if len(out) == 0 {
		return out
	}
	bit %= len(out) * 8
	out[bit/8] ^= 1 << (uint(bit) % 8)
	return out
}

// corruptChecksum flips the lowest bit of one character of the checksum string.
func corruptChecksum(s string, pos int) string {
	if s == "" {
		return "1"
	}
	b := []byte(s)
	pos %= len(b)
	b[pos] ^= 1
	return string(b)
}

// buildScript turns "0,1,2d17,2,C" into the delivered request sequence.
//
//	<i>       sender chunk i unchanged
//	<i>d<b>   chunk i with data bit b (mod 8*len) flipped, checksum unchanged
//	<i>c<p>   chunk i with checksum character p (mod len) altered, data unchanged
//	<i>v      chunk i claiming an unsupported API version
//	C         the sender's completion message
func buildScript(script string, chunks []*clusterv1.SyncPartRequest, completion *clusterv1.SyncPartRequest) []*clusterv1.SyncPartRequest {
	var out []*clusterv1.SyncPartRequest
	if script == "-" || script == "" {
		return out
	}
	for _, tok := range strings.Split(script, ",") {
		if tok == "C" {
			if completion != nil {
				out = append(out, proto.Clone(completion).(*clusterv1.SyncPartRequest))
			}
			continue
		}
		j := 0
		for j < len(tok) && tok[j] >= '0' && tok[j] <= '9' {
			j++
		}
		i, err := strconv.Atoi(tok[:j])
		if err != nil || i >= len(chunks) {
			panic("bad script token " + tok)
		}
		r := proto.Clone(chunks[i]).(*clusterv1.SyncPartRequest)
		if j < len(tok) {
			arg := 0
			if j+1 < len(tok) {
				arg, _ = strconv.Atoi(tok[j+1:])
			}
			switch tok[j] {
			case 'd':
				r.ChunkData = flipBit(r.ChunkData, arg)
			case 'c':
				r.ChunkChecksum = corruptChecksum(r.ChunkChecksum, arg)
			case 'v':
				r.VersionInfo.ApiVersion = "0.0-verif"
			default:
				panic("bad script token " + tok)
			}
		}
		out = append(out, r)
	}
	return out
}

func ackString(resps []*clusterv1.SyncPartResponse) string {
	if len(resps) == 0 {
		return "-"
	}
	var sb strings.Builder
	for _, r := range resps {
		sb.WriteString(strconv.Itoa(int(r.Status)))
	}
	return sb.String()
}

func resultString(resps []*clusterv1.SyncPartResponse) string {
	for _, r := range resps {
		if sr := r.GetSyncResult(); sr != nil {
			return fmt.Sprintf("%s:%d:%d:%d", drv.B01(sr.Success), sr.TotalBytesReceived, sr.ChunksReceived, sr.PartsReceived)
		}
	}
	return "-"
}

func atoi(s string) int {
	v, err := strconv.Atoi(s)
	if err != nil {
		panic("bad int " + s)
	}
	return v
}

// rec.<kind> reorder maxBuf maxGap chunkSize k eager layout script
func handleRec(f []string) string {
	if len(f) != 9 {
		return "bad-op"
	}
	reorder := f[1] == "1"
	maxBuf, maxGap, chunkSize, k := atoi(f[2]), atoi(f[3]), atoi(f[4]), atoi(f[5])
	eager := f[6] == "1"
	layout := parseLayout(f[7])
	topic := data.TopicMeasurePartSync.String()
	chunks, completion, err := referenceChunks(streamingParts(layout, k, eager, topic), uint32(chunkSize), topic)
	if err != nil {
		return "SENDERR " + err.Error()
	}
	h := &recHandler{}
	srv := sub.VerifC17NewServer(reorder, uint32(maxBuf), uint32(maxGap), map[bus.Topic]queue.ChunkedSyncHandler{data.TopicMeasurePartSync: h})
	st := &scriptServer{in: buildScript(f[8], chunks, completion)}
	ret := "ok"
	if rerr := srv.SyncPart(st); rerr != nil {
		ret = "err"
	}
	lg := "-"
	if len(h.log) > 0 {
		lg = strings.Join(h.log, ",")
	}
	return fmt.Sprintf("n=%d acks=%s ret=%s res=%s log=%s inst=%s leak=%d disc=%d", len(chunks), ackString(st.resps), ret,
		resultString(st.resps), lg, h.installedDigest(), len(h.open), h.discarded)
}

// chunks.<kind> chunkSize k eager layout : the sender's reference chunking itself
// (index, checksum, data crc, parts info), one token per chunk.
func handleChunks(f []string) string {
	if len(f) != 5 {
		return "bad-op"
	}
	chunkSize, k := atoi(f[1]), atoi(f[2])
	eager := f[3] == "1"
	topic := data.TopicMeasurePartSync.String()
	chunks, completion, err := referenceChunks(streamingParts(parseLayout(f[4]), k, eager, topic), uint32(chunkSize), topic)
	if err != nil {
		return "SENDERR " + err.Error()
	}
	var out []string
	for _, c := range chunks {
		var ps []string
		for _, p := range c.PartsInfo {
			var fsx []string
			for _, fi := range p.Files {
				fsx = append(fsx, fmt.Sprintf("%s@%d+%d", fi.Name, fi.Offset, fi.Size))
			}
			ps = append(ps, fmt.Sprintf("%d.%s(%s)", p.Id, p.PartType, strings.Join(fsx, ",")))
		}
		out = append(out, fmt.Sprintf("%d:%s:%d:%s:%s", c.ChunkIndex, c.ChunkChecksum, len(c.ChunkData), drv.B01(c.GetMetadata() != nil), strings.Join(ps, "|")))
	}
	comp := "-"
	if completion != nil {
		cc := completion.GetCompletion()
		comp = fmt.Sprintf("%d:%d:%d", cc.TotalBytesSent, cc.TotalPartsSent, cc.TotalChunks)
	}
	if len(out) == 0 {
		out = []string{"-"}
	}
	return fmt.Sprintf("n=%d comp=%s %s", len(chunks), comp, strings.Join(out, " "))
}

// rde.<kind> reorder chunkSize k eager layout failPart failFile failAt
// A file reader of the sender fails after failAt bytes; whatever the sender still sends is delivered in order.
func handleRde(f []string) string {
	if len(f) != 9 {
		return "bad-op"
	}
	reorder := f[1] == "1"
	chunkSize, k := atoi(f[2]), atoi(f[3])
	eager := f[4] == "1"
	layout := parseLayout(f[5])
	fp, ff, fa := atoi(f[6]), atoi(f[7]), atoi(f[8])
	topic := data.TopicMeasurePartSync.String()
	parts := streamingParts(layout, k, eager, topic)
	if fp < len(parts) && ff < len(parts[fp].Files) {
		parts[fp].Files[ff].Reader.(*policyReader).failAt = fa
	}
	md := &clusterv1.SyncMetadata{Group: c17Group, ShardId: 0, Topic: topic, Timestamp: 1, TotalParts: uint32(len(parts))}
	rc := &refClient{}
	_, failed, _, serr := pub.VerifC17StreamPartsAsChunks(rc, c17Session, md, parts, uint32(chunkSize))
	var fl []string
	for _, x := range failed {
		fl = append(fl, x.PartID)
	}
	h := &recHandler{}
	srv := sub.VerifC17NewServer(reorder, 10, 5, map[bus.Topic]queue.ChunkedSyncHandler{data.TopicMeasurePartSync: h})
	st := &scriptServer{in: rc.reqs}
	ret := "ok"
	if rerr := srv.SyncPart(st); rerr != nil {
		ret = "err"
	}
	sn := "ok"
	if serr != nil {
		sn = "err"
	}
	return fmt.Sprintf("snd=%s failed=%s acks=%s ret=%s inst=%s leak=%d disc=%d", sn, ifEmpty(len(fl) == 0, "-")+strings.Join(fl, ","),
		ackString(st.resps), ret, h.installedDigest(), len(h.open), h.discarded)
}

func handle(f []string) string {
	if len(f) == 0 {
		return "bad-op"
	}
	mode, _, _ := strings.Cut(f[0], ".")
	switch mode {
	case "rec":
		return handleRec(f)
	case "chunks":
		return handleChunks(f)
	case "rde":
		return handleRde(f)
	case "msr", "str", "trc", "trh":
		return handleReal(mode, f)
	case "e2e":
		return handleE2E(f)
	case "snd":
		return handleSnd(f)
	case "syn":
		return handleSyn(f)
	case "lwr":
		return handleLwr(f)
	case "dqs":
		return handleDqs(f)
	case "dqm":
		return handleDqm(f)
	}
	return "bad-op"
}

var _ = sort.Strings

func main() {
	_ = logger.Init(logger.Logging{Env: "prod", Level: "fatal"})
	sweepStaleScratch()
	defer cleanupScratch()
	drv.Run(handle)
	_ = os.Stdout.Sync()
}
