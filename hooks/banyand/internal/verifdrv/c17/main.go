//go:build verif

package main

import (
	"fmt"

	_ "github.com/apache/skywalking-banyandb/banyand/measure"
	_ "github.com/apache/skywalking-banyandb/banyand/queue/pub"
	_ "github.com/apache/skywalking-banyandb/banyand/queue/sub"
	_ "github.com/apache/skywalking-banyandb/banyand/stream"
	_ "github.com/apache/skywalking-banyandb/banyand/trace"
)

func main() { fmt.Println("skeleton") }
