//go:build verif

package main

import (
	"fmt"
	"hash/crc32"
	"os"
	"path/filepath"
	"sort"
	"strconv"
	"strings"

	"github.com/apache/skywalking-banyandb/api/data"
	"github.com/apache/skywalking-banyandb/banyand/measure"
	"github.com/apache/skywalking-banyandb/banyand/queue"
	"github.com/apache/skywalking-banyandb/banyand/queue/sub"
	"github.com/apache/skywalking-banyandb/banyand/stream"
	"github.com/apache/skywalking-banyandb/banyand/trace"
	"github.com/apache/skywalking-banyandb/pkg/bus"
)

var (
	scratchRoot string
	caseSeq     int
)

func scratchDir() string {
	if scratchRoot == "" {
		scratchRoot = filepath.Join("/verif/.scratch", fmt.Sprintf("c17-%d", os.Getpid()))
	}
	caseSeq++
	d := filepath.Join(scratchRoot, strconv.Itoa(caseSeq))
	if err := os.MkdirAll(d, 0o755); err != nil {
		panic(err)
	}
	return d
}

func cleanupScratch() {
	if scratchRoot != "" {
		_ = os.RemoveAll(scratchRoot)
	}
}

// sweepStaleScratch removes scratch directories left behind by c17 driver processes that no longer exist
// (a driver that was killed cannot run its deferred cleanup).
func sweepStaleScratch() {
	ents, err := os.ReadDir("/verif/.scratch")
	if err != nil {
		return
	}
	for _, e := range ents {
		pid, ok := strings.CutPrefix(e.Name(), "c17-")
		if !ok {
			continue
		}
		if _, perr := os.Stat("/proc/" + pid); os.IsNotExist(perr) {
			_ = os.RemoveAll(filepath.Join("/verif/.scratch", e.Name()))
		}
	}
}

// faultScript expands a relative fault description into a delivery script over n chunks
// (same grammar as buildScript).
func faultScript(fault string, n, p, q int) string {
	if n == 0 {
		return "-"
	}
	seq := make([]string, n)
	for i := range seq {
		seq[i] = strconv.Itoa(i)
	}
	i := p % n
	ins := func(s []string, at int, v string) []string {
		out := append([]string{}, s[:at]...)
		out = append(out, v)
		return append(out, s[at:]...)
	}
	switch fault {
	case "none":
	case "flipd":
		seq[i] = fmt.Sprintf("%dd%d", i, q)
	case "flipdr":
		seq = ins(seq, i, fmt.Sprintf("%dd%d", i, q))
	case "flipc":
		seq[i] = fmt.Sprintf("%dc%d", i, q)
	case "flipcr":
		seq = ins(seq, i, fmt.Sprintf("%dc%d", i, q))
	case "drop":
		seq = append(seq[:i:i], seq[i+1:]...)
	case "dup": // the copy of chunk i arrives after chunk j = i + q mod (n-i)
		j := i + q%(n-i)
		seq = ins(seq, j+1, strconv.Itoa(i))
	case "swap": // chunk i is overtaken by the next d = 1 + q mod (n-1-i) chunks
		if n >= 2 {
			i = p % (n - 1)
			d := 1 + q%(n-1-i)
			moved := seq[i]
			rest := append(append([]string{}, seq[:i]...), seq[i+1:i+1+d]...)
			rest = append(rest, moved)
			seq = append(rest, seq[i+1+d:]...)
		}
	case "end": // the stream ends after m = p mod (n+1) chunks, no completion
		return strings.Join(seq[:p%(n+1)], ",") + ifEmpty(p%(n+1) == 0, "-")
	case "ver":
		seq[i] = fmt.Sprintf("%dv", i)
	default:
		panic("bad fault " + fault)
	}
	return strings.Join(append(seq, "C"), ",")
}

func ifEmpty(c bool, s string) string {
	if c {
		return s
	}
	return ""
}

// dirDigest maps every regular file below dir (relative path) to "size:crc32".
func dirDigest(dir string) map[string]string {
	out := map[string]string{}
	_ = filepath.Walk(dir, func(p string, info os.FileInfo, err error) error {
		if err != nil || info.IsDir() {
			return nil
		}
		b, rerr := os.ReadFile(p)
		if rerr != nil {
			return nil
		}
		rel, _ := filepath.Rel(dir, p)
		out[rel] = fmt.Sprintf("%d:%08x", len(b), crc32.ChecksumIEEE(b))
		return nil
	})
	return out
}

func isPartDirName(n string) bool {
	if len(n) != 16 {
		return false
	}
	for _, c := range n {
		if !(c >= '0' && c <= '9' || c >= 'a' && c <= 'f') {
			return false
		}
	}
	return true
}

// partDirs finds every part directory (16 hex digits) below a shard directory of the node.
func partDirs(root string) []string {
	var out []string
	_ = filepath.Walk(root, func(p string, info os.FileInfo, err error) error {
		if err != nil || !info.IsDir() {
			return nil
		}
		if isPartDirName(info.Name()) && strings.HasPrefix(filepath.Base(filepath.Dir(p)), "shard-") {
			out = append(out, p)
			return filepath.SkipDir
		}
		return nil
	})
	sort.Strings(out)
	return out
}

func sameDigest(a, b map[string]string) bool {
	if len(a) != len(b) {
		return false
	}
	for k, v := range a {
		if b[k] != v {
			return false
		}
	}
	return true
}

type realNode interface {
	Handler() queue.ChunkedSyncHandler
	Root() string
	Close() error
	Snapshot() (int, uint64)
}

type realPart interface {
	StreamingPart(group, topic string) queue.StreamingPartData
	PartDir() string
	TotalCount() uint64
	Close()
}

// handoffPart streams a trace part through the real hand-off queue instead of createPartFileReaders.
type handoffPart struct {
	*trace.VerifC17SenderPart
	root    string
	release func()
}

func (h *handoffPart) StreamingPart(group, topic string) queue.StreamingPartData {
	spd, release, err := h.VerifC17SenderPart.HandoffStreamingPart(filepath.Join(h.root, "handoff"), group, topic)
	if err != nil {
		panic("handoff: " + err.Error())
	}
	h.release = release
	return spd
}

func (h *handoffPart) Close() {
	if h.release != nil {
		h.release()
		h.release = nil
	}
	h.VerifC17SenderPart.Close()
}

// engineOf returns, for a real-handler mode, the sync topic, a data node and a sender part builder.
func engineOf(mode string) (topic bus.Topic, open func(root string) (realNode, error),
	build func(root string, id uint64, seed int64, series, points int) realPart, ok bool,
) {
	switch mode {
	case "msr":
		return data.TopicMeasurePartSync,
			func(root string) (realNode, error) { return measure.VerifC17OpenNode(root, c17Group) },
			func(root string, id uint64, seed int64, series, points int) realPart {
				return measure.VerifC17BuildPart(root, id, seed, series, points, c17MinTS)
			}, true
	case "str":
		return data.TopicStreamPartSync,
			func(root string) (realNode, error) { return stream.VerifC17OpenNode(root, c17Group) },
			func(root string, id uint64, seed int64, series, points int) realPart {
				return stream.VerifC17BuildPart(root, id, seed, series, points, c17MinTS)
			}, true
	case "trh":
		// trace part replayed from the liaison's hand-off queue (data node was offline when the syncer ran)
		return data.TopicTracePartSync,
			func(root string) (realNode, error) { return trace.VerifC17OpenNode(root, c17Group) },
			func(root string, id uint64, seed int64, series, points int) realPart {
				return &handoffPart{VerifC17SenderPart: trace.VerifC17BuildPart(root, id, seed, series, points, c17MinTS), root: root}
			}, true
	case "trc":
		return data.TopicTracePartSync,
			func(root string) (realNode, error) { return trace.VerifC17OpenNode(root, c17Group) },
			func(root string, id uint64, seed int64, series, points int) realPart {
				return trace.VerifC17BuildPart(root, id, seed, series, points, c17MinTS)
			}, true
	}
	return bus.Topic{}, nil, nil, false
}

// <msr|str|trc>.<fault> reorder maxBuf maxGap chunkSize seed series points p q
// Real measure / stream / trace ChunkedSyncHandler on a fresh data-node TSDB; the sender part is built by the
// engine's real memPart encoder and streamed with its real createPartFileReaders.
func handleReal(mode string, f []string) string {
	topicT, open, build, ok := engineOf(mode)
	if !ok || len(f) != 10 {
		return "bad-op"
	}
	_, fault, _ := strings.Cut(f[0], ".")
	reorder := f[1] == "1"
	maxBuf, maxGap, chunkSize := atoi(f[2]), atoi(f[3]), atoi(f[4])
	seed, series, points, p, q := atoi(f[5]), atoi(f[6]), atoi(f[7]), atoi(f[8]), atoi(f[9])
	dir := scratchDir()
	defer os.RemoveAll(dir)

	topic := topicT.String()
	senderRoot := filepath.Join(dir, "liaison")
	if err := os.MkdirAll(senderRoot, 0o755); err != nil {
		panic(err)
	}
	sp := build(senderRoot, 7, int64(seed), series, points)
	defer sp.Close()
	senderFiles := dirDigest(sp.PartDir())
	rows := sp.TotalCount()

	chunks, completion, err := referenceChunks([]queue.StreamingPartData{sp.StreamingPart(c17Group, topic)}, uint32(chunkSize), topic)
	if err != nil {
		return "SENDERR " + err.Error()
	}
	senderAfter := dirDigest(sp.PartDir())
	// how many of the transferred files are spread over at least two chunks
	inChunks := map[string]map[uint32]bool{}
	for _, c := range chunks {
		for _, pi := range c.PartsInfo {
			for _, fi := range pi.Files {
				if inChunks[fi.Name] == nil {
					inChunks[fi.Name] = map[uint32]bool{}
				}
				inChunks[fi.Name][c.ChunkIndex] = true
			}
		}
	}
	split := 0
	for _, m := range inChunks {
		if len(m) >= 2 {
			split++
		}
	}

	node, err := open(filepath.Join(dir, "data"))
	if err != nil {
		return "OPENERR " + err.Error()
	}
	defer node.Close()

	srv := sub.VerifC17NewServer(reorder, uint32(maxBuf), uint32(maxGap), map[bus.Topic]queue.ChunkedSyncHandler{topicT: node.Handler()})
	script := faultScript(fault, len(chunks), p, q)
	st := &scriptServer{in: buildScript(script, chunks, completion)}
	ret := "ok"
	if rerr := srv.SyncPart(st); rerr != nil {
		ret = "err"
	}

	// what the receiver holds now
	exact, bad := 0, 0
	var diff []string
	pds := partDirs(node.Root())
	for _, pd := range pds {
		got := dirDigest(pd)
		if sameDigest(got, senderFiles) {
			exact++
		} else {
			bad++
			for k, v := range senderFiles {
				if got[k] != v {
					diff = append(diff, k)
				}
			}
			for k := range got {
				if _, has := senderFiles[k]; !has {
					diff = append(diff, "+"+k)
				}
			}
		}
	}
	sort.Strings(diff)
	df := "-"
	if len(diff) > 0 {
		df = strings.Join(diff, ",")
	}
	snapParts, snapRows := node.Snapshot()
	acks := ackString(st.resps)
	if len(acks) > 40 {
		acks = fmt.Sprintf("%s..%s(%d)", acks[:8], acks[len(acks)-8:], len(acks))
	}
	return fmt.Sprintf("n=%d files=%d split=%d/%d acks=%s complete=%s ret=%s res=%s partdirs=%d exact=%d bad=%d diff=%s snap=%d rows=%d/%d senderintact=%s",
		len(chunks), len(senderFiles), split, len(inChunks), acks, drv01(strings.Contains(ackString(st.resps), "5")), ret, resultString(st.resps),
		len(pds), exact, bad, df, snapParts, snapRows, rows, drv01(sameDigest(senderFiles, senderAfter)))
}

func drv01(b bool) string {
	if b {
		return "1"
	}
	return "0"
}
