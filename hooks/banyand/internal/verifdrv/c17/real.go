//go:build verif

package main

import (
	"fmt"
	"hash/crc32"
	"os"
	"path/filepath"
	"sort"
	"strconv"
	"strings"

	"github.com/apache/skywalking-banyandb/api/data"
	"github.com/apache/skywalking-banyandb/banyand/measure"
	"github.com/apache/skywalking-banyandb/banyand/queue"
	"github.com/apache/skywalking-banyandb/banyand/queue/sub"
	"github.com/apache/skywalking-banyandb/pkg/bus"
)

var (
	scratchRoot string
	caseSeq     int
)

func scratchDir() string {
	if scratchRoot == "" {
		scratchRoot = filepath.Join("/verif/.scratch", fmt.Sprintf("c17-%d", os.Getpid()))
	}
	caseSeq++
	d := filepath.Join(scratchRoot, strconv.Itoa(caseSeq))
	if err := os.MkdirAll(d, 0o755); err != nil {
		panic(err)
	}
	return d
}

func cleanupScratch() {
	if scratchRoot != "" {
		_ = os.RemoveAll(scratchRoot)
	}
}

// sweepStaleScratch removes scratch directories left behind by c17 driver processes that no longer exist
// (a driver that was killed cannot run its deferred cleanup).
func sweepStaleScratch() {
	ents, err := os.ReadDir("/verif/.scratch")
	if err != nil {
		return
	}
	for _, e := range ents {
		pid, ok := strings.CutPrefix(e.Name(), "c17-")
		if !ok {
			continue
		}
		if _, perr := os.Stat("/proc/" + pid); os.IsNotExist(perr) {
			_ = os.RemoveAll(filepath.Join("/verif/.scratch", e.Name()))
		}
	}
}

// faultScript expands a relative fault description into a delivery script over n chunks
// (same grammar as buildScript).
func faultScript(fault string, n, p, q int) string {
	if n == 0 {
		return "-"
	}
	seq := make([]string, n)
	for i := range seq {
		seq[i] = strconv.Itoa(i)
	}
	i := p % n
	ins := func(s []string, at int, v string) []string {
		out := append([]string{}, s[:at]...)
		out = append(out, v)
		return append(out, s[at:]...)
	}
	switch fault {
	case "none":
	case "flipd":
		seq[i] = fmt.Sprintf("%dd%d", i, q)
	case "flipdr":
		seq = ins(seq, i, fmt.Sprintf("%dd%d", i, q))
	case "flipc":
		seq[i] = fmt.Sprintf("%dc%d", i, q)
	case "flipcr":
		seq = ins(seq, i, fmt.Sprintf("%dc%d", i, q))
	case "drop":
		seq = append(seq[:i:i], seq[i+1:]...)
	case "dup": // the copy of chunk i arrives after chunk j = i + q mod (n-i)
		j := i + q%(n-i)
		seq = ins(seq, j+1, strconv.Itoa(i))
	case "swap": // chunk i is overtaken by the next d = 1 + q mod (n-1-i) chunks
		if n >= 2 {
			i = p % (n - 1)
			d := 1 + q%(n-1-i)
			moved := seq[i]
			rest := append(append([]string{}, seq[:i]...), seq[i+1:i+1+d]...)
			rest = append(rest, moved)
			seq = append(rest, seq[i+1+d:]...)
		}
	case "end": // the stream ends after m = p mod (n+1) chunks, no completion
		return strings.Join(seq[:p%(n+1)], ",") + ifEmpty(p%(n+1) == 0, "-")
	case "ver":
		seq[i] = fmt.Sprintf("%dv", i)
	default:
		panic("bad fault " + fault)
	}
	return strings.Join(append(seq, "C"), ",")
}

func ifEmpty(c bool, s string) string {
	if c {
		return s
	}
	return ""
}

// dirDigest maps every regular file below dir (relative path) to "size:crc32".
func dirDigest(dir string) map[string]string {
	out := map[string]string{}
	_ = filepath.Walk(dir, func(p string, info os.FileInfo, err error) error {
		if err != nil || info.IsDir() {
			return nil
		}
		b, rerr := os.ReadFile(p)
		if rerr != nil {
			return nil
		}
		rel, _ := filepath.Rel(dir, p)
		out[rel] = fmt.Sprintf("%d:%08x", len(b), crc32.ChecksumIEEE(b))
		return nil
	})
	return out
}

func isPartDirName(n string) bool {
	if len(n) != 16 {
		return false
	}
	for _, c := range n {
		if !(c >= '0' && c <= '9' || c >= 'a' && c <= 'f') {
			return false
		}
	}
	return true
}

// partDirs finds every part directory (16 hex digits) below a shard directory of the node.
func partDirs(root string) []string {
	var out []string
	_ = filepath.Walk(root, func(p string, info os.FileInfo, err error) error {
		if err != nil || !info.IsDir() {
			return nil
		}
		if isPartDirName(info.Name()) && strings.HasPrefix(filepath.Base(filepath.Dir(p)), "shard-") {
			out = append(out, p)
			return filepath.SkipDir
		}
		return nil
	})
	sort.Strings(out)
	return out
}

func sameDigest(a, b map[string]string) bool {
	if len(a) != len(b) {
		return false
	}
	for k, v := range a {
		if b[k] != v {
			return false
		}
	}
	return true
}

// msr.<fault> reorder maxBuf maxGap chunkSize seed series points p q
func handleReal(mode string, f []string) string {
	if mode != "msr" || len(f) != 10 {
		return "bad-op"
	}
	_, fault, _ := strings.Cut(f[0], ".")
	reorder := f[1] == "1"
	maxBuf, maxGap, chunkSize := atoi(f[2]), atoi(f[3]), atoi(f[4])
	seed, series, points, p, q := atoi(f[5]), atoi(f[6]), atoi(f[7]), atoi(f[8]), atoi(f[9])
	dir := scratchDir()
	defer os.RemoveAll(dir)

	topic := data.TopicMeasurePartSync.String()
	senderRoot := filepath.Join(dir, "liaison")
	if err := os.MkdirAll(senderRoot, 0o755); err != nil {
		panic(err)
	}
	sp := measure.VerifC17BuildPart(senderRoot, 7, int64(seed), series, points, c17MinTS)
	defer sp.Close()
	senderFiles := dirDigest(sp.Dir)
	rows := sp.TotalCount()

	chunks, completion, err := referenceChunks([]queue.StreamingPartData{sp.StreamingPart(c17Group, topic)}, uint32(chunkSize), topic)
	if err != nil {
		return "SENDERR " + err.Error()
	}
	senderAfter := dirDigest(sp.Dir)

	node, err := measure.VerifC17OpenNode(filepath.Join(dir, "data"), c17Group)
	if err != nil {
		return "OPENERR " + err.Error()
	}
	defer node.Close()

	srv := sub.VerifC17NewServer(reorder, uint32(maxBuf), uint32(maxGap), map[bus.Topic]queue.ChunkedSyncHandler{data.TopicMeasurePartSync: node.Handler()})
	script := faultScript(fault, len(chunks), p, q)
	st := &scriptServer{in: buildScript(script, chunks, completion)}
	ret := "ok"
	if rerr := srv.SyncPart(st); rerr != nil {
		ret = "err"
	}

	// what the receiver holds now
	exact, bad := 0, 0
	pds := partDirs(node.Root())
	for _, pd := range pds {
		if sameDigest(dirDigest(pd), senderFiles) {
			exact++
		} else {
			bad++
		}
	}
	snap := node.SnapshotParts()
	return fmt.Sprintf("n=%d files=%d acks=%s ret=%s res=%s partdirs=%d exact=%d bad=%d snap=%d rows=%d/%d senderintact=%s",
		len(chunks), len(senderFiles), ackString(st.resps), ret, resultString(st.resps), len(pds), exact, bad, len(snap),
		node.VerifC17RowCount(), rows, drv01(sameDigest(senderFiles, senderAfter)))
}

func drv01(b bool) string {
	if b {
		return "1"
	}
	return "0"
}
