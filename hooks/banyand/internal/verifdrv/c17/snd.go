//go:build verif

package main

import (
	"context"
	"errors"
	"fmt"
	"os"
	"path/filepath"
	"strconv"
	"strings"
	"time"

	"github.com/apache/skywalking-banyandb/api/data"
	clusterv1 "github.com/apache/skywalking-banyandb/api/proto/banyandb/cluster/v1"
	"github.com/apache/skywalking-banyandb/banyand/measure"
	"github.com/apache/skywalking-banyandb/banyand/queue"
	"github.com/apache/skywalking-banyandb/banyand/queue/sub"
	"github.com/apache/skywalking-banyandb/banyand/stream"
	"github.com/apache/skywalking-banyandb/banyand/trace"
	"github.com/apache/skywalking-banyandb/pkg/bus"
	"github.com/apache/skywalking-banyandb/pkg/fs"
)

// nodeSim is one data node: a real measure TSDB behind the real SyncPart handler, reachable according to a
// script: call k of the liaison to this node ends with script[k] (the last letter repeats):
//
//	S  the parts are really transferred (real sender chunking -> real SyncPart -> real measure handler)
//	E  the call fails (node unreachable / stream error)
//	F  the call returns normally but reports every part as failed
type nodeSim struct {
	name   string
	script string
	calls  int
	node   realNode
	topic  bus.Topic
	srv    clusterv1.ChunkedSyncServiceServer
}

func (n *nodeSim) next() byte {
	k := n.calls
	n.calls++
	if k >= len(n.script) {
		k = len(n.script) - 1
	}
	return n.script[k]
}

type simClient struct {
	n         *nodeSim
	chunkSize uint32
}

func (c *simClient) Close() error { return nil }

func (c *simClient) SyncStreamingParts(_ context.Context, parts []queue.StreamingPartData) (*queue.SyncResult, error) {
	defer func() {
		for _, p := range parts {
			for _, f := range p.Files {
				fs.MustClose(f.Reader)
			}
		}
	}()
	switch c.n.next() {
	case 'E':
		return nil, errors.New("verif: node unreachable")
	case 'F':
		var failed []queue.FailedPart
		for _, p := range parts {
			failed = append(failed, queue.FailedPart{PartID: strconv.FormatUint(p.ID, 10), Error: "verif: rejected"})
		}
		return &queue.SyncResult{Success: false, PartsCount: uint32(len(parts)), FailedParts: failed}, nil
	}
	topic := c.n.topic.String()
	chunks, completion, err := referenceChunks(parts, c.chunkSize, topic)
	if err != nil {
		return nil, err
	}
	in := append([]*clusterv1.SyncPartRequest{}, chunks...)
	if completion != nil {
		in = append(in, completion)
	}
	st := &scriptServer{in: in}
	if rerr := c.n.srv.SyncPart(st); rerr != nil {
		return nil, rerr
	}
	return &queue.SyncResult{Success: true, PartsCount: uint32(len(parts)), ChunksCount: uint32(len(in))}, nil
}

// fakeTier2 is the liaison's tire2Client: only NewChunkedSyncClient is used by the syncer.
type fakeTier2 struct {
	queue.Client
	nodes map[string]*nodeSim
}

func (f *fakeTier2) NewChunkedSyncClient(node string, chunkSize uint32) (queue.ChunkedSyncClient, error) {
	n, ok := f.nodes[node]
	if !ok {
		return nil, fmt.Errorf("no active client for node %s", node)
	}
	return &simClient{n: n, chunkSize: chunkSize}, nil
}

// snd.<kind> nodes scripts quota seed series points shape
// shape = mem parts per time segment added within one flush window, e.g. 1+2: one mem part of segment A
// directly followed by two of segment B (write_liaison.go creates one mem part per (shard, segment) of a batch).
// Real liaison write-queue shard (measure tsTable: mustAddDataPoints -> flusher -> syncSnapshot ->
// executeSyncWithRetry -> FailedPartsHandler -> introduceSync) syncing to `nodes` real data nodes.
func handleSnd(f []string) string {
	if len(f) != 8 {
		return "bad-op"
	}
	nn := atoi(f[1])
	scripts := strings.Split(f[2], ",")
	quota, seed, series, points := atoi(f[3]), atoi(f[4]), atoi(f[5]), atoi(f[6])
	var shape []int
	for _, t := range strings.Split(f[7], "+") {
		shape = append(shape, atoi(t))
	}
	dir := scratchDir()
	defer os.RemoveAll(dir)

	tier2 := &fakeTier2{nodes: map[string]*nodeSim{}}
	var names []string
	var sims []*nodeSim
	for i := 0; i < nn; i++ {
		name := fmt.Sprintf("n%d", i)
		node, err := measure.VerifC17OpenNode(filepath.Join(dir, name), c17Group)
		if err != nil {
			return "OPENERR " + err.Error()
		}
		defer node.Close()
		sc := "S"
		if i < len(scripts) && scripts[i] != "" && scripts[i] != "-" {
			sc = scripts[i]
		}
		ns := &nodeSim{name: name, script: sc, node: node, topic: data.TopicMeasurePartSync,
			srv: sub.VerifC17NewServer(true, 10, 5, map[bus.Topic]queue.ChunkedSyncHandler{data.TopicMeasurePartSync: node.Handler()})}
		tier2.nodes[name] = ns
		names = append(names, name)
		sims = append(sims, ns)
	}
	var q uint64
	if quota > 0 {
		q = 1 // a failed-parts quota no part fits into
	}
	const flushWindow = 250 * time.Millisecond
	lia, err := measure.VerifC17OpenLiaison(filepath.Join(dir, "liaison"), c17Group, tier2, names, q, flushWindow)
	if err != nil {
		return "OPENERR " + err.Error()
	}
	defer lia.Close()

	// all mem parts of the shape are added back to back, i.e. inside one flush window of the real flusher loop
	rows, k := 0, 0
	for g, cnt := range shape {
		for j := 0; j < cnt; j++ {
			rows += lia.AddPointsToSegment(int64(seed+k), series, points, c17MinTS+int64(k)*1000000000, int64(1000000*(g+1)))
			k++
		}
	}
	// wait until the flusher has merged/flushed every mem part (stable for two polls)
	deadline := time.Now().Add(20 * time.Second)
	stable := 0
	for stable < 2 {
		dirs, mem := lia.FileParts()
		if mem == 0 && len(dirs) >= 1 {
			stable++
		} else {
			stable = 0
		}
		if time.Now().After(deadline) {
			return "FLUSHTIMEOUT"
		}
		time.Sleep(20 * time.Millisecond)
	}
	queued := lia.QueuedRows()
	before, _ := lia.FileParts()
	var digests []map[string]string
	for _, d := range before {
		digests = append(digests, dirDigest(d))
	}
	ret := "ok"
	if serr := lia.SyncOnce(); serr != nil {
		ret = "err"
	}
	after, _ := lia.FileParts()
	failedDir := lia.FailedDir()

	// per node: how many of the liaison's parts it holds byte for byte, and whether it holds anything else
	delivered := nn > 0
	var nodeOut []string
	for _, ns := range sims {
		have := 0
		pds := partDirs(ns.node.Root())
		junk := 0
		matched := make([]bool, len(digests))
		for _, pd := range pds {
			dg := dirDigest(pd)
			hit := false
			for i, want := range digests {
				if sameDigest(dg, want) {
					hit = true
					matched[i] = true
				}
			}
			if !hit {
				junk++
			}
		}
		for _, m := range matched {
			if m {
				have++
			}
		}
		if have != len(digests) {
			delivered = false
		}
		snapParts, snapRows := ns.node.Snapshot()
		nodeOut = append(nodeOut, fmt.Sprintf("%s=%d/%d/%d/%d/%d", ns.name, have, len(pds), junk, snapParts, snapRows))
	}
	if len(nodeOut) == 0 {
		nodeOut = []string{"-"}
	}
	return fmt.Sprintf("parts=%d left=%d failed=%d delivered=%s ret=%s rows=%d queued=%d leftrows=%d nodes=%s", len(before), len(after), len(failedDir),
		drv01(delivered), ret, rows, queued, lia.QueuedRows(), strings.Join(nodeOut, ","))
}

// syn.<engine>-<kind> nodes scripts quota seed series points        engine = str | trc
// The stream / trace syncer's real delivery round for one flushed part (stream: executeSyncWithRetry, trace:
// executeSyncOperation; each engine has its own copy of the retry glue around storage.FailedPartsHandler) against
// scripted data nodes running the engine's real part-sync handler. `left=0` means the round returned nil, i.e.
// syncSnapshot goes on to remove the part from the liaison queue.
func handleSyn(f []string) string {
	if len(f) != 7 {
		return "bad-op"
	}
	_, ek, _ := strings.Cut(f[0], ".")
	engine, _, _ := strings.Cut(ek, "-")
	topicT, open, build, ok := engineOf(engine)
	if !ok || (engine != "str" && engine != "trc") {
		return "bad-op"
	}
	nn := atoi(f[1])
	scripts := strings.Split(f[2], ",")
	quota, seed, series, points := atoi(f[3]), atoi(f[4]), atoi(f[5]), atoi(f[6])
	dir := scratchDir()
	defer os.RemoveAll(dir)
	tier2 := &fakeTier2{nodes: map[string]*nodeSim{}}
	var names []string
	var sims []*nodeSim
	for i := 0; i < nn; i++ {
		name := fmt.Sprintf("n%d", i)
		node, err := open(filepath.Join(dir, name))
		if err != nil {
			return "OPENERR " + err.Error()
		}
		defer node.Close()
		sc := "S"
		if i < len(scripts) && scripts[i] != "" && scripts[i] != "-" {
			sc = scripts[i]
		}
		ns := &nodeSim{name: name, script: sc, node: node, topic: topicT,
			srv: sub.VerifC17NewServer(true, 10, 5, map[bus.Topic]queue.ChunkedSyncHandler{topicT: node.Handler()})}
		tier2.nodes[name] = ns
		names = append(names, name)
		sims = append(sims, ns)
	}
	senderRoot := filepath.Join(dir, "liaison")
	if err := os.MkdirAll(senderRoot, 0o755); err != nil {
		panic(err)
	}
	sp := build(senderRoot, 7, int64(seed), series, points)
	defer sp.Close()
	want := dirDigest(sp.PartDir())
	var q uint64
	if quota > 0 {
		q = 1
	}
	var failedDir []string
	var serr error
	switch p := sp.(type) {
	case *stream.VerifC17SenderPart:
		failedDir, serr = p.VerifC17SyncWithRetry(c17Group, tier2, names, q)
	case *trace.VerifC17SenderPart:
		failedDir, serr = p.VerifC17SyncWithRetry(c17Group, tier2, names, q)
	default:
		return "bad-op"
	}
	ret, left := "ok", 0
	if serr != nil {
		ret, left = "err", 1
	}
	delivered := nn > 0
	var nodeOut []string
	for _, ns := range sims {
		have, junk := 0, 0
		pds := partDirs(ns.node.Root())
		for _, pd := range pds {
			if sameDigest(dirDigest(pd), want) {
				have = 1
			} else {
				junk++
			}
		}
		if have != 1 {
			delivered = false
		}
		snapParts, snapRows := ns.node.Snapshot()
		nodeOut = append(nodeOut, fmt.Sprintf("%s=%d/%d/%d/%d/%d", ns.name, have, len(pds), junk, snapParts, snapRows))
	}
	return fmt.Sprintf("parts=1 left=%d failed=%d delivered=%s ret=%s rows=%d queued=%d leftrows=%d nodes=%s", left, len(failedDir),
		drv01(delivered), ret, sp.TotalCount(), sp.TotalCount(), uint64(left)*sp.TotalCount(), strings.Join(nodeOut, ","))
}
