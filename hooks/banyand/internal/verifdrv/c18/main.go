//go:build verif

// Driver for /verif check C18 (properties are last-writer-wins and replicas converge).
// It runs the real liaison propertyServer (banyand/liaison/grpc/property.go) over a fake queue client that
// routes to the real data-node listeners (banyand/property/listener.go) of up to three real property
// databases (banyand/property/db, bluge backed) living in temp dirs.
//
// One input line = one history:
//
//	H <replicas> | <op> | <op> | ...
//
// ops (k = key "group/name/id" — groups g0,g1, names p0,p1, ids shared on purpose; a key without '/' is g0/p0/<k>;
// down = digits of unreachable replicas or "-"):
//
//	A k M|R tags ts down     propertyServer.Apply (wall clock; ts is the logical clock the output is mapped to)
//	T k M|R tags ts down     Apply body with the clock injected (= ts)
//	D k down                 propertyServer.Delete
//	Q down rr                propertyServer.Query (no order) of all keys of the case; rr=1 runs the queued read repairs, rr=0 drops them
//	O name tag a|d down      propertyServer.Query of the keys with that property name, ordered by tag
//	R src dst k              one-way repair: src's latest document of k -> shard.repair on dst
//	G cl sv k                one gossip exchange about leaf k between client cl and server sv
//	M a b                    Merkle trees of a and b: equal roots?  (and: equal latest states?)
//	E / F                    markers (no effect): begin / end of an exchange-only phase
//
// the first token may carry a suffix naming the case kind (Hmap, Hflt, ...); a token starting with HF runs
// the history on freshly created databases.
//
// a second kind of line drives the de-duplication functions alone:
//
//	DD a|d <node>:<key>,<rev>,<del>,<sorted>;... <node>:...
//
// Output: per op "<result> ~ <canonical state of every replica after the op>", joined by " | ".
// "HF ..." is "H ..." on freshly created databases.
package main

import (
	"context"
	"errors"
	"fmt"
	"os"
	"path/filepath"
	"sort"
	"strconv"
	"strings"
	"time"

	"google.golang.org/protobuf/proto"

	"github.com/apache/skywalking-banyandb/api/common"
	"github.com/apache/skywalking-banyandb/api/data"
	commonv1 "github.com/apache/skywalking-banyandb/api/proto/banyandb/common/v1"
	modelv1 "github.com/apache/skywalking-banyandb/api/proto/banyandb/model/v1"
	propertyv1 "github.com/apache/skywalking-banyandb/api/proto/banyandb/property/v1"
	"github.com/apache/skywalking-banyandb/banyand/internal/verifdrv/drv"
	lgrpc "github.com/apache/skywalking-banyandb/banyand/liaison/grpc"
	"github.com/apache/skywalking-banyandb/banyand/property"
	propertydb "github.com/apache/skywalking-banyandb/banyand/property/db"
	"github.com/apache/skywalking-banyandb/banyand/queue"
	"github.com/apache/skywalking-banyandb/pkg/bus"
	"github.com/apache/skywalking-banyandb/pkg/logger"
)

const maxRep = 3

// keys are triples group/name/id ("g0/p1/x"); a key without '/' is id in group g0, name p0. Groups, names and ids
// are shared deliberately: one shard (0) per group holds every name of the group.
var (
	allGroups = []string{"g0", "g1"}
	allNames  = []string{"p0", "p1"}
)

// the id component may be written "~<hex of the UTF-8 bytes>" (ids with '/', '|', blanks, unicode, ...): the wire
// format and the model only see the token, the implementation gets the decoded id.
func splitKey(k string) (g, n, id string) {
	p := strings.SplitN(k, "/", 3)
	if len(p) == 3 {
		g, n, id = p[0], p[1], p[2]
	} else {
		g, n, id = allGroups[0], allNames[0], k
	}
	if strings.HasPrefix(id, "~") {
		id = string(drv.UnHex(id[1:]))
	}
	return
}

var schemaTags = []string{"a", "b", "c", "d"}

type replica struct {
	db        propertydb.Database
	shards    map[string]*propertydb.VerifC18Shard // by group
	listeners map[bus.Topic]bus.MessageListener
	name      string
}

// ---- fake queue client: synchronous routing to the listeners of the replicas that are up ----

type future struct {
	err error
	msg bus.Message
}

func (f *future) Get() (bus.Message, error) { return f.msg, f.err }
func (f *future) GetAll() ([]bus.Message, error) {
	if f.err != nil {
		return nil, f.err
	}
	return []bus.Message{f.msg}, nil
}

type fakeClient struct {
	queue.Client
	reps []*replica
	nrep int
	down map[int]bool
}

func (c *fakeClient) deliver(i int, topic bus.Topic, m bus.Message) bus.Future {
	r := c.reps[i]
	resp := r.listeners[topic].Rev(context.Background(), m)
	if e, ok := resp.Data().(*common.Error); ok {
		return &future{err: errors.New(e.Error())}
	}
	return &future{msg: bus.NewMessageWithNode(resp.ID(), r.name, resp.Data())}
}

func (c *fakeClient) Publish(_ context.Context, topic bus.Topic, message ...bus.Message) (bus.Future, error) {
	m := message[0]
	for i := 0; i < c.nrep; i++ {
		if c.reps[i].name == m.Node() {
			if c.down[i] {
				return nil, fmt.Errorf("node %s unreachable", m.Node())
			}
			return c.deliver(i, topic, m), nil
		}
	}
	return nil, fmt.Errorf("unknown node %s", m.Node())
}

func (c *fakeClient) Broadcast(_ time.Duration, topic bus.Topic, m bus.Message) ([]bus.Future, error) {
	var ff []bus.Future
	for i := 0; i < c.nrep; i++ {
		if !c.down[i] {
			ff = append(ff, c.deliver(i, topic, m))
		}
	}
	return ff, nil
}

// ---- harness ----

type harness struct {
	root    string
	reps    []*replica
	client  *fakeClient
	servers map[int]*lgrpc.VerifC18Server
	caseNo  int
}

func (h *harness) server(n int) *lgrpc.VerifC18Server {
	if s, ok := h.servers[n]; ok {
		return s
	}
	names := make([]string, n)
	for i := 0; i < n; i++ {
		names[i] = h.reps[i].name
	}
	s := lgrpc.NewVerifC18Server(h.client, names, allGroups, allNames, schemaTags)
	h.servers[n] = s
	return s
}

func newHarness() *harness {
	_ = logger.Init(logger.Logging{Env: "prod", Level: "error"})
	root := filepath.Join("/verif/.scratch", fmt.Sprintf("c18-%d", os.Getpid()))
	_ = os.RemoveAll(root)
	h := &harness{root: root, servers: map[int]*lgrpc.VerifC18Server{}}
	for i := 0; i < maxRep; i++ {
		dir := filepath.Join(root, fmt.Sprintf("n%d", i))
		d, err := propertydb.VerifC18Open(filepath.Join(dir, "data"), filepath.Join(dir, "repair"), fmt.Sprintf("verif_c18_%d", i), 1)
		if err != nil {
			panic(err)
		}
		shards := map[string]*propertydb.VerifC18Shard{}
		for _, g := range allGroups {
			sh, lerr := propertydb.VerifC18LoadShard(d, g, 0)
			if lerr != nil {
				panic(lerr)
			}
			shards[g] = sh
		}
		name := fmt.Sprintf("n%d", i)
		h.reps = append(h.reps, &replica{db: d, shards: shards, name: name, listeners: property.VerifC18Listeners(d, name)})
	}
	h.client = &fakeClient{reps: h.reps, nrep: maxRep, down: map[int]bool{}}
	return h
}

func (h *harness) close() {
	for _, r := range h.reps {
		_ = r.db.Close()
	}
	_ = os.RemoveAll(h.root)
}

type caseCtx struct {
	tokens map[string]string // group/name/<real id> -> key token
	h      *harness
	revMap map[int64]int64 // raw revision -> logical ts
	keys   map[string]bool
	prefix string
	nrep   int
}

// key registers k and returns its group, name and (case-prefixed) id.
func (c *caseCtx) key(k string) (string, string, string) {
	c.keys[k] = true
	g, n, id := splitKey(k)
	c.tokens[g+"/"+n+"/"+id] = k
	return g, n, c.prefix + id
}

func (c *caseCtx) docs(i int, k string) ([]*propertydb.VerifC18Doc, error) {
	g, n, id := splitKey(k)
	return c.h.reps[i].shards[g].Docs(g, n, c.prefix+id)
}

func (c *caseCtx) latest(i int, k string) (*propertydb.VerifC18Doc, error) {
	g, n, id := splitKey(k)
	return c.h.reps[i].shards[g].Latest(g, n, c.prefix+id)
}

func (c *caseCtx) rev(raw int64) string {
	if v, ok := c.revMap[raw]; ok {
		return strconv.FormatInt(v, 10)
	}
	return "?" + strconv.FormatInt(raw, 10)
}

func (c *caseCtx) setDown(s string) {
	c.h.client.down = map[int]bool{}
	c.h.client.nrep = c.nrep
	if s == "-" {
		return
	}
	for _, ch := range s {
		c.h.client.down[int(ch-'0')] = true
	}
}

func parseTags(s string) []*modelv1.Tag {
	var tags []*modelv1.Tag
	if s == "-" {
		return tags
	}
	for _, kv := range strings.Split(s, ",") {
		p := strings.SplitN(kv, ":", 2)
		tags = append(tags, &modelv1.Tag{Key: p[0], Value: &modelv1.TagValue{Value: &modelv1.TagValue_Str{Str: &modelv1.Str{Value: p[1]}}}})
	}
	return tags
}

func showTags(tags []*modelv1.Tag) string {
	if len(tags) == 0 {
		return "-"
	}
	parts := make([]string, 0, len(tags))
	for _, t := range tags {
		parts = append(parts, t.Key+":"+t.Value.GetStr().GetValue())
	}
	return strings.Join(parts, ",")
}

func dl(deleteTime int64) string {
	if deleteTime > 0 {
		return "D"
	}
	return "L"
}

func (c *caseCtx) showDoc(d *propertydb.VerifC18Doc) string {
	return fmt.Sprintf("%s/%s/%s/%s", c.rev(d.Timestamp), dl(d.DeleteTime), c.rev(d.Property.Metadata.CreateRevision), showTags(d.Property.Tags))
}

func (c *caseCtx) sortedKeys() []string {
	ks := make([]string, 0, len(c.keys))
	for k := range c.keys {
		ks = append(ks, k)
	}
	sort.Strings(ks)
	return ks
}

// learn the raw revisions written by a wall-clock Apply: every revision of key k not seen before is this op's ts.
func (c *caseCtx) learn(k string, ts int64) {
	for i := 0; i < c.nrep; i++ {
		docs, err := c.docs(i, k)
		if err != nil {
			continue
		}
		for _, d := range docs {
			if _, ok := c.revMap[d.Timestamp]; !ok {
				c.revMap[d.Timestamp] = ts
			}
		}
	}
}

func (c *caseCtx) state() string {
	var out []string
	for i := 0; i < c.nrep; i++ {
		var ks []string
		for _, k := range c.sortedKeys() {
			docs, err := c.docs(i, k)
			if err != nil {
				ks = append(ks, k+"=ERR")
				continue
			}
			sort.Slice(docs, func(a, b int) bool { return docs[a].Timestamp < docs[b].Timestamp })
			var ds []string
			for _, d := range docs {
				if d.ID != string(propertydb.GetPropertyID(d.Property)) || d.Property.Metadata.ModRevision != d.Timestamp {
					ds = append(ds, "BADID")
				}
				ds = append(ds, c.showDoc(d))
			}
			if len(ds) == 0 {
				ds = []string{"-"}
			}
			ks = append(ks, k+"="+strings.Join(ds, "+"))
		}
		out = append(out, fmt.Sprintf("S%d:%s", i, strings.Join(ks, ";")))
	}
	return strings.Join(out, " ")
}

func (c *caseCtx) showQuery(resp *propertyv1.QueryResponse, keepOrder bool) string {
	var parts []string
	for _, p := range resp.Properties {
		k := p.Metadata.Group + "/" + p.Metadata.Name + "/" + strings.TrimPrefix(p.Id, c.prefix)
		if t, ok := c.tokens[k]; ok {
			k = t
		} else {
			k = "?" + drv.Hex([]byte(k))
		}
		parts = append(parts, fmt.Sprintf("%s=%s/%s/%s", k, c.rev(p.Metadata.ModRevision), c.rev(p.Metadata.CreateRevision), showTags(p.Tags)))
	}
	if !keepOrder {
		sort.Strings(parts)
	}
	if len(parts) == 0 {
		return "-"
	}
	return strings.Join(parts, ";")
}

// queries: one QueryRequest carries one name; the keys of the case are covered by one request per name
// (groups and ids of the registered keys with that name; unregistered combinations have no documents).
func (c *caseCtx) requests(only string) []*propertyv1.QueryRequest {
	byName := map[string][2]map[string]bool{}
	for _, k := range c.sortedKeys() {
		g, n, id := splitKey(k)
		if only != "" && n != only {
			continue
		}
		e, ok := byName[n]
		if !ok {
			e = [2]map[string]bool{{}, {}}
			byName[n] = e
		}
		e[0][g] = true
		e[1][c.prefix+id] = true
	}
	var names []string
	for n := range byName {
		names = append(names, n)
	}
	sort.Strings(names)
	var out []*propertyv1.QueryRequest
	for _, n := range names {
		req := &propertyv1.QueryRequest{Name: n, Limit: 100}
		for g := range byName[n][0] {
			req.Groups = append(req.Groups, g)
		}
		for id := range byName[n][1] {
			req.Ids = append(req.Ids, id)
		}
		sort.Strings(req.Groups)
		sort.Strings(req.Ids)
		out = append(out, req)
	}
	return out
}

func (c *caseCtx) op(f []string) string {
	srv := c.h.server(c.nrep)
	switch f[0] {
	case "A", "T":
		k, strat, tags, down := f[1], f[2], f[3], f[5]
		ts, _ := strconv.ParseInt(f[4], 10, 64)
		c.setDown(down)
		req := &propertyv1.ApplyRequest{
			Property: &propertyv1.Property{Tags: parseTags(tags)},
			Strategy: propertyv1.ApplyRequest_STRATEGY_MERGE,
		}
		kg, kn, kid := c.key(k)
		req.Property.Metadata = &commonv1.Metadata{Group: kg, Name: kn}
		req.Property.Id = kid
		if strat == "R" {
			req.Strategy = propertyv1.ApplyRequest_STRATEGY_REPLACE
		}
		var resp *propertyv1.ApplyResponse
		var err error
		if f[0] == "A" {
			resp, err = srv.Apply(req)
			c.learn(k, ts)
		} else {
			c.revMap[ts] = ts
			resp, err = srv.ApplyAt(time.Unix(0, ts), req)
		}
		if err != nil {
			return f[0] + ":ERR"
		}
		return fmt.Sprintf("%s:c%s,n%d", f[0], drv.B01(resp.Created), resp.TagsNum)
	case "D":
		c.setDown(f[2])
		kg, kn, kid := c.key(f[1])
		resp, err := srv.Delete(&propertyv1.DeleteRequest{Group: kg, Name: kn, Id: kid})
		if err != nil {
			return "D:ERR"
		}
		return "D:" + drv.B01(resp.Deleted)
	case "Q", "O":
		// Q down rr            every key of the case, one request per name
		// O name tag a|d down  the keys with that name, ordered by tag
		var reqs []*propertyv1.QueryRequest
		rr := "1"
		if f[0] == "Q" {
			c.setDown(f[1])
			rr = f[2]
			reqs = c.requests("")
		} else {
			c.setDown(f[4])
			reqs = c.requests(f[1])
			for _, req := range reqs {
				req.OrderBy = &propertyv1.QueryOrder{TagName: f[2], Sort: modelv1.Sort_SORT_ASC}
				if f[3] == "d" {
					req.OrderBy.Sort = modelv1.Sort_SORT_DESC
				}
			}
		}
		if len(reqs) == 0 {
			return f[0] + ":-,rq0"
		}
		all := &propertyv1.QueryResponse{}
		tasks := 0
		for _, req := range reqs {
			resp, err := srv.Query(req)
			if err != nil {
				srv.DrainRepairQueue(false)
				return f[0] + ":ERR"
			}
			n, _ := srv.DrainRepairQueue(rr == "1")
			tasks += n
			all.Properties = append(all.Properties, resp.Properties...)
		}
		return fmt.Sprintf("%s:%s,rq%d", f[0], c.showQuery(all, f[0] == "O"), tasks)
	case "R":
		src, _ := strconv.Atoi(f[1])
		dst, _ := strconv.Atoi(f[2])
		kg, _, _ := c.key(f[3])
		d, err := c.latest(src, f[3])
		if err != nil {
			return "R:ERR"
		}
		if d == nil {
			return "R:-"
		}
		updated, newer, err := c.h.reps[dst].shards[kg].Repair(propertydb.GetPropertyID(d.Property), d.Property, d.DeleteTime)
		if err != nil {
			return "R:ERR"
		}
		if newer != nil {
			return fmt.Sprintf("R:u%s,n%s%s", drv.B01(updated), c.rev(newer.Timestamp), dl(newer.DeleteTime))
		}
		return "R:u" + drv.B01(updated)
	case "G":
		cl, _ := strconv.Atoi(f[1])
		sv, _ := strconv.Atoi(f[2])
		kg, kn, kid := c.key(f[3])
		return "G:" + c.gossip(c.h.reps[cl].shards[kg], c.h.reps[sv].shards[kg], kg, kn, kid)
	case "E", "F":
		// markers for the check: start / end of an exchange-only phase
		return f[0] + ":"
	case "M":
		a, _ := strconv.Atoi(f[1])
		b, _ := strconv.Atoi(f[2])
		return "M:" + c.merkle(a, b)
	}
	return "bad-op"
}

// gossip mirrors, for ONE leaf, the message flow of repairGossipClient.Rev / repairGossipServer.Repair once the
// tree comparison has singled the leaf out (repair_gossip.go): the trace lists who repaired and whether it changed.
func (c *caseCtx) gossip(cl, sv *propertydb.VerifC18Shard, group, propName, id string) string {
	cd, err1 := cl.Latest(group, propName, id)
	sd, err2 := sv.Latest(group, propName, id)
	if err1 != nil || err2 != nil {
		return "ERR"
	}
	if cd == nil && sd == nil {
		return "-"
	}
	// the Merkle leaf of an entity is built from the LAST document of the highest revision (repair.buildTree sorts by
	// timestamp; observed with two documents of one id, see the M op): equal leaf sha = the tree comparison never
	// selects this leaf
	cleaf, sleaf := leafDoc(cl, group, propName, id), leafDoc(sv, group, propName, id)
	if cleaf != nil && sleaf != nil && cleaf.ID == sleaf.ID && cleaf.DeleteTime == sleaf.DeleteTime && proto.Equal(cleaf.Property, sleaf.Property) {
		return "="
	}
	trace := ""
	var toClient []*propertyv1.PropertySyncWithFrom
	if cd == nil {
		// readingClientNodeAndCompare: the client has no such leaf -> sendPropertyMissing -> processPropertyMissing
		trace += "m"
		toClient = sv.ServerMissing(group, propName, id)
	} else {
		// queryPropertyAndSendToServer -> processPropertySync
		updated, back := sv.ServerSync(&propertyv1.PropertySync{Id: propertydb.GetPropertyID(cd.Property), Property: cd.Property, DeleteTime: cd.DeleteTime}, group)
		trace += "S" + drv.B01(updated)
		toClient = back
	}
	for round := 0; len(toClient) > 0; round++ {
		if round > 6 {
			return trace + "LOOP"
		}
		var next []*propertyv1.PropertySyncWithFrom
		for _, m := range toClient {
			// case *propertyv1.RepairResponse_PropertySync in repairGossipClient.Rev
			updated, newer, err := cl.ClientRepair(m.Property, group)
			if err != nil {
				trace += "E"
				continue
			}
			trace += "C" + drv.B01(updated)
			if !updated && newer != nil && m.From != propertyv1.PropertySyncFromType_PROPERTY_SYNC_FROM_TYPE_MISSING {
				su, back := sv.ServerSync(&propertyv1.PropertySync{Id: []byte(newer.ID), Property: newer.Property, DeleteTime: newer.DeleteTime}, group)
				trace += "S" + drv.B01(su)
				if !su && len(back) > 0 {
					// both sides refuse each other's document: the same two messages would be repeated for ever
					return trace + "~"
				}
				next = append(next, back...)
			}
		}
		toClient = next
	}
	return trace
}

// leafDoc: the last document (search order) among those of the highest revision.
func leafDoc(sh *propertydb.VerifC18Shard, group, propName, id string) *propertydb.VerifC18Doc {
	docs, err := sh.Docs(group, propName, id)
	if err != nil {
		return nil
	}
	var best *propertydb.VerifC18Doc
	for _, d := range docs {
		if best == nil || d.Timestamp >= best.Timestamp {
			best = d
		}
	}
	return best
}

func (c *caseCtx) latestState(i int) string {
	var ks []string
	for _, k := range c.sortedKeys() {
		kg, kn, kid := splitKey(k)
		d := leafDoc(c.h.reps[i].shards[kg], kg, kn, c.prefix+kid)
		if d == nil {
			continue
		}
		b, _ := proto.MarshalOptions{Deterministic: true}.Marshal(d.Property)
		ks = append(ks, fmt.Sprintf("%s/%d/%x", k, d.DeleteTime, b))
	}
	return strings.Join(ks, ";")
}

// merkle is only meaningful when the shards hold nothing but the keys of this case (the check uses a fresh
// driver process for its Merkle cases).
func (c *caseCtx) merkle(a, b int) string {
	same, na, nb := true, 0, 0
	for _, g := range allGroups {
		ra, la, err1 := c.h.reps[a].shards[g].TreeRoot(filepath.Join(c.h.root, "tree-a"))
		rb, lb, err2 := c.h.reps[b].shards[g].TreeRoot(filepath.Join(c.h.root, "tree-b"))
		if err1 != nil || err2 != nil {
			return fmt.Sprintf("ERR %v %v", err1, err2)
		}
		same = same && ra == rb
		na += len(la)
		nb += len(lb)
	}
	return fmt.Sprintf("root%s,state%s,leaves%d/%d", drv.B01(same), drv.B01(c.latestState(a) == c.latestState(b)), na, nb)
}

func (h *harness) history(f []string) string {
	h.caseNo++
	nrep, _ := strconv.Atoi(f[1])
	if nrep < 1 || nrep > maxRep {
		return "bad-op"
	}
	c := &caseCtx{tokens: map[string]string{}, h: h, prefix: fmt.Sprintf("c%dx", h.caseNo), nrep: nrep, revMap: map[int64]int64{}, keys: map[string]bool{}}
	var ops [][]string
	var cur []string
	for _, t := range f[2:] {
		if t == "|" {
			if len(cur) > 0 {
				ops = append(ops, cur)
			}
			cur = nil
			continue
		}
		cur = append(cur, t)
	}
	if len(cur) > 0 {
		ops = append(ops, cur)
	}
	var out []string
	for _, o := range ops {
		r := c.op(o)
		c.setDown("-")
		out = append(out, r+" ~ "+c.state())
	}
	if len(out) == 0 {
		return "-"
	}
	return strings.Join(out, " | ")
}

// ---- DD: de-duplication functions alone ----

func (h *harness) dedup(f []string) string {
	desc := f[1] == "d"
	in := map[string][]lgrpc.VerifC18Item{}
	for _, t := range f[2:] {
		p := strings.SplitN(t, ":", 2)
		var items []lgrpc.VerifC18Item
		if p[1] != "" {
			for _, it := range strings.Split(p[1], ";") {
				q := strings.Split(it, ",")
				rev, _ := strconv.ParseInt(q[1], 10, 64)
				del, _ := strconv.ParseInt(q[2], 10, 64)
				items = append(items, lgrpc.VerifC18Item{Key: q[0], Rev: rev, Deleted: del, Sorted: []byte(q[3])})
			}
		}
		in[p[0]] = items
	}
	srv := h.server(maxRep)
	show := func(ws []lgrpc.VerifC18Winner, keep bool) string {
		var parts []string
		for _, w := range ws {
			sort.Strings(w.Nodes)
			parts = append(parts, fmt.Sprintf("%s,%d,%s,%s", w.Key, w.Rev, dl(w.Deleted), strings.Join(w.Nodes, "+")))
		}
		if !keep {
			sort.Strings(parts)
		}
		if len(parts) == 0 {
			return "-"
		}
		return strings.Join(parts, ";")
	}
	return "simple=" + show(srv.SimpleDedup(allGroups[0], allNames[0], in), false) + " sorted=" + show(srv.SortedDedup(allGroups[0], allNames[0], in, desc), true)
}

func main() {
	var h *harness
	defer func() {
		if h != nil {
			h.close()
		}
	}()
	drv.Run(func(f []string) string {
		if len(f) == 0 {
			return "bad-op"
		}
		if h == nil {
			h = newHarness()
		}
		switch {
		case strings.HasPrefix(f[0], "HF"):
			// history on fresh, empty databases (Merkle-tree cases compare whole shards)
			h.close()
			h = newHarness()
			return h.history(f)
		case strings.HasPrefix(f[0], "H"):
			return h.history(f)
		case f[0] == "DD":
			return h.dedup(f)
		case f[0] == "LE" && len(f) == 4:
			// LE <group hex> <name hex> <id hex>: Merkle leaf name of a property and its inverse
			e, g, n, i, err := h.reps[0].shards[allGroups[0]].LeafRoundTrip(string(drv.UnHex(f[1])), string(drv.UnHex(f[2])), string(drv.UnHex(f[3])))
			if err != nil {
				return drv.Hex([]byte(e)) + " ERR"
			}
			return fmt.Sprintf("%s %s %s %s", drv.Hex([]byte(e)), drv.Hex([]byte(g)), drv.Hex([]byte(n)), drv.Hex([]byte(i)))
		}
		return "bad-op"
	})
	_ = data.TopicPropertyUpdate
}
