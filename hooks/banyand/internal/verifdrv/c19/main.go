//go:build verif

// Driver for C19 (file snapshots): runs the real measure tsTable / storage TSDB snapshot procedures on scratch
// directories, opens every copy with the real loader and queries it. One output line per case line.
//
// Case kinds
//
//	tbl <op>...   one real measure tsTable (no background loops; every transition synchronous)
//	    b          introduce the next batch (ids 1,2,3,... in execution order) as a mem part
//	    f          flush every mem part of the current snapshot
//	    m<i>+<j>.. merge the file parts at these positions of the current snapshot (>= 2 distinct positions)
//	    s[@p=<op>]...[!p]   real TakeFileSnapshot into a fresh directory. `@p=<op>` runs maintenance op <op>
//	               (b, f, m..) immediately before the p-th file-system call (CreateHardLink of a part /
//	               CreateFile of the manifest) that the snapshot procedure issues, i.e. between its sub-steps
//	               pin | link part 0 | link part 1 | ... | write manifest | unpin. `!p` makes the p-th call fail
//	               (only if it is a CreateHardLink). Afterwards the copy is inspected, opened with the real
//	               initTSTable and queried.
//	stb <op>...   the same on a real stream tsTable (with its real element index)
//	ttb <op>...   the same on a real trace tsTable with one real secondary index (sidx); the call
//	              MkdirPanicIfExist(<dst>/sidx/<name>) and the hard links of the index parts are hook points too
//	              (call 0, calls 1..n), before the n core links and the manifest. `ttbx` marks cases that place
//	              operations at those early calls (between the pin of the core snapshot and the pin of the index).
//	db <op>...    a real storage.TSDB (daily segments, 2 shards) over real measure tables
//	    w<d><h> write next batch into day d shard h     f<d><h> flush   m<d><h> merge all file parts
//	    c<d> idle-close   h<d> hold (query pin)   r<d> release   x<d> retention-delete (delete+unlist)
//	    X<d> delete flag only (still listed)   s[@p=<op>]...[!p] real TSDB.TakeFileSnapshot, then OpenTSDB on the copy
package main

import (
	"errors"
	"fmt"
	"os"
	"path/filepath"
	"regexp"
	"sort"
	"strconv"
	"strings"
	"time"

	"github.com/apache/skywalking-banyandb/banyand/backup"
	"github.com/apache/skywalking-banyandb/banyand/internal/storage"
	"github.com/apache/skywalking-banyandb/banyand/internal/verifdrv/drv"
	"github.com/apache/skywalking-banyandb/banyand/measure"
	"github.com/apache/skywalking-banyandb/banyand/stream"
	"github.com/apache/skywalking-banyandb/banyand/trace"
	"github.com/apache/skywalking-banyandb/pkg/fs"
	"github.com/apache/skywalking-banyandb/pkg/logger"
)

const tsBase = int64(1_000_000)

var (
	scratch string
	caseNo  int
	realFS  fs.FileSystem
)

// ---------------------------------------------------------------------------------------------------------
// hook file system: the seam between the sub-steps of TakeFileSnapshot

type hookFS struct {
	fs.FileSystem
	st *hookState
}

type hookState struct {
	before  func(p int) // called before the p-th CreateHardLink/CreateFile while armed
	kinds   []byte      // 'l' = CreateHardLink, 'c' = CreateFile, per call
	at      []string    // "<day>.<shard>" the call belongs to (db level), per call
	failAt  int
	calls   int
	armed   bool
	mkdirPoints bool
	running bool // a hook op is executing: its own FS calls are not snapshot sub-steps
}

var segShardRe = regexp.MustCompile(`seg-(\d{8})/shard-(\d+)/`)

func (h *hookFS) point(kind byte, path string) (int, bool) {
	st := h.st
	if !st.armed || st.running {
		return -1, false
	}
	p := st.calls
	st.calls++
	st.kinds = append(st.kinds, kind)
	where := "-"
	if m := segShardRe.FindStringSubmatch(path); m != nil {
		for d := 0; d < 4; d++ {
			if daySuffix(d) == m[1] {
				where = fmt.Sprintf("%d.%s", d, m[2])
			}
		}
	}
	st.at = append(st.at, where)
	if st.before != nil {
		st.running = true
		func() {
			defer func() { st.running = false }()
			st.before(p)
		}()
	}
	return p, true
}

func (h *hookFS) CreateHardLink(src, dst string, filter func(string) bool) error {
	p, ok := h.point('l', src)
	if ok && p == h.st.failAt {
		return errors.New("verif: injected hard-link failure")
	}
	return h.FileSystem.CreateHardLink(src, dst, filter)
}

func (h *hookFS) MkdirPanicIfExist(path string, perm fs.Mode) {
	if h.st.mkdirPoints {
		h.point('m', path)
	}
	h.FileSystem.MkdirPanicIfExist(path, perm)
}

func (h *hookFS) CreateFile(name string, perm fs.Mode) (fs.File, error) {
	h.point('c', name)
	return h.FileSystem.CreateFile(name, perm)
}

// ---------------------------------------------------------------------------------------------------------

// tableAPI is what the driver needs from an engine's table wrapper.
type tableAPI interface {
	AddBatch(rows []storage.VerifRow) uint64
	Flush() int
	Merge(pos []int) uint64
	Snapshot(dst string) (bool, error)
	Settle() bool
	Refs() []storage.VerifPartInfo
	Parts() ([]uint64, []bool)
	SnapshotRef() int32
	Query() ([]storage.VerifRow, error)
	DiskPartIDs() []uint64
	Close()
}

type engine struct {
	open    func(fs.FileSystem, string) tableAPI
	inspect func(fs.FileSystem, string) storage.VerifManifest
	// stream: TakeFileSnapshot creates <dst>/idx with MkdirPanicIfExist, so dst must exist beforehand (as the shard
	// directory does when a segment is snapshotted)
	precreateDst bool
	// trace: MkdirPanicIfExist(<dst>/sidx/<name>) sits between the pin of the core snapshot and the pin of the
	// secondary index's snapshot, so it is a hook point too; and the copy's index is reported
	mkdirPoints bool
	index       bool
}

var (
	measureEngine = engine{
		open:    func(f fs.FileSystem, root string) tableAPI { return measure.VerifOpenTable(f, root) },
		inspect: measure.VerifInspectDir,
	}
	streamEngine = engine{
		open:         func(f fs.FileSystem, root string) tableAPI { return stream.VerifOpenTable(f, root) },
		inspect:      stream.VerifInspectDir,
		precreateDst: true,
	}
	traceEngine = engine{
		open:        func(f fs.FileSystem, root string) tableAPI { return trace.VerifOpenTable(f, root) },
		inspect:     trace.VerifInspectDir,
		mkdirPoints: true,
		index:       true,
	}
)

func rowsOf(k int, base int64) []measure.VerifRow {
	n := 1 + k%3
	out := make([]measure.VerifRow, 0, n)
	for j := 0; j < n; j++ {
		out = append(out, measure.VerifRow{SID: uint64(1 + (k+j)%4), TS: base + int64(k*8+j), Val: int64(k*1000 + j)})
	}
	return out
}

func showRows(rows []measure.VerifRow, base int64) string {
	if len(rows) == 0 {
		return "-"
	}
	ss := make([]string, len(rows))
	for i, r := range rows {
		ss[i] = fmt.Sprintf("%d.%d.%d", r.SID, r.TS-base, r.Val)
	}
	return strings.Join(ss, ",")
}

func showIDs(ids []uint64) string {
	if len(ids) == 0 {
		return "-"
	}
	ss := make([]string, len(ids))
	for i, id := range ids {
		ss[i] = strconv.FormatUint(id, 10)
	}
	return strings.Join(ss, ",")
}

func sortedIDs(ids []uint64) []uint64 {
	out := append([]uint64(nil), ids...)
	sort.Slice(out, func(i, j int) bool { return out[i] < out[j] })
	return out
}

func showParts(t tableAPI) string {
	ids, mem := t.Parts()
	if len(ids) == 0 {
		return "-"
	}
	ss := make([]string, len(ids))
	for i := range ids {
		ss[i] = strconv.FormatUint(ids[i], 10)
		if mem[i] {
			ss[i] += "m"
		}
	}
	return strings.Join(ss, ",")
}

func showRefs(t tableAPI) string {
	rr := t.Refs()
	if len(rr) == 0 {
		return "-"
	}
	ss := make([]string, 0, len(rr))
	for _, r := range rr {
		s := strconv.FormatUint(r.ID, 10)
		if r.Mem {
			s += "m"
		}
		s += ":" + strconv.Itoa(int(r.Ref))
		if r.Removable {
			s += "x"
		}
		if !r.Mem && !r.DirExists {
			s += "!" // referenced file part without directory: never expected
		}
		ss = append(ss, s)
	}
	return strings.Join(ss, ",")
}

func showKinds(k []byte) string {
	if len(k) == 0 {
		return "-"
	}
	return string(k)
}

type snapSpec struct {
	hooks  map[int][]string
	failAt int
}

func parseSnap(tok string) snapSpec {
	sp := snapSpec{hooks: map[int][]string{}, failAt: -1}
	rest := tok[1:]
	for len(rest) > 0 {
		switch rest[0] {
		case '@':
			end := strings.IndexAny(rest[1:], "@!")
			var item string
			if end < 0 {
				item, rest = rest[1:], ""
			} else {
				item, rest = rest[1:1+end], rest[1+end:]
			}
			kv := strings.SplitN(item, "=", 2)
			p, err := strconv.Atoi(kv[0])
			if err != nil || len(kv) != 2 {
				panic("bad hook " + item)
			}
			sp.hooks[p] = append(sp.hooks[p], kv[1])
		case '!':
			end := strings.IndexAny(rest[1:], "@!")
			var item string
			if end < 0 {
				item, rest = rest[1:], ""
			} else {
				item, rest = rest[1:1+end], rest[1+end:]
			}
			p, err := strconv.Atoi(item)
			if err != nil {
				panic("bad fault " + item)
			}
			sp.failAt = p
		default:
			panic("bad snapshot token " + tok)
		}
	}
	return sp
}

func parsePositions(s string) []int {
	var out []int
	for _, x := range strings.Split(s, "+") {
		n, err := strconv.Atoi(x)
		if err != nil {
			panic("bad merge positions " + s)
		}
		out = append(out, n)
	}
	return out
}

func exists(p string) bool {
	_, err := os.Stat(p)
	return err == nil
}

// inspectTableDir renders man= dirs= inc= other= for a table directory copy.
func inspectTableDir(dir string) string { return inspectDir(measureEngine, dir) }

func inspectDir(e engine, dir string) string {
	m := e.inspect(realFS, dir)
	if m.Err == "absent" {
		return "man=none dirs=- inc=- other=0"
	}
	man := "none"
	if m.Err != "" {
		man = m.Err
	} else if len(m.Epochs) > 0 {
		man = showIDs(sortedIDs(m.Listed))
	}
	var inc []uint64
	for _, id := range sortedIDs(m.Dirs) {
		if !m.Complete[id] {
			inc = append(inc, id)
		}
	}
	other := len(m.BadDirs) + len(m.OtherFile)
	if len(m.Epochs) > 1 {
		other += len(m.Epochs) - 1
	}
	out := fmt.Sprintf("man=%s dirs=%s inc=%s other=%d", man, showIDs(sortedIDs(m.Dirs)), showIDs(inc), other)
	if e.index {
		out += " idx=" + showIDs(sortedIDs(m.IndexDirs))
	}
	return out
}

// openTableCopy opens a table directory with the real loader and queries everything.
func openTableCopy(e engine, dir string, base int64) string {
	return drv.Safe(func() string {
		c := e.open(realFS, dir)
		defer c.Close()
		rows, err := c.Query()
		if err != nil {
			return "open=qerr oparts=- rows=-"
		}
		out := fmt.Sprintf("open=ok oparts=%s rows=%s", showIDs(sortedIDs(c.DiskPartIDs())), showRows(rows, base))
		if e.index {
			out += " ikeys=" + showIndex(c)
		}
		return out
	})
}

// showIndex renders the keys of the secondary index of a trace table (every trace is indexed under its value).
func showIndex(t tableAPI) string {
	tt, ok := t.(*trace.VerifTable)
	if !ok {
		return "-"
	}
	keys, present, err := tt.IndexEntries()
	if err != nil {
		return "err"
	}
	if !present {
		return "none"
	}
	if len(keys) == 0 {
		return "-"
	}
	ss := make([]string, len(keys))
	for i, k := range keys {
		ss[i] = strconv.FormatInt(k, 10)
	}
	return strings.Join(ss, ",")
}

// ---------------------------------------------------------------------------------------------------------
// tbl

type tblCase struct {
	t        tableAPI
	eng      engine
	deferred []string // operations waiting for the publication mutex (trace)
	hs    *hookState
	dir   string
	next  int
	snapN int
}

// blocked reports whether a publication would have to wait right now.
func (c *tblCase) blocked() bool {
	p, ok := c.t.(interface{ CanPublish() bool })
	return ok && !p.CanPublish()
}

// runDeferred performs the operations that were waiting, once the mutex is free.
func (c *tblCase) runDeferred() {
	for len(c.deferred) > 0 && !c.blocked() {
		op := c.deferred[0]
		c.deferred = c.deferred[1:]
		c.maint(op)
	}
}

func (c *tblCase) maint(op string) {
	if c.blocked() {
		c.deferred = append(c.deferred, op)
		return
	}
	c.maintNoDefer(op)
}

// maintNoDefer performs the operation even if its publication has to wait (it then blocks, as a real goroutine does).
func (c *tblCase) maintNoDefer(op string) {
	switch {
	case op == "b":
		c.next++
		trace.VerifCandidates = append(trace.VerifCandidates, rowsOf(c.next, tsBase)...)
		c.t.AddBatch(rowsOf(c.next, tsBase))
	case op == "f":
		c.t.Flush()
	case strings.HasPrefix(op, "m"):
		c.t.Merge(parsePositions(op[1:]))
	default:
		panic("bad maintenance op " + op)
	}
	if !c.t.Settle() {
		panic("asynchronous part removal did not settle")
	}
}

// fenced is what the trace export offers to stage a publication that is queued on the publication fence.
type fenced interface {
	HoldFence()
	ReleaseFence()
	PublicationQueued() bool
}

// snapshotQueued handles `sq=<op>` (trace): a reader (a two-phase query) holds the publication fence shared, the
// publication of <op> (introduce / flush / merge) is queued behind it, the snapshot request lands, then the reader
// finishes. Go's RWMutex serves the queued writer first, so the snapshot must describe the state after <op> - or at
// any rate ONE state: its index parts must be those of its core parts.
func (c *tblCase) snapshotQueued(tok string) string {
	op := strings.TrimPrefix(tok, "sq=")
	f, ok := c.t.(fenced)
	if !ok {
		c.maint(op)
		return c.snapshot("s")
	}
	f.HoldFence()
	held := true
	release := func() {
		if held {
			held = false
			f.ReleaseFence()
		}
	}
	defer release()
	opDone := make(chan string, 1)
	go func() { opDone <- drv.Safe(func() string { c.maintNoDefer(op); return "" }) }()
	queued := false
	deadline := time.Now().Add(30 * time.Second)
	for !queued {
		select {
		case r := <-opDone:
			// the operation published nothing (e.g. a flush without in-memory parts): plain snapshot
			if r != "" {
				panic(r)
			}
			release()
			return c.snapshot("s")
		default:
		}
		if f.PublicationQueued() {
			queued = true
		} else if time.Now().After(deadline) {
			panic("publication did not queue on the fence")
		} else {
			time.Sleep(200 * time.Microsecond)
		}
	}
	snapDone := make(chan string, 1)
	go func() { snapDone <- drv.Safe(func() string { return c.snapshot("s") }) }()
	time.Sleep(40 * time.Millisecond) // let the snapshot request reach the fence
	release()
	if r := <-opDone; r != "" {
		panic(r)
	}
	out := <-snapDone
	if !c.t.Settle() {
		panic("asynchronous part removal did not settle")
	}
	return out
}

func (c *tblCase) snapshot(tok string) string {
	sp := parseSnap(tok)
	c.snapN++
	dst := filepath.Join(c.dir, fmt.Sprintf("snap%d", c.snapN))
	if c.eng.precreateDst {
		if err := os.MkdirAll(dst, 0o755); err != nil {
			panic(err)
		}
	}
	pin := showParts(c.t)
	var fired []string
	var hookOut []string
	st := c.hs
	st.calls, st.failAt, st.armed, st.kinds = 0, sp.failAt, true, nil
	st.before = func(p int) {
		fired = append(fired, strconv.Itoa(p))
		hookOut = append(hookOut, fmt.Sprintf("%d:snap=%d;refs=%s", p, c.t.SnapshotRef(), showRefs(c.t)))
		c.runDeferred()
		for _, op := range sp.hooks[p] {
			c.maint(op)
		}
	}
	ok, err := c.t.Snapshot(dst)
	st.armed = false
	c.runDeferred()
	if !c.t.Settle() {
		panic("asynchronous part removal did not settle")
	}
	ret := "F"
	if errors.Is(err, storage.ErrNoCurrentSnapshot) {
		ret = "N"
	} else if err != nil {
		ret = "E"
	} else if ok {
		ret = "T"
	}
	f := "-"
	if len(fired) > 0 {
		f = strings.Join(fired, ",")
	}
	h := "-"
	if len(hookOut) > 0 {
		h = strings.Join(hookOut, "/")
	}
	out := fmt.Sprintf("S ret=%s fired=%s kinds=%s pin=%s hooks=%s dst=%s %s", ret, f, showKinds(st.kinds), pin, h, drv.B01(exists(dst)), inspectDir(c.eng, dst))
	if exists(dst) {
		out += " " + openTableCopy(c.eng, dst, tsBase)
	} else {
		out += " open=none oparts=- rows=-"
		if c.eng.index {
			out += " ikeys=none"
		}
	}
	return out
}

func runTbl(e engine, ops []string) string {
	caseNo++
	trace.VerifCandidates = nil
	dir := filepath.Join(scratch, fmt.Sprintf("t%d", caseNo))
	root := filepath.Join(dir, "tab")
	if err := os.MkdirAll(root, 0o755); err != nil {
		panic(err)
	}
	defer os.RemoveAll(dir)
	hs := &hookState{failAt: -1, mkdirPoints: e.mkdirPoints}
	c := &tblCase{hs: hs, dir: dir, eng: e}
	c.t = e.open(&hookFS{FileSystem: realFS, st: hs}, root)
	defer c.t.Close()
	var recs []string
	for _, op := range ops {
		if strings.HasPrefix(op, "sq=") {
			recs = append(recs, c.snapshotQueued(op))
			continue
		}
		if strings.HasPrefix(op, "s") {
			recs = append(recs, c.snapshot(op))
			continue
		}
		c.maint(op)
	}
	rows, err := c.t.Query()
	q := showRows(rows, tsBase)
	if err != nil {
		q = "qerr"
	}
	fin := fmt.Sprintf("F parts=%s snap=%d refs=%s rows=%s", showParts(c.t), c.t.SnapshotRef(), showRefs(c.t), q)
	if e.index {
		fin += " ikeys=" + showIndex(c.t)
	}
	recs = append(recs, fin)
	return strings.Join(recs, " | ")
}

// ---------------------------------------------------------------------------------------------------------
// db

var dayStart = time.Date(2024, 5, 1, 0, 0, 0, 0, time.UTC)

func dayTime(d int) time.Time { return dayStart.AddDate(0, 0, d).Add(time.Hour) }

func daySuffix(d int) string { return dayStart.AddDate(0, 0, d).Format("20060102") }

type dbCase struct {
	db    *measure.VerifDB
	hs    *hookState
	holds map[int]int
	dead  map[int]bool
	dir   string
	next  int
	snapN int
}

func digit(b byte) int {
	if b < '0' || b > '9' {
		panic("bad digit")
	}
	return int(b - '0')
}

func (c *dbCase) settleAll() {
	for d := 0; d < 4; d++ {
		for h := 0; h < 3; h++ {
			if t := c.db.Table(daySuffix(d), h); t != nil && !t.Settle() {
				panic("asynchronous part removal did not settle")
			}
		}
	}
}

// plantJunk puts into a segment directory the transient artifacts that includeInClosedSnapshot must keep out of a
// snapshot: a bluge lock file, a failed-parts directory, an external-segment temp directory and a ".tmp" file.
func plantJunk(segDir string) {
	if !exists(segDir) {
		return
	}
	mk := func(p string) {
		_ = os.MkdirAll(filepath.Dir(p), 0o755)
		if !exists(p) {
			_ = os.WriteFile(p, []byte("junk"), 0o600)
		}
	}
	mk(filepath.Join(segDir, "sidx", "bluge.pid"))
	mk(filepath.Join(segDir, "sidx", "external-segment-temp", "x.seg"))
	mk(filepath.Join(segDir, "metadata.tmp"))
	ents, _ := os.ReadDir(segDir)
	for _, e := range ents {
		if e.IsDir() && strings.HasPrefix(e.Name(), "shard-") {
			mk(filepath.Join(segDir, e.Name(), "failed-parts", "0000000000000001", "meta.bin"))
			mk(filepath.Join(segDir, e.Name(), "00000000000000ff.snp.tmp"))
		}
	}
}

func (c *dbCase) maint(op string) {
	if op[0] != 'r' && c.dead[digit(op[1])] {
		return // the day's segment was deleted: only releases are meaningful
	}
	switch op[0] {
	case 'j':
		if s := c.db.Segs[daySuffix(digit(op[1]))]; s != nil {
			plantJunk(s.Location())
		}
	case 'w':
		d, h := digit(op[1]), digit(op[2])
		c.next++
		if err := c.db.Write(dayTime(d), h, rowsOf(c.next, dayTime(d).UnixNano())); err != nil {
			panic("write: " + err.Error())
		}
	case 'f':
		if t := c.db.Table(daySuffix(digit(op[1])), digit(op[2])); t != nil {
			t.Flush()
		}
	case 'm':
		if t := c.db.Table(daySuffix(digit(op[1])), digit(op[2])); t != nil {
			n := len(t.DiskPartIDs())
			pos := make([]int, n)
			for i := range pos {
				pos[i] = i
			}
			t.Merge(pos)
		}
	case 'c':
		if s := c.db.Segs[daySuffix(digit(op[1]))]; s != nil {
			s.CloseIfIdle()
		}
	case 'h':
		d := digit(op[1])
		if s := c.db.Segs[daySuffix(d)]; s != nil {
			if err := s.Hold(); err == nil {
				c.holds[d]++
			}
		}
	case 'r':
		d := digit(op[1])
		if s := c.db.Segs[daySuffix(d)]; s != nil && c.holds[d] > 0 {
			c.holds[d]--
			s.Release()
		}
	case 'x':
		if s := c.db.Segs[daySuffix(digit(op[1]))]; s != nil {
			c.dead[digit(op[1])] = true
			c.db.Remove(s)
		}
	case 'X':
		if s := c.db.Segs[daySuffix(digit(op[1]))]; s != nil {
			c.dead[digit(op[1])] = true
			s.DeleteFlag()
		}
	default:
		panic("bad db op " + op)
	}
	c.settleAll()
}

func (c *dbCase) segStates() string {
	var ss []string
	for d := 0; d < 4; d++ {
		s := c.db.Segs[daySuffix(d)]
		if s == nil {
			continue
		}
		st := s.State()
		ss = append(ss, fmt.Sprintf("%d:%s%s%s%d", d, drv.B01(st.Open), drv.B01(st.Del), drv.B01(st.DirExists), st.Ref))
	}
	if len(ss) == 0 {
		return "-"
	}
	return strings.Join(ss, ",")
}

func (c *dbCase) snapshot(tok string) string {
	sp := parseSnap(tok)
	c.snapN++
	dst := filepath.Join(c.dir, fmt.Sprintf("snap%d", c.snapN))
	before := c.segStates()
	var fired []string
	st := c.hs
	st.calls, st.failAt, st.armed, st.kinds, st.at = 0, sp.failAt, true, nil, nil
	st.before = func(p int) {
		fired = append(fired, strconv.Itoa(p))
		for _, op := range sp.hooks[p] {
			c.maint(op)
		}
	}
	ok, err := c.db.DB.TakeFileSnapshot(dst)
	st.armed = false
	c.settleAll()
	after := c.segStates()
	ret := "F"
	if err != nil {
		ret = "E"
	} else if ok {
		ret = "T"
	}
	f := "-"
	if len(fired) > 0 {
		f = strings.Join(fired, ",")
	}
	at := "-"
	if len(st.at) > 0 {
		at = strings.Join(st.at, ",")
	}
	out := fmt.Sprintf("S ret=%s fired=%s kinds=%s at=%s before=%s after=%s dst=%s", ret, f, showKinds(st.kinds), at, before, after, drv.B01(exists(dst)))
	if !exists(dst) {
		return out + " copy=none"
	}
	// static inspection of the copy, then open it with the real OpenTSDB
	var segs []string
	ents, _ := os.ReadDir(dst)
	for _, e := range ents {
		if !e.IsDir() || !strings.HasPrefix(e.Name(), "seg-") {
			segs = append(segs, "?"+e.Name())
			continue
		}
		segDir := filepath.Join(dst, e.Name())
		d := -1
		for i := 0; i < 4; i++ {
			if "seg-"+daySuffix(i) == e.Name() {
				d = i
			}
		}
		meta := drv.B01(exists(filepath.Join(segDir, "metadata")))
		sidx := drv.B01(exists(filepath.Join(segDir, "sidx")))
		junk := 0
		var shards []string
		sub, _ := os.ReadDir(segDir)
		for _, se := range sub {
			switch {
			case se.Name() == "metadata" || se.Name() == "sidx":
			case se.IsDir() && strings.HasPrefix(se.Name(), "shard-"):
				shards = append(shards, fmt.Sprintf("%s{%s}", strings.TrimPrefix(se.Name(), "shard-"), inspectTableDir(filepath.Join(segDir, se.Name()))))
			default:
				junk++
			}
		}
		_ = filepath.Walk(segDir, func(p string, info os.FileInfo, err error) error {
			if err == nil && p != segDir && isJunk(p) {
				junk++
			}
			return nil
		})
		segs = append(segs, fmt.Sprintf("%d[meta=%s sidx=%s junk=%d %s]", d, meta, sidx, junk, strings.Join(shards, " ")))
	}
	out += " copy=" + strings.Join(segs, ";")
	direct := queryCopy(dst)
	out += " " + direct
	// the same copy through the real backup upload loop and restore download loop (plain file-tree copies)
	// Every snapshot of a case is uploaded into the SAME remote time-dir, as successive backups of one day are: the
	// second and later uploads are incremental (unchanged files are kept, files of older snapshots are orphans).
	// The restored tree must be the tree of the snapshot just uploaded, and open to the same content.
	out += " bk=" + drv.Safe(func() string {
		remote := filepath.Join(c.dir, "remote")
		root := filepath.Join(c.dir, fmt.Sprintf("restore%d", c.snapN))
		want := listFiles(dst)
		if berr := backup.VerifBackupRestore(dst, remote, root, "measure"); berr != nil {
			return "err"
		}
		got := listFiles(filepath.Join(root, "measure", "data"))
		if missing, extra := diffLists(want, got); missing+extra > 0 {
			return fmt.Sprintf("files:missing%d,extra%d", missing, extra)
		}
		restored := queryCopy(filepath.Join(root, "measure", "data"))
		if dropEmpty(restored) == dropEmpty(direct) {
			return "same"
		}
		return "diff:" + strings.ReplaceAll(restored, " ", "_")
	})
	return out
}

// listFiles lists the regular files under root (relative paths, sorted).
func listFiles(root string) []string {
	var out []string
	_ = filepath.Walk(root, func(p string, info os.FileInfo, err error) error {
		if err == nil && !info.IsDir() {
			if rel, rerr := filepath.Rel(root, p); rerr == nil {
				out = append(out, filepath.ToSlash(rel))
			}
		}
		return nil
	})
	sort.Strings(out)
	return out
}

func diffLists(want, got []string) (missing, extra int) {
	w := map[string]bool{}
	for _, x := range want {
		w[x] = true
	}
	g := map[string]bool{}
	for _, x := range got {
		g[x] = true
		if !w[x] {
			extra++
		}
	}
	for _, x := range want {
		if !g[x] {
			missing++
		}
	}
	return missing, extra
}

// queryCopy opens a database directory with the real OpenTSDB and queries every table.
func queryCopy(dir string) string {
	return drv.Safe(func() string {
		cp, oerr := measure.VerifOpenDB(dir, 3, nil)
		if oerr != nil {
			return "open=err"
		}
		defer cp.Close()
		var qs []string
		for d := 0; d < 4; d++ {
			s := cp.Segs[daySuffix(d)]
			if s == nil {
				continue
			}
			if herr := s.Hold(); herr != nil {
				qs = append(qs, fmt.Sprintf("%d:holderr", d))
				continue
			}
			for h := 0; h < 3; h++ {
				t := cp.Table(daySuffix(d), h)
				if t == nil {
					continue
				}
				rows, qerr := t.Query()
				r := showRows(rows, dayTime(d).UnixNano())
				if qerr != nil {
					r = "qerr"
				}
				qs = append(qs, fmt.Sprintf("%d.%d:%s:%s", d, h, showIDs(sortedIDs(t.DiskPartIDs())), r))
			}
			s.Release()
		}
		if len(qs) == 0 {
			return "open=ok q=-"
		}
		return "open=ok q=" + strings.Join(qs, ";")
	})
}

// dropEmpty removes the entries of empty tables from a query rendering (a backup copies files, so directories
// without files do not survive it).
func dropEmpty(q string) string {
	i := strings.Index(q, "q=")
	if i < 0 {
		return q
	}
	var keep []string
	for _, it := range strings.Split(q[i+2:], ";") {
		if !strings.HasSuffix(it, ":-:-") && it != "-" {
			keep = append(keep, it)
		}
	}
	return q[:i+2] + strings.Join(keep, ";")
}

// isJunk is the driver's own list of artifacts that must never appear in a snapshot (independent of the code's
// includeInClosedSnapshot).
func isJunk(p string) bool {
	b := filepath.Base(p)
	return b == "bluge.pid" || b == "failed-parts" || b == "external-segment-temp" || strings.HasSuffix(b, ".tmp")
}

func runDB(ops []string) string {
	caseNo++
	dir := filepath.Join(scratch, fmt.Sprintf("d%d", caseNo))
	if err := os.MkdirAll(dir, 0o755); err != nil {
		panic(err)
	}
	defer os.RemoveAll(dir)
	hs := &hookState{failAt: -1}
	db, err := measure.VerifOpenDB(filepath.Join(dir, "data"), 3, func(f fs.FileSystem) fs.FileSystem {
		return &hookFS{FileSystem: f, st: hs}
	})
	if err != nil {
		panic(err)
	}
	c := &dbCase{db: db, hs: hs, dir: dir, holds: map[int]int{}, dead: map[int]bool{}}
	defer func() {
		for d, n := range c.holds {
			for i := 0; i < n; i++ {
				if s := c.db.Segs[daySuffix(d)]; s != nil {
					s.Release()
				}
			}
		}
		_ = c.db.Close()
	}()
	var recs []string
	for _, op := range ops {
		if strings.HasPrefix(op, "s") {
			recs = append(recs, c.snapshot(op))
			continue
		}
		c.maint(op)
	}
	// final view of the source: every live table's content (nothing may have been disturbed)
	var qs []string
	for d := 0; d < 4; d++ {
		for h := 0; h < 3; h++ {
			t := c.db.Table(daySuffix(d), h)
			if t == nil {
				continue
			}
			rows, qerr := t.Query()
			r := showRows(rows, dayTime(d).UnixNano())
			if qerr != nil {
				r = "qerr"
			}
			qs = append(qs, fmt.Sprintf("%d.%d:%s:%s", d, h, showParts(t), r))
		}
	}
	q := "-"
	if len(qs) > 0 {
		q = strings.Join(qs, ";")
	}
	recs = append(recs, fmt.Sprintf("F segs=%s q=%s", c.segStates(), q))
	return strings.Join(recs, " | ")
}

func handle(f []string) string {
	if len(f) == 0 {
		return "bad-op"
	}
	switch f[0] {
	case "tbl":
		return runTbl(measureEngine, f[1:])
	case "stb":
		return runTbl(streamEngine, f[1:])
	case "ttb", "ttbx":
		return runTbl(traceEngine, f[1:])
	case "db":
		return runDB(f[1:])
	}
	return "bad-op"
}

func main() {
	time.Local = time.UTC
	_ = logger.Init(logger.Logging{Env: "prod", Level: "error"})
	base := os.Getenv("VERIF_SCRATCH")
	if base == "" {
		base = "/verif/.scratch"
	}
	scratch = filepath.Join(base, fmt.Sprintf("c19-%d", os.Getpid()))
	if err := os.MkdirAll(scratch, 0o755); err != nil {
		panic(err)
	}
	defer os.RemoveAll(scratch)
	realFS = fs.NewLocalFileSystem()
	drv.Run(handle)
}
