//go:build verif

// Driver for C20: pkg/bydbql ParseQuery / BindParams / Prepare / Bind / Transform / TransformBound and the
// liaison's prepared-statement cache (banyand/liaison/grpc/bydbql_cache.go), all run in-process on the real code.
//
// ops (one line in, one line out):
//
//	ast  <stmt-hex>                                                     -> T=<canonical template AST> | PARSEERR
//	bind <stmt-hex> <ast> <lit1-hex|-> <lit2-hex|-> <params1> <params2> -> <model part> ## <oracle part>
//
// model part (reproduced byte for byte by the Lean model):
//
//	T= template dump, B1=/B2= dump after BindParams(params1/2) or ERR:<kind>:<idx>, PT= template after Prepare
//	(placeholders numbered), SP= placeholder specs, O1=/O2= overlay of Bind(params1/2) or ERR
//
// oracle part (implementation only, judged by checks/C20.py): purity/leak flags, literal-AST equality,
// request hashes through every path (literal, in-place bind, prepared, liaison cache).
package main

import (
	"context"
	"crypto/sha1"
	"encoding/hex"
	"fmt"
	"os"
	"sort"
	"strconv"
	"strings"
	"time"

	"google.golang.org/protobuf/encoding/prototext"
	"google.golang.org/protobuf/proto"
	"google.golang.org/protobuf/reflect/protoreflect"
	"google.golang.org/protobuf/types/known/timestamppb"

	commonv1 "github.com/apache/skywalking-banyandb/api/proto/banyandb/common/v1"
	databasev1 "github.com/apache/skywalking-banyandb/api/proto/banyandb/database/v1"
	measurev1 "github.com/apache/skywalking-banyandb/api/proto/banyandb/measure/v1"
	modelv1 "github.com/apache/skywalking-banyandb/api/proto/banyandb/model/v1"
	propertyv1 "github.com/apache/skywalking-banyandb/api/proto/banyandb/property/v1"
	streamv1 "github.com/apache/skywalking-banyandb/api/proto/banyandb/stream/v1"
	"github.com/apache/skywalking-banyandb/banyand/internal/verifdrv/drv"
	lgrpc "github.com/apache/skywalking-banyandb/banyand/liaison/grpc"
	"github.com/apache/skywalking-banyandb/banyand/metadata"
	"github.com/apache/skywalking-banyandb/banyand/metadata/schema"
	"github.com/apache/skywalking-banyandb/pkg/bydbql"
)

// ---------------------------------------------------------------------------------------------
// fake schema registry (mockgen output is absent from the tree)

type fakeRepo struct {
	metadata.Repo
}

type fakeStream struct{ schema.Stream }

type fakeMeasure struct{ schema.Measure }

type fakeTrace struct{ schema.Trace }

type fakeProperty struct{ schema.Property }

type fakeTopN struct{ schema.TopNAggregation }

func (fakeRepo) StreamRegistry() schema.Stream                   { return fakeStream{} }
func (fakeRepo) MeasureRegistry() schema.Measure                 { return fakeMeasure{} }
func (fakeRepo) TraceRegistry() schema.Trace                     { return fakeTrace{} }
func (fakeRepo) PropertyRegistry() schema.Property               { return fakeProperty{} }
func (fakeRepo) TopNAggregationRegistry() schema.TopNAggregation { return fakeTopN{} }

func tag(n string, t databasev1.TagType) *databasev1.TagSpec {
	return &databasev1.TagSpec{Name: n, Type: t}
}

func knownGroup(g string) bool { return g == "default" || g == "g2" }

func (fakeStream) GetStream(_ context.Context, md *commonv1.Metadata) (*databasev1.Stream, error) {
	if md.Name != "sw" || !knownGroup(md.Group) {
		return nil, fmt.Errorf("stream not found")
	}
	return &databasev1.Stream{
		Metadata: &commonv1.Metadata{Name: "sw", Group: md.Group},
		TagFamilies: []*databasev1.TagFamilySpec{
			{Name: "searchable", Tags: []*databasev1.TagSpec{
				tag("service_id", databasev1.TagType_TAG_TYPE_STRING),
				tag("message", databasev1.TagType_TAG_TYPE_STRING),
				tag("tags", databasev1.TagType_TAG_TYPE_STRING_ARRAY),
				tag("duration", databasev1.TagType_TAG_TYPE_INT),
				tag("codes", databasev1.TagType_TAG_TYPE_INT_ARRAY),
				tag("created_at", databasev1.TagType_TAG_TYPE_TIMESTAMP),
			}},
			{Name: "data", Tags: []*databasev1.TagSpec{
				tag("payload", databasev1.TagType_TAG_TYPE_DATA_BINARY),
			}},
		},
	}, nil
}

func (fakeMeasure) GetMeasure(_ context.Context, md *commonv1.Metadata) (*databasev1.Measure, error) {
	if md.Name != "svc_metrics" || !knownGroup(md.Group) {
		return nil, fmt.Errorf("measure not found")
	}
	return &databasev1.Measure{
		Metadata: &commonv1.Metadata{Name: "svc_metrics", Group: md.Group},
		TagFamilies: []*databasev1.TagFamilySpec{{Name: "default", Tags: []*databasev1.TagSpec{
			tag("service", databasev1.TagType_TAG_TYPE_STRING),
			tag("instance", databasev1.TagType_TAG_TYPE_STRING),
			tag("code", databasev1.TagType_TAG_TYPE_INT),
			tag("labels", databasev1.TagType_TAG_TYPE_STRING_ARRAY),
		}}},
		Fields: []*databasev1.FieldSpec{
			{Name: "value", FieldType: databasev1.FieldType_FIELD_TYPE_INT},
			{Name: "total", FieldType: databasev1.FieldType_FIELD_TYPE_INT},
		},
	}, nil
}

func (fakeTopN) GetTopNAggregation(_ context.Context, md *commonv1.Metadata) (*databasev1.TopNAggregation, error) {
	if md.Name != "svc_topn" || !knownGroup(md.Group) {
		return nil, fmt.Errorf("topn aggregation not found")
	}
	return &databasev1.TopNAggregation{
		Metadata:      &commonv1.Metadata{Name: "svc_topn", Group: md.Group},
		SourceMeasure: &commonv1.Metadata{Name: "svc_metrics", Group: md.Group},
	}, nil
}

func (fakeTrace) GetTrace(_ context.Context, md *commonv1.Metadata) (*databasev1.Trace, error) {
	if md.Name != "sw_trace" || !knownGroup(md.Group) {
		return nil, fmt.Errorf("trace not found")
	}
	return &databasev1.Trace{
		Metadata: &commonv1.Metadata{Name: "sw_trace", Group: md.Group},
		Tags: []*databasev1.TraceTagSpec{
			{Name: "trace_id", Type: databasev1.TagType_TAG_TYPE_STRING},
			{Name: "service_id", Type: databasev1.TagType_TAG_TYPE_STRING},
			{Name: "status", Type: databasev1.TagType_TAG_TYPE_STRING},
			{Name: "duration", Type: databasev1.TagType_TAG_TYPE_INT},
			{Name: "span_tags", Type: databasev1.TagType_TAG_TYPE_STRING_ARRAY},
		},
	}, nil
}

func (fakeProperty) GetProperty(_ context.Context, md *commonv1.Metadata) (*databasev1.Property, error) {
	if md.Name != "sw_prop" || !knownGroup(md.Group) {
		return nil, fmt.Errorf("property not found")
	}
	return &databasev1.Property{
		Metadata: &commonv1.Metadata{Name: "sw_prop", Group: md.Group},
		Tags: []*databasev1.TagSpec{
			tag("env", databasev1.TagType_TAG_TYPE_STRING),
			tag("weight", databasev1.TagType_TAG_TYPE_INT),
			tag("labels", databasev1.TagType_TAG_TYPE_STRING_ARRAY),
		},
	}, nil
}

// ---------------------------------------------------------------------------------------------
// canonical AST dump (no whitespace; strings hex-encoded)

func hx(s string) string { return hex.EncodeToString([]byte(s)) }

func dumpValue(v *bydbql.GrammarValue) string {
	if v == nil {
		return "x(nil)"
	}
	set := 0
	if v.String != nil {
		set++
	}
	if v.Integer != nil {
		set++
	}
	if v.Null {
		set++
	}
	if v.Param {
		set++
	}
	if set != 1 {
		return fmt.Sprintf("x(%v.%v.%v.%v)", v.String != nil, v.Integer != nil, v.Null, v.Param)
	}
	switch {
	case v.Param:
		return "p" + strconv.Itoa(v.ParamIndex)
	case v.String != nil:
		return "s" + hx(*v.String)
	case v.Integer != nil:
		return "i" + strconv.FormatInt(*v.Integer, 10)
	default:
		return "n"
	}
}

func dumpTimeValue(v *bydbql.GrammarTimeValue) string {
	if v == nil {
		return "x(nil)"
	}
	set := 0
	if v.String != nil {
		set++
	}
	if v.Integer != nil {
		set++
	}
	if v.Param {
		set++
	}
	if set != 1 {
		return fmt.Sprintf("x(%v.%v.%v)", v.String != nil, v.Integer != nil, v.Param)
	}
	switch {
	case v.Param:
		return "p" + strconv.Itoa(v.ParamIndex)
	case v.String != nil:
		return "s" + hx(*v.String)
	default:
		return "i" + strconv.FormatInt(*v.Integer, 10)
	}
}

func dumpCount(value int, param bool, idx int) string {
	if param {
		if value != 0 {
			return fmt.Sprintf("x(%d.param)", value)
		}
		return "p" + strconv.Itoa(idx)
	}
	return "c" + strconv.Itoa(value)
}

func identStr(id *bydbql.GrammarIdentifierPath) string {
	if id == nil {
		return "nil"
	}
	if id.QuotedIdent != nil {
		return "q:" + *id.QuotedIdent
	}
	part := func(p *bydbql.GrammarIdentifierPart) string {
		if p == nil {
			return "nil"
		}
		if p.Ident != nil {
			return "i:" + *p.Ident
		}
		if p.Keyword != nil {
			return "k:" + *p.Keyword
		}
		return "?"
	}
	parts := []string{part(id.First)}
	for _, r := range id.Rest {
		parts = append(parts, part(r))
	}
	return strings.Join(parts, ".")
}

func optStr(s *string) string {
	if s == nil {
		return "_"
	}
	return "h" + hx(*s)
}

func dumpVals(tagName string, vs []*bydbql.GrammarValue) string {
	parts := make([]string, len(vs))
	for i, v := range vs {
		parts[i] = dumpValue(v)
	}
	return tagName + "(" + strings.Join(parts, ",") + ")"
}

func dumpMulti(single *bydbql.GrammarValue, array []*bydbql.GrammarValue) string {
	if single != nil {
		if array != nil {
			return "x(single+array)"
		}
		return "one(" + dumpValue(single) + ")"
	}
	return dumpVals("arr", array)
}

func dumpPred(p *bydbql.GrammarPredicate) string {
	switch {
	case p == nil:
		return "x(nilpred)"
	case p.Paren != nil:
		return "par(" + dumpOr(p.Paren) + ")"
	case p.Binary != nil:
		b := p.Binary
		if b.Tail == nil {
			return "x(niltail)"
		}
		if b.Tail.Compare != nil {
			return "cmp(h" + hx(identStr(b.Identifier)) + ",h" + hx(b.Tail.Compare.Operator) + "," + dumpValue(b.Tail.Compare.Value) + ")"
		}
		if m := b.Tail.Match; m != nil {
			if m.Values == nil {
				return "x(nilmatchvalues)"
			}
			return "mat(h" + hx(identStr(b.Identifier)) + "," + dumpMulti(m.Values.Single, m.Values.Array) + "," + optStr(m.Analyzer) + "," + optStr(m.Operator) + ")"
		}
		return "x(emptytail)"
	case p.In != nil:
		in := p.In
		not := "0"
		if in.Not != nil {
			not = "1"
		}
		parts := []string{"h" + hx(identStr(in.Identifier)), not}
		for _, v := range in.Values {
			parts = append(parts, dumpValue(v))
		}
		return "in(" + strings.Join(parts, ",") + ")"
	case p.Having != nil:
		h := p.Having
		not := "0"
		if h.Not != nil {
			not = "1"
		}
		if h.Values == nil {
			return "x(nilhavingvalues)"
		}
		return "hav(h" + hx(identStr(h.Identifier)) + "," + not + "," + dumpMulti(h.Values.Single, h.Values.Array) + ")"
	}
	return "x(emptypred)"
}

func dumpAnd(a *bydbql.GrammarAndExpr) string {
	if a == nil {
		return "x(niland)"
	}
	parts := []string{dumpPred(a.Left)}
	for _, r := range a.Right {
		parts = append(parts, dumpPred(r.Right))
	}
	return "and(" + strings.Join(parts, ",") + ")"
}

func dumpOr(o *bydbql.GrammarOrExpr) string {
	if o == nil {
		return "x(nilor)"
	}
	parts := []string{dumpAnd(o.Left)}
	for _, r := range o.Right {
		parts = append(parts, dumpAnd(r.Right))
	}
	return "or(" + strings.Join(parts, ",") + ")"
}

func dumpTime(t *bydbql.GrammarTimeClause) string {
	if t == nil {
		return "_"
	}
	if t.Between != nil {
		if t.Value != nil || t.Comparator != nil {
			return "x(time-both)"
		}
		return "tb(" + dumpTimeValue(t.Between.Begin) + "," + dumpTimeValue(t.Between.End) + ")"
	}
	if t.Comparator == nil {
		return "x(time-nocmp)"
	}
	return "tc(h" + hx(*t.Comparator) + "," + dumpTimeValue(t.Value) + ")"
}

func colStr(c *bydbql.GrammarColumn) string {
	s := ""
	if c.Aggregate != nil {
		s = "agg:" + c.Aggregate.Function + "(" + identStr(c.Aggregate.Column) + ")"
	} else {
		s = identStr(c.Identifier)
	}
	if c.TypeSpec != nil {
		s += "::" + *c.TypeSpec
	}
	return s
}

func fromStr(f *bydbql.GrammarFromClause) string {
	if f == nil {
		return "from=nil"
	}
	s := "from=" + f.ResourceType + " " + f.ResourceName
	if f.In != nil {
		s += fmt.Sprintf(" in[%v%v]=%s", f.In.LParen, f.In.RParen, strings.Join(f.In.Groups, "|"))
	}
	if f.Stage != nil {
		s += fmt.Sprintf(" on[%v%v]=%s", f.Stage.LParen, f.Stage.RParen, strings.Join(f.Stage.Stages, "|"))
	}
	return s
}

func sp(s *string) string {
	if s == nil {
		return "-"
	}
	return *s
}

func dumpGrammar(g *bydbql.Grammar) string {
	bound := "0"
	if bydbql.VerifC20ParamsBound(g) {
		bound = "1"
	}
	switch {
	case g.Select != nil && g.TopN != nil:
		return "x(select+topn)"
	case g.Select != nil:
		s := g.Select
		hdr := "proj="
		topn := "_"
		if p := s.Projection; p != nil {
			switch {
			case p.All:
				hdr += "*"
			case p.Empty:
				hdr += "()"
			case p.TopN != nil:
				hdr += "top " + identStr(p.TopN.OrderField) + " " + sp(p.TopN.Direction)
				for _, c := range p.TopN.OtherColumns {
					hdr += "," + colStr(c)
				}
				topn = dumpCount(p.TopN.N, p.TopN.NParam, p.TopN.NParamIndex)
			default:
				cols := make([]string, len(p.Columns))
				for i, c := range p.Columns {
					cols[i] = colStr(c)
				}
				hdr += strings.Join(cols, ",")
			}
		} else {
			hdr += "nil"
		}
		hdr += ";" + fromStr(s.From)
		where := "_"
		if s.Where != nil {
			where = dumpOr(s.Where.Expr)
		}
		mid := ""
		if s.GroupBy != nil {
			cols := make([]string, len(s.GroupBy.Columns))
			for i, c := range s.GroupBy.Columns {
				cols[i] = identStr(c.Identifier) + "::" + sp(c.TypeSpec)
			}
			mid += "groupby=" + strings.Join(cols, ",") + ";"
		}
		if s.OrderBy != nil {
			if s.OrderBy.Tail.DirOnly != nil {
				mid += "orderby=dir:" + *s.OrderBy.Tail.DirOnly + ";"
			} else if w := s.OrderBy.Tail.WithIdent; w != nil {
				mid += "orderby=" + identStr(w.Identifier) + " " + sp(w.Direction) + ";"
			}
		}
		if s.WithQueryTrace != nil {
			mid += "trace;"
		}
		limit, offset := "_", "_"
		if s.Limit != nil {
			limit = dumpCount(s.Limit.Value, s.Limit.Param, s.Limit.ParamIndex)
		}
		if s.Offset != nil {
			offset = dumpCount(s.Offset.Value, s.Offset.Param, s.Offset.ParamIndex)
		}
		return "sel(h" + hx(hdr) + "," + topn + "," + dumpTime(s.Time) + "," + where + ",h" + hx(mid) + "," + limit + "," + offset + "," + bound + ")"
	case g.TopN != nil:
		t := g.TopN
		hdr := fromStr(t.From)
		where := "_"
		if t.Where != nil {
			where = dumpAnd(t.Where.Expr)
		}
		tail := ""
		if t.AggregateBy != nil && t.AggregateBy.Function != nil {
			tail += "agg=" + t.AggregateBy.Function.Function + ";"
		}
		if t.OrderBy != nil {
			tail += "orderby=" + sp(t.OrderBy.Dir) + ";"
		}
		if t.WithQueryTrace != nil {
			tail += "trace;"
		}
		return "top(h" + hx(hdr) + "," + dumpCount(t.N, t.NParam, t.NParamIndex) + "," + dumpTime(t.Time) + "," + where + ",h" + hx(tail) + "," + bound + ")"
	}
	return "x(empty)"
}

func dumpSpecs(ps *bydbql.PreparedStatement) string {
	specs := bydbql.VerifC20Specs(ps)
	parts := make([]string, len(specs))
	for i, s := range specs {
		switch s.Kind {
		case 0:
			parts[i] = "S"
		case 1:
			parts[i] = "L"
		case 2:
			parts[i] = "T"
		case 3:
			parts[i] = "C" + strconv.FormatInt(s.Max, 10)
		default:
			parts[i] = "x"
		}
		if s.Kind != 3 && s.Max != 0 {
			parts[i] += "x"
		}
	}
	return "sp(" + strings.Join(parts, ",") + ")"
}

func dumpOverlay(bq *bydbql.BoundQuery) string {
	specs := bydbql.VerifC20Specs(bydbql.VerifC20Stmt(bq))
	ov := bydbql.VerifC20Overlay(bq)
	if len(specs) != len(ov) {
		return "x(overlay-len)"
	}
	parts := make([]string, len(ov))
	for i, r := range ov {
		switch specs[i].Kind {
		case 0, 1:
			if r.Time != "" || r.Count != 0 {
				parts[i] = "x(mixed)"
			} else {
				parts[i] = dumpVals("v", r.Values)
			}
		case 2:
			if r.Values != nil || r.Count != 0 {
				parts[i] = "x(mixed)"
			} else {
				parts[i] = "t" + hx(r.Time)
			}
		case 3:
			if r.Values != nil || r.Time != "" {
				parts[i] = "x(mixed)"
			} else {
				parts[i] = "c" + strconv.Itoa(r.Count)
			}
		}
	}
	return "ov(" + strings.Join(parts, ",") + ")"
}

// ---------------------------------------------------------------------------------------------
// parameters

func unhexS(s string) string {
	b, err := hex.DecodeString(s)
	if err != nil {
		panic("bad hex in protocol: " + s)
	}
	return string(b)
}

func parseParam(s string) *modelv1.TagValue {
	if s == "" {
		panic("empty param")
	}
	rest := s[1:]
	switch s[0] {
	case 'N':
		return nil
	case 'V':
		return &modelv1.TagValue{}
	case 'n':
		return &modelv1.TagValue{Value: &modelv1.TagValue_Null{}}
	case 's':
		if rest == "~" {
			return &modelv1.TagValue{Value: &modelv1.TagValue_Str{}}
		}
		return &modelv1.TagValue{Value: &modelv1.TagValue_Str{Str: &modelv1.Str{Value: unhexS(rest)}}}
	case 'i':
		if rest == "~" {
			return &modelv1.TagValue{Value: &modelv1.TagValue_Int{}}
		}
		v, err := strconv.ParseInt(rest, 10, 64)
		if err != nil {
			panic(err)
		}
		return &modelv1.TagValue{Value: &modelv1.TagValue_Int{Int: &modelv1.Int{Value: v}}}
	case 'S':
		if rest == "~" {
			return &modelv1.TagValue{Value: &modelv1.TagValue_StrArray{}}
		}
		f := strings.Split(rest, ":")
		n, err := strconv.Atoi(f[0])
		if err != nil || n != len(f)-1 {
			panic("bad str array " + s)
		}
		arr := make([]string, n)
		for i := range arr {
			arr[i] = unhexS(f[i+1])
		}
		return &modelv1.TagValue{Value: &modelv1.TagValue_StrArray{StrArray: &modelv1.StrArray{Value: arr}}}
	case 'I':
		if rest == "~" {
			return &modelv1.TagValue{Value: &modelv1.TagValue_IntArray{}}
		}
		f := strings.Split(rest, ":")
		n, err := strconv.Atoi(f[0])
		if err != nil || n != len(f)-1 {
			panic("bad int array " + s)
		}
		arr := make([]int64, n)
		for i := range arr {
			arr[i], err = strconv.ParseInt(f[i+1], 10, 64)
			if err != nil {
				panic(err)
			}
		}
		return &modelv1.TagValue{Value: &modelv1.TagValue_IntArray{IntArray: &modelv1.IntArray{Value: arr}}}
	case 't':
		f := strings.Split(rest, ":")
		sec, err1 := strconv.ParseInt(f[0], 10, 64)
		nan, err2 := strconv.ParseInt(f[1], 10, 32)
		if err1 != nil || err2 != nil {
			panic("bad timestamp " + s)
		}
		return &modelv1.TagValue{Value: &modelv1.TagValue_Timestamp{Timestamp: &timestamppb.Timestamp{Seconds: sec, Nanos: int32(nan)}}}
	case 'T':
		return &modelv1.TagValue{Value: &modelv1.TagValue_Timestamp{}}
	case 'b':
		return &modelv1.TagValue{Value: &modelv1.TagValue_BinaryData{BinaryData: []byte(unhexS(rest))}}
	}
	panic("bad param " + s)
}

func parseParams(s string) []*modelv1.TagValue {
	if s == "-" {
		return nil
	}
	f := strings.Split(s, ",")
	out := make([]*modelv1.TagValue, len(f))
	for i, p := range f {
		out[i] = parseParam(p)
	}
	return out
}

// errKind maps a bind error to a small enum: ERR:<kind>:<1-based parameter position, 0 if none>.
func errKind(err error) string {
	m := err.Error()
	idx := 0
	if i := strings.Index(m, "parameter #"); i >= 0 {
		j := i + len("parameter #")
		k := j
		for k < len(m) && m[k] >= '0' && m[k] <= '9' {
			k++
		}
		idx, _ = strconv.Atoi(m[j:k])
	}
	kind := "other"
	switch {
	case strings.Contains(m, "already bound"):
		kind = "rebind"
	case strings.Contains(m, "parameter count mismatch"):
		kind = "count"
	case strings.Contains(m, "has no value"):
		kind = "novalue"
	case strings.Contains(m, "invalid timestamp parameter"):
		kind = "ts"
	case strings.Contains(m, "must not be empty"):
		kind = "empty"
	case strings.Contains(m, "out of range"):
		kind = "range"
	case strings.Contains(m, "only accepts"):
		kind = "type"
	}
	return fmt.Sprintf("ERR:%s:%d", kind, idx)
}

// ---------------------------------------------------------------------------------------------
// request canonicalisation

var transformer = bydbql.NewTransformer(fakeRepo{})

func projAll(g *bydbql.Grammar) bool {
	return g != nil && g.Select != nil && g.Select.Projection != nil && g.Select.Projection.All
}

// reqSig renders a transform result as "<type>.<sha1 of the deterministic encoding without time_range>@<begin_ms>:<end_ms>".
// SELECT * projections are built by iterating a Go map, so their order is sorted first (upstream's own
// equivalence test does the same).
func reqSig(res *bydbql.TransformResult, err error) string {
	if err != nil {
		h := sha1.Sum([]byte(err.Error()))
		return "E:" + hex.EncodeToString(h[:4])
	}
	m := proto.Clone(res.QueryRequest)
	if projAll(res.Original) {
		switch r := m.(type) {
		case *streamv1.QueryRequest:
			sortProjection(r.Projection)
		case *measurev1.QueryRequest:
			sortProjection(r.TagProjection)
			if r.FieldProjection != nil {
				sort.Strings(r.FieldProjection.Names)
			}
		case *propertyv1.QueryRequest:
			sort.Strings(r.TagProjection)
		}
	}
	tr := "nil"
	rm := m.ProtoReflect()
	if fd := rm.Descriptor().Fields().ByName("time_range"); fd != nil && rm.Has(fd) {
		t := rm.Get(fd).Message().Interface().(*modelv1.TimeRange)
		tr = fmt.Sprintf("%d:%d", t.GetBegin().AsTime().UnixMilli(), t.GetEnd().AsTime().UnixMilli())
		rm.Clear(fd)
	}
	b, mErr := proto.MarshalOptions{Deterministic: true}.Marshal(m)
	if mErr != nil {
		return "x(marshal:" + mErr.Error() + ")"
	}
	h := sha1.Sum(append([]byte(string(rm.Descriptor().FullName())+"|"+res.Type.String()+"|"), b...))
	return hex.EncodeToString(h[:8]) + "@" + tr
}

func sortProjection(p *modelv1.TagProjection) {
	if p == nil {
		return
	}
	for _, f := range p.TagFamilies {
		sort.Strings(f.Tags)
	}
	sort.Slice(p.TagFamilies, func(i, j int) bool { return p.TagFamilies[i].Name < p.TagFamilies[j].Name })
}

var _ protoreflect.Message

// ---------------------------------------------------------------------------------------------

var (
	ctx   = context.Background()
	cache = lgrpc.NewVerifC20Cache(8, 1<<16)
)

// oneShot runs the in-place path: ParseQuery; BindParams; Transform.
func oneShot(stmt string, params []*modelv1.TagValue) (dump string, sig string) {
	g, err := bydbql.ParseQuery(stmt)
	if err != nil {
		return "PARSEERR", "-"
	}
	before := dumpGrammar(g)
	if bErr := bydbql.BindParams(g, params); bErr != nil {
		// the documented contract: a failed bind leaves the grammar unusable. It must then be rejected by
		// Transform, unless nothing at all was bound (a statement without placeholders given surplus parameters
		// is still the untouched literal grammar).
		res, tErr := transformer.Transform(ctx, g)
		if tErr != nil {
			return errKind(bErr), "REJ"
		}
		if dumpGrammar(g) == before && bydbql.VerifC20CountUnbound(g) == 0 {
			return errKind(bErr), "UNTOUCHED"
		}
		return errKind(bErr), "LEAK:" + reqSig(res, nil)
	}
	d := dumpGrammar(g)
	res, tErr := transformer.Transform(ctx, g)
	return d, reqSig(res, tErr)
}

// literal runs the literal statement through the same one-shot API (BindParams with no parameters).
func literal(lit string) (dump string, sig string) {
	if lit == "" {
		return "-", "-"
	}
	return oneShot(lit, nil)
}

func b01(b bool) string { return drv.B01(b) }

func handle(f []string) string {
	if len(f) == 0 {
		return "bad-op"
	}
	op := f[0]
	if strings.HasPrefix(op, "bind.") {
		op = "bind"
	}
	if strings.HasPrefix(op, "seq.") {
		op = "seq"
	}
	switch op {
	case "ast":
		if len(f) != 2 {
			return "bad-op"
		}
		g, err := bydbql.ParseQuery(unhexS(f[1]))
		if err != nil {
			return "PARSEERR"
		}
		return "T=" + dumpGrammar(g)
	case "why":
		// diagnostic: why <stmt-hex> <params> -> bind/transform error text or the request in prototext (hex)
		if len(f) != 3 {
			return "bad-op"
		}
		g, err := bydbql.ParseQuery(unhexS(f[1]))
		if err != nil {
			return "PARSEERR " + hx(err.Error())
		}
		if bErr := bydbql.BindParams(g, parseParams(f[2])); bErr != nil {
			return "BINDERR " + hx(bErr.Error())
		}
		res, tErr := transformer.Transform(ctx, g)
		if tErr != nil {
			return "TRANSFORMERR " + hx(tErr.Error())
		}
		return "OK " + hx(prototext.MarshalOptions{Multiline: false}.Format(res.QueryRequest))
	case "seq":
		// seq.<form> <cache-size> (<stmt-hex> <ast|!> <lit-hex|-> <params>)+ : a sequence of (near-duplicate) statements
		// through ONE fresh preparedCache, as consecutive bydbQLService.Query calls would go through the shared one.
		if len(f) < 6 || (len(f)-2)%4 != 0 {
			return "bad-op"
		}
		size, sErr := strconv.Atoi(f[1])
		if sErr != nil {
			return "bad-op"
		}
		c := lgrpc.NewVerifC20Cache(size, 1<<16)
		var model, oracle []string
		for k := 0; k*4+2 < len(f); k++ {
			g := f[k*4+2 : k*4+6]
			stmt := unhexS(g[0])
			params := parseParams(g[3])
			n := strconv.Itoa(k + 1)
			// what this very text means, without any cache
			ownAst, ownPT := "!", "PARSEERR"
			if g0, pErr := bydbql.ParseQuery(stmt); pErr == nil {
				ownAst = dumpGrammar(g0)
				if own, oErr := bydbql.Prepare(stmt); oErr == nil {
					ownPT = dumpGrammar(bydbql.VerifC20Template(own))
				}
			}
			if ownAst != g[1] {
				return "ASTMISMATCH step " + n + " T=" + ownAst
			}
			rl, rb, bdump := "-", "-", "-"
			if g[2] != "-" {
				_, rl = oneShot(unhexS(g[2]), nil)
			}
			if ownAst != "!" {
				bdump, rb = oneShot(stmt, params)
			}
			st, how, cErr := c.GetOrPrepare(stmt)
			tag := "?"
			if how != "" {
				tag = how[:1]
			}
			if cErr != nil {
				model = append(model, "PT"+n+"=PARSEERR O"+n+"=-")
				oracle = append(oracle, fmt.Sprintf("HOW%s=e TD%s=%s RC%s=PREPAREERR RL%s=%s RB%s=%s B%s=%s", n, n, b01(ownPT == "PARSEERR"), n, n, rl, n, rb, n, bdump))
				continue
			}
			pt := dumpGrammar(bydbql.VerifC20Template(st))
			o, rc := "", "-"
			bq, bErr := st.Bind(params)
			if bErr != nil {
				o = errKind(bErr)
				rc = o
			} else {
				o = dumpOverlay(bq)
				rc = reqSig(transformer.TransformBound(ctx, bq))
			}
			model = append(model, "PT"+n+"="+pt+" O"+n+"="+o)
			oracle = append(oracle, fmt.Sprintf("HOW%s=%s TD%s=%s RC%s=%s RL%s=%s RB%s=%s B%s=%s", n, tag, n, b01(pt == ownPT), n, rc, n, rl, n, rb, n, bdump))
		}
		return strings.Join(model, " ") + " ## " + strings.Join(oracle, " ")
	case "bind":
		if len(f) != 7 {
			return "bad-op"
		}
		stmt := unhexS(f[1])
		lit1, lit2 := "", ""
		if f[3] != "-" {
			lit1 = unhexS(f[3])
		}
		if f[4] != "-" {
			lit2 = unhexS(f[4])
		}
		p1, p2 := parseParams(f[5]), parseParams(f[6])

		g0, err := bydbql.ParseQuery(stmt)
		if err != nil {
			return "PARSEERR"
		}
		tdump := dumpGrammar(g0)
		if tdump != f[2] {
			return "ASTMISMATCH T=" + tdump
		}
		// in-place path, twice on fresh parses
		b1, rb1 := oneShot(stmt, p1)
		b2, rb2 := oneShot(stmt, p2)
		// rebinding a bound grammar must be rejected
		rebind := "-"
		if g, pErr := bydbql.ParseQuery(stmt); pErr == nil && bydbql.BindParams(g, p1) == nil {
			before := dumpGrammar(g)
			if rErr := bydbql.BindParams(g, p2); rErr == nil {
				rebind = "accepted"
			} else if dumpGrammar(g) != before {
				rebind = "mutated"
			} else {
				rebind = "rejected"
			}
		}
		// literal path
		l1, rl1 := literal(lit1)
		l2, rl2 := literal(lit2)

		// prepared path
		ps, pErr := bydbql.Prepare(stmt)
		if pErr != nil {
			return "PREPAREERR"
		}
		tmpl := bydbql.VerifC20Template(ps)
		pt := dumpGrammar(tmpl)
		spc := dumpSpecs(ps)
		o1, o2, rp1, rp2, rp1again, o1stable := "", "", "-", "-", "-", "1"
		bq1, e1 := ps.Bind(p1)
		if e1 != nil {
			o1 = errKind(e1)
		} else {
			o1 = dumpOverlay(bq1)
		}
		bq2, e2 := ps.Bind(p2)
		if e2 != nil {
			o2 = errKind(e2)
		} else {
			o2 = dumpOverlay(bq2)
			rp2 = reqSig(transformer.TransformBound(ctx, bq2))
		}
		if e1 == nil {
			// bq1 is transformed only after a second Bind and Transform went through the shared template
			rp1 = reqSig(transformer.TransformBound(ctx, bq1))
			if dumpOverlay(bq1) != o1 {
				o1stable = "0"
			}
			if bq3, e3 := ps.Bind(p1); e3 != nil {
				rp1again = errKind(e3)
			} else {
				rp1again = reqSig(transformer.TransformBound(ctx, bq3))
				if dumpOverlay(bq3) != o1 {
					o1stable = "0"
				}
			}
		}
		pure := b01(dumpGrammar(tmpl) == pt && dumpSpecs(ps) == spc && bydbql.VerifC20CountUnbound(tmpl) == ps.NumPlaceholders())

		// liaison path: cache.getOrPrepare; Bind; TransformBound — params1, params2, params1 (miss/hit/hit)
		viaCache := func(params []*modelv1.TagValue) string {
			st, how, cErr := cache.GetOrPrepare(stmt)
			if cErr != nil {
				return "PREPAREERR"
			}
			tag := "?"
			if how != "" {
				tag = how[:1]
			}
			bq, bErr := st.Bind(params)
			if bErr != nil {
				return tag + errKind(bErr)
			}
			return tag + reqSig(transformer.TransformBound(ctx, bq))
		}
		rc1 := viaCache(p1)
		rc2 := viaCache(p2)
		rc1again := viaCache(p1)

		model := fmt.Sprintf("T=%s B1=%s B2=%s PT=%s SP=%s O1=%s O2=%s", tdump, b1, b2, pt, spc, o1, o2)
		oracle := fmt.Sprintf("PURE=%s O1STABLE=%s REBIND=%s L1=%s L2=%s RL1=%s RL2=%s RB1=%s RB2=%s RP1=%s RP2=%s RP1X=%s RC1=%s RC2=%s RC1X=%s",
			pure, o1stable, rebind, l1, l2, rl1, rl2, rb1, rb2, rp1, rp2, rp1again, rc1, rc2, rc1again)
		return model + " ## " + oracle
	}
	return "bad-op"
}

func main() {
	_ = time.Now
	_ = os.Stderr
	drv.Run(handle)
}
