//go:build verif

package main

import (
	"fmt"

	lgrpc "github.com/apache/skywalking-banyandb/banyand/liaison/grpc"
)

func main() {
	c := lgrpc.NewVerifC20Cache(4, 0)
	ps, r, err := c.GetOrPrepare("SELECT * FROM STREAM sw IN default WHERE a = ?")
	fmt.Println(ps.NumPlaceholders(), r, err)
}
