//go:build verif

// Package drv is the shared line-protocol loop of the /verif correspondence drivers.
// It is injected into the build with `go build -tags verif -overlay`; it is not part of /repo.
package drv

import (
	"bufio"
	"encoding/hex"
	"fmt"
	"os"
	"strings"
)

// Run reads one case per line from stdin and prints exactly one line per case.
// A panic inside f is an observation ("PANIC ..."), not a harness failure.
func Run(f func(fields []string) string) {
	in := bufio.NewReaderSize(os.Stdin, 1<<20)
	out := bufio.NewWriterSize(os.Stdout, 1<<16)
	defer out.Flush()
	for {
		line, err := in.ReadString('\n')
		if len(line) == 0 && err != nil {
			return
		}
		line = strings.TrimRight(line, "\r\n")
		res := Safe(func() string { return f(strings.Fields(line)) })
		res = strings.ReplaceAll(res, "\n", "\\n")
		fmt.Fprintln(out, res)
		out.Flush()
		if err != nil {
			return
		}
	}
}

// Safe runs f and maps a panic to "PANIC <msg>".
func Safe(f func() string) (res string) {
	defer func() {
		if r := recover(); r != nil {
			res = fmt.Sprintf("PANIC %v", r)
		}
	}()
	return f()
}

// Hex renders bytes; "-" is the empty string.
func Hex(b []byte) string {
	if len(b) == 0 {
		return "-"
	}
	return hex.EncodeToString(b)
}

// HexRaw renders bytes, empty as "".
func HexRaw(b []byte) string { return hex.EncodeToString(b) }

// UnHex parses Hex's output.
func UnHex(s string) []byte {
	if s == "-" {
		return []byte{}
	}
	b, err := hex.DecodeString(s)
	if err != nil {
		panic("bad hex in protocol: " + s)
	}
	return b
}

// B01 renders a bool.
func B01(b bool) string {
	if b {
		return "1"
	}
	return "0"
}
