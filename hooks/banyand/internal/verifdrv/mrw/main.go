//go:build verif

// Driver `mrw` (measure read/write) for C01, C02, C03: one input line is a whole history of a real
// measure tsTable on a scratch directory:
//
//	<kind> S0=<cols> S1=<cols> ... ; <op> ; <op> ; ...
//	cols : t.<family>.<name>.<i|s|b|A|I>  tag column     f.<name>.<i|f|s|b>  field column   ("-" = no columns)
//	ops  : b<k> <row>...      batch of rows shaped by schema k (dataPoints -> mustAddDataPoints)
//	       w<k> <row>...      the same through measurev1.WriteRequest + appendDataPoints
//	       fl <l,l,..>        flush the memory parts created by ops l (creation labels: every b/w/mg op gets the next label)
//	       mg <l,l,..>        merge the parts
//	       q<k> <sid,sid,..> <tmin> <tmax> <ta|td|s>   query with projection/schema k
//	       d                  dump parts/blocks
//	       new                start over with an empty table
//	       tc <ns>            timestamp.Check
//	       nm<k> <ta|td> <row>.. | <row>.. | ..   liaison-side merge of node answers (nodes.go); no table involved
//	row  : <sid>:<ts>:<version>:<v>,<v>,...   values positional in the schema
//	v    : N | i<dec> | f<16 hex bits> | s<hex|-> | b<hex|-> | A[<hex|->.<hex|->...] | I[<dec>.<dec>...]
//
// Output: the results of the ops joined by " ; " (q: returned rows in the same row syntax, pulls flattened).
package main

import (
	"encoding/hex"
	"fmt"
	"math"
	"os"
	"path/filepath"
	"strconv"
	"strings"

	databasev1 "github.com/apache/skywalking-banyandb/api/proto/banyandb/database/v1"
	modelv1 "github.com/apache/skywalking-banyandb/api/proto/banyandb/model/v1"
	"github.com/apache/skywalking-banyandb/banyand/internal/verifdrv/drv"
	"github.com/apache/skywalking-banyandb/banyand/measure"
	"github.com/apache/skywalking-banyandb/pkg/logger"
	pbv1 "github.com/apache/skywalking-banyandb/pkg/pb/v1"
)

var (
	scratch string
	caseNo  int
)

func unhex(s string) []byte {
	if s == "-" || s == "" {
		return []byte{}
	}
	b, err := hex.DecodeString(s)
	if err != nil {
		panic("bad hex " + s)
	}
	return b
}

func hx(b []byte) string {
	if len(b) == 0 {
		return "-"
	}
	return hex.EncodeToString(b)
}

func parseSchema(s string) *measure.VSchema {
	sc := &measure.VSchema{}
	if s == "-" || s == "" {
		return sc
	}
	for _, c := range strings.Split(s, ",") {
		p := strings.Split(c, ".")
		switch p[0] {
		case "t":
			var ty databasev1.TagType
			switch p[3] {
			case "i":
				ty = databasev1.TagType_TAG_TYPE_INT
			case "s":
				ty = databasev1.TagType_TAG_TYPE_STRING
			case "b":
				ty = databasev1.TagType_TAG_TYPE_DATA_BINARY
			case "A":
				ty = databasev1.TagType_TAG_TYPE_STRING_ARRAY
			case "I":
				ty = databasev1.TagType_TAG_TYPE_INT_ARRAY
			default:
				panic("bad tag type " + c)
			}
			sc.Tags = append(sc.Tags, measure.VTag{Family: p[1], Name: p[2], Type: ty})
		case "f":
			var ty databasev1.FieldType
			switch p[2] {
			case "i":
				ty = databasev1.FieldType_FIELD_TYPE_INT
			case "f":
				ty = databasev1.FieldType_FIELD_TYPE_FLOAT
			case "s":
				ty = databasev1.FieldType_FIELD_TYPE_STRING
			case "b":
				ty = databasev1.FieldType_FIELD_TYPE_DATA_BINARY
			default:
				panic("bad field type " + c)
			}
			sc.Fields = append(sc.Fields, measure.VField{Name: p[1], Type: ty})
		default:
			panic("bad column " + c)
		}
	}
	return sc
}

func parseTagValue(s string) *modelv1.TagValue {
	switch s[0] {
	case 'N':
		return pbv1.NullTagValue
	case 'i':
		v, err := strconv.ParseInt(s[1:], 10, 64)
		if err != nil {
			panic(err)
		}
		return &modelv1.TagValue{Value: &modelv1.TagValue_Int{Int: &modelv1.Int{Value: v}}}
	case 's':
		return &modelv1.TagValue{Value: &modelv1.TagValue_Str{Str: &modelv1.Str{Value: string(unhex(s[1:]))}}}
	case 'b':
		return &modelv1.TagValue{Value: &modelv1.TagValue_BinaryData{BinaryData: unhex(s[1:])}}
	case 'A':
		arr := &modelv1.StrArray{}
		if len(s) > 1 {
			for _, e := range strings.Split(s[1:], ".") {
				arr.Value = append(arr.Value, string(unhex(e)))
			}
		}
		return &modelv1.TagValue{Value: &modelv1.TagValue_StrArray{StrArray: arr}}
	case 'I':
		arr := &modelv1.IntArray{}
		if len(s) > 1 {
			for _, e := range strings.Split(s[1:], ".") {
				v, err := strconv.ParseInt(e, 10, 64)
				if err != nil {
					panic(err)
				}
				arr.Value = append(arr.Value, v)
			}
		}
		return &modelv1.TagValue{Value: &modelv1.TagValue_IntArray{IntArray: arr}}
	}
	panic("bad tag value " + s)
}

func parseFieldValue(s string) *modelv1.FieldValue {
	switch s[0] {
	case 'N':
		return pbv1.NullFieldValue
	case 'i':
		v, err := strconv.ParseInt(s[1:], 10, 64)
		if err != nil {
			panic(err)
		}
		return &modelv1.FieldValue{Value: &modelv1.FieldValue_Int{Int: &modelv1.Int{Value: v}}}
	case 'f':
		u, err := strconv.ParseUint(s[1:], 16, 64)
		if err != nil {
			panic(err)
		}
		return &modelv1.FieldValue{Value: &modelv1.FieldValue_Float{Float: &modelv1.Float{Value: math.Float64frombits(u)}}}
	case 's':
		return &modelv1.FieldValue{Value: &modelv1.FieldValue_Str{Str: &modelv1.Str{Value: string(unhex(s[1:]))}}}
	case 'b':
		return &modelv1.FieldValue{Value: &modelv1.FieldValue_BinaryData{BinaryData: unhex(s[1:])}}
	}
	panic("bad field value " + s)
}

func showTagValue(tv *modelv1.TagValue) string {
	if tv == nil {
		return "?nil"
	}
	switch v := tv.Value.(type) {
	case *modelv1.TagValue_Null:
		return "N"
	case *modelv1.TagValue_Int:
		return "i" + strconv.FormatInt(v.Int.Value, 10)
	case *modelv1.TagValue_Str:
		return "s" + hx([]byte(v.Str.Value))
	case *modelv1.TagValue_BinaryData:
		return "b" + hx(v.BinaryData)
	case *modelv1.TagValue_StrArray:
		var sb strings.Builder
		sb.WriteByte('A')
		for i, e := range v.StrArray.Value {
			if i > 0 {
				sb.WriteByte('.')
			}
			sb.WriteString(hx([]byte(e)))
		}
		return sb.String()
	case *modelv1.TagValue_IntArray:
		var sb strings.Builder
		sb.WriteByte('I')
		for i, e := range v.IntArray.Value {
			if i > 0 {
				sb.WriteByte('.')
			}
			sb.WriteString(strconv.FormatInt(e, 10))
		}
		return sb.String()
	}
	return "?" + fmt.Sprintf("%T", tv.Value)
}

func showFieldValue(fv *modelv1.FieldValue) string {
	if fv == nil {
		return "?nil"
	}
	switch v := fv.Value.(type) {
	case *modelv1.FieldValue_Null:
		return "N"
	case *modelv1.FieldValue_Int:
		return "i" + strconv.FormatInt(v.Int.Value, 10)
	case *modelv1.FieldValue_Float:
		return fmt.Sprintf("f%016x", math.Float64bits(v.Float.Value))
	case *modelv1.FieldValue_Str:
		return "s" + hx([]byte(v.Str.Value))
	case *modelv1.FieldValue_BinaryData:
		return "b" + hx(v.BinaryData)
	}
	return "?" + fmt.Sprintf("%T", fv.Value)
}

func parseRow(sc *measure.VSchema, s string) measure.VRow {
	p := strings.SplitN(s, ":", 4)
	if len(p) != 4 {
		panic("bad row " + s)
	}
	sid, err := strconv.ParseUint(p[0], 10, 64)
	if err != nil {
		panic(err)
	}
	ts, err := strconv.ParseInt(p[1], 10, 64)
	if err != nil {
		panic(err)
	}
	ver, err := strconv.ParseInt(p[2], 10, 64)
	if err != nil {
		panic(err)
	}
	r := measure.VRow{Sid: sid, Ts: ts, Ver: ver}
	var vals []string
	if p[3] != "" {
		vals = strings.Split(p[3], ",")
	}
	if len(vals) != len(sc.Tags)+len(sc.Fields) {
		panic("row does not match schema: " + s)
	}
	for i := range sc.Tags {
		r.Tags = append(r.Tags, parseTagValue(vals[i]))
	}
	for i := range sc.Fields {
		r.Fields = append(r.Fields, parseFieldValue(vals[len(sc.Tags)+i]))
	}
	return r
}

func showRow(r *measure.VRow) string {
	var sb strings.Builder
	fmt.Fprintf(&sb, "%d:%d:%d:", r.Sid, r.Ts, r.Ver)
	n := 0
	for _, t := range r.Tags {
		if n > 0 {
			sb.WriteByte(',')
		}
		sb.WriteString(showTagValue(t))
		n++
	}
	for _, f := range r.Fields {
		if n > 0 {
			sb.WriteByte(',')
		}
		sb.WriteString(showFieldValue(f))
		n++
	}
	return sb.String()
}

func parseLabels(s string) []int {
	var out []int
	if s == "-" || s == "" {
		return out
	}
	for _, e := range strings.Split(s, ",") {
		v, err := strconv.Atoi(e)
		if err != nil {
			panic(err)
		}
		out = append(out, v)
	}
	return out
}

func handle(f []string) string {
	if len(f) < 1 {
		return "bad-op"
	}
	// split into segments at ";"
	var segs [][]string
	cur := []string{}
	for _, t := range f[1:] {
		if t == ";" {
			segs = append(segs, cur)
			cur = []string{}
			continue
		}
		cur = append(cur, t)
	}
	segs = append(segs, cur)
	if strings.HasPrefix(f[0], "sidx") {
		return handleSidx(segs[1:])
	}
	if f[0] == "strm" {
		return handleStream(segs[1:])
	}
	if f[0] == "trc" {
		return handleTrace(segs[1:])
	}
	var schemas []*measure.VSchema
	for _, t := range segs[0] {
		i := strings.IndexByte(t, '=')
		if i < 0 || t[0] != 'S' {
			return "bad-op"
		}
		schemas = append(schemas, parseSchema(t[i+1:]))
	}
	caseNo++
	dir := filepath.Join(scratch, fmt.Sprintf("t%d", caseNo))
	tab := measure.VNewTable(dir)
	defer func() {
		tab.Close()
		_ = os.RemoveAll(dir)
	}()
	gen := 0
	var out []string
	for _, op := range segs[1:] {
		if len(op) == 0 {
			out = append(out, "bad-op")
			continue
		}
		res := drv.Safe(func() string {
			name := op[0]
			switch {
			case name == "fl":
				return tab.Flush(parseLabels(op[1]))
			case name == "mg":
				return tab.Merge(parseLabels(op[1]))
			case name == "d":
				return tab.Dump()
			case name == "new":
				// a fresh, empty table (metamorphic cases compare two histories in one line)
				tab.Close()
				_ = os.RemoveAll(dir)
				gen++
				dir = filepath.Join(scratch, fmt.Sprintf("t%d_%d", caseNo, gen))
				tab = measure.VNewTable(dir)
				return "ok"
			case name == "tc":
				ns, err := strconv.ParseInt(op[1], 10, 64)
				if err != nil {
					panic(err)
				}
				if measure.VTimestampCheck(ns) != nil {
					return "rejected"
				}
				return "accepted"
			case strings.HasPrefix(name, "nm"):
				k, ok := nodeMergeSchema(name)
				if !ok {
					return "bad-op"
				}
				return doNodeMerge(schemas[k], op)
			case name[0] == 'b' || name[0] == 'w':
				k, err := strconv.Atoi(name[1:])
				if err != nil {
					panic(err)
				}
				sc := schemas[k]
				rows := make([]measure.VRow, 0, len(op)-1)
				for _, r := range op[1:] {
					rows = append(rows, parseRow(sc, r))
				}
				if name[0] == 'b' {
					tab.Batch(sc, rows)
				} else {
					tab.WBatch(sc, rows)
				}
				return "ok"
			case name[0] == 'q':
				k, err := strconv.Atoi(name[1:])
				if err != nil {
					panic(err)
				}
				sc := schemas[k]
				var sids []uint64
				for _, e := range strings.Split(op[1], ",") {
					v, perr := strconv.ParseUint(e, 10, 64)
					if perr != nil {
						panic(perr)
					}
					sids = append(sids, v)
				}
				tmin, _ := strconv.ParseInt(op[2], 10, 64)
				tmax, _ := strconv.ParseInt(op[3], 10, 64)
				render := func(batch bool) (string, string) {
					pulls, e := tab.Query(sc, sids, tmin, tmax, op[4], batch)
					if e != "" {
						return "", e
					}
					var sb strings.Builder
					for _, rows := range pulls {
						for i := range rows {
							sb.WriteByte(' ')
							sb.WriteString(showRow(&rows[i]))
						}
					}
					return sb.String(), ""
				}
				// both read paths of measure.Query: the row path (Pull) and the columnar path (PullBatch); the second
				// is printed only when it differs ("#B ...")
				rowRes, e := render(false)
				if e != "" {
					return e
				}
				batchRes, e := render(true)
				if e != "" {
					return "B" + e
				}
				var sb strings.Builder
				sb.WriteString("R")
				sb.WriteString(rowRes)
				if batchRes != rowRes {
					sb.WriteString(" #B")
					sb.WriteString(batchRes)
				}
				return sb.String()
			}
			return "bad-op"
		})
		out = append(out, res)
	}
	return strings.Join(out, " ; ")
}

func main() {
	_ = logger.Init(logger.Logging{Env: "prod", Level: "error"})
	root := os.Getenv("VERIF_SCRATCH")
	if root == "" {
		root = "/verif/.scratch"
	}
	if err := os.MkdirAll(root, 0o755); err != nil {
		panic(err)
	}
	scratch = filepath.Join(root, fmt.Sprintf("mrw-%d", os.Getpid()))
	// The tables of C01-C03 are only read back by the same process (durability is C04's subject) and
	// every flush/merge/snapshot fsyncs: back the scratch directory by tmpfs when there is one.
	real := ""
	if st, err := os.Stat("/dev/shm"); err == nil && st.IsDir() && os.Getenv("VERIF_SCRATCH_TMPFS") != "0" {
		real = filepath.Join("/dev/shm", fmt.Sprintf("verif-%s-mrw-%d", filepath.Base(root), os.Getpid()))
		if err := os.MkdirAll(real, 0o755); err != nil || os.Symlink(real, scratch) != nil {
			_ = os.RemoveAll(real)
			real = ""
		}
	}
	if real == "" {
		if err := os.MkdirAll(scratch, 0o755); err != nil {
			panic(err)
		}
	}
	defer func() {
		if real != "" {
			_ = os.RemoveAll(real)
			_ = os.Remove(scratch)
		} else {
			_ = os.RemoveAll(scratch)
		}
	}()
	drv.Run(handle)
}
