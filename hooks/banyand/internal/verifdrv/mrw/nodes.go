//go:build verif

package main

import (
	"sort"
	"strconv"
	"strings"

	"google.golang.org/protobuf/types/known/timestamppb"

	measurev1 "github.com/apache/skywalking-banyandb/api/proto/banyandb/measure/v1"
	modelv1 "github.com/apache/skywalking-banyandb/api/proto/banyandb/model/v1"
	"github.com/apache/skywalking-banyandb/banyand/measure"
	"github.com/apache/skywalking-banyandb/pkg/query/executor"
	lmeasure "github.com/apache/skywalking-banyandb/pkg/query/logical/measure"
)

// Op `nm<k> <ta|td> <row>... | <row>... | ...`: the liaison-side merge of the data nodes' answers (C02: "no matter
// which parts they live in" - here the parts are nodes). Every '|'-separated list is the (time-sorted) answer of
// one node; they go through the real lmeasure.MergeGroupMIterators = sort.NewItemIter + sortedMIterator, the
// iterator stack distributedPlan.Execute builds. Rows of one timestamp come out of a Go map, so they are printed
// sorted by series id.

type sliceMIter struct {
	dps []*measurev1.InternalDataPoint
	i   int
}

func (s *sliceMIter) Next() bool {
	if s.i >= len(s.dps) {
		return false
	}
	s.i++
	return true
}

func (s *sliceMIter) Current() []*measurev1.InternalDataPoint {
	return []*measurev1.InternalDataPoint{s.dps[s.i-1]}
}

func (s *sliceMIter) Close() error { return nil }

var _ executor.MIterator = (*sliceMIter)(nil)

func toDataPoint(sc *measure.VSchema, r *measure.VRow) *measurev1.InternalDataPoint {
	dp := &measurev1.DataPoint{
		Sid:       r.Sid,
		Timestamp: &timestamppb.Timestamp{Seconds: r.Ts / 1000000000, Nanos: int32(r.Ts % 1000000000)},
		Version:   r.Ver,
	}
	for i, t := range sc.Tags {
		n := len(dp.TagFamilies)
		if n == 0 || dp.TagFamilies[n-1].Name != t.Family {
			dp.TagFamilies = append(dp.TagFamilies, &modelv1.TagFamily{Name: t.Family})
			n++
		}
		dp.TagFamilies[n-1].Tags = append(dp.TagFamilies[n-1].Tags, &modelv1.Tag{Key: t.Name, Value: r.Tags[i]})
	}
	for i, f := range sc.Fields {
		dp.Fields = append(dp.Fields, &measurev1.DataPoint_Field{Name: f.Name, Value: r.Fields[i]})
	}
	return &measurev1.InternalDataPoint{DataPoint: dp}
}

func fromDataPoint(idp *measurev1.InternalDataPoint) measure.VRow {
	dp := idp.GetDataPoint()
	r := measure.VRow{Sid: dp.Sid, Ts: dp.Timestamp.AsTime().UnixNano(), Ver: dp.Version}
	for _, tf := range dp.TagFamilies {
		for _, t := range tf.Tags {
			r.Tags = append(r.Tags, t.Value)
		}
	}
	for _, f := range dp.Fields {
		r.Fields = append(r.Fields, f.Value)
	}
	return r
}

func doNodeMerge(sc *measure.VSchema, op []string) string {
	if len(op) < 2 {
		return "bad-op"
	}
	crit := &measurev1.QueryRequest{}
	switch op[1] {
	case "ta":
		crit.OrderBy = &modelv1.QueryOrder{Sort: modelv1.Sort_SORT_ASC}
	case "td":
		crit.OrderBy = &modelv1.QueryOrder{Sort: modelv1.Sort_SORT_DESC}
	default:
		return "bad-op"
	}
	iters := []executor.MIterator{}
	cur := &sliceMIter{}
	for _, tok := range op[2:] {
		if tok == "|" {
			iters = append(iters, cur)
			cur = &sliceMIter{}
			continue
		}
		r := parseRow(sc, tok)
		cur.dps = append(cur.dps, toDataPoint(sc, &r))
	}
	iters = append(iters, cur)
	order, err := lmeasure.ResolveCrossGroupMergeOrder(crit, nil)
	if err != nil {
		return "ERR-order " + err.Error()
	}
	it := lmeasure.MergeGroupMIterators(iters, order)
	var rows []measure.VRow
	for it.Next() {
		for _, idp := range it.Current() {
			rows = append(rows, fromDataPoint(idp))
		}
	}
	_ = it.Close()
	// canonical order inside a group of equal timestamps (Go map iteration order in loadOneGroup)
	for i := 0; i < len(rows); {
		j := i
		for j < len(rows) && rows[j].Ts == rows[i].Ts {
			j++
		}
		g := rows[i:j]
		sort.SliceStable(g, func(a, b int) bool { return g[a].Sid < g[b].Sid })
		i = j
	}
	var sb strings.Builder
	sb.WriteString("R")
	for i := range rows {
		sb.WriteByte(' ')
		sb.WriteString(showRow(&rows[i]))
	}
	return sb.String()
}

func nodeMergeSchema(name string) (int, bool) {
	if !strings.HasPrefix(name, "nm") {
		return 0, false
	}
	k, err := strconv.Atoi(name[2:])
	if err != nil {
		return 0, false
	}
	return k, true
}
