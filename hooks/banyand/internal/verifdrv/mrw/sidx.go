//go:build verif

package main

// C03, ordered secondary index: a real sidx instance on a scratch directory, driven through its public
// interface only (ConvertToMemPart/IntroduceMemPart, Flush/IntroduceFlushed, Merge/IntroduceMerged, QuerySync).
//
//	sidx ; <op> ; <op> ...
//	  W<pid> <tmin|*> <tmax|*> <sid>:<key>:<datahex>[:<ts>] ...   write a memory part; tmin/tmax = the part's optional
//	                                                             timestamp range (the element's own ts is for the oracle only)
//	  F <pid,pid,..>                                              flush memory parts
//	  M<newpid> <pid,pid,..>                                      merge parts into newpid
//	  Q <asc|desc> <minKey|*> <maxKey|*> <minTs|*> <maxTs|*> <sid,sid,..>
//	                                                             -> "R key:datahex:sid ..." in the order returned

import (
	"context"
	"fmt"
	"os"
	"path/filepath"
	"strconv"
	"strings"

	"github.com/apache/skywalking-banyandb/api/common"
	modelv1 "github.com/apache/skywalking-banyandb/api/proto/banyandb/model/v1"
	"github.com/apache/skywalking-banyandb/banyand/internal/sidx"
	"github.com/apache/skywalking-banyandb/banyand/internal/verifdrv/drv"
	"github.com/apache/skywalking-banyandb/banyand/observability"
	"github.com/apache/skywalking-banyandb/banyand/protector"
	"github.com/apache/skywalking-banyandb/pkg/fs"
	"github.com/apache/skywalking-banyandb/pkg/index"
)

func optInt(s string) *int64 {
	if s == "*" {
		return nil
	}
	v, err := strconv.ParseInt(s, 10, 64)
	if err != nil {
		panic(err)
	}
	return &v
}

func idSet(s string) map[uint64]struct{} {
	m := map[uint64]struct{}{}
	for _, x := range strings.Split(s, ",") {
		v, err := strconv.ParseUint(x, 10, 64)
		if err != nil {
			panic(err)
		}
		m[v] = struct{}{}
	}
	return m
}

func handleSidx(segs [][]string) string {
	caseNo++
	dir := filepath.Join(scratch, fmt.Sprintf("x%d", caseNo))
	if err := os.MkdirAll(dir, 0o755); err != nil {
		panic(err)
	}
	defer os.RemoveAll(dir)
	opts, err := sidx.NewOptions(dir, protector.NewMemory(observability.NewBypassRegistry()))
	if err != nil {
		panic(err)
	}
	s, err := sidx.NewSIDX(fs.NewLocalFileSystem(), opts)
	if err != nil {
		panic(err)
	}
	defer s.Close()
	var out []string
	for _, op := range segs {
		if len(op) == 0 {
			out = append(out, "bad-op")
			continue
		}
		res := drv.Safe(func() string {
			name := op[0]
			switch {
			case name[0] == 'W':
				pid, perr := strconv.ParseUint(name[1:], 10, 64)
				if perr != nil {
					panic(perr)
				}
				var reqs []sidx.WriteRequest
				for _, e := range op[3:] {
					p := strings.Split(e, ":")
					sid, _ := strconv.ParseUint(p[0], 10, 64)
					key, _ := strconv.ParseInt(p[1], 10, 64)
					reqs = append(reqs, sidx.WriteRequest{SeriesID: common.SeriesID(sid), Key: key, Data: unhex(p[2])})
				}
				mp, cerr := s.ConvertToMemPart(reqs, 1, optInt(op[1]), optInt(op[2]))
				if cerr != nil {
					return "ERR"
				}
				s.IntroduceMemPart(pid, mp)
				return "ok"
			case name == "F":
				intro, ferr := s.Flush(idSet(op[1]))
				if ferr != nil || intro == nil {
					return "ERR"
				}
				s.IntroduceFlushed(intro)
				intro.Release()
				return "ok"
			case name[0] == 'M':
				nid, perr := strconv.ParseUint(name[1:], 10, 64)
				if perr != nil {
					panic(perr)
				}
				intro, merr := s.Merge(nil, idSet(op[1]), nid, nil)
				if merr != nil || intro == nil {
					return "ERR"
				}
				s.IntroduceMerged(intro)()
				intro.Release()
				return "ok"
			case name == "Q":
				req := sidx.QueryRequest{MinKey: optInt(op[2]), MaxKey: optInt(op[3]), MinTimestamp: optInt(op[4]), MaxTimestamp: optInt(op[5])}
				if op[1] == "desc" {
					req.Order = &index.OrderBy{Sort: modelv1.Sort_SORT_DESC}
				} else {
					req.Order = &index.OrderBy{Sort: modelv1.Sort_SORT_ASC}
				}
				for x := range idSet(op[6]) {
					req.SeriesIDs = append(req.SeriesIDs, common.SeriesID(x))
				}
				rs, qerr := s.QuerySync(context.Background(), req)
				if qerr != nil {
					return "ERR"
				}
				var sb strings.Builder
				sb.WriteString("R")
				for _, r := range rs {
					if r.Error != nil {
						return "ERR"
					}
					for i := range r.Keys {
						fmt.Fprintf(&sb, " %d:%s:%d", r.Keys[i], hx(r.Data[i]), uint64(r.SIDs[i]))
					}
				}
				return sb.String()
			}
			return "bad-op"
		})
		out = append(out, res)
	}
	return strings.Join(out, " ; ")
}
