//go:build verif

package main

import (
	"fmt"
	"os"
	"path/filepath"
	"sort"
	"strconv"
	"strings"

	"github.com/apache/skywalking-banyandb/banyand/internal/verifdrv/drv"
	"github.com/apache/skywalking-banyandb/banyand/stream"
	"github.com/apache/skywalking-banyandb/banyand/trace"
	"github.com/apache/skywalking-banyandb/pkg/query/model"
)

// Oracle-only streams of C01/C03 over the other two engines (no Lean model; the Python oracle is the only judge):
//
//	strm ; B <sid>:<ts>:<eid>:<fam>.<tag>=<hex>,... ... ; F ; M ; Q <sid,sid,..> <tmin> <tmax>
//	trc  ; B <tid>:<ts>:<spanid>:<tag>=<hex>,...   ... ; F ; M ; Q <tid,tid,..> <tmin> <tmax>
//
// B = one batch (mustAddElements / mustAddTraces), F = flush every memory part, M = merge every file part,
// Q = the table-level query path. Output of Q: "R" + the returned elements/spans in the input syntax (spans without
// the timestamp, which a trace part keeps only as block/part bounds), sorted.

func splitTags(s string) [][2]string {
	var out [][2]string
	if s == "" || s == "-" {
		return out
	}
	for _, kv := range strings.Split(s, ",") {
		i := strings.IndexByte(kv, '=')
		out = append(out, [2]string{kv[:i], kv[i+1:]})
	}
	return out
}

func handleStream(ops [][]string) string {
	caseNo++
	dir := filepath.Join(scratch, fmt.Sprintf("s%d", caseNo))
	if err := os.MkdirAll(dir, 0o755); err != nil {
		panic(err)
	}
	tab := stream.VMStreamOpen(dir)
	defer func() {
		tab.Close()
		_ = os.RemoveAll(dir)
	}()
	// projection: every family/tag of the line
	famIdx := map[string]int{}
	var proj []model.TagProjection
	for _, op := range ops {
		if len(op) > 0 && op[0] == "B" {
			for _, r := range op[1:] {
				p := strings.SplitN(r, ":", 4)
				for _, kv := range splitTags(p[3]) {
					ft := strings.SplitN(kv[0], ".", 2)
					i, ok := famIdx[ft[0]]
					if !ok {
						i = len(proj)
						famIdx[ft[0]] = i
						proj = append(proj, model.TagProjection{Family: ft[0]})
					}
					found := false
					for _, n := range proj[i].Names {
						found = found || n == ft[1]
					}
					if !found {
						proj[i].Names = append(proj[i].Names, ft[1])
					}
				}
			}
		}
	}
	var out []string
	for _, op := range ops {
		if len(op) == 0 {
			out = append(out, "bad-op")
			continue
		}
		out = append(out, drv.Safe(func() string {
			switch op[0] {
			case "B":
				var rows []stream.VMElem
				for _, r := range op[1:] {
					p := strings.SplitN(r, ":", 4)
					sid, _ := strconv.ParseUint(p[0], 10, 64)
					ts, _ := strconv.ParseInt(p[1], 10, 64)
					eid, _ := strconv.ParseUint(p[2], 10, 64)
					e := stream.VMElem{Sid: sid, Ts: ts, Eid: eid}
					for _, kv := range splitTags(p[3]) {
						ft := strings.SplitN(kv[0], ".", 2)
						n := len(e.Fams)
						if n == 0 || e.Fams[n-1].Name != ft[0] {
							e.Fams = append(e.Fams, stream.VMFam{Name: ft[0]})
							n++
						}
						e.Fams[n-1].Tags = append(e.Fams[n-1].Tags, stream.VMTag{Name: ft[1], Val: unhex(kv[1])})
					}
					rows = append(rows, e)
				}
				tab.Batch(rows)
				return "ok"
			case "F":
				return tab.Flush()
			case "M":
				return tab.Merge()
			case "Q":
				var sids []uint64
				for _, x := range strings.Split(op[1], ",") {
					v, _ := strconv.ParseUint(x, 10, 64)
					sids = append(sids, v)
				}
				tmin, _ := strconv.ParseInt(op[2], 10, 64)
				tmax, _ := strconv.ParseInt(op[3], 10, 64)
				var res []string
				for _, e := range tab.Query(sids, tmin, tmax, proj) {
					var tags []string
					for _, f := range e.Fams {
						for _, t := range f.Tags {
							tags = append(tags, f.Name+"."+t.Name+"="+hx(t.Val))
						}
					}
					sort.Strings(tags)
					res = append(res, fmt.Sprintf("%d:%d:%d:%s", e.Sid, e.Ts, e.Eid, strings.Join(tags, ",")))
				}
				sort.Strings(res)
				return strings.TrimSpace("R " + strings.Join(res, " "))
			}
			return "bad-op"
		}))
	}
	return strings.Join(out, " ; ")
}

func handleTrace(ops [][]string) string {
	caseNo++
	dir := filepath.Join(scratch, fmt.Sprintf("r%d", caseNo))
	if err := os.MkdirAll(dir, 0o755); err != nil {
		panic(err)
	}
	tab := trace.VMTraceOpen(dir)
	defer func() {
		tab.Close()
		_ = os.RemoveAll(dir)
	}()
	var names []string
	seen := map[string]bool{}
	for _, op := range ops {
		if len(op) > 0 && op[0] == "B" {
			for _, r := range op[1:] {
				p := strings.SplitN(r, ":", 4)
				for _, kv := range splitTags(p[3]) {
					if !seen[kv[0]] {
						seen[kv[0]] = true
						names = append(names, kv[0])
					}
				}
			}
		}
	}
	var out []string
	for _, op := range ops {
		if len(op) == 0 {
			out = append(out, "bad-op")
			continue
		}
		out = append(out, drv.Safe(func() string {
			switch op[0] {
			case "B":
				var rows []trace.VMSpan
				for _, r := range op[1:] {
					p := strings.SplitN(r, ":", 4)
					ts, _ := strconv.ParseInt(p[1], 10, 64)
					sp := trace.VMSpan{Tid: p[0], Ts: ts, SpanID: p[2]}
					for _, kv := range splitTags(p[3]) {
						sp.Tags = append(sp.Tags, trace.VMTag{Name: kv[0], Val: unhex(kv[1])})
					}
					rows = append(rows, sp)
				}
				tab.Batch(rows)
				return "ok"
			case "F":
				return tab.Flush()
			case "M":
				return tab.Merge()
			case "Q":
				tmin, _ := strconv.ParseInt(op[2], 10, 64)
				tmax, _ := strconv.ParseInt(op[3], 10, 64)
				var res []string
				for _, sp := range tab.Query(strings.Split(op[1], ","), tmin, tmax, names) {
					var tags []string
					for _, t := range sp.Tags {
						tags = append(tags, t.Name+"="+hx(t.Val))
					}
					sort.Strings(tags)
					res = append(res, fmt.Sprintf("%s:%s:%s", sp.Tid, sp.SpanID, strings.Join(tags, ",")))
				}
				sort.Strings(res)
				return strings.TrimSpace("R " + strings.Join(res, " "))
			}
			return "bad-op"
		}))
	}
	return strings.Join(out, " ; ")
}
