//go:build verif

// Driver `seg` for C06/C07: the real banyand/internal/storage segment controller (OpenTSDB on a
// scratch directory, trivial TSTable, mock clock, time.Local forced per case) driven by whole
// operation histories, plus function-level access to IntervalRule.Standard/NextTime.
//
// Protocol (one case per line, fields separated by blanks):
//
//	std  <zone> <ztable> <unit H|D> <num> <t>
//	     -> with s = Standard(t), n = NextTime(s):  s n Standard(s) NextTime(t) Standard(n) Standard(n-1ns)   (unix ns)
//	the first token may carry a tag ("std.dst", "hist.legacy"), ignored here
//	hist <zone> <ztable> <unit> <num> <ttlUnit> <ttlNum> <clock0> <legacy> {| <op>}
//	     legacy = "-" or start:end,start:-,...   (directories pre-created before the first open;
//	     "-" as end = metadata without endTime)
//	     ops: create <ts> | select <a> <b> <ia> <ib> | interval <num> | ttl <unit> <num> | reopen |
//	          clock <now> | tick <ts> | retention | delold | peekold | retcreate <ts> | delrace
//	     -> one block per op (and one for the initial open), joined by " | ":
//	        <result> [start,end,suffix;...] {dir,dir,...}
//
//	wq <engine> <unit> <num> <part>...   one flusher round of the liaison write queue, see wq()
//	wb <engine> <unit> <num> <ts>@<shard>...   one write batch through the write callback's grouping, see wb()
//	odb <engine> ...   options the engine's supplier.OpenDB opens the database with, see odb()
//
// <ztable> is ignored here (it feeds the Lean model); <zone> is an IANA name, "UTC" or "F<seconds>".
package main

import (
	"context"
	"errors"
	"fmt"
	"os"
	"path/filepath"
	"sort"
	"strconv"
	"strings"
	"sync"
	"sync/atomic"
	"time"

	"github.com/apache/skywalking-banyandb/api/common"
	commonv1 "github.com/apache/skywalking-banyandb/api/proto/banyandb/common/v1"
	"github.com/apache/skywalking-banyandb/banyand/internal/storage"
	"github.com/apache/skywalking-banyandb/banyand/internal/verifdrv/drv"
	"github.com/apache/skywalking-banyandb/banyand/measure"
	"github.com/apache/skywalking-banyandb/banyand/queue/pub"
	"github.com/apache/skywalking-banyandb/banyand/stream"
	"github.com/apache/skywalking-banyandb/banyand/trace"
	"github.com/apache/skywalking-banyandb/pkg/fs"
	"github.com/apache/skywalking-banyandb/pkg/logger"
	"github.com/apache/skywalking-banyandb/pkg/timestamp"
)

type tbl struct{}

// closeHook, when set, is called by every TSTable.Close: the seam through which an op parks a
// segment's physical delete while another list-mutating path runs.
var closeHook atomic.Pointer[func()]

func (tbl) Close() error {
	if h := closeHook.Load(); h != nil {
		(*h)()
	}
	return nil
}
func (tbl) Collect(storage.Metrics)               {}
func (tbl) TakeFileSnapshot(string) (bool, error) { return true, nil }

type tsdb = storage.TSDB[tbl, struct{}]

var (
	scratchRoot string
	caseNo      int
	zoneCache   = map[string]*time.Location{}
)

func loadZone(name string) *time.Location {
	if l, ok := zoneCache[name]; ok {
		return l
	}
	var l *time.Location
	switch {
	case name == "UTC":
		l = time.UTC
	case strings.HasPrefix(name, "F"):
		sec, err := strconv.Atoi(name[1:])
		if err != nil {
			panic("bad fixed zone " + name)
		}
		l = time.FixedZone(name, sec)
	default:
		var err error
		l, err = time.LoadLocation(name)
		if err != nil {
			panic("cannot load zone " + name + ": " + err.Error())
		}
	}
	zoneCache[name] = l
	return l
}

func unit(s string) storage.IntervalUnit {
	switch s {
	case "H":
		return storage.HOUR
	case "D":
		return storage.DAY
	}
	panic("bad unit " + s)
}

func pbUnit(u storage.IntervalUnit) commonv1.IntervalRule_Unit {
	if u == storage.HOUR {
		return commonv1.IntervalRule_UNIT_HOUR
	}
	return commonv1.IntervalRule_UNIT_DAY
}

func i64(s string) int64 {
	v, err := strconv.ParseInt(s, 10, 64)
	if err != nil {
		panic("bad int " + s)
	}
	return v
}

func handle(f []string) string {
	if len(f) == 0 {
		return "bad-op"
	}
	// the first token may carry a case-kind tag after a dot ("std.dst", "hist.legacy", ...)
	kind := f[0]
	if i := strings.IndexByte(kind, '.'); i >= 0 {
		kind = kind[:i]
	}
	switch kind {
	case "std":
		if len(f) != 6 {
			return "bad-op"
		}
		time.Local = loadZone(f[1])
		ir := storage.IntervalRule{Unit: unit(f[3]), Num: int(i64(f[4]))}
		t := time.Unix(0, i64(f[5]))
		s := ir.Standard(t)
		n := ir.NextTime(s)
		return fmt.Sprintf("%d %d %d %d %d %d", s.UnixNano(), n.UnixNano(), ir.Standard(s).UnixNano(), ir.NextTime(t).UnixNano(),
			ir.Standard(n).UnixNano(), ir.Standard(n.Add(-1)).UnixNano())
	case "hist":
		return hist(f)
	case "wq":
		return wq(f)
	case "rms":
		// rms <target id> <id,id,...|->   the real segmentController.removeSeg on a list of ids
		if len(f) != 3 {
			return "bad-op"
		}
		var ids []uint32
		if f[2] != "-" {
			for _, x := range strings.Split(f[2], ",") {
				ids = append(ids, uint32(i64(x)))
			}
		}
		var sb []string
		for _, id := range storage.VerifRemoveSeg(ids, uint32(i64(f[1]))) {
			sb = append(sb, strconv.FormatUint(uint64(id), 10))
		}
		if len(sb) == 0 {
			return "-"
		}
		return strings.Join(sb, ",")
	case "wb":
		return wb(f)
	case "odb":
		return odb(f)
	}
	return "bad-op"
}

// wb <engine stream|trace> <unit> <num> <ts>@<shard> ...   (zone UTC)
// One write batch through the standalone write callback's real per-batch grouping on a real TSDB.
// -> <ts>@<shard>:<segStart>,<segEnd>,<tableShard> ... in arrival order
func wb(f []string) string {
	if len(f) < 5 {
		return "bad-op"
	}
	time.Local = time.UTC
	ir := storage.IntervalRule{Unit: unit(f[2]), Num: int(i64(f[3]))}
	var ts []int64
	var shards []uint32
	for _, e := range f[4:] {
		p := strings.Split(e, "@")
		ts = append(ts, i64(p[0]))
		shards = append(shards, uint32(i64(p[1])))
	}
	caseNo++
	dir := filepath.Join(scratchRoot, fmt.Sprintf("b%d", caseNo))
	if err := os.MkdirAll(dir, 0o700); err != nil {
		panic(err)
	}
	defer os.RemoveAll(dir)
	var sb []string
	switch f[1] {
	case "stream":
		r, err := stream.VerifSegWriteBatch(dir, ir, ts, shards)
		if err != nil {
			return "ERR"
		}
		for i, x := range r {
			sb = append(sb, fmt.Sprintf("%d@%d:%d,%d,%d", x.TS, shards[i], x.Start, x.End, x.Shard))
		}
	case "trace":
		r, err := trace.VerifSegWriteBatch(dir, ir, ts, shards)
		if err != nil {
			return "ERR"
		}
		for i, x := range r {
			sb = append(sb, fmt.Sprintf("%d@%d:%d,%d,%d", x.TS, shards[i], x.Start, x.End, x.Shard))
		}
	default:
		return "bad-op"
	}
	return strings.Join(sb, " ")
}

func showRule(r storage.IntervalRule) string {
	if r.Unit == storage.HOUR {
		return fmt.Sprintf("H%d", r.Num)
	}
	return fmt.Sprintf("D%d", r.Num)
}

// odb <engine> <ttlUnit> <ttlNum> <siUnit> <siNum> <shards> <node> <stage>...
//   stage = <ttlNum>:<siNum>:<shards>  (stage i is selected by node label tier=s<i>);
//   node  = index of the stage the node's labels match, -1 = node without labels, 9 = labels matching no stage
// The real supplier.OpenDB of the engine on a temp dir; the options read back from the opened database
// next to what pub.ResolveStage returns.
// -> db=<ttl>,<si>,<shards>,<disableRetention>,<disableRotation> rs=<the same from ResolveStage>
func odb(f []string) string {
	if len(f) < 8 {
		return "bad-op"
	}
	tu, su := pbUnit(unit(f[2])), pbUnit(unit(f[4]))
	ro := &commonv1.ResourceOpts{
		ShardNum:        uint32(i64(f[6])),
		Ttl:             &commonv1.IntervalRule{Unit: tu, Num: uint32(i64(f[3]))},
		SegmentInterval: &commonv1.IntervalRule{Unit: su, Num: uint32(i64(f[5]))},
	}
	for i, st := range f[8:] {
		p := strings.Split(st, ":")
		ro.Stages = append(ro.Stages, &commonv1.LifecycleStage{
			Name: fmt.Sprintf("s%d", i), NodeSelector: fmt.Sprintf("tier=s%d", i), ShardNum: uint32(i64(p[2])),
			Ttl:             &commonv1.IntervalRule{Unit: tu, Num: uint32(i64(p[0]))},
			SegmentInterval: &commonv1.IntervalRule{Unit: su, Num: uint32(i64(p[1]))},
		})
	}
	var labels map[string]string
	switch node := i64(f[7]); {
	case node == 9:
		labels = map[string]string{"tier": "none"}
	case node >= 0:
		labels = map[string]string{"tier": fmt.Sprintf("s%d", node)}
	}
	g := &commonv1.Group{Metadata: &commonv1.Metadata{Name: "g"}, ResourceOpts: ro}
	caseNo++
	dir := filepath.Join(scratchRoot, fmt.Sprintf("o%d", caseNo))
	if err := os.MkdirAll(dir, 0o700); err != nil {
		panic(err)
	}
	defer os.RemoveAll(dir)
	var si, ttl storage.IntervalRule
	var shard uint32
	var dr, dro bool
	var err error
	switch f[1] {
	case "stream":
		si, ttl, shard, dr, dro, err = stream.VerifSegOpenDB(dir, g, labels)
	case "measure":
		si, ttl, shard, dr, dro, err = measure.VerifSegOpenDB(dir, g, labels)
	case "trace":
		si, ttl, shard, dr, dro, err = trace.VerifSegOpenDB(dir, g, labels)
	default:
		return "bad-op"
	}
	if err != nil {
		return "ERR"
	}
	res, rerr := pub.ResolveStage(logger.GetLogger("verif-seg"), "g", ro, labels)
	if rerr != nil {
		return "RSERR"
	}
	return fmt.Sprintf("db=%s,%s,%d,%s,%s rs=%s,%s,%d,%s,%s", showRule(ttl), showRule(si), shard, drv.B01(dr), drv.B01(dro),
		showRule(storage.MustToIntervalRule(res.ResourceOpts.Ttl)), showRule(storage.MustToIntervalRule(res.ResourceOpts.SegmentInterval)),
		res.ResourceOpts.ShardNum, drv.B01(res.DisableRetention), drv.B01(res.DisableRotation))
}

// wq <engine stream|measure> <unit> <num> <part> ...   (part = ts,ts,...; zone UTC)
// One round of the liaison write queue's flusher (tsTable.mergeMemParts) over mem parts tagged with
// the start of their segment window, as writeQueueCallback.Rev tags them.
// -> rows=<rows in> parts=<min,max,count;...> (sorted)
func wq(f []string) string {
	if len(f) < 5 {
		return "bad-op"
	}
	time.Local = time.UTC
	ir := storage.IntervalRule{Unit: unit(f[2]), Num: int(i64(f[3]))}
	var parts [][]int64
	var segIDs []int64
	rows := 0
	for _, p := range f[4:] {
		var ts []int64
		for _, t := range strings.Split(p, ",") {
			ts = append(ts, i64(t))
		}
		rows += len(ts)
		parts = append(parts, ts)
		segIDs = append(segIDs, ir.Standard(time.Unix(0, ts[0])).UnixNano())
	}
	caseNo++
	dir := filepath.Join(scratchRoot, fmt.Sprintf("q%d", caseNo))
	if err := os.MkdirAll(dir, 0o700); err != nil {
		panic(err)
	}
	defer os.RemoveAll(dir)
	type part struct {
		min, max int64
		n        uint64
	}
	var res []part
	switch f[1] {
	case "stream":
		ps, err := stream.VerifSegQueueRound(dir, segIDs, parts)
		if err != nil {
			return "ERR"
		}
		for _, p := range ps {
			res = append(res, part{p.Min, p.Max, p.Count})
		}
	case "measure":
		ps, err := measure.VerifSegQueueRound(dir, segIDs, parts)
		if err != nil {
			return "ERR"
		}
		for _, p := range ps {
			res = append(res, part{p.Min, p.Max, p.Count})
		}
	default:
		return "bad-op"
	}
	sort.Slice(res, func(i, j int) bool {
		if res[i].min != res[j].min {
			return res[i].min < res[j].min
		}
		return res[i].max < res[j].max
	})
	var sb []string
	for _, p := range res {
		sb = append(sb, fmt.Sprintf("%d,%d,%d", p.min, p.max, p.n))
	}
	return fmt.Sprintf("rows=%d parts=%s", rows, strings.Join(sb, ";"))
}

type world struct {
	db    tsdb
	clock timestamp.MockClock
	dir   string
	si    storage.IntervalRule
	ttl   storage.IntervalRule
}

func (w *world) open() error {
	ctx := timestamp.SetClock(context.Background(), w.clock)
	ctx = common.SetPosition(ctx, func(p common.Position) common.Position {
		p.Database = "d"
		return p
	})
	opts := storage.TSDBOpts[tbl, struct{}]{
		Location:        w.dir,
		SegmentInterval: w.si,
		TTL:             w.ttl,
		ShardNum:        1,
		TSTableCreator: func(fs.FileSystem, string, common.Position, *logger.Logger, timestamp.TimeRange, struct{}, any) (tbl, error) {
			return tbl{}, nil
		},
		SeriesIndexFlushTimeoutSeconds: 3600,
	}
	db, err := storage.OpenTSDB(ctx, opts, nil, "g")
	if err != nil {
		if db != nil {
			_ = db.Close()
		}
		return err
	}
	w.db = db
	return nil
}

func (w *world) state() string {
	var sb strings.Builder
	sb.WriteString("[")
	if w.db != nil {
		for i, s := range storage.VerifSegments(w.db) {
			if i > 0 {
				sb.WriteString(";")
			}
			fmt.Fprintf(&sb, "%d,%d,%s", s.Start, s.End, s.Suffix)
		}
	}
	sb.WriteString("] {")
	ents, _ := os.ReadDir(w.dir)
	var names []string
	for _, e := range ents {
		if e.IsDir() && strings.HasPrefix(e.Name(), "seg-") {
			names = append(names, strings.TrimPrefix(e.Name(), "seg-"))
		}
	}
	sort.Strings(names)
	sb.WriteString(strings.Join(names, ","))
	sb.WriteString("}")
	return sb.String()
}

func (w *world) update() {
	w.db.UpdateOptions(&commonv1.ResourceOpts{
		ShardNum:        1,
		SegmentInterval: &commonv1.IntervalRule{Unit: pbUnit(w.si.Unit), Num: uint32(w.si.Num)},
		Ttl:             &commonv1.IntervalRule{Unit: pbUnit(w.ttl.Unit), Num: uint32(w.ttl.Num)},
	})
}

func errEnum(err error) string {
	switch {
	case errors.Is(err, storage.ErrInvalidSegmentTimestamp):
		return "EINVAL"
	case errors.Is(err, storage.ErrSegmentClosed):
		return "ECLOSED"
	}
	return "ERR"
}

func (w *world) op(f []string) string {
	if w.db == nil && f[0] != "reopen" {
		return "nodb"
	}
	switch f[0] {
	case "create":
		s, err := w.db.CreateSegmentIfNotExist(time.Unix(0, i64(f[1])))
		if err != nil {
			return "c:" + errEnum(err)
		}
		tr := s.GetTimeRange()
		res := fmt.Sprintf("c:%d,%d,%s", tr.Start.UnixNano(), tr.End.UnixNano(), filepath.Base(s.Location())[4:])
		s.DecRef()
		return res
	case "select":
		tr := timestamp.NewTimeRange(time.Unix(0, i64(f[1])), time.Unix(0, i64(f[2])), f[3] == "1", f[4] == "1")
		ss, err := w.db.SelectSegments(tr, true)
		if err != nil {
			return "s:" + errEnum(err)
		}
		var parts []string
		for _, s := range ss {
			parts = append(parts, strconv.FormatInt(s.GetTimeRange().Start.UnixNano(), 10))
		}
		// pins at this moment (returned segments still held, dropped ones must be released)
		var refs []string
		for _, v := range storage.VerifSegments(w.db) {
			refs = append(refs, strconv.Itoa(int(v.Ref)))
		}
		for _, s := range ss {
			s.DecRef()
		}
		return "s:" + strings.Join(parts, "+") + ";r:" + strings.Join(refs, ",")
	case "interval":
		w.si.Num = int(i64(f[1]))
		w.update()
		return "u:ok"
	case "ttl":
		w.ttl = storage.IntervalRule{Unit: unit(f[1]), Num: int(i64(f[2]))}
		w.update()
		return "u:ok"
	case "reopen":
		if w.db != nil {
			_ = w.db.Close()
			w.db = nil
		}
		if err := w.open(); err != nil {
			return "o:ERR"
		}
		return "o:ok"
	case "clock":
		w.clock.Set(time.Unix(0, i64(f[1])))
		return "k:ok"
	case "tick":
		return "t:" + storage.VerifTick(w.db, i64(f[1]))
	case "retention":
		if !storage.VerifRetentionRun(w.db, w.clock.Now()) {
			return "r:none"
		}
		return "r:ok"
	case "retcreate":
		// retention run with a create issued while its first physical delete is in progress
		if err := storage.VerifEnsureShards(w.db); err != nil {
			return "c:ERR"
		}
		entered, release := parkFirstClose()
		done := make(chan struct{})
		go func() {
			defer close(done)
			drv.Safe(func() string { storage.VerifRetentionRun(w.db, w.clock.Now()); return "" })
		}()
		select {
		case <-entered:
		case <-done:
		}
		res := drv.Safe(func() string { return w.op([]string{"create", f[1]}) })
		close(release)
		<-done
		closeHook.Store(nil)
		return res
	case "delrace":
		// lifecycle deleteExpiredSegments(oldest) racing the disk monitor's DeleteOldestSegment on it
		if err := storage.VerifEnsureShards(w.db); err != nil {
			return "x:ERR"
		}
		segs := storage.VerifSegments(w.db)
		if len(segs) == 0 {
			return "x:-"
		}
		entered, release := parkFirstClose()
		var count int64
		var ok bool
		done1, done2 := make(chan struct{}), make(chan struct{})
		go func() {
			defer close(done1)
			drv.Safe(func() string { count = w.db.DeleteExpiredSegments([]string{segs[0].Suffix}); return "" })
		}()
		parked := false
		select {
		case <-entered:
			parked = true
		case <-done1:
		}
		go func() {
			defer close(done2)
			drv.Safe(func() string { ok, _ = w.db.DeleteOldestSegment(); return "" })
		}()
		if parked && len(segs) > 1 {
			// the forced cleanup now holds the controller lock and waits for the segment's mutex
			deadline := time.Now().Add(5 * time.Second)
			for !storage.VerifControllerLocked(w.db) && time.Now().Before(deadline) {
				time.Sleep(50 * time.Microsecond)
			}
		} else {
			<-done2
		}
		close(release)
		<-done1
		<-done2
		closeHook.Store(nil)
		return fmt.Sprintf("x:%d,%s", count, drv.B01(ok))
	case "delold":
		ok, err := w.db.DeleteOldestSegment()
		if err != nil {
			return "d:ERR"
		}
		return "d:" + drv.B01(ok)
	case "peekold":
		t, ok := w.db.PeekOldestSegmentEndTime()
		if !ok {
			return "p:-"
		}
		return fmt.Sprintf("p:%d", t.UnixNano())
	}
	return "bad-op"
}

// parkFirstClose makes the first TSTable.Close park until release is closed; entered fires when it parks.
func parkFirstClose() (entered chan struct{}, release chan struct{}) {
	entered, release = make(chan struct{}, 1), make(chan struct{})
	var once sync.Once
	h := func() {
		once.Do(func() {
			entered <- struct{}{}
			<-release
		})
	}
	closeHook.Store(&h)
	return entered, release
}

func hist(f []string) (res string) {
	if len(f) < 9 {
		return "bad-op"
	}
	loc := loadZone(f[1])
	time.Local = loc
	caseNo++
	w := &world{
		clock: timestamp.NewMockClock(),
		dir:   filepath.Join(scratchRoot, fmt.Sprintf("h%d", caseNo)),
		si:    storage.IntervalRule{Unit: unit(f[3]), Num: int(i64(f[4]))},
		ttl:   storage.IntervalRule{Unit: unit(f[5]), Num: int(i64(f[6]))},
	}
	w.clock.Set(time.Unix(0, i64(f[7])))
	if err := os.MkdirAll(w.dir, 0o700); err != nil {
		panic(err)
	}
	defer func() {
		if w.db != nil {
			drv.Safe(func() string { _ = w.db.Close(); return "" })
		}
		_ = os.RemoveAll(w.dir)
	}()
	if f[8] != "-" {
		for _, e := range strings.Split(f[8], ",") {
			se := strings.Split(e, ":")
			start := time.Unix(0, i64(se[0]))
			d := filepath.Join(w.dir, "seg-"+storage.FormatSegmentTime(start, w.si))
			if err := os.MkdirAll(d, 0o700); err != nil {
				panic(err)
			}
			meta := `{"version":"` + storage.GetCurrentVersion() + `"}`
			if se[1] != "-" {
				meta = `{"version":"` + storage.GetCurrentVersion() + `","endTime":"` + time.Unix(0, i64(se[1])).Format(time.RFC3339Nano) + `"}`
			}
			if err := os.WriteFile(filepath.Join(d, storage.SegmentMetadataFilename), []byte(meta), 0o600); err != nil {
				panic(err)
			}
		}
	}
	var out []string
	first := drv.Safe(func() string {
		if err := w.open(); err != nil {
			return "o:ERR"
		}
		return "o:ok"
	})
	out = append(out, first+" "+w.state())
	i := 9
	for i < len(f) {
		if f[i] != "|" {
			return "bad-op"
		}
		j := i + 1
		for j < len(f) && f[j] != "|" {
			j++
		}
		opf := f[i+1 : j]
		if len(opf) == 0 {
			return "bad-op"
		}
		r := drv.Safe(func() string { return w.op(opf) })
		if strings.HasPrefix(r, "PANIC") {
			r = "PANIC"
		}
		out = append(out, r+" "+w.state())
		i = j
	}
	return strings.Join(out, " | ")
}

func main() {
	_ = logger.Init(logger.Logging{Env: "prod", Level: "fatal"})
	root := os.Getenv("VERIF_SCRATCH")
	if root == "" {
		root = "/verif/.scratch"
	}
	scratchRoot = filepath.Join(root, fmt.Sprintf("seg-%d", os.Getpid()))
	if err := os.MkdirAll(scratchRoot, 0o700); err != nil {
		panic(err)
	}
	defer os.RemoveAll(scratchRoot)
	drv.Run(handle)
}
