//go:build verif

package grpc

import (
	"github.com/apache/skywalking-banyandb/banyand/metadata/schema"
	"github.com/apache/skywalking-banyandb/pkg/node"
)

// This file is injected with `go build -overlay` by the /verif C16 check; it is not part of /repo.

// VerifC16NodeRegistry wraps a selector into the real clusterNodeService without a queue pipeline
// (NewClusterNodeRegistry only adds the pipeline registration), and also returns it as the handler
// that receives node add/update/delete events.
func VerifC16NodeRegistry(sel node.Selector) (NodeRegistry, schema.EventHandler) {
	s := &clusterNodeService{sel: sel}
	return s, s
}
