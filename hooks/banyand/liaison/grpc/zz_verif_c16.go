//go:build verif

package grpc

import (
	"github.com/apache/skywalking-banyandb/api/common"
	commonv1 "github.com/apache/skywalking-banyandb/api/proto/banyandb/common/v1"
	databasev1 "github.com/apache/skywalking-banyandb/api/proto/banyandb/database/v1"
	measurev1 "github.com/apache/skywalking-banyandb/api/proto/banyandb/measure/v1"
	modelv1 "github.com/apache/skywalking-banyandb/api/proto/banyandb/model/v1"
	streamv1 "github.com/apache/skywalking-banyandb/api/proto/banyandb/stream/v1"
	"github.com/apache/skywalking-banyandb/banyand/metadata/schema"
	"github.com/apache/skywalking-banyandb/pkg/logger"
	"github.com/apache/skywalking-banyandb/pkg/node"
	"github.com/apache/skywalking-banyandb/pkg/partition"
	pbv1 "github.com/apache/skywalking-banyandb/pkg/pb/v1"
)

// This file is injected with `go build -overlay` by the /verif C16 check; it is not part of /repo.
// It has no logic of its own: it builds the real liaison objects around their unexported constructors.

// VerifC16NodeRegistry wraps a selector into the real clusterNodeService without a queue pipeline
// (NewClusterNodeRegistry only adds the pipeline registration), and also returns it as the handler
// that receives node add/update/delete events.
func VerifC16NodeRegistry(sel node.Selector) (NodeRegistry, schema.EventHandler) {
	s := &clusterNodeService{sel: sel}
	return s, s
}

// VerifC16Family is one tag family of a client-supplied write spec.
type VerifC16Family struct {
	Name string
	Tags []string
}

// VerifC16Navigate registers a group and a stream ('s') or measure ('m') with the liaison's real group / entity /
// sharding-key repositories (through their schema event handlers) and routes one write through the real
// streamService.buildSpecLocator+navigate resp. measureService.buildSpecLocators+navigate.
// hasSpec=false is a write without tag_family_spec / data_point_spec.
func VerifC16Navigate(kind byte, shardNum uint32, name string, families []*databasev1.TagFamilySpec, entity, shardingKey []string,
	hasSpec bool, spec []VerifC16Family, write []*modelv1.TagFamilyForWrite,
) (pbv1.EntityValues, common.ShardID, error) {
	l := logger.GetLogger("verif-c16")
	gr := &groupRepo{log: l, resourceOpts: make(map[string]*commonv1.ResourceOpts), inflight: make(map[string]*groupInflight)}
	er := &entityRepo{
		log: l, entitiesMap: make(map[identity]partition.Locator), measureMap: make(map[identity]*databasev1.Measure),
		streamMap: make(map[identity]*databasev1.Stream), traceMap: make(map[identity]*databasev1.Trace), traceIDIndexMap: make(map[identity]int),
	}
	sr := &shardingKeyRepo{log: l, shardingKeysMap: make(map[identity]partition.Locator)}
	md := &commonv1.Metadata{Group: "g", Name: name}
	cat := commonv1.Catalog_CATALOG_STREAM
	if kind == 'm' {
		cat = commonv1.Catalog_CATALOG_MEASURE
	}
	gr.OnAddOrUpdate(schema.Metadata{TypeMeta: schema.TypeMeta{Kind: schema.KindGroup}, Spec: &commonv1.Group{
		Metadata: &commonv1.Metadata{Name: "g"}, Catalog: cat, ResourceOpts: &commonv1.ResourceOpts{ShardNum: shardNum},
	}})
	if kind == 'm' {
		m := &databasev1.Measure{Metadata: md, Entity: &databasev1.Entity{TagNames: entity}, TagFamilies: families}
		if shardingKey != nil {
			m.ShardingKey = &databasev1.ShardingKey{TagNames: shardingKey}
		}
		ev := schema.Metadata{TypeMeta: schema.TypeMeta{Kind: schema.KindMeasure}, Spec: m}
		er.OnAddOrUpdate(ev)
		sr.OnAddOrUpdate(ev)
		ms := &measureService{discoveryService: &discoveryService{groupRepo: gr, entityRepo: er, shardingKeyRepo: sr, kind: schema.KindMeasure}, l: l}
		var dps *measurev1.DataPointSpec
		if hasSpec {
			dps = &measurev1.DataPointSpec{}
			for _, f := range spec {
				dps.TagFamilySpec = append(dps.TagFamilySpec, &measurev1.TagFamilySpec{Name: f.Name, TagNames: f.Tags})
			}
		}
		el, sl := ms.buildSpecLocators(md, dps)
		return ms.navigate(md, &measurev1.WriteRequest{DataPoint: &measurev1.DataPointValue{TagFamilies: write}}, el, sl)
	}
	ev := schema.Metadata{TypeMeta: schema.TypeMeta{Kind: schema.KindStream}, Spec: &databasev1.Stream{
		Metadata: md, Entity: &databasev1.Entity{TagNames: entity}, TagFamilies: families,
	}}
	er.OnAddOrUpdate(ev)
	sr.OnAddOrUpdate(ev)
	ss := &streamService{discoveryService: &discoveryService{groupRepo: gr, entityRepo: er, shardingKeyRepo: sr, kind: schema.KindStream}, l: l}
	var sp []*streamv1.TagFamilySpec
	if hasSpec {
		sp = []*streamv1.TagFamilySpec{}
		for _, f := range spec {
			sp = append(sp, &streamv1.TagFamilySpec{Name: f.Name, TagNames: f.Tags})
		}
	}
	return ss.navigate(md, &streamv1.WriteRequest{Element: &streamv1.ElementValue{TagFamilies: write}}, ss.buildSpecLocator(md, sp))
}
