//go:build verif

package grpc

import (
	"time"

	commonv1 "github.com/apache/skywalking-banyandb/api/proto/banyandb/common/v1"
	databasev1 "github.com/apache/skywalking-banyandb/api/proto/banyandb/database/v1"
	measurev1 "github.com/apache/skywalking-banyandb/api/proto/banyandb/measure/v1"
	streamv1 "github.com/apache/skywalking-banyandb/api/proto/banyandb/stream/v1"
	tracev1 "github.com/apache/skywalking-banyandb/api/proto/banyandb/trace/v1"
	"github.com/apache/skywalking-banyandb/banyand/metadata/schema"
	"github.com/apache/skywalking-banyandb/banyand/observability"
	"github.com/apache/skywalking-banyandb/banyand/queue"
	"github.com/apache/skywalking-banyandb/pkg/logger"
)

// VerifC17WriteLiaison wires the liaison's real Write handlers (traceService / streamService / measureService)
// to a caller-supplied node registry and publisher, with the schema caches filled through the real
// OnAddOrUpdate event handlers. It is injected with `go build -overlay`; it is not part of /repo.
type VerifC17WriteLiaison struct {
	trace   *traceService
	stream  *streamService
	measure *measureService
}

// NewVerifC17WriteLiaison builds the three services for one group with shardNum shards.
func NewVerifC17WriteLiaison(group string, shardNum uint32, reg NodeRegistry, pipeline queue.Client,
	traces []*databasev1.Trace, streams []*databasev1.Stream, measures []*databasev1.Measure,
) *VerifC17WriteLiaison {
	l := logger.GetLogger("verif-c17-liaison-grpc")
	m := newMetrics(observability.NewBypassRegistry().With(liaisonGrpcScope))
	mk := func(kind schema.Kind, cat commonv1.Catalog) *discoveryService {
		gr := &groupRepo{log: l, resourceOpts: make(map[string]*commonv1.ResourceOpts), inflight: make(map[string]*groupInflight)}
		gr.OnAddOrUpdate(schema.Metadata{TypeMeta: schema.TypeMeta{Kind: schema.KindGroup, Name: group}, Spec: &commonv1.Group{
			Metadata: &commonv1.Metadata{Name: group}, Catalog: cat, ResourceOpts: &commonv1.ResourceOpts{ShardNum: shardNum},
		}})
		ds := newDiscoveryService(kind, nil, reg, gr)
		ds.SetLogger(l)
		return ds
	}
	out := &VerifC17WriteLiaison{
		trace:   &traceService{discoveryService: mk(schema.KindTrace, commonv1.Catalog_CATALOG_TRACE), pipeline: pipeline, l: l, metrics: m, writeTimeout: time.Second},
		stream:  &streamService{discoveryService: mk(schema.KindStream, commonv1.Catalog_CATALOG_STREAM), pipeline: pipeline, l: l, metrics: m, writeTimeout: time.Second},
		measure: &measureService{discoveryService: mk(schema.KindMeasure, commonv1.Catalog_CATALOG_MEASURE), pipeline: pipeline, l: l, metrics: m, writeTimeout: time.Second},
	}
	for _, t := range traces {
		out.trace.entityRepo.OnAddOrUpdate(schema.Metadata{TypeMeta: schema.TypeMeta{Kind: schema.KindTrace, Group: group, Name: t.Metadata.Name}, Spec: t})
	}
	for _, s := range streams {
		out.stream.entityRepo.OnAddOrUpdate(schema.Metadata{TypeMeta: schema.TypeMeta{Kind: schema.KindStream, Group: group, Name: s.Metadata.Name}, Spec: s})
	}
	for _, ms := range measures {
		out.measure.entityRepo.OnAddOrUpdate(schema.Metadata{TypeMeta: schema.TypeMeta{Kind: schema.KindMeasure, Group: group, Name: ms.Metadata.Name}, Spec: ms})
	}
	return out
}

// TraceWrite is traceService.Write.
func (l *VerifC17WriteLiaison) TraceWrite(s tracev1.TraceService_WriteServer) error { return l.trace.Write(s) }

// StreamWrite is streamService.Write.
func (l *VerifC17WriteLiaison) StreamWrite(s streamv1.StreamService_WriteServer) error { return l.stream.Write(s) }

// MeasureWrite is measureService.Write.
func (l *VerifC17WriteLiaison) MeasureWrite(s measurev1.MeasureService_WriteServer) error {
	return l.measure.Write(s)
}
