//go:build verif

package grpc

import (
	"context"
	"fmt"
	"time"

	commonv1 "github.com/apache/skywalking-banyandb/api/proto/banyandb/common/v1"
	databasev1 "github.com/apache/skywalking-banyandb/api/proto/banyandb/database/v1"
	modelv1 "github.com/apache/skywalking-banyandb/api/proto/banyandb/model/v1"
	propertyv1 "github.com/apache/skywalking-banyandb/api/proto/banyandb/property/v1"
	"github.com/apache/skywalking-banyandb/banyand/metadata"
	"github.com/apache/skywalking-banyandb/banyand/metadata/schema"
	"github.com/apache/skywalking-banyandb/banyand/observability"
	propertydb "github.com/apache/skywalking-banyandb/banyand/property/db"
	"github.com/apache/skywalking-banyandb/banyand/queue"
	"github.com/apache/skywalking-banyandb/pkg/convert"
	"github.com/apache/skywalking-banyandb/pkg/logger"
	"github.com/apache/skywalking-banyandb/pkg/meter"
	"github.com/apache/skywalking-banyandb/pkg/partition"
)

// This file is injected with `go build -overlay` by the /verif C18 check; it is not part of /repo.
// It builds the real liaison propertyServer around fakes for the schema registry / node registry and
// forwards to its methods. The only function with logic of its own is ApplyAt (see its comment).

type verifC18Groups struct {
	schema.Group
	g map[string]*commonv1.Group
}

func (v *verifC18Groups) GetGroup(_ context.Context, group string) (*commonv1.Group, error) {
	g, ok := v.g[group]
	if !ok {
		return nil, fmt.Errorf("group %s not found", group)
	}
	return g, nil
}

type verifC18Props struct {
	schema.Property
	p map[string]*databasev1.Property // by group/name
}

func (v *verifC18Props) GetProperty(_ context.Context, md *commonv1.Metadata) (*databasev1.Property, error) {
	p, ok := v.p[md.Group+"/"+md.Name]
	if !ok {
		return nil, fmt.Errorf("property schema %s/%s not found", md.Group, md.Name)
	}
	return p, nil
}

type verifC18Repo struct {
	metadata.Repo
	groups *verifC18Groups
	props  *verifC18Props
}

func (v *verifC18Repo) GroupRegistry() schema.Group       { return v.groups }
func (v *verifC18Repo) PropertyRegistry() schema.Property { return v.props }

type verifC18Nodes struct{ nodes []string }

func (v *verifC18Nodes) Locate(_, _ string, _, replicaID uint32) (string, error) {
	if int(replicaID) >= len(v.nodes) {
		return "", fmt.Errorf("no node for replica %d", replicaID)
	}
	return v.nodes[replicaID], nil
}

func (v *verifC18Nodes) LocateAll(_ string, _ uint32, _ int) ([]string, error) { return v.nodes, nil }
func (v *verifC18Nodes) String() string                                        { return "verif-c18" }

// VerifC18Server is the real liaison propertyServer.
type VerifC18Server struct {
	ps *propertyServer
}

// NewVerifC18Server builds the server: every group has `len(nodes)` copies and 1 shard, every (group, name) a
// property schema with string tags `tags`; replica i of a shard is located on nodes[i].
func NewVerifC18Server(pipeline queue.Client, nodes []string, groups, names, tags []string) *VerifC18Server {
	gm := map[string]*commonv1.Group{}
	pm := map[string]*databasev1.Property{}
	ro := map[string]*commonv1.ResourceOpts{}
	for _, group := range groups {
		g := &commonv1.Group{
			Metadata:     &commonv1.Metadata{Name: group},
			Catalog:      commonv1.Catalog_CATALOG_PROPERTY,
			ResourceOpts: &commonv1.ResourceOpts{ShardNum: 1, Replicas: uint32(len(nodes) - 1)},
		}
		gm[group] = g
		ro[group] = g.ResourceOpts
		for _, name := range names {
			ps := &databasev1.Property{Metadata: &commonv1.Metadata{Group: group, Name: name}}
			for _, t := range tags {
				ps.Tags = append(ps.Tags, &databasev1.TagSpec{Name: t, Type: databasev1.TagType_TAG_TYPE_STRING})
			}
			pm[group+"/"+name] = ps
		}
	}
	repo := &verifC18Repo{groups: &verifC18Groups{g: gm}, props: &verifC18Props{p: pm}}
	nr := &verifC18Nodes{nodes: nodes}
	gr := &groupRepo{
		log:          logger.GetLogger("verif-c18"),
		resourceOpts: ro,
		inflight:     make(map[string]*groupInflight),
	}
	srv := &propertyServer{
		schemaRegistry:   repo,
		pipeline:         pipeline,
		nodeRegistry:     nr,
		discoveryService: &discoveryService{metadataRepo: repo, nodeRegistry: nr, groupRepo: gr, log: logger.GetLogger("verif-c18"), kind: schema.KindProperty},
		metrics:          newMetrics(observability.BypassRegistry.With(meter.NewHierarchicalScope("verif", "_"))),
	}
	// the read-repair queue of the server, created as startRepairQueue does but NOT started: the driver
	// drains it synchronously (DrainRepairQueue) so that runs are deterministic.
	srv.repairQueue = newRepairQueue(srv, 1024)
	return &VerifC18Server{ps: srv}
}

// Apply is propertyServer.Apply.
func (v *VerifC18Server) Apply(req *propertyv1.ApplyRequest) (*propertyv1.ApplyResponse, error) {
	return v.ps.Apply(context.Background(), req)
}

// Delete is propertyServer.Delete.
func (v *VerifC18Server) Delete(req *propertyv1.DeleteRequest) (*propertyv1.DeleteResponse, error) {
	return v.ps.Delete(context.Background(), req)
}

// Query is propertyServer.Query.
func (v *VerifC18Server) Query(req *propertyv1.QueryRequest) (*propertyv1.QueryResponse, error) {
	return v.ps.Query(context.Background(), req)
}

// DrainRepairQueue runs repairQueue.processTask on every queued read-repair task (what the goroutine of
// repairQueue.Start does), or drops them when run is false (a full queue / failed publish).
func (v *VerifC18Server) DrainRepairQueue(run bool) (n int, errs int) {
	for {
		select {
		case t := <-v.ps.repairQueue.queue:
			n++
			if run {
				if err := v.ps.repairQueue.processTask(context.Background(), t); err != nil {
					errs++
				}
			} else {
				v.ps.repairQueue.processLocker.Lock()
				delete(v.ps.repairQueue.inProcess, t.key)
				v.ps.repairQueue.processLocker.Unlock()
			}
		default:
			return n, errs
		}
	}
}

// ApplyAt is the body of propertyServer.Apply from `queryProperties` on, with the wall clock
// (`start := time.Now()`) replaced by the argument. Statement order and the helpers called are those of
// Apply; validation, metrics and access log are omitted. Used only for the directed "equal / decreasing
// clock" cases, which cannot be produced through time.Now().
func (v *VerifC18Server) ApplyAt(now time.Time, req *propertyv1.ApplyRequest) (resp *propertyv1.ApplyResponse, err error) {
	ps := v.ps
	ctx := context.Background()
	property := req.Property
	if err = ps.validatePropertyRequest(property); err != nil {
		return nil, err
	}
	g := req.Property.Metadata.Group
	var group *commonv1.Group
	if group, err = ps.validateGroupForProperty(ctx, g); err != nil {
		return nil, err
	}
	if err = ps.validatePropertyTags(ctx, property); err != nil {
		return nil, err
	}
	nodeProperties, _, _, err := ps.queryProperties(ctx, &propertyv1.QueryRequest{
		Groups: []string{g},
		Name:   property.Metadata.Name,
		Ids:    []string{property.Id},
	})
	if err != nil {
		return nil, err
	}
	prevPropertyWithMetadata, olderProperties := ps.findPrevAndOlderProperties(nodeProperties)
	entity := propertydb.GetEntity(property)
	shardID, err := partition.ShardID(convert.StringToBytes(entity), group.ResourceOpts.ShardNum)
	if err != nil {
		return nil, err
	}
	nodes, err := ps.locateNodeSetForProperty(property, uint32(shardID))
	if err != nil {
		return nil, err
	}
	var prev *propertyv1.Property
	if prevPropertyWithMetadata != nil && prevPropertyWithMetadata.deletedTime <= 0 {
		prev = prevPropertyWithMetadata.Property
	}
	defer func() {
		if len(olderProperties) == 0 || err != nil {
			return
		}
		var ids [][]byte
		for _, p := range olderProperties {
			ids = append(ids, propertydb.GetPropertyID(p.Property))
		}
		_ = ps.remove(ids)
	}()
	if req.Strategy == propertyv1.ApplyRequest_STRATEGY_REPLACE {
		return ps.replaceProperty(ctx, now, uint64(shardID), nodes, prev, property)
	}
	return ps.mergeProperty(ctx, now, uint64(shardID), nodes, prev, property)
}

// VerifC18Item is one per-node query result handed to the de-duplication functions.
type VerifC18Item struct {
	Key     string
	Sorted  []byte
	Rev     int64
	Deleted int64
}

// VerifC18Winner is one de-duplicated entry.
type VerifC18Winner struct {
	Key     string
	Nodes   []string
	Rev     int64
	Deleted int64
}

func verifC18Input(group, name string, in map[string][]VerifC18Item) map[string][]*propertyWithMetadata {
	np := make(map[string][]*propertyWithMetadata, len(in))
	for n, items := range in {
		lst := make([]*propertyWithMetadata, 0, len(items))
		for _, it := range items {
			lst = append(lst, &propertyWithMetadata{
				Property: &propertyv1.Property{
					Metadata: &commonv1.Metadata{Group: group, Name: name, ModRevision: it.Rev},
					Id:       it.Key,
				},
				node: n, sortedValue: it.Sorted, deletedTime: it.Deleted,
			})
		}
		np[n] = lst
	}
	return np
}

func verifC18Out(res []*propertyWithCount) []VerifC18Winner {
	out := make([]VerifC18Winner, 0, len(res))
	for _, r := range res {
		w := VerifC18Winner{Key: r.Id, Rev: r.Metadata.ModRevision, Deleted: r.deletedTime}
		for n := range r.existNodes {
			w.Nodes = append(w.Nodes, n)
		}
		out = append(out, w)
	}
	return out
}

// SimpleDedup is propertyServer.simpleDedupWithoutSort on the given per-node results.
func (v *VerifC18Server) SimpleDedup(group, name string, in map[string][]VerifC18Item) []VerifC18Winner {
	return verifC18Out(v.ps.simpleDedupWithoutSort(verifC18Input(group, name, in)))
}

// SortedDedup is propertyServer.sortedQueryWithDedup on the given per-node results (each list pre-sorted
// by Sorted, as the data nodes deliver them).
func (v *VerifC18Server) SortedDedup(group, name string, in map[string][]VerifC18Item, desc bool) []VerifC18Winner {
	req := &propertyv1.QueryRequest{Limit: 100, OrderBy: &propertyv1.QueryOrder{TagName: "t", Sort: modelv1.Sort_SORT_ASC}}
	if desc {
		req.OrderBy.Sort = modelv1.Sort_SORT_DESC
	}
	return verifC18Out(v.ps.sortedQueryWithDedup(verifC18Input(group, name, in), req))
}
