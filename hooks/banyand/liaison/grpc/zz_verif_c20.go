//go:build verif

package grpc

import "github.com/apache/skywalking-banyandb/pkg/bydbql"

// VerifC20Cache exposes the liaison's prepared-statement cache (bydbql_cache.go) to the /verif C20 driver.
// It is injected with `go build -overlay`; it is not part of /repo.
type VerifC20Cache struct{ c *preparedCache }

// NewVerifC20Cache builds the same cache the BydbQL service uses (no metrics sink).
func NewVerifC20Cache(size, maxBytes int) *VerifC20Cache {
	return &VerifC20Cache{c: newPreparedCache(size, maxBytes, nil)}
}

// GetOrPrepare is preparedCache.getOrPrepare.
func (v *VerifC20Cache) GetOrPrepare(query string) (*bydbql.PreparedStatement, string, error) {
	return v.c.getOrPrepare(query)
}
