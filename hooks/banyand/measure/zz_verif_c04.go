//go:build verif

// Exports for the /verif C04 driver (crash recovery of the measure tsTable).
// Injected with `go build -tags verif -overlay`; not part of /repo.
//
// The harness replaces only the *scheduling* of the background loops (flusherLoop / mergeLoop are timer and
// watcher driven): it runs the real introducerLoop goroutine and calls the real tst.flush,
// tst.mergePartsThenSendIntroduction, initTSTable, partWrapper/snapshot reference counting directly, in the
// order a generated history dictates.
package measure

import (
	"fmt"
	"os"
	"sort"
	"strings"
	"time"

	"github.com/apache/skywalking-banyandb/api/common"
	"github.com/apache/skywalking-banyandb/banyand/internal/storage"
	"github.com/apache/skywalking-banyandb/banyand/protector"
	"github.com/apache/skywalking-banyandb/pkg/convert"
	"github.com/apache/skywalking-banyandb/pkg/fs"
	"github.com/apache/skywalking-banyandb/pkg/logger"
	pbv1 "github.com/apache/skywalking-banyandb/pkg/pb/v1"
	"github.com/apache/skywalking-banyandb/pkg/run"
	"github.com/apache/skywalking-banyandb/pkg/watcher"
)

// VC04 is a measure tsTable driven synchronously.
type VC04 struct {
	tst     *tsTable
	flushCh chan *flusherIntroduction
	mergeCh chan *mergerIntroduction
	held    []*snapshot
	Root    string
	Epoch   uint64
	Fresh   bool
}

// VC04RowsPerBatch is the number of data points of one batch (two series).
const VC04RowsPerBatch = 4

// VC04Open runs the real initTSTable on root. When the table comes back empty the loops start at freshEpoch
// (the real code uses time.Now().UnixNano(); a fixed value keeps file names reproducible).
func VC04Open(root string, freshEpoch uint64) *VC04 {
	lfs := fs.NewLocalFileSystem()
	l := logger.GetLogger("verif-c04")
	opt := option{protector: protector.Nop{}, mergePolicy: newDefaultMergePolicy()}
	tst, epoch := initTSTable(lfs, root, common.Position{}, l, opt, nil)
	v := &VC04{tst: tst, Root: root, Epoch: epoch}
	if tst.snapshot == nil {
		v.Fresh = true
		v.Epoch = freshEpoch
	}
	return v
}

// Start starts the real introducer loop (and nothing else).
func (v *VC04) Start() {
	tst := v.tst
	tst.loopCloser = run.NewCloser(1 + 1)
	tst.introductions = make(chan *introduction)
	v.flushCh = make(chan *flusherIntroduction)
	v.mergeCh = make(chan *mergerIntroduction)
	introducerWatcher := make(watcher.Channel, 1)
	go tst.introducerLoop(v.flushCh, v.mergeCh, introducerWatcher, v.Epoch+1)
}

// Close stops the loop and drops the table's snapshot reference.
func (v *VC04) Close() {
	for _, h := range v.held {
		h.decRef()
	}
	v.held = nil
	_ = v.tst.Close()
}

// Batch ingests batch b: VC04RowsPerBatch points with timestamps b*1000+j on series 1 and 2.
func (v *VC04) Batch(b int) {
	dps := &dataPoints{}
	for j := 0; j < VC04RowsPerBatch; j++ {
		dps.seriesIDs = append(dps.seriesIDs, common.SeriesID(1+j%2))
		dps.timestamps = append(dps.timestamps, int64(b*1000+j))
		dps.versions = append(dps.versions, int64(b))
		dps.tagFamilies = append(dps.tagFamilies, []nameValues{{
			name: "tf1", values: []*nameValue{
				{name: "t", valueType: pbv1.ValueTypeStr, value: []byte(fmt.Sprintf("batch-%d-row-%d", b, j))},
			},
		}})
		dps.fields = append(dps.fields, nameValues{
			name: "skipped", values: []*nameValue{
				{name: "f", valueType: pbv1.ValueTypeInt64, value: convert.Int64ToBytes(int64(b*1000 + j))},
			},
		})
	}
	v.tst.mustAddDataPoints(dps)
}

// Flush is the flusher loop body with flushTimeout < 1: flush every memory part of the current snapshot.
func (v *VC04) Flush() bool {
	cur := v.tst.currentSnapshot()
	if cur == nil {
		return false
	}
	defer cur.decRef()
	v.tst.flush(cur, v.flushCh)
	return true
}

// MergeMem is the flusher loop's mergeMemParts: every memory part of the snapshot is merged into one file part.
func (v *VC04) MergeMem() bool {
	cur := v.tst.currentSnapshot()
	if cur == nil {
		return false
	}
	defer cur.decRef()
	merged, err := v.tst.mergeMemParts(cur, v.mergeCh)
	if err != nil {
		panic(err)
	}
	return merged
}

// Merge is the merge loop body (mergeSnapshot) with the merge policy's choice replaced by an explicit one:
// the file parts at the given positions (among the file parts of the current snapshot, in snapshot order).
// hold=true keeps the reference on the pre-merge snapshot (as a long query would) until Release.
func (v *VC04) Merge(sel []int, hold bool) bool {
	cur := v.tst.currentSnapshot()
	if cur == nil {
		return false
	}
	var fileParts []*partWrapper
	for _, pw := range cur.parts {
		if pw.mp != nil || pw.p.partMetadata.TotalCount < 1 {
			continue
		}
		fileParts = append(fileParts, pw)
	}
	var dst []*partWrapper
	toBeMerged := make(map[uint64]struct{})
	for _, i := range sel {
		if i < len(fileParts) {
			if _, dup := toBeMerged[fileParts[i].ID()]; !dup {
				dst = append(dst, fileParts[i])
				toBeMerged[fileParts[i].ID()] = struct{}{}
			}
		}
	}
	if len(dst) < 2 {
		cur.decRef()
		return false
	}
	_, err := v.tst.mergePartsThenSendIntroduction(snapshotCreatorMerger, dst, toBeMerged, v.mergeCh,
		v.tst.loopCloser.CloseNotify(), "file")
	if err != nil {
		cur.decRef()
		panic(err)
	}
	if hold {
		v.held = append(v.held, cur)
	} else {
		cur.decRef()
	}
	return true
}

// Release drops the held pre-merge snapshots; parts whose last reference this was are removed (asynchronously
// in the real code: `go MustRMAll`).
func (v *VC04) Release() {
	for _, h := range v.held {
		h.decRef()
	}
	v.held = nil
}

// WaitGone waits until the part directories that are neither in the current snapshot nor referenced by a held
// snapshot have disappeared (the asynchronous removal goroutines have finished).
func (v *VC04) WaitGone() bool {
	keep := make(map[string]bool)
	cur := v.tst.currentSnapshot()
	if cur != nil {
		for _, pw := range cur.parts {
			keep[partName(pw.ID())] = true
		}
		cur.decRef()
	}
	for _, h := range v.held {
		for _, pw := range h.parts {
			keep[partName(pw.ID())] = true
		}
	}
	deadline := time.Now().Add(10 * time.Second)
	for {
		pending := false
		ee, err := os.ReadDir(v.Root)
		if err != nil {
			return false
		}
		for _, e := range ee {
			if e.IsDir() && !keep[e.Name()] {
				pending = true
			}
		}
		if !pending {
			return true
		}
		if time.Now().After(deadline) {
			return false
		}
		time.Sleep(200 * time.Microsecond)
	}
}

// WaitClean waits until the introducer loop's gc.clean (which runs after the introduction was acknowledged to
// the flusher/merger) has removed the superseded manifest: at most one "*.snp" file is left.
func (v *VC04) WaitClean() bool {
	deadline := time.Now().Add(10 * time.Second)
	for {
		ee, err := os.ReadDir(v.Root)
		if err != nil {
			return false
		}
		n := 0
		for _, e := range ee {
			if !e.IsDir() && strings.HasSuffix(e.Name(), snapshotSuffix) {
				n++
			}
		}
		if n <= 1 {
			return true
		}
		if time.Now().After(deadline) {
			return false
		}
		time.Sleep(200 * time.Microsecond)
	}
}

// Dump renders the current snapshot: "epoch=<hex> parts=<id>:<m|f>:<batch,...>;..." and reads every block of
// every part completely (all columns), so a part with a missing or truncated file panics here.
func (v *VC04) Dump() string {
	cur := v.tst.currentSnapshot()
	if cur == nil {
		return "epoch=- parts="
	}
	defer cur.decRef()
	var sb strings.Builder
	fmt.Fprintf(&sb, "epoch=%x parts=", cur.epoch)
	total := make(map[int]int)
	for i, pw := range cur.parts {
		if i > 0 {
			sb.WriteByte(';')
		}
		kind := "f"
		if pw.mp != nil {
			kind = "m"
		}
		counts := vc04ReadPart(pw.p)
		var bs []int
		for b, n := range counts {
			bs = append(bs, b)
			total[b] += n
		}
		sort.Ints(bs)
		fmt.Fprintf(&sb, "%x:%s:", pw.ID(), kind)
		for j, b := range bs {
			if j > 0 {
				sb.WriteByte(',')
			}
			fmt.Fprintf(&sb, "%d", b)
		}
		if uint64(vc04Sum(counts)) != pw.p.partMetadata.TotalCount {
			fmt.Fprintf(&sb, "!count(meta=%d,read=%d)", pw.p.partMetadata.TotalCount, vc04Sum(counts))
		}
	}
	// the query path's part iteration over the whole snapshot (block metadata level)
	pp, _ := cur.getParts(nil, storage.NewShardCache("verif-c04", 0, 0), 0, int64(^uint64(0)>>1))
	ti := &tstIter{}
	ti.init(pp, []common.SeriesID{1, 2}, 0, int64(^uint64(0)>>1))
	blocks := 0
	var rows uint64
	for ti.nextBlock() {
		blocks++
		rows += ti.piHeap[0].curBlock.count
	}
	if err := ti.Error(); err != nil {
		panic(fmt.Sprintf("tstIter: %v", err))
	}
	var bs []int
	for b := range total {
		bs = append(bs, b)
	}
	sort.Ints(bs)
	sb.WriteString(" rows=")
	for j, b := range bs {
		if j > 0 {
			sb.WriteByte(',')
		}
		fmt.Fprintf(&sb, "%d:%d", b, total[b])
	}
	fmt.Fprintf(&sb, " iterrows=%d", rows)
	return sb.String()
}

func vc04Sum(m map[int]int) int {
	n := 0
	for _, c := range m {
		n += c
	}
	return n
}

// vc04ReadPart decodes every block of the part (timestamps, versions, tag families, fields) through the merge
// reader and returns rows per batch id; it checks that the tag and field values are the ones Batch wrote.
func vc04ReadPart(p *part) map[int]int {
	pmi := generatePartMergeIter()
	defer releasePartMergeIter(pmi)
	pmi.mustInitFromPart(p)
	br := generateBlockReader()
	defer releaseBlockReader(br)
	br.init([]*partMergeIter{pmi})
	dec := generateColumnValuesDecoder()
	defer releaseColumnValuesDecoder(dec)
	res := make(map[int]int)
	for br.nextBlockMetadata() {
		br.loadBlockData(dec)
		b := &br.block.block
		for i, ts := range b.timestamps {
			batch := int(ts / 1000)
			row := int(ts % 1000)
			res[batch]++
			if b.versions[i] != int64(batch) {
				panic(fmt.Sprintf("part %x: version %d at ts %d", p.partMetadata.ID, b.versions[i], ts))
			}
			want := fmt.Sprintf("batch-%d-row-%d", batch, row)
			if len(b.tagFamilies) != 1 || len(b.tagFamilies[0].columns) != 1 || string(b.tagFamilies[0].columns[0].values[i]) != want {
				panic(fmt.Sprintf("part %x: tag value mismatch at ts %d", p.partMetadata.ID, ts))
			}
			if len(b.field.columns) != 1 || convert.BytesToInt64(b.field.columns[0].values[i]) != ts {
				panic(fmt.Sprintf("part %x: field value mismatch at ts %d", p.partMetadata.ID, ts))
			}
		}
	}
	if err := br.error(); err != nil {
		panic(fmt.Sprintf("part %x: %v", p.partMetadata.ID, err))
	}
	return res
}
