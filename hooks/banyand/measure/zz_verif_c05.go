//go:build verif

// Export hook for the /verif C05 driver (injected with `go build -overlay`; not part of /repo).
// It drives ONE real measure tsTable without background loops: the driver goroutine plays the introducer
// (calls the real introducePart / introduceFlushed / introduceMerged / introduceSync), the real producer code
// (mustAddDataPoints, flush, mergePartsThenSendIntroduction) runs in a helper goroutine and hands its
// introduction over the real channels, so every op is strictly sequential.
package measure

import (
	"fmt"
	"os"
	"runtime"
	"sort"
	"strconv"
	"strings"
	"sync/atomic"
	"time"

	"github.com/apache/skywalking-banyandb/api/common"
	"github.com/apache/skywalking-banyandb/banyand/internal/storage"
	"github.com/apache/skywalking-banyandb/banyand/protector"
	"github.com/apache/skywalking-banyandb/pkg/convert"
	"github.com/apache/skywalking-banyandb/pkg/fs"
	"github.com/apache/skywalking-banyandb/pkg/logger"
	pbv1 "github.com/apache/skywalking-banyandb/pkg/pb/v1"
	"github.com/apache/skywalking-banyandb/pkg/run"
)

// VC05RowsPerBatch is the number of rows every generated batch carries (2 series x 2 timestamps).
const VC05RowsPerBatch = 4

type vc05Wrap struct {
	pw   *partWrapper
	pid  uint64
	mem  bool
	gone bool
}

// VC05 is one table under test.
type VC05 struct {
	tst      *tsTable
	flushCh  chan *flusherIntroduction
	mergeCh  chan *mergerIntroduction
	held     map[int]*snapshot
	info     map[*partWrapper]*vc05Wrap
	seen     []*vc05Wrap
	root     string
	epoch    uint64
	nBatch   int
	baseGo   int
	closed   bool
	mergeErr error
	cache    storage.Cache
}

// VC05New opens an empty table rooted at root (must exist and be empty).
func VC05New(root string) *VC05 {
	_ = logger.Init(logger.Logging{Env: "prod", Level: "error"})
	tst, _ := initTSTable(fs.NewLocalFileSystem(), root, common.Position{}, logger.GetLogger("verif-c05"),
		option{protector: protector.Nop{}, mergePolicy: newDefaultMergePolicyForTesting()}, nil)
	tst.loopCloser = run.NewCloser(1)
	tst.introductions = make(chan *introduction)
	return &VC05{
		tst: tst, root: root, epoch: 1,
		flushCh: make(chan *flusherIntroduction), mergeCh: make(chan *mergerIntroduction),
		held: map[int]*snapshot{}, info: map[*partWrapper]*vc05Wrap{},
		cache: storage.NewShardCache("verif", 0, 0),
	}
}

// serve runs the producer in a helper goroutine and plays the introducer loop body for whatever it sends.
func (v *VC05) serve(producer func()) {
	done := make(chan any, 1)
	go func() {
		defer func() { done <- recover() }()
		producer()
	}()
	for {
		select {
		case ind := <-v.tst.introductions:
			v.tst.introducePart(ind, v.epoch)
			v.epoch++
		case ind := <-v.flushCh:
			v.tst.introduceFlushed(ind, v.epoch)
			v.tst.gc.clean()
			v.epoch++
		case ind := <-v.mergeCh:
			v.tst.introduceMerged(ind, v.epoch)
			v.tst.gc.clean()
			v.epoch++
		case r := <-done:
			if r != nil {
				panic(fmt.Sprintf("producer: %v", r))
			}
			return
		}
	}
}

// Closed reports whether Close has run.
func (v *VC05) Closed() bool { return v.closed }

// Batch writes batch number ord (= 1, 2, ...): rows (sid 1|2, ts ord*10+{0,1}), field = ts*7+sid.
func (v *VC05) Batch() {
	v.nBatch++
	ord := int64(v.nBatch)
	dps := &dataPoints{}
	for _, sid := range []common.SeriesID{1, 2} {
		for j := int64(0); j < 2; j++ {
			ts := ord*10 + j
			dps.seriesIDs = append(dps.seriesIDs, sid)
			dps.timestamps = append(dps.timestamps, ts)
			dps.versions = append(dps.versions, 1)
			dps.tagFamilies = append(dps.tagFamilies, []nameValues{})
			dps.fields = append(dps.fields, nameValues{name: "f", values: []*nameValue{
				{name: "v", valueType: pbv1.ValueTypeInt64, value: convert.Int64ToBytes(ts*7 + int64(sid))},
			}})
		}
	}
	v.serve(func() { v.tst.mustAddDataPoints(dps) })
}

// Acquire pins the current snapshot as holder k. Returns false when the table has no snapshot.
func (v *VC05) Acquire(k int) bool {
	if _, ok := v.held[k]; ok {
		return false
	}
	s := v.tst.currentSnapshot()
	if s == nil {
		return false
	}
	v.held[k] = s
	return true
}

// Release drops holder k.
func (v *VC05) Release(k int) bool {
	s, ok := v.held[k]
	if !ok {
		return false
	}
	delete(v.held, k)
	s.decRef()
	return true
}

// FlushAll is the flusher loop body: pin, tst.flush (the real one: every mem part), unpin.
func (v *VC05) FlushAll() {
	s := v.tst.currentSnapshot()
	if s == nil {
		return
	}
	defer s.decRef()
	v.serve(func() { v.tst.flush(s, v.flushCh) })
}

// Flush flushes only the mem parts whose id is listed (tst.flush with an id filter; in production this
// situation arises when mem parts are introduced after the flusher pinned its snapshot).
func (v *VC05) Flush(ids []uint64) {
	s := v.tst.currentSnapshot()
	if s == nil {
		return
	}
	defer s.decRef()
	want := map[uint64]bool{}
	for _, id := range ids {
		want[id] = true
	}
	tst := v.tst
	v.serve(func() {
		ind := generateFlusherIntroduction()
		defer releaseFlusherIntroduction(ind)
		for _, pw := range s.parts {
			if pw.mp == nil || pw.mp.partMetadata.TotalCount < 1 || !want[pw.ID()] {
				continue
			}
			pp := partPath(tst.root, pw.ID())
			pw.mp.mustFlush(tst.fileSystem, pp)
			newPW := newPartWrapper(nil, mustOpenFilePart(pw.ID(), tst.root, tst.fileSystem))
			newPW.p.partMetadata.ID = pw.ID()
			ind.flushed[newPW.ID()] = newPW
		}
		if len(ind.flushed) < 1 {
			return
		}
		ind.applied = make(chan struct{})
		v.flushCh <- ind
		<-ind.applied
	})
}

// Merge is the merger loop body for an explicitly chosen set of parts of the current snapshot.
func (v *VC05) Merge(ids []uint64) {
	s := v.tst.currentSnapshot()
	if s == nil {
		return
	}
	defer s.decRef()
	want := map[uint64]bool{}
	for _, id := range ids {
		want[id] = true
	}
	var parts []*partWrapper
	merged := map[uint64]struct{}{}
	for _, pw := range s.parts {
		if want[pw.ID()] {
			parts = append(parts, pw)
			merged[pw.ID()] = struct{}{}
		}
	}
	if len(parts) == 0 {
		return
	}
	var creator snapshotCreator = snapshotCreatorMerger
	typ := "file"
	if parts[0].mp != nil {
		creator = snapshotCreatorMergedFlusher
		typ = "mem"
	}
	closeCh := make(chan struct{})
	v.serve(func() {
		_, v.mergeErr = v.tst.mergePartsThenSendIntroduction(creator, parts, merged, v.mergeCh, closeCh, typ)
	})
	if v.mergeErr != nil {
		panic(fmt.Sprintf("merge: %v", v.mergeErr))
	}
}

// Sync is introduceSync for the given part ids.
func (v *VC05) Sync(ids []uint64) {
	if v.tst.snapshot == nil {
		return
	}
	si := &syncIntroduction{synced: map[uint64]struct{}{}, applied: make(chan struct{})}
	for _, id := range ids {
		si.synced[id] = struct{}{}
	}
	v.tst.introduceSync(si, v.epoch)
	v.tst.gc.clean()
	v.epoch++
}

// Close closes the table (holders may be outstanding).
func (v *VC05) Close() {
	v.closed = true
	_ = v.tst.Close()
}

// Quiesce waits until the asynchronous part removals (`go MustRMAll`) have finished: the goroutine count is back
// at the idle level (or has stopped moving), and every directory whose wrapper has been closed with the removable
// flag set is gone (bounded wait; a directory that stays is reported as existing).
func (v *VC05) Quiesce() {
	deadline := time.Now().Add(3 * time.Second)
	// 1. helper goroutines of this op (producer, `go MustRMAll`) have exited: goroutine count back at idle level.
	//    Bounded: library goroutines that stay around raise the idle level after ~5ms without change.
	stable, last := 0, -1
	for spins := 0; time.Now().Before(deadline); spins++ {
		n := runtime.NumGoroutine()
		if n <= v.baseGo {
			break
		}
		if n == last {
			stable++
			if stable > 50 {
				v.baseGo = n
				break
			}
		} else {
			stable, last = 0, n
		}
		if spins < 20 {
			runtime.Gosched()
		} else {
			time.Sleep(100 * time.Microsecond)
		}
	}
	// 2. every directory whose wrapper has been closed with the removable flag set is gone. The removal runs in its
	//    own goroutine (`go MustRMAll`); on a loaded machine that can take long, so the bound is generous (30s, once per
	//    wrapper: a directory that is still there after that is reported as existing from then on).
	dirDeadline := time.Now().Add(30 * time.Second)
	for _, w := range v.seen {
		if w.mem || w.gone || atomic.LoadInt32(&w.pw.ref) > 0 || !w.pw.removable.Load() {
			continue
		}
		p := partPath(v.root, w.pid)
		for {
			if _, err := os.Stat(p); err != nil {
				break
			}
			if !time.Now().Before(dirDeadline) {
				break
			}
			time.Sleep(200 * time.Microsecond)
		}
		w.gone = true
	}
}

// SetBase records the goroutine count of the idle process.
func (v *VC05) SetBase() { v.baseGo = runtime.NumGoroutine() }

func (v *VC05) note(s *snapshot) {
	if s == nil {
		return
	}
	for _, pw := range s.parts {
		if _, ok := v.info[pw]; ok {
			continue
		}
		w := &vc05Wrap{pw: pw, pid: pw.ID(), mem: pw.mp != nil}
		v.info[pw] = w
		v.seen = append(v.seen, w)
	}
}

func kindOf(mem bool) string {
	if mem {
		return "m"
	}
	return "f"
}

func (v *VC05) listOf(s *snapshot) string {
	var b []string
	for _, pw := range s.parts {
		w := v.info[pw]
		b = append(b, fmt.Sprintf("%d%s", w.pid, kindOf(w.mem)))
	}
	return "[" + strings.Join(b, ",") + "]"
}

// scan reads every row of the given parts through the real query path (tstIter + blockCursor.loadData) and
// returns "ord x rows" per batch ordinal, "BAD…" when a row does not carry the value written for it.
func vc05Scan(parts []*part) string {
	if len(parts) == 0 {
		return "-"
	}
	qo := queryOptions{minTimestamp: 0, maxTimestamp: 1 << 40}
	qo.FieldProjection = []string{"v"}
	ti := &tstIter{}
	ti.init(parts, []common.SeriesID{1, 2}, qo.minTimestamp, qo.maxTimestamp)
	cnt := map[int64]int{}
	bad := ""
	for ti.nextBlock() {
		bc := generateBlockCursor()
		p := ti.piHeap[0]
		bc.init(p.p, p.curBlock, qo)
		tmp := generateBlock()
		if !bc.loadData(tmp) {
			bad = "BADload"
		}
		for i, ts := range bc.timestamps {
			cnt[ts/10]++
			ok := false
			for _, c := range bc.fields.columns {
				if c.name == "v" && i < len(c.values) && convert.BytesToInt64(c.values[i]) == ts*7+int64(bc.bm.seriesID) {
					ok = true
				}
			}
			if !ok {
				bad = "BADvalue"
			}
		}
		releaseBlock(tmp)
		releaseBlockCursor(bc)
	}
	if err := ti.Error(); err != nil {
		return "ERR"
	}
	var ords []int64
	for o := range cnt {
		ords = append(ords, o)
	}
	sort.Slice(ords, func(i, j int) bool { return ords[i] < ords[j] })
	var b []string
	for _, o := range ords {
		b = append(b, fmt.Sprintf("%dx%d", o, cnt[o]))
	}
	if bad != "" {
		b = append(b, bad)
	}
	if len(b) == 0 {
		return "-"
	}
	return strings.Join(b, "+")
}

func (v *VC05) queryOf(s *snapshot) string {
	pp, _ := s.getParts(nil, v.cache, 0, 1<<40) // also installs the block cache on every part, as Query does
	var per []string
	for _, pw := range s.parts {
		w := v.info[pw]
		per = append(per, fmt.Sprintf("%d%s=%s", w.pid, kindOf(w.mem), vc05Scan([]*part{pw.p})))
	}
	return strings.Join(per, ",") + "/" + vc05Scan(pp)
}

// Dump renders the observable state:
// C=<epoch>:<ref>:[parts] | W=<pid><k>:<ref>:<removable>,… | H=k:<epoch>:<ref>:[parts];… | D=<dirs> | Q=k:<per part>/<all>;…
func (v *VC05) Dump() string {
	t0 := time.Now()
	v.Quiesce()
	if os.Getenv("VERIF_TRACE") != "" {
		fmt.Fprintf(os.Stderr, "quiesce %v goroutines=%d base=%d\n", time.Since(t0), runtime.NumGoroutine(), v.baseGo)
		defer func() { fmt.Fprintf(os.Stderr, "dump total %v\n", time.Since(t0)) }()
		if os.Getenv("VERIF_TRACE") == "2" {
			buf := make([]byte, 1<<16)
			fmt.Fprintf(os.Stderr, "%s\n", buf[:runtime.Stack(buf, true)])
		}
	}
	cur := v.tst.snapshot
	v.note(cur)
	keys := make([]int, 0, len(v.held))
	for k := range v.held {
		keys = append(keys, k)
	}
	sort.Ints(keys)
	for _, k := range keys {
		v.note(v.held[k])
	}
	var sb strings.Builder
	if cur == nil {
		sb.WriteString("C=-")
	} else {
		fmt.Fprintf(&sb, "C=%d:%d:%s", cur.epoch, atomic.LoadInt32(&cur.ref), v.listOf(cur))
	}
	ws := append([]*vc05Wrap(nil), v.seen...)
	sort.Slice(ws, func(i, j int) bool {
		if ws[i].pid != ws[j].pid {
			return ws[i].pid < ws[j].pid
		}
		return ws[i].mem && !ws[j].mem
	})
	var wl []string
	for _, w := range ws {
		rm := "0"
		if w.pw.removable.Load() {
			rm = "1"
		}
		wl = append(wl, fmt.Sprintf("%d%s:%d:%s", w.pid, kindOf(w.mem), atomic.LoadInt32(&w.pw.ref), rm))
	}
	sb.WriteString(" W=" + strings.Join(wl, ","))
	var hl, ql []string
	for _, k := range keys {
		s := v.held[k]
		hl = append(hl, fmt.Sprintf("%d:%d:%d:%s", k, s.epoch, atomic.LoadInt32(&s.ref), v.listOf(s)))
		ql = append(ql, fmt.Sprintf("%d:%s", k, v.queryOf(s)))
	}
	sb.WriteString(" H=" + strings.Join(hl, ";"))
	var dirs []uint64
	ee, _ := os.ReadDir(v.root)
	for _, e := range ee {
		if !e.IsDir() {
			continue
		}
		if id, err := strconv.ParseUint(e.Name(), 16, 64); err == nil {
			dirs = append(dirs, id)
		}
	}
	sort.Slice(dirs, func(i, j int) bool { return dirs[i] < dirs[j] })
	var dl []string
	for _, d := range dirs {
		dl = append(dl, strconv.FormatUint(d, 10))
	}
	sb.WriteString(" D=" + strings.Join(dl, ","))
	sb.WriteString(" Q=" + strings.Join(ql, ";"))
	if cur != nil {
		sb.WriteString(" T=" + v.queryOf(cur))
	} else {
		sb.WriteString(" T=-")
	}
	return sb.String()
}

// Shutdown releases everything still held so that the scratch directory can be removed.
func (v *VC05) Shutdown() {
	for k := range v.held {
		v.Release(k)
	}
	if !v.closed {
		v.Close()
	}
	v.Quiesce()
	v.cache.Close()
}
