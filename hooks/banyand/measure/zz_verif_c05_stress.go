//go:build verif

// Supporting exploration for C05 (NOT the proof): the real background loops (introducer, flusher, merger) of one
// measure tsTable run while writer goroutines add batches and reader goroutines pin snapshots and scan them.
package measure

import (
	"fmt"
	"os"
	"sync"
	"sync/atomic"
	"time"

	"github.com/apache/skywalking-banyandb/api/common"
	"github.com/apache/skywalking-banyandb/banyand/internal/storage"
	"github.com/apache/skywalking-banyandb/banyand/protector"
	"github.com/apache/skywalking-banyandb/pkg/convert"
	"github.com/apache/skywalking-banyandb/pkg/fs"
	"github.com/apache/skywalking-banyandb/pkg/logger"
	pbv1 "github.com/apache/skywalking-banyandb/pkg/pb/v1"
	"github.com/apache/skywalking-banyandb/pkg/timestamp"
)

func vc05Batch(ord int64) *dataPoints {
	dps := &dataPoints{}
	for _, sid := range []common.SeriesID{1, 2} {
		for j := int64(0); j < 2; j++ {
			ts := ord*10 + j
			dps.seriesIDs = append(dps.seriesIDs, sid)
			dps.timestamps = append(dps.timestamps, ts)
			dps.versions = append(dps.versions, 1)
			dps.tagFamilies = append(dps.tagFamilies, []nameValues{})
			dps.fields = append(dps.fields, nameValues{name: "f", values: []*nameValue{
				{name: "v", valueType: pbv1.ValueTypeInt64, value: convert.Int64ToBytes(ts*7 + int64(sid))},
			}})
		}
	}
	return dps
}

// vc05ScanCounts is vc05Scan returning the per-ordinal row counts.
func vc05ScanCounts(parts []*part) (map[int64]int, string) {
	cnt := map[int64]int{}
	if len(parts) == 0 {
		return cnt, ""
	}
	qo := queryOptions{minTimestamp: 0, maxTimestamp: 1 << 40}
	qo.FieldProjection = []string{"v"}
	ti := &tstIter{}
	ti.init(parts, []common.SeriesID{1, 2}, qo.minTimestamp, qo.maxTimestamp)
	bad := ""
	for ti.nextBlock() {
		bc := generateBlockCursor()
		p := ti.piHeap[0]
		bc.init(p.p, p.curBlock, qo)
		tmp := generateBlock()
		if !bc.loadData(tmp) {
			bad = "load failed"
		}
		for i, ts := range bc.timestamps {
			cnt[ts/10]++
			ok := false
			for _, c := range bc.fields.columns {
				if c.name == "v" && i < len(c.values) && convert.BytesToInt64(c.values[i]) == ts*7+int64(bc.bm.seriesID) {
					ok = true
				}
			}
			if !ok {
				bad = fmt.Sprintf("wrong value at ts %d", ts)
			}
		}
		releaseBlock(tmp)
		releaseBlockCursor(bc)
	}
	if err := ti.Error(); err != nil {
		bad = "iterator error: " + err.Error()
	}
	return cnt, bad
}

// VC05Stress runs writers x batches concurrent writes against readers concurrent pin-scan-release loops with the
// real loops running. Returns "ok …" or "VIOL …".
func VC05Stress(root string, writers, readers, batches int) (res string) {
	_ = logger.Init(logger.Logging{Env: "prod", Level: "error"})
	tst, err := newTSTable(fs.NewLocalFileSystem(), root, common.Position{}, logger.GetLogger("verif-c05-stress"),
		timestamp.TimeRange{}, option{protector: protector.Nop{}, mergePolicy: newDefaultMergePolicyForTesting()}, nil)
	if err != nil {
		return "VIOL newTSTable: " + err.Error()
	}
	cache := storage.NewShardCache("verif-stress", 0, 0)
	defer cache.Close()
	total := writers * batches
	completed := make([]atomic.Bool, total+1)
	var next atomic.Int64
	var viol atomic.Value
	var reads, maxParts, fileViews atomic.Int64
	fail := func(f string, a ...any) { viol.CompareAndSwap(nil, fmt.Sprintf(f, a...)) }
	var wg, rg sync.WaitGroup
	stop := make(chan struct{})
	guard := func(who string) {
		if r := recover(); r != nil {
			fail("%s panicked: %v", who, r)
		}
	}
	for w := 0; w < writers; w++ {
		wg.Add(1)
		go func() {
			defer wg.Done()
			defer guard("writer")
			for b := 0; b < batches; b++ {
				ord := next.Add(1)
				tst.mustAddDataPoints(vc05Batch(ord))
				completed[ord].Store(true)
			}
		}()
	}
	check := func(final bool) {
		var before []int64
		for o := 1; o <= total; o++ {
			if completed[o].Load() {
				before = append(before, int64(o))
			}
		}
		s := tst.currentSnapshot()
		if s == nil {
			if len(before) > 0 {
				fail("no snapshot although %d batches were acknowledged", len(before))
			}
			return
		}
		defer s.decRef()
		pp, _ := s.getParts(nil, cache, 0, 1<<40)
		for _, pw := range s.parts {
			if pw.mp == nil {
				fileViews.Add(1)
				if _, err := os.Stat(pw.p.path); err != nil {
					fail("pinned snapshot %d lists file part %d whose directory is gone", s.epoch, pw.ID())
				}
			}
		}
		cnt, bad := vc05ScanCounts(pp)
		if bad != "" {
			fail("scan of pinned snapshot %d: %s", s.epoch, bad)
		}
		for o, c := range cnt {
			if c != VC05RowsPerBatch {
				fail("snapshot %d shows %d rows of batch %d (a batch is all-or-nothing, a merged part XOR its inputs)", s.epoch, c, o)
			}
		}
		for _, o := range before {
			if cnt[o] == 0 {
				fail("snapshot %d pinned after batch %d was acknowledged does not show it", s.epoch, o)
			}
		}
		if final && len(cnt) != total {
			fail("final view shows %d of %d batches", len(cnt), total)
		}
		reads.Add(1)
		if int64(len(s.parts)) > maxParts.Load() {
			maxParts.Store(int64(len(s.parts)))
		}
	}
	for r := 0; r < readers; r++ {
		rg.Add(1)
		go func() {
			defer rg.Done()
			defer guard("reader")
			for {
				select {
				case <-stop:
					return
				default:
				}
				check(false)
			}
		}()
	}
	wg.Wait()
	time.Sleep(30 * time.Millisecond) // let the flusher / merger catch up while readers keep going
	close(stop)
	rg.Wait()
	func() {
		defer guard("final check")
		check(true)
	}()
	func() {
		defer guard("close")
		_ = tst.Close()
	}()
	if v := viol.Load(); v != nil {
		return "VIOL " + v.(string)
	}
	return fmt.Sprintf("ok batches=%d reads=%d fileviews=%d maxparts=%d", total, reads.Load(), fileViews.Load(), maxParts.Load())
}
