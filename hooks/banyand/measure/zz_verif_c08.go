//go:build verif

// Exports for the /verif C08 driver (injected with `go build -overlay`; not part of /repo).
package measure

import (
	"github.com/apache/skywalking-banyandb/api/common"
	"github.com/apache/skywalking-banyandb/banyand/internal/storage"
	"github.com/apache/skywalking-banyandb/pkg/convert"
	pbv1 "github.com/apache/skywalking-banyandb/pkg/pb/v1"
)

// VerifPoint is one data point (series, timestamp, version).
type VerifPoint struct {
	SeriesID uint64
	Ts       int64
	Version  int64
}

// VerifBlock is one block returned by the real partIter.
type VerifBlock struct {
	SeriesID uint64
	MinTs    int64
	MaxTs    int64
	Count    uint64
}

// VerifScanPart writes the points through the real memPart writer (block writer, primary block metadata, part
// metadata) and iterates with the real partIter for the given series and time range. It also returns the part's and
// every primary block's recorded time bounds.
func VerifScanPart(points []VerifPoint, sids []uint64, minTs, maxTs int64) (blocks []VerifBlock, partMin, partMax int64, primary [][2]int64, err error) {
	d := generateDataPoints()
	defer releaseDataPoints(d)
	for i, p := range points {
		d.seriesIDs = append(d.seriesIDs, common.SeriesID(p.SeriesID))
		d.timestamps = append(d.timestamps, p.Ts)
		d.versions = append(d.versions, p.Version)
		d.tagFamilies = append(d.tagFamilies, []nameValues{})
		d.fields = append(d.fields, nameValues{name: "f", values: []*nameValue{
			{name: "v", valueType: pbv1.ValueTypeInt64, value: convert.Int64ToBytes(int64(i))},
		}})
	}
	mp := generateMemPart()
	defer releaseMemPart(mp)
	mp.mustInitFromDataPoints(d)
	p := openMemPart(mp)
	p.cache = storage.NewShardCache("verif-c08", 0, 0)
	defer p.close()
	partMin, partMax = p.partMetadata.MinTimestamp, p.partMetadata.MaxTimestamp
	for i := range p.primaryBlockMetadata {
		primary = append(primary, [2]int64{p.primaryBlockMetadata[i].minTimestamp, p.primaryBlockMetadata[i].maxTimestamp})
	}
	ss := make([]common.SeriesID, len(sids))
	for i := range sids {
		ss[i] = common.SeriesID(sids[i])
	}
	var pi partIter
	pi.init(p, ss, minTs, maxTs)
	for pi.nextBlock() {
		bm := pi.curBlock
		blocks = append(blocks, VerifBlock{SeriesID: uint64(bm.seriesID), MinTs: bm.timestamps.min, MaxTs: bm.timestamps.max, Count: bm.count})
	}
	return blocks, partMin, partMax, primary, pi.error()
}
