//go:build verif

package measure

import (
	"context"
	"fmt"
	"sort"
	"strings"

	"github.com/apache/skywalking-banyandb/api/common"
	"github.com/apache/skywalking-banyandb/banyand/internal/storage"
	"github.com/apache/skywalking-banyandb/pkg/convert"
	pbv1 "github.com/apache/skywalking-banyandb/pkg/pb/v1"
	"github.com/apache/skywalking-banyandb/pkg/query/model"
)

// VerifC09DP is one generated data point.
type VerifC09DP struct {
	Sid, Val    uint64
	Ts, Version int64
}

// VerifC09Query builds one mem part per input slice (real writer path: mustInitFromDataPoints), collects the block
// cursors exactly as measure.searchBlocks does (tstIter over the parts; same queryOptions), and drains the real
// queryResult (Pull until nil) with the requested ordering. Output: one "sid=ts:ver:val,..." group per Pull.
func VerifC09Query(parts [][]VerifC09DP, sids []uint64, minTS, maxTS int64, orderByTS, asc bool) string {
	var ps []*part
	for _, rows := range parts {
		dps := &dataPoints{}
		for _, r := range rows {
			dps.seriesIDs = append(dps.seriesIDs, common.SeriesID(r.Sid))
			dps.timestamps = append(dps.timestamps, r.Ts)
			dps.versions = append(dps.versions, r.Version)
			dps.tagFamilies = append(dps.tagFamilies, nil)
			dps.fields = append(dps.fields, nameValues{name: "skipped", values: []*nameValue{
				{name: "v", valueType: pbv1.ValueTypeInt64, value: convert.Int64ToBytes(int64(r.Val))},
			}})
		}
		mp := generateMemPart()
		mp.mustInitFromDataPoints(dps)
		pt := openMemPart(mp)
		pt.partMetadata.ID = uint64(len(ps) + 1)
		pt.cache = storage.NewBypassCache()
		ps = append(ps, pt)
	}
	qo := queryOptions{minTimestamp: minTS, maxTimestamp: maxTS}
	qo.FieldProjection = []string{"v"}
	result := &queryResult{ctx: context.Background(), orderByTS: orderByTS, ascTS: asc}
	ss := make([]common.SeriesID, len(sids))
	for i := range sids {
		ss[i] = common.SeriesID(sids[i])
	}
	original := make([]common.SeriesID, len(ss))
	copy(original, ss)
	sort.Slice(ss, func(i, j int) bool { return ss[i] < ss[j] })
	ti := generateTstIter()
	defer releaseTstIter(ti)
	ti.init(ps, ss, minTS, maxTS)
	if ti.Error() != nil {
		return "ERR-iter"
	}
	for ti.nextBlock() {
		bc := generateBlockCursor()
		p := ti.piHeap[0]
		bc.init(p.p, p.curBlock, qo)
		result.data = append(result.data, bc)
	}
	if ti.Error() != nil {
		return "ERR-iter"
	}
	result.sidToIndex = make(map[common.SeriesID]int)
	for i, si := range original {
		result.sidToIndex[si] = i
	}
	var groups []string
	for {
		var r *model.MeasureResult = result.Pull()
		if r == nil {
			break
		}
		if r.Error != nil {
			return "ERR-pull"
		}
		var es []string
		for i := range r.Timestamps {
			val := "?"
			if len(r.Fields) == 1 && i < len(r.Fields[0].Values) {
				val = fmt.Sprint(r.Fields[0].Values[i].GetInt().GetValue())
			}
			es = append(es, fmt.Sprintf("%d:%d:%s", r.Timestamps[i], r.Versions[i], val))
		}
		groups = append(groups, fmt.Sprintf("%d=%s", r.SID, strings.Join(es, ",")))
	}
	if len(groups) == 0 {
		return "-"
	}
	return strings.Join(groups, "/")
}
