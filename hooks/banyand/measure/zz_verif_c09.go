//go:build verif

package measure

import (
	"context"
	"fmt"
	"math"
	"sort"
	"strings"
	"time"

	"github.com/apache/skywalking-banyandb/api/common"
	commonv1 "github.com/apache/skywalking-banyandb/api/proto/banyandb/common/v1"
	databasev1 "github.com/apache/skywalking-banyandb/api/proto/banyandb/database/v1"
	modelv1 "github.com/apache/skywalking-banyandb/api/proto/banyandb/model/v1"
	"github.com/apache/skywalking-banyandb/banyand/protector"
	"github.com/apache/skywalking-banyandb/pkg/index"
	"github.com/apache/skywalking-banyandb/pkg/run"
	"github.com/apache/skywalking-banyandb/pkg/timestamp"
	"github.com/apache/skywalking-banyandb/banyand/internal/storage"
	"github.com/apache/skywalking-banyandb/pkg/convert"
	pbv1 "github.com/apache/skywalking-banyandb/pkg/pb/v1"
	"github.com/apache/skywalking-banyandb/pkg/query/model"
)

// VerifC09DP is one generated data point.
type VerifC09DP struct {
	Sid, Val    uint64
	Ts, Version int64
}

// VerifC09Query builds one mem part per input slice (real writer path: mustInitFromDataPoints), collects the block
// cursors exactly as measure.searchBlocks does (tstIter over the parts; same queryOptions), and drains the real
// queryResult (Pull until nil) with the requested ordering. Output: one "sid=ts:ver:val,..." group per Pull.
func VerifC09Query(parts [][]VerifC09DP, sids []uint64, minTS, maxTS int64, orderByTS, asc bool) string {
	var ps []*part
	for _, rows := range parts {
		dps := &dataPoints{}
		for _, r := range rows {
			dps.seriesIDs = append(dps.seriesIDs, common.SeriesID(r.Sid))
			dps.timestamps = append(dps.timestamps, r.Ts)
			dps.versions = append(dps.versions, r.Version)
			dps.tagFamilies = append(dps.tagFamilies, nil)
			dps.fields = append(dps.fields, nameValues{name: "skipped", values: []*nameValue{
				{name: "v", valueType: pbv1.ValueTypeInt64, value: convert.Int64ToBytes(int64(r.Val))},
			}})
		}
		mp := generateMemPart()
		mp.mustInitFromDataPoints(dps)
		pt := openMemPart(mp)
		pt.partMetadata.ID = uint64(len(ps) + 1)
		pt.cache = storage.NewBypassCache()
		ps = append(ps, pt)
	}
	qo := queryOptions{minTimestamp: minTS, maxTimestamp: maxTS}
	qo.FieldProjection = []string{"v"}
	result := &queryResult{ctx: context.Background(), orderByTS: orderByTS, ascTS: asc}
	ss := make([]common.SeriesID, len(sids))
	for i := range sids {
		ss[i] = common.SeriesID(sids[i])
	}
	original := make([]common.SeriesID, len(ss))
	copy(original, ss)
	sort.Slice(ss, func(i, j int) bool { return ss[i] < ss[j] })
	ti := generateTstIter()
	defer releaseTstIter(ti)
	ti.init(ps, ss, minTS, maxTS)
	if ti.Error() != nil {
		return "ERR-iter"
	}
	for ti.nextBlock() {
		bc := generateBlockCursor()
		p := ti.piHeap[0]
		bc.init(p.p, p.curBlock, qo)
		result.data = append(result.data, bc)
	}
	if ti.Error() != nil {
		return "ERR-iter"
	}
	result.sidToIndex = make(map[common.SeriesID]int)
	for i, si := range original {
		result.sidToIndex[si] = i
	}
	var groups []string
	for {
		var r *model.MeasureResult = result.Pull()
		if r == nil {
			break
		}
		if r.Error != nil {
			return "ERR-pull"
		}
		var es []string
		for i := range r.Timestamps {
			val := "?"
			if len(r.Fields) == 1 && i < len(r.Fields[0].Values) {
				val = fmt.Sprint(r.Fields[0].Values[i].GetInt().GetValue())
			}
			es = append(es, fmt.Sprintf("%d:%d:%s", r.Timestamps[i], r.Versions[i], val))
		}
		groups = append(groups, fmt.Sprintf("%d=%s", r.SID, strings.Join(es, ",")))
	}
	if len(groups) == 0 {
		return "-"
	}
	return strings.Join(groups, "/")
}

// VerifC09Doc is one index-mode series document: entity name, value of the indexed sort tag.
type VerifC09Doc struct {
	Name string
	Sort int64
}

const verifC09SortRuleID = 7

// VerifC09IndexQuery opens a real TSDB under dir with one daily segment per input slice, inserts the series documents
// into the segments' index and runs the real index-mode ordered query path measure.buildIndexQueryResult
// (SearchWithoutSeries per segment, segResult.remove for series already seen, segResultHeap, indexSortResult.Pull).
// withField additionally projects a non-entity tag stored in the index documents (IndexSearchOpts.Projection non-empty).
// Output: "name:sort[:extra]" per Pull.
func VerifC09IndexQuery(dir string, segs [][]VerifC09Doc, desc, withField bool) (string, error) {
	opts := storage.TSDBOpts[*tsTable, option]{
		ShardNum:        1,
		Location:        dir,
		TSTableCreator:  newTSTable,
		SegmentInterval: storage.IntervalRule{Unit: storage.DAY, Num: 1},
		TTL:             storage.IntervalRule{Unit: storage.DAY, Num: 60},
		Option: option{
			mergePolicy:  newMergePolicy(math.MaxInt32, math.MaxFloat64, run.Bytes(math.MaxInt64)),
			flushTimeout: time.Hour,
			protector:    protector.Nop{},
		},
	}
	cache := storage.NewServiceCache()
	db, err := storage.OpenTSDB(
		common.SetPosition(context.Background(), func(p common.Position) common.Position {
			p.Module = "measure"
			p.Database = "verifc09"
			return p
		}), opts, cache, "verifc09")
	if err != nil {
		return "", err
	}
	defer db.Close()
	extraKey := index.FieldKey{TagName: "extra"}
	now := time.Now()
	for k, docsIn := range segs {
		ts := now.Add(-time.Duration(len(segs)-1-k) * 24 * time.Hour)
		seg, segErr := db.CreateSegmentIfNotExist(ts)
		if segErr != nil {
			return "", segErr
		}
		var docs index.Documents
		for _, d := range docsIn {
			sr := &pbv1.Series{Subject: "vm", EntityValues: []*modelv1.TagValue{
				{Value: &modelv1.TagValue_Str{Str: &modelv1.Str{Value: d.Name}}},
			}}
			if mErr := sr.Marshal(); mErr != nil {
				seg.DecRef()
				return "", mErr
			}
			f := index.NewBytesField(index.FieldKey{IndexRuleID: verifC09SortRuleID}, convert.Int64ToBytes(d.Sort))
			f.Index = true
			f.Store = true
			e := index.NewBytesField(extraKey, convert.Int64ToBytes(d.Sort*3+1))
			e.Store = true
			docs = append(docs, index.Document{
				DocID: uint64(sr.ID), EntityValues: sr.Buffer, Timestamp: ts.UnixNano(), Version: 1,
				Fields: []index.Field{f, e},
			})
		}
		insErr := seg.IndexDB().Insert(docs)
		seg.DecRef()
		if insErr != nil {
			return "", insErr
		}
	}
	m := &measure{
		schema: &databasev1.Measure{
			Metadata:  &commonv1.Metadata{Name: "vm", Group: "verifc09"},
			Entity:    &databasev1.Entity{TagNames: []string{"entity-tag"}},
			IndexMode: true,
			TagFamilies: []*databasev1.TagFamilySpec{{
				Name: "default",
				Tags: []*databasev1.TagSpec{
					{Name: "entity-tag", Type: databasev1.TagType_TAG_TYPE_STRING},
					{Name: "extra", Type: databasev1.TagType_TAG_TYPE_INT},
				},
			}},
		},
		c:  cache,
		pm: protector.Nop{},
	}
	if err = m.parseSpec(); err != nil {
		return "", err
	}
	m.tsdb.Store(db)
	srt := modelv1.Sort_SORT_ASC
	if desc {
		srt = modelv1.Sort_SORT_DESC
	}
	tr := timestamp.NewInclusiveTimeRange(now.Add(-time.Duration(len(segs))*24*time.Hour), now.Add(time.Hour))
	names := []string{"entity-tag"}
	if withField {
		names = append(names, "extra")
	}
	mqo := model.MeasureQueryOptions{
		Name:      "vm",
		TimeRange: &tr,
		Order: &index.OrderBy{
			Type: index.OrderByTypeIndex, Sort: srt,
			Index: &databasev1.IndexRule{Metadata: &commonv1.Metadata{Id: verifC09SortRuleID, Name: "vsort"}},
		},
		TagProjection: []model.TagProjection{{Family: "default", Names: names}},
	}
	segments, err := db.SelectSegments(tr, true)
	if err != nil {
		return "", err
	}
	res, err := m.buildIndexQueryResult(context.Background(), mqo, segments)
	if err != nil {
		return "", err
	}
	defer res.Release()
	want := map[string]int64{}
	for _, docsIn := range segs {
		for _, d := range docsIn {
			want[d.Name] = d.Sort
		}
	}
	var out []string
	for {
		r := res.Pull()
		if r == nil {
			break
		}
		if r.Error != nil {
			return "", r.Error
		}
		n := r.TagFamilies[0].Tags[0].Values[0].GetStr().GetValue()
		e := fmt.Sprintf("%s:%d", n, want[n])
		if withField {
			if len(r.TagFamilies[0].Tags) < 2 {
				e += ":?"
			} else {
				e += fmt.Sprintf(":%d", r.TagFamilies[0].Tags[1].Values[0].GetInt().GetValue())
			}
		}
		out = append(out, e)
	}
	if len(out) == 0 {
		return "-", nil
	}
	return strings.Join(out, ","), nil
}
