//go:build verif

// Export for the /verif C11 driver (injected with -overlay; not part of /repo).
package measure

import (
	"github.com/apache/skywalking-banyandb/pkg/bytes"
	"github.com/apache/skywalking-banyandb/pkg/encoding"
	pbv1 "github.com/apache/skywalking-banyandb/pkg/pb/v1"

	databasev1 "github.com/apache/skywalking-banyandb/api/proto/banyandb/database/v1"
	modelv1 "github.com/apache/skywalking-banyandb/api/proto/banyandb/model/v1"
)

// VerifC11TagRoundTrip runs this engine's own write-path encoding of one tag value
// (encodeTagValue + marshal) and its query-path decoding (mustDecodeTagValue) on the stored bytes.
// A nil result of marshal (null value) is handed to the decoder as nil.
func VerifC11TagRoundTrip(tagType databasev1.TagType, tv *modelv1.TagValue) ([]byte, *modelv1.TagValue) {
	e := encodeTagValue("t", tagType, tv)
	vt := e.valueType
	raw := e.marshal()
	if raw != nil {
		raw = append([]byte{}, raw...)
	}
	releaseNameValue(e)
	// decode a private copy: pkg/encoding.UnmarshalVarArray unescapes in place
	var in []byte
	if raw != nil {
		in = append([]byte{}, raw...)
	}
	return raw, mustDecodeTagValue(vt, in)
}

// VerifC11ColumnRoundTrip runs the measure column (field / tag family column) value codec:
// encodeInt64Column / encodeFloat64Column / encodeDefault as selected by mustWriteTo, then
// decodeColumnValues as used by mustReadValues, on a fresh column and a zero-value decoder.
func VerifC11ColumnRoundTrip(vt pbv1.ValueType, values [][]byte) ([]byte, [][]byte) {
	c := &column{name: "f", valueType: vt, values: values}
	bb := &bytes.Buffer{}
	switch vt {
	case pbv1.ValueTypeInt64:
		c.encodeInt64Column(bb)
	case pbv1.ValueTypeFloat64:
		c.encodeFloat64Column(bb)
	default:
		c.encodeDefault(bb)
	}
	enc := append([]byte{}, bb.Buf...)
	d := &column{name: "f", valueType: vt}
	d.decodeColumnValues(&encoding.BytesBlockDecoder{}, "verif", uint64(len(values)), &bytes.Buffer{Buf: append([]byte{}, enc...)})
	return enc, d.values
}
