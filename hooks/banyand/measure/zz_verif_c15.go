//go:build verif

// Exports for the /verif C15 driver (injected with `go build -overlay`; not part of /repo).
//
// VerifC15Engine is one real measure resource on a real TSDB in a scratch directory: the write half
// mirrors writeCallback.handle/Rev (write_standalone.go) without the schema repository, the read half is
// the unmodified (*measure).Query with its Pull / PullBatch result types. The vectorized flag of the
// resource can be flipped between two queries so that both pipelines see the very same parts.
package measure

import (
	"context"
	"fmt"
	"time"

	"github.com/apache/skywalking-banyandb/api/common"
	commonv1 "github.com/apache/skywalking-banyandb/api/proto/banyandb/common/v1"
	databasev1 "github.com/apache/skywalking-banyandb/api/proto/banyandb/database/v1"
	measurev1 "github.com/apache/skywalking-banyandb/api/proto/banyandb/measure/v1"
	"github.com/apache/skywalking-banyandb/banyand/internal/storage"
	"github.com/apache/skywalking-banyandb/banyand/protector"
	"github.com/apache/skywalking-banyandb/pkg/logger"
	"github.com/apache/skywalking-banyandb/pkg/partition"
	vmeasure "github.com/apache/skywalking-banyandb/pkg/query/vectorized/measure"
	"github.com/apache/skywalking-banyandb/pkg/timestamp"
)

// VerifC15Engine is a real measure + TSDB pair.
type VerifC15Engine struct {
	m        *measure
	tsdb     storage.TSDB[*tsTable, option]
	locator  partition.Locator
	shardNum uint32
}

// VerifC15Open opens a TSDB under dir and a measure resource on it.
func VerifC15Open(dir string, schema *databasev1.Measure, rules []*databasev1.IndexRule, shardNum uint32,
	flushTimeout time.Duration, cfg vmeasure.VectorizedConfig,
) (*VerifC15Engine, error) {
	l := logger.GetLogger("verif-c15")
	group := schema.GetMetadata().GetGroup()
	opt := option{
		protector:          protector.Nop{},
		mergePolicy:        newDefaultMergePolicy(),
		flushTimeout:       flushTimeout,
		seriesCacheMaxSize: 1 << 20,
		vectorized:         cfg,
	}
	p := common.Position{Module: "measure", Database: group}
	opts := storage.TSDBOpts[*tsTable, option]{
		ShardNum:                       shardNum,
		Location:                       dir,
		TSTableCreator:                 newTSTable,
		SegmentInterval:                storage.IntervalRule{Unit: storage.DAY, Num: 1},
		TTL:                            storage.IntervalRule{Unit: storage.DAY, Num: 3650},
		Option:                         opt,
		SeriesIndexFlushTimeoutSeconds: 3600,
		SeriesIndexCacheMaxBytes:       1 << 20,
		DisableRetention:               true,
		DisableRotation:                true,
	}
	db, err := storage.OpenTSDB(
		common.SetPosition(context.Background(), func(_ common.Position) common.Position { return p }),
		opts, nil, group)
	if err != nil {
		return nil, err
	}
	m, err := openMeasure(measureSpec{schema: schema}, l, nil, protector.Nop{}, nil, nil, cfg)
	if err != nil {
		_ = db.Close()
		return nil, err
	}
	m.OnIndexUpdate(rules)
	m.tsdb.Store(db)
	return &VerifC15Engine{
		m: m, tsdb: db, shardNum: shardNum,
		locator: partition.NewEntityLocator(schema.GetTagFamilies(), schema.GetEntity(), 0),
	}, nil
}

// Measure returns the resource as the query layer sees it (executor.MeasureExecutionContext plus
// VectorizedConfig/GetSchema/GetIndexRules).
func (e *VerifC15Engine) Measure() Measure { return e.m }

// SetVectorized flips the per-resource vectorized configuration (what --measure-vectorized-enabled selects).
func (e *VerifC15Engine) SetVectorized(cfg vmeasure.VectorizedConfig) { e.m.vectorized = cfg }

// Locate computes the entity values and shard id of a write request the way the liaison does.
func (e *VerifC15Engine) Locate(req *measurev1.WriteRequest) (*measurev1.InternalWriteRequest, error) {
	ev, shardID, err := partition.ApplyLocators(e.m.name, req.GetDataPoint().GetTagFamilies(), e.locator, nil, e.shardNum)
	if err != nil {
		return nil, err
	}
	return &measurev1.InternalWriteRequest{Request: req, ShardId: uint32(shardID), EntityValues: ev[1:].Encode()}, nil
}

// WriteBatch is writeCallback.Rev for one batch of events of this measure: one memPart per touched
// (segment, shard) table plus the series-index documents.
func (e *VerifC15Engine) WriteBatch(events []*measurev1.InternalWriteRequest) error {
	metadata := &commonv1.Metadata{Name: e.m.name, Group: e.m.group}
	is := e.m.indexSchema.Load().(indexSchema)
	var tables []*dataPointsInTable
	var segments []storage.Segment[*tsTable, option]
	defer func() {
		for _, s := range segments {
			s.DecRef()
		}
	}()
	for _, ev := range events {
		req := ev.Request
		t := req.DataPoint.Timestamp.AsTime().Local()
		if err := timestamp.Check(t); err != nil {
			return fmt.Errorf("invalid timestamp: %w", err)
		}
		ts := t.UnixNano()
		shardID := common.ShardID(ev.ShardId)
		var dpt *dataPointsInTable
		for i := range tables {
			if tables[i].timeRange.Contains(ts) && tables[i].shardID == shardID {
				dpt = tables[i]
				break
			}
		}
		if dpt == nil {
			var segment storage.Segment[*tsTable, option]
			for _, seg := range segments {
				if seg.GetTimeRange().Contains(ts) {
					segment = seg
				}
			}
			if segment == nil {
				var err error
				segment, err = e.tsdb.CreateSegmentIfNotExist(t)
				if err != nil {
					return fmt.Errorf("cannot create segment: %w", err)
				}
				segments = append(segments, segment)
			}
			tstb, err := segment.CreateTSTableIfNotExist(shardID)
			if err != nil {
				return fmt.Errorf("cannot create ts table: %w", err)
			}
			dpt = newDpt(segment, segment.GetTimeRange(), e.m.schema.IndexMode, tstb, shardID)
			tables = append(tables, dpt)
		}
		if _, err := processDataPoint(dpt, req, ev, e.m, is, ts, metadata, nil); err != nil {
			return err
		}
	}
	for _, dps := range tables {
		if dps.tsTable != nil && dps.dataPoints != nil {
			dps.tsTable.mustAddDataPoints(dps.dataPoints)
		}
		if dps.dataPoints != nil {
			releaseDataPoints(dps.dataPoints)
		}
		if len(dps.metadataDocs) > 0 {
			if err := dps.segment.IndexDB().Insert(dps.metadataDocs); err != nil {
				return err
			}
		}
		if len(dps.indexModeDocs) > 0 {
			if err := dps.segment.IndexDB().Update(dps.indexModeDocs); err != nil {
				return err
			}
		}
	}
	return nil
}

// Layout reports, per (segment, shard) table in scan order, "<mem parts>m<file parts>f".
func (e *VerifC15Engine) Layout() string {
	segs, err := e.tsdb.SelectSegments(timestamp.NewInclusiveTimeRange(time.Unix(0, 0), time.Unix(1<<40, 0)), false)
	if err != nil {
		return "layout-err"
	}
	out := ""
	for _, s := range segs {
		tt, _, _ := s.TablesWithShardIDs()
		for _, t := range tt {
			snp := t.currentSnapshot()
			if snp == nil {
				out += "[0]"
				continue
			}
			mem, file := 0, 0
			for _, pw := range snp.parts {
				if pw.mp != nil {
					mem++
				} else {
					file++
				}
			}
			snp.decRef()
			out += fmt.Sprintf("[%dm%df]", mem, file)
		}
		s.DecRef()
	}
	return out
}

// WaitFlushed blocks until no table holds a memory part (or the deadline passes); reports success.
func (e *VerifC15Engine) WaitFlushed(d time.Duration) bool {
	deadline := time.Now().Add(d)
	for {
		segs, err := e.tsdb.SelectSegments(timestamp.NewInclusiveTimeRange(time.Unix(0, 0), time.Unix(1<<40, 0)), false)
		if err != nil {
			return false
		}
		pending := false
		for _, s := range segs {
			tt, _, _ := s.TablesWithShardIDs()
			for _, t := range tt {
				snp := t.currentSnapshot()
				if snp == nil {
					continue
				}
				for _, pw := range snp.parts {
					if pw.mp != nil {
						pending = true
					}
				}
				snp.decRef()
			}
			s.DecRef()
		}
		if !pending {
			return true
		}
		if time.Now().After(deadline) {
			return false
		}
		time.Sleep(2 * time.Millisecond)
	}
}

// Close releases the TSDB.
func (e *VerifC15Engine) Close() error { return e.tsdb.Close() }
