//go:build verif

package measure

import (
	"context"
	"fmt"
	"io"
	"math"
	"os"
	"path/filepath"
	"sort"
	"time"

	"github.com/apache/skywalking-banyandb/api/common"
	commonv1 "github.com/apache/skywalking-banyandb/api/proto/banyandb/common/v1"
	databasev1 "github.com/apache/skywalking-banyandb/api/proto/banyandb/database/v1"
	"github.com/apache/skywalking-banyandb/banyand/internal/storage"
	metadataschema "github.com/apache/skywalking-banyandb/banyand/metadata/schema"
	"github.com/apache/skywalking-banyandb/banyand/protector"
	"github.com/apache/skywalking-banyandb/banyand/queue"
	"github.com/apache/skywalking-banyandb/pkg/convert"
	"github.com/apache/skywalking-banyandb/pkg/fs"
	"github.com/apache/skywalking-banyandb/pkg/logger"
	pbv1 "github.com/apache/skywalking-banyandb/pkg/pb/v1"
	"github.com/apache/skywalking-banyandb/pkg/run"
	resourceSchema "github.com/apache/skywalking-banyandb/pkg/schema"
	"github.com/apache/skywalking-banyandb/pkg/timestamp"
	"github.com/apache/skywalking-banyandb/pkg/watcher"
)

// Exports for the /verif C17 driver: a data-node measure TSDB on a temp dir with the real chunked-sync
// handler (setUpChunkedSyncCallback), and a sender-side file part built with the real memPart code and
// opened for streaming with the real createPartFileReaders.
// Injected with `go build -overlay`; not part of /repo.

type verifC17Repo struct {
	resourceSchema.Repository
	groups map[string]resourceSchema.Group
}

func (f *verifC17Repo) LoadGroup(name string) (resourceSchema.Group, bool) {
	g, ok := f.groups[name]
	return g, ok
}
func (f *verifC17Repo) Init(_ metadataschema.Kind) ([]string, []int64)       { return nil, nil }
func (f *verifC17Repo) LoadAllIndexRules(_ string) []*databasev1.IndexRule   { return nil }
func (f *verifC17Repo) LoadAllGroups() []resourceSchema.Group                { return nil }
func (f *verifC17Repo) LoadAllResources(_ string) []resourceSchema.Resource  { return nil }
func (f *verifC17Repo) Close()                                               {}
func (f *verifC17Repo) StopCh() <-chan struct{}                              { return nil }
func (f *verifC17Repo) LatestModRevision() int64                             { return 0 }
func (f *verifC17Repo) SendMetadataEvent(_ resourceSchema.MetadataEvent)     {}
func (f *verifC17Repo) Watcher()                                             {}
func (f *verifC17Repo) DropGroup(_ string) error                             { return nil }
func (f *verifC17Repo) LoadResource(_ *commonv1.Metadata) (resourceSchema.Resource, bool) {
	return nil, false
}

type verifC17Group struct {
	tsdb storage.TSDB[*tsTable, option]
}

func (f *verifC17Group) GetSchema() *commonv1.Group { return nil }
func (f *verifC17Group) SupplyTSDB() io.Closer      { return f.tsdb }

// VerifC17Node is a data node's measure database for one group.
type VerifC17Node struct {
	db      storage.TSDB[*tsTable, option]
	handler queue.ChunkedSyncHandler
	root    string
}

// VerifC17OpenNode opens a measure TSDB (DAY/1 segments, one shard) under root and wires the real
// part-sync handler to it.
func VerifC17OpenNode(root, group string) (*VerifC17Node, error) {
	ir := storage.IntervalRule{Unit: storage.DAY, Num: 1}
	opts := storage.TSDBOpts[*tsTable, option]{
		ShardNum:        1,
		Location:        filepath.Join(root, "tab"),
		TSTableCreator:  newTSTable,
		SegmentInterval: ir,
		TTL:             storage.IntervalRule{Unit: storage.DAY, Num: 3650},
		Option:          option{protector: protector.Nop{}, mergePolicy: newDefaultMergePolicy(), flushTimeout: time.Hour},
		DisableRetention: true,
	}
	if err := os.MkdirAll(opts.Location, storage.DirPerm); err != nil {
		return nil, err
	}
	ctx := common.SetPosition(
		context.WithValue(context.Background(), logger.ContextKey, logger.GetLogger("verif-c17")),
		func(p common.Position) common.Position {
			p.Database = group
			return p
		},
	)
	db, err := storage.OpenTSDB[*tsTable, option](ctx, opts, nil, group)
	if err != nil {
		return nil, err
	}
	sr := &schemaRepo{
		Repository: &verifC17Repo{groups: map[string]resourceSchema.Group{group: &verifC17Group{tsdb: db}}},
		l:          logger.GetLogger("verif-c17"),
	}
	return &VerifC17Node{db: db, root: opts.Location, handler: setUpChunkedSyncCallback(logger.GetLogger("verif-c17"), sr)}, nil
}

// Handler is the node's real measure part-sync handler.
func (n *VerifC17Node) Handler() queue.ChunkedSyncHandler { return n.handler }

// Root is the database directory.
func (n *VerifC17Node) Root() string { return n.root }

// Close closes the database.
func (n *VerifC17Node) Close() error { return n.db.Close() }

// SnapshotParts lists, for every shard of every segment, the parts of the current snapshot
// ("<part id hex>:<total count>:<min ts>:<max ts>") - what a query on this node would read.
func (n *VerifC17Node) SnapshotParts() []string {
	segs, err := n.db.SelectSegments(timestamp.NewInclusiveTimeRange(time.Unix(0, 0), time.Unix(0, math.MaxInt64)), true)
	if err != nil {
		return []string{"ERR " + err.Error()}
	}
	var out []string
	for _, seg := range segs {
		tables, _ := seg.Tables()
		for _, tst := range tables {
			snp := tst.currentSnapshot()
			if snp == nil {
				continue
			}
			for _, pw := range snp.parts {
				pm := pw.p.partMetadata
				kind := "file"
				if pw.mp != nil {
					kind = "mem"
				}
				out = append(out, fmt.Sprintf("%016x:%s:%d:%d:%d", pw.ID(), kind, pm.TotalCount, pm.MinTimestamp, pm.MaxTimestamp))
			}
			snp.decRef()
		}
		seg.DecRef()
	}
	sort.Strings(out)
	return out
}

// Snapshot returns the number of parts and rows in the current snapshots of all shards.
func (n *VerifC17Node) Snapshot() (int, uint64) { return len(n.SnapshotParts()), n.VerifC17RowCount() }

// VerifC17RowCount counts the data points a full scan of the node returns (sum of TotalCount over the snapshot).
func (n *VerifC17Node) VerifC17RowCount() uint64 {
	var total uint64
	segs, err := n.db.SelectSegments(timestamp.NewInclusiveTimeRange(time.Unix(0, 0), time.Unix(0, math.MaxInt64)), true)
	if err != nil {
		return 0
	}
	for _, seg := range segs {
		tables, _ := seg.Tables()
		for _, tst := range tables {
			if snp := tst.currentSnapshot(); snp != nil {
				for _, pw := range snp.parts {
					total += pw.p.partMetadata.TotalCount
				}
				snp.decRef()
			}
		}
		seg.DecRef()
	}
	return total
}

// VerifC17SenderPart is a flushed file part on the sending side.
type VerifC17SenderPart struct {
	p       *part
	release func()
	Dir     string
}

func verifC17Points(seed int64, series, points int, baseTS int64) *dataPoints {
	dps := &dataPoints{}
	x := uint64(seed)*2654435761 + 12345
	next := func() uint64 {
		x = x*6364136223846793005 + 1442695040888963407
		return x >> 33
	}
	for s := 0; s < series; s++ {
		sid := common.SeriesID(1 + s + int(next()%3)*1000)
		for t := 0; t < points; t++ {
			ts := baseTS + int64(s)*1000 + int64(t)*1000000 + int64(next()%1000)
			dps.seriesIDs = append(dps.seriesIDs, sid)
			dps.timestamps = append(dps.timestamps, ts)
			dps.versions = append(dps.versions, int64(1+next()%5))
			str := make([]byte, 1+next()%40)
			for i := range str {
				str[i] = byte('a' + next()%26)
			}
			tfs := []nameValues{{name: "default", values: []*nameValue{
				{name: "svc", valueType: pbv1.ValueTypeStr, value: str},
				{name: "code", valueType: pbv1.ValueTypeInt64, value: convert.Int64ToBytes(int64(next() % 600))},
			}}}
			if next()%2 == 0 {
				tfs = append(tfs, nameValues{name: "extra", values: []*nameValue{
					{name: "arr", valueType: pbv1.ValueTypeStrArr, valueArr: [][]byte{str, []byte("z")}},
				}})
			}
			dps.tagFamilies = append(dps.tagFamilies, tfs)
			dps.fields = append(dps.fields, nameValues{name: "skipped", values: []*nameValue{
				{name: "total", valueType: pbv1.ValueTypeInt64, value: convert.Int64ToBytes(int64(next()))},
				{name: "note", valueType: pbv1.ValueTypeStr, value: str},
			}})
		}
	}
	return dps
}

// VerifC17BuildPart builds data points from the seed with the real memPart encoder, flushes them to
// <root>/<id hex> and opens the directory as a file part (what a liaison holds after flushing its write queue).
func VerifC17BuildPart(root string, id uint64, seed int64, series, points int, baseTS int64) *VerifC17SenderPart {
	lfs := fs.NewLocalFileSystem()
	dps := verifC17Points(seed, series, points, baseTS)
	mp := generateMemPart()
	mp.mustInitFromDataPoints(dps)
	dir := partPath(root, id)
	mp.mustFlush(lfs, dir)
	releaseMemPart(mp)
	p := mustOpenFilePart(id, root, lfs)
	return &VerifC17SenderPart{p: p, Dir: dir}
}

// StreamingPart is what tsTable.syncPartsToNodesHelper builds for this part (real createPartFileReaders).
func (sp *VerifC17SenderPart) StreamingPart(group, topic string) queue.StreamingPartData {
	files, release := createPartFileReaders(sp.p)
	sp.release = release
	pm := sp.p.partMetadata
	return queue.StreamingPartData{
		ID: pm.ID, Group: group, ShardID: 0, Topic: topic, Files: files,
		CompressedSizeBytes: pm.CompressedSizeBytes, UncompressedSizeBytes: pm.UncompressedSizeBytes,
		TotalCount: pm.TotalCount, BlocksCount: pm.BlocksCount,
		MinTimestamp: pm.MinTimestamp, MaxTimestamp: pm.MaxTimestamp, PartType: PartTypeCore,
	}
}

// PartDir is the part's directory on the sending side.
func (sp *VerifC17SenderPart) PartDir() string { return sp.Dir }

// TotalCount is the number of data points in the part.
func (sp *VerifC17SenderPart) TotalCount() uint64 { return sp.p.partMetadata.TotalCount }

// Close releases the part's readers.
func (sp *VerifC17SenderPart) Close() {
	if sp.release != nil {
		sp.release()
		sp.release = nil
	}
	sp.p.close()
}

// VerifC17Liaison is a liaison-side write queue shard (the tsTable of newWriteQueue) whose sync loop is driven
// by hand: the introducer and flusher loops run as in startLoopWithConditionalMerge, syncSnapshot is called
// explicitly by the driver.
type VerifC17Liaison struct {
	tst    *tsTable
	syncCh chan *syncIntroduction
}

// VerifC17OpenLiaison opens the write queue shard under root, syncing to the given nodes through client.
func VerifC17OpenLiaison(root, group string, client queue.Client, nodes []string, failedPartsQuota uint64, flushWindow time.Duration) (*VerifC17Liaison, error) {
	if err := os.MkdirAll(root, storage.DirPerm); err != nil {
		return nil, err
	}
	opt := option{
		protector: protector.Nop{}, mergePolicy: newDefaultMergePolicy(), tire2Client: client,
		flushTimeout: flushWindow, syncInterval: time.Hour, failedPartsMaxTotalSizeBytes: failedPartsQuota,
	}
	tst, epoch := initTSTable(fs.NewLocalFileSystem(), root, common.Position{}, logger.GetLogger("verif-c17-liaison"), opt, nil)
	tst.getNodes = func() []string { return nodes }
	tst.group = group
	tst.shardID = 0
	tst.loopCloser = run.NewCloser(1 + 2)
	tst.introductions = make(chan *introduction)
	flushCh := make(chan *flusherIntroduction)
	mergeCh := make(chan *mergerIntroduction)
	syncCh := make(chan *syncIntroduction)
	introducerWatcher := make(watcher.Channel, 1)
	flusherWatcher := make(watcher.Channel, 1)
	go tst.introducerLoopWithSync(flushCh, mergeCh, syncCh, introducerWatcher, epoch+1)
	go tst.flusherLoop(flushCh, mergeCh, introducerWatcher, flusherWatcher, epoch)
	return &VerifC17Liaison{tst: tst, syncCh: syncCh}, nil
}

// AddPoints appends generated data points to the write queue (one mem part); returns the number of rows.
func (l *VerifC17Liaison) AddPoints(seed int64, series, points int, baseTS int64) int {
	dps := verifC17Points(seed, series, points, baseTS)
	n := len(dps.timestamps)
	l.tst.mustAddDataPoints(dps)
	return n
}

// FileParts lists the flushed (file) parts of the current snapshot as directories; mem counts the mem parts.
func (l *VerifC17Liaison) FileParts() (dirs []string, mem int) {
	snp := l.tst.currentSnapshot()
	if snp == nil {
		return nil, 0
	}
	defer snp.decRef()
	for _, pw := range snp.parts {
		if pw.mp != nil {
			mem++
		} else {
			dirs = append(dirs, pw.p.path)
		}
	}
	return dirs, mem
}

// QueuedRows sums the rows of every part (mem or file) of the current snapshot.
func (l *VerifC17Liaison) QueuedRows() uint64 {
	snp := l.tst.currentSnapshot()
	if snp == nil {
		return 0
	}
	defer snp.decRef()
	var n uint64
	for _, pw := range snp.parts {
		if pw.mp != nil {
			n += pw.mp.partMetadata.TotalCount
		} else {
			n += pw.p.partMetadata.TotalCount
		}
	}
	return n
}

// AddPointsToSegment appends one mem part that belongs to the given time segment of the write queue
// (what write_liaison.go does per (shard, segment) of a write batch).
func (l *VerifC17Liaison) AddPointsToSegment(seed int64, series, points int, baseTS, segmentID int64) int {
	dps := verifC17Points(seed, series, points, baseTS)
	n := len(dps.timestamps)
	l.tst.mustAddDataPointsWithSegmentID(dps, segmentID, nil)
	return n
}

// SyncOnce runs tsTable.syncSnapshot on the current snapshot (what one iteration of syncLoop does).
func (l *VerifC17Liaison) SyncOnce() error {
	snp := l.tst.currentSnapshot()
	if snp == nil {
		return nil
	}
	defer snp.decRef()
	return l.tst.syncSnapshot(snp, l.syncCh)
}

// FailedDir lists the entries of <root>/failed-parts.
func (l *VerifC17Liaison) FailedDir() []string {
	var out []string
	if _, err := os.Stat(filepath.Join(l.tst.root, storage.FailedPartsDirName)); err != nil {
		return out
	}
	for _, e := range l.tst.fileSystem.ReadDir(filepath.Join(l.tst.root, storage.FailedPartsDirName)) {
		out = append(out, e.Name())
	}
	sort.Strings(out)
	return out
}

// Close stops the loops.
func (l *VerifC17Liaison) Close() error { return l.tst.Close() }
