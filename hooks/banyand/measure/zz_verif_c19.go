//go:build verif

// Exports for the /verif C19 driver (file snapshots). Injected with `go build -overlay`; not part of /repo.
//
// The driver runs a real measure tsTable WITHOUT its background loops (initTSTable, as upstream's own
// tstable_test.go/snapshot_test.go do) and performs every transition synchronously, so that the schedule is an
// input: introducePart / flush+introduceFlushed / mergeParts+introduceMerged are the bodies the loops execute.
package measure

import (
	"context"
	"fmt"
	"os"
	"path/filepath"
	"sort"
	"sync"
	"sync/atomic"
	"time"

	"github.com/apache/skywalking-banyandb/api/common"
	"github.com/apache/skywalking-banyandb/banyand/internal/storage"
	"github.com/apache/skywalking-banyandb/banyand/protector"
	"github.com/apache/skywalking-banyandb/pkg/convert"
	"github.com/apache/skywalking-banyandb/pkg/fs"
	"github.com/apache/skywalking-banyandb/pkg/logger"
	pbv1 "github.com/apache/skywalking-banyandb/pkg/pb/v1"
	"github.com/apache/skywalking-banyandb/pkg/timestamp"
)

// VerifRow is the shared row type.
type VerifRow = storage.VerifRow

// VerifPartInfo is the shared part description.
type VerifPartInfo = storage.VerifPartInfo

type verifTracked struct {
	pw  *partWrapper
	dir string
	id  uint64
	mem bool
}

// VerifTable wraps a real tsTable whose transitions are driven synchronously.
type VerifTable struct {
	T     *tsTable
	track []verifTracked
	epoch uint64
}

func verifOption() option {
	return option{
		flushTimeout: 0,
		mergePolicy:  newDefaultMergePolicy(),
		protector:    protector.Nop{},
	}
}

var (
	verifTablesMu sync.Mutex
	verifTables   = map[*tsTable]*VerifTable{}
)

// VerifOpenTable runs the real initTSTable on root (recovery if the directory has content). No loops are started.
func VerifOpenTable(fileSystem fs.FileSystem, root string) *VerifTable {
	t, _ := initTSTable(fileSystem, root, common.Position{}, logger.GetLogger("verif-c19"), verifOption(), nil)
	v := &VerifTable{T: t}
	if t.snapshot != nil {
		v.epoch = t.snapshot.epoch
		for _, pw := range t.snapshot.parts {
			v.trackPW(pw)
		}
	}
	verifTablesMu.Lock()
	verifTables[t] = v
	verifTablesMu.Unlock()
	return v
}

func verifTableOf(t *tsTable) *VerifTable {
	verifTablesMu.Lock()
	defer verifTablesMu.Unlock()
	return verifTables[t]
}

func (v *VerifTable) trackPW(pw *partWrapper) {
	v.track = append(v.track, verifTracked{pw: pw, id: pw.ID(), mem: pw.mp != nil, dir: partPath(v.T.root, pw.ID())})
}

// Close closes the table (drops the current snapshot reference, as segment close does).
func (v *VerifTable) Close() {
	_ = v.T.Close()
	verifTablesMu.Lock()
	delete(verifTables, v.T)
	verifTablesMu.Unlock()
}

// AddBatch = mustAddDataPoints + the introducer loop's introducePart, synchronously. Returns the part id.
func (v *VerifTable) AddBatch(rows []VerifRow) uint64 {
	tst := v.T
	dps := &dataPoints{}
	for _, r := range rows {
		dps.seriesIDs = append(dps.seriesIDs, common.SeriesID(r.SID))
		dps.timestamps = append(dps.timestamps, r.TS)
		dps.versions = append(dps.versions, 1)
		dps.tagFamilies = append(dps.tagFamilies, nil)
		dps.fields = append(dps.fields, nameValues{name: "skipped", values: []*nameValue{
			{name: "v", valueType: pbv1.ValueTypeInt64, value: convert.Int64ToBytes(r.Val)},
		}})
	}
	mp := generateMemPart()
	mp.mustInitFromDataPoints(dps)
	p := openMemPart(mp)
	pw := newPartWrapper(mp, p)
	pw.p.partMetadata.ID = atomic.AddUint64(&tst.curPartID, 1)
	tst.addPendingDataCount(int64(mp.partMetadata.TotalCount))
	v.trackPW(pw)
	v.epoch++
	tst.introducePart(&introduction{part: pw}, v.epoch)
	return pw.ID()
}

// Flush = the body of tsTable.flush + introduceFlushed + gc.clean, synchronously. Returns the number of flushed parts.
func (v *VerifTable) Flush() int {
	tst := v.T
	s := tst.currentSnapshot()
	if s == nil {
		return 0
	}
	defer s.decRef()
	ind := &flusherIntroduction{flushed: make(map[uint64]*partWrapper)}
	for _, pw := range s.parts {
		if pw.mp == nil || pw.mp.partMetadata.TotalCount < 1 {
			continue
		}
		pp := partPath(tst.root, pw.ID())
		pw.mp.mustFlush(tst.fileSystem, pp)
		newPW := newPartWrapper(nil, mustOpenFilePart(pw.ID(), tst.root, tst.fileSystem))
		newPW.p.partMetadata.ID = pw.ID()
		ind.flushed[newPW.ID()] = newPW
		v.trackPW(newPW)
	}
	if len(ind.flushed) < 1 {
		return 0
	}
	v.epoch++
	tst.introduceFlushed(ind, v.epoch)
	tst.gc.clean()
	return len(ind.flushed)
}

// DiskPartIDs lists the ids of the file parts of the current snapshot in snapshot order.
func (v *VerifTable) DiskPartIDs() []uint64 {
	s := v.T.currentSnapshot()
	if s == nil {
		return nil
	}
	defer s.decRef()
	var out []uint64
	for _, pw := range s.parts {
		if pw.mp == nil {
			out = append(out, pw.ID())
		}
	}
	return out
}

// Parts lists (id, mem) of the current snapshot in order.
func (v *VerifTable) Parts() (ids []uint64, mem []bool) {
	s := v.T.currentSnapshot()
	if s == nil {
		return nil, nil
	}
	defer s.decRef()
	for _, pw := range s.parts {
		ids = append(ids, pw.ID())
		mem = append(mem, pw.mp != nil)
	}
	return ids, mem
}

// Merge merges the file parts at the given positions (positions in DiskPartIDs()) with the real mergeParts and
// introduces the result with introduceMerged + gc.clean. Returns the new part id, or 0 when fewer than two distinct
// valid positions were given.
func (v *VerifTable) Merge(pos []int) uint64 {
	tst := v.T
	s := tst.currentSnapshot()
	if s == nil {
		return 0
	}
	defer s.decRef()
	var disk []*partWrapper
	for _, pw := range s.parts {
		if pw.mp == nil {
			disk = append(disk, pw)
		}
	}
	seen := map[int]bool{}
	var parts []*partWrapper
	merged := make(map[uint64]struct{})
	for _, i := range pos {
		if i < 0 || i >= len(disk) || seen[i] {
			continue
		}
		seen[i] = true
	}
	for i := range disk {
		if seen[i] {
			parts = append(parts, disk[i])
			merged[disk[i].ID()] = struct{}{}
		}
	}
	if len(parts) < 2 {
		return 0
	}
	closeCh := make(chan struct{})
	newPart, err := tst.mergeParts(tst.fileSystem, closeCh, parts, atomic.AddUint64(&tst.curPartID, 1), tst.root)
	if err != nil {
		panic(fmt.Sprintf("mergeParts: %v", err))
	}
	v.trackPW(newPart)
	mi := &mergerIntroduction{merged: merged, newPart: newPart, creator: snapshotCreatorMerger}
	v.epoch++
	tst.introduceMerged(mi, v.epoch)
	tst.gc.clean()
	return newPart.ID()
}

// Snapshot calls the real TakeFileSnapshot.
func (v *VerifTable) Snapshot(dst string) (bool, error) {
	return v.T.TakeFileSnapshot(dst)
}

// Settle waits until every dead removable file part the driver knows has been removed by its asynchronous
// `go MustRMAll` (partWrapper.decRef). Returns false on timeout.
func (v *VerifTable) Settle() bool {
	deadline := time.Now().Add(30 * time.Second)
	for {
		pending := false
		for _, t := range v.track {
			if t.mem {
				continue
			}
			if atomic.LoadInt32(&t.pw.ref) <= 0 && t.pw.removable.Load() {
				if _, err := os.Stat(t.dir); err == nil {
					pending = true
				}
			}
		}
		if !pending {
			return true
		}
		if time.Now().After(deadline) {
			return false
		}
		time.Sleep(200 * time.Microsecond)
	}
}

// Refs reports every tracked partWrapper that is still referenced, plus dead ones whose directory still exists.
func (v *VerifTable) Refs() []VerifPartInfo {
	var out []VerifPartInfo
	for _, t := range v.track {
		ref := atomic.LoadInt32(&t.pw.ref)
		_, err := os.Stat(t.dir)
		exists := err == nil
		if ref <= 0 {
			continue
		}
		out = append(out, VerifPartInfo{ID: t.id, Mem: t.mem, Ref: ref, Removable: t.pw.removable.Load(), DirExists: exists})
	}
	sort.Slice(out, func(i, j int) bool {
		if out[i].ID != out[j].ID {
			return out[i].ID < out[j].ID
		}
		return out[i].Mem && !out[j].Mem
	})
	return out
}

// SnapshotRef is the reference count of the table's current snapshot object (1 when nobody else pins it).
func (v *VerifTable) SnapshotRef() int32 {
	v.T.RLock()
	defer v.T.RUnlock()
	if v.T.snapshot == nil {
		return 0
	}
	return atomic.LoadInt32(&v.T.snapshot.ref)
}

// VerifSIDs is the fixed series universe of the driver.
var VerifSIDs = []common.SeriesID{1, 2, 3, 4}

// Query reads everything the table's current snapshot holds through the real query path
// (snapshot.getParts -> tstIter -> blockCursor -> queryResult.Pull), as upstream's query_test.go does.
func (v *VerifTable) Query() (rows []VerifRow, err error) {
	tst := v.T
	s := tst.currentSnapshot()
	if s == nil {
		return nil, nil
	}
	defer s.decRef()
	qo := queryOptions{minTimestamp: 0, maxTimestamp: 1<<62 - 1}
	qo.FieldProjection = []string{"v"}
	pp, _ := s.getParts(nil, storage.NewShardCache("verif", 0, 0), qo.minTimestamp, qo.maxTimestamp)
	sids := append([]common.SeriesID(nil), VerifSIDs...)
	ti := &tstIter{}
	ti.init(pp, sids, qo.minTimestamp, qo.maxTimestamp)
	var result queryResult
	result.ctx = context.Background()
	for ti.nextBlock() {
		bc := generateBlockCursor()
		p := ti.piHeap[0]
		bc.init(p.p, p.curBlock, qo)
		result.data = append(result.data, bc)
	}
	if e := ti.Error(); e != nil {
		return nil, e
	}
	result.sidToIndex = make(map[common.SeriesID]int)
	for i, si := range sids {
		result.sidToIndex[si] = i
	}
	for {
		r := result.Pull()
		if r == nil {
			break
		}
		if r.Error != nil {
			return nil, r.Error
		}
		for i := range r.Timestamps {
			row := VerifRow{SID: uint64(r.SID), TS: r.Timestamps[i], Val: -1}
			if len(r.Fields) == 1 && i < len(r.Fields[0].Values) && r.Fields[0].Values[i].GetInt() != nil {
				row.Val = r.Fields[0].Values[i].GetInt().Value
			}
			rows = append(rows, row)
		}
	}
	for i, vv := range result.data {
		releaseBlockCursor(vv)
		result.data[i] = nil
	}
	sort.Slice(rows, func(i, j int) bool {
		if rows[i].SID != rows[j].SID {
			return rows[i].SID < rows[j].SID
		}
		return rows[i].TS < rows[j].TS
	})
	return rows, nil
}

// VerifManifest is the shared directory description.
type VerifManifest = storage.VerifManifest

// VerifInspectDir reads a table directory (a snapshot copy) the way initTSTable would, but read-only:
// manifests present, part ids listed by the newest one, part directories present and whether each passes the
// real validatePartMetadata.
func VerifInspectDir(fileSystem fs.FileSystem, root string) VerifManifest {
	m := VerifManifest{Complete: map[uint64]bool{}}
	if _, err := os.Stat(root); err != nil {
		m.Err = "absent"
		return m
	}
	for _, e := range fileSystem.ReadDir(root) {
		if e.IsDir() {
			id, err := parseEpoch(e.Name())
			if err != nil {
				m.BadDirs = append(m.BadDirs, e.Name())
				continue
			}
			m.Dirs = append(m.Dirs, id)
			m.Complete[id] = validatePartMetadata(fileSystem, filepath.Join(root, e.Name())) == nil
			continue
		}
		if filepath.Ext(e.Name()) == snapshotSuffix {
			ep, err := parseSnapshot(e.Name())
			if err != nil {
				m.OtherFile = append(m.OtherFile, e.Name())
				continue
			}
			m.Epochs = append(m.Epochs, ep)
			continue
		}
		m.OtherFile = append(m.OtherFile, e.Name())
	}
	sort.Slice(m.Epochs, func(i, j int) bool { return m.Epochs[i] > m.Epochs[j] })
	if len(m.Epochs) > 0 {
		names, err := storage.ReadSnapshotPartNames(fileSystem, filepath.Join(root, snapshotName(m.Epochs[0])))
		if err != nil {
			m.Err = "manifest-unreadable"
			return m
		}
		for _, n := range names {
			id, perr := parseEpoch(n)
			if perr != nil {
				m.Err = "manifest-bad-name"
				return m
			}
			m.Listed = append(m.Listed, id)
		}
	}
	return m
}

// ------------------------------------------------------------------------------------------------------------
// storage level: a real storage.TSDB whose tables are real measure tsTables without background loops

// VerifDB is a real storage database over measure tables.
type VerifDB struct {
	DB   storage.TSDB[*tsTable, option]
	Segs map[string]*storage.VerifSeg[*tsTable, option] // every segment object ever seen, by suffix
}

// VerifOpenDB opens (or creates) a TSDB at location. wrap decorates the file system handed to every table.
func VerifOpenDB(location string, shardNum uint32, wrap func(fs.FileSystem) fs.FileSystem) (*VerifDB, error) {
	opts := storage.TSDBOpts[*tsTable, option]{
		Location:        location,
		SegmentInterval: storage.IntervalRule{Unit: storage.DAY, Num: 1},
		TTL:             storage.IntervalRule{Unit: storage.DAY, Num: 3650},
		ShardNum:        shardNum,
		Option:          verifOption(),
		TSTableCreator: func(fileSystem fs.FileSystem, root string, _ common.Position, _ *logger.Logger,
			_ timestamp.TimeRange, _ option, _ any,
		) (*tsTable, error) {
			if wrap != nil {
				fileSystem = wrap(fileSystem)
			}
			return VerifOpenTable(fileSystem, root).T, nil
		},
		SeriesIndexFlushTimeoutSeconds: 1,
		DisableRetention:               true,
		DisableRotation:                true,
	}
	db, err := storage.OpenTSDB(context.Background(), opts, nil, "verif")
	if err != nil {
		return nil, err
	}
	v := &VerifDB{DB: db, Segs: map[string]*storage.VerifSeg[*tsTable, option]{}}
	v.Refresh()
	return v, nil
}

// Refresh records the segment objects currently listed by the controller.
func (v *VerifDB) Refresh() {
	for _, s := range storage.VerifListSegments(v.DB) {
		if _, ok := v.Segs[s.Suffix()]; !ok {
			v.Segs[s.Suffix()] = s
		}
	}
}

// Table returns the live table of (segment, shard) if the segment is open and the shard exists.
func (v *VerifDB) Table(suffix string, shard int) *VerifTable {
	s := v.Segs[suffix]
	if s == nil {
		return nil
	}
	for _, t := range s.Tables() {
		if vt := verifTableOf(t.Table); vt != nil && int(t.Shard) == shard {
			return vt
		}
	}
	return nil
}

// Write creates the segment for ts if needed (reopening it if idle-closed, as a real write does), creates the shard
// table if needed, and introduces one batch.
func (v *VerifDB) Write(ts time.Time, shard int, rows []VerifRow) error {
	seg, err := v.DB.CreateSegmentIfNotExist(ts)
	if err != nil {
		return err
	}
	defer seg.DecRef()
	v.Refresh()
	t, err := seg.CreateTSTableIfNotExist(common.ShardID(shard))
	if err != nil {
		return err
	}
	vt := verifTableOf(t)
	if vt == nil {
		return fmt.Errorf("untracked table")
	}
	vt.AddBatch(rows)
	return nil
}

// Close closes the database.
func (v *VerifDB) Close() error { return v.DB.Close() }

// Remove runs the retention path for one segment (delete + unlist).
func (v *VerifDB) Remove(s *storage.VerifSeg[*tsTable, option]) { storage.VerifRemove(v.DB, s) }
