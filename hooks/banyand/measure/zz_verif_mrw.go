//go:build verif

// Harness exports for the /verif driver `mrw` (properties C01, C02, C03).
// Injected into package measure by `go build -tags verif -overlay`; not part of /repo.
//
// Every transition of a real tsTable is invoked synchronously by the driver: the only goroutine that
// runs is the real introducerLoop (exactly the seam upstream's tstable_test.go/query_test.go use), and
// the caller always waits for the `applied` signal, so the schedule is an input, not a race.
package measure

import (
	"context"
	"fmt"
	"os"
	"runtime"
	"runtime/debug"
	"sort"
	"strings"
	"sync/atomic"
	"time"

	"github.com/apache/skywalking-banyandb/api/common"
	commonv1 "github.com/apache/skywalking-banyandb/api/proto/banyandb/common/v1"
	databasev1 "github.com/apache/skywalking-banyandb/api/proto/banyandb/database/v1"
	measurev1 "github.com/apache/skywalking-banyandb/api/proto/banyandb/measure/v1"
	modelv1 "github.com/apache/skywalking-banyandb/api/proto/banyandb/model/v1"
	"github.com/apache/skywalking-banyandb/banyand/internal/storage"
	"github.com/apache/skywalking-banyandb/banyand/protector"
	"github.com/apache/skywalking-banyandb/pkg/fs"
	"github.com/apache/skywalking-banyandb/pkg/index"
	"github.com/apache/skywalking-banyandb/pkg/logger"
	"github.com/apache/skywalking-banyandb/pkg/partition"
	pbv1 "github.com/apache/skywalking-banyandb/pkg/pb/v1"
	"github.com/apache/skywalking-banyandb/pkg/query/model"
	"github.com/apache/skywalking-banyandb/pkg/query/vectorized"
	vmeasure "github.com/apache/skywalking-banyandb/pkg/query/vectorized/measure"
	"github.com/apache/skywalking-banyandb/pkg/run"
	"github.com/apache/skywalking-banyandb/pkg/timestamp"
	"github.com/apache/skywalking-banyandb/pkg/watcher"
)

// VTag is one tag column of a schema (family, name, type).
type VTag struct {
	Family string
	Name   string
	Type   databasev1.TagType
}

// VField is one field column of a schema.
type VField struct {
	Name string
	Type databasev1.FieldType
}

// VSchema is the shape of the rows of one batch or of one query projection.
type VSchema struct {
	Tags   []VTag
	Fields []VField
}

// VRow is one written or returned data point.
type VRow struct {
	Tags   []*modelv1.TagValue
	Fields []*modelv1.FieldValue
	Sid    uint64
	Ts     int64
	Ver    int64
}

// VTable wraps a real tsTable on a scratch directory.
type VTable struct {
	tst     *tsTable
	flushCh chan *flusherIntroduction
	mergeCh chan *mergerIntroduction
	cache   storage.Cache
	dir     string
	labels  []uint64 // creation label -> part ID (0: the batch created no part)
}

// VConsts returns the block limits compiled into the package.
func VConsts() (int, int) { return maxBlockLength, maxUncompressedBlockSize }

// VNewTable opens an empty table in dir; only the introducer loop is started.
func VNewTable(dir string) *VTable {
	if err := os.MkdirAll(dir, 0o755); err != nil {
		panic(err)
	}
	fileSystem := fs.NewLocalFileSystem()
	tst, epoch := initTSTable(fileSystem, dir, common.Position{}, logger.GetLogger("verif"),
		option{flushTimeout: 0, mergePolicy: newDefaultMergePolicy(), protector: protector.Nop{}}, nil)
	tst.curPartID = 0
	tst.loopCloser = run.NewCloser(2)
	tst.introductions = make(chan *introduction)
	t := &VTable{tst: tst, dir: dir, cache: storage.NewShardCache("verif", 0, 0)}
	t.flushCh = make(chan *flusherIntroduction)
	t.mergeCh = make(chan *mergerIntroduction)
	_ = epoch
	go tst.introducerLoop(t.flushCh, t.mergeCh, make(watcher.Channel, 1), 1)
	return t
}

// Close stops the introducer loop and releases the snapshot.
func (t *VTable) Close() {
	_ = t.tst.Close()
}

func groupTags(sc *VSchema, vals []*modelv1.TagValue) []nameValues {
	var out []nameValues
	for i, tg := range sc.Tags {
		nv := encodeTagValue(tg.Name, tg.Type, vals[i])
		if n := len(out); n > 0 && out[n-1].name == tg.Family {
			out[n-1].values = append(out[n-1].values, nv)
			continue
		}
		out = append(out, nameValues{name: tg.Family, values: []*nameValue{nv}})
	}
	return out
}

// Batch feeds one batch through the code path the standalone write callback uses after building
// dataPoints (tsTable.mustAddDataPoints -> memPart.mustInitFromDataPoints -> mustAddMemPart -> introducePart).
// Tag/field values are coerced by the real encodeTagValue/encodeFieldValue.
func (t *VTable) Batch(sc *VSchema, rows []VRow) {
	dps := &dataPoints{}
	for i := range rows {
		r := &rows[i]
		dps.seriesIDs = append(dps.seriesIDs, common.SeriesID(r.Sid))
		dps.timestamps = append(dps.timestamps, r.Ts)
		dps.versions = append(dps.versions, r.Ver)
		dps.tagFamilies = append(dps.tagFamilies, groupTags(sc, r.Tags))
		f := nameValues{}
		for j, fd := range sc.Fields {
			f.values = append(f.values, encodeFieldValue(fd.Name, fd.Type, r.Fields[j]))
		}
		dps.fields = append(dps.fields, f)
	}
	t.addDataPoints(dps)
}

func (t *VTable) addDataPoints(dps *dataPoints) {
	before := atomic.LoadUint64(&t.tst.curPartID)
	t.tst.mustAddDataPoints(dps)
	after := atomic.LoadUint64(&t.tst.curPartID)
	if after == before {
		t.labels = append(t.labels, 0)
		return
	}
	t.labels = append(t.labels, after)
}

// VMeasureSchema builds the databasev1.Measure + locator a WriteRequest of shape sc is checked against.
func VMeasureSchema(sc *VSchema) (*databasev1.Measure, partition.IndexRuleLocator) {
	m := &databasev1.Measure{
		Metadata: &commonv1.Metadata{Name: "m", Group: "g"},
		Entity:   &databasev1.Entity{TagNames: []string{"zz_entity"}},
	}
	for _, tg := range sc.Tags {
		n := len(m.TagFamilies)
		if n == 0 || m.TagFamilies[n-1].Name != tg.Family {
			m.TagFamilies = append(m.TagFamilies, &databasev1.TagFamilySpec{Name: tg.Family})
			n++
		}
		m.TagFamilies[n-1].Tags = append(m.TagFamilies[n-1].Tags, &databasev1.TagSpec{Name: tg.Name, Type: tg.Type})
	}
	for _, fd := range sc.Fields {
		m.Fields = append(m.Fields, &databasev1.FieldSpec{Name: fd.Name, FieldType: fd.Type})
	}
	loc := partition.IndexRuleLocator{EntitySet: map[string]int{"zz_entity": 0}}
	for range m.TagFamilies {
		loc.TagFamilyTRule = append(loc.TagFamilyTRule, map[string]*databasev1.IndexRule{})
	}
	return m, loc
}

// WBatch is the second level: every row becomes a measurev1.WriteRequest that goes through the
// standalone write path's appendDataPoints (handleTagFamily + encodeTagValue + encodeFieldValue),
// i.e. the glue writeCallback.handle runs after it has located the table; the resulting dataPoints
// go to the same tsTable.mustAddDataPoints.
func (t *VTable) WBatch(sc *VSchema, rows []VRow) {
	m, loc := VMeasureSchema(sc)
	dpt := &dataPointsInTable{}
	for i := range rows {
		r := &rows[i]
		req := &measurev1.WriteRequest{Metadata: m.Metadata, DataPoint: &measurev1.DataPointValue{Version: r.Ver}}
		k := 0
		for _, tf := range m.TagFamilies {
			w := &modelv1.TagFamilyForWrite{}
			for range tf.Tags {
				w.Tags = append(w.Tags, r.Tags[k])
				k++
			}
			req.DataPoint.TagFamilies = append(req.DataPoint.TagFamilies, w)
		}
		req.DataPoint.Fields = append(req.DataPoint.Fields, r.Fields...)
		appendDataPoints(dpt, r.Ts, common.SeriesID(r.Sid), m, req, loc, nil)
	}
	if dpt.dataPoints == nil {
		t.labels = append(t.labels, 0)
		return
	}
	t.addDataPoints(dpt.dataPoints)
}

// VTimestampCheck is the validation writeCallback.handle applies to a data point's time.
func VTimestampCheck(ns int64) error {
	return timestamp.Check(time.Unix(0, ns).Local())
}

func (t *VTable) pick(labels []int) ([]*partWrapper, *snapshot, string) {
	snp := t.tst.currentSnapshot()
	if snp == nil {
		return nil, nil, "nosnap"
	}
	var out []*partWrapper
	for _, l := range labels {
		if l < 0 || l >= len(t.labels) || t.labels[l] == 0 {
			snp.decRef()
			return nil, nil, "nolabel"
		}
		var found *partWrapper
		for _, pw := range snp.parts {
			if pw.ID() == t.labels[l] {
				found = pw
			}
		}
		if found == nil {
			snp.decRef()
			return nil, nil, "gone"
		}
		out = append(out, found)
	}
	return out, snp, ""
}

// Flush persists the chosen memory parts exactly as tsTable.flush does for all of them
// (memPart.mustFlush, mustOpenFilePart, flusherIntroduction -> introduceFlushed).
func (t *VTable) Flush(labels []int) string {
	pws, snp, e := t.pick(labels)
	if e != "" {
		return e
	}
	defer snp.decRef()
	ind := generateFlusherIntroduction()
	defer releaseFlusherIntroduction(ind)
	for _, pw := range pws {
		if pw.mp == nil {
			return "notmem"
		}
		if pw.mp.partMetadata.TotalCount < 1 {
			continue
		}
		pp := partPath(t.tst.root, pw.ID())
		pw.mp.mustFlush(t.tst.fileSystem, pp)
		newPW := newPartWrapper(nil, mustOpenFilePart(pw.ID(), t.tst.root, t.tst.fileSystem))
		newPW.p.partMetadata.ID = pw.ID()
		ind.flushed[newPW.ID()] = newPW
	}
	if len(ind.flushed) < 1 {
		return "ok0"
	}
	ind.applied = make(chan struct{})
	t.flushCh <- ind
	<-ind.applied
	return "ok"
}

// Merge merges the chosen parts through the real mergePartsThenSendIntroduction
// (mergeParts -> mergeBlocks -> mergeTwoBlocks, then introduceMerged).
func (t *VTable) Merge(labels []int) string {
	pws, snp, e := t.pick(labels)
	if e != "" {
		t.labels = append(t.labels, 0)
		return e
	}
	defer snp.decRef()
	merged := make(map[uint64]struct{})
	creator := snapshotCreator(snapshotCreatorMerger)
	typ := "file"
	for _, pw := range pws {
		merged[pw.ID()] = struct{}{}
		if pw.mp != nil {
			creator = snapshotCreatorMergedFlusher
			typ = "mem"
		}
	}
	closeCh := make(chan struct{})
	defer close(closeCh)
	// The merger recycles decoders and buffers through sync.Pool. Whether a Get returns the object that was just Put
	// depends on the P the goroutine runs on and on GC cycles; with one P and no GC during the merge the reuse is
	// deterministic (always), which is the worst case for code that keeps references into a recycled buffer.
	if os.Getenv("VERIF_MRW_POOL_DETERMINISTIC") != "0" {
		oldP := runtime.GOMAXPROCS(1)
		oldGC := debug.SetGCPercent(-1)
		defer func() {
			debug.SetGCPercent(oldGC)
			runtime.GOMAXPROCS(oldP)
		}()
	}
	np, err := t.tst.mergePartsThenSendIntroduction(creator, pws, merged, t.mergeCh, closeCh, typ)
	if err != nil {
		t.labels = append(t.labels, 0)
		return "ERR"
	}
	t.labels = append(t.labels, np.ID())
	return "ok"
}

// Query runs the part selection, block search (measure.searchBlocks), block loading and the
// queryResult heap merge of measure.Query against the table's current snapshot.
// order: "ta" time asc (Order == nil), "td" time desc, "s" by series (in the order given).
func (t *VTable) Query(sc *VSchema, sids []uint64, tmin, tmax int64, order string, batch bool) ([][]VRow, string) {
	var mqo model.MeasureQueryOptions
	types := make(map[string]pbv1.ValueType)
	for _, tg := range sc.Tags {
		n := len(mqo.TagProjection)
		if n == 0 || mqo.TagProjection[n-1].Family != tg.Family {
			mqo.TagProjection = append(mqo.TagProjection, model.TagProjection{Family: tg.Family})
			n++
		}
		mqo.TagProjection[n-1].Names = append(mqo.TagProjection[n-1].Names, tg.Name)
		if vt := pbv1.TagValueSpecToValueType(tg.Type); vt != pbv1.ValueTypeUnknown {
			types[tg.Name] = vt
		}
	}
	for _, fd := range sc.Fields {
		mqo.FieldProjection = append(mqo.FieldProjection, fd.Name)
	}
	switch order {
	case "td":
		mqo.Order = &index.OrderBy{Type: index.OrderByTypeTime, Sort: modelv1.Sort_SORT_DESC}
	case "s":
		mqo.Order = &index.OrderBy{Type: index.OrderByTypeSeries, Sort: modelv1.Sort_SORT_ASC}
	}
	snp := t.tst.currentSnapshot()
	if snp == nil {
		return nil, ""
	}
	qo := queryOptions{MeasureQueryOptions: mqo, schemaTagTypes: types, minTimestamp: tmin, maxTimestamp: tmax}
	parts, n := snp.getParts(nil, t.cache, tmin, tmax)
	if n < 1 {
		snp.decRef()
		return nil, ""
	}
	result := queryResult{ctx: context.Background(), tagProjection: mqo.TagProjection}
	queryResultTracker.Acquire(&result)
	result.snapshots = append(result.snapshots, snp)
	defer result.Release()
	m := &measure{pm: protector.Nop{}}
	ss := make([]common.SeriesID, len(sids))
	for i := range sids {
		ss[i] = common.SeriesID(sids[i])
	}
	if err := m.searchBlocks(context.Background(), &result, ss, parts, qo); err != nil {
		return nil, "ERR"
	}
	applyMeasureQueryOrdering(mqo, &result)
	if batch {
		// the columnar read path of measure.Query: BatchSchema as built there, then PullBatch until exhausted
		ms, _ := VMeasureSchema(sc)
		bs, err := vmeasure.BuildBatchSchema(ms, model.MeasureQueryOptions{TagProjection: mqo.TagProjection, FieldProjection: mqo.FieldProjection})
		if err != nil {
			return nil, "ERR-schema"
		}
		result.batchSchema = bs
		var out [][]VRow
		for {
			b, err := result.PullBatch(context.Background())
			if err != nil {
				return nil, "ERR"
			}
			if b == nil {
				break
			}
			var rows []VRow
			for i := 0; i < b.RowCount(); i++ {
				row := VRow{Sid: uint64(b.SeriesIDs[i]), Ts: b.Timestamps[i], Ver: b.Versions[i]}
				for k := range sc.Tags {
					var v *modelv1.TagValue
					if c, ok := b.Tags[k].(*vectorized.TypedColumn[*modelv1.TagValue]); ok && i < c.Len() {
						v = c.Data()[i]
						if c.IsNull(i) || v == nil {
							v = pbv1.NullTagValue
						}
					}
					row.Tags = append(row.Tags, v)
				}
				for k := range sc.Fields {
					var v *modelv1.FieldValue
					if c, ok := b.Fields[k].(*vectorized.TypedColumn[*modelv1.FieldValue]); ok && i < c.Len() {
						v = c.Data()[i]
						if c.IsNull(i) || v == nil {
							v = pbv1.NullFieldValue
						}
					}
					row.Fields = append(row.Fields, v)
				}
				rows = append(rows, row)
			}
			out = append(out, rows)
		}
		return out, ""
	}
	var out [][]VRow
	for {
		r := result.Pull()
		if r == nil {
			break
		}
		if r.Error != nil {
			return nil, "ERR"
		}
		var rows []VRow
		for i := range r.Timestamps {
			row := VRow{Sid: uint64(r.SID), Ts: r.Timestamps[i], Ver: r.Versions[i]}
			for _, tg := range sc.Tags {
				var v *modelv1.TagValue
				for _, tf := range r.TagFamilies {
					if tf.Name != tg.Family {
						continue
					}
					for _, tt := range tf.Tags {
						if tt.Name == tg.Name && i < len(tt.Values) {
							v = tt.Values[i]
						}
					}
				}
				row.Tags = append(row.Tags, v)
			}
			for _, fd := range sc.Fields {
				var v *modelv1.FieldValue
				for _, ff := range r.Fields {
					if ff.Name == fd.Name && i < len(ff.Values) {
						v = ff.Values[i]
					}
				}
				row.Fields = append(row.Fields, v)
			}
			rows = append(rows, row)
		}
		out = append(out, rows)
	}
	return out, ""
}

// VBatchMaxRows is the row cap of one PullBatch call.
func VBatchMaxRows() int { return mergeBatchMaxRows }

// Dump lists the parts of the current snapshot and their blocks in storage order:
// "<label><m|f>[ sid/count/min/max/checksum ...]" – read with the merge reader (partMergeIter).
func (t *VTable) Dump() string {
	snp := t.tst.currentSnapshot()
	if snp == nil {
		return "-"
	}
	defer snp.decRef()
	var sb strings.Builder
	pws := append([]*partWrapper(nil), snp.parts...)
	sort.SliceStable(pws, func(i, j int) bool { return pws[i].ID() < pws[j].ID() })
	for k, pw := range pws {
		if k > 0 {
			sb.WriteByte(' ')
		}
		lab := -1
		for i, id := range t.labels {
			if id == pw.ID() {
				lab = i
			}
		}
		kind := "f"
		if pw.mp != nil {
			kind = "m"
		}
		fmt.Fprintf(&sb, "P%d%s[", lab, kind)
		pmi := generatePartMergeIter()
		pmi.mustInitFromPart(pw.p)
		dec := generateColumnValuesDecoder()
		first := true
		for pmi.nextBlockMetadata() {
			pmi.mustLoadBlockData(dec, &pmi.block)
			b := &pmi.block
			const p = uint64(2147483647)
			var h uint64
			for i := range b.timestamps {
				h = (h*1000003 + (uint64(b.timestamps[i])%p)*7 + uint64(b.versions[i])%p) % p
			}
			if !first {
				sb.WriteByte(',')
			}
			first = false
			fmt.Fprintf(&sb, "%d/%d/%d/%d/%d", uint64(b.bm.seriesID), len(b.timestamps), b.bm.timestamps.min, b.bm.timestamps.max, h)
		}
		if err := pmi.error(); err != nil {
			sb.WriteString("ERR")
		}
		releaseColumnValuesDecoder(dec)
		releasePartMergeIter(pmi)
		sb.WriteByte(']')
	}
	if sb.Len() == 0 {
		return "-"
	}
	return sb.String()
}
