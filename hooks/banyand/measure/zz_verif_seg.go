//go:build verif

package measure

import (
	"time"

	"github.com/apache/skywalking-banyandb/api/common"
	"github.com/apache/skywalking-banyandb/banyand/protector"
	"github.com/apache/skywalking-banyandb/pkg/convert"
	"github.com/apache/skywalking-banyandb/pkg/fs"
	"github.com/apache/skywalking-banyandb/pkg/logger"
	pbv1 "github.com/apache/skywalking-banyandb/pkg/pb/v1"
	"github.com/apache/skywalking-banyandb/pkg/run"
	"github.com/apache/skywalking-banyandb/pkg/watcher"
)

// VerifSegPart describes one part of the write queue after a flusher round.
type VerifSegPart struct {
	Min   int64
	Max   int64
	Count uint64
}

func verifSegPoints(ts []int64, salt int) *dataPoints {
	dps := &dataPoints{}
	for i, t := range ts {
		// distinct series per row: measure de-duplicates (series, timestamp) versions on merge
		dps.seriesIDs = append(dps.seriesIDs, common.SeriesID(1+salt*1000+i))
		dps.timestamps = append(dps.timestamps, t)
		dps.versions = append(dps.versions, 1)
		dps.tagFamilies = append(dps.tagFamilies, []nameValues{{name: "default", values: []*nameValue{
			{name: "svc", valueType: pbv1.ValueTypeStr, value: []byte("v")},
		}}})
		dps.fields = append(dps.fields, nameValues{name: "skipped", values: []*nameValue{
			{name: "total", valueType: pbv1.ValueTypeInt64, value: convert.Int64ToBytes(int64(i))},
		}})
	}
	return dps
}

// VerifSegQueueRound: see banyand/stream/zz_verif_seg.go; the measure write queue has the same shape.
func VerifSegQueueRound(dir string, segIDs []int64, parts [][]int64) ([]VerifSegPart, error) {
	opts := option{protector: protector.Nop{}, mergePolicy: newDefaultMergePolicy(), flushTimeout: time.Second, syncInterval: time.Hour}
	tst, epoch := initTSTable(fs.NewLocalFileSystem(), dir, common.Position{}, logger.GetLogger("verif-seg"), opts, nil)
	tst.group = "verif-seg"
	tst.loopCloser = run.NewCloser(1 + 1)
	tst.introductions = make(chan *introduction)
	flushCh := make(chan *flusherIntroduction)
	mergeCh := make(chan *mergerIntroduction)
	syncCh := make(chan *syncIntroduction)
	introducerWatcher := make(watcher.Channel, 1)
	go tst.introducerLoopWithSync(flushCh, mergeCh, syncCh, introducerWatcher, epoch+1)
	defer tst.Close()
	for i := range parts {
		tst.mustAddDataPointsWithSegmentID(verifSegPoints(parts[i], i), segIDs[i], nil)
	}
	snp := tst.currentSnapshot()
	if snp != nil {
		_, err := tst.mergeMemParts(snp, mergeCh)
		snp.decRef()
		if err != nil {
			return nil, err
		}
	}
	cur := tst.currentSnapshot()
	if cur == nil {
		return nil, nil
	}
	defer cur.decRef()
	var out []VerifSegPart
	for _, pw := range cur.parts {
		pm := pw.p.partMetadata
		out = append(out, VerifSegPart{Min: pm.MinTimestamp, Max: pm.MaxTimestamp, Count: pm.TotalCount})
	}
	return out, nil
}
