//go:build verif

package measure

import (
	"time"
	
	commonv1 "github.com/apache/skywalking-banyandb/api/proto/banyandb/common/v1"
	"github.com/apache/skywalking-banyandb/banyand/internal/storage"
	"github.com/apache/skywalking-banyandb/banyand/observability"
	"github.com/apache/skywalking-banyandb/banyand/protector"
	"github.com/apache/skywalking-banyandb/pkg/logger"
)

func verifSegOption() option {
	return option{protector: protector.Nop{}, mergePolicy: newDefaultMergePolicy(), flushTimeout: time.Hour}
}

// VerifSegOpenDB runs the real supplier.OpenDB for group g on a node carrying the given labels (temp
// dir) and reads back the options the database was opened with. Used by the /verif `seg` driver (C07).
func VerifSegOpenDB(dir string, g *commonv1.Group, labels map[string]string) (si, ttl storage.IntervalRule, shard uint32, disRet, disRot bool, err error) {
	s := &supplier{l: logger.GetLogger("verif-seg"), option: verifSegOption(), omr: observability.BypassRegistry,
		pm: protector.Nop{}, path: dir, nodeLabels: labels}
	dbc, err := s.OpenDB(g)
	if err != nil {
		return si, ttl, 0, false, false, err
	}
	db := dbc.(storage.TSDB[*tsTable, option])
	defer db.Close()
	si, ttl, shard, disRet, disRot = storage.VerifOpts(db)
	return si, ttl, shard, disRet, disRot, nil
}
