//go:build verif

package db

import (
	"context"
	"fmt"
	"os"
	"path"
	"time"

	"google.golang.org/grpc/metadata"
	"google.golang.org/protobuf/encoding/protojson"

	"github.com/apache/skywalking-banyandb/api/common"
	propertyv1 "github.com/apache/skywalking-banyandb/api/proto/banyandb/property/v1"
	"github.com/apache/skywalking-banyandb/banyand/observability"
	"github.com/apache/skywalking-banyandb/pkg/fs"
	"github.com/apache/skywalking-banyandb/pkg/index/inverted"
)

// This file is injected with `go build -overlay` by the /verif C18 check; it is not part of /repo.
// It only forwards to the unexported entry points of the property shard; it contains no logic of its own.

// VerifC18Doc is one stored document (one revision of one property).
type VerifC18Doc struct {
	Property   *propertyv1.Property
	ID         string
	Timestamp  int64
	DeleteTime int64
}

// VerifC18Shard wraps one real shard of one real database.
type VerifC18Shard struct {
	db     *database
	s      *shard
	base   *repairGossipBase
	server *repairGossipServer
}

// VerifC18Open opens a real property database (bluge backed) with the repair scheduler enabled
// (cron far in the future: trees are only built when the driver asks for it).
func VerifC18Open(dir, repairDir, scope string, batchWaitSec int64) (Database, error) {
	var dbi Database
	snapshot := func(ctx context.Context) (string, error) {
		sn := fmt.Sprintf("sn-%d", time.Now().UnixNano())
		res := dbi.TakeSnapShot(ctx, sn)
		if res.Error != "" {
			return "", fmt.Errorf("snapshot: %s", res.Error)
		}
		return path.Join(repairDir, "snapshots", sn, "data"), nil
	}
	d, err := OpenDB(context.Background(), Config{
		Location:               dir,
		MetricsScopeName:       scope,
		FlushInterval:          3 * time.Second,
		ExpireToDeleteDuration: 240 * time.Hour,
		Index:                  IndexConfig{BatchWaitSec: batchWaitSec},
		Snapshot:               SnapshotConfig{Location: path.Join(repairDir, "snapshots"), Func: snapshot},
		Repair: RepairConfig{
			Enabled:            true,
			Location:           repairDir,
			BuildTreeCron:      "@every 100h",
			QuickBuildTreeTime: 100 * time.Hour,
			TreeSlotCount:      4,
		},
	}, observability.BypassRegistry, fs.NewLocalFileSystem())
	dbi = d
	return d, err
}

// VerifC18LoadShard loads (creates) shard `id` of `group`.
func VerifC18LoadShard(d Database, group string, id uint32) (*VerifC18Shard, error) {
	dd := d.(*database)
	s, err := dd.loadShard(context.Background(), group, common.ShardID(id))
	if err != nil {
		return nil, err
	}
	return &VerifC18Shard{db: dd, s: s, base: &repairGossipBase{scheduler: dd.repairScheduler},
		server: newRepairGossipServer(dd.repairScheduler)}, nil
}

func toDoc(q *queryProperty) (*VerifC18Doc, error) {
	if q == nil {
		return nil, nil
	}
	p := &propertyv1.Property{}
	if err := protojson.Unmarshal(q.source, p); err != nil {
		return nil, err
	}
	return &VerifC18Doc{Property: p, ID: string(q.id), Timestamp: q.timestamp, DeleteTime: q.deleteTime}, nil
}

// Update is shard.update.
func (v *VerifC18Shard) Update(p *propertyv1.Property) error { return v.s.update(GetPropertyID(p), p) }

// Delete is shard.deleteFromTime.
func (v *VerifC18Shard) Delete(ids [][]byte, t time.Time) error {
	return v.s.deleteFromTime(context.Background(), ids, t)
}

// Docs returns every stored document of (group, name, id) through shard.search, the way shard.repair looks them up.
func (v *VerifC18Shard) Docs(group, name, id string) ([]*VerifC18Doc, error) {
	req := &propertyv1.QueryRequest{Groups: []string{group}, Name: name}
	if id != "" {
		req.Ids = []string{id}
	}
	iq, err := inverted.BuildPropertyQuery(req, groupField, entityID)
	if err != nil {
		return nil, err
	}
	qs, err := v.s.search(context.Background(), iq, nil, 10000)
	if err != nil {
		return nil, err
	}
	out := make([]*VerifC18Doc, 0, len(qs))
	for _, q := range qs {
		d, derr := toDoc(q)
		if derr != nil {
			return nil, derr
		}
		out = append(out, d)
	}
	return out, nil
}

// Repair is shard.repair.
func (v *VerifC18Shard) Repair(id []byte, p *propertyv1.Property, deleteTime int64) (bool, *VerifC18Doc, error) {
	updated, newer, err := v.s.repair(context.Background(), id, p, deleteTime)
	if err != nil {
		return false, nil, err
	}
	d, derr := toDoc(newer)
	return updated, d, derr
}

// Latest is repairGossipBase.queryProperty: what a gossip participant sends for the leaf `group/name/id`.
func (v *VerifC18Shard) Latest(group, name, id string) (*VerifC18Doc, error) {
	q, _, err := v.base.queryProperty(context.Background(), v.s, v.s.repairState.buildLeafNodeEntity(group, name, id))
	if err != nil {
		return nil, err
	}
	return toDoc(q)
}

type verifC18Stream struct {
	sent []*propertyv1.RepairResponse
}

func (s *verifC18Stream) Recv() (*propertyv1.RepairRequest, error) { return nil, fmt.Errorf("no recv") }
func (s *verifC18Stream) Send(r *propertyv1.RepairResponse) error {
	s.sent = append(s.sent, r)
	return nil
}
func (s *verifC18Stream) SetHeader(metadata.MD) error  { return nil }
func (s *verifC18Stream) SendHeader(metadata.MD) error { return nil }
func (s *verifC18Stream) SetTrailer(metadata.MD)       {}
func (s *verifC18Stream) Context() context.Context     { return context.Background() }
func (s *verifC18Stream) SendMsg(any) error            { return nil }
func (s *verifC18Stream) RecvMsg(any) error            { return fmt.Errorf("no recv") }

// ServerSync is repairGossipServer.processPropertySync on this shard: the server side of one gossip
// PropertySync message. It returns whether the server shard was updated and what the server sent back.
func (v *VerifC18Shard) ServerSync(sync *propertyv1.PropertySync, group string) (bool, []*propertyv1.PropertySyncWithFrom) {
	st := &verifC18Stream{}
	updated := v.server.processPropertySync(context.Background(), v.s, sync, st, group)
	var back []*propertyv1.PropertySyncWithFrom
	for _, r := range st.sent {
		if ps := r.GetPropertySync(); ps != nil {
			back = append(back, ps)
		}
	}
	return updated, back
}

// ServerMissing is repairGossipServer.processPropertyMissing.
func (v *VerifC18Shard) ServerMissing(group, name, id string) []*propertyv1.PropertySyncWithFrom {
	st := &verifC18Stream{}
	v.server.processPropertyMissing(context.Background(), v.s,
		&propertyv1.PropertyMissing{Entity: v.s.repairState.buildLeafNodeEntity(group, name, id)}, st)
	var back []*propertyv1.PropertySyncWithFrom
	for _, r := range st.sent {
		if ps := r.GetPropertySync(); ps != nil {
			back = append(back, ps)
		}
	}
	return back
}

// ClientRepair is what repairGossipClient.Rev does with a PropertySync received from the server
// (executeRepairWithBudget on the client's shard).
func (v *VerifC18Shard) ClientRepair(sync *propertyv1.PropertySync, group string) (bool, *VerifC18Doc, error) {
	updated, newer, err := v.base.executeRepairWithBudget(context.Background(), v.s, sync.Id, sync.Property, sync.DeleteTime, group)
	if err != nil {
		return false, nil, err
	}
	d, derr := toDoc(newer)
	return updated, d, derr
}

// LeafRoundTrip is repair.buildLeafNodeEntity followed by repair.parseLeafNodeEntity (the Merkle leaf name of a
// property and its inverse, used by both gossip sides to load the property of a differing leaf).
func (v *VerifC18Shard) LeafRoundTrip(group, name, id string) (entity, g, n, i string, err error) {
	entity = v.s.repairState.buildLeafNodeEntity(group, name, id)
	g, n, i, err = v.s.repairState.parseLeafNodeEntity(entity)
	return
}

// TreeRoot snapshots the shard, rebuilds its Merkle state tree (repair.buildStatus) and returns the root
// hash plus the leaves (entity, sha). Empty root when the shard has no documents.
func (v *VerifC18Shard) TreeRoot(tmp string) (string, [][2]string, error) {
	_ = os.RemoveAll(tmp)
	if err := os.MkdirAll(tmp, 0o755); err != nil {
		return "", nil, err
	}
	defer os.RemoveAll(tmp)
	if err := v.s.store.TakeFileSnapshot(tmp); err != nil {
		return "", nil, err
	}
	if err := v.s.repairState.buildStatus(context.Background(), tmp); err != nil {
		return "", nil, err
	}
	reader, err := v.s.repairState.treeReader()
	if err != nil {
		return "", nil, err
	}
	if reader == nil {
		return "", nil, nil
	}
	defer reader.close()
	roots, err := reader.read(nil, 1, false)
	if err != nil || len(roots) == 0 {
		return "", nil, err
	}
	root := roots[0]
	var leaves [][2]string
	slots, err := reader.read(root, 1<<20, false)
	if err != nil {
		return "", nil, err
	}
	for _, slot := range slots {
		ls, lerr := reader.read(slot, 1<<20, false)
		if lerr != nil {
			return "", nil, lerr
		}
		for _, l := range ls {
			leaves = append(leaves, [2]string{l.entity, l.shaValue})
		}
	}
	return root.shaValue, leaves, nil
}
