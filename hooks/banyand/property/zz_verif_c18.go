//go:build verif

package property

import (
	"github.com/apache/skywalking-banyandb/api/data"
	"github.com/apache/skywalking-banyandb/banyand/property/db"
	"github.com/apache/skywalking-banyandb/pkg/bus"
	"github.com/apache/skywalking-banyandb/pkg/logger"
)

// This file is injected with `go build -overlay` by the /verif C18 check; it is not part of /repo.

// VerifC18Listeners builds the data-node message listeners of the property service (listener.go) around an
// already opened database, exactly as service.PreRun subscribes them to the queue server.
func VerifC18Listeners(d db.Database, nodeID string) map[bus.Topic]bus.MessageListener {
	s := &service{db: d, l: logger.GetLogger("property"), nodeID: nodeID, maxDiskUsagePercent: 100}
	return map[bus.Topic]bus.MessageListener{
		data.TopicPropertyUpdate: &updateListener{s: s, l: s.l, path: "/", maxDiskUsagePercent: s.maxDiskUsagePercent},
		data.TopicPropertyDelete: &deleteListener{s: s},
		data.TopicPropertyQuery:  &queryListener{s: s},
		data.TopicPropertyRepair: &repairListener{s: s},
	}
}
