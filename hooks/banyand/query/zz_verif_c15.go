//go:build verif

// Exports for the /verif C15 driver (injected with `go build -overlay`; not part of /repo).
package query

import (
	"context"
	"fmt"

	commonv1 "github.com/apache/skywalking-banyandb/api/proto/banyandb/common/v1"
	"github.com/apache/skywalking-banyandb/banyand/measure"
	"github.com/apache/skywalking-banyandb/banyand/stream"
	vstream "github.com/apache/skywalking-banyandb/pkg/query/vectorized/stream"
	"github.com/apache/skywalking-banyandb/pkg/bus"
	"github.com/apache/skywalking-banyandb/pkg/logger"
)

// verifC15MeasureService is a measure.Service whose only live method is Measure: the lookup the query
// processors perform. Every other method of the (nil) embedded interface is unreachable from Rev.
type verifC15MeasureService struct {
	measure.Service
	lookup func(group, name string) (measure.Measure, error)
}

func (s *verifC15MeasureService) Measure(md *commonv1.Metadata) (measure.Measure, error) {
	return s.lookup(md.GetGroup(), md.GetName())
}

// VerifC15Processors are the real standalone/data-node measure query processors over a lookup function.
type VerifC15Processors struct {
	mqp  *measureQueryProcessor
	imqp *measureInternalQueryProcessor
}

// VerifC15NewProcessors builds the processors exactly as NewService does, without a pipeline.
func VerifC15NewProcessors(nodeID string, lookup func(group, name string) (measure.Measure, error)) *VerifC15Processors {
	svc := &queryService{nodeID: nodeID, log: logger.GetLogger(moduleName)}
	ms := &verifC15MeasureService{lookup: lookup}
	return &VerifC15Processors{
		mqp:  &measureQueryProcessor{measureService: ms, queryService: svc},
		imqp: &measureInternalQueryProcessor{measureService: ms, queryService: svc},
	}
}

// Query is measureQueryProcessor.Rev (TopicMeasureQuery).
func (p *VerifC15Processors) Query(ctx context.Context, msg bus.Message) bus.Message {
	return p.mqp.Rev(ctx, msg)
}

// InternalQuery is measureInternalQueryProcessor.Rev (TopicInternalMeasureQuery, data node side).
func (p *VerifC15Processors) InternalQuery(ctx context.Context, msg bus.Message) bus.Message {
	return p.imqp.Rev(ctx, msg)
}

var _ = fmt.Sprintf

// verifC15StreamService serves the two calls streamQueryProcessor.Rev makes on its stream service.
type verifC15StreamService struct {
	stream.Service
	lookup func() stream.Stream
}

func (s *verifC15StreamService) Stream(_ *commonv1.Metadata) (stream.Stream, error) { return s.lookup(), nil }

func (s *verifC15StreamService) VectorizedConfig() vstream.VectorizedConfig {
	return s.lookup().VectorizedConfig()
}

// VerifC15StreamProcessor is the real standalone stream query processor over one stream resource.
type VerifC15StreamProcessor struct{ sqp *streamQueryProcessor }

// VerifC15NewStreamProcessor builds it as NewService does (standalone: distributed=false).
func VerifC15NewStreamProcessor(lookup func() stream.Stream) *VerifC15StreamProcessor {
	svc := &queryService{nodeID: "n0", log: logger.GetLogger(moduleName)}
	return &VerifC15StreamProcessor{sqp: &streamQueryProcessor{streamService: &verifC15StreamService{lookup: lookup}, queryService: svc}}
}

// Query is streamQueryProcessor.Rev (TopicStreamQuery).
func (p *VerifC15StreamProcessor) Query(ctx context.Context, msg bus.Message) bus.Message {
	return p.sqp.Rev(ctx, msg)
}
