//go:build verif

package pub

import (
	clusterv1 "github.com/apache/skywalking-banyandb/api/proto/banyandb/cluster/v1"
	"github.com/apache/skywalking-banyandb/banyand/queue"
	"github.com/apache/skywalking-banyandb/pkg/logger"
	"google.golang.org/grpc"
)

// VerifC17StreamPartsAsChunks runs the sender's real chunking loop (chunkedSyncClient.streamPartsAsChunks)
// against the given client stream. It is injected with `go build -overlay`; it is not part of /repo.
func VerifC17StreamPartsAsChunks(stream clusterv1.ChunkedSyncService_SyncPartClient, sessionID string,
	metadata *clusterv1.SyncMetadata, parts []queue.StreamingPartData, chunkSize uint32,
) (totalChunks uint32, failed []queue.FailedPart, bytesSent uint64, err error) {
	c := &chunkedSyncClient{log: logger.GetLogger("verif-c17-pub"), chunkSize: chunkSize}
	totalChunks, failed, err = c.streamPartsAsChunks(stream, sessionID, metadata, parts, &bytesSent)
	return
}

// VerifC17NewChunkedSyncClient builds the real chunked sync client on an existing connection
// (what pub.NewChunkedSyncClient does after looking the node up).
func VerifC17NewChunkedSyncClient(conn *grpc.ClientConn, chunkSize uint32) queue.ChunkedSyncClient {
	return &chunkedSyncClient{conn: conn, log: logger.GetLogger("verif-c17-pub"), chunkSize: chunkSize, node: "verif"}
}
