//go:build verif

package sub

import (
	"time"

	clusterv1 "github.com/apache/skywalking-banyandb/api/proto/banyandb/cluster/v1"
	"github.com/apache/skywalking-banyandb/banyand/queue"
	"github.com/apache/skywalking-banyandb/pkg/bus"
	"github.com/apache/skywalking-banyandb/pkg/logger"
)

// VerifC17NewServer builds the queue server exactly as NewServerWithPorts does as far as the chunked-sync
// receiver is concerned (handler table + chunk ordering configuration), without ports, TLS or metrics, so
// that the /verif C17 driver can call the real SyncPart handler with an in-memory stream.
// It is injected with `go build -overlay`; it is not part of /repo.
func VerifC17NewServer(reorder bool, maxBuf, maxGap uint32, handlers map[bus.Topic]queue.ChunkedSyncHandler) clusterv1.ChunkedSyncServiceServer {
	s := &server{
		listeners:             make(map[bus.Topic][]bus.MessageListener),
		topicMap:              make(map[string]bus.Topic),
		chunkedSyncHandlers:   make(map[bus.Topic]queue.ChunkedSyncHandler),
		log:                   logger.GetLogger("verif-c17-sub"),
		enableChunkReordering: reorder,
		maxChunkBufferSize:    maxBuf,
		maxChunkGapSize:       maxGap,
		// buffer timeouts are wall-clock driven and outside C17 (see checks/C17.design.md)
		chunkBufferTimeout: time.Hour,
	}
	for t, h := range handlers {
		s.RegisterChunkedSyncHandler(t, h)
	}
	return s
}

// VerifC17Defaults returns the chunk ordering defaults of NewServerWithPorts (reorder, maxBuf, maxGap).
func VerifC17Defaults() (bool, uint32, uint32) {
	s := NewServerWithPorts(nil, "", 0, 0).(*server)
	return s.enableChunkReordering, s.maxChunkBufferSize, s.maxChunkGapSize
}
