//go:build verif

// Exports for the /verif C04 driver, stream-table stream (crash recovery of the stream tsTable; the element index
// — bluge — is not initialised). Injected with `go build -tags verif -overlay`; not part of /repo.
// Only the scheduling of the background loops is replaced: the real introducerLoop goroutine runs, and the real
// initTSTable, mustAddElements, tst.flush are called in the order a history dictates. Merges are not driven.
package stream

import (
	"fmt"
	"os"
	"strings"
	"time"

	"github.com/apache/skywalking-banyandb/api/common"
	"github.com/apache/skywalking-banyandb/banyand/protector"
	"github.com/apache/skywalking-banyandb/pkg/convert"
	"github.com/apache/skywalking-banyandb/pkg/fs"
	"github.com/apache/skywalking-banyandb/pkg/logger"
	pbv1 "github.com/apache/skywalking-banyandb/pkg/pb/v1"
	"github.com/apache/skywalking-banyandb/pkg/run"
	"github.com/apache/skywalking-banyandb/pkg/watcher"
)

// VS04 is a stream tsTable driven synchronously.
type VS04 struct {
	tst     *tsTable
	flushCh chan *flusherIntroduction
	mergeCh chan *mergerIntroduction
	Root    string
	Epoch   uint64
	Fresh   bool
}

// VS04Open runs the real initTSTable on root (without the element index).
func VS04Open(root string, freshEpoch uint64) *VS04 {
	lfs := fs.NewLocalFileSystem()
	l := logger.GetLogger("verif-c04-stream")
	opt := option{protector: protector.Nop{}, mergePolicy: newDefaultMergePolicy()}
	tst, epoch, err := initTSTable(lfs, root, common.Position{}, l, opt, nil, false)
	if err != nil {
		panic(err)
	}
	v := &VS04{tst: tst, Root: root, Epoch: epoch}
	if tst.snapshot == nil {
		v.Fresh = true
		v.Epoch = freshEpoch
	}
	return v
}

// Start starts the real introducer loop (and nothing else).
func (v *VS04) Start() {
	tst := v.tst
	tst.loopCloser = run.NewCloser(1 + 1)
	tst.introductions = make(chan *introduction)
	v.flushCh = make(chan *flusherIntroduction)
	v.mergeCh = make(chan *mergerIntroduction)
	introducerWatcher := make(watcher.Channel, 1)
	go tst.introducerLoop(v.flushCh, v.mergeCh, introducerWatcher, v.Epoch+1)
}

// Close stops the loop and closes the table.
func (v *VS04) Close() { _ = v.tst.Close() }

// Batch ingests batch b: two elements with timestamp b.
func (v *VS04) Batch(b int) {
	es := &elements{}
	for j := 0; j < 2; j++ {
		es.seriesIDs = append(es.seriesIDs, common.SeriesID(1+j))
		es.timestamps = append(es.timestamps, int64(b))
		es.elementIDs = append(es.elementIDs, uint64(b*10+j))
		es.tagFamilies = append(es.tagFamilies, []tagValues{{
			tag: "tf1", values: []*tagValue{
				{tag: "strTag", valueType: pbv1.ValueTypeStr, value: []byte(fmt.Sprintf("batch-%d", b))},
				{tag: "intTag", valueType: pbv1.ValueTypeInt64, value: convert.Int64ToBytes(int64(b))},
			},
		}})
	}
	v.tst.mustAddElements(es)
}

// Flush is the flusher loop body: flush every memory part of the current snapshot.
func (v *VS04) Flush() bool {
	cur := v.tst.currentSnapshot()
	if cur == nil {
		return false
	}
	defer cur.decRef()
	v.tst.flush(cur, v.flushCh)
	return true
}

// Dump: "epoch=<hex> parts=<id>:<m|f>:<batch>;... sidx=- sidxdirs=" (same format as the trace table's).
func (v *VS04) Dump() string {
	var ps []string
	ep := "-"
	cur := v.tst.currentSnapshot()
	if cur != nil {
		ep = fmt.Sprintf("%x", cur.epoch)
		for _, pw := range cur.parts {
			kind := "f"
			var pm *partMetadata
			if pw.mp != nil {
				kind = "m"
				pm = &pw.mp.partMetadata
			} else {
				pm = &pw.p.partMetadata
			}
			bs := fmt.Sprintf("%d-%d", pm.MinTimestamp, pm.MaxTimestamp)
			if pm.TotalCount != uint64(2*(pm.MaxTimestamp-pm.MinTimestamp+1)) {
				bs += "!"
			}
			ps = append(ps, fmt.Sprintf("%x:%s:%s", pw.ID(), kind, bs))
		}
		cur.decRef()
	}
	return fmt.Sprintf("epoch=%s parts=%s sidx=- sidxdirs=", ep, strings.Join(ps, ";"))
}

// MergeAll is not driven for the stream table.
func (v *VS04) MergeAll() bool { return false }

// WaitGone has nothing to wait for without merges.
func (v *VS04) WaitGone() bool { return true }

// WaitClean waits until at most one manifest is left (gc.clean of the introducer ran).
func (v *VS04) WaitClean() bool {
	for i := 0; i < 50000; i++ {
		ee, err := os.ReadDir(v.Root)
		if err != nil {
			return false
		}
		n := 0
		for _, e := range ee {
			if !e.IsDir() && strings.HasSuffix(e.Name(), snapshotSuffix) {
				n++
			}
		}
		if n <= 1 {
			return true
		}
		time.Sleep(200 * time.Microsecond)
	}
	return false
}
