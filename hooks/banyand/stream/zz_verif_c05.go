//go:build verif

// Export hook for the /verif C05 driver: ONE real stream tsTable without background loops. The driver goroutine plays
// the introducer (real introducePart / introduceFlushed / introduceMerged); the real write path
// (mustAddElementsWithSegmentID) and the real flusher body (mergeMemParts for every segment id of the flush window, then
// flush) run in a helper goroutine and hand over through the real channels.
package stream

import (
	"context"
	"fmt"
	"os"
	"path/filepath"
	"sort"
	"strings"
	"sync/atomic"

	"github.com/apache/skywalking-banyandb/api/common"
	"github.com/apache/skywalking-banyandb/banyand/internal/storage"
	"github.com/apache/skywalking-banyandb/banyand/protector"
	"github.com/apache/skywalking-banyandb/pkg/fs"
	"github.com/apache/skywalking-banyandb/pkg/logger"
	pbv1 "github.com/apache/skywalking-banyandb/pkg/pb/v1"
	"github.com/apache/skywalking-banyandb/pkg/run"
	"github.com/apache/skywalking-banyandb/pkg/timestamp"
)

// vc05Segment exposes the two shard tables of the harness to getBlockScanner (the real query entry).
type vc05Segment struct {
	tables  []*tsTable
	decRefs int32
}

func (s *vc05Segment) DecRef()                           { atomic.AddInt32(&s.decRefs, 1) }
func (s *vc05Segment) GetTimeRange() timestamp.TimeRange { return timestamp.TimeRange{} }
func (s *vc05Segment) IndexDB() storage.IndexDB          { return nil }
func (s *vc05Segment) Location() string                  { return "" }
func (s *vc05Segment) SeriesIndexStats() (int64, int64)  { return 0, 0 }
func (s *vc05Segment) Tables() ([]*tsTable, []storage.Cache) {
	return s.tables, make([]storage.Cache, len(s.tables))
}

func (s *vc05Segment) TablesWithShardIDs() ([]*tsTable, []common.ShardID, []storage.Cache) {
	ids := make([]common.ShardID, len(s.tables))
	for i := range ids {
		ids[i] = common.ShardID(i)
	}
	return s.tables, ids, make([]storage.Cache, len(s.tables))
}

func (s *vc05Segment) CreateTSTableIfNotExist(common.ShardID) (*tsTable, error) { return nil, nil }

func (s *vc05Segment) Lookup(context.Context, []*pbv1.Series) (pbv1.SeriesList, error) {
	return nil, nil
}

// VC05Stream is one stream table under test.
type VC05Stream struct {
	tst     *tsTable
	tstB    *tsTable // second shard of the same segment: mem parts only, written by WriteB
	flushCh chan *flusherIntroduction
	mergeCh chan *mergerIntroduction
	held    map[int]*snapshot
	epoch   uint64
	nBatch  int
	closed  bool
}

// VC05StreamNew opens an empty table rooted at root.
func VC05StreamNew(root string) *VC05Stream {
	_ = logger.Init(logger.Logging{Env: "prod", Level: "error"})
	open := func(dir string) (*tsTable, uint64) {
		if err := os.MkdirAll(dir, 0o755); err != nil {
			panic(err)
		}
		t, epoch, err := initTSTable(fs.NewLocalFileSystem(), dir, common.Position{}, logger.GetLogger("verif-c05-stream"),
			option{mergePolicy: newDefaultMergePolicyForTesting(), protector: protector.Nop{}}, nil, false)
		if err != nil {
			panic(err)
		}
		t.loopCloser = run.NewCloser(1)
		t.introductions = make(chan *introduction)
		return t, epoch
	}
	tst, epoch := open(filepath.Join(root, "a"))
	tstB, _ := open(filepath.Join(root, "b"))
	return &VC05Stream{tst: tst, tstB: tstB, epoch: epoch + 1, flushCh: make(chan *flusherIntroduction), mergeCh: make(chan *mergerIntroduction),
		held: map[int]*snapshot{}}
}

func (v *VC05Stream) serve(producer func()) {
	done := make(chan any, 1)
	go func() {
		defer func() { done <- recover() }()
		producer()
	}()
	for {
		select {
		case ind := <-v.tst.introductions:
			v.tst.introducePart(ind, v.epoch)
			v.epoch++
		case ind := <-v.flushCh:
			v.tst.introduceFlushed(ind, v.epoch)
			v.tst.gc.clean()
			v.epoch++
		case ind := <-v.mergeCh:
			v.tst.introduceMerged(ind, v.epoch)
			v.tst.gc.clean()
			v.epoch++
		case r := <-done:
			if r != nil {
				panic(fmt.Sprintf("producer: %v", r))
			}
			return
		}
	}
}

// Closed reports whether Close has run.
func (v *VC05Stream) Closed() bool { return v.closed }

// Write adds one batch (2 elements) into segment seg, as the liaison write queue does.
func (v *VC05Stream) Write(seg int64) {
	v.nBatch++
	es := vc05Elements(int64(v.nBatch))
	v.serve(func() { v.tst.mustAddElementsWithSegmentID(es, seg, nil) })
}

func vc05Elements(n int64) *elements {
	return &elements{
		seriesIDs:  []common.SeriesID{1, 2},
		timestamps: []int64{n * 10, n*10 + 1},
		elementIDs: []uint64{uint64(n) * 10, uint64(n)*10 + 1},
		tagFamilies: [][]tagValues{
			{{tag: "tf", values: []*tagValue{{tag: "t", valueType: pbv1.ValueTypeStr, value: []byte("v")}}}},
			{{tag: "tf", values: []*tagValue{{tag: "t", valueType: pbv1.ValueTypeStr, value: []byte("v")}}}},
		},
	}
}

// WriteB adds one batch to the second shard (its own introducer is played inline).
func (v *VC05Stream) WriteB() {
	v.nBatch++
	es := vc05Elements(int64(v.nBatch))
	done := make(chan any, 1)
	go func() {
		defer func() { done <- recover() }()
		v.tstB.mustAddElements(es)
	}()
	for {
		select {
		case ind := <-v.tstB.introductions:
			v.tstB.introducePart(ind, v.epoch)
			v.epoch++
		case r := <-done:
			if r != nil {
				panic(fmt.Sprintf("producer: %v", r))
			}
			return
		}
	}
}

// Query runs the real stream query entry getBlockScanner over both shards for timestamps [lo, hi]. With early=false
// every block is scanned before close; with early=true the scanner is closed right away. Returns "blocks/elements".
func (v *VC05Stream) Query(lo, hi int64, early bool) string {
	seg := &vc05Segment{tables: []*tsTable{v.tst, v.tstB}}
	qo := queryOptions{minTimestamp: lo, maxTimestamp: hi, sortedSids: []common.SeriesID{1, 2}}
	bsn, err := getBlockScanner(context.Background(), seg, qo, logger.GetLogger("verif-c05-stream"), protector.Nop{}, nil)
	if err != nil {
		return "ERR"
	}
	if bsn == nil {
		return "0/0"
	}
	blocks, elems := 0, uint64(0)
	if !early {
		for len(bsn.parts) > 0 {
			ch := make(chan *blockScanResultBatch, 256)
			bsn.scan(context.Background(), ch)
			close(ch)
			for b := range ch {
				if b.err != nil {
					bsn.close()
					return "ERR"
				}
				for i := range b.bss {
					blocks++
					elems += b.bss[i].bm.count
				}
				releaseBlockScanResultBatch(b)
			}
		}
	}
	bsn.close()
	return fmt.Sprintf("%d/%d", blocks, elems)
}

// FlusherStep is one round of flusherLoop for a write-queue table: pin the current snapshot, mergeMemParts (one merge
// per segment id that has >= 2 mem parts), unpin; then flush whatever mem parts the new current snapshot still has.
func (v *VC05Stream) FlusherStep() {
	s := v.tst.currentSnapshot()
	if s == nil {
		return
	}
	var mergeErr error
	v.serve(func() { _, mergeErr = v.tst.mergeMemParts(s, v.mergeCh) })
	s.decRef()
	if mergeErr != nil {
		panic(fmt.Sprintf("mergeMemParts: %v", mergeErr))
	}
	s2 := v.tst.currentSnapshot()
	if s2 == nil {
		return
	}
	v.serve(func() { v.tst.flush(s2, v.flushCh) })
	s2.decRef()
}

// Acquire pins the current snapshot as holder k.
func (v *VC05Stream) Acquire(k int) bool {
	if _, ok := v.held[k]; ok {
		return false
	}
	s := v.tst.currentSnapshot()
	if s == nil {
		return false
	}
	v.held[k] = s
	return true
}

// Release drops holder k.
func (v *VC05Stream) Release(k int) bool {
	s, ok := v.held[k]
	if !ok {
		return false
	}
	delete(v.held, k)
	s.decRef()
	return true
}

// Close closes the table.
func (v *VC05Stream) Close() {
	v.closed = true
	_ = v.tst.Close()
	_ = v.tstB.Close()
}

func vc05List(s *snapshot) string {
	var b []string
	for _, pw := range s.parts {
		k := "f"
		if pw.mp != nil {
			k = "m"
		}
		b = append(b, fmt.Sprintf("%d%s*%d", pw.ID(), k, pw.p.partMetadata.TotalCount))
	}
	return "[" + strings.Join(b, ",") + "]"
}

func vc05Refs(s *snapshot, pfx string, out *[]string) {
	if s == nil {
		return
	}
	for _, pw := range s.parts {
		k := "f"
		if pw.mp != nil {
			k = "m"
		}
		*out = append(*out, fmt.Sprintf("%s%d%s:%d", pfx, pw.ID(), k, atomic.LoadInt32(&pw.ref)))
	}
}

// Dump renders: C=<ref>:[<id><kind>*<elements>,…] N=<elements held by the current snapshot's parts> H=k:[…];…
// B=<ref>:[…] (second shard) NB=<its elements> W=<part>:<ref>,… (parts of the two current snapshots)
func (v *VC05Stream) Dump() string {
	var sb strings.Builder
	one := func(t *tsTable, c, n string) {
		cur := t.snapshot
		if cur == nil {
			fmt.Fprintf(&sb, "%s=- %s=0", c, n)
			return
		}
		var total uint64
		for _, pw := range cur.parts {
			total += pw.p.partMetadata.TotalCount
		}
		fmt.Fprintf(&sb, "%s=%d:%s %s=%d", c, atomic.LoadInt32(&cur.ref), vc05List(cur), n, total)
	}
	one(v.tst, "C", "N")
	keys := make([]int, 0, len(v.held))
	for k := range v.held {
		keys = append(keys, k)
	}
	sort.Ints(keys)
	var hl []string
	for _, k := range keys {
		hl = append(hl, fmt.Sprintf("%d:%s", k, vc05List(v.held[k])))
	}
	sb.WriteString(" H=" + strings.Join(hl, ";") + " ")
	one(v.tstB, "B", "NB")
	var wl []string
	vc05Refs(v.tst.snapshot, "a", &wl)
	vc05Refs(v.tstB.snapshot, "b", &wl)
	sb.WriteString(" W=" + strings.Join(wl, ","))
	return sb.String()
}

// Shutdown releases everything.
func (v *VC05Stream) Shutdown() {
	for k := range v.held {
		v.Release(k)
	}
	if !v.closed {
		v.Close()
	}
}
