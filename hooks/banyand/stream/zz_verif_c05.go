//go:build verif

// Export hook for the /verif C05 driver: ONE real stream tsTable without background loops. The driver goroutine plays
// the introducer (real introducePart / introduceFlushed / introduceMerged); the real write path
// (mustAddElementsWithSegmentID) and the real flusher body (mergeMemParts for every segment id of the flush window, then
// flush) run in a helper goroutine and hand over through the real channels.
package stream

import (
	"fmt"
	"sort"
	"strings"
	"sync/atomic"

	"github.com/apache/skywalking-banyandb/api/common"
	"github.com/apache/skywalking-banyandb/banyand/protector"
	"github.com/apache/skywalking-banyandb/pkg/fs"
	"github.com/apache/skywalking-banyandb/pkg/logger"
	pbv1 "github.com/apache/skywalking-banyandb/pkg/pb/v1"
	"github.com/apache/skywalking-banyandb/pkg/run"
)

// VC05Stream is one stream table under test.
type VC05Stream struct {
	tst     *tsTable
	flushCh chan *flusherIntroduction
	mergeCh chan *mergerIntroduction
	held    map[int]*snapshot
	epoch   uint64
	nBatch  int
	closed  bool
}

// VC05StreamNew opens an empty table rooted at root.
func VC05StreamNew(root string) *VC05Stream {
	_ = logger.Init(logger.Logging{Env: "prod", Level: "error"})
	tst, epoch, err := initTSTable(fs.NewLocalFileSystem(), root, common.Position{}, logger.GetLogger("verif-c05-stream"),
		option{mergePolicy: newDefaultMergePolicyForTesting(), protector: protector.Nop{}}, nil, false)
	if err != nil {
		panic(err)
	}
	tst.loopCloser = run.NewCloser(1)
	tst.introductions = make(chan *introduction)
	return &VC05Stream{tst: tst, epoch: epoch + 1, flushCh: make(chan *flusherIntroduction), mergeCh: make(chan *mergerIntroduction),
		held: map[int]*snapshot{}}
}

func (v *VC05Stream) serve(producer func()) {
	done := make(chan any, 1)
	go func() {
		defer func() { done <- recover() }()
		producer()
	}()
	for {
		select {
		case ind := <-v.tst.introductions:
			v.tst.introducePart(ind, v.epoch)
			v.epoch++
		case ind := <-v.flushCh:
			v.tst.introduceFlushed(ind, v.epoch)
			v.tst.gc.clean()
			v.epoch++
		case ind := <-v.mergeCh:
			v.tst.introduceMerged(ind, v.epoch)
			v.tst.gc.clean()
			v.epoch++
		case r := <-done:
			if r != nil {
				panic(fmt.Sprintf("producer: %v", r))
			}
			return
		}
	}
}

// Closed reports whether Close has run.
func (v *VC05Stream) Closed() bool { return v.closed }

// Write adds one batch (2 elements) into segment seg, as the liaison write queue does.
func (v *VC05Stream) Write(seg int64) {
	v.nBatch++
	n := int64(v.nBatch)
	es := &elements{
		seriesIDs:  []common.SeriesID{1, 2},
		timestamps: []int64{n * 10, n*10 + 1},
		elementIDs: []uint64{uint64(n) * 10, uint64(n)*10 + 1},
		tagFamilies: [][]tagValues{
			{{tag: "tf", values: []*tagValue{{tag: "t", valueType: pbv1.ValueTypeStr, value: []byte("v")}}}},
			{{tag: "tf", values: []*tagValue{{tag: "t", valueType: pbv1.ValueTypeStr, value: []byte("v")}}}},
		},
	}
	v.serve(func() { v.tst.mustAddElementsWithSegmentID(es, seg, nil) })
}

// FlusherStep is one round of flusherLoop for a write-queue table: pin the current snapshot, mergeMemParts (one merge
// per segment id that has >= 2 mem parts), unpin; then flush whatever mem parts the new current snapshot still has.
func (v *VC05Stream) FlusherStep() {
	s := v.tst.currentSnapshot()
	if s == nil {
		return
	}
	var mergeErr error
	v.serve(func() { _, mergeErr = v.tst.mergeMemParts(s, v.mergeCh) })
	s.decRef()
	if mergeErr != nil {
		panic(fmt.Sprintf("mergeMemParts: %v", mergeErr))
	}
	s2 := v.tst.currentSnapshot()
	if s2 == nil {
		return
	}
	v.serve(func() { v.tst.flush(s2, v.flushCh) })
	s2.decRef()
}

// Acquire pins the current snapshot as holder k.
func (v *VC05Stream) Acquire(k int) bool {
	if _, ok := v.held[k]; ok {
		return false
	}
	s := v.tst.currentSnapshot()
	if s == nil {
		return false
	}
	v.held[k] = s
	return true
}

// Release drops holder k.
func (v *VC05Stream) Release(k int) bool {
	s, ok := v.held[k]
	if !ok {
		return false
	}
	delete(v.held, k)
	s.decRef()
	return true
}

// Close closes the table.
func (v *VC05Stream) Close() {
	v.closed = true
	_ = v.tst.Close()
}

func vc05List(s *snapshot) string {
	var b []string
	for _, pw := range s.parts {
		k := "f"
		if pw.mp != nil {
			k = "m"
		}
		b = append(b, fmt.Sprintf("%d%s*%d", pw.ID(), k, pw.p.partMetadata.TotalCount))
	}
	return "[" + strings.Join(b, ",") + "]"
}

// Dump renders: C=<ref>:[<id><kind>*<elements>,…] N=<elements held by the current snapshot's parts> H=k:[…];…
func (v *VC05Stream) Dump() string {
	var sb strings.Builder
	cur := v.tst.snapshot
	if cur == nil {
		sb.WriteString("C=- N=0")
	} else {
		var total uint64
		for _, pw := range cur.parts {
			total += pw.p.partMetadata.TotalCount
		}
		fmt.Fprintf(&sb, "C=%d:%s N=%d", atomic.LoadInt32(&cur.ref), vc05List(cur), total)
	}
	keys := make([]int, 0, len(v.held))
	for k := range v.held {
		keys = append(keys, k)
	}
	sort.Ints(keys)
	var hl []string
	for _, k := range keys {
		hl = append(hl, fmt.Sprintf("%d:%s", k, vc05List(v.held[k])))
	}
	sb.WriteString(" H=" + strings.Join(hl, ";"))
	return sb.String()
}

// Shutdown releases everything.
func (v *VC05Stream) Shutdown() {
	for k := range v.held {
		v.Release(k)
	}
	if !v.closed {
		v.Close()
	}
}
