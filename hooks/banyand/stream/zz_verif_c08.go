//go:build verif

// Exports for the /verif C08 driver (injected with `go build -overlay`; not part of /repo).
package stream

import (
	"context"

	"github.com/apache/skywalking-banyandb/api/common"
	databasev1 "github.com/apache/skywalking-banyandb/api/proto/banyandb/database/v1"
	modelv1 "github.com/apache/skywalking-banyandb/api/proto/banyandb/model/v1"
	"github.com/apache/skywalking-banyandb/pkg/compress/zstd"
	"github.com/apache/skywalking-banyandb/pkg/filter"
	"github.com/apache/skywalking-banyandb/pkg/fs"
	"github.com/apache/skywalking-banyandb/pkg/index"
	"github.com/apache/skywalking-banyandb/pkg/index/inverted"
	pbv1 "github.com/apache/skywalking-banyandb/pkg/pb/v1"
)

// VerifTag is one tag of a row as the write path sees it (family, spec type, wire value, skipping-indexed flag).
type VerifTag struct {
	Value   *modelv1.TagValue
	Family  string
	Name    string
	Type    databasev1.TagType
	Indexed bool
}

// VerifRow is one element.
type VerifRow struct {
	Tags      []VerifTag
	SeriesID  uint64
	Ts        int64
	ElementID uint64
}

// VerifBlock is one block returned by the real partIter.
type VerifBlock struct {
	SeriesID uint64
	MinTs    int64
	MaxTs    int64
	Count    uint64
}

func verifElements(rows []VerifRow) *elements {
	es := generateElements()
	for i := range rows {
		r := &rows[i]
		es.seriesIDs = append(es.seriesIDs, common.SeriesID(r.SeriesID))
		es.timestamps = append(es.timestamps, r.Ts)
		es.elementIDs = append(es.elementIDs, r.ElementID)
		var fams []tagValues
		for _, t := range r.Tags {
			var tf *tagValues
			for k := range fams {
				if fams[k].tag == t.Family {
					tf = &fams[k]
				}
			}
			if tf == nil {
				fams = append(fams, tagValues{tag: t.Family})
				tf = &fams[len(fams)-1]
			}
			tv := encodeTagValue(t.Name, t.Type, t.Value)
			// mirror of processElements: `indexed` only for a skipping rule and a value that is not the NullTagValue singleton
			tv.indexed = t.Indexed && t.Value != pbv1.NullTagValue
			tf.values = append(tf.values, tv)
		}
		es.tagFamilies = append(es.tagFamilies, fams)
	}
	return es
}

// VerifScanPart writes rows through the real memPart writer and iterates the part with the real partIter
// (series list, time bounds, skipping filter), returning the blocks that survive pruning.
func VerifScanPart(rows []VerifRow, sids []uint64, minTs, maxTs int64, blockFilter index.Filter) (res []VerifBlock, err error) {
	es := verifElements(rows)
	defer releaseElements(es)
	mp := generateMemPart()
	defer releaseMemPart(mp)
	mp.mustInitFromElements(es)
	p := openMemPart(mp)
	ss := make([]common.SeriesID, len(sids))
	for i := range sids {
		ss[i] = common.SeriesID(sids[i])
	}
	bma := generateBlockMetadataArray()
	defer releaseBlockMetadataArray(bma)
	var pi partIter
	pi.init(bma, p, ss, minTs, maxTs, blockFilter)
	for pi.nextBlock() {
		bm := pi.curBlock
		res = append(res, VerifBlock{SeriesID: uint64(bm.seriesID), MinTs: bm.timestamps.min, MaxTs: bm.timestamps.max, Count: bm.count})
	}
	return res, pi.error()
}

// VerifEachSummary writes rows through the real writer and calls fn for every (block, tag) summary that the read
// path reconstructs (tagFamilyFilters.unmarshal): kind none|bloom|dict, min/max, and the filter's own probes.
func VerifEachSummary(rows []VerifRow, fn func(sid uint64, lo, hi int64, tag, kind string, mn, mx []byte,
	mc func([]byte) bool, ca func([][]byte) bool),
) error {
	es := verifElements(rows)
	defer releaseElements(es)
	mp := generateMemPart()
	defer releaseMemPart(mp)
	mp.mustInitFromElements(es)
	p := openMemPart(mp)
	for i := range p.primaryBlockMetadata {
		pbm := &p.primaryBlockMetadata[i]
		var pi partIter
		pi.p = p
		bms, rerr := pi.readPrimaryBlockAll(pbm)
		if rerr != nil {
			return rerr
		}
		for j := range bms {
			bm := &bms[j]
			tfs := generateTagFamilyFilters()
			tfs.unmarshal(bm.tagFamilies, p.tagFamilyMetadata, p.tagFamilyFilter, p.tagFamilies)
			for _, tff := range tfs.tagFamilyFilters {
				for name, tf := range *tff {
					kind := "none"
					mc := func([]byte) bool { return true }
					ca := func([][]byte) bool { return true }
					switch f := tf.filter.(type) {
					case *filter.BloomFilter:
						kind = "bloom"
						mc, ca = f.MightContain, f.ContainsAll
					case *filter.DictionaryFilter:
						kind = "dict"
						mc, ca = f.MightContain, f.ContainsAll
					}
					fn(uint64(bm.seriesID), bm.timestamps.min, bm.timestamps.max, name, kind, tf.min, tf.max, mc, ca)
				}
			}
			releaseTagFamilyFilters(tfs)
		}
	}
	return nil
}

func (pi *partIter) readPrimaryBlockAll(mr *primaryBlockMetadata) ([]blockMetadata, error) {
	// unfiltered variant of readPrimaryBlock: blocks of every series
	buf := make([]byte, int(mr.size))
	fs.MustReadData(pi.p.primary, int64(mr.offset), buf)
	raw, err := zstd.Decompress(nil, buf)
	if err != nil {
		return nil, err
	}
	return unmarshalBlockMetadata(nil, raw)
}

// VerifTagFilter builds the read-side per-tag summary object directly (function-level tie of
// tagFamilyFilters.Eq/Range/Having and of the compiled filters' ShouldSkip).
type VerifTagFilter struct {
	Bloom *filter.BloomFilter
	Dict  *filter.DictionaryFilter
	Name  string
	Min   []byte
	Max   []byte
}

// VerifFilterOp assembles a real *tagFamilyFilters (one family) from explicit summaries.
func VerifFilterOp(tfl []VerifTagFilter) index.FilterOp {
	tff := tagFamilyFilter{}
	for _, t := range tfl {
		tf := &tagFilter{min: t.Min, max: t.Max}
		switch {
		case t.Bloom != nil:
			tf.filter = t.Bloom
		case t.Dict != nil:
			tf.filter = t.Dict
		}
		tff[t.Name] = tf
	}
	return &tagFamilyFilters{tagFamilyFilters: []*tagFamilyFilter{&tff}}
}

// VerifBloomRoundTrip runs the stream encode/decode of a bloom filter.
func VerifBloomRoundTrip(bf *filter.BloomFilter) *filter.BloomFilter {
	buf := encodeBloomFilter(nil, bf)
	return decodeBloomFilter(buf, filter.NewBloomFilter(0))
}

// VerifIndex is a real element index (bluge) in a scratch directory.
type VerifIndex struct{ ei *elementIndex }

// VerifNewIndex opens a real inverted element index at dir.
func VerifNewIndex(dir string) (*VerifIndex, error) {
	ei, err := newElementIndex(context.Background(), dir, 0, nil)
	if err != nil {
		return nil, err
	}
	return &VerifIndex{ei: ei}, nil
}

// VerifAppendField is the write path's tag → index field conversion.
func VerifAppendField(dest []index.Field, key index.FieldKey, tagType databasev1.TagType, tv *modelv1.TagValue, noSort bool) []index.Field {
	return appendField(dest, key, tagType, tv, noSort)
}

// Write indexes documents.
func (v *VerifIndex) Write(docs index.Documents) error { return v.ei.Write(docs) }

// Search runs the production elementIndex.Search.
func (v *VerifIndex) Search(series []uint64, f index.Filter) ([]uint64, error) {
	pl, _, err := v.ei.Search(context.Background(), series, f, nil)
	if err != nil {
		return nil, err
	}
	if pl == nil {
		return nil, nil
	}
	return pl.ToSlice(), nil
}

// Close closes the index.
func (v *VerifIndex) Close() error { return v.ei.Close() }

var _ = inverted.ExternalSegmentTempDirName
