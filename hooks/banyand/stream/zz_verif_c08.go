//go:build verif

// Exports for the /verif C08 driver (injected with `go build -overlay`; not part of /repo).
package stream

import (
	"context"
	"math"
	"time"

	"github.com/apache/skywalking-banyandb/api/common"
	commonv1 "github.com/apache/skywalking-banyandb/api/proto/banyandb/common/v1"
	"github.com/apache/skywalking-banyandb/banyand/internal/storage"
	"github.com/apache/skywalking-banyandb/banyand/protector"
	"github.com/apache/skywalking-banyandb/pkg/logger"
	"github.com/apache/skywalking-banyandb/pkg/query/model"
	"github.com/apache/skywalking-banyandb/pkg/timestamp"
	databasev1 "github.com/apache/skywalking-banyandb/api/proto/banyandb/database/v1"
	modelv1 "github.com/apache/skywalking-banyandb/api/proto/banyandb/model/v1"
	"github.com/apache/skywalking-banyandb/pkg/compress/zstd"
	"github.com/apache/skywalking-banyandb/pkg/filter"
	"github.com/apache/skywalking-banyandb/pkg/fs"
	"github.com/apache/skywalking-banyandb/pkg/index"
	"github.com/apache/skywalking-banyandb/pkg/index/inverted"
	pbv1 "github.com/apache/skywalking-banyandb/pkg/pb/v1"
)

// VerifTag is one tag of a row as the write path sees it (family, spec type, wire value, skipping-indexed flag).
type VerifTag struct {
	Value   *modelv1.TagValue
	Family  string
	Name    string
	Type    databasev1.TagType
	Indexed bool
}

// VerifRow is one element.
type VerifRow struct {
	Tags      []VerifTag
	SeriesID  uint64
	Ts        int64
	ElementID uint64
}

// VerifBlock is one block returned by the real partIter.
type VerifBlock struct {
	SeriesID uint64
	MinTs    int64
	MaxTs    int64
	Count    uint64
}

func verifElements(rows []VerifRow) *elements {
	es := generateElements()
	for i := range rows {
		r := &rows[i]
		es.seriesIDs = append(es.seriesIDs, common.SeriesID(r.SeriesID))
		es.timestamps = append(es.timestamps, r.Ts)
		es.elementIDs = append(es.elementIDs, r.ElementID)
		var fams []tagValues
		for _, t := range r.Tags {
			var tf *tagValues
			for k := range fams {
				if fams[k].tag == t.Family {
					tf = &fams[k]
				}
			}
			if tf == nil {
				fams = append(fams, tagValues{tag: t.Family})
				tf = &fams[len(fams)-1]
			}
			tv := encodeTagValue(t.Name, t.Type, t.Value)
			// mirror of processElements: `indexed` only for a skipping rule and a value that is not the NullTagValue singleton
			tv.indexed = t.Indexed && t.Value != pbv1.NullTagValue
			tf.values = append(tf.values, tv)
		}
		es.tagFamilies = append(es.tagFamilies, fams)
	}
	return es
}

// VerifScanPart writes rows through the real memPart writer and iterates the part with the real partIter
// (series list, time bounds, skipping filter), returning the blocks that survive pruning.
func VerifScanPart(rows []VerifRow, sids []uint64, minTs, maxTs int64, blockFilter index.Filter) (res []VerifBlock, err error) {
	es := verifElements(rows)
	defer releaseElements(es)
	mp := generateMemPart()
	defer releaseMemPart(mp)
	mp.mustInitFromElements(es)
	p := openMemPart(mp)
	ss := make([]common.SeriesID, len(sids))
	for i := range sids {
		ss[i] = common.SeriesID(sids[i])
	}
	bma := generateBlockMetadataArray()
	defer releaseBlockMetadataArray(bma)
	var pi partIter
	pi.init(bma, p, ss, minTs, maxTs, blockFilter)
	for pi.nextBlock() {
		bm := pi.curBlock
		res = append(res, VerifBlock{SeriesID: uint64(bm.seriesID), MinTs: bm.timestamps.min, MaxTs: bm.timestamps.max, Count: bm.count})
	}
	return res, pi.error()
}

// VerifEachSummary writes rows through the real writer and calls fn for every (block, tag) summary that the read
// path reconstructs (tagFamilyFilters.unmarshal): kind none|bloom|dict, min/max, and the filter's own probes.
func VerifEachSummary(rows []VerifRow, fn func(sid uint64, lo, hi int64, tag, kind string, mn, mx []byte,
	mc func([]byte) bool, ca func([][]byte) bool),
) error {
	es := verifElements(rows)
	defer releaseElements(es)
	mp := generateMemPart()
	defer releaseMemPart(mp)
	mp.mustInitFromElements(es)
	p := openMemPart(mp)
	for i := range p.primaryBlockMetadata {
		pbm := &p.primaryBlockMetadata[i]
		var pi partIter
		pi.p = p
		bms, rerr := pi.readPrimaryBlockAll(pbm)
		if rerr != nil {
			return rerr
		}
		for j := range bms {
			bm := &bms[j]
			tfs := generateTagFamilyFilters()
			tfs.unmarshal(bm.tagFamilies, p.tagFamilyMetadata, p.tagFamilyFilter, p.tagFamilies)
			for _, tff := range tfs.tagFamilyFilters {
				for name, tf := range *tff {
					kind := "none"
					mc := func([]byte) bool { return true }
					ca := func([][]byte) bool { return true }
					switch f := tf.filter.(type) {
					case *filter.BloomFilter:
						kind = "bloom"
						mc, ca = f.MightContain, f.ContainsAll
					case *filter.DictionaryFilter:
						kind = "dict"
						mc, ca = f.MightContain, f.ContainsAll
					}
					fn(uint64(bm.seriesID), bm.timestamps.min, bm.timestamps.max, name, kind, tf.min, tf.max, mc, ca)
				}
			}
			releaseTagFamilyFilters(tfs)
		}
	}
	return nil
}

func (pi *partIter) readPrimaryBlockAll(mr *primaryBlockMetadata) ([]blockMetadata, error) {
	// unfiltered variant of readPrimaryBlock: blocks of every series
	buf := make([]byte, int(mr.size))
	fs.MustReadData(pi.p.primary, int64(mr.offset), buf)
	raw, err := zstd.Decompress(nil, buf)
	if err != nil {
		return nil, err
	}
	return unmarshalBlockMetadata(nil, raw)
}

// VerifTagFilter builds the read-side per-tag summary object directly (function-level tie of
// tagFamilyFilters.Eq/Range/Having and of the compiled filters' ShouldSkip).
type VerifTagFilter struct {
	Bloom *filter.BloomFilter
	Dict  *filter.DictionaryFilter
	Name  string
	Min   []byte
	Max   []byte
}

// VerifFilterOp assembles a real *tagFamilyFilters (one family) from explicit summaries.
func VerifFilterOp(tfl []VerifTagFilter) index.FilterOp {
	tff := tagFamilyFilter{}
	for _, t := range tfl {
		tf := &tagFilter{min: t.Min, max: t.Max}
		switch {
		case t.Bloom != nil:
			tf.filter = t.Bloom
		case t.Dict != nil:
			tf.filter = t.Dict
		}
		tff[t.Name] = tf
	}
	return &tagFamilyFilters{tagFamilyFilters: []*tagFamilyFilter{&tff}}
}

// VerifBloomRoundTrip runs the stream encode/decode of a bloom filter.
func VerifBloomRoundTrip(bf *filter.BloomFilter) *filter.BloomFilter {
	buf := encodeBloomFilter(nil, bf)
	return decodeBloomFilter(buf, filter.NewBloomFilter(0))
}

// VerifIndex is a real element index (bluge) in a scratch directory.
type VerifIndex struct{ ei *elementIndex }

// VerifNewIndex opens a real inverted element index at dir.
func VerifNewIndex(dir string) (*VerifIndex, error) {
	ei, err := newElementIndex(context.Background(), dir, 0, nil)
	if err != nil {
		return nil, err
	}
	return &VerifIndex{ei: ei}, nil
}

// VerifAppendField is the write path's tag → index field conversion.
func VerifAppendField(dest []index.Field, key index.FieldKey, tagType databasev1.TagType, tv *modelv1.TagValue, noSort bool) []index.Field {
	return appendField(dest, key, tagType, tv, noSort)
}

// Write indexes documents.
func (v *VerifIndex) Write(docs index.Documents) error { return v.ei.Write(docs) }

// Search runs the production elementIndex.Search.
func (v *VerifIndex) Search(series []uint64, f index.Filter) ([]uint64, error) {
	pl, _, err := v.ei.Search(context.Background(), series, f, nil)
	if err != nil {
		return nil, err
	}
	if pl == nil {
		return nil, nil
	}
	return pl.ToSlice(), nil
}

// Close closes the index.
func (v *VerifIndex) Close() error { return v.ei.Close() }

var _ = inverted.ExternalSegmentTempDirName

// VerifE2ERow is one element of the end-to-end run: entity value (series), timestamp, tags.
type VerifE2ERow struct {
	Entity string
	Row    VerifRow
	// Fields are the inverted-index fields of the element (built by the caller with VerifAppendField).
	Fields func(sid common.SeriesID) []index.Field
}

// VerifE2E writes the batches (one mustAddElements call = one part each) into a real TSDB / tsTable / element index
// in dir, then runs the production stream.Query with the given inverted and skipping filters over all series and
// the time range, and returns the element ids it yields.
func VerifE2E(dir, name string, schema *databasev1.Stream, batches [][]VerifE2ERow, start, end time.Time,
	inverted, skipping index.Filter, projection []model.TagProjection,
) (ids []uint64, err error) {
	ir := storage.IntervalRule{Unit: storage.DAY, Num: 1}
	opts := storage.TSDBOpts[*tsTable, option]{
		ShardNum:        1,
		Location:        dir,
		TSTableCreator:  newTSTable,
		SegmentInterval: ir,
		TTL:             storage.IntervalRule{Unit: storage.DAY, Num: 3},
		Option:          option{mergePolicy: newDefaultMergePolicyForTesting(), protector: protector.Nop{}},
	}
	db, err := storage.OpenTSDB(
		common.SetPosition(context.Background(), func(p common.Position) common.Position {
			p.Module = "stream"
			p.Database = "verif"
			return p
		}), opts, nil, "g")
	if err != nil {
		return nil, err
	}
	defer db.Close()

	entities := [][]*modelv1.TagValue{}
	sidOf := map[string]common.SeriesID{}
	var seriesDocs index.Documents
	for _, b := range batches {
		for _, r := range b {
			if _, ok := sidOf[r.Entity]; ok {
				continue
			}
			entity := []*modelv1.TagValue{{Value: &modelv1.TagValue_Str{Str: &modelv1.Str{Value: r.Entity}}}}
			series := &pbv1.Series{Subject: name, EntityValues: entity}
			if err = series.Marshal(); err != nil {
				return nil, err
			}
			sidOf[r.Entity] = series.ID
			entities = append(entities, entity)
			seriesDocs = append(seriesDocs, index.Document{DocID: uint64(series.ID), EntityValues: series.Buffer})
		}
	}
	if len(batches) == 0 || len(batches[0]) == 0 {
		return nil, nil
	}
	seg, err := db.CreateSegmentIfNotExist(time.Unix(0, batches[0][0].Row.Ts))
	if err != nil {
		return nil, err
	}
	if err = seg.IndexDB().Insert(seriesDocs); err != nil {
		return nil, err
	}
	tst, err := seg.CreateTSTableIfNotExist(common.ShardID(0))
	if err != nil {
		return nil, err
	}
	var docs index.Documents
	for _, b := range batches {
		rows := make([]VerifRow, 0, len(b))
		for _, r := range b {
			x := r.Row
			x.SeriesID = uint64(sidOf[r.Entity])
			rows = append(rows, x)
			docs = append(docs, index.Document{DocID: x.ElementID, Timestamp: x.Ts, Fields: r.Fields(sidOf[r.Entity])})
		}
		es := verifElements(rows)
		tst.mustAddElements(es)
	}
	if err = tst.Index().Write(docs); err != nil {
		return nil, err
	}
	seg.DecRef()
	time.Sleep(100 * time.Millisecond)

	st := &stream{schema: schema}
	st.tsdb.Store(db)
	st.l = logger.GetLogger("verif-c08")
	st.pm = protector.Nop{}
	st.name, st.group = name, "g"
	st.schema.Metadata = &commonv1.Metadata{Name: name, Group: "g"}
	var is indexSchema
	is.parse(st.schema)
	st.indexSchema.Store(is)
	tr := timestamp.NewInclusiveTimeRange(start, end)
	sqo := model.StreamQueryOptions{
		Name: name, TimeRange: &tr, Entities: entities, InvertedFilter: inverted, SkippingFilter: skipping,
		TagProjection: projection, MaxElementSize: math.MaxInt32,
	}
	ctx := context.Background()
	res, err := st.Query(ctx, sqo)
	if err != nil {
		return nil, err
	}
	if res == nil {
		return nil, nil
	}
	defer res.Release()
	// like BuildElementsFromStreamResult: an empty batch is not the end, only a nil result is
	for n := 0; n < 100000; n++ {
		r := res.Pull(ctx)
		if r == nil {
			break
		}
		if r.Error != nil {
			return nil, r.Error
		}
		ids = append(ids, r.ElementIDs...)
	}
	return ids, nil
}
