//go:build verif

package stream

import (
	"context"
	"fmt"

	"github.com/apache/skywalking-banyandb/api/common"
	databasev1 "github.com/apache/skywalking-banyandb/api/proto/banyandb/database/v1"
	modelv1 "github.com/apache/skywalking-banyandb/api/proto/banyandb/model/v1"
	"github.com/apache/skywalking-banyandb/banyand/protector"
	"github.com/apache/skywalking-banyandb/pkg/index"
	"github.com/apache/skywalking-banyandb/pkg/logger"
	pbv1 "github.com/apache/skywalking-banyandb/pkg/pb/v1"
	"github.com/apache/skywalking-banyandb/pkg/query/model"
)

// VerifC09Disjoint runs getDisjointParts on parts that only carry the given [min,max] time ranges (part ID = index+1)
// and returns the groups as lists of part IDs.
func VerifC09Disjoint(ranges [][2]int64, asc bool) [][]uint64 {
	ps := make([]*part, 0, len(ranges))
	for i, r := range ranges {
		p := &part{}
		p.partMetadata.ID = uint64(i + 1)
		p.partMetadata.MinTimestamp = r[0]
		p.partMetadata.MaxTimestamp = r[1]
		ps = append(ps, p)
	}
	var out [][]uint64
	for _, g := range getDisjointParts(ps, asc) {
		var ids []uint64
		for _, p := range g {
			ids = append(ids, p.partMetadata.ID)
		}
		out = append(out, ids)
	}
	return out
}

// VerifC09Elem is one generated stream element.
type VerifC09Elem struct {
	Sid uint64
	Ts  int64
}

// VerifC09TSQuery builds one real mem part per input slice (mustInitFromElements), groups them with getDisjointParts and
// drains the real time-ordered result (tsResult.Pull -> blockScanner -> blockCursorHeap.merge) exactly as the engine wires
// them for one segment. Returns the timestamps of all pulled pages in order.
func VerifC09TSQuery(parts [][]VerifC09Elem, sids []uint64, minTS, maxTS int64, asc bool, maxElementSize int) ([]int64, error) {
	var ps []*part
	nextID := uint64(0)
	for pi, rows := range parts {
		es := &elements{}
		for _, r := range rows {
			nextID++
			es.seriesIDs = append(es.seriesIDs, common.SeriesID(r.Sid))
			es.timestamps = append(es.timestamps, r.Ts)
			es.elementIDs = append(es.elementIDs, nextID)
			es.tagFamilies = append(es.tagFamilies, []tagValues{{
				tag: "singleTag", values: []*tagValue{
					{tag: "strTag", valueType: pbv1.ValueTypeStr, value: []byte("v"), valueArr: nil},
				},
			}})
		}
		mp := generateMemPart()
		mp.mustInitFromElements(es)
		p := openMemPart(mp)
		p.partMetadata.ID = uint64(pi + 1)
		ps = append(ps, p)
	}
	qo := queryOptions{
		StreamQueryOptions: model.StreamQueryOptions{
			TagProjection:  []model.TagProjection{{Family: "singleTag", Names: []string{"strTag"}}},
			MaxElementSize: maxElementSize,
		},
		minTimestamp:   minTS,
		maxTimestamp:   maxTS,
		seriesToEntity: map[common.SeriesID][]*modelv1.TagValue{},
	}
	for _, s := range sids {
		qo.sortedSids = append(qo.sortedSids, common.SeriesID(s))
		qo.seriesToEntity[common.SeriesID(s)] = nil
	}
	var sel []*part
	for _, p := range ps {
		if p.partMetadata.MaxTimestamp < minTS || p.partMetadata.MinTimestamp > maxTS {
			continue
		}
		sel = append(sel, p)
	}
	if len(sel) == 0 {
		return nil, nil
	}
	sm := &stream{}
	var is indexSchema
	sm.indexSchema.Store(is)
	l := logger.GetLogger("verif-c09")
	res := &tsResult{
		sm: sm,
		pm: protector.Nop{},
		l:  l,
		ts: &blockScanner{parts: getDisjointParts(sel, asc), qo: qo, asc: asc, pm: protector.Nop{}, l: l},
		qo: qo, asc: asc,
	}
	var got []int64
	for {
		r := res.Pull(context.Background())
		if r == nil {
			break
		}
		if r.Error != nil {
			return nil, fmt.Errorf("pull: %w", r.Error)
		}
		got = append(got, r.Timestamps...)
	}
	return got, nil
}

// VerifC09IdxElem is one stored element; VerifC09IdxDoc one entry of the ordered index iterator.
type VerifC09IdxElem struct {
	Sid, ID uint64
	Ts      int64
}

type verifC09SliceIter struct {
	docs []*index.DocumentResult
	i    int
}

func (s *verifC09SliceIter) Next() bool {
	if s.i >= len(s.docs) {
		return false
	}
	s.i++
	return true
}
func (s *verifC09SliceIter) Val() *index.DocumentResult { return s.docs[s.i-1] }
func (s *verifC09SliceIter) Close() error               { return nil }

// VerifC09IdxQuery runs the real index-ordered stream result (idxResult.Pull: loadSortingData -> scanParts -> load ->
// mergeByTagValue) over a tsTable whose snapshot holds one real mem part per input slice; the ordered index is the given
// iterator (element ids in sort-key order, with the timestamp/series the index stores). Returns the element ids of every
// pulled page, pages separated by 0.
func VerifC09IdxQuery(parts [][]VerifC09IdxElem, iter []VerifC09IdxElem, maxElementSize int) ([]uint64, error) {
	snp := &snapshot{ref: 1}
	for pi, rows := range parts {
		es := &elements{}
		for _, r := range rows {
			es.seriesIDs = append(es.seriesIDs, common.SeriesID(r.Sid))
			es.timestamps = append(es.timestamps, r.Ts)
			es.elementIDs = append(es.elementIDs, r.ID)
			es.tagFamilies = append(es.tagFamilies, []tagValues{{
				tag: "singleTag", values: []*tagValue{
					{tag: "strTag", valueType: pbv1.ValueTypeStr, value: []byte("v"), valueArr: nil},
				},
			}})
		}
		mp := generateMemPart()
		mp.mustInitFromElements(es)
		p := openMemPart(mp)
		p.partMetadata.ID = uint64(pi + 1)
		snp.parts = append(snp.parts, newPartWrapper(mp, p))
	}
	tst := &tsTable{snapshot: snp}
	sm := &stream{schema: &databasev1.Stream{Entity: &databasev1.Entity{TagNames: []string{"svc"}}}}
	sm.indexSchema.Store(indexSchema{})
	it := &verifC09SliceIter{}
	for _, d := range iter {
		it.docs = append(it.docs, &index.DocumentResult{DocID: d.ID, SeriesID: common.SeriesID(d.Sid), Timestamp: d.Ts, SortedValue: []byte{1}})
	}
	qr := &idxResult{pm: protector.Nop{}, sm: sm, tabs: []*tsTable{tst}, asc: true, sortingIter: it}
	qr.qo.MaxElementSize = maxElementSize
	qr.qo.TagProjection = []model.TagProjection{{Family: "singleTag", Names: []string{"strTag"}}}
	qr.qo.schemaTagTypes = map[string]pbv1.ValueType{"strTag": pbv1.ValueTypeStr}
	var got []uint64
	for {
		r := qr.Pull(context.Background())
		if r == nil {
			break
		}
		if r.Error != nil {
			return nil, fmt.Errorf("pull: %w", r.Error)
		}
		got = append(got, r.ElementIDs...)
		got = append(got, 0)
	}
	qr.releaseParts()
	return got, nil
}
