//go:build verif

// Export for the /verif C11 driver (injected with -overlay; not part of /repo).
package stream

import (
	databasev1 "github.com/apache/skywalking-banyandb/api/proto/banyandb/database/v1"
	modelv1 "github.com/apache/skywalking-banyandb/api/proto/banyandb/model/v1"
)

// VerifC11TagRoundTrip runs this engine's own write-path encoding of one tag value
// (encodeTagValue + marshal) and its query-path decoding (mustDecodeTagValue) on the stored bytes.
// A nil result of marshal (null value) is handed to the decoder as nil.
func VerifC11TagRoundTrip(tagType databasev1.TagType, tv *modelv1.TagValue) ([]byte, *modelv1.TagValue) {
	e := encodeTagValue("t", tagType, tv)
	vt := e.valueType
	raw := e.marshal()
	if raw != nil {
		raw = append([]byte{}, raw...)
	}
	releaseTagValue(e)
	// decode a private copy: pkg/encoding.UnmarshalVarArray unescapes in place
	var in []byte
	if raw != nil {
		in = append([]byte{}, raw...)
	}
	return raw, mustDecodeTagValue(vt, in)
}
