//go:build verif

// Export hooks for the /verif C14 "engine holders" stream: a real stream TSDB with a few daily
// segments of real data, the real stream.Query entry point and the real chunked-sync part handler
// (syncCallback.CreatePartHandler / syncPartContext.Close). Only calls into the package; the fixture
// mirrors query_vectorized_test.go buildVecTestStream / writeVecFixture.
package stream

import (
	"context"
	"errors"
	"fmt"
	"io"
	"strconv"
	"sync/atomic"
	"time"

	"github.com/apache/skywalking-banyandb/api/common"
	commonv1 "github.com/apache/skywalking-banyandb/api/proto/banyandb/common/v1"
	databasev1 "github.com/apache/skywalking-banyandb/api/proto/banyandb/database/v1"
	modelv1 "github.com/apache/skywalking-banyandb/api/proto/banyandb/model/v1"
	"github.com/apache/skywalking-banyandb/banyand/metadata/schema"
	"github.com/apache/skywalking-banyandb/banyand/internal/storage"
	"github.com/apache/skywalking-banyandb/banyand/protector"
	"github.com/apache/skywalking-banyandb/banyand/queue"
	"github.com/apache/skywalking-banyandb/pkg/convert"
	"github.com/apache/skywalking-banyandb/pkg/fs"
	"github.com/apache/skywalking-banyandb/pkg/index"
	"github.com/apache/skywalking-banyandb/pkg/logger"
	pbv1 "github.com/apache/skywalking-banyandb/pkg/pb/v1"
	"github.com/apache/skywalking-banyandb/pkg/query/model"
	vstream "github.com/apache/skywalking-banyandb/pkg/query/vectorized/stream"
	resourceSchema "github.com/apache/skywalking-banyandb/pkg/schema"
	"github.com/apache/skywalking-banyandb/pkg/timestamp"
)

const (
	verifC14Group  = "test"
	verifC14Series = 3
	verifC14Stamps = 4
)

// VerifC14Engine is a stream engine instance over one TSDB.
type VerifC14Engine struct {
	s        *stream
	db       storage.TSDB[*tsTable, option]
	ctl      *storage.VerifC14[*tsTable, option]
	segs     []*storage.VerifC14Seg[*tsTable, option]
	cb       *syncCallback
	failOpen atomic.Bool
	base     time.Time
	k        int
}

type verifC14Grp struct{ db io.Closer }

func (g *verifC14Grp) GetSchema() *commonv1.Group { return nil }
func (g *verifC14Grp) SupplyTSDB() io.Closer      { return g.db }

type verifC14Repo struct{ groups map[string]resourceSchema.Group }

func (f *verifC14Repo) Watcher()                                         {}
func (f *verifC14Repo) Init(_ schema.Kind) ([]string, []int64)           { return nil, nil }
func (f *verifC14Repo) SendMetadataEvent(_ resourceSchema.MetadataEvent) {}
func (f *verifC14Repo) LoadGroup(name string) (resourceSchema.Group, bool) {
	g, ok := f.groups[name]
	return g, ok
}
func (f *verifC14Repo) LoadAllGroups() []resourceSchema.Group { return nil }
func (f *verifC14Repo) LatestModRevision() int64              { return 0 }
func (f *verifC14Repo) LoadResource(_ *commonv1.Metadata) (resourceSchema.Resource, bool) {
	return nil, false
}
func (f *verifC14Repo) LoadAllResources(_ string) []resourceSchema.Resource { return nil }
func (f *verifC14Repo) LoadAllIndexRules(_ string) []*databasev1.IndexRule  { return nil }
func (f *verifC14Repo) IndexRules(_ resourceSchema.ResourceSchema) []*databasev1.IndexRule {
	return nil
}
func (f *verifC14Repo) Close()                   {}
func (f *verifC14Repo) StopCh() <-chan struct{}  { return nil }
func (f *verifC14Repo) DropGroup(_ string) error { return nil }

func verifC14Str(v string) *modelv1.TagValue {
	return &modelv1.TagValue{Value: &modelv1.TagValue_Str{Str: &modelv1.Str{Value: v}}}
}

// NewVerifC14Engine opens a stream TSDB under dir with k daily segments starting at base and writes
// verifC14Series series x verifC14Stamps elements into each.
func NewVerifC14Engine(dir string, base time.Time, k int) (*VerifC14Engine, error) {
	e := &VerifC14Engine{base: base, k: k}
	opts := storage.TSDBOpts[*tsTable, option]{
		ShardNum: 1,
		Location: dir,
		TSTableCreator: func(fileSystem fs.FileSystem, root string, p common.Position, l *logger.Logger,
			tr timestamp.TimeRange, opt option, m any,
		) (*tsTable, error) {
			if e.failOpen.Load() {
				return nil, errors.New("injected table open failure")
			}
			return newTSTable(fileSystem, root, p, l, tr, opt, m)
		},
		SegmentInterval: storage.IntervalRule{Unit: storage.DAY, Num: 1},
		TTL:             storage.IntervalRule{Unit: storage.DAY, Num: 3650},
		Option:          option{mergePolicy: newDefaultMergePolicyForTesting(), protector: protector.Nop{}},
	}
	db, err := storage.OpenTSDB(common.SetPosition(context.Background(), func(p common.Position) common.Position {
		p.Module = "stream"
		p.Database = "benchmark"
		return p
	}), opts, nil, verifC14Group)
	if err != nil {
		return nil, err
	}
	e.db = db
	for d := 0; d < k; d++ {
		if err := e.fill(d); err != nil {
			return nil, err
		}
	}
	entity := &databasev1.Entity{TagNames: []string{"entity-tag"}}
	sch := &databasev1.Stream{
		Metadata: &commonv1.Metadata{Name: "benchmark", Group: verifC14Group},
		Entity:   entity,
		TagFamilies: []*databasev1.TagFamilySpec{{
			Name: "benchmark-family",
			Tags: []*databasev1.TagSpec{
				{Name: "entity-tag", Type: databasev1.TagType_TAG_TYPE_STRING},
				{Name: "filter-tag", Type: databasev1.TagType_TAG_TYPE_STRING},
			},
		}},
	}
	s := &stream{schema: sch, l: logger.GetLogger("verif-c14-stream"), pm: protector.Nop{}, vectorized: vstream.DefaultConfig()}
	s.name, s.group = "benchmark", verifC14Group
	var is indexSchema
	is.parse(sch)
	s.indexSchema.Store(is)
	s.tsdb.Store(db)
	e.s = s
	e.ctl = storage.NewVerifC14(db)
	e.segs = e.ctl.List()
	if len(e.segs) != k {
		return nil, fmt.Errorf("expected %d segments, got %d", k, len(e.segs))
	}
	e.cb = &syncCallback{l: logger.GetLogger("verif-c14-stream"), schemaRepo: &schemaRepo{
		Repository: &verifC14Repo{groups: map[string]resourceSchema.Group{verifC14Group: &verifC14Grp{db: db}}},
		l:          logger.GetLogger("verif-c14-stream"),
	}}
	// the first Tick with a given timestamp pins every segment asynchronously in the rotation
	// goroutine; issue it now and wait it out, later Ticks with the same timestamp are ignored
	db.Tick(e.tickTS())
	e.settle()
	return e, nil
}

func (e *VerifC14Engine) tickTS() int64 { return e.base.Add(time.Duration(e.k)*24*time.Hour - 12*time.Hour).UnixNano() }

func (e *VerifC14Engine) settle() {
	for i := 0; i < 200; i++ {
		time.Sleep(5 * time.Millisecond)
		if e.ctl.RotationBusy() {
			continue
		}
		quiet := true
		for _, s := range e.segs {
			if rc, _, _, _ := s.State(); rc != 0 {
				quiet = false
			}
		}
		if quiet && i >= 10 {
			return
		}
	}
}

func (e *VerifC14Engine) day(d int) time.Time { return e.base.Add(time.Duration(d) * 24 * time.Hour) }

func (e *VerifC14Engine) fill(d int) error {
	seg, err := e.db.CreateSegmentIfNotExist(e.day(d).Add(6 * time.Hour))
	if err != nil {
		return err
	}
	defer seg.DecRef()
	var docs index.Documents
	sid := make([]common.SeriesID, verifC14Series+1)
	for i := 1; i <= verifC14Series; i++ {
		series := &pbv1.Series{Subject: "benchmark", EntityValues: []*modelv1.TagValue{verifC14Str("entity" + strconv.Itoa(i))}}
		if err := series.Marshal(); err != nil {
			return err
		}
		sid[i] = series.ID
		docs = append(docs, index.Document{DocID: uint64(series.ID), EntityValues: series.Buffer})
	}
	if err := seg.IndexDB().Insert(docs); err != nil {
		return err
	}
	tst, err := seg.CreateTSTableIfNotExist(common.ShardID(0))
	if err != nil {
		return err
	}
	es := &elements{}
	var idocs index.Documents
	for j := 1; j <= verifC14Stamps; j++ {
		ts := e.day(d).Add(6*time.Hour + time.Duration(j)*time.Second).UnixNano()
		for k := 1; k <= verifC14Series; k++ {
			es.seriesIDs = append(es.seriesIDs, sid[k])
			es.elementIDs = append(es.elementIDs, convert.HashStr(strconv.Itoa(k)+"-"+strconv.Itoa(d)+"-"+strconv.Itoa(j)))
			es.timestamps = append(es.timestamps, ts)
			value := "value" + strconv.Itoa((j+k)%2)
			es.tagFamilies = append(es.tagFamilies, []tagValues{{
				tag: "benchmark-family",
				values: []*tagValue{
					{tag: "entity-tag", value: []byte("entity" + strconv.Itoa(k)), valueType: pbv1.ValueTypeStr},
					{tag: "filter-tag", value: []byte(value), valueType: pbv1.ValueTypeStr},
				},
			}})
			idocs = append(idocs, index.Document{
				DocID:  uint64(ts) + uint64(k),
				Fields: []index.Field{index.NewBytesField(index.FieldKey{IndexRuleID: 1, SeriesID: sid[k]}, []byte(value))},
			})
		}
	}
	tst.mustAddElements(es)
	return tst.Index().Write(idocs)
}

// K is the number of segments the driver has a handle for (grows with RotationTick).
func (e *VerifC14Engine) K() int { return len(e.segs) }

// RotationTick issues a real database.Tick with an event time inside the last hour before the newest
// segment's end (rotation enabled): the rotation goroutine pre-creates the next segment. Waits (bounded)
// until the new segment is listed and the asynchronous handler is done, then adopts a handle for it.
// Returns "new" or "none".
func (e *VerifC14Engine) RotationTick() string {
	end := e.day(len(e.segs))
	res := "none"
	for attempt := 0; attempt < 5 && res == "none"; attempt++ {
		// each attempt is 11 minutes later: a Tick that lost the non-blocking send cannot be repeated
		e.db.Tick(end.Add(-55*time.Minute + time.Duration(attempt)*11*time.Minute).UnixNano())
		for i := 0; i < 60 && res == "none"; i++ {
			time.Sleep(5 * time.Millisecond)
			for _, s := range e.ctl.List() {
				known := false
				for _, old := range e.segs {
					if old.Same(s) {
						known = true
					}
				}
				if !known {
					e.segs = append(e.segs, s)
					res = "new"
				}
			}
		}
	}
	// let the handler finish (it pins and unpins every segment): refCounts stable and not busy
	last, stable := "", 0
	for i := 0; i < 400 && stable < 6; i++ {
		time.Sleep(5 * time.Millisecond)
		cur := ""
		for _, s := range e.segs {
			rc, _, _, _ := s.State()
			cur += fmt.Sprint(rc, ",")
		}
		if cur == last && !e.ctl.RotationBusy() {
			stable++
		} else {
			stable = 0
		}
		last = cur
	}
	return res
}


// State reads (refCount, index != nil, mustBeDeleted, dir exists) of segment i.
func (e *VerifC14Engine) State(i int) (int32, bool, bool, bool) { return e.segs[i].State() }

// Hold takes the driver's own reference on segment i (segment.incRef).
func (e *VerifC14Engine) Hold(i int) error { return e.segs[i].IncRef() }

// Release gives it back (segment.DecRef).
func (e *VerifC14Engine) Release(i int) { e.segs[i].DecRef() }

// Look is what a holder sees: IndexDB() != nil and the directory.
func (e *VerifC14Engine) Look(i int) bool {
	_, _, _, dir := e.segs[i].State()
	return e.segs[i].IndexOpen() && dir
}

// IdleReclaim ages every segment and runs closeIdleSegments.
func (e *VerifC14Engine) IdleReclaim() int {
	for _, s := range e.segs {
		s.SetLastAccessed(1)
	}
	return e.ctl.CloseIdle()
}

// Delete is DeleteExpiredSegments([segment i]).
func (e *VerifC14Engine) Delete(i int) int64 { return e.db.DeleteExpiredSegments([]string{e.segs[i].Suffix()}) }

// SetFailOpen makes the next shard-table opens fail.
func (e *VerifC14Engine) SetFailOpen(b bool) { e.failOpen.Store(b) }

// Close closes the TSDB.
func (e *VerifC14Engine) Close() error { return e.db.Close() }

// Query runs the real stream.Query over segments lo..hi, pulls the whole result and releases it.
// byIndex: ordered by the index rule on filter-tag; match: the entity exists; vec: vectorized path.
// Returns the number of elements and a token for the outcome.
func (e *VerifC14Engine) Query(lo, hi int, byIndex, match, vec bool) (int, string) {
	tr := timestamp.NewInclusiveTimeRange(e.day(lo).Add(time.Hour), e.day(hi).Add(23*time.Hour))
	ent := "no-such-entity"
	if match {
		ent = "entity1"
	}
	sqo := model.StreamQueryOptions{
		Name:      "benchmark",
		TimeRange: &tr,
		Entities:  [][]*modelv1.TagValue{{verifC14Str(ent)}},
		TagProjection: []model.TagProjection{{
			Family: "benchmark-family",
			Names:  []string{"entity-tag", "filter-tag"},
		}},
		MaxElementSize: 10,
	}
	if byIndex {
		sqo.Order = &index.OrderBy{
			Index: &databasev1.IndexRule{
				Metadata: &commonv1.Metadata{Name: "filter-tag", Group: verifC14Group, Id: 1},
				Tags:     []string{"filter-tag"},
				Type:     databasev1.IndexRule_TYPE_INVERTED,
			},
			Sort: modelv1.Sort_SORT_ASC,
		}
	} else {
		sqo.Order = &index.OrderBy{Sort: modelv1.Sort_SORT_DESC}
	}
	e.s.vectorized.Enabled = vec
	ctx := context.Background()
	res, err := e.s.Query(ctx, sqo)
	if err != nil {
		return 0, "err"
	}
	if res == nil {
		return 0, "nil"
	}
	n := 0
	for i := 0; i < 1000; i++ {
		r := res.Pull(ctx)
		if r == nil {
			break
		}
		if r.Error != nil {
			res.Release()
			return n, "perr"
		}
		if len(r.Timestamps) == 0 {
			break
		}
		n += len(r.Timestamps)
	}
	res.Release()
	return n, "ok"
}

// SyncPart drives syncCallback.CreatePartHandler for segment i and, when it succeeds, closes the
// handler (the abort path of a chunked sync). how: "ok", "ts" (MinTimestamp 0), "gr" (unknown group),
// "tb" (shard table cannot be opened).
func (e *VerifC14Engine) SyncPart(i int, how string) string {
	ts := e.day(i).Add(7 * time.Hour).UnixNano()
	ctx := &queue.ChunkedSyncPartContext{ID: 1, Group: verifC14Group, ShardID: 0, MinTimestamp: ts, MaxTimestamp: e.tickTS()}
	switch how {
	case "ts":
		ctx.MinTimestamp = 0
	case "gr":
		ctx.Group = "no-such-group"
	case "tb":
		ctx.ShardID = 7 // a shard that does not exist yet: CreateTSTableIfNotExist must open it
		e.failOpen.Store(true)
		defer e.failOpen.Store(false)
	}
	h, err := e.cb.CreatePartHandler(ctx)
	if err != nil {
		return "err"
	}
	if cerr := h.Close(); cerr != nil {
		return "cerr"
	}
	return "ok"
}
