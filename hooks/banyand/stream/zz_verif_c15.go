//go:build verif

// Exports for the /verif C15 driver (injected with `go build -overlay`; not part of /repo).
//
// VerifC15Stream is one real stream resource on a real TSDB: every write batch becomes one memory part of the
// (segment, shard 0) table, so the generator controls the part groups the scanners walk. The same query options go
// through the row path (stream.Query + logical BuildElementsFromStreamResult) and through the vectorized path
// (stream.queryVectorized + vstream.BuildStreamMergePipeline + BuildElementsFromBatches).
package stream

import (
	"context"
	"encoding/hex"
	"fmt"
	"math"
	"strconv"
	"strings"
	"time"

	"github.com/apache/skywalking-banyandb/api/common"
	commonv1 "github.com/apache/skywalking-banyandb/api/proto/banyandb/common/v1"
	databasev1 "github.com/apache/skywalking-banyandb/api/proto/banyandb/database/v1"
	modelv1 "github.com/apache/skywalking-banyandb/api/proto/banyandb/model/v1"
	streamv1 "github.com/apache/skywalking-banyandb/api/proto/banyandb/stream/v1"
	"github.com/apache/skywalking-banyandb/banyand/internal/storage"
	"github.com/apache/skywalking-banyandb/banyand/protector"
	"github.com/apache/skywalking-banyandb/pkg/index"
	"github.com/apache/skywalking-banyandb/pkg/logger"
	pbv1 "github.com/apache/skywalking-banyandb/pkg/pb/v1"
	logicalstream "github.com/apache/skywalking-banyandb/pkg/query/logical/stream"
	"github.com/apache/skywalking-banyandb/pkg/query/model"
	"github.com/apache/skywalking-banyandb/pkg/query/vectorized"
	vstream "github.com/apache/skywalking-banyandb/pkg/query/vectorized/stream"
	"github.com/apache/skywalking-banyandb/pkg/timestamp"
)

const (
	verifC15Group  = "test"
	verifC15Name   = "benchmark"
	verifC15Family = "benchmark-family"
)

// VerifC15Row is one element: series number (entity "entity<k>"), timestamp in ns, element id, filter tag value.
type VerifC15Row struct {
	Filter string
	Series int
	TS     int64
	ID     uint64
}

// VerifC15Stream is the engine.
type VerifC15Stream struct {
	s  *stream
	db storage.TSDB[*tsTable, option]
}

func verifC15Str(v string) *modelv1.TagValue {
	return &modelv1.TagValue{Value: &modelv1.TagValue_Str{Str: &modelv1.Str{Value: v}}}
}

// VerifC15OpenStream opens the TSDB (daily segments, no flush during the case) and the stream resource.
func VerifC15OpenStream(dir string) (*VerifC15Stream, error) {
	opts := storage.TSDBOpts[*tsTable, option]{
		ShardNum:        1,
		Location:        dir,
		TSTableCreator:  newTSTable,
		SegmentInterval: storage.IntervalRule{Unit: storage.DAY, Num: 1},
		TTL:             storage.IntervalRule{Unit: storage.DAY, Num: 3650},
		Option:          option{mergePolicy: newDefaultMergePolicyForTesting(), protector: protector.Nop{}, flushTimeout: time.Hour},
		DisableRetention: true,
	}
	db, err := storage.OpenTSDB(common.SetPosition(context.Background(), func(p common.Position) common.Position {
		p.Module = "stream"
		p.Database = verifC15Name
		return p
	}), opts, nil, verifC15Group)
	if err != nil {
		return nil, err
	}
	sch := &databasev1.Stream{
		Metadata: &commonv1.Metadata{Name: verifC15Name, Group: verifC15Group},
		Entity:   &databasev1.Entity{TagNames: []string{"entity-tag"}},
		TagFamilies: []*databasev1.TagFamilySpec{{
			Name: verifC15Family,
			Tags: []*databasev1.TagSpec{
				{Name: "entity-tag", Type: databasev1.TagType_TAG_TYPE_STRING},
				{Name: "filter-tag", Type: databasev1.TagType_TAG_TYPE_STRING},
			},
		}},
	}
	s := &stream{schema: sch, l: logger.GetLogger("verif-c15-stream"), pm: protector.Nop{}, vectorized: vstream.DefaultConfig()}
	s.name, s.group = verifC15Name, verifC15Group
	var is indexSchema
	is.parse(sch)
	s.indexSchema.Store(is)
	s.tsdb.Store(db)
	return &VerifC15Stream{s: s, db: db}, nil
}

// WriteBatch adds the rows as one memory part per touched segment and registers the series in the series index.
func (e *VerifC15Stream) WriteBatch(rows []VerifC15Row) error {
	bySeg := map[int64][]VerifC15Row{}
	var order []int64
	for _, r := range rows {
		day := r.TS / int64(24*time.Hour)
		if _, ok := bySeg[day]; !ok {
			order = append(order, day)
		}
		bySeg[day] = append(bySeg[day], r)
	}
	for _, day := range order {
		rs := bySeg[day]
		seg, err := e.db.CreateSegmentIfNotExist(time.Unix(0, rs[0].TS))
		if err != nil {
			return err
		}
		var docs index.Documents
		seen := map[int]common.SeriesID{}
		es := &elements{}
		for _, r := range rs {
			sid, ok := seen[r.Series]
			if !ok {
				series := &pbv1.Series{Subject: verifC15Name, EntityValues: []*modelv1.TagValue{verifC15Str("entity" + strconv.Itoa(r.Series))}}
				if merr := series.Marshal(); merr != nil {
					seg.DecRef()
					return merr
				}
				sid = series.ID
				seen[r.Series] = sid
				docs = append(docs, index.Document{DocID: uint64(series.ID), EntityValues: series.Buffer})
			}
			es.seriesIDs = append(es.seriesIDs, sid)
			es.timestamps = append(es.timestamps, r.TS)
			es.elementIDs = append(es.elementIDs, r.ID)
			es.tagFamilies = append(es.tagFamilies, []tagValues{{
				tag: verifC15Family,
				values: []*tagValue{
					{tag: "entity-tag", value: []byte("entity" + strconv.Itoa(r.Series)), valueType: pbv1.ValueTypeStr},
					{tag: "filter-tag", value: []byte(r.Filter), valueType: pbv1.ValueTypeStr},
				},
			}})
		}
		if ierr := seg.IndexDB().Insert(docs); ierr != nil {
			seg.DecRef()
			return ierr
		}
		tst, terr := seg.CreateTSTableIfNotExist(common.ShardID(0))
		if terr != nil {
			seg.DecRef()
			return terr
		}
		tst.mustAddElements(es)
		seg.DecRef()
	}
	return nil
}

type verifC15VecSource struct {
	src    vecScanSource
	schema *vectorized.BatchSchema
}

func (o *verifC15VecSource) Init(context.Context) error            { return nil }
func (o *verifC15VecSource) OutputSchema() *vectorized.BatchSchema { return o.schema }
func (o *verifC15VecSource) Close() error                          { o.src.Release(); return nil }
func (o *verifC15VecSource) NextBatch(ctx context.Context) (*vectorized.RecordBatch, error) {
	return o.src.NextBatch(ctx)
}

func verifC15Render(es []*streamv1.Element) string {
	if len(es) == 0 {
		return "-"
	}
	out := make([]string, 0, len(es))
	for _, e := range es {
		var tags []string
		for _, tf := range e.GetTagFamilies() {
			for _, t := range tf.GetTags() {
				switch v := t.GetValue().GetValue().(type) {
				case *modelv1.TagValue_Str:
					tags = append(tags, t.GetKey()+"="+hex.EncodeToString([]byte(v.Str.GetValue())))
				case *modelv1.TagValue_Null:
					tags = append(tags, t.GetKey()+"=N")
				default:
					tags = append(tags, t.GetKey()+"=?")
				}
			}
		}
		out = append(out, fmt.Sprintf("%d:%s:%s", e.GetTimestamp().AsTime().UnixNano(), e.GetElementId(), strings.Join(tags, ";")))
	}
	return strings.Join(out, ",")
}

func (e *VerifC15Stream) options(series []int, minTS, maxTS int64, order string, maxElements int) model.StreamQueryOptions {
	tr := timestamp.NewInclusiveTimeRange(time.Unix(0, minTS), time.Unix(0, maxTS))
	sqo := model.StreamQueryOptions{
		Name:           verifC15Name,
		TimeRange:      &tr,
		TagProjection:  []model.TagProjection{{Family: verifC15Family, Names: []string{"entity-tag", "filter-tag"}}},
		MaxElementSize: maxElements,
	}
	for _, k := range series {
		sqo.Entities = append(sqo.Entities, []*modelv1.TagValue{verifC15Str("entity" + strconv.Itoa(k))})
	}
	switch order {
	case "asc":
		sqo.Order = &index.OrderBy{Sort: modelv1.Sort_SORT_ASC}
	case "desc":
		sqo.Order = &index.OrderBy{Sort: modelv1.Sort_SORT_DESC}
	}
	return sqo
}

// QueryRow is the row path: stream.Query, then the logical layer's element builder pulled until it is dry.
func (e *VerifC15Stream) QueryRow(series []int, minTS, maxTS int64, order string, maxElements int) (string, error) {
	ctx := context.Background()
	e.s.vectorized.Enabled = false
	sqo := e.options(series, minTS, maxTS, order, maxElements)
	res, err := e.s.Query(ctx, sqo)
	if err != nil {
		return "", err
	}
	if res == nil {
		return "-", nil
	}
	defer res.Release()
	var all []*streamv1.Element
	seen := map[string]bool{}
	for i := 0; i < 64; i++ {
		es, berr := logicalstream.BuildElementsFromStreamResult(ctx, res, sqo.TagProjection)
		if berr != nil {
			return "", berr
		}
		if len(es) == 0 {
			break
		}
		for _, x := range es {
			if !seen[x.GetElementId()] {
				seen[x.GetElementId()] = true
				all = append(all, x)
			}
		}
	}
	return verifC15Render(all), nil
}

// QueryVec is the vectorized path exactly as ExecuteVectorized assembles it: scan source -> sorted merge (capped at
// MaxElementSize) -> distinct -> limit.
func (e *VerifC15Stream) QueryVec(series []int, minTS, maxTS int64, order string, maxElements, batchSize int) (string, error) {
	ctx := context.Background()
	e.s.vectorized.Enabled = true
	sqo := e.options(series, minTS, maxTS, order, maxElements)
	src, err := e.s.queryVectorized(ctx, sqo)
	if err != nil {
		return "", err
	}
	schema := src.Schema()
	mergeCap := 0
	if sqo.MaxElementSize > 0 && sqo.MaxElementSize < math.MaxInt32 {
		mergeCap = sqo.MaxElementSize
	}
	if batchSize <= 0 {
		batchSize = vstream.DefaultConfig().BatchSize
	}
	pipeline, err := vstream.BuildStreamMergePipeline(&verifC15VecSource{src: src, schema: schema}, schema, order == "desc", 0, math.MaxUint32, batchSize, mergeCap)
	if err != nil {
		src.Release()
		return "", err
	}
	if ierr := pipeline.Init(ctx); ierr != nil {
		return "", ierr
	}
	var batches []*vectorized.RecordBatch
	for {
		b, nerr := pipeline.Next(ctx)
		if nerr != nil {
			_ = pipeline.Close()
			return "", nerr
		}
		if b == nil {
			break
		}
		batches = append(batches, b)
	}
	es, berr := BuildElementsFromBatches(batches, sqo.TagProjection)
	cerr := pipeline.Close()
	if berr != nil {
		return "", berr
	}
	if cerr != nil {
		return "", cerr
	}
	return verifC15Render(es), nil
}

// Close releases the TSDB.
func (e *VerifC15Stream) Close() error { return e.db.Close() }

// Stream returns the resource as the query layer sees it.
func (e *VerifC15Stream) Stream() Stream { return e.s }

// SetVectorized flips the engine flag (--stream-vectorized-enabled).
func (e *VerifC15Stream) SetVectorized(on bool, batchSize int) {
	e.s.vectorized = vstream.DefaultConfig()
	e.s.vectorized.Enabled = on
	if batchSize > 0 {
		e.s.vectorized.BatchSize = batchSize
	}
}
