//go:build verif

package stream

import (
	"context"
	"fmt"
	"io"
	"math"
	"os"
	"path/filepath"
	"sort"
	"time"

	"github.com/apache/skywalking-banyandb/api/common"
	commonv1 "github.com/apache/skywalking-banyandb/api/proto/banyandb/common/v1"
	databasev1 "github.com/apache/skywalking-banyandb/api/proto/banyandb/database/v1"
	"github.com/apache/skywalking-banyandb/banyand/internal/storage"
	metadataschema "github.com/apache/skywalking-banyandb/banyand/metadata/schema"
	"github.com/apache/skywalking-banyandb/banyand/protector"
	"github.com/apache/skywalking-banyandb/banyand/queue"
	"github.com/apache/skywalking-banyandb/pkg/convert"
	"github.com/apache/skywalking-banyandb/pkg/fs"
	"github.com/apache/skywalking-banyandb/pkg/logger"
	pbv1 "github.com/apache/skywalking-banyandb/pkg/pb/v1"
	"github.com/apache/skywalking-banyandb/pkg/run"
	resourceSchema "github.com/apache/skywalking-banyandb/pkg/schema"
	"github.com/apache/skywalking-banyandb/pkg/timestamp"
)

// Exports for the /verif C17 driver: a data-node stream TSDB on a temp dir with the real part-sync handler
// (setUpChunkedSyncCallback) and a sender-side file part built with the real memPart code and opened for
// streaming with the real createPartFileReaders. Injected with `go build -overlay`; not part of /repo.

type verifC17Repo struct {
	resourceSchema.Repository
	groups map[string]resourceSchema.Group
}

func (f *verifC17Repo) LoadGroup(name string) (resourceSchema.Group, bool) {
	g, ok := f.groups[name]
	return g, ok
}
func (f *verifC17Repo) Init(_ metadataschema.Kind) ([]string, []int64)      { return nil, nil }
func (f *verifC17Repo) LoadAllIndexRules(_ string) []*databasev1.IndexRule  { return nil }
func (f *verifC17Repo) LoadAllGroups() []resourceSchema.Group               { return nil }
func (f *verifC17Repo) LoadAllResources(_ string) []resourceSchema.Resource { return nil }
func (f *verifC17Repo) Close()                                              {}
func (f *verifC17Repo) StopCh() <-chan struct{}                             { return nil }
func (f *verifC17Repo) LatestModRevision() int64                            { return 0 }
func (f *verifC17Repo) SendMetadataEvent(_ resourceSchema.MetadataEvent)    {}
func (f *verifC17Repo) Watcher()                                            {}
func (f *verifC17Repo) DropGroup(_ string) error                            { return nil }
func (f *verifC17Repo) LoadResource(_ *commonv1.Metadata) (resourceSchema.Resource, bool) {
	return nil, false
}

type verifC17Group struct {
	tsdb storage.TSDB[*tsTable, option]
}

func (f *verifC17Group) GetSchema() *commonv1.Group { return nil }
func (f *verifC17Group) SupplyTSDB() io.Closer      { return f.tsdb }

// VerifC17Node is a data node's stream database for one group.
type VerifC17Node struct {
	db      storage.TSDB[*tsTable, option]
	handler queue.ChunkedSyncHandler
	root    string
}

// VerifC17OpenNode opens a stream TSDB (DAY/1 segments, one shard) under root with the real part-sync handler.
func VerifC17OpenNode(root, group string) (*VerifC17Node, error) {
	opts := storage.TSDBOpts[*tsTable, option]{
		ShardNum:         1,
		Location:         filepath.Join(root, "tab"),
		TSTableCreator:   newTSTable,
		SegmentInterval:  storage.IntervalRule{Unit: storage.DAY, Num: 1},
		TTL:              storage.IntervalRule{Unit: storage.DAY, Num: 3650},
		Option:           option{protector: protector.Nop{}, mergePolicy: newDefaultMergePolicy(), flushTimeout: time.Hour, elementIndexFlushTimeout: time.Hour},
		DisableRetention: true,
	}
	if err := os.MkdirAll(opts.Location, storage.DirPerm); err != nil {
		return nil, err
	}
	ctx := common.SetPosition(
		context.WithValue(context.Background(), logger.ContextKey, logger.GetLogger("verif-c17")),
		func(p common.Position) common.Position {
			p.Database = group
			return p
		},
	)
	db, err := storage.OpenTSDB[*tsTable, option](ctx, opts, nil, group)
	if err != nil {
		return nil, err
	}
	sr := &schemaRepo{
		Repository: &verifC17Repo{groups: map[string]resourceSchema.Group{group: &verifC17Group{tsdb: db}}},
		l:          logger.GetLogger("verif-c17"),
	}
	return &VerifC17Node{db: db, root: opts.Location, handler: setUpChunkedSyncCallback(logger.GetLogger("verif-c17"), sr)}, nil
}

// Handler is the node's real part-sync handler.
func (n *VerifC17Node) Handler() queue.ChunkedSyncHandler { return n.handler }

// Root is the database directory.
func (n *VerifC17Node) Root() string { return n.root }

// Close closes the database.
func (n *VerifC17Node) Close() error { return n.db.Close() }

// Snapshot returns the number of parts and rows in the current snapshots of all shards.
func (n *VerifC17Node) Snapshot() (parts int, rows uint64) {
	segs, err := n.db.SelectSegments(timestamp.NewInclusiveTimeRange(time.Unix(0, 0), time.Unix(0, math.MaxInt64)), true)
	if err != nil {
		return -1, 0
	}
	for _, seg := range segs {
		tables, _ := seg.Tables()
		for _, tst := range tables {
			if snp := tst.currentSnapshot(); snp != nil {
				for _, pw := range snp.parts {
					parts++
					rows += pw.p.partMetadata.TotalCount
				}
				snp.decRef()
			}
		}
		seg.DecRef()
	}
	return parts, rows
}

// VerifC17SenderPart is a flushed file part on the sending side.
type VerifC17SenderPart struct {
	p       *part
	release func()
	Dir     string
}

// StreamingPart is what tsTable.syncPartsToNodesHelper builds for this part (real createPartFileReaders).
func (sp *VerifC17SenderPart) StreamingPart(group, topic string) queue.StreamingPartData {
	files, release := createPartFileReaders(sp.p)
	sp.release = release
	pm := sp.p.partMetadata
	return queue.StreamingPartData{
		ID: pm.ID, Group: group, ShardID: 0, Topic: topic, Files: files,
		CompressedSizeBytes: pm.CompressedSizeBytes, UncompressedSizeBytes: pm.UncompressedSizeBytes,
		TotalCount: pm.TotalCount, BlocksCount: pm.BlocksCount,
		MinTimestamp: pm.MinTimestamp, MaxTimestamp: pm.MaxTimestamp, PartType: PartTypeCore,
	}
}

// PartDir is the part's directory on the sending side.
func (sp *VerifC17SenderPart) PartDir() string { return sp.Dir }

// VerifC17SyncWithRetry runs the syncer's real delivery round for this part (initial sync to every node, the
// FailedPartsHandler retries with its real back-off, the copy into failed-parts/) on a liaison shard rooted at
// the part's parent directory. A nil error is what lets syncSnapshot remove the part from the queue.
// It returns the entries of <root>/failed-parts afterwards.
func (sp *VerifC17SenderPart) VerifC17SyncWithRetry(group string, client queue.Client, nodes []string, failedPartsQuota uint64) ([]string, error) {
	root := filepath.Dir(sp.Dir)
	tst := &tsTable{
		fileSystem: fs.NewLocalFileSystem(), root: root, l: logger.GetLogger("verif-c17-syncer"),
		loopCloser: run.NewCloser(1), group: group,
		option: option{tire2Client: client, failedPartsMaxTotalSizeBytes: failedPartsQuota},
	}
	defer tst.loopCloser.Done()
	err := tst.executeSyncWithRetry([]*part{sp.p}, nodes)
	var out []string
	if _, serr := os.Stat(filepath.Join(root, storage.FailedPartsDirName)); serr == nil {
		for _, e := range tst.fileSystem.ReadDir(filepath.Join(root, storage.FailedPartsDirName)) {
			out = append(out, e.Name())
		}
	}
	sort.Strings(out)
	return out, err
}

// TotalCount is the number of rows in the part.
func (sp *VerifC17SenderPart) TotalCount() uint64 { return sp.p.partMetadata.TotalCount }

// Close releases the part's readers.
func (sp *VerifC17SenderPart) Close() {
	if sp.release != nil {
		sp.release()
		sp.release = nil
	}
	sp.p.close()
}

var (
	_ = fmt.Sprintf
	_ = sort.Strings
	_ = convert.Int64ToBytes
	_ = pbv1.ValueTypeStr
	_ = fs.NewLocalFileSystem
)

// VerifC17BuildPart builds elements from the seed with the real memPart encoder, flushes them to
// <root>/<id hex> and opens the directory as a file part.
func VerifC17BuildPart(root string, id uint64, seed int64, series, points int, baseTS int64) *VerifC17SenderPart {
	lfs := fs.NewLocalFileSystem()
	es := &elements{}
	x := uint64(seed)*2654435761 + 12345
	next := func() uint64 {
		x = x*6364136223846793005 + 1442695040888963407
		return x >> 33
	}
	for s := 0; s < series; s++ {
		sid := common.SeriesID(1 + s + int(next()%3)*1000)
		for t := 0; t < points; t++ {
			es.seriesIDs = append(es.seriesIDs, sid)
			es.timestamps = append(es.timestamps, baseTS+int64(s)*1000+int64(t)*1000000+int64(next()%1000))
			es.elementIDs = append(es.elementIDs, next())
			str := make([]byte, 1+next()%40)
			for i := range str {
				str[i] = byte('a' + next()%26)
			}
			tfs := []tagValues{{tag: "searchable", values: []*tagValue{
				{tag: "svc", valueType: pbv1.ValueTypeStr, value: str, indexed: true},
				{tag: "code", valueType: pbv1.ValueTypeInt64, value: convert.Int64ToBytes(int64(next() % 600))},
			}}}
			if next()%2 == 0 {
				tfs = append(tfs, tagValues{tag: "k8s:labels", values: []*tagValue{
					{tag: "body", valueType: pbv1.ValueTypeBinaryData, value: append([]byte("payload-"), str...)},
					{tag: "arr", valueType: pbv1.ValueTypeStrArr, valueArr: [][]byte{str, []byte("z")}},
				}})
			}
			es.tagFamilies = append(es.tagFamilies, tfs)
		}
	}
	mp := generateMemPart()
	mp.mustInitFromElements(es)
	dir := partPath(root, id)
	mp.mustFlush(lfs, dir)
	releaseMemPart(mp)
	p := mustOpenFilePart(id, root, lfs)
	return &VerifC17SenderPart{p: p, Dir: dir}
}
