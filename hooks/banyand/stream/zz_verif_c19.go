//go:build verif

// Exports for the /verif C19 driver (file snapshots), stream engine. Injected with `go build -overlay`.
// Same construction as banyand/measure/zz_verif_c19.go: a real stream tsTable (with its real element index)
// without background loops; every transition is performed synchronously with the bodies the loops execute.
package stream

import (
	"fmt"
	"os"
	"path/filepath"
	"sort"
	"sync/atomic"
	"time"

	"github.com/apache/skywalking-banyandb/api/common"
	"github.com/apache/skywalking-banyandb/banyand/internal/storage"
	"github.com/apache/skywalking-banyandb/banyand/protector"
	"github.com/apache/skywalking-banyandb/pkg/convert"
	"github.com/apache/skywalking-banyandb/pkg/fs"
	"github.com/apache/skywalking-banyandb/pkg/logger"
	pbv1 "github.com/apache/skywalking-banyandb/pkg/pb/v1"
	"github.com/apache/skywalking-banyandb/pkg/query/model"
)

type verifTracked struct {
	pw  *partWrapper
	dir string
	id  uint64
	mem bool
}

// VerifTable wraps a real stream tsTable whose transitions are driven synchronously.
type VerifTable struct {
	T     *tsTable
	track []verifTracked
	epoch uint64
}

func verifOption() option {
	return option{
		flushTimeout:             0,
		elementIndexFlushTimeout: time.Second,
		mergePolicy:              newDefaultMergePolicy(),
		protector:                protector.Nop{},
	}
}

// VerifOpenTable runs the real initTSTable (with element index) on root. No loops are started.
func VerifOpenTable(fileSystem fs.FileSystem, root string) *VerifTable {
	t, _, err := initTSTable(fileSystem, root, common.Position{}, logger.GetLogger("verif-c19"), verifOption(), nil, true)
	if err != nil {
		panic(fmt.Sprintf("stream initTSTable: %v", err))
	}
	v := &VerifTable{T: t}
	if t.snapshot != nil {
		v.epoch = t.snapshot.epoch
		for _, pw := range t.snapshot.parts {
			v.trackPW(pw)
		}
	}
	return v
}

func (v *VerifTable) trackPW(pw *partWrapper) {
	v.track = append(v.track, verifTracked{pw: pw, id: pw.ID(), mem: pw.mp != nil, dir: partPath(v.T.root, pw.ID())})
}

// Close closes the table and its element index.
func (v *VerifTable) Close() { _ = v.T.Close() }

// AddBatch = mustAddElements + introducePart, synchronously.
func (v *VerifTable) AddBatch(rows []storage.VerifRow) uint64 {
	tst := v.T
	es := &elements{}
	for _, r := range rows {
		es.seriesIDs = append(es.seriesIDs, common.SeriesID(r.SID))
		es.timestamps = append(es.timestamps, r.TS)
		es.elementIDs = append(es.elementIDs, uint64(r.Val))
		es.tagFamilies = append(es.tagFamilies, []tagValues{{tag: "f", values: []*tagValue{
			{tag: "v", valueType: pbv1.ValueTypeInt64, value: convert.Int64ToBytes(r.Val)},
		}}})
	}
	mp := generateMemPart()
	mp.mustInitFromElements(es)
	p := openMemPart(mp)
	pw := newPartWrapper(mp, p)
	pw.p.partMetadata.ID = atomic.AddUint64(&tst.curPartID, 1)
	tst.addPendingDataCount(int64(mp.partMetadata.TotalCount))
	v.trackPW(pw)
	v.epoch++
	tst.introducePart(&introduction{part: pw}, v.epoch)
	return pw.ID()
}

// Flush = the body of tsTable.flush + introduceFlushed + gc.clean.
func (v *VerifTable) Flush() int {
	tst := v.T
	s := tst.currentSnapshot()
	if s == nil {
		return 0
	}
	defer s.decRef()
	ind := &flusherIntroduction{flushed: make(map[uint64]*partWrapper)}
	for _, pw := range s.parts {
		if pw.mp == nil || pw.mp.partMetadata.TotalCount < 1 {
			continue
		}
		pw.mp.mustFlush(tst.fileSystem, partPath(tst.root, pw.ID()))
		newPW := newPartWrapper(nil, mustOpenFilePart(pw.ID(), tst.root, tst.fileSystem))
		newPW.p.partMetadata.ID = pw.ID()
		ind.flushed[newPW.ID()] = newPW
		v.trackPW(newPW)
	}
	if len(ind.flushed) < 1 {
		return 0
	}
	v.epoch++
	tst.introduceFlushed(ind, v.epoch)
	tst.gc.clean()
	return len(ind.flushed)
}

// DiskPartIDs lists the ids of the file parts of the current snapshot in snapshot order.
func (v *VerifTable) DiskPartIDs() []uint64 {
	ids, mem := v.Parts()
	var out []uint64
	for i := range ids {
		if !mem[i] {
			out = append(out, ids[i])
		}
	}
	return out
}

// Parts lists (id, mem) of the current snapshot in order.
func (v *VerifTable) Parts() (ids []uint64, mem []bool) {
	s := v.T.currentSnapshot()
	if s == nil {
		return nil, nil
	}
	defer s.decRef()
	for _, pw := range s.parts {
		ids = append(ids, pw.ID())
		mem = append(mem, pw.mp != nil)
	}
	return ids, mem
}

// Merge merges the file parts at the given positions with the real mergeParts + introduceMerged + gc.clean.
func (v *VerifTable) Merge(pos []int) uint64 {
	tst := v.T
	s := tst.currentSnapshot()
	if s == nil {
		return 0
	}
	defer s.decRef()
	var disk []*partWrapper
	for _, pw := range s.parts {
		if pw.mp == nil {
			disk = append(disk, pw)
		}
	}
	seen := map[int]bool{}
	for _, i := range pos {
		if i >= 0 && i < len(disk) {
			seen[i] = true
		}
	}
	var parts []*partWrapper
	merged := make(map[uint64]struct{})
	for i := range disk {
		if seen[i] {
			parts = append(parts, disk[i])
			merged[disk[i].ID()] = struct{}{}
		}
	}
	if len(parts) < 2 {
		return 0
	}
	closeCh := make(chan struct{})
	newPart, err := tst.mergeParts(tst.fileSystem, closeCh, parts, atomic.AddUint64(&tst.curPartID, 1), tst.root)
	if err != nil {
		panic(fmt.Sprintf("mergeParts: %v", err))
	}
	v.trackPW(newPart)
	v.epoch++
	tst.introduceMerged(&mergerIntroduction{merged: merged, newPart: newPart, creator: snapshotCreatorMerger}, v.epoch)
	tst.gc.clean()
	return newPart.ID()
}

// Snapshot calls the real TakeFileSnapshot.
func (v *VerifTable) Snapshot(dst string) (bool, error) { return v.T.TakeFileSnapshot(dst) }

// Settle waits for the asynchronous removal of dead removable parts.
func (v *VerifTable) Settle() bool {
	deadline := time.Now().Add(30 * time.Second)
	for {
		pending := false
		for _, t := range v.track {
			if !t.mem && atomic.LoadInt32(&t.pw.ref) <= 0 && t.pw.removable.Load() {
				if _, err := os.Stat(t.dir); err == nil {
					pending = true
				}
			}
		}
		if !pending {
			return true
		}
		if time.Now().After(deadline) {
			return false
		}
		time.Sleep(200 * time.Microsecond)
	}
}

// Refs reports every tracked partWrapper that is still referenced.
func (v *VerifTable) Refs() []storage.VerifPartInfo {
	var out []storage.VerifPartInfo
	for _, t := range v.track {
		ref := atomic.LoadInt32(&t.pw.ref)
		if ref <= 0 {
			continue
		}
		_, err := os.Stat(t.dir)
		out = append(out, storage.VerifPartInfo{ID: t.id, Mem: t.mem, Ref: ref, Removable: t.pw.removable.Load(), DirExists: err == nil})
	}
	sort.Slice(out, func(i, j int) bool {
		if out[i].ID != out[j].ID {
			return out[i].ID < out[j].ID
		}
		return out[i].Mem && !out[j].Mem
	})
	return out
}

// SnapshotRef is the reference count of the current snapshot object.
func (v *VerifTable) SnapshotRef() int32 {
	v.T.RLock()
	defer v.T.RUnlock()
	if v.T.snapshot == nil {
		return 0
	}
	return atomic.LoadInt32(&v.T.snapshot.ref)
}

// Query reads every element of the current snapshot through snapshot.getParts -> tstIter -> blockCursor.loadData.
func (v *VerifTable) Query() (rows []storage.VerifRow, err error) {
	s := v.T.currentSnapshot()
	if s == nil {
		return nil, nil
	}
	defer s.decRef()
	maxTS := int64(1<<62 - 1)
	pp, _ := s.getParts(nil, 0, maxTS)
	bma := generateBlockMetadataArray()
	defer releaseBlockMetadataArray(bma)
	sids := []common.SeriesID{1, 2, 3, 4}
	ti := &tstIter{}
	ti.init(bma, pp, sids, 0, maxTS, nil)
	qo := queryOptions{minTimestamp: 0, maxTimestamp: maxTS}
	qo.TagProjection = []model.TagProjection{{Family: "f", Names: []string{"v"}}}
	for ti.nextBlock() {
		p := ti.piHeap[0]
		bc := generateBlockCursor()
		bc.init(p.p, p.curBlock, qo)
		tmp := generateBlock()
		if bc.loadData(tmp) {
			for i := range bc.timestamps {
				row := storage.VerifRow{SID: uint64(bc.bm.seriesID), TS: bc.timestamps[i], Val: -1}
				if len(bc.tagFamilies) == 1 && len(bc.tagFamilies[0].tags) == 1 && i < len(bc.tagFamilies[0].tags[0].values) {
					row.Val = convert.BytesToInt64(bc.tagFamilies[0].tags[0].values[i])
				}
				if uint64(row.Val) != bc.elementIDs[i] {
					row.Val = -2
				}
				rows = append(rows, row)
			}
		}
		releaseBlock(tmp)
		releaseBlockCursor(bc)
	}
	if e := ti.Error(); e != nil {
		return nil, e
	}
	sort.Slice(rows, func(i, j int) bool {
		if rows[i].SID != rows[j].SID {
			return rows[i].SID < rows[j].SID
		}
		return rows[i].TS < rows[j].TS
	})
	return rows, nil
}

// VerifInspectDir reads a stream table directory (a snapshot copy) read-only, the way initTSTable would.
func VerifInspectDir(fileSystem fs.FileSystem, root string) storage.VerifManifest {
	m := storage.VerifManifest{Complete: map[uint64]bool{}}
	if _, err := os.Stat(root); err != nil {
		m.Err = "absent"
		return m
	}
	for _, e := range fileSystem.ReadDir(root) {
		if e.IsDir() {
			if e.Name() == elementIndexFilename {
				m.HasIndex = true
				continue
			}
			id, err := parseEpoch(e.Name())
			if err != nil {
				m.BadDirs = append(m.BadDirs, e.Name())
				continue
			}
			m.Dirs = append(m.Dirs, id)
			m.Complete[id] = validatePartMetadata(fileSystem, filepath.Join(root, e.Name())) == nil
			continue
		}
		if filepath.Ext(e.Name()) == snapshotSuffix {
			ep, err := parseSnapshot(e.Name())
			if err != nil {
				m.OtherFile = append(m.OtherFile, e.Name())
				continue
			}
			m.Epochs = append(m.Epochs, ep)
			continue
		}
		m.OtherFile = append(m.OtherFile, e.Name())
	}
	sort.Slice(m.Epochs, func(i, j int) bool { return m.Epochs[i] > m.Epochs[j] })
	if len(m.Epochs) > 0 {
		names, err := storage.ReadSnapshotPartNames(fileSystem, filepath.Join(root, snapshotName(m.Epochs[0])))
		if err != nil {
			m.Err = "manifest-unreadable"
			return m
		}
		for _, n := range names {
			id, perr := parseEpoch(n)
			if perr != nil {
				m.Err = "manifest-bad-name"
				return m
			}
			m.Listed = append(m.Listed, id)
		}
	}
	return m
}
