//go:build verif

// Export hooks for the /verif driver `mrw` (C01, C03 - oracle-only stream of the stream engine): a real stream tsTable
// (no element index) with only the real introducer loop running; batches, flush and merge are called synchronously,
// queries read the blocks the table-level query path selects (snapshot.getParts -> tstIter -> blockCursor.loadData).
package stream

import (
	"fmt"
	"sort"

	"github.com/apache/skywalking-banyandb/api/common"
	"github.com/apache/skywalking-banyandb/banyand/protector"
	"github.com/apache/skywalking-banyandb/pkg/fs"
	"github.com/apache/skywalking-banyandb/pkg/logger"
	pbv1 "github.com/apache/skywalking-banyandb/pkg/pb/v1"
	"github.com/apache/skywalking-banyandb/pkg/query/model"
	"github.com/apache/skywalking-banyandb/pkg/run"
	"github.com/apache/skywalking-banyandb/pkg/watcher"
)

// VMTag is one tag value (string type).
type VMTag struct {
	Name string
	Val  []byte
}

// VMFam is one tag family of an element.
type VMFam struct {
	Name string
	Tags []VMTag
}

// VMElem is one stream element.
type VMElem struct {
	Fams []VMFam
	Sid  uint64
	Ts   int64
	Eid  uint64
}

// VMStream is a stream tsTable driven synchronously.
type VMStream struct {
	tst     *tsTable
	flushCh chan *flusherIntroduction
	mergeCh chan *mergerIntroduction
}

// VMStreamOpen runs the real initTSTable on root and starts the introducer loop.
func VMStreamOpen(root string) *VMStream {
	opt := option{protector: protector.Nop{}, mergePolicy: newDefaultMergePolicy()}
	tst, epoch, err := initTSTable(fs.NewLocalFileSystem(), root, common.Position{}, logger.GetLogger("verif-mrw-stream"), opt, nil, false)
	if err != nil {
		panic(err)
	}
	v := &VMStream{tst: tst}
	tst.loopCloser = run.NewCloser(1 + 1)
	tst.introductions = make(chan *introduction)
	v.flushCh = make(chan *flusherIntroduction)
	v.mergeCh = make(chan *mergerIntroduction)
	go tst.introducerLoop(v.flushCh, v.mergeCh, make(watcher.Channel, 1), epoch+1)
	return v
}

// Close stops the loop and closes the table.
func (v *VMStream) Close() { _ = v.tst.Close() }

// Batch ingests one batch through mustAddElements.
func (v *VMStream) Batch(rows []VMElem) {
	es := &elements{}
	for i := range rows {
		r := &rows[i]
		es.seriesIDs = append(es.seriesIDs, common.SeriesID(r.Sid))
		es.timestamps = append(es.timestamps, r.Ts)
		es.elementIDs = append(es.elementIDs, r.Eid)
		var fams []tagValues
		for _, f := range r.Fams {
			tv := tagValues{tag: f.Name}
			for _, t := range f.Tags {
				tv.values = append(tv.values, &tagValue{tag: t.Name, valueType: pbv1.ValueTypeStr, value: t.Val})
			}
			fams = append(fams, tv)
		}
		es.tagFamilies = append(es.tagFamilies, fams)
	}
	v.tst.mustAddElements(es)
}

// Flush is the flusher loop body: every memory part of the current snapshot.
func (v *VMStream) Flush() string {
	cur := v.tst.currentSnapshot()
	if cur == nil {
		return "ok0"
	}
	defer cur.decRef()
	v.tst.flush(cur, v.flushCh)
	return "ok"
}

// Merge is the merge loop body with the policy's choice replaced by "every file part".
func (v *VMStream) Merge() string {
	cur := v.tst.currentSnapshot()
	if cur == nil {
		return "ok0"
	}
	defer cur.decRef()
	var dst []*partWrapper
	toBeMerged := make(map[uint64]struct{})
	for _, pw := range cur.parts {
		if pw.mp != nil {
			continue
		}
		dst = append(dst, pw)
		toBeMerged[pw.ID()] = struct{}{}
	}
	if len(dst) < 2 {
		return "ok0"
	}
	if _, err := v.tst.mergePartsThenSendIntroduction(snapshotCreatorMerger, dst, toBeMerged, v.mergeCh,
		v.tst.loopCloser.CloseNotify(), "file"); err != nil {
		return "ERR " + err.Error()
	}
	return "ok"
}

// Query returns the elements of the series with a timestamp in [tmin, tmax].
func (v *VMStream) Query(sids []uint64, tmin, tmax int64, proj []model.TagProjection) []VMElem {
	s := v.tst.currentSnapshot()
	if s == nil {
		return nil
	}
	defer s.decRef()
	parts, _ := s.getParts(nil, tmin, tmax)
	ss := make([]common.SeriesID, 0, len(sids))
	for _, x := range sids {
		ss = append(ss, common.SeriesID(x))
	}
	sort.Slice(ss, func(i, j int) bool { return ss[i] < ss[j] })
	bma := generateBlockMetadataArray()
	defer releaseBlockMetadataArray(bma)
	ti := &tstIter{}
	ti.init(bma, parts, ss, tmin, tmax, nil)
	qo := queryOptions{minTimestamp: tmin, maxTimestamp: tmax}
	qo.TagProjection = proj
	var out []VMElem
	tmp := generateBlock()
	defer releaseBlock(tmp)
	for ti.nextBlock() {
		pi := ti.piHeap[0]
		bc := generateBlockCursor()
		bc.init(pi.p, pi.curBlock, qo)
		if bc.loadData(tmp) {
			for i := range bc.timestamps {
				e := VMElem{Sid: uint64(bc.bm.seriesID), Ts: bc.timestamps[i], Eid: bc.elementIDs[i]}
				for _, tf := range bc.tagFamilies {
					f := VMFam{Name: tf.name}
					for _, t := range tf.tags {
						if i < len(t.values) && len(t.values[i]) > 0 {
							f.Tags = append(f.Tags, VMTag{Name: t.name, Val: append([]byte(nil), t.values[i]...)})
						}
					}
					e.Fams = append(e.Fams, f)
				}
				out = append(out, e)
			}
		}
		releaseBlockCursor(bc)
	}
	if err := ti.Error(); err != nil {
		panic(fmt.Sprintf("tstIter: %v", err))
	}
	return out
}
