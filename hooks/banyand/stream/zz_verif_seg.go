//go:build verif

package stream

import (
	"time"

	"github.com/apache/skywalking-banyandb/api/common"
	"github.com/apache/skywalking-banyandb/banyand/protector"
	"github.com/apache/skywalking-banyandb/pkg/fs"
	"github.com/apache/skywalking-banyandb/pkg/logger"
	pbv1 "github.com/apache/skywalking-banyandb/pkg/pb/v1"
	"github.com/apache/skywalking-banyandb/pkg/run"
	"github.com/apache/skywalking-banyandb/pkg/watcher"
)

// VerifSegPart describes one part of the write queue after a flusher round.
type VerifSegPart struct {
	Min   int64
	Max   int64
	Count uint64
}

func verifSegElements(ts []int64, salt int) *elements {
	e := &elements{}
	for i, t := range ts {
		e.seriesIDs = append(e.seriesIDs, common.SeriesID(1+(i+salt)%2))
		e.timestamps = append(e.timestamps, t)
		e.elementIDs = append(e.elementIDs, uint64(salt)<<32|uint64(i))
		e.tagFamilies = append(e.tagFamilies, []tagValues{{
			tag: "singleTag", values: []*tagValue{
				{tag: "strTag", valueType: pbv1.ValueTypeStr, value: []byte("v")},
			},
		}})
	}
	return e
}

// VerifSegQueueRound builds a liaison write-queue tsTable under dir (as newWriteQueue does, with only
// the introducer loop running), appends one mem part per entry of parts tagged with segIDs[i] (what
// writeQueueCallback.Rev does per segment window), runs the flusher's mergeMemParts once on that
// snapshot and returns the parts the syncer would ship. Used by the /verif `seg` driver (C06).
func VerifSegQueueRound(dir string, segIDs []int64, parts [][]int64) ([]VerifSegPart, error) {
	opts := option{protector: protector.Nop{}, flushTimeout: time.Second}
	tst, epoch, err := initTSTable(fs.NewLocalFileSystem(), dir, common.Position{}, logger.GetLogger("verif-seg"), opts, nil, false)
	if err != nil {
		return nil, err
	}
	tst.group = "verif-seg"
	tst.loopCloser = run.NewCloser(1 + 1)
	tst.introductions = make(chan *introduction)
	flushCh := make(chan *flusherIntroduction)
	mergeCh := make(chan *mergerIntroduction)
	syncCh := make(chan *syncIntroduction)
	introducerWatcher := make(watcher.Channel, 1)
	go tst.introducerLoopWithSync(flushCh, mergeCh, syncCh, introducerWatcher, epoch+1)
	defer tst.Close()
	for i := range parts {
		tst.mustAddElementsWithSegmentID(verifSegElements(parts[i], i), segIDs[i], nil)
	}
	snp := tst.currentSnapshot()
	if snp != nil {
		_, err = tst.mergeMemParts(snp, mergeCh)
		snp.decRef()
		if err != nil {
			return nil, err
		}
	}
	cur := tst.currentSnapshot()
	if cur == nil {
		return nil, nil
	}
	defer cur.decRef()
	var out []VerifSegPart
	for _, pw := range cur.parts {
		pm := pw.p.partMetadata
		out = append(out, VerifSegPart{Min: pm.MinTimestamp, Max: pm.MaxTimestamp, Count: pm.TotalCount})
	}
	return out, nil
}
