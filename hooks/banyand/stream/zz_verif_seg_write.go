//go:build verif

package stream

import (
	"context"
	"io"
	"time"
	
	"github.com/apache/skywalking-banyandb/api/common"
	commonv1 "github.com/apache/skywalking-banyandb/api/proto/banyandb/common/v1"
	streamv1 "github.com/apache/skywalking-banyandb/api/proto/banyandb/stream/v1"
	"github.com/apache/skywalking-banyandb/banyand/internal/storage"
	"github.com/apache/skywalking-banyandb/banyand/observability"
	"github.com/apache/skywalking-banyandb/banyand/protector"
	"github.com/apache/skywalking-banyandb/pkg/logger"
	resourceSchema "github.com/apache/skywalking-banyandb/pkg/schema"
)

func verifSegOption() option {
	return option{protector: protector.Nop{}, mergePolicy: newDefaultMergePolicy(), flushTimeout: time.Hour, elementIndexFlushTimeout: time.Hour}
}

// VerifSegOpenDB runs the real supplier.OpenDB for group g on a node carrying the given labels (temp
// dir) and reads back the options the database was opened with. Used by the /verif `seg` driver (C07).
func VerifSegOpenDB(dir string, g *commonv1.Group, labels map[string]string) (si, ttl storage.IntervalRule, shard uint32, disRet, disRot bool, err error) {
	s := &supplier{l: logger.GetLogger("verif-seg"), option: verifSegOption(), omr: observability.BypassRegistry,
		pm: protector.Nop{}, path: dir, nodeLabels: labels}
	dbc, err := s.OpenDB(g)
	if err != nil {
		return si, ttl, 0, false, false, err
	}
	db := dbc.(storage.TSDB[*tsTable, option])
	defer db.Close()
	si, ttl, shard, disRet, disRot = storage.VerifOpts(db)
	return si, ttl, shard, disRet, disRot, nil
}

type verifSegRepo struct {
	resourceSchema.Repository
	g resourceSchema.Group
}

func (r *verifSegRepo) LoadGroup(string) (resourceSchema.Group, bool) { return r.g, true }

type verifSegGroup struct {
	db storage.TSDB[*tsTable, option]
}

func (g *verifSegGroup) GetSchema() *commonv1.Group { return nil }
func (g *verifSegGroup) SupplyTSDB() io.Closer      { return g.db }

// VerifSegFiled is one element of a write batch and the time range of the per-batch table that received it.
type VerifSegFiled struct {
	TS, Start, End int64
	Shard          uint32
}

// VerifSegWriteBatch opens a real TSDB under dir and feeds one write batch (timestamps and shards in
// arrival order) through the standalone write callback's real per-batch grouping
// (prepareElementsInGroup + prepareElementsInTable); it reports for every element the segment range of the
// table chosen for it. Used by the /verif `seg` driver (C06).
func VerifSegWriteBatch(dir string, si storage.IntervalRule, ts []int64, shards []uint32) ([]VerifSegFiled, error) {
	opts := storage.TSDBOpts[*tsTable, option]{
		ShardNum: 4, Location: dir, TSTableCreator: newTSTable, SegmentInterval: si,
		TTL: storage.IntervalRule{Unit: storage.DAY, Num: 3650}, Option: verifSegOption(), DisableRetention: true, DisableRotation: true,
	}
	ctx := common.SetPosition(context.Background(), func(p common.Position) common.Position {
		p.Database = "verif-seg"
		return p
	})
	db, err := storage.OpenTSDB[*tsTable, option](ctx, opts, nil, "verif-seg")
	if err != nil {
		return nil, err
	}
	defer db.Close()
	w := &writeCallback{
		l:          logger.GetLogger("verif-seg"),
		schemaRepo: &schemaRepo{Repository: &verifSegRepo{g: &verifSegGroup{db: db}}, l: logger.GetLogger("verif-seg")},
	}
	dst := make(map[string]*elementsInGroup)
	md := &commonv1.Metadata{Group: "verif-seg", Name: "x"}
	var out []VerifSegFiled
	for i := range ts {
		eg, gErr := w.prepareElementsInGroup(dst, md, ts[i])
		if gErr != nil {
			return nil, gErr
		}
		et, tErr := w.prepareElementsInTable(eg, &streamv1.InternalWriteRequest{ShardId: shards[i]}, ts[i])
		if tErr != nil {
			return nil, tErr
		}
		out = append(out, VerifSegFiled{TS: ts[i], Start: et.timeRange.Start.UnixNano(), End: et.timeRange.End.UnixNano(), Shard: uint32(et.shardID)})
	}
	for _, eg := range dst {
		for _, s := range eg.segments {
			s.DecRef()
		}
	}
	return out, nil
}
