//go:build verif

// Exports for the /verif C04 driver, trace-table stream (crash recovery of the trace tsTable with one secondary
// index). Injected with `go build -tags verif -overlay`; not part of /repo.
//
// As for the measure table, only the *scheduling* of the background loops is replaced: the real introducerLoop
// goroutine runs, and the real initTSTable, mustAddTraces, tst.flush (which flushes the core parts and every
// sidx) are called in the order a history dictates. Merges are not driven in this stream.
package trace

import (
	"context"
	"fmt"
	"os"
	"path/filepath"
	"sort"
	"strings"
	"time"

	"github.com/apache/skywalking-banyandb/api/common"
	"github.com/apache/skywalking-banyandb/banyand/internal/sidx"
	"github.com/apache/skywalking-banyandb/banyand/protector"
	"github.com/apache/skywalking-banyandb/pkg/convert"
	"github.com/apache/skywalking-banyandb/pkg/fs"
	"github.com/apache/skywalking-banyandb/pkg/logger"
	pbv1 "github.com/apache/skywalking-banyandb/pkg/pb/v1"
	"github.com/apache/skywalking-banyandb/pkg/run"
	"github.com/apache/skywalking-banyandb/pkg/watcher"
)

// VT04SidxName is the name of the one secondary index of the table.
const VT04SidxName = "idx"

// VT04 is a trace tsTable driven synchronously.
type VT04 struct {
	tst     *tsTable
	flushCh chan *flusherIntroduction
	mergeCh chan *mergerIntroduction
	Root    string
	Epoch   uint64
	Fresh   bool
}

// VT04Open runs the real initTSTable on root.
func VT04Open(root string, freshEpoch uint64) *VT04 {
	lfs := fs.NewLocalFileSystem()
	l := logger.GetLogger("verif-c04-trace")
	opt := option{protector: protector.Nop{}, mergePolicy: newDefaultMergePolicy()}
	tst, epoch := initTSTable(lfs, root, common.Position{}, l, opt, nil)
	v := &VT04{tst: tst, Root: root, Epoch: epoch}
	if tst.snapshot == nil {
		v.Fresh = true
		v.Epoch = freshEpoch
	}
	return v
}

// Start starts the real introducer loop (and nothing else) and makes sure the secondary index exists.
func (v *VT04) Start() {
	tst := v.tst
	tst.loopCloser = run.NewCloser(1 + 1)
	tst.mergeControl = newMergeLoopControl()
	tst.introductions = make(chan *introduction)
	v.flushCh = make(chan *flusherIntroduction)
	v.mergeCh = make(chan *mergerIntroduction)
	tst.mergeCh = v.mergeCh
	introducerWatcher := make(watcher.Channel, 1)
	go tst.introducerLoop(v.flushCh, v.mergeCh, introducerWatcher, v.Epoch+1)
	if _, err := tst.getOrCreateSidx(VT04SidxName); err != nil {
		panic(err)
	}
}

// Close stops the loop and closes the table.
func (v *VT04) Close() { _ = v.tst.Close() }

// Batch ingests batch b: two traces with timestamp b, and one entry (key b) in the secondary index.
func (v *VT04) Batch(b int) {
	ts := &traces{}
	for j := 0; j < 2; j++ {
		ts.traceIDs = append(ts.traceIDs, fmt.Sprintf("trace-%d-%d", b, j))
		ts.timestamps = append(ts.timestamps, int64(b))
		ts.tags = append(ts.tags, []*tagValue{
			{tag: "strTag", valueType: pbv1.ValueTypeStr, value: []byte(fmt.Sprintf("batch-%d", b))},
			{tag: "intTag", valueType: pbv1.ValueTypeInt64, value: convert.Int64ToBytes(int64(b))},
		})
		ts.spans = append(ts.spans, []byte(fmt.Sprintf("span-%d-%d", b, j)))
		ts.spanIDs = append(ts.spanIDs, fmt.Sprintf("span-%d-%d", b, j))
	}
	idx, err := v.tst.getOrCreateSidx(VT04SidxName)
	if err != nil {
		panic(err)
	}
	minTS, maxTS := int64(b), int64(b)
	mp, err := idx.ConvertToMemPart([]sidx.WriteRequest{
		{SeriesID: common.SeriesID(1), Key: int64(b), Data: []byte(fmt.Sprintf("trace-%d-0", b))},
	}, 0, &minTS, &maxTS)
	if err != nil {
		panic(err)
	}
	v.tst.mustAddTraces(ts, map[string]*sidx.MemPart{VT04SidxName: mp})
}

// Flush is the flusher loop body: flush every memory part of the current snapshot (core parts, then every sidx).
func (v *VT04) Flush() bool {
	cur := v.tst.currentSnapshot()
	if cur == nil {
		return false
	}
	defer cur.decRef()
	v.tst.flush(cur, v.flushCh)
	return true
}

// MergeAll is the merge loop body with the merge policy's choice replaced by "every file part of the current
// snapshot": the real mergePartsThenSendIntroduction (core parts and every sidx), introduced by the real
// introducer loop (introduceMerged: commit, persistSnapshot, release of the replaced parts).
func (v *VT04) MergeAll() bool {
	cur := v.tst.currentSnapshot()
	if cur == nil {
		return false
	}
	defer cur.decRef()
	var dst []*partWrapper
	toBeMerged := make(map[uint64]struct{})
	for _, pw := range cur.parts {
		if pw.mp != nil {
			continue
		}
		dst = append(dst, pw)
		toBeMerged[pw.ID()] = struct{}{}
	}
	if len(dst) < 2 {
		return false
	}
	if _, err := v.tst.mergePartsThenSendIntroduction(snapshotCreatorMerger, dst, toBeMerged, v.mergeCh,
		v.tst.loopCloser.CloseNotify(), mergeTypeFile, mergeLaneFast, nil); err != nil {
		panic(err)
	}
	return true
}

// WaitGone waits until no core part directory and no index part directory other than those of the current
// snapshot is left (the replaced parts are removed asynchronously).
func (v *VT04) WaitGone() bool {
	for i := 0; i < 50000; i++ {
		keep := make(map[string]bool)
		cur := v.tst.currentSnapshot()
		if cur != nil {
			for _, pw := range cur.parts {
				keep[partName(pw.ID())] = true
			}
			cur.decRef()
		}
		pending := false
		for _, d := range []string{v.Root, filepath.Join(v.Root, sidxDirName, VT04SidxName)} {
			ee, err := os.ReadDir(d)
			if err != nil {
				continue
			}
			for _, e := range ee {
				if e.IsDir() && e.Name() != sidxDirName && !keep[e.Name()] {
					pending = true
				}
			}
		}
		if !pending {
			return true
		}
		time.Sleep(200 * time.Microsecond)
	}
	return false
}

// Dump: "epoch=<hex> parts=<id>:<m|f>:<batch>;... sidx=<PartCount|-> sidxdirs=<id>,..." — the batch of a part is the
// minimum timestamp of its metadata (one batch per part in this stream).
func (v *VT04) Dump() string {
	var ps []string
	ep := "-"
	cur := v.tst.currentSnapshot()
	if cur != nil {
		ep = fmt.Sprintf("%x", cur.epoch)
		for _, pw := range cur.parts {
			kind := "f"
			var pm *partMetadata
			if pw.mp != nil {
				kind = "m"
				pm = &pw.mp.partMetadata
			} else {
				pm = &pw.p.partMetadata
			}
			// the batches of a part are the timestamps MinTimestamp..MaxTimestamp (a merged part covers a range;
			// histories merge neighbouring batches only), two traces each
			bs := fmt.Sprintf("%d-%d", pm.MinTimestamp, pm.MaxTimestamp)
			if pm.TotalCount != uint64(2*(pm.MaxTimestamp-pm.MinTimestamp+1)) {
				bs += "!"
			}
			ps = append(ps, fmt.Sprintf("%x:%s:%s", pw.ID(), kind, bs))
		}
		cur.decRef()
	}
	cnt := "-"
	if idx, ok := v.tst.getSidx(VT04SidxName); ok {
		st, err := idx.Stats(context.Background())
		if err != nil {
			cnt = "ERR"
		} else {
			cnt = fmt.Sprintf("%d", st.PartCount)
		}
	}
	var dirs []string
	ee, err := os.ReadDir(filepath.Join(v.Root, sidxDirName, VT04SidxName))
	if err == nil {
		for _, e := range ee {
			if e.IsDir() {
				dirs = append(dirs, e.Name())
			}
		}
	}
	sort.Strings(dirs)
	return fmt.Sprintf("epoch=%s parts=%s sidx=%s sidxdirs=%s", ep, strings.Join(ps, ";"), cnt, strings.Join(dirs, ","))
}

// WaitClean waits until at most one manifest is left (gc.clean of the introducer ran).
func (v *VT04) WaitClean() bool {
	for i := 0; i < 50000; i++ {
		ee, err := os.ReadDir(v.Root)
		if err != nil {
			return false
		}
		n := 0
		for _, e := range ee {
			if !e.IsDir() && strings.HasSuffix(e.Name(), snapshotSuffix) {
				n++
			}
		}
		if n <= 1 {
			return true
		}
		time.Sleep(200 * time.Microsecond)
	}
	return false
}
