//go:build verif

// Export hook for the /verif C05 driver: ONE real trace tsTable without background loops (the driver plays the
// introducer: real introducePart / introduceFlushed, i.e. the transaction + publication-fence path) and the real
// trace-id query pipeline: staticTraceBatchSource → trace.startBlockScanStage (pins the core snapshot per batch,
// scans inline) → queryResult.Pull / Release. Scan failures after the batch hand-over are injected the way they arise
// in production: the memory protector's block-scan quota.
package trace

import (
	"context"
	"fmt"
	"sort"
	"strings"
	"sync/atomic"

	"github.com/apache/skywalking-banyandb/api/common"
	"github.com/apache/skywalking-banyandb/banyand/protector"
	"github.com/apache/skywalking-banyandb/pkg/fs"
	"github.com/apache/skywalking-banyandb/pkg/logger"
	pbv1 "github.com/apache/skywalking-banyandb/pkg/pb/v1"
	"github.com/apache/skywalking-banyandb/pkg/query/model"
	"github.com/apache/skywalking-banyandb/pkg/run"
)

type vc05Quota struct {
	protector.Nop
	quota int64
}

func (q vc05Quota) AvailableBytes() int64 { return q.quota }

// VC05Trace is one trace table under test.
type VC05Trace struct {
	tst     *tsTable
	flushCh chan *flusherIntroduction
	held    map[int]*snapshot
	epoch   uint64
	nBatch  int
	closed  bool
}

// VC05TraceNew opens an empty table rooted at root.
func VC05TraceNew(root string) *VC05Trace {
	_ = logger.Init(logger.Logging{Env: "prod", Level: "error"})
	tst, epoch := initTSTable(fs.NewLocalFileSystem(), root, common.Position{}, logger.GetLogger("verif-c05-trace"),
		option{mergePolicy: newDefaultMergePolicyForTesting(), protector: protector.Nop{}}, nil)
	tst.loopCloser = run.NewCloser(1)
	tst.introductions = make(chan *introduction)
	return &VC05Trace{tst: tst, epoch: epoch + 1, flushCh: make(chan *flusherIntroduction), held: map[int]*snapshot{}}
}

func (v *VC05Trace) serve(producer func()) {
	done := make(chan any, 1)
	go func() {
		defer func() { done <- recover() }()
		producer()
	}()
	for {
		select {
		case ind := <-v.tst.introductions:
			v.tst.introducePart(ind, v.epoch)
			v.epoch++
		case ind := <-v.flushCh:
			v.tst.introduceFlushed(ind, v.epoch)
			v.tst.gc.clean()
			v.epoch++
		case r := <-done:
			if r != nil {
				panic(fmt.Sprintf("producer: %v", r))
			}
			return
		}
	}
}

// Closed reports whether Close has run.
func (v *VC05Trace) Closed() bool { return v.closed }

// Write adds batch n: traces "t<n>a" and "t<n>b", one span each.
func (v *VC05Trace) Write() {
	v.nBatch++
	n := v.nBatch
	ts := &traces{
		traceIDs:   []string{fmt.Sprintf("t%da", n), fmt.Sprintf("t%db", n)},
		timestamps: []int64{int64(n) * 10, int64(n)*10 + 1},
		tags: [][]*tagValue{
			{{tag: "strTag", valueType: pbv1.ValueTypeStr, value: []byte("v")}},
			{{tag: "strTag", valueType: pbv1.ValueTypeStr, value: []byte("v")}},
		},
		spans:   [][]byte{[]byte(fmt.Sprintf("span-%da", n)), []byte(fmt.Sprintf("span-%db", n))},
		spanIDs: []string{fmt.Sprintf("s%da", n), fmt.Sprintf("s%db", n)},
	}
	v.serve(func() { v.tst.mustAddTraces(ts, nil) })
}

// FlushAll is the flusher body: pin, flush every mem part, unpin.
func (v *VC05Trace) FlushAll() {
	s := v.tst.currentSnapshot()
	if s == nil {
		return
	}
	defer s.decRef()
	v.serve(func() { v.tst.flush(s, v.flushCh) })
}

// Query runs the trace-id query pipeline for the given trace ids.
// mode: "o" pull everything, "f" scan fails after the batch was handed over (block-scan quota 0), "e" release without
// pulling, "p" pull once then release. Returns "<traces>/<spans>" or "ERR" for a surfaced scan error.
func (v *VC05Trace) Query(mode string, ids []string, batchSize int) string {
	quota := int64(-1)
	if mode == "f" {
		quota = 0
	}
	t := &trace{pm: vc05Quota{quota: quota}, l: logger.GetLogger("verif-c05-trace")}
	sort.Strings(ids)
	ctx, cancel := context.WithCancel(context.Background())
	qo := queryOptions{traceIDs: ids}
	qo.TagProjection = &model.TagProjection{}
	qr := &queryResult{ctx: ctx, cancel: cancel, keys: map[string]int64{}, tagProjection: qo.TagProjection}
	batchCh := staticTraceBatchSource(ctx, ids, batchSize, qr.keys)
	qr.cursorBatchCh = t.startBlockScanStage(ctx, []*tsTable{v.tst}, qo, batchCh)
	res := ""
	nTraces, nSpans := 0, 0
	if mode != "e" {
		for {
			r := qr.Pull()
			if r == nil {
				break
			}
			if r.Error != nil {
				res = "ERR"
				break
			}
			nTraces++
			nSpans += len(r.Spans)
			if mode == "p" {
				break
			}
		}
	}
	qr.Release()
	if res == "" {
		res = fmt.Sprintf("%d/%d", nTraces, nSpans)
	}
	return res
}

// Acquire pins the current snapshot as holder k.
func (v *VC05Trace) Acquire(k int) bool {
	if _, ok := v.held[k]; ok {
		return false
	}
	s := v.tst.currentSnapshot()
	if s == nil {
		return false
	}
	v.held[k] = s
	return true
}

// Release drops holder k.
func (v *VC05Trace) Release(k int) bool {
	s, ok := v.held[k]
	if !ok {
		return false
	}
	delete(v.held, k)
	s.decRef()
	return true
}

// Close closes the table.
func (v *VC05Trace) Close() {
	v.closed = true
	_ = v.tst.Close()
}

func vc05TraceList(s *snapshot) string {
	var b []string
	for _, pw := range s.parts {
		k := "f"
		if pw.mp != nil {
			k = "m"
		}
		b = append(b, fmt.Sprintf("%d%s", pw.ID(), k))
	}
	return "[" + strings.Join(b, ",") + "]"
}

// Dump renders: C=<epoch>:<ref>:[parts] W=<part>:<ref>,… H=k:<epoch>:<ref>:[parts];…
func (v *VC05Trace) Dump() string {
	var sb strings.Builder
	cur := v.tst.snapshot
	var wl []string
	if cur == nil {
		sb.WriteString("C=-")
	} else {
		fmt.Fprintf(&sb, "C=%d:%d:%s", cur.epoch, atomic.LoadInt32(&cur.ref), vc05TraceList(cur))
		for _, pw := range cur.parts {
			k := "f"
			if pw.mp != nil {
				k = "m"
			}
			wl = append(wl, fmt.Sprintf("%d%s:%d", pw.ID(), k, atomic.LoadInt32(&pw.ref)))
		}
	}
	sb.WriteString(" W=" + strings.Join(wl, ","))
	keys := make([]int, 0, len(v.held))
	for k := range v.held {
		keys = append(keys, k)
	}
	sort.Ints(keys)
	var hl []string
	for _, k := range keys {
		h := v.held[k]
		hl = append(hl, fmt.Sprintf("%d:%d:%d:%s", k, h.epoch, atomic.LoadInt32(&h.ref), vc05TraceList(h)))
	}
	sb.WriteString(" H=" + strings.Join(hl, ";"))
	return sb.String()
}

// Shutdown releases everything.
func (v *VC05Trace) Shutdown() {
	for k := range v.held {
		v.Release(k)
	}
	if !v.closed {
		v.Close()
	}
}
