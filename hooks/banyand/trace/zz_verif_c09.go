//go:build verif

package trace

import (
	"context"
	"fmt"
	"strings"

	"github.com/apache/skywalking-banyandb/banyand/internal/sidx"
)

// VerifC09EncodeTraceID is the trace-id payload format stored in the sidx data column.
func VerifC09EncodeTraceID(id string) []byte {
	buf := make([]byte, len(id)+1)
	buf[0] = byte(idFormatV1)
	copy(buf[1:], id)
	return buf
}

// VerifC09StreamSIDX runs the real cross-instance merge trace.streamSIDXTraceBatches over the given (real) sidx
// instances and renders the batches as "key:traceID,.../...".
func VerifC09StreamSIDX(instances []sidx.SIDX, req sidx.QueryRequest, maxTraceSize int) string {
	ctx, cancel := context.WithCancel(context.Background())
	defer cancel()
	var tr trace
	batchCh, done := tr.streamSIDXTraceBatches(ctx, instances, req, maxTraceSize)
	var bs []string
	failed := false
	for batch := range batchCh {
		if batch.err != nil {
			failed = true
			continue
		}
		var es []string
		for _, tid := range batch.traceIDsOrder {
			es = append(es, fmt.Sprintf("%d:%s", batch.keys[tid], tid))
		}
		if len(es) == 0 {
			bs = append(bs, "_")
		} else {
			bs = append(bs, strings.Join(es, ","))
		}
	}
	<-done
	if failed {
		return "ERR"
	}
	if len(bs) == 0 {
		return "-"
	}
	return strings.Join(bs, "/")
}
