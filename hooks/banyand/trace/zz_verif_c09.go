//go:build verif

package trace

import (
	"context"
	"fmt"
	"strings"

	"github.com/apache/skywalking-banyandb/banyand/internal/sidx"
)

// VerifC09EncodeTraceID is the trace-id payload format stored in the sidx data column.
func VerifC09EncodeTraceID(id string) []byte {
	buf := make([]byte, len(id)+1)
	buf[0] = byte(idFormatV1)
	copy(buf[1:], id)
	return buf
}

// VerifC09StreamSIDX runs the real cross-instance merge trace.streamSIDXTraceBatches over the given (real) sidx
// instances and renders the batches as "key:traceID,.../...".
func VerifC09StreamSIDX(instances []sidx.SIDX, req sidx.QueryRequest, maxTraceSize int) string {
	ctx, cancel := context.WithCancel(context.Background())
	defer cancel()
	var tr trace
	batchCh, done := tr.streamSIDXTraceBatches(ctx, instances, req, maxTraceSize)
	var bs []string
	failed := false
	for batch := range batchCh {
		if batch.err != nil {
			failed = true
			continue
		}
		var es []string
		for _, tid := range batch.traceIDsOrder {
			es = append(es, fmt.Sprintf("%d:%s", batch.keys[tid], tid))
		}
		if len(es) == 0 {
			bs = append(bs, "_")
		} else {
			bs = append(bs, strings.Join(es, ","))
		}
	}
	<-done
	if failed {
		return "ERR"
	}
	if len(bs) == 0 {
		return "-"
	}
	return strings.Join(bs, "/")
}

// VerifC09Disjoint runs the trace engine's copy of getDisjointParts on parts that only carry [min,max] time ranges.
func VerifC09Disjoint(ranges [][2]int64, asc bool) [][]uint64 {
	ps := make([]*part, 0, len(ranges))
	for i, r := range ranges {
		p := &part{}
		p.partMetadata.ID = uint64(i + 1)
		p.partMetadata.MinTimestamp = r[0]
		p.partMetadata.MaxTimestamp = r[1]
		ps = append(ps, p)
	}
	var out [][]uint64
	for _, g := range getDisjointParts(ps, asc) {
		var ids []uint64
		for _, p := range g {
			ids = append(ids, p.partMetadata.ID)
		}
		out = append(out, ids)
	}
	return out
}
