//go:build verif

// Verification hooks for property C13 (whole-trace storage / sampling). Injected by
// `go build -tags verif -overlay`; never part of /repo. This file exposes the
// pure decision logic (fragment guard, drop set, sampler chain) to the c13 driver.
package trace

import (
	"context"
	"errors"
	"fmt"
	"sort"
	"strconv"
	"strings"
	"time"

	"github.com/apache/skywalking-banyandb/pkg/pipeline/sdk"
	"github.com/apache/skywalking-banyandb/pkg/pipeline/sdk/sdktest"
	"github.com/apache/skywalking-banyandb/pkg/timestamp"
)

// VerifC13 handles one protocol line.
func VerifC13(f []string) string {
	if len(f) == 0 {
		return "bad-op"
	}
	switch f[0] {
	case "gr":
		return verifC13Guard(f[1:])
	case "ds":
		return verifC13DropSet(f[1:])
	case "dt":
		return verifC13Tracker(f[1:])
	case "ch":
		return verifC13Chain(f[1:])
	case "tb":
		return verifC13Table(f[1:])
	case "sp":
		return verifC13SearchPBM(f[1:])
	case "pb":
		return verifC13PartIter(f[1:])
	case "cv":
		return verifC13Coverage(f[1:])
	case "sg":
		return verifC13Stager(f[1:])
	}
	return "bad-op"
}

func c13Int(s string) int64 {
	v, err := strconv.ParseInt(s, 10, 64)
	if err != nil {
		panic("bad int in protocol: " + s)
	}
	return v
}

func c13KV(tok string) (string, string) {
	i := strings.IndexByte(tok, '=')
	if i < 0 {
		return tok, ""
	}
	return tok[:i], tok[i+1:]
}

func c13Split(s, sep string) []string {
	if s == "-" || s == "" {
		return nil
	}
	return strings.Split(s, sep)
}

// ---------------------------------------------------------------------------------------
// fragment guard: Resolve / RevalidateDrops / Close driven as pure functions

type c13Pin struct{ releases int }

func (p *c13Pin) Release() { p.releases++ }

// c13Filter answers Lookup(traceID) from a per-trace-id letter table (trace ids are "0".."9").
type c13Filter struct{ table string }

func (f c13Filter) Lookup(traceID string) (traceFragmentMembership, error) {
	idx := 0
	if traceID != "" {
		idx = int(traceID[0] - '0')
	}
	c := byte('U')
	if idx >= 0 && idx < len(f.table) {
		c = f.table[idx]
	} else if len(f.table) > 0 {
		c = f.table[len(f.table)-1]
	}
	switch c {
	case 'A':
		return traceFragmentMembershipAbsent, nil
	case 'M':
		return traceFragmentMembershipMaybePresent, nil
	case 'U':
		return traceFragmentMembershipUnknown, nil
	case 'E':
		return traceFragmentMembershipMaybePresent, errors.New("lookup failed")
	case 'e':
		return traceFragmentMembershipAbsent, errors.New("lookup failed")
	case 'X':
		return traceFragmentMembership(7), nil
	}
	panic("bad filter letter")
}

// c13Ctx is a context whose Err() turns into Canceled after `at` successful calls.
type c13Ctx struct {
	context.Context
	calls int
	at    int
}

func (c *c13Ctx) Err() error {
	c.calls++
	if c.at >= 0 && c.calls > c.at {
		return context.Canceled
	}
	return nil
}

func c13NewCtx(spec string) *c13Ctx {
	at := -1
	if spec != "-" {
		at = int(c13Int(spec))
	}
	return &c13Ctx{Context: context.Background(), at: at}
}

func c13Parts(spec string) []traceFragmentGuardPart {
	var out []traceFragmentGuardPart
	for i, ps := range c13Split(spec, ";") {
		q := strings.Split(ps, ",")
		p := traceFragmentGuardPart{ID: uint64(i + 1), MinTimestamp: c13Int(q[0]), MaxTimestamp: c13Int(q[1]), BoundsKnown: q[2] == "1"}
		if q[3] != "n" {
			p.Filter = c13Filter{table: q[3]}
		}
		out = append(out, p)
	}
	return out
}

func c13Reason(r traceFragmentGuardReason) string {
	if r == "" {
		return "none"
	}
	return string(r)
}

func verifC13Guard(f []string) string {
	var cfg traceFragmentGuardConfig
	var cat traceFragmentGuardCatalog
	pin := &c13Pin{}
	i := 0
	for ; i < len(f); i++ {
		k, v := c13KV(f[i])
		done := false
		switch k {
		case "G":
			cfg.Grace = time.Duration(c13Int(v))
		case "P":
			cfg.MaxBloomProbes = int(c13Int(v))
		case "D":
			cfg.MaxConfirmedDrops = int(c13Int(v))
		case "cat":
			cat.Complete = v[0] == '1'
			if v[1] == '1' {
				cat.Pin = pin
			}
			cat.CoverageKnown = v[2] == '1'
		case "cov":
			q := strings.Split(v, ",")
			cat.CoverageMinTimestamp, cat.CoverageMaxTimestamp = c13Int(q[0]), c13Int(q[1])
		case "ts":
			cat.TemporalSafety = traceFragmentTemporalSafety(c13Int(v))
		case "gap":
			cat.EnforcedMaxFragmentGap = time.Duration(c13Int(v))
		case "be":
			cat.BaseEpoch = uint64(c13Int(v))
		case "parts":
			cat.OutsideParts = c13Parts(v)
		default:
			done = true
		}
		if done {
			break
		}
	}
	g := newTraceFragmentGuard(cfg, cat)
	var out []string
	for ; i < len(f); i++ {
		q := strings.Split(f[i], ":")
		switch q[0] {
		case "R":
			tr := traceFragmentGuardTrace{Complete: q[2] == "1"}
			if q[1] != "-" {
				tr.TraceID = q[1]
			}
			for _, bs := range c13Split(q[3], "/") {
				b := strings.Split(bs, ",")
				tr.Blocks = append(tr.Blocks, traceFragmentGuardBlock{MinTimestamp: c13Int(b[0]), MaxTimestamp: c13Int(b[1]), BoundsKnown: b[2] == "1"})
			}
			ctx := c13NewCtx(q[5])
			d := g.Resolve(ctx, tr, traceFragmentSamplerAction(c13Int(q[4])))
			cd := "-"
			if d.ConfirmedDrop != nil {
				cd = fmt.Sprintf("%s,%d,%d,%s", d.ConfirmedDrop.TraceID, d.ConfirmedDrop.MinTimestamp, d.ConfirmedDrop.MaxTimestamp, b01(d.ConfirmedDrop.BoundsKnown))
			}
			out = append(out, fmt.Sprintf("R %d %s %d %d %s %d", d.Action, c13Reason(d.Reason), d.CandidateParts, d.BloomProbes, cd, d.BaseEpoch))
		case "V":
			req := traceFragmentGuardRevalidationRequest{
				DeltaParts:              c13Parts(q[1]),
				CurrentEpoch:            uint64(c13Int(q[2])),
				DeltaCatalogComplete:    q[3][0] == '1',
				OwnershipUnchanged:      q[3][1] == '1',
				SelectedInputsUnchanged: q[3][2] == '1',
				PublicationFenceHeld:    q[3][3] == '1',
			}
			ctx := c13NewCtx(q[4])
			r := g.RevalidateDrops(ctx, req)
			out = append(out, fmt.Sprintf("V %s %s %d %d %d", b01(r.Publish), c13Reason(r.Reason), r.RecheckedTraces, r.BloomProbes, r.CurrentEpoch))
		case "C":
			g.Close()
			out = append(out, fmt.Sprintf("C %d", pin.releases))
		default:
			return "bad-op"
		}
	}
	return strings.Join(out, " | ")
}

func b01(b bool) string {
	if b {
		return "1"
	}
	return "0"
}

// ---------------------------------------------------------------------------------------
// drop set / drop tracker

func c13UnHex(s string) []byte {
	if s == "-" {
		return []byte{}
	}
	out := make([]byte, len(s)/2)
	for i := range out {
		v, err := strconv.ParseUint(s[2*i:2*i+2], 16, 8)
		if err != nil {
			panic("bad hex " + s)
		}
		out[i] = byte(v)
	}
	return out
}

// ds a:<hexid> ... k:<hexdata> ...   (ops in order; k on a nil set when no add happened)
func verifC13DropSet(f []string) string {
	var set *droppedTraceIDs
	defer func() {
		if set != nil {
			// do not return a set whose invariants a panicking add may have left in doubt
			set.ids, set.slots = nil, nil
		}
	}()
	var sb strings.Builder
	for _, tok := range f {
		q := strings.SplitN(tok, ":", 2)
		switch q[0] {
		case "a":
			recordDroppedTraceID(&set, string(c13UnHex(q[1])))
			sb.WriteByte('a')
		case "k":
			if set.keepEncoded(c13UnHex(q[1])) {
				sb.WriteByte('1')
			} else {
				sb.WriteByte('0')
			}
		default:
			return "bad-op"
		}
	}
	return fmt.Sprintf("%s len=%d", sb.String(), set.len())
}

// dt <budget> <hexid> ...   : canAccept/record sequence of one merge's dropTracker
func verifC13Tracker(f []string) string {
	dt := dropTracker{budget: uint64(c13Int(f[0]))}
	defer func() {
		if dt.exact != nil {
			dt.exact.ids, dt.exact.slots = nil, nil
		}
	}()
	var sb strings.Builder
	for _, tok := range f[1:] {
		id := string(c13UnHex(tok))
		if dt.canAccept() {
			dt.record(id)
			sb.WriteByte('1')
		} else {
			sb.WriteByte('0')
		}
	}
	if sb.Len() == 0 {
		sb.WriteByte('-')
	}
	return fmt.Sprintf("%s len=%d max=%d full=%s", sb.String(), dt.exact.len(), dt.maxIDs, b01(dt.full))
}

// ---------------------------------------------------------------------------------------
// sampler chain fail-open

type c13Sampler struct {
	release chan struct{}
	spec    string
	calls   int
}

func (s *c13Sampler) Kind() sdk.Kind          { return sdk.KindSampler }
func (s *c13Sampler) Project() sdk.Projection { return sdk.Projection{} }
func (s *c13Sampler) Close() error            { return nil }
func (s *c13Sampler) Decide(b *sdk.TraceBatch) (sdk.Verdict, error) {
	s.calls++
	switch s.spec[0] {
	case 'e':
		return sdk.Verdict{Keep: make([]bool, len(b.Traces))}, errors.New("decide failed")
	case 'p':
		panic("sampler panic")
	case 't':
		<-s.release
		return sdk.Verdict{Keep: make([]bool, len(b.Traces))}, nil
	case 'l':
		return sdk.Verdict{Keep: make([]bool, int(c13Int(s.spec[1:])))}, nil
	case 'm':
		keep := make([]bool, len(s.spec)-1)
		for i := range keep {
			keep[i] = s.spec[i+1] == '1'
		}
		return sdk.Verdict{Keep: keep}, nil
	}
	panic("bad sampler spec")
}

func c13Mask(m []bool) string {
	if len(m) == 0 {
		return "-"
	}
	var sb strings.Builder
	for _, b := range m {
		sb.WriteString(b01(b))
	}
	return sb.String()
}

// ch <n> <mode: eval|exec> <cbN> <rounds> <spec>;<spec>...
//   eval : sdktest.RunChain = sdk.EvaluateChain (shared chain semantics)
//   exec : mergeChain.Execute through the worker goroutine, timeout and circuit breaker, `rounds` times
func verifC13Chain(f []string) string {
	n := int(c13Int(f[0]))
	mode := f[1]
	cbN := int(c13Int(f[2]))
	rounds := int(c13Int(f[3]))
	var samplers []sdk.Sampler
	release := make(chan struct{})
	defer close(release)
	for _, sp := range c13Split(f[4], ";") {
		if sp == "nil" {
			samplers = append(samplers, nil)
			continue
		}
		samplers = append(samplers, &c13Sampler{spec: sp, release: release})
	}
	batch := &sdk.TraceBatch{Traces: make([]sdk.TraceBlock, n)}
	for i := range batch.Traces {
		batch.Traces[i].TraceID = strconv.Itoa(i)
	}
	if mode == "eval" {
		// the offline harness of the plugin SDK: same sdk.EvaluateChain the engine's merge chain runs
		var by []string
		v, report := sdktest.RunChain(samplers, batch)
		for _, b := range report.Bypassed {
			by = append(by, fmt.Sprintf("%d:%s", b.Idx, b.Reason))
		}
		if len(by) == 0 {
			by = []string{"-"}
		}
		return c13Mask(v.Keep) + " " + strings.Join(by, ",")
	}
	mc := newMergeChain("c13", "", samplers, cbN)
	defer mc.close()
	var out []string
	for r := 0; r < rounds; r++ {
		v, err := mc.Execute(batch, 250*time.Millisecond)
		e := "ok"
		if err != nil {
			e = err.Error()
		}
		out = append(out, c13Mask(v.Keep)+":"+e)
	}
	return strings.Join(out, " ")
}

func c13SortedKeys[V any](m map[string]V) []string {
	keys := make([]string, 0, len(m))
	for k := range m {
		keys = append(keys, k)
	}
	sort.Strings(keys)
	return keys
}

// ---------------------------------------------------------------------------------------
// reading a part by trace id: searchPBM as a pure function, and partIter over a real part whose
// primary (index) blocks are cut where the case says (the same flush mustWriteBlock performs when
// the 128 KiB primary-block buffer overflows), so that a trace can straddle primary blocks without
// multi-megabyte payloads.

func c13Tid(n int64) string { return fmt.Sprintf("t%06d", n) }

// sp <tid> <firstId,firstId,...>  ->  index at which reading starts | PANIC
func verifC13SearchPBM(f []string) (res string) {
	defer func() {
		if r := recover(); r != nil {
			res = "PANIC"
		}
	}()
	var idx []primaryBlockMetadata
	for _, s := range c13Split(f[1], ",") {
		idx = append(idx, primaryBlockMetadata{traceID: c13Tid(c13Int(s))})
	}
	out := searchPBM(idx, c13Tid(c13Int(f[0])))
	return strconv.Itoa(len(idx) - len(out))
}

// pb <wanted tid,...> <tid:count,tid:count|tid:count,...>  ->  blocks yielded by partIter
func verifC13PartIter(f []string) (res string) {
	defer func() {
		if r := recover(); r != nil {
			res = "PANIC"
		}
	}()
	mp := generateMemPart()
	defer releaseMemPart(mp)
	bw := generateBlockWriter()
	pblocks := c13Split(f[1], "|")
	nblocks := 0
	for _, pb := range pblocks {
		nblocks += len(c13Split(pb, ","))
	}
	bw.MustInitForMemPart(mp, nblocks)
	sid := 0
	for pi, pb := range pblocks {
		for _, b := range c13Split(pb, ",") {
			q := strings.Split(b, ":")
			tid, count := c13Tid(c13Int(q[0])), int(c13Int(q[1]))
			spans := make([][]byte, count)
			tags := make([][]*tagValue, count)
			tss := make([]int64, count)
			sids := make([]string, count)
			for i := range spans {
				sid++
				spans[i] = []byte(fmt.Sprintf("%s-%d", tid, sid))
				tags[i] = []*tagValue{}
				tss[i] = int64(1000 + sid)
				sids[i] = fmt.Sprintf("s%d", sid)
			}
			bw.MustWriteTrace(tid, spans, tags, tss, sids)
		}
		if pi != len(pblocks)-1 {
			// close the primary block here (what mustWriteBlock does on overflow)
			bw.mustFlushPrimaryBlock(bw.primaryBlockData)
			bw.primaryBlockData = bw.primaryBlockData[:0]
		}
	}
	bw.Flush(&mp.partMetadata, &mp.traceIDFilter, &mp.tagType)
	releaseBlockWriter(bw)
	p := openMemPart(mp)
	if len(p.primaryBlockMetadata) != len(pblocks) {
		return fmt.Sprintf("ERR primary blocks %d != %d", len(p.primaryBlockMetadata), len(pblocks))
	}
	var wanted []string
	for _, s := range c13Split(f[0], ",") {
		wanted = append(wanted, c13Tid(c13Int(s)))
	}
	bma := generateBlockMetadataArray()
	defer releaseBlockMetadataArray(bma)
	it := &partIter{}
	it.init(bma, p, wanted)
	var out []string
	for it.nextBlock() {
		n, _ := strconv.Atoi(strings.TrimLeft(it.curBlock.traceID[1:], "0"))
		out = append(out, fmt.Sprintf("%d:%d", n, it.curBlock.count))
	}
	if err := it.error(); err != nil {
		return "ERR " + strings.ReplaceAll(err.Error(), " ", "_")
	}
	if len(out) == 0 {
		return "-"
	}
	return strings.Join(out, ",")
}

// ---------------------------------------------------------------------------------------
// segment coverage: traceFragmentCoverage / traceFragmentCoverageHasInterior on a segment time range
// with any IncludeStart / IncludeEnd combination, and the guard a session would build from it
// (catalogue coverage = that result) resolving a DROP for a trace with the given bounds.

// cv <startNs|z> <endNs|z> <incStart><incEnd> <grace> <tmin> <tmax>
func verifC13Coverage(f []string) string {
	tr := timestamp.TimeRange{IncludeStart: f[2][0] == '1', IncludeEnd: f[2][1] == '1'}
	if f[0] != "z" {
		tr.Start = time.Unix(0, c13Int(f[0]))
	}
	if f[1] != "z" {
		tr.End = time.Unix(0, c13Int(f[1]))
	}
	grace := time.Duration(c13Int(f[3]))
	mn, mx, known := traceFragmentCoverage(tr)
	interior := traceFragmentCoverageHasInterior(mn, mx, grace)
	head := fmt.Sprintf("cov=%d,%d,%s int=%s", mn, mx, b01(known), b01(interior))
	if !known || !interior {
		return head + " nosession"
	}
	pin := &c13Pin{}
	g := newTraceFragmentGuard(
		traceFragmentGuardConfig{Grace: grace, MaxBloomProbes: 8, MaxConfirmedDrops: 8},
		traceFragmentGuardCatalog{
			Pin: pin, BaseEpoch: 1, Complete: true, CoverageKnown: known, CoverageMinTimestamp: mn, CoverageMaxTimestamp: mx,
			EnforcedMaxFragmentGap: grace, TemporalSafety: traceFragmentTemporalSafetyMaxGapEnforced,
		})
	defer g.Close()
	d := g.Resolve(context.Background(), traceFragmentGuardTrace{
		TraceID: "t", Complete: true,
		Blocks: []traceFragmentGuardBlock{{MinTimestamp: c13Int(f[4]), MaxTimestamp: c13Int(f[5]), BoundsKnown: true}},
	}, traceFragmentSamplerActionDrop)
	return fmt.Sprintf("%s R %d %s", head, d.Action, c13Reason(d.Reason))
}

// ---------------------------------------------------------------------------------------
// staging: the per-trace bounds traceEvaluationStager.stage derives from the physical blocks it
// is handed (any order of block timestamps), and the maturity decision taken on them.

// sg <frontier> <tid>:<min>:<max>:<known> ...
func verifC13Stager(f []string) string {
	filter := &mergeFilter{maturityFrontier: c13Int(f[0]), filterImmature: true}
	tes := &traceEvaluationStager{filter: filter, tracker: dropTracker{}}
	defer tes.releaseBuffers()
	for _, b := range f[1:] {
		q := strings.Split(b, ":")
		bp := generateBlockPointer()
		bp.bm.traceID = c13Tid(c13Int(q[0]))
		bp.bm.timestamps.min, bp.bm.timestamps.max, bp.bm.timestamps.known = c13Int(q[1]), c13Int(q[2]), q[3] == "1"
		tes.stage(stagedTrace{traceID: bp.bm.traceID, slowBlock: bp})
	}
	var out []string
	for i := range tes.groups {
		gr := &tes.groups[i]
		n, _ := strconv.Atoi(strings.TrimLeft(gr.traceID[1:], "0"))
		out = append(out, fmt.Sprintf("%d[%d,%d,%s,%s]", n, gr.minTS, gr.maxTS, b01(gr.validMetadata), b01(stagedTraceGroupEligible(filter, gr))))
	}
	return fmt.Sprintf("%s ord=%s meta=%s", strings.Join(out, " "), b01(tes.invalidOrder), b01(tes.invalidMetadata))
}
