//go:build verif

// Table-level harness for C13: a real trace tsTable WITHOUT background loops. The driver
// plays the introducer itself (introducePart / introduceFlushed / introduceMerged are
// called directly, with explicit epochs), runs real merges (mergePartsThenSendIntroduction,
// runFinalizeRoundNamed) with a test sampler registered through the pipeline SDK interface,
// and can introduce a part while the merge runs (inside Decide, or at the publication fence).
package trace

import (
	"context"
	"fmt"
	"os"
	"path/filepath"
	"sort"
	"strconv"
	"strings"
	"sync/atomic"
	"time"

	"github.com/apache/skywalking-banyandb/api/common"
	"github.com/apache/skywalking-banyandb/banyand/internal/sidx"
	"github.com/apache/skywalking-banyandb/banyand/protector"
	"github.com/apache/skywalking-banyandb/pkg/fs"
	"github.com/apache/skywalking-banyandb/pkg/logger"
	"github.com/apache/skywalking-banyandb/pkg/pipeline/sdk"
	"github.com/apache/skywalking-banyandb/pkg/run"
	"github.com/apache/skywalking-banyandb/pkg/timestamp"
)

const c13SidxName = "idx"

var (
	c13Scratch   string
	c13CaseSeq   int
	c13LogInited bool
)

// VerifC13SetScratch tells the harness where per-case table directories go.
func VerifC13SetScratch(dir string) { c13Scratch = dir }

type c13Span struct {
	tid string
	sid string
	ts  int64
}

type c13Table struct {
	tst     *tsTable
	group   string
	root    string
	tids    map[string]struct{}
	lateErr  string
	epoch    uint64
	segStart int64
	segEnd   int64
}

func c13ParseSpans(spec string) []c13Span {
	var out []c13Span
	for _, s := range c13Split(spec, ",") {
		q := strings.Split(s, ".")
		out = append(out, c13Span{tid: q[0], sid: q[1], ts: c13Int(q[2])})
	}
	return out
}

// c13Payload is "<tid>.<sid>.<ts>", followed by "#" and padding when the span id ends in p<KiB>
// (a trace with more than maxUncompressedSpanSize of payload occupies several physical blocks).
func c13Payload(s c13Span) []byte {
	base := s.tid + "." + s.sid + "." + strconv.FormatInt(s.ts, 10)
	if i := strings.LastIndexByte(s.sid, 'p'); i > 0 {
		if kib, err := strconv.Atoi(s.sid[i+1:]); err == nil && kib > 0 {
			return append([]byte(base+"#"), make([]byte, kib*1024)...)
		}
	}
	return []byte(base)
}

// c13Row renders a stored span; padding is collapsed.
func c13Row(tid, sid string, payload []byte) string {
	p := string(payload)
	if i := strings.IndexByte(p, '#'); i >= 0 {
		p = p[:i]
	}
	return tid + "/" + sid + "/" + p
}

func c13NewTable(segStart, segEnd, grace int64) *c13Table {
	if !c13LogInited {
		_ = logger.Init(logger.Logging{Env: "prod", Level: "fatal"})
		c13LogInited = true
	}
	c13CaseSeq++
	group := fmt.Sprintf("c13g%d", c13CaseSeq)
	root := filepath.Join(c13Scratch, fmt.Sprintf("t%d", c13CaseSeq))
	if err := os.MkdirAll(root, 0o755); err != nil {
		panic(err)
	}
	tst, _ := initTSTable(fs.NewLocalFileSystem(), root, common.Position{Database: group}, logger.GetLogger("c13"),
		option{
			mergePolicy:               newMergePolicy(3, 1, run.Bytes(0)),
			protector:                 protector.Nop{},
			decideTimeout:             10 * time.Second,
			decideTimeoutCircuitBreak: 3,
			mergeGraceDefault:         time.Duration(grace),
			nativePipelineEnabled:     true,
		}, nil)
	tst.segmentTimeRange = timestamp.NewInclusiveTimeRange(time.Unix(0, segStart), time.Unix(0, segEnd))
	tst.loopCloser = run.NewCloser(1)
	tst.mergeCh = make(chan *mergerIntroduction)
	return &c13Table{tst: tst, group: group, root: root, epoch: 1, tids: map[string]struct{}{}, segStart: segStart, segEnd: segEnd}
}

func (t *c13Table) close() {
	resetC13Registry(t.group)
	_ = t.tst.Close()
	_ = os.RemoveAll(t.root)
}

func resetC13Registry(group string) {
	removeSamplersForGroup(group)
	setMergeEventForGroup(group, false)
}

// write introduces one batch as a memory part (trace part + sidx mem part), exactly what
// mustAddMemPart + the introducer loop do.
func (t *c13Table) write(spans []c13Span) uint64 {
	tst := t.tst
	ts := &traces{}
	var reqs []sidx.WriteRequest
	minTS, maxTS := spans[0].ts, spans[0].ts
	for _, s := range spans {
		t.tids[s.tid] = struct{}{}
		ts.traceIDs = append(ts.traceIDs, s.tid)
		ts.timestamps = append(ts.timestamps, s.ts)
		ts.tags = append(ts.tags, []*tagValue{})
		ts.spans = append(ts.spans, c13Payload(s))
		ts.spanIDs = append(ts.spanIDs, s.sid)
		data := make([]byte, len(s.tid)+1)
		data[0] = byte(idFormatV1)
		copy(data[1:], s.tid)
		reqs = append(reqs, sidx.WriteRequest{Data: data, SeriesID: common.SeriesID(1 + len(s.sid)%2), Key: s.ts})
		minTS, maxTS = min(minTS, s.ts), max(maxTS, s.ts)
	}
	mp := generateMemPart()
	mp.mustInitFromTraces(ts)
	sidxInstance := tst.mustGetOrCreateSidx(c13SidxName)
	smp, err := sidxInstance.ConvertToMemPart(reqs, 0, &minTS, &maxTS)
	if err != nil {
		panic(err)
	}
	p := openMemPart(mp)
	ind := generateIntroduction()
	defer releaseIntroduction(ind)
	ind.part = newPartWrapper(mp, p)
	ind.part.p.partMetadata.ID = atomic.AddUint64(&tst.curPartID, 1)
	ind.sidxReqsMap = map[string]*sidx.MemPart{c13SidxName: smp}
	tst.addPendingDataCount(int64(mp.partMetadata.TotalCount))
	id := ind.part.ID()
	tst.introducePart(ind, t.epoch)
	t.epoch++
	return id
}

// flush turns every memory part of the current snapshot into a file part through the real
// flusher code; the driver serves the flusher's introduction channel.
func (t *c13Table) flush() {
	tst := t.tst
	snp := tst.currentSnapshot()
	if snp == nil {
		return
	}
	defer snp.decRef()
	flushCh := make(chan *flusherIntroduction)
	done := make(chan struct{})
	go func() {
		defer close(done)
		tst.flush(snp, flushCh)
	}()
	select {
	case ind := <-flushCh:
		tst.introduceFlushed(ind, t.epoch)
		t.epoch++
		tst.gc.clean()
		<-done
	case <-done:
	}
}

type c13TableSampler struct {
	t        *c13Table
	table    map[string]byte
	late     func()
	log      []string
	lateDone bool
}

func (s *c13TableSampler) Kind() sdk.Kind          { return sdk.KindSampler }
func (s *c13TableSampler) Project() sdk.Projection { return sdk.Projection{} }
func (s *c13TableSampler) Close() error            { return nil }
func (s *c13TableSampler) Decide(b *sdk.TraceBatch) (sdk.Verdict, error) {
	ids := make([]string, len(b.Traces))
	keep := make([]bool, len(b.Traces))
	worst := byte('K')
	for i := range b.Traces {
		ids[i] = b.Traces[i].TraceID
		d, ok := s.table[ids[i]]
		if !ok {
			d = 'K'
		}
		keep[i] = d != 'D'
		switch {
		case d == 'P':
			worst = 'P'
		case d == 'E' && worst != 'P':
			worst = 'E'
		case d == 'L' && worst != 'P' && worst != 'E':
			worst = 'L'
		}
	}
	s.log = append(s.log, strings.Join(ids, "+")+"="+string(worst))
	if s.late != nil && !s.lateDone {
		s.lateDone = true
		func() {
			defer func() {
				if r := recover(); r != nil {
					s.t.lateErr = fmt.Sprint(r)
				}
			}()
			s.late()
		}()
	}
	switch worst {
	case 'P':
		panic("sampler panic")
	case 'E':
		return sdk.Verdict{Keep: make([]bool, len(keep))}, fmt.Errorf("decide failed")
	case 'L':
		return sdk.Verdict{Keep: make([]bool, len(keep)+1)}, nil
	}
	return sdk.Verdict{Keep: keep}, nil
}

// selectParts resolves a selection against the current snapshot's parts in part-id order:
// "*" all parts, "f*" all file parts, "m*" all memory parts, "iK+iL" by position. A selection
// mixing memory and file parts is reduced to its file parts (the engine never merges across kinds).
func (t *c13Table) selectParts(sel string) []*partWrapper {
	snp := t.tst.currentSnapshot()
	if snp == nil {
		return nil
	}
	defer snp.decRef()
	all := append([]*partWrapper(nil), snp.parts...)
	sort.Slice(all, func(i, j int) bool { return all[i].ID() < all[j].ID() })
	var chosen []*partWrapper
	switch sel {
	case "*":
		chosen = all
	case "f*":
		for _, pw := range all {
			if pw.mp == nil {
				chosen = append(chosen, pw)
			}
		}
	case "m*":
		for _, pw := range all {
			if pw.mp != nil {
				chosen = append(chosen, pw)
			}
		}
	default:
		for _, s := range c13Split(sel, "+") {
			idx := int(c13Int(s[1:]))
			if idx < len(all) {
				chosen = append(chosen, all[idx])
			}
		}
	}
	hasFile := false
	for _, pw := range chosen {
		if pw.mp == nil {
			hasFile = true
		}
	}
	var parts []*partWrapper
	for _, pw := range chosen {
		if hasFile && pw.mp != nil {
			continue
		}
		pw.incRef()
		parts = append(parts, pw)
	}
	return parts
}

// merge runs one real merge. mode N: no sampler registered; H: hot path (filter built by
// buildHotMergeFilterDecisionAt); Z: a finalize round (part selection by the engine).
func (t *c13Table) merge(q []string) string {
	tst := t.tst
	mode, sel, now, bm, dsb, samplerSpec, late := q[1], q[2], c13Int(q[3]), q[4], c13Int(q[5]), q[6], q[7]
	var fgrace int64
	if len(q) > 8 {
		fgrace = c13Int(q[8])
	}
	tst.setMergeNow(time.Unix(0, now))
	oldStage, oldDrop := testStageBudgetOverride, testDropSetBudgetOverride
	defer func() { testStageBudgetOverride, testDropSetBudgetOverride = oldStage, oldDrop }()
	testStageBudgetOverride, testDropSetBudgetOverride = 0, uint64(dsb)
	if bm == "e" {
		testStageBudgetOverride = 1
	}
	var lateSpans []c13Span
	lateKind := ""
	if late != "-" {
		i := strings.IndexByte(late, '!')
		lateKind = late[:i]
		lateSpans = c13ParseSpans(late[i+1:])
	}
	selMem := false
	doLate := func() {
		t.write(lateSpans)
		// the flusher never runs concurrently with a merge of memory parts (both live in the
		// flusher loop), so a late flush is only played against merges of file parts
		if strings.HasSuffix(lateKind, "F") && !selMem {
			t.flush()
		}
	}
	sampler := &c13TableSampler{t: t, table: map[string]byte{}}
	for _, kv := range c13Split(samplerSpec, ".") {
		k, v := c13KV(kv)
		sampler.table[k] = v[0]
	}
	if lateKind == "d" || lateKind == "dF" {
		sampler.late = doLate
	}
	resetC13Registry(t.group)
	if mode != "N" {
		registerSampler(t.group, sampler)
	}
	defer resetC13Registry(t.group)

	type result struct {
		err error
		ok  bool
	}
	done := make(chan result, 1)
	var parts []*partWrapper
	if mode != "Z" {
		parts = t.selectParts(sel)
		if len(parts) == 0 {
			return "M(none)"
		}
		defer func() {
			for _, pw := range parts {
				pw.decRef()
			}
		}()
		selMem = parts[0].mp != nil
	}
	closeCh := make(chan struct{})
	defer close(closeCh)
	go func() {
		defer func() {
			if r := recover(); r != nil {
				done <- result{err: fmt.Errorf("PANIC %v", r)}
			}
		}()
		if mode == "Z" {
			ok, err := tst.runFinalizeRoundNamed(lookupNamedSamplers(t.group), fgrace)
			done <- result{ok: ok, err: err}
			return
		}
		ids := make(map[uint64]struct{}, len(parts))
		for _, pw := range parts {
			ids[pw.ID()] = struct{}{}
		}
		typ := mergeTypeFile
		var creator snapshotCreator = snapshotCreatorMerger
		if parts[0].mp != nil {
			typ, creator = mergeTypeMem, snapshotCreatorMergedFlusher
		}
		pw, err := tst.mergePartsThenSendIntroduction(creator, parts, ids, tst.mergeCh, closeCh, typ, mergeLaneFast, nil)
		done <- result{ok: pw != nil, err: err}
	}()
	attempts, rejected := 0, 0
	fenceDone := false
	for {
		select {
		case mi := <-tst.mergeCh:
			attempts++
			if (lateKind == "f" || lateKind == "fF") && !fenceDone {
				fenceDone = true
				doLate()
			}
			tst.introduceMerged(mi, t.epoch)
			if mi.guardRejected {
				rejected++
			}
			t.epoch++
			tst.gc.clean()
		case r := <-done:
			res := "ok"
			if r.err != nil {
				res = "err:" + strings.ReplaceAll(r.err.Error(), " ", "_")
			} else if !r.ok {
				res = "noop"
			}
			dec := "-"
			if len(sampler.log) > 0 {
				dec = strings.Join(sampler.log, ";")
			}
			lateErr := ""
			if t.lateErr != "" {
				lateErr = " lateErr=" + strings.ReplaceAll(t.lateErr, " ", "_")
			}
			return fmt.Sprintf("M(%s dec=%s sent=%d rej=%d%s)", res, dec, attempts, rejected, lateErr)
		}
	}
}

// ---------------------------------------------------------------------------------------
// observations

// scanPart lists every (traceID, spanID, payload) of one part by reading its blocks the way
// the merger does; independent of the trace-id filter and of the query path.
func c13ScanPart(p *part) []string {
	pmi := generatePartMergeIter()
	pmi.mustInitFromPart(p)
	br := generateBlockReader()
	br.init([]*partMergeIter{pmi})
	decoder := generateColumnValuesDecoder()
	var out []string
	for br.nextBlockMetadata() {
		br.loadBlockData(decoder)
		b := br.block
		for i := range b.spans {
			sid := ""
			if i < len(b.spanIDs) {
				sid = b.spanIDs[i]
			}
			out = append(out, c13Row(b.bm.traceID, sid, b.spans[i]))
		}
	}
	if err := br.error(); err != nil {
		out = append(out, "ERR:"+strings.ReplaceAll(err.Error(), " ", "_"))
	}
	releaseColumnValuesDecoder(decoder)
	releaseBlockReader(br)
	releasePartMergeIter(pmi)
	sort.Strings(out)
	return out
}

// queryByID runs the table-level part of a query by trace id: snapshot part selection
// (time range + trace-id filter), tstIter, block cursors, queryResult.Pull.
func (t *c13Table) queryByID(tid string) []string {
	tst := t.tst
	s := tst.currentSnapshot()
	if s == nil {
		return nil
	}
	defer s.decRef()
	const minInt64, maxInt64 = -1 << 63, 1<<63 - 1
	pp, _ := s.getParts(nil, minInt64, maxInt64, []string{tid})
	bma := generateBlockMetadataArray()
	defer releaseBlockMetadataArray(bma)
	ti := &tstIter{}
	grouped := make([][]string, len(pp))
	for i := range grouped {
		grouped[i] = []string{tid}
	}
	ti.init(bma, pp, grouped)
	var cursors []*blockCursor
	for ti.nextBlock() {
		bc := generateBlockCursor()
		pi := ti.piPool[ti.idx]
		bc.init(pi.p, pi.curBlock, queryOptions{})
		cursors = append(cursors, bc)
	}
	var out []string
	if err := ti.Error(); err != nil {
		out = append(out, "ERR:"+strings.ReplaceAll(err.Error(), " ", "_"))
	}
	cursorCh := make(chan scanCursorResult, len(cursors))
	for _, c := range cursors {
		cursorCh <- scanCursorResult{cursor: c}
	}
	close(cursorCh)
	batchCh := make(chan *scanBatch, 1)
	batchCh <- &scanBatch{
		traceBatch: traceBatch{
			traceIDs:      map[uint64][]string{0: {tid}},
			traceIDsOrder: []string{tid},
			keys:          map[string]int64{tid: 0},
		},
		cursorCh: cursorCh,
	}
	close(batchCh)
	var qr queryResult
	qr.ctx = context.Background()
	qr.keys = map[string]int64{tid: 0}
	qr.cursorBatchCh = batchCh
	defer qr.Release()
	for {
		r := qr.Pull()
		if r == nil {
			break
		}
		if r.Error != nil {
			out = append(out, "ERR:"+strings.ReplaceAll(r.Error.Error(), " ", "_"))
			break
		}
		for i := range r.Spans {
			sid := ""
			if i < len(r.SpanIDs) {
				sid = r.SpanIDs[i]
			}
			out = append(out, c13Row(r.TID, sid, r.Spans[i]))
		}
	}
	sort.Strings(out)
	return out
}

func (t *c13Table) dump() string {
	tst := t.tst
	var sb strings.Builder
	sb.WriteString("S{")
	s := tst.currentSnapshot()
	if s != nil {
		parts := append([]*partWrapper(nil), s.parts...)
		sort.Slice(parts, func(i, j int) bool { return parts[i].ID() < parts[j].ID() })
		for _, pw := range parts {
			kind := "f"
			if pw.mp != nil {
				kind = "m"
			}
			pm := &pw.p.partMetadata
			fmt.Fprintf(&sb, "P%d%s[%d,%d,%d,g%d]", pw.ID(), kind, pm.MinTimestamp, pm.MaxTimestamp, pm.TotalCount, pm.FinalizeGen)
			sb.WriteString("(" + strings.Join(c13ScanPart(pw.p), ",") + ") ")
		}
		s.decRef()
	}
	sb.WriteString("} Q{")
	for _, tid := range c13SortedKeys(t.tids) {
		sb.WriteString(tid + ":" + strings.Join(t.queryByID(tid), ",") + " ")
	}
	sb.WriteString("} X{")
	if sidxInstance, ok := tst.getSidx(c13SidxName); ok {
		var rows []string
		err := sidx.VerifC13ScanAll(sidxInstance, func(r sidx.RawRow) error {
			tid := "?" + fmt.Sprintf("%x", r.Data)
			if len(r.Data) > 0 && idFormat(r.Data[0]) == idFormatV1 {
				tid = string(r.Data[1:])
			}
			rows = append(rows, fmt.Sprintf("%d/%s/%d/p%d", r.Key, tid, r.SeriesID, r.PartID))
			return nil
		})
		if err != nil {
			rows = append(rows, "ERR:"+strings.ReplaceAll(err.Error(), " ", "_"))
		}
		sort.Strings(rows)
		sb.WriteString(strings.Join(rows, ","))
	}
	sb.WriteString("}")
	// bloom false positives over the case's id universe: the model abstains on those
	sb.WriteString(" B{")
	if s2 := tst.currentSnapshot(); s2 != nil {
		var fp []string
		for _, pw := range s2.parts {
			have := map[string]struct{}{}
			for _, row := range c13ScanPart(pw.p) {
				have[row[:strings.IndexByte(row, '/')]] = struct{}{}
			}
			for tid := range t.tids {
				if _, ok := have[tid]; ok || pw.p.traceIDFilter.filter == nil {
					continue
				}
				if pw.p.traceIDFilter.filter.MightContain([]byte(tid)) {
					fp = append(fp, fmt.Sprintf("p%d:%s", pw.ID(), tid))
				}
			}
		}
		s2.decRef()
		sort.Strings(fp)
		sb.WriteString(strings.Join(fp, ","))
	}
	sb.WriteString("}")
	return sb.String()
}

// tb <segStart> <segEnd> <grace> ops...
//
//	W:<tid>.<sid>.<ts>,...          write one batch (memory part + sidx entries)
//	F                               flush memory parts
//	I:<incStart><incEnd>            IncludeStart / IncludeEnd of the segment time range (default 11)
//	M:<mode>:<sel>:<now>:<bm>:<dsb>:<sampler>:<late>[:<finalizeGrace>]
//	O                               observe (state dump); a dump is always appended at the end
func verifC13Table(f []string) string {
	t := c13NewTable(c13Int(f[0]), c13Int(f[1]), c13Int(f[2]))
	defer t.close()
	var out []string
	for _, op := range f[3:] {
		q := strings.Split(op, ":")
		switch q[0] {
		case "W":
			id := t.write(c13ParseSpans(q[1]))
			out = append(out, fmt.Sprintf("W%d", id))
		case "F":
			t.flush()
			out = append(out, "F")
		case "I":
			// segment time range flags (production segments are [start, end): "10")
			t.tst.segmentTimeRange = timestamp.NewTimeRange(time.Unix(0, t.segStart), time.Unix(0, t.segEnd), q[1][0] == '1', q[1][1] == '1')
			out = append(out, "I")
		case "M":
			out = append(out, t.merge(q))
		case "O":
			out = append(out, t.dump())
		default:
			return "bad-op"
		}
	}
	out = append(out, t.dump())
	return strings.Join(out, " ")
}
