//go:build verif

// Export hooks for the /verif C14 "engine holders" stream: a real trace TSDB and the real chunked-sync
// part handler (syncChunkCallback.CreatePartHandler / syncPartContext.Close), success and failure
// paths. Only calls into the package; the fixture mirrors write_data_segmentref_test.go.
package trace

import (
	"context"
	"errors"
	"fmt"
	"io"
	"os"
	"sync/atomic"
	"time"

	"github.com/apache/skywalking-banyandb/api/common"
	commonv1 "github.com/apache/skywalking-banyandb/api/proto/banyandb/common/v1"
	databasev1 "github.com/apache/skywalking-banyandb/api/proto/banyandb/database/v1"
	"github.com/apache/skywalking-banyandb/banyand/metadata/schema"
	"github.com/apache/skywalking-banyandb/banyand/internal/storage"
	"github.com/apache/skywalking-banyandb/banyand/protector"
	"github.com/apache/skywalking-banyandb/banyand/queue"
	"github.com/apache/skywalking-banyandb/pkg/fs"
	"github.com/apache/skywalking-banyandb/pkg/logger"
	resourceSchema "github.com/apache/skywalking-banyandb/pkg/schema"
	"github.com/apache/skywalking-banyandb/pkg/timestamp"
)

const verifC14Group = "test-group"

// VerifC14Engine is a trace engine instance over one TSDB.
type VerifC14Engine struct {
	db       storage.TSDB[*tsTable, option]
	ctl      *storage.VerifC14[*tsTable, option]
	segs     []*storage.VerifC14Seg[*tsTable, option]
	cb       *syncChunkCallback
	failOpen atomic.Bool
	base     time.Time
	k        int
}

type verifC14Grp struct{ db io.Closer }

func (g *verifC14Grp) GetSchema() *commonv1.Group { return nil }
func (g *verifC14Grp) SupplyTSDB() io.Closer      { return g.db }

type verifC14Repo struct{ groups map[string]resourceSchema.Group }

func (f *verifC14Repo) Watcher()                                         {}
func (f *verifC14Repo) Init(_ schema.Kind) ([]string, []int64)           { return nil, nil }
func (f *verifC14Repo) SendMetadataEvent(_ resourceSchema.MetadataEvent) {}
func (f *verifC14Repo) LoadGroup(name string) (resourceSchema.Group, bool) {
	g, ok := f.groups[name]
	return g, ok
}
func (f *verifC14Repo) LoadAllGroups() []resourceSchema.Group { return nil }
func (f *verifC14Repo) LatestModRevision() int64              { return 0 }
func (f *verifC14Repo) LoadResource(_ *commonv1.Metadata) (resourceSchema.Resource, bool) {
	return nil, false
}
func (f *verifC14Repo) LoadAllResources(_ string) []resourceSchema.Resource { return nil }
func (f *verifC14Repo) LoadAllIndexRules(_ string) []*databasev1.IndexRule  { return nil }
func (f *verifC14Repo) IndexRules(_ resourceSchema.ResourceSchema) []*databasev1.IndexRule {
	return nil
}
func (f *verifC14Repo) Close()                   {}
func (f *verifC14Repo) StopCh() <-chan struct{}  { return nil }
func (f *verifC14Repo) DropGroup(_ string) error { return nil }

// NewVerifC14Engine opens a trace TSDB under dir (pass a path RELATIVE to the working directory to make
// sidx creation fail, as with --trace-root-path=./data) with k daily segments starting at base.
func NewVerifC14Engine(dir string, base time.Time, k int) (*VerifC14Engine, error) {
	e := &VerifC14Engine{base: base, k: k}
	opts := storage.TSDBOpts[*tsTable, option]{
		ShardNum: 1,
		Location: dir,
		TSTableCreator: func(fileSystem fs.FileSystem, root string, p common.Position, l *logger.Logger,
			tr timestamp.TimeRange, opt option, m any,
		) (*tsTable, error) {
			if e.failOpen.Load() {
				return nil, errors.New("injected table open failure")
			}
			return newTSTable(fileSystem, root, p, l, tr, opt, m)
		},
		SegmentInterval: storage.IntervalRule{Unit: storage.DAY, Num: 1},
		TTL:             storage.IntervalRule{Unit: storage.DAY, Num: 3650},
		Option:          option{protector: protector.Nop{}, mergePolicy: newDefaultMergePolicyForTesting()},
	}
	if err := os.MkdirAll(dir, storage.DirPerm); err != nil {
		return nil, err
	}
	ctx := common.SetPosition(context.WithValue(context.Background(), logger.ContextKey, logger.GetLogger("verif-c14-trace")),
		func(p common.Position) common.Position {
			p.Database = "test"
			return p
		})
	db, err := storage.OpenTSDB[*tsTable, option](ctx, opts, nil, verifC14Group)
	if err != nil {
		return nil, err
	}
	e.db = db
	for d := 0; d < k; d++ {
		seg, cerr := db.CreateSegmentIfNotExist(e.day(d).Add(6 * time.Hour))
		if cerr != nil {
			return nil, cerr
		}
		if _, terr := seg.CreateTSTableIfNotExist(common.ShardID(0)); terr != nil {
			return nil, terr
		}
		seg.DecRef()
	}
	e.ctl = storage.NewVerifC14(db)
	e.segs = e.ctl.List()
	if len(e.segs) != k {
		return nil, fmt.Errorf("expected %d segments, got %d", k, len(e.segs))
	}
	e.cb = &syncChunkCallback{l: logger.GetLogger("verif-c14-trace"), schemaRepo: &schemaRepo{
		Repository: &verifC14Repo{groups: map[string]resourceSchema.Group{verifC14Group: &verifC14Grp{db: db}}},
		l:          logger.GetLogger("verif-c14-trace"),
	}}
	db.Tick(e.tickTS())
	e.settle()
	return e, nil
}

func (e *VerifC14Engine) tickTS() int64 { return e.base.Add(time.Duration(e.k)*24*time.Hour - 12*time.Hour).UnixNano() }

func (e *VerifC14Engine) settle() {
	for i := 0; i < 200; i++ {
		time.Sleep(5 * time.Millisecond)
		if e.ctl.RotationBusy() {
			continue
		}
		quiet := true
		for _, s := range e.segs {
			if rc, _, _, _ := s.State(); rc != 0 {
				quiet = false
			}
		}
		if quiet && i >= 10 {
			return
		}
	}
}

func (e *VerifC14Engine) day(d int) time.Time { return e.base.Add(time.Duration(d) * 24 * time.Hour) }

// K is the number of segments the driver has a handle for (grows with RotationTick).
func (e *VerifC14Engine) K() int { return len(e.segs) }

// RotationTick issues a real database.Tick with an event time inside the last hour before the newest
// segment's end (rotation enabled): the rotation goroutine pre-creates the next segment. Waits (bounded)
// until the new segment is listed and the asynchronous handler is done, then adopts a handle for it.
// Returns "new" or "none".
func (e *VerifC14Engine) RotationTick() string {
	end := e.day(len(e.segs))
	res := "none"
	for attempt := 0; attempt < 5 && res == "none"; attempt++ {
		// each attempt is 11 minutes later: a Tick that lost the non-blocking send cannot be repeated
		e.db.Tick(end.Add(-55*time.Minute + time.Duration(attempt)*11*time.Minute).UnixNano())
		for i := 0; i < 60 && res == "none"; i++ {
			time.Sleep(5 * time.Millisecond)
			for _, s := range e.ctl.List() {
				known := false
				for _, old := range e.segs {
					if old.Same(s) {
						known = true
					}
				}
				if !known {
					e.segs = append(e.segs, s)
					res = "new"
				}
			}
		}
	}
	// let the handler finish (it pins and unpins every segment): refCounts stable and not busy
	last, stable := "", 0
	for i := 0; i < 400 && stable < 6; i++ {
		time.Sleep(5 * time.Millisecond)
		cur := ""
		for _, s := range e.segs {
			rc, _, _, _ := s.State()
			cur += fmt.Sprint(rc, ",")
		}
		if cur == last && !e.ctl.RotationBusy() {
			stable++
		} else {
			stable = 0
		}
		last = cur
	}
	return res
}


// State reads (refCount, index != nil, mustBeDeleted, dir exists) of segment i.
func (e *VerifC14Engine) State(i int) (int32, bool, bool, bool) { return e.segs[i].State() }

// Hold takes the driver's own reference on segment i.
func (e *VerifC14Engine) Hold(i int) error { return e.segs[i].IncRef() }

// Release gives it back.
func (e *VerifC14Engine) Release(i int) { e.segs[i].DecRef() }

// Look is what a holder sees: IndexDB() != nil and the directory.
func (e *VerifC14Engine) Look(i int) bool {
	_, _, _, dir := e.segs[i].State()
	return e.segs[i].IndexOpen() && dir
}

// IdleReclaim ages every segment and runs closeIdleSegments.
func (e *VerifC14Engine) IdleReclaim() int {
	for _, s := range e.segs {
		s.SetLastAccessed(1)
	}
	return e.ctl.CloseIdle()
}

// Delete is DeleteExpiredSegments([segment i]).
func (e *VerifC14Engine) Delete(i int) int64 { return e.db.DeleteExpiredSegments([]string{e.segs[i].Suffix()}) }

// Close closes the TSDB.
func (e *VerifC14Engine) Close() error { return e.db.Close() }

// SyncPart drives syncChunkCallback.CreatePartHandler for segment i and, when it succeeds, closes the
// handler. how: "ok" (core part), "sx" (first part is a sidx part: fails on a relative data path),
// "os" (core part, then a sidx part type on the same handler), "ts" (MinTimestamp 0), "gr" (unknown
// group), "tb" (shard table cannot be opened).
func (e *VerifC14Engine) SyncPart(i int, how string) string {
	ts := e.day(i).Add(7 * time.Hour).UnixNano()
	ctx := &queue.ChunkedSyncPartContext{ID: 1, Group: verifC14Group, ShardID: 0, MinTimestamp: ts, MaxTimestamp: e.tickTS(), PartType: PartTypeCore}
	switch how {
	case "sx":
		ctx.PartType = "sidx_duration"
	case "ts":
		ctx.MinTimestamp = 0
	case "gr":
		ctx.Group = "no-such-group"
	case "tb":
		ctx.ShardID = 7
		e.failOpen.Store(true)
		defer e.failOpen.Store(false)
	}
	h, err := e.cb.CreatePartHandler(ctx)
	if err != nil {
		return "err"
	}
	res := "ok"
	if how == "os" {
		ctx2 := *ctx
		ctx2.PartType = "sidx_duration"
		if nerr := h.NewPartType(&ctx2); nerr != nil {
			res = "nerr"
		}
	}
	if cerr := h.Close(); cerr != nil {
		return "cerr"
	}
	return res
}
