//go:build verif

// Exports for the /verif C15 driver (injected with `go build -overlay`; not part of /repo).
package trace

import (
	"context"
	"fmt"
	"strings"

	"github.com/apache/skywalking-banyandb/banyand/internal/sidx"
	"github.com/apache/skywalking-banyandb/banyand/protector"
	pbv1 "github.com/apache/skywalking-banyandb/pkg/pb/v1"
	"github.com/apache/skywalking-banyandb/pkg/query/model"
	vtrace "github.com/apache/skywalking-banyandb/pkg/query/vectorized/trace"
)

// VerifC15EncodeTraceID is the trace-id payload format stored in the sidx data column.
func VerifC15EncodeTraceID(id string) []byte {
	buf := make([]byte, len(id)+1)
	buf[0] = byte(idFormatV1)
	copy(buf[1:], id)
	return buf
}

func verifC15RenderBatch(b traceBatch) []string {
	var es []string
	for _, tid := range b.traceIDsOrder {
		es = append(es, fmt.Sprintf("%d:%s", b.keys[tid], tid))
	}
	return es
}

// VerifC15Phase1 runs phase 1 of an ordered trace query (which trace ids, in which order, with which key) over the
// given sidx instances through the push path (streamSIDXTraceBatches, flag off) and through the pull path
// (buildVectorizedPhase1TraceBatch -> SidxResponseIterator -> SortedMerge -> distinct, flag on).
func VerifC15Phase1(instances []sidx.SIDX, req sidx.QueryRequest, maxTraceSize, vecBatch int) (push string, pull string) {
	ctx, cancel := context.WithCancel(context.Background())
	defer cancel()
	tr := &trace{pm: protector.Nop{}, vectorized: vtrace.VectorizedConfig{Enabled: true, BatchSize: vecBatch, QueryMemoryMiB: 100}}
	batchCh, done := tr.streamSIDXTraceBatches(ctx, instances, req, maxTraceSize)
	var es []string
	failed := ""
	for batch := range batchCh {
		if batch.err != nil {
			failed = "ERR"
			continue
		}
		es = append(es, verifC15RenderBatch(batch)...)
	}
	<-done
	switch {
	case failed != "":
		push = failed
	case len(es) == 0:
		push = "-"
	default:
		push = strings.Join(es, ",")
	}
	b, err := tr.buildVectorizedPhase1TraceBatch(ctx, queryOptions{}, instances, req, true, maxTraceSize)
	switch {
	case err != nil:
		pull = "ERR"
	default:
		ps := verifC15RenderBatch(b)
		if len(ps) == 0 {
			pull = "-"
		} else {
			pull = strings.Join(ps, ",")
		}
	}
	return push, pull
}

// VerifC15Column is one column of a decoded trace block: tag name, stored value type, and whether the stored column
// name carries the "#<type>" suffix (written after the tag got a type in the schema) or is a legacy plain name.
type VerifC15Column struct {
	Name  string
	Type  int
	Typed bool
}

// VerifC15FindTag resolves the projected tag `name` (schema type `schemaType`, 0 = not in the schema) against the block
// columns in the given order through the vectorized assembly's findBlockTag, and through the row path's
// blockCursor.resolveTagProjection (the column name its projection ends up with). Returns the stored column names
// ("nil" when nothing is chosen).
func VerifC15FindTag(cols []VerifC15Column, name string, schemaType int) (vec string, row string) {
	schema := map[string]pbv1.ValueType{}
	if schemaType != 0 {
		schema[name] = pbv1.ValueType(schemaType)
	}
	tags := make([]tag, 0, len(cols))
	bc := &blockCursor{tagProjection: &model.TagProjection{Names: []string{name}}, schemaTagTypes: schema}
	bc.bm.tags = map[string]*dataBlock{}
	bc.bm.tagType = map[string]pbv1.ValueType{}
	for _, c := range cols {
		stored := c.Name
		if c.Typed {
			stored = encodeTypedTag(c.Name, pbv1.ValueType(c.Type))
		}
		tags = append(tags, tag{name: stored, valueType: pbv1.ValueType(c.Type), values: [][]byte{{1}}})
		bc.bm.tags[stored] = &dataBlock{}
		bc.bm.tagType[stored] = pbv1.ValueType(c.Type)
	}
	if t := findBlockTag(tags, name, schema); t != nil {
		vec = t.name
	} else {
		vec = "nil"
	}
	bc.resolveTagProjection()
	row = "nil"
	if bc.bm.tagProjection != nil && len(bc.bm.tagProjection.Names) == 1 {
		if _, ok := bc.bm.tags[bc.bm.tagProjection.Names[0]]; ok {
			row = bc.bm.tagProjection.Names[0]
		}
	}
	return vec, row
}
