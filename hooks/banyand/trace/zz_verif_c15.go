//go:build verif

// Exports for the /verif C15 driver (injected with `go build -overlay`; not part of /repo).
package trace

import (
	"context"
	"fmt"
	"strings"

	"github.com/apache/skywalking-banyandb/banyand/internal/sidx"
	"github.com/apache/skywalking-banyandb/banyand/protector"
	vtrace "github.com/apache/skywalking-banyandb/pkg/query/vectorized/trace"
)

// VerifC15EncodeTraceID is the trace-id payload format stored in the sidx data column.
func VerifC15EncodeTraceID(id string) []byte {
	buf := make([]byte, len(id)+1)
	buf[0] = byte(idFormatV1)
	copy(buf[1:], id)
	return buf
}

func verifC15RenderBatch(b traceBatch) []string {
	var es []string
	for _, tid := range b.traceIDsOrder {
		es = append(es, fmt.Sprintf("%d:%s", b.keys[tid], tid))
	}
	return es
}

// VerifC15Phase1 runs phase 1 of an ordered trace query (which trace ids, in which order, with which key) over the
// given sidx instances through the push path (streamSIDXTraceBatches, flag off) and through the pull path
// (buildVectorizedPhase1TraceBatch -> SidxResponseIterator -> SortedMerge -> distinct, flag on).
func VerifC15Phase1(instances []sidx.SIDX, req sidx.QueryRequest, maxTraceSize, vecBatch int) (push string, pull string) {
	ctx, cancel := context.WithCancel(context.Background())
	defer cancel()
	tr := &trace{pm: protector.Nop{}, vectorized: vtrace.VectorizedConfig{Enabled: true, BatchSize: vecBatch, QueryMemoryMiB: 100}}
	batchCh, done := tr.streamSIDXTraceBatches(ctx, instances, req, maxTraceSize)
	var es []string
	failed := ""
	for batch := range batchCh {
		if batch.err != nil {
			failed = "ERR"
			continue
		}
		es = append(es, verifC15RenderBatch(batch)...)
	}
	<-done
	switch {
	case failed != "":
		push = failed
	case len(es) == 0:
		push = "-"
	default:
		push = strings.Join(es, ",")
	}
	b, err := tr.buildVectorizedPhase1TraceBatch(ctx, queryOptions{}, instances, req, true, maxTraceSize)
	switch {
	case err != nil:
		pull = "ERR"
	default:
		ps := verifC15RenderBatch(b)
		if len(ps) == 0 {
			pull = "-"
		} else {
			pull = strings.Join(ps, ",")
		}
	}
	return push, pull
}
