//go:build verif

// Exports for the /verif C19 driver (file snapshots), trace engine. Injected with `go build -overlay`.
// A real trace tsTable with one real secondary index (sidx "dur"). No background loops: writes, flushes and merges
// run through the real mustAddTraces / tsTable.flush / mergePartsThenSendIntroduction; the introducer loop's role
// (receive the introduction from the channel, apply it with introducePart / introduceFlushed / introduceMerged,
// gc.clean) is played synchronously by the driver.
package trace

import (
	"context"
	"fmt"
	"os"
	"path/filepath"
	"sort"
	"sync"
	"sync/atomic"
	"time"

	"github.com/apache/skywalking-banyandb/api/common"
	"github.com/apache/skywalking-banyandb/banyand/internal/sidx"
	"github.com/apache/skywalking-banyandb/banyand/internal/storage"
	"github.com/apache/skywalking-banyandb/banyand/protector"
	"github.com/apache/skywalking-banyandb/pkg/fs"
	"github.com/apache/skywalking-banyandb/pkg/logger"
	"github.com/apache/skywalking-banyandb/pkg/run"
)

const verifSidxName = "dur"

type verifTracked struct {
	pw  *partWrapper
	dir string
	id  uint64
	mem bool
}

// VerifTable wraps a real trace tsTable.
type VerifTable struct {
	T     *tsTable
	track []verifTracked
	epoch uint64
	mu    sync.Mutex // guards track (the queued-publication cases run an operation and a snapshot concurrently)
}

func verifOption() option {
	return option{
		flushTimeout: 0,
		mergePolicy:  newDefaultMergePolicy(),
		protector:    protector.Nop{},
	}
}

// VerifOpenTable runs the real initTSTable on root (which loads the sidx map restricted to the loaded core parts).
func VerifOpenTable(fileSystem fs.FileSystem, root string) *VerifTable {
	t, _ := initTSTable(fileSystem, root, common.Position{}, logger.GetLogger("verif-c19"), verifOption(), nil)
	t.loopCloser = run.NewCloser(1)
	t.introductions = make(chan *introduction)
	v := &VerifTable{T: t}
	if t.snapshot != nil {
		v.epoch = t.snapshot.epoch
		for _, pw := range t.snapshot.parts {
			v.trackPW(pw)
		}
	}
	return v
}

func (v *VerifTable) trackPW(pw *partWrapper) {
	v.mu.Lock()
	defer v.mu.Unlock()
	v.trackPWLocked(pw)
}

func (v *VerifTable) trackPWLocked(pw *partWrapper) {
	v.track = append(v.track, verifTracked{pw: pw, id: pw.ID(), mem: pw.mp != nil, dir: partPath(v.T.root, pw.ID())})
}

func (v *VerifTable) trackCurrent() {
	s := v.T.currentSnapshot()
	if s == nil {
		return
	}
	defer s.decRef()
	v.mu.Lock()
	defer v.mu.Unlock()
	for _, pw := range s.parts {
		known := false
		for _, t := range v.track {
			if t.pw == pw {
				known = true
				break
			}
		}
		if !known {
			v.trackPWLocked(pw)
		}
	}
}

func (v *VerifTable) tracked() []verifTracked {
	v.mu.Lock()
	defer v.mu.Unlock()
	return append([]verifTracked(nil), v.track...)
}

// Close closes the table and its secondary indexes.
func (v *VerifTable) Close() { _ = v.T.Close() }

func traceIDOf(val int64) string { return fmt.Sprintf("t%08d", val) }

// AddBatch writes one batch: every row is one trace with one span, and one entry (key = Val, data = trace id)
// in the secondary index, introduced together by the real two-structure transaction of introducePart.
func (v *VerifTable) AddBatch(rows []storage.VerifRow) uint64 {
	tst := v.T
	ts := &traces{}
	var reqs []sidx.WriteRequest
	minTS, maxTS := rows[0].TS, rows[0].TS
	for _, r := range rows {
		tid := traceIDOf(r.Val)
		ts.traceIDs = append(ts.traceIDs, tid)
		ts.timestamps = append(ts.timestamps, r.TS)
		ts.tags = append(ts.tags, nil)
		ts.spans = append(ts.spans, []byte(fmt.Sprintf("span-%d-%d", r.SID, r.Val)))
		ts.spanIDs = append(ts.spanIDs, fmt.Sprintf("s%d", r.Val))
		reqs = append(reqs, sidx.WriteRequest{SeriesID: common.SeriesID(r.SID), Key: r.Val, Data: []byte(tid)})
		if r.TS < minTS {
			minTS = r.TS
		}
		if r.TS > maxTS {
			maxTS = r.TS
		}
	}
	si, err := tst.getOrCreateSidx(verifSidxName)
	if err != nil {
		panic(err)
	}
	smp, err := si.ConvertToMemPart(reqs, 0, &minTS, &maxTS)
	if err != nil {
		panic(err)
	}
	done := make(chan struct{})
	go func() {
		defer close(done)
		ind := <-tst.introductions
		v.epoch++
		tst.introducePart(ind, v.epoch)
	}()
	tst.mustAddTraces(ts, map[string]*sidx.MemPart{verifSidxName: smp})
	<-done
	v.trackCurrent()
	return atomic.LoadUint64(&tst.curPartID)
}

// Flush runs the real tsTable.flush (core parts and sidx parts) and applies its introduction.
func (v *VerifTable) Flush() int {
	tst := v.T
	s := tst.currentSnapshot()
	if s == nil {
		return 0
	}
	defer s.decRef()
	n := 0
	for _, pw := range s.parts {
		if pw.mp != nil {
			n++
		}
	}
	if n == 0 {
		return 0
	}
	flushCh := make(chan *flusherIntroduction)
	stop := make(chan struct{})
	done := make(chan struct{})
	go func() {
		defer close(done)
		select {
		case ind := <-flushCh:
			v.epoch++
			tst.introduceFlushed(ind, v.epoch)
			tst.gc.clean()
		case <-stop:
		}
	}()
	tst.flush(s, flushCh)
	close(stop)
	<-done
	v.trackCurrent()
	return n
}

// Parts lists (id, mem) of the current snapshot in order.
func (v *VerifTable) Parts() (ids []uint64, mem []bool) {
	s := v.T.currentSnapshot()
	if s == nil {
		return nil, nil
	}
	defer s.decRef()
	for _, pw := range s.parts {
		ids = append(ids, pw.ID())
		mem = append(mem, pw.mp != nil)
	}
	return ids, mem
}

// DiskPartIDs lists the ids of the file parts of the current snapshot.
func (v *VerifTable) DiskPartIDs() []uint64 {
	ids, mem := v.Parts()
	var out []uint64
	for i := range ids {
		if !mem[i] {
			out = append(out, ids[i])
		}
	}
	return out
}

// Merge merges the file parts at the given positions (core and sidx together) with the real
// mergePartsThenSendIntroduction and applies the introduction with introduceMerged.
func (v *VerifTable) Merge(pos []int) uint64 {
	tst := v.T
	s := tst.currentSnapshot()
	if s == nil {
		return 0
	}
	defer s.decRef()
	var disk []*partWrapper
	for _, pw := range s.parts {
		if pw.mp == nil {
			disk = append(disk, pw)
		}
	}
	seen := map[int]bool{}
	for _, i := range pos {
		if i >= 0 && i < len(disk) {
			seen[i] = true
		}
	}
	var parts []*partWrapper
	merged := make(map[uint64]struct{})
	for i := range disk {
		if seen[i] {
			parts = append(parts, disk[i])
			merged[disk[i].ID()] = struct{}{}
		}
	}
	if len(parts) < 2 {
		return 0
	}
	mergeCh := make(chan *mergerIntroduction)
	closeCh := make(chan struct{})
	stop := make(chan struct{})
	done := make(chan struct{})
	go func() {
		defer close(done)
		select {
		case mi := <-mergeCh:
			v.epoch++
			tst.introduceMerged(mi, v.epoch)
			tst.gc.clean()
		case <-stop:
		}
	}()
	newPart, err := tst.mergePartsThenSendIntroduction(snapshotCreatorMerger, parts, merged, mergeCh, closeCh, "file", "", &mergeOverrides{})
	close(stop)
	<-done
	if err != nil {
		panic(fmt.Sprintf("trace merge: %v", err))
	}
	v.trackCurrent()
	return newPart.ID()
}

// CanPublish reports whether a snapshot publication (flush/merge/introduce commit) could proceed right now, i.e.
// whether the publication mutex is free. The driver runs its interleaved operations on the goroutine that is
// inside TakeFileSnapshot; an operation that would have to wait for the mutex is postponed to the next
// file-system call at which it is free, which is what a concurrent goroutine would experience.
func (v *VerifTable) CanPublish() bool {
	if !v.T.snapshotPublicationMu.TryLock() {
		return false
	}
	v.T.snapshotPublicationMu.Unlock()
	return true
}

// HoldFence takes the publication fence shared, as a two-phase query does (acquireSnapshotPublicationView).
func (v *VerifTable) HoldFence() { v.T.snapshotPublicationMu.RLock() }

// ReleaseFence releases it.
func (v *VerifTable) ReleaseFence() { v.T.snapshotPublicationMu.RUnlock() }

// PublicationQueued reports whether a publication (commitSnapshotTransaction) is waiting for the fence: a pending
// writer makes sync.RWMutex.TryRLock fail.
func (v *VerifTable) PublicationQueued() bool {
	if v.T.snapshotPublicationMu.TryRLock() {
		v.T.snapshotPublicationMu.RUnlock()
		return false
	}
	return true
}

// Snapshot calls the real TakeFileSnapshot.
func (v *VerifTable) Snapshot(dst string) (bool, error) { return v.T.TakeFileSnapshot(dst) }

// Settle waits for the asynchronous removal of dead removable parts.
func (v *VerifTable) Settle() bool {
	deadline := time.Now().Add(30 * time.Second)
	for {
		pending := false
		for _, t := range v.tracked() {
			if !t.mem && atomic.LoadInt32(&t.pw.ref) <= 0 && t.pw.removable.Load() {
				if _, err := os.Stat(t.dir); err == nil {
					pending = true
				}
			}
		}
		if !pending {
			return true
		}
		if time.Now().After(deadline) {
			return false
		}
		time.Sleep(200 * time.Microsecond)
	}
}

// Refs reports every tracked partWrapper that is still referenced.
func (v *VerifTable) Refs() []storage.VerifPartInfo {
	v.trackCurrent()
	var out []storage.VerifPartInfo
	for _, t := range v.tracked() {
		ref := atomic.LoadInt32(&t.pw.ref)
		if ref <= 0 {
			continue
		}
		_, err := os.Stat(t.dir)
		out = append(out, storage.VerifPartInfo{ID: t.id, Mem: t.mem, Ref: ref, Removable: t.pw.removable.Load(), DirExists: err == nil})
	}
	sort.Slice(out, func(i, j int) bool {
		if out[i].ID != out[j].ID {
			return out[i].ID < out[j].ID
		}
		return out[i].Mem && !out[j].Mem
	})
	return out
}

// SnapshotRef is the reference count of the current snapshot object.
func (v *VerifTable) SnapshotRef() int32 {
	v.T.RLock()
	defer v.T.RUnlock()
	if v.T.snapshot == nil {
		return 0
	}
	return atomic.LoadInt32(&v.T.snapshot.ref)
}

// Query enumerates the traces the core table holds for the candidate values (block metadata through the real
// snapshot.getParts -> tstIter), one row per span.
func (v *VerifTable) Query() ([]storage.VerifRow, error) { return v.QueryCandidates(nil) }

// VerifCandidates is set by the driver: the (sid, ts, val) rows ever written, i.e. the trace ids worth asking for.
var VerifCandidates []storage.VerifRow

// QueryCandidates looks the candidate traces up in the core table.
func (v *VerifTable) QueryCandidates(_ []storage.VerifRow) (rows []storage.VerifRow, err error) {
	s := v.T.currentSnapshot()
	if s == nil {
		return nil, nil
	}
	defer s.decRef()
	byTID := map[string]storage.VerifRow{}
	var tids []string
	for _, r := range VerifCandidates {
		tid := traceIDOf(r.Val)
		if _, ok := byTID[tid]; !ok {
			byTID[tid] = r
			tids = append(tids, tid)
		}
	}
	if len(tids) == 0 {
		return nil, nil
	}
	sort.Strings(tids)
	pp, _ := s.getParts(nil, 0, 1<<62-1, tids)
	bma := generateBlockMetadataArray()
	defer releaseBlockMetadataArray(bma)
	grouped := make([][]string, len(pp))
	for i := range grouped {
		grouped[i] = tids
	}
	ti := &tstIter{}
	ti.init(bma, pp, grouped)
	for ti.nextBlock() {
		p := ti.piPool[ti.idx]
		r, ok := byTID[p.curBlock.traceID]
		if !ok {
			return nil, fmt.Errorf("unknown trace %s", p.curBlock.traceID)
		}
		for i := uint64(0); i < p.curBlock.count; i++ {
			rows = append(rows, r)
		}
	}
	if e := ti.Error(); e != nil {
		return nil, e
	}
	sort.Slice(rows, func(i, j int) bool {
		if rows[i].SID != rows[j].SID {
			return rows[i].SID < rows[j].SID
		}
		return rows[i].TS < rows[j].TS
	})
	return rows, nil
}

// IndexEntries scans the secondary index (real ScanQuery): the values (keys) of every entry, sorted; "none" when
// the table has no secondary index at all.
func (v *VerifTable) IndexEntries() (keys []int64, present bool, err error) {
	si, ok := v.T.getSidx(verifSidxName)
	if !ok {
		return nil, false, nil
	}
	resp, err := si.ScanQuery(context.Background(), sidx.ScanQueryRequest{})
	if err != nil {
		return nil, true, err
	}
	for _, r := range resp {
		keys = append(keys, r.Keys...)
	}
	sort.Slice(keys, func(i, j int) bool { return keys[i] < keys[j] })
	return keys, true, nil
}

// VerifInspectDir reads a trace table directory (a snapshot copy) read-only, the way initTSTable would.
func VerifInspectDir(fileSystem fs.FileSystem, root string) storage.VerifManifest {
	m := storage.VerifManifest{Complete: map[uint64]bool{}}
	if _, err := os.Stat(root); err != nil {
		m.Err = "absent"
		return m
	}
	for _, e := range fileSystem.ReadDir(root) {
		if e.IsDir() {
			if e.Name() == sidxDirName {
				m.HasIndex = true
				for _, se := range fileSystem.ReadDir(filepath.Join(root, sidxDirName, verifSidxName)) {
					if id, err := parseEpoch(se.Name()); err == nil && se.IsDir() {
						m.IndexDirs = append(m.IndexDirs, id)
					}
				}
				continue
			}
			id, err := parseEpoch(e.Name())
			if err != nil {
				m.BadDirs = append(m.BadDirs, e.Name())
				continue
			}
			m.Dirs = append(m.Dirs, id)
			m.Complete[id] = validatePartMetadata(fileSystem, filepath.Join(root, e.Name())) == nil
			continue
		}
		if filepath.Ext(e.Name()) == snapshotSuffix {
			ep, err := parseSnapshot(e.Name())
			if err != nil {
				m.OtherFile = append(m.OtherFile, e.Name())
				continue
			}
			m.Epochs = append(m.Epochs, ep)
			continue
		}
		m.OtherFile = append(m.OtherFile, e.Name())
	}
	sort.Slice(m.Epochs, func(i, j int) bool { return m.Epochs[i] > m.Epochs[j] })
	if len(m.Epochs) > 0 {
		names, err := storage.ReadSnapshotPartNames(fileSystem, filepath.Join(root, snapshotName(m.Epochs[0])))
		if err != nil {
			m.Err = "manifest-unreadable"
			return m
		}
		for _, n := range names {
			id, perr := parseEpoch(n)
			if perr != nil {
				m.Err = "manifest-bad-name"
				return m
			}
			m.Listed = append(m.Listed, id)
		}
	}
	return m
}
