//go:build verif

// Export hooks for the /verif driver `mrw` (C01, C03 - oracle-only stream of the trace engine): a real trace tsTable with
// only the real introducer loop running; batches, flush and merge are called synchronously, queries read the blocks
// the table-level query path selects (snapshot.getParts with the time range and the trace ids -> tstIter ->
// blockCursor.loadData).
package trace

import (
	"fmt"
	"sort"

	"github.com/apache/skywalking-banyandb/api/common"
	"github.com/apache/skywalking-banyandb/banyand/protector"
	"github.com/apache/skywalking-banyandb/pkg/fs"
	"github.com/apache/skywalking-banyandb/pkg/logger"
	pbv1 "github.com/apache/skywalking-banyandb/pkg/pb/v1"
	"github.com/apache/skywalking-banyandb/pkg/query/model"
	"github.com/apache/skywalking-banyandb/pkg/run"
	"github.com/apache/skywalking-banyandb/pkg/watcher"
)

// VMTag is one tag value (string type).
type VMTag struct {
	Name string
	Val  []byte
}

// VMSpan is one span.
type VMSpan struct {
	Tid    string
	SpanID string
	Tags   []VMTag
	Ts     int64
}

// VMTrace is a trace tsTable driven synchronously.
type VMTrace struct {
	tst     *tsTable
	flushCh chan *flusherIntroduction
	mergeCh chan *mergerIntroduction
}

// VMTraceOpen runs the real initTSTable on root and starts the introducer loop.
func VMTraceOpen(root string) *VMTrace {
	opt := option{protector: protector.Nop{}, mergePolicy: newDefaultMergePolicy()}
	tst, epoch := initTSTable(fs.NewLocalFileSystem(), root, common.Position{}, logger.GetLogger("verif-mrw-trace"), opt, nil)
	v := &VMTrace{tst: tst}
	tst.loopCloser = run.NewCloser(1 + 1)
	tst.mergeControl = newMergeLoopControl()
	tst.introductions = make(chan *introduction)
	v.flushCh = make(chan *flusherIntroduction)
	v.mergeCh = make(chan *mergerIntroduction)
	tst.mergeCh = v.mergeCh
	go tst.introducerLoop(v.flushCh, v.mergeCh, make(watcher.Channel, 1), epoch+1)
	return v
}

// Close stops the loop and closes the table.
func (v *VMTrace) Close() { _ = v.tst.Close() }

// Batch ingests one batch through mustAddTraces (no secondary index).
func (v *VMTrace) Batch(rows []VMSpan) {
	ts := &traces{}
	for i := range rows {
		r := &rows[i]
		ts.traceIDs = append(ts.traceIDs, r.Tid)
		ts.timestamps = append(ts.timestamps, r.Ts)
		tags := []*tagValue{}
		for _, t := range r.Tags {
			tags = append(tags, &tagValue{tag: t.Name, valueType: pbv1.ValueTypeStr, value: t.Val})
		}
		ts.tags = append(ts.tags, tags)
		ts.spans = append(ts.spans, []byte(r.SpanID))
		ts.spanIDs = append(ts.spanIDs, r.SpanID)
	}
	v.tst.mustAddTraces(ts, nil)
}

// Flush is the flusher loop body: every memory part of the current snapshot.
func (v *VMTrace) Flush() string {
	cur := v.tst.currentSnapshot()
	if cur == nil {
		return "ok0"
	}
	defer cur.decRef()
	v.tst.flush(cur, v.flushCh)
	return "ok"
}

// Merge is the merge loop body with the policy's choice replaced by "every file part".
func (v *VMTrace) Merge() string {
	cur := v.tst.currentSnapshot()
	if cur == nil {
		return "ok0"
	}
	defer cur.decRef()
	var dst []*partWrapper
	toBeMerged := make(map[uint64]struct{})
	for _, pw := range cur.parts {
		if pw.mp != nil {
			continue
		}
		dst = append(dst, pw)
		toBeMerged[pw.ID()] = struct{}{}
	}
	if len(dst) < 2 {
		return "ok0"
	}
	if _, err := v.tst.mergePartsThenSendIntroduction(snapshotCreatorMerger, dst, toBeMerged, v.mergeCh,
		v.tst.loopCloser.CloseNotify(), mergeTypeFile, mergeLaneFast, nil); err != nil {
		return "ERR " + err.Error()
	}
	return "ok"
}

// Query returns the spans of the traces found in the parts that overlap [tmin, tmax].
func (v *VMTrace) Query(tids []string, tmin, tmax int64, tagNames []string) []VMSpan {
	s := v.tst.currentSnapshot()
	if s == nil {
		return nil
	}
	defer s.decRef()
	tids = append([]string(nil), tids...)
	sort.Strings(tids)
	parts, _ := s.getParts(nil, tmin, tmax, tids)
	bma := generateBlockMetadataArray()
	defer releaseBlockMetadataArray(bma)
	grouped := make([][]string, len(parts))
	for i := range grouped {
		grouped[i] = tids
	}
	ti := &tstIter{}
	ti.init(bma, parts, grouped)
	var out []VMSpan
	tmp := generateBlock()
	defer releaseBlock(tmp)
	for ti.nextBlock() {
		pi := ti.piPool[ti.idx]
		bc := generateBlockCursor()
		qo := queryOptions{}
		if len(tagNames) > 0 {
			qo.TagProjection = &model.TagProjection{Names: tagNames}
		}
		bc.init(pi.p, pi.curBlock, qo)
		if bc.loadData(tmp) {
			for i := range bc.spans {
				sp := VMSpan{Tid: bc.bm.traceID, SpanID: string(bc.spans[i])}
				if i < len(bc.spanIDs) && bc.spanIDs[i] != sp.SpanID {
					sp.SpanID = "?" + bc.spanIDs[i] + "/" + sp.SpanID
				}
				for _, t := range bc.tags {
					if i < len(t.values) && len(t.values[i]) > 0 {
						sp.Tags = append(sp.Tags, VMTag{Name: t.name, Val: append([]byte(nil), t.values[i]...)})
					}
				}
				out = append(out, sp)
			}
		}
		releaseBlockCursor(bc)
	}
	if err := ti.Error(); err != nil {
		panic(fmt.Sprintf("tstIter: %v", err))
	}
	return out
}
