//go:build verif

package bydbql

// Accessors for the /verif C20 driver. Injected with `go build -overlay`; not part of /repo.
// They only read unexported state; no behaviour is added to the package.

// VerifC20ParamsBound reports Grammar.paramsBound.
func VerifC20ParamsBound(g *Grammar) bool { return g.paramsBound }

// VerifC20Template returns the (shared, supposedly immutable) template of a prepared statement.
func VerifC20Template(ps *PreparedStatement) *Grammar { return ps.template }

// VerifC20Spec is one placeholderSpec.
type VerifC20Spec struct {
	Max  int64
	Kind uint8
}

// VerifC20Specs returns the placeholder specs recorded by Prepare.
func VerifC20Specs(ps *PreparedStatement) []VerifC20Spec {
	out := make([]VerifC20Spec, len(ps.specs))
	for i, s := range ps.specs {
		out[i] = VerifC20Spec{Max: s.maxCount, Kind: uint8(s.kind)}
	}
	return out
}

// VerifC20Resolved is one resolvedParam of a BoundQuery's overlay.
type VerifC20Resolved struct {
	Time   string
	Values []*GrammarValue
	Count  int
}

// VerifC20Overlay returns the per-request overlay of a bound query (the very nodes, not copies).
func VerifC20Overlay(bq *BoundQuery) []VerifC20Resolved {
	out := make([]VerifC20Resolved, len(bq.values))
	for i, v := range bq.values {
		out[i] = VerifC20Resolved{Time: v.timeStr, Values: v.values, Count: v.count}
	}
	return out
}

// VerifC20Stmt returns the statement a bound query refers to.
func VerifC20Stmt(bq *BoundQuery) *PreparedStatement { return bq.stmt }

// VerifC20CountUnbound is countUnboundParams.
func VerifC20CountUnbound(g *Grammar) int { return countUnboundParams(g) }
