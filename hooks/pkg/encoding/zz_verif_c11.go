//go:build verif

// Exports for the /verif C11 driver (injected with -overlay; not part of /repo).
// Only functions whose signature the proposed fixes F1/F3 leave unchanged are referenced.
package encoding

// VerifEncodeRLE is encodeRLE.
func VerifEncodeRLE(src []uint32) []uint32 { return encodeRLE(nil, src) }

// VerifEncodeBitPacking is encodeBitPacking.
func VerifEncodeBitPacking(src []uint32) []byte { return encodeBitPacking(src) }

// VerifDecodeBitPacking is decodeBitPacking.
func VerifDecodeBitPacking(src []byte) ([]uint32, error) { return decodeBitPacking(nil, src) }

// VerifFloatToDecimal is floatToDecimal (the float -> decimal parameter of the model).
func VerifFloatToDecimal(f float64) (int64, int16, bool) {
	return floatToDecimal(f, make([]byte, 64))
}

// VerifMulPow10 is mulPow10Fast.
func VerifMulPow10(v int64, n int16) (int64, bool) { return mulPow10Fast(v, n) }

// VerifCompressBlock is compressBlock.
func VerifCompressBlock(src []byte) []byte { return compressBlock(nil, src) }

// VerifDecompressBlock is decompressBlock.
func VerifDecompressBlock(src []byte) ([]byte, []byte, error) { return decompressBlock(nil, src) }
