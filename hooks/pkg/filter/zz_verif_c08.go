//go:build verif

package filter

import pbv1 "github.com/apache/skywalking-banyandb/pkg/pb/v1"

// VerifValues exposes the stored dictionary values (to observe in-place mutation).
func (df *DictionaryFilter) VerifValues() [][]byte { return df.values }

// VerifValueType exposes the value type.
func (df *DictionaryFilter) VerifValueType() pbv1.ValueType { return df.valueType }
