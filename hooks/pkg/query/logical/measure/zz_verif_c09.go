//go:build verif

package measure

import "github.com/apache/skywalking-banyandb/pkg/query/executor"

// VerifC09Limit exposes the row-path limit/offset iterator.
func VerifC09Limit(inner executor.MIterator, offset, limit uint32) executor.MIterator {
	return newLimitIterator(inner, offset, limit)
}
