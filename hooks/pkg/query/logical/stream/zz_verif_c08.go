//go:build verif

package stream

import (
	databasev1 "github.com/apache/skywalking-banyandb/api/proto/banyandb/database/v1"
	modelv1 "github.com/apache/skywalking-banyandb/api/proto/banyandb/model/v1"
	"github.com/apache/skywalking-banyandb/pkg/index"
	"github.com/apache/skywalking-banyandb/pkg/query/logical"
)

// VerifBuildLocalFilter exports buildLocalFilter (criteria -> index.Filter for one index-rule type).
func VerifBuildLocalFilter(criteria *modelv1.Criteria, schema logical.Schema, entityDict map[string]int,
	entity []*modelv1.TagValue, indexRuleType databasev1.IndexRule_Type,
) (index.Filter, [][]*modelv1.TagValue, error) {
	return buildLocalFilter(criteria, schema, entityDict, entity, indexRuleType)
}
