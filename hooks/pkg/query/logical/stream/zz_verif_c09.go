//go:build verif

package stream

import (
	"context"

	commonv1 "github.com/apache/skywalking-banyandb/api/proto/banyandb/common/v1"
	modelv1 "github.com/apache/skywalking-banyandb/api/proto/banyandb/model/v1"
	"github.com/apache/skywalking-banyandb/pkg/query/executor"
	"github.com/apache/skywalking-banyandb/pkg/query/logical"
	"github.com/apache/skywalking-banyandb/pkg/query/model"
	vstream "github.com/apache/skywalking-banyandb/pkg/query/vectorized/stream"
)

// verifC09Result is an in-memory storage result: one page per Pull (like one segment / scan round of the
// engine's tsResult), each page capped at MaxElementSize rows.
type verifC09Result struct {
	pages  [][]int64
	nextID uint64
	max    int
}

func (r *verifC09Result) Pull(context.Context) *model.StreamResult {
	if len(r.pages) == 0 {
		return nil
	}
	pg := r.pages[0]
	r.pages = r.pages[1:]
	if r.max > 0 && len(pg) > r.max {
		pg = pg[:r.max]
	}
	sr := &model.StreamResult{}
	for _, ts := range pg {
		r.nextID++
		sr.Timestamps = append(sr.Timestamps, ts)
		sr.ElementIDs = append(sr.ElementIDs, r.nextID)
	}
	return sr
}

func (r *verifC09Result) Release() {}

type verifC09EC struct {
	pages [][]int64
}

func (e *verifC09EC) Query(_ context.Context, opts model.StreamQueryOptions) (model.StreamQueryResult, error) {
	return &verifC09Result{pages: e.pages, max: opts.MaxElementSize}, nil
}

func (e *verifC09EC) QueryVectorized(context.Context, model.StreamQueryOptions) (executor.StreamVecScanSource, error) {
	return nil, nil
}

func (e *verifC09EC) VectorizedConfig() vstream.VectorizedConfig { return vstream.VectorizedConfig{} }

// VerifC09Limit runs the real row-path plan limit -> localIndexScan -> BuildElementsFromStreamResult (with the
// analyzer's PushDownMaxSize(limit+offset) rule) over the given storage pages and returns the timestamps.
func VerifC09Limit(pages [][]int64, offset, limitNum uint32, desc bool) ([]int64, error) {
	srt := modelv1.Sort_SORT_ASC
	if desc {
		srt = modelv1.Sort_SORT_DESC
	}
	scan := &localIndexScan{
		ec:       &verifC09EC{pages: pages},
		metadata: &commonv1.Metadata{Name: "sw", Group: "default"},
		order:    &logical.OrderBy{Sort: srt},
	}
	plan := &limit{Parent: &Parent{Input: scan}, limitNum: limitNum, offsetNum: offset}
	if err := logical.ApplyRules(plan, logical.NewPushDownMaxSize(int(limitNum+offset))); err != nil {
		return nil, err
	}
	elements, err := plan.Execute(context.Background())
	if err != nil {
		return nil, err
	}
	out := make([]int64, 0, len(elements))
	for _, e := range elements {
		out = append(out, e.Timestamp.AsTime().UnixNano())
	}
	return out, nil
}
