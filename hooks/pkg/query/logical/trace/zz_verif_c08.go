//go:build verif

package trace

import (
	modelv1 "github.com/apache/skywalking-banyandb/api/proto/banyandb/model/v1"
	"github.com/apache/skywalking-banyandb/pkg/index"
	"github.com/apache/skywalking-banyandb/pkg/query/logical"
)

// VerifBuildFilter exports buildFilter (criteria -> skipping filter tree for trace/sidx).
func VerifBuildFilter(criteria *modelv1.Criteria, schema logical.Schema, tagNames map[string]bool,
	entityDict map[string]int, entity []*modelv1.TagValue, traceIDTagName, spanIDTagName, orderByTag string,
) (index.Filter, [][]*modelv1.TagValue, []string, []string, int64, int64, error) {
	return buildFilter(criteria, schema, tagNames, entityDict, entity, traceIDTagName, spanIDTagName, orderByTag)
}
