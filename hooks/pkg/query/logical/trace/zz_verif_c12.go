//go:build verif

package trace

import "github.com/apache/skywalking-banyandb/pkg/query/model"

// VerifC12SortKey exposes the sort field the cross-group / distributed trace merge uses for an
// index-rule key (newComparableTraceResult), for the C12 order-preservation check.
func VerifC12SortKey(key int64) []byte {
	return newComparableTraceResult(model.TraceResult{Key: key}, false, 0).SortedField()
}
