//go:build verif

package timestamp

// VerifAction returns the action registered under name (nil if absent). The /verif `seg`
// driver uses it to invoke the storage retention task exactly as the cron trigger would,
// but synchronously. Injected by overlay; not part of /repo.
func (s *Scheduler) VerifAction(name string) SchedulerAction {
	s.RLock()
	defer s.RUnlock()
	t, ok := s.tasks[name]
	if !ok {
		return nil
	}
	return t.action
}
