/-
Helper lemmas for C10: the algebra behind the Map/Reduce accumulators of pkg/query/aggregation
(wrapped `+`, signed `min`/`max` with their sentinels), normal forms of `mapAll` / `reduceAll`, and
invariance under permutation.
-/
import Banyan.Model.C10

namespace Banyan.C10

/-! ### signed order on int64 through `toInt` -/

theorem toInt_le_max (x : I64) : x.toInt ≤ maxInt64.toInt := by
  have h := @BitVec.toInt_lt 64 x
  have h2 : maxInt64.toInt = 2 ^ (64 - 1) - 1 := BitVec.toInt_intMax
  omega

theorem min_le_toInt (x : I64) : minInt64.toInt ≤ x.toInt := by
  have h := @BitVec.le_toInt 64 x
  have h2 : minInt64.toInt = -2 ^ 63 := by decide
  omega

/-- `if b < a then b else a` — the update of `minFunc.In`. -/
def smin (a b : I64) : I64 := if b.slt a then b else a
/-- `if a < b then b else a` — the update of `maxFunc.In`. -/
def smax (a b : I64) : I64 := if a.slt b then b else a

theorem smin_toInt (a b : I64) : (smin a b).toInt = min a.toInt b.toInt := by
  unfold smin
  by_cases h : b.slt a = true
  · rw [if_pos h]; have := BitVec.slt_iff_toInt_lt.mp h; omega
  · rw [if_neg h]
    have : ¬ b.toInt < a.toInt := fun hh => h (BitVec.slt_iff_toInt_lt.mpr hh)
    omega

theorem smax_toInt (a b : I64) : (smax a b).toInt = max a.toInt b.toInt := by
  unfold smax
  by_cases h : a.slt b = true
  · rw [if_pos h]; have := BitVec.slt_iff_toInt_lt.mp h; omega
  · rw [if_neg h]
    have : ¬ a.toInt < b.toInt := fun hh => h (BitVec.slt_iff_toInt_lt.mpr hh)
    omega

theorem smin_assoc (a b c : I64) : smin (smin a b) c = smin a (smin b c) := by
  apply BitVec.toInt_inj.mp; simp only [smin_toInt]; omega

theorem smin_comm (a b : I64) : smin a b = smin b a := by
  apply BitVec.toInt_inj.mp; simp only [smin_toInt]; omega

theorem smin_max_left (a : I64) : smin maxInt64 a = a := by
  apply BitVec.toInt_inj.mp; rw [smin_toInt]; have := toInt_le_max a; omega

theorem smin_max_right (a : I64) : smin a maxInt64 = a := by rw [smin_comm, smin_max_left]

theorem smax_assoc (a b c : I64) : smax (smax a b) c = smax a (smax b c) := by
  apply BitVec.toInt_inj.mp; simp only [smax_toInt]; omega

theorem smax_comm (a b : I64) : smax a b = smax b a := by
  apply BitVec.toInt_inj.mp; simp only [smax_toInt]; omega

theorem smax_min_left (a : I64) : smax minInt64 a = a := by
  apply BitVec.toInt_inj.mp; rw [smax_toInt]; have := min_le_toInt a; omega

theorem smax_min_right (a : I64) : smax a minInt64 = a := by rw [smax_comm, smax_min_left]

/-- `minReduceFunc.Combine`: the extra sentinel test `m.val == m.max ||` changes nothing — the update is a
    plain signed minimum, whatever the values (a genuine `MaxInt64` included). -/
theorem combine_min_eq (m v : I64) : (if m = maxInt64 ∨ v.slt m then v else m) = smin m v := by
  unfold smin
  by_cases h1 : m = maxInt64
  · subst h1
    rw [if_pos (Or.inl rfl)]
    by_cases h2 : v.slt maxInt64 = true
    · rw [if_pos h2]
    · rw [if_neg h2]
      apply BitVec.toInt_inj.mp
      have : ¬ v.toInt < maxInt64.toInt := fun hh => h2 (BitVec.slt_iff_toInt_lt.mpr hh)
      have := toInt_le_max v
      omega
  · by_cases h2 : v.slt m = true
    · rw [if_pos (Or.inr h2), if_pos h2]
    · rw [if_neg (by intro h; cases h with | inl h => exact h1 h | inr h => exact h2 h), if_neg h2]

/-! ### folds of a monoid -/

/-- a left fold of `op` over mapped elements, started anywhere, factors through the fold started at the unit. -/
theorem foldl_op_eq {α β : Type} (op : β → β → β) (e : β) (f : α → β)
    (assoc : ∀ a b c, op (op a b) c = op a (op b c)) (lid : ∀ a, op e a = a) (rid : ∀ a, op a e = a)
    (l : List α) (a : β) :
    l.foldl (fun b x => op b (f x)) a = op a (l.foldl (fun b x => op b (f x)) e) := by
  induction l generalizing a with
  | nil => simp [rid]
  | cons x xs ih =>
    simp only [List.foldl_cons]
    rw [ih (op a (f x)), ih (op e (f x)), lid, assoc]

/-- reducing the per-part folds equals folding the concatenation: the heart of "partials compose". -/
theorem foldl_parts {α β : Type} (op : β → β → β) (e : β) (f : α → β)
    (assoc : ∀ a b c, op (op a b) c = op a (op b c)) (lid : ∀ a, op e a = a) (rid : ∀ a, op a e = a)
    (parts : List (List α)) (a : β) :
    parts.foldl (fun r p => op r (p.foldl (fun b x => op b (f x)) e)) a
      = parts.flatten.foldl (fun b x => op b (f x)) a := by
  induction parts generalizing a with
  | nil => simp
  | cons p ps ih =>
    simp only [List.foldl_cons, List.flatten_cons, List.foldl_append]
    rw [ih, ← foldl_op_eq op e f assoc lid rid p a]

/-! ### normal forms of the accumulators -/

theorem foldl_feed_sum (l : List I64) (a : I64) :
    l.foldl MapAcc.feed (.sum a) = .sum (l.foldl (fun b x => b + x) a) := by
  induction l generalizing a with
  | nil => rfl
  | cons x xs ih => simp only [List.foldl_cons, MapAcc.feed]; exact ih _

theorem foldl_feed_count (l : List I64) (a : I64) :
    l.foldl MapAcc.feed (.count a) = .count (l.foldl (fun b _ => b + 1) a) := by
  induction l generalizing a with
  | nil => rfl
  | cons x xs ih => simp only [List.foldl_cons, MapAcc.feed]; exact ih _

theorem foldl_feed_min (l : List I64) (a : I64) :
    l.foldl MapAcc.feed (.min a) = .min (l.foldl (fun b x => smin b x) a) := by
  induction l generalizing a with
  | nil => rfl
  | cons x xs ih => simp only [List.foldl_cons, MapAcc.feed]; exact ih _

theorem foldl_feed_max (l : List I64) (a : I64) :
    l.foldl MapAcc.feed (.max a) = .max (l.foldl (fun b x => smax b x) a) := by
  induction l generalizing a with
  | nil => rfl
  | cons x xs ih => simp only [List.foldl_cons, MapAcc.feed]; exact ih _

theorem foldl_feed_mean (l : List I64) (s c : I64) :
    l.foldl MapAcc.feed (.mean s c) =
      .mean (l.foldl (fun b x => b + x) s) (l.foldl (fun b _ => b + 1) c) := by
  induction l generalizing s c with
  | nil => rfl
  | cons x xs ih => simp only [List.foldl_cons, MapAcc.feed]; exact ih _ _

theorem foldl_combine_sum (ps : List Partial) (a : I64) :
    ps.foldl RedAcc.combine (.sum a) = .sum (ps.foldl (fun b p => b + p.value) a) := by
  induction ps generalizing a with
  | nil => rfl
  | cons x xs ih => simp only [List.foldl_cons, RedAcc.combine]; exact ih _

theorem foldl_combine_count (ps : List Partial) (a : I64) :
    ps.foldl RedAcc.combine (.count a) = .count (ps.foldl (fun b p => b + p.value) a) := by
  induction ps generalizing a with
  | nil => rfl
  | cons x xs ih => simp only [List.foldl_cons, RedAcc.combine]; exact ih _

theorem foldl_combine_min (ps : List Partial) (a : I64) :
    ps.foldl RedAcc.combine (.min a) = .min (ps.foldl (fun b p => smin b p.value) a) := by
  induction ps generalizing a with
  | nil => rfl
  | cons x xs ih => simp only [List.foldl_cons, RedAcc.combine, combine_min_eq]; exact ih _

theorem foldl_combine_max (ps : List Partial) (a : I64) :
    ps.foldl RedAcc.combine (.max a) = .max (ps.foldl (fun b p => smax b p.value) a) := by
  induction ps generalizing a with
  | nil => rfl
  | cons x xs ih => simp only [List.foldl_cons, RedAcc.combine]; exact ih _

theorem foldl_combine_mean (ps : List Partial) (s c : I64) :
    ps.foldl RedAcc.combine (.mean s c) =
      .mean (ps.foldl (fun b p => b + p.value) s) (ps.foldl (fun b p => b + p.count) c) := by
  induction ps generalizing s c with
  | nil => rfl
  | cons x xs ih => simp only [List.foldl_cons, RedAcc.combine]; exact ih _ _

/-- wrapped sum and wrapped length of a list, as the accumulators compute them. -/
def wsum (l : List I64) : I64 := l.foldl (fun b x => b + x) 0
def wcount (l : List I64) : I64 := l.foldl (fun b _ => b + 1) 0
def lmin (l : List I64) : I64 := l.foldl (fun b x => smin b x) maxInt64
def lmax (l : List I64) : I64 := l.foldl (fun b x => smax b x) minInt64

theorem mapAll_sum (l : List I64) : mapAll .sum l = .sum (wsum l) := foldl_feed_sum l 0
theorem mapAll_count (l : List I64) : mapAll .count l = .count (wcount l) := foldl_feed_count l 0
theorem mapAll_min (l : List I64) : mapAll .min l = .min (lmin l) := foldl_feed_min l _
theorem mapAll_max (l : List I64) : mapAll .max l = .max (lmax l) := foldl_feed_max l _
theorem mapAll_mean (l : List I64) : mapAll .mean l = .mean (wsum l) (wcount l) := foldl_feed_mean l 0 0

theorem wsum_eq_sum (l : List I64) : wsum l = l.sum := by
  unfold wsum
  have h := foldl_op_eq (fun a b : I64 => a + b) 0 id (by intro a b c; exact BitVec.add_assoc a b c)
    (by intro a; exact BitVec.zero_add a) (by intro a; exact BitVec.add_zero a)
  induction l with
  | nil => rfl
  | cons x xs ih =>
    have h1 := h xs (0 + x)
    simp only [id] at h1
    simp only [List.foldl_cons, List.sum_cons]
    rw [h1, ih]; simp

theorem wcount_eq_length (l : List I64) : wcount l = BitVec.ofNat 64 l.length := by
  unfold wcount
  suffices h : ∀ (a : Nat), l.foldl (fun (b : I64) _ => b + 1) (BitVec.ofNat 64 a) = BitVec.ofNat 64 (a + l.length) by
    simpa using h 0
  induction l with
  | nil => intro a; rfl
  | cons x xs ih =>
    intro a
    simp only [List.foldl_cons, List.length_cons]
    have : (BitVec.ofNat 64 a + 1 : I64) = BitVec.ofNat 64 (a + 1) := by
      rw [BitVec.ofNat_add]; rfl
    rw [this, ih (a + 1)]
    congr 1; omega

/-! ### partials of a partition reduce to the state of the whole -/

theorem addAssoc (a b c : I64) : a + b + c = a + (b + c) := BitVec.add_assoc a b c
theorem zeroAdd (a : I64) : 0 + a = a := BitVec.zero_add a
theorem addZero (a : I64) : a + 0 = a := BitVec.add_zero a

theorem parts_wsum (parts : List (List I64)) (a : I64) :
    parts.foldl (fun r p => r + wsum p) a = parts.flatten.foldl (fun b x => b + x) a := by
  have h := foldl_parts (fun a b : I64 => a + b) 0 id addAssoc zeroAdd addZero parts a
  simp only [id] at h
  unfold wsum; exact h

theorem parts_wcount (parts : List (List I64)) (a : I64) :
    parts.foldl (fun r p => r + wcount p) a = parts.flatten.foldl (fun b _ => b + 1) a :=
  foldl_parts (fun a b : I64 => a + b) 0 (fun _ => (1 : I64)) addAssoc zeroAdd addZero parts a

theorem parts_lmin (parts : List (List I64)) (a : I64) :
    parts.foldl (fun r p => smin r (lmin p)) a = parts.flatten.foldl (fun b x => smin b x) a := by
  have h := foldl_parts smin maxInt64 id smin_assoc smin_max_left smin_max_right parts a
  simp only [id] at h
  unfold lmin; exact h

theorem parts_lmax (parts : List (List I64)) (a : I64) :
    parts.foldl (fun r p => smax r (lmax p)) a = parts.flatten.foldl (fun b x => smax b x) a := by
  have h := foldl_parts smax minInt64 id smax_assoc smax_min_left smax_min_right parts a
  simp only [id] at h
  unfold lmax; exact h

theorem reduce_state (fn : Fn) (parts : List (List I64)) :
    reduceAll fn (parts.map fun p => (mapAll fn p).partial) =
      match mapAll fn parts.flatten with
      | .mean s c => .mean s c
      | .count c => .count c
      | .max m => .max m
      | .min m => .min m
      | .sum s => .sum s := by
  cases fn with
  | sum =>
    unfold reduceAll newReduce
    rw [foldl_combine_sum, List.foldl_map]
    simp only [mapAll_sum, MapAcc.partial]
    rw [parts_wsum]; rfl
  | count =>
    unfold reduceAll newReduce
    rw [foldl_combine_count, List.foldl_map]
    simp only [mapAll_count, MapAcc.partial]
    rw [parts_wcount]; rfl
  | min =>
    unfold reduceAll newReduce
    rw [foldl_combine_min, List.foldl_map]
    simp only [mapAll_min, MapAcc.partial]
    rw [parts_lmin]; rfl
  | max =>
    unfold reduceAll newReduce
    rw [foldl_combine_max, List.foldl_map]
    simp only [mapAll_max, MapAcc.partial]
    rw [parts_lmax]; rfl
  | mean =>
    unfold reduceAll newReduce
    rw [foldl_combine_mean, List.foldl_map, List.foldl_map]
    simp only [mapAll_mean, MapAcc.partial]
    rw [parts_wsum, parts_wcount]; rfl

/-! ### minimum / maximum of a list -/

theorem foldl_smin_le (l : List I64) (a : I64) :
    (l.foldl (fun b x => smin b x) a).toInt ≤ a.toInt ∧
      ∀ x ∈ l, (l.foldl (fun b x => smin b x) a).toInt ≤ x.toInt := by
  induction l generalizing a with
  | nil => simp
  | cons y ys ih =>
    simp only [List.foldl_cons, List.mem_cons]
    have h := ih (smin a y)
    have hs := smin_toInt a y
    refine ⟨by omega, ?_⟩
    intro x hx
    cases hx with
    | inl e => subst e; omega
    | inr m => exact h.2 x m

theorem foldl_smin_mem (l : List I64) (a : I64) :
    l.foldl (fun b x => smin b x) a = a ∨ l.foldl (fun b x => smin b x) a ∈ l := by
  induction l generalizing a with
  | nil => simp
  | cons y ys ih =>
    simp only [List.foldl_cons, List.mem_cons]
    cases ih (smin a y) with
    | inl h =>
      rw [h]; unfold smin
      by_cases c : y.slt a = true
      · rw [if_pos c]; exact Or.inr (Or.inl rfl)
      · rw [if_neg c]; exact Or.inl rfl
    | inr h => exact Or.inr (Or.inr h)

theorem foldl_smax_ge (l : List I64) (a : I64) :
    a.toInt ≤ (l.foldl (fun b x => smax b x) a).toInt ∧
      ∀ x ∈ l, x.toInt ≤ (l.foldl (fun b x => smax b x) a).toInt := by
  induction l generalizing a with
  | nil => simp
  | cons y ys ih =>
    simp only [List.foldl_cons, List.mem_cons]
    have h := ih (smax a y)
    have hs := smax_toInt a y
    refine ⟨by omega, ?_⟩
    intro x hx
    cases hx with
    | inl e => subst e; omega
    | inr m => exact h.2 x m

theorem foldl_smax_mem (l : List I64) (a : I64) :
    l.foldl (fun b x => smax b x) a = a ∨ l.foldl (fun b x => smax b x) a ∈ l := by
  induction l generalizing a with
  | nil => simp
  | cons y ys ih =>
    simp only [List.foldl_cons, List.mem_cons]
    cases ih (smax a y) with
    | inl h =>
      rw [h]; unfold smax
      by_cases c : a.slt y = true
      · rw [if_pos c]; exact Or.inr (Or.inl rfl)
      · rw [if_neg c]; exact Or.inl rfl
    | inr h => exact Or.inr (Or.inr h)

/-- the minimum of a non-empty list is one of its elements and a lower bound. -/
theorem lmin_spec (l : List I64) (hne : l ≠ []) : lmin l ∈ l ∧ ∀ x ∈ l, (lmin l).sle x = true := by
  have hle := foldl_smin_le l maxInt64
  have hmem := foldl_smin_mem l maxInt64
  refine ⟨?_, fun x hx => BitVec.sle_iff_toInt_le.mpr (hle.2 x hx)⟩
  cases hmem with
  | inr h => exact h
  | inl h =>
    cases l with
    | nil => exact absurd rfl hne
    | cons y ys =>
      have h1 := hle.2 y (List.mem_cons_self ..)
      have h2 := toInt_le_max y
      have : y = lmin (y :: ys) := by
        apply BitVec.toInt_inj.mp
        unfold lmin; rw [h] at h1 ⊢; omega
      rw [← this]; exact List.mem_cons_self ..

theorem lmax_spec (l : List I64) (hne : l ≠ []) : lmax l ∈ l ∧ ∀ x ∈ l, x.sle (lmax l) = true := by
  have hle := foldl_smax_ge l minInt64
  have hmem := foldl_smax_mem l minInt64
  refine ⟨?_, fun x hx => BitVec.sle_iff_toInt_le.mpr (hle.2 x hx)⟩
  cases hmem with
  | inr h => exact h
  | inl h =>
    cases l with
    | nil => exact absurd rfl hne
    | cons y ys =>
      have h1 := hle.2 y (List.mem_cons_self ..)
      have h2 := min_le_toInt y
      have : y = lmax (y :: ys) := by
        apply BitVec.toInt_inj.mp
        unfold lmax; rw [h] at h1 ⊢; omega
      rw [← this]; exact List.mem_cons_self ..

/-! ### order of arrival does not matter -/

theorem add_right_comm' (s a b : I64) : s + a + b = s + b + a := by
  rw [BitVec.add_assoc, BitVec.add_comm a b, ← BitVec.add_assoc]

theorem smin_right_comm (m a b : I64) : smin (smin m a) b = smin (smin m b) a := by
  apply BitVec.toInt_inj.mp; simp only [smin_toInt]; omega

theorem smax_right_comm (m a b : I64) : smax (smax m a) b = smax (smax m b) a := by
  apply BitVec.toInt_inj.mp; simp only [smax_toInt]; omega

theorem combine_right_comm (r : RedAcc) (p q : Partial) :
    (r.combine p).combine q = (r.combine q).combine p := by
  cases r with
  | mean s c => simp only [RedAcc.combine, add_right_comm' s, add_right_comm' c]
  | count s => simp only [RedAcc.combine, add_right_comm' s]
  | sum s => simp only [RedAcc.combine, add_right_comm' s]
  | max m =>
    simp only [RedAcc.combine]
    have := smax_right_comm m p.value q.value
    unfold smax at this; rw [this]
  | min m =>
    simp only [RedAcc.combine, combine_min_eq]
    rw [smin_right_comm]

theorem feed_right_comm (m : MapAcc) (a b : I64) : (m.feed a).feed b = (m.feed b).feed a := by
  cases m with
  | mean s c => simp only [MapAcc.feed, add_right_comm' s]
  | count c => rfl
  | sum s => simp only [MapAcc.feed, add_right_comm' s]
  | max m =>
    simp only [MapAcc.feed]
    have := smax_right_comm m a b
    unfold smax at this; rw [this]
  | min m =>
    simp only [MapAcc.feed]
    have := smin_right_comm m a b
    unfold smin at this; rw [this]

/-- the reduce result does not depend on the order in which partials arrive. -/
theorem reduceAll_perm (fn : Fn) {ps qs : List Partial} (h : ps.Perm qs) :
    reduceAll fn ps = reduceAll fn qs :=
  h.foldl_eq' (fun x _ y _ z => combine_right_comm z x y) _

/-- nor does a Map accumulator depend on the order of its input. -/
theorem mapAll_perm (fn : Fn) {l₁ l₂ : List I64} (h : l₁.Perm l₂) : mapAll fn l₁ = mapAll fn l₂ :=
  h.foldl_eq' (fun x _ y _ z => feed_right_comm z x y) _

/-- the value of a reduce state that mirrors a map state. -/
theorem val_of_mirror (m : MapAcc) :
    (match m with
      | .mean s c => RedAcc.mean s c
      | .count c => RedAcc.count c
      | .max v => RedAcc.max v
      | .min v => RedAcc.min v
      | .sum s => RedAcc.sum s).val = m.val := by
  cases m <;> rfl

end Banyan.C10
