/-
Fixed-width bit-twiddling leaf lemmas, discharged by `bv_decide`.

TRUSTED BASE NOTE (DESIGN.md section 5): this is the only file in the project in which
`bv_decide` may appear. Each lemma here adds an axiom `<name>._native.bv_decide.ax_*`
(trust in the compiled LRAT checker / `Lean.ofReduceBool`). The audit accepts such axioms only
when they belong to a lemma in namespace `Banyan.Bits`, and lists them in the evidence.
-/
import Banyan.Model.C12
import Std.Tactic.BVDecide

namespace Banyan.Bits
open Banyan.C12

theorem int64ToU_eq (i : BitVec 64) : int64ToU i = i + 0x8000000000000000#64 := by
  unfold int64ToU; bv_decide

theorem uToInt64_int64ToU (i : BitVec 64) : uToInt64 (int64ToU i) = i := by
  unfold int64ToU uToInt64; bv_decide

theorem int64ToU_ult (a b : BitVec 64) : (int64ToU a).ult (int64ToU b) = a.slt b := by
  unfold int64ToU; bv_decide

theorem int32ToU_ult (a b : BitVec 32) : (int32ToU a).ult (int32ToU b) = a.slt b := by
  unfold int32ToU; bv_decide

theorem uToInt32_int32ToU (i : BitVec 32) : uToInt32 (int32ToU i) = i := by
  unfold int32ToU uToInt32; bv_decide

theorem orderedUToFloat_floatToOrderedU (b : BitVec 64) : orderedUToFloat (floatToOrderedU b) = b := by
  unfold orderedUToFloat floatToOrderedU; bv_decide

/-- exact characterisation of the byte order of the repaired float encoding: IEEE order on
    sign-magnitude patterns, refined by `-0 < +0`. -/
theorem floatToOrderedU_ult (a b : BitVec 64) :
    (floatToOrderedU a).ult (floatToOrderedU b) =
      (fLt a b || (a == 0x8000000000000000#64 && b == 0#64)) := by
  unfold floatToOrderedU fLt
  cases ha : a.msb <;> cases hb : b.msb <;> simp only [] <;> bv_decide

theorem unzigzag_zigzag (v : BitVec 64) : unzigzag (zigzag v) = v := by
  unfold unzigzag zigzag; bv_decide

end Banyan.Bits
