/-
Fixed-width bit-twiddling leaf lemmas for C11, discharged by `bv_decide`
(same trusted-base note as Banyan/Lemmas/Bits.lean: each lemma adds an axiom
`<name>._native.bv_decide.ax_*`; the audit accepts them only in namespace `Banyan.Bits`).
-/
import Banyan.Model.C11
import Std.Tactic.BVDecide

namespace Banyan.Bits
open Banyan.C11 Banyan.C12

/-- single-byte fast path of `VarInt64ListToBytes`: the 8-bit zig-zag byte is `< 0x80` … -/
theorem zz8_lt (v : BitVec 64) (h1 : v.slt 0x40#64 = true) (h2 : (BitVec.ofInt 64 (-0x40)).slt v = true) :
    (zz8 (v.setWidth 8)).ult 0x80#8 = true := by
  unfold zz8; bv_decide

/-- … and the single-byte path of the decoder inverts it. -/
theorem unzz8_zz8 (v : BitVec 64) (h1 : v.slt 0x40#64 = true) (h2 : (BitVec.ofInt 64 (-0x40)).slt v = true) :
    (unzz8 (zz8 (v.setWidth 8))).signExtend 64 = v := by
  unfold unzz8 zz8; bv_decide

/-- for a first byte `< 0x80` the 8-bit and the 64-bit un-zig-zag agree. -/
theorem unzz8_eq_unzigzag (x : BitVec 64) (h : x.ult 0x80#64 = true) :
    (unzz8 (x.setWidth 8)).signExtend 64 = unzigzag x := by
  unfold unzz8 unzigzag; bv_decide

/-- `convert.Int64ToBytes ∘ convert.BytesToInt64 = id` on the 64-bit word. -/
theorem int64ToU_uToInt64 (u : BitVec 64) : int64ToU (uToInt64 u) = u := by
  unfold int64ToU uToInt64; bv_decide

end Banyan.Bits
