/-
Helper lemmas about big-endian byte strings and lexicographic order (used by C11, C12).
-/
import Banyan.Model.Util

namespace Banyan

theorem beBytes_length (n u : Nat) : (beBytes n u).length = n := by
  induction n with
  | zero => rfl
  | succ n ih => simp [beBytes, ih]

theorem beBytes_lt (n u : Nat) : ∀ b ∈ beBytes n u, b < 256 := by
  induction n with
  | zero => simp [beBytes]
  | succ n ih =>
    intro b hb
    simp only [beBytes, List.mem_cons] at hb
    rcases hb with rfl | hb
    · exact Nat.mod_lt _ (by decide)
    · exact ih b hb

theorem beBytes_mod (n u : Nat) : beBytes n (u % 256 ^ n) = beBytes n u := by
  induction n generalizing u with
  | zero => rfl
  | succ n ih =>
    simp only [beBytes]
    have h1 : u % 256 ^ (n + 1) / 256 ^ n % 256 = u / 256 ^ n % 256 := by
      rw [Nat.pow_succ, Nat.mod_mul_right_div_self, Nat.mod_mod]
    have h2 : beBytes n (u % 256 ^ (n + 1)) = beBytes n u := by
      rw [← ih (u % 256 ^ (n + 1)), ← ih u]
      congr 1
      rw [Nat.pow_succ]
      exact Nat.mod_mul_right_mod u (256 ^ n) 256
    rw [h1, h2]

theorem ofBE_foldl (bs : List Byte) (acc : Nat) :
    bs.foldl (fun acc b => acc * 256 + b) acc = acc * 256 ^ bs.length + ofBE bs := by
  induction bs generalizing acc with
  | nil => simp [ofBE]
  | cons b bs ih =>
    simp only [List.foldl_cons, List.length_cons, ofBE]
    rw [ih, ih (0 * 256 + b)]
    simp [Nat.pow_succ, Nat.add_mul, Nat.mul_assoc, Nat.mul_comm 256, Nat.add_assoc]

theorem ofBE_cons (b : Byte) (bs : List Byte) : ofBE (b :: bs) = b * 256 ^ bs.length + ofBE bs := by
  simp only [ofBE, List.foldl_cons]
  rw [ofBE_foldl]
  simp [ofBE]

theorem ofBE_beBytes (n u : Nat) : ofBE (beBytes n u) = u % 256 ^ n := by
  induction n generalizing u with
  | zero => simp [beBytes, ofBE, Nat.mod_one]
  | succ n ih =>
    simp only [beBytes]
    rw [ofBE_cons, beBytes_length, ih]
    rw [Nat.pow_succ, Nat.mod_mul, Nat.add_comm, Nat.mul_comm]

theorem ofBE_beBytes_of_lt (n u : Nat) (h : u < 256 ^ n) : ofBE (beBytes n u) = u := by
  rw [ofBE_beBytes, Nat.mod_eq_of_lt h]

/-- Big-endian fixed-width byte strings order like the numbers they encode. -/
theorem lexLt_beBytes (n a b : Nat) (ha : a < 256 ^ n) (hb : b < 256 ^ n) :
    lexLt (beBytes n a) (beBytes n b) = decide (a < b) := by
  induction n generalizing a b with
  | zero =>
    simp only [Nat.pow_zero, Nat.lt_one_iff] at ha hb
    subst ha; subst hb; simp [beBytes, lexLt]
  | succ n ih =>
    have hp : 0 < 256 ^ n := Nat.pow_pos (by decide)
    have hqa : a / 256 ^ n < 256 := by
      rw [Nat.div_lt_iff_lt_mul hp, Nat.mul_comm, ← Nat.pow_succ]; exact ha
    have hqb : b / 256 ^ n < 256 := by
      rw [Nat.div_lt_iff_lt_mul hp, Nat.mul_comm, ← Nat.pow_succ]; exact hb
    simp only [beBytes, lexLt, Nat.mod_eq_of_lt hqa, Nat.mod_eq_of_lt hqb]
    have ea := Nat.div_add_mod a (256 ^ n)
    have eb := Nat.div_add_mod b (256 ^ n)
    have ra := Nat.mod_lt a hp
    have rb := Nat.mod_lt b hp
    by_cases h1 : a / 256 ^ n < b / 256 ^ n
    · simp only [h1, if_true]
      have : a < b := by
        have : 256 ^ n * (a / 256 ^ n + 1) ≤ 256 ^ n * (b / 256 ^ n) := Nat.mul_le_mul_left _ h1
        rw [Nat.mul_add, Nat.mul_one] at this
        omega
      simp [this]
    · by_cases h2 : b / 256 ^ n < a / 256 ^ n
      · simp only [h1, h2, if_true, if_false]
        have : ¬ a < b := by
          have : 256 ^ n * (b / 256 ^ n + 1) ≤ 256 ^ n * (a / 256 ^ n) := Nat.mul_le_mul_left _ h2
          rw [Nat.mul_add, Nat.mul_one] at this
          omega
        simp [this]
      · simp only [h1, h2, if_false]
        have he : a / 256 ^ n = b / 256 ^ n := by omega
        rw [← beBytes_mod n a, ← beBytes_mod n b, ih _ _ ra rb]
        have : (a % 256 ^ n < b % 256 ^ n) ↔ a < b := by
          rw [he] at ea; omega
        simp [this]

end Banyan
