/-
C04 — batch accounting on the ghost state: which batches the parts a crash can leave behind cover.
`Acc A c G`: for every manifest at or above the floor and every set `S` of its listed parts that a crash name
space can show as valid (between the durable and the ready parts), the batches of `S` are a permutation of a
prefix `A.take k` of the acknowledged batches `A` with `k ≥ c` (`c` = what the last durably published manifest
covers).  Pure ghost-level lemmas: how `Acc` is preserved by each ghost transition.
-/
import Banyan.Lemmas.C04Inv9

namespace Banyan.C04
open Banyan.FS

/-- `S` is a possible set of served parts for manifest `ms`: listed, ready and alive; contains every durable one -/
structure Admissible (G : Ghost) (ms : ManS) (S : List Nat) : Prop where
  nodup : S.Nodup
  ready : ∀ id ∈ S, id ∈ ms.ids ∧ ∃ ps ∈ G.parts, ps.id = id ∧ ps.ready = true ∧ ps.dying = false
  durable : ∀ id ∈ ms.ids, (∃ ps ∈ G.parts, ps.id = id ∧ ps.durable = true ∧ ps.dying = false) → id ∈ S

def Acc (A : List Nat) (c : Nat) (G : Ghost) : Prop :=
  ∀ ms ∈ G.mans, G.aboveFloor ms.epoch → ∀ S, Admissible G ms S →
    ∃ k, c ≤ k ∧ k ≤ A.length ∧ (S.flatMap G.bat).Perm (A.take k)

theorem acc_init (A : List Nat) (c : Nat) : Acc A c {} := by
  intro ms hms; simp at hms

/-- batches of known parts do not depend on how the ghost is extended / flagged, as long as ids and batches of
    the parts stay -/
theorem bat_eq_of_mem {G : Ghost} (hn : (G.parts.map (·.id)).Nodup) {ps : PartS} (hps : ps ∈ G.parts) :
    G.bat ps.id = ps.bat := G.bat_of_mem hn ps hps

theorem flatMap_bat_congr {G G' : Ghost} {S : List Nat} (h : ∀ id ∈ S, G'.bat id = G.bat id) :
    S.flatMap G'.bat = S.flatMap G.bat := by
  induction S with
  | nil => rfl
  | cons a S ih =>
    simp only [List.flatMap_cons]
    rw [h a List.mem_cons_self, ih (fun id hid => h id (List.mem_cons_of_mem _ hid))]

/-- acknowledging one more batch -/
theorem acc_ack {A : List Nat} {c : Nat} {G : Ghost} (h : Acc A c G) (b : Nat) : Acc (A ++ [b]) c G := by
  intro ms hms hab S hS
  obtain ⟨k, hck, hkA, hp⟩ := h ms hms hab S hS
  refine ⟨k, hck, by simp; omega, ?_⟩
  rw [List.take_append_of_le_length hkA]
  exact hp

/-- a transition that keeps manifests and floor, keeps ids/batches of parts, and can only shrink the set of
    admissible `S` -/
theorem acc_of_admissible_mono {A : List Nat} {c : Nat} {G G' : Ghost} (h : Acc A c G)
    (hmans : G'.mans = G.mans) (hfloor : G'.floor = G.floor)
    (hadm : ∀ ms ∈ G.mans, G.aboveFloor ms.epoch → ∀ S, Admissible G' ms S → Admissible G ms S)
    (hbat : ∀ ms ∈ G.mans, ∀ S, Admissible G' ms S → ∀ id ∈ S, G'.bat id = G.bat id) : Acc A c G' := by
  intro ms hms hab S hS
  rw [hmans] at hms
  have hab' : G.aboveFloor ms.epoch := (aboveFloor_congr hfloor _).1 hab
  obtain ⟨k, hck, hkA, hp⟩ := h ms hms hab' S (hadm ms hms hab' S hS)
  exact ⟨k, hck, hkA, by rw [flatMap_bat_congr (hbat ms hms S hS)]; exact hp⟩

theorem find_append_of_mem {l : List PartS} {x : PartS} {id : Nat} (h : ∃ p ∈ l, p.id = id) :
    (l ++ [x]).find? (fun p => p.id == id) = l.find? (fun p => p.id == id) := by
  rw [List.find?_append]
  obtain ⟨p, hp, hid⟩ := h
  cases hf : l.find? (fun p => p.id == id) with
  | none =>
    rw [List.find?_eq_none] at hf
    have := hf p hp; simp [hid] at this
  | some y => rfl

/-- registering a new part whose flags are off -/
theorem acc_addPart {A : List Nat} {c : Nat} {G : Ghost} (h : Acc A c G) (ps0 : PartS)
    (hr : ps0.ready = false) (hd : ps0.durable = false) : Acc A c { G with parts := G.parts ++ [ps0] } := by
  apply acc_of_admissible_mono h rfl rfl
  · intro ms _ _ S hS
    refine ⟨hS.nodup, ?_, ?_⟩
    · intro id hid
      obtain ⟨h1, ps, hps, hpid, hpr, hpd⟩ := hS.ready id hid
      have : ps ∈ G.parts ∨ ps = ps0 := by simpa using hps
      rcases this with hps' | rfl
      · exact ⟨h1, ps, hps', hpid, hpr, hpd⟩
      · rw [hr] at hpr; cases hpr
    · intro id hid ⟨ps, hps, hpid, hpdur, hpd⟩
      exact hS.durable id hid ⟨ps, List.mem_append_left _ hps, hpid, hpdur, hpd⟩
  · intro ms _ S hS id hid
    obtain ⟨_, ps, hps, hpid, hpr, _⟩ := hS.ready id hid
    have : ps ∈ G.parts ∨ ps = ps0 := by simpa using hps
    rcases this with hps' | rfl
    · unfold Ghost.bat
      show (match (G.parts ++ [ps0]).find? (fun p => p.id == id) with | some p => p.bat | none => []) = _
      rw [find_append_of_mem ⟨ps, hps', hpid⟩]
    · rw [hr] at hpr; cases hpr

/-- `updPart` keeps batches -/
theorem bat_updPart {G : Ghost} (x : Nat) (φ : PartS → PartS) (hφ : ∀ p, (φ p).id = p.id ∧ (φ p).bat = p.bat)
    (id : Nat) : (G.updPart x φ).bat id = G.bat id := by
  unfold Ghost.bat Ghost.updPart
  simp only
  induction G.parts with
  | nil => rfl
  | cons a l ih =>
    simp only [List.map_cons, List.find?_cons]
    by_cases hax : a.id = x
    · simp only [hax, if_true]
      by_cases hai : (φ a).id = id
      · have hai' : a.id = id := by rw [← (hφ a).1]; exact hai
        simp [hai, hai', (hφ a).2, hax] at *
        rw [← hax] at hai' ⊢
        simp [hai', (hφ a).2]
      · have hai' : ¬ a.id = id := by rw [← (hφ a).1]; exact hai
        have h1 : ((φ a).id == id) = false := by simp [hai]
        have h2 : (a.id == id) = false := by simp [hai']
        rw [hax] at h2
        simp only [h1, h2]
        exact ih
    · simp only [hax, if_false]
      by_cases hai : a.id = id
      · simp [hai]
      · have h2 : (a.id == id) = false := by simp [hai]
        simp only [h2]
        exact ih

end Banyan.C04
