/-
C04 — batch accounting on the ghost state: which batches the parts a crash can leave behind cover.
`Acc A c G`: for every manifest at or above the floor and every set `S` of its listed parts that a crash name
space can show as valid (between the durable and the ready parts), the batches of `S` are a permutation of a
prefix `A.take k` of the acknowledged batches `A` with `k ≥ c` (`c` = what the last durably published manifest
covers).  Pure ghost-level lemmas: how `Acc` is preserved by each ghost transition.
-/
import Banyan.Lemmas.C04Inv9

namespace Banyan.C04
open Banyan.FS

/-- `S` is a possible set of served parts for manifest `ms`: listed, ready and alive; contains every durable one -/
structure Admissible (G : Ghost) (ms : ManS) (S : List Nat) : Prop where
  nodup : S.Nodup
  ready : ∀ id ∈ S, id ∈ ms.ids ∧ ∃ ps ∈ G.parts, ps.id = id ∧ ps.ready = true ∧ ps.dying = false
  durable : ∀ id ∈ ms.ids, (∃ ps ∈ G.parts, ps.id = id ∧ ps.durable = true ∧ ps.dying = false) → id ∈ S

def Acc (A : List Nat) (c : Nat) (G : Ghost) : Prop :=
  ∀ ms ∈ G.mans, G.aboveFloor ms.epoch → ∀ S, Admissible G ms S →
    ∃ k, c ≤ k ∧ k ≤ A.length ∧ (S.flatMap G.bat).Perm (A.take k)

theorem acc_init (A : List Nat) (c : Nat) : Acc A c {} := by
  intro ms hms; simp at hms

/-- batches of known parts do not depend on how the ghost is extended / flagged, as long as ids and batches of
    the parts stay -/
theorem bat_eq_of_mem {G : Ghost} (hn : (G.parts.map (·.id)).Nodup) {ps : PartS} (hps : ps ∈ G.parts) :
    G.bat ps.id = ps.bat := G.bat_of_mem hn ps hps

theorem flatMap_bat_congr {G G' : Ghost} {S : List Nat} (h : ∀ id ∈ S, G'.bat id = G.bat id) :
    S.flatMap G'.bat = S.flatMap G.bat := by
  induction S with
  | nil => rfl
  | cons a S ih =>
    simp only [List.flatMap_cons]
    rw [h a List.mem_cons_self, ih (fun id hid => h id (List.mem_cons_of_mem _ hid))]

/-- acknowledging one more batch -/
theorem acc_ack {A : List Nat} {c : Nat} {G : Ghost} (h : Acc A c G) (b : Nat) : Acc (A ++ [b]) c G := by
  intro ms hms hab S hS
  obtain ⟨k, hck, hkA, hp⟩ := h ms hms hab S hS
  refine ⟨k, hck, by simp; omega, ?_⟩
  rw [List.take_append_of_le_length hkA]
  exact hp

/-- a transition that keeps manifests and floor, keeps ids/batches of parts, and can only shrink the set of
    admissible `S` -/
theorem acc_of_admissible_mono {A : List Nat} {c : Nat} {G G' : Ghost} (h : Acc A c G)
    (hmans : G'.mans = G.mans) (hfloor : G'.floor = G.floor)
    (hadm : ∀ ms ∈ G.mans, G.aboveFloor ms.epoch → ∀ S, Admissible G' ms S → Admissible G ms S)
    (hbat : ∀ ms ∈ G.mans, ∀ S, Admissible G' ms S → ∀ id ∈ S, G'.bat id = G.bat id) : Acc A c G' := by
  intro ms hms hab S hS
  rw [hmans] at hms
  have hab' : G.aboveFloor ms.epoch := (aboveFloor_congr hfloor _).1 hab
  obtain ⟨k, hck, hkA, hp⟩ := h ms hms hab' S (hadm ms hms hab' S hS)
  exact ⟨k, hck, hkA, by rw [flatMap_bat_congr (hbat ms hms S hS)]; exact hp⟩

theorem bat_eq_getD (G : Ghost) (id : Nat) :
    G.bat id = ((G.parts.find? (fun p => p.id == id)).map (·.bat)).getD [] := by
  unfold Ghost.bat
  cases G.parts.find? (fun p => p.id == id) <;> rfl

theorem find_append_of_mem {l : List PartS} {x : PartS} {id : Nat} (h : ∃ p ∈ l, p.id = id) :
    (l ++ [x]).find? (fun p => p.id == id) = l.find? (fun p => p.id == id) := by
  rw [List.find?_append]
  obtain ⟨p, hp, hid⟩ := h
  cases hf : l.find? (fun p => p.id == id) with
  | none =>
    rw [List.find?_eq_none] at hf
    have := hf p hp; simp [hid] at this
  | some y => rfl

/-- registering a new part whose flags are off -/
theorem acc_addPart {A : List Nat} {c : Nat} {G : Ghost} (h : Acc A c G) (ps0 : PartS)
    (hr : ps0.ready = false) (hd : ps0.durable = false) : Acc A c { G with parts := G.parts ++ [ps0] } := by
  refine acc_of_admissible_mono (G' := { G with parts := G.parts ++ [ps0] }) h rfl rfl ?_ ?_
  · intro ms _ _ S hS
    refine ⟨hS.nodup, ?_, ?_⟩
    · intro id hid
      obtain ⟨h1, ps, hps, hpid, hpr, hpd⟩ := hS.ready id hid
      have : ps ∈ G.parts ∨ ps = ps0 := by simpa using hps
      rcases this with hps' | rfl
      · exact ⟨h1, ps, hps', hpid, hpr, hpd⟩
      · rw [hr] at hpr; cases hpr
    · intro id hid ⟨ps, hps, hpid, hpdur, hpd⟩
      exact hS.durable id hid ⟨ps, List.mem_append_left _ hps, hpid, hpdur, hpd⟩
  · intro ms _ S hS id hid
    obtain ⟨_, ps, hps, hpid, hpr, _⟩ := hS.ready id hid
    have : ps ∈ G.parts ∨ ps = ps0 := by simpa using hps
    rcases this with hps' | rfl
    · rw [bat_eq_getD, bat_eq_getD]
      show (((G.parts ++ [ps0]).find? (fun p => p.id == id)).map (·.bat)).getD [] = _
      rw [find_append_of_mem ⟨ps, hps', hpid⟩]
    · rw [hr] at hpr; cases hpr

theorem find_map_upd (l : List PartS) (x id : Nat) (φ : PartS → PartS)
    (hφ : ∀ p, (φ p).id = p.id ∧ (φ p).bat = p.bat) :
    ((l.map (fun p => if p.id = x then φ p else p)).find? (fun p => p.id == id)).map (·.bat) =
      (l.find? (fun p => p.id == id)).map (·.bat) := by
  induction l with
  | nil => rfl
  | cons a l ih =>
    have hid : (if a.id = x then φ a else a).id = a.id := by
      by_cases h : a.id = x <;> simp [h, (hφ a).1]
    have hbat : (if a.id = x then φ a else a).bat = a.bat := by
      by_cases h : a.id = x <;> simp [h, (hφ a).2]
    simp only [List.map_cons, List.find?_cons, hid]
    by_cases h : (a.id == id) = true
    · simp [h, hbat]
    · simp only [h]; exact ih

/-- `updPart` keeps batches -/
theorem bat_updPart {G : Ghost} (x : Nat) (φ : PartS → PartS) (hφ : ∀ p, (φ p).id = p.id ∧ (φ p).bat = p.bat)
    (id : Nat) : (G.updPart x φ).bat id = G.bat id := by
  rw [bat_eq_getD, bat_eq_getD]
  show (((G.parts.map (fun p => if p.id = x then φ p else p)).find? (fun p => p.id == id)).map (·.bat)).getD [] = _
  rw [find_map_upd G.parts x id φ hφ]

/-- membership in an updated part list, with the original -/
theorem mem_updPart_orig {G : Ghost} {x : Nat} {φ : PartS → PartS} {p' : PartS} (h : p' ∈ (G.updPart x φ).parts) :
    ∃ p ∈ G.parts, p' = (if p.id = x then φ p else p) := mem_updPart.1 h

/-- a part becomes durable: fewer admissible sets -/
theorem acc_durable {A : List Nat} {c : Nat} {G : Ghost} (h : Acc A c G) (x : Nat) : Acc A c (G.durable x) := by
  have hφ : ∀ p : PartS, ({ p with durable := true } : PartS).id = p.id ∧ ({ p with durable := true } : PartS).bat = p.bat :=
    fun _ => ⟨rfl, rfl⟩
  refine acc_of_admissible_mono (G' := G.durable x) h rfl rfl ?_ ?_
  · intro ms _ _ S hS
    refine ⟨hS.nodup, ?_, ?_⟩
    · intro id hid
      obtain ⟨h1, p', hp', hpid, hpr, hpd⟩ := hS.ready id hid
      obtain ⟨p, hp, rfl⟩ := mem_updPart_orig hp'
      by_cases hh : p.id = x
      · rw [if_pos hh] at hpid hpr hpd
        exact ⟨h1, p, hp, hpid, hpr, hpd⟩
      · rw [if_neg hh] at hpid hpr hpd
        exact ⟨h1, p, hp, hpid, hpr, hpd⟩
    · intro id hid ⟨p, hp, hpid, hpdur, hpd⟩
      apply hS.durable id hid
      refine ⟨if p.id = x then { p with durable := true } else p, mem_updPart.2 ⟨p, hp, rfl⟩, ?_⟩
      by_cases hh : p.id = x
      · rw [if_pos hh]; exact ⟨hpid, rfl, hpd⟩
      · rw [if_neg hh]; exact ⟨hpid, hpdur, hpd⟩
  · intro ms _ S _ id _
    exact bat_updPart x _ hφ id

/-- a part becomes dying: it is not listed by any manifest at or above the floor -/
theorem acc_dying {A : List Nat} {c : Nat} {G : Ghost} (h : Acc A c G) (x : Nat)
    (hfree : ∀ ms ∈ G.mans, G.aboveFloor ms.epoch → x ∉ ms.ids) : Acc A c (G.dyingPart x) := by
  have hφ : ∀ p : PartS, ({ p with dying := true } : PartS).id = p.id ∧ ({ p with dying := true } : PartS).bat = p.bat :=
    fun _ => ⟨rfl, rfl⟩
  refine acc_of_admissible_mono (G' := G.dyingPart x) h rfl rfl ?_ ?_
  · intro ms hms hab S hS
    refine ⟨hS.nodup, ?_, ?_⟩
    · intro id hid
      obtain ⟨h1, p', hp', hpid, hpr, hpd⟩ := hS.ready id hid
      obtain ⟨p, hp, rfl⟩ := mem_updPart_orig hp'
      by_cases hh : p.id = x
      · rw [if_pos hh] at hpd; cases hpd
      · rw [if_neg hh] at hpid hpr hpd
        exact ⟨h1, p, hp, hpid, hpr, hpd⟩
    · intro id hid ⟨p, hp, hpid, hpdur, hpd⟩
      apply hS.durable id hid
      have hne : p.id ≠ x := by
        intro hh; apply hfree ms hms hab; rw [← hh, hpid]; exact hid
      exact ⟨p, mem_updPart.2 ⟨p, hp, by simp [hne]⟩, hpid, hpdur, hpd⟩
  · intro ms _ S _ id _
    exact bat_updPart x _ hφ id

/-- a part becomes ready: for every manifest at or above the floor that lists it, its batches are exactly the
    next ones after those of any previously admissible set -/
theorem acc_ready {A : List Nat} {c : Nat} {G : Ghost} (hG : (G.parts.map (·.id)).Nodup) (h : Acc A c G)
    (ps : PartS) (hps : ps ∈ G.parts) (hnr : ps.ready = false) (hnd : ps.durable = false)
    (hnext : ∀ ms ∈ G.mans, G.aboveFloor ms.epoch → ps.id ∈ ms.ids → ∀ S0, Admissible G ms S0 →
      ∃ k, c ≤ k ∧ k ≤ A.length ∧ (S0.flatMap G.bat ++ ps.bat).Perm (A.take k)) :
    Acc A c (G.ready ps.id) := by
  have hφ : ∀ p : PartS, ({ p with ready := true } : PartS).id = p.id ∧ ({ p with ready := true } : PartS).bat = p.bat :=
    fun _ => ⟨rfl, rfl⟩
  intro ms hms hab S hS
  have hms' : ms ∈ G.mans := hms
  have hab' : G.aboveFloor ms.epoch := hab
  have hbat : ∀ id, (G.ready ps.id).bat id = G.bat id := fun id => bat_updPart ps.id _ hφ id
  -- admissibility in the old ghost of a set that avoids the new part
  have hold : ∀ S0, S0.Nodup → (∀ id ∈ S0, id ∈ S ∧ id ≠ ps.id) → (∀ id ∈ S, id ≠ ps.id → id ∈ S0) →
      Admissible G ms S0 := by
    intro S0 hnd0 hsub hsup
    refine ⟨hnd0, ?_, ?_⟩
    · intro id hid
      obtain ⟨hidS, hne⟩ := hsub id hid
      obtain ⟨h1, p', hp', hpid, hpr, hpd⟩ := hS.ready id hidS
      obtain ⟨p, hp, rfl⟩ := mem_updPart_orig hp'
      have hpne : p.id ≠ ps.id := by
        intro hh; apply hne; rw [← hpid]; simp [hh]
      simp only [hpne, if_false] at hpid hpr hpd
      exact ⟨h1, p, hp, hpid, hpr, hpd⟩
    · intro id hid ⟨p, hp, hpid, hpdur, hpd⟩
      have hne : id ≠ ps.id := by
        intro hh
        have : p = ps := eq_of_nodup_map (·.id) G.parts hG hp hps (by rw [hpid, hh])
        subst this; rw [hnd] at hpdur; cases hpdur
      apply hsup id _ hne
      apply hS.durable id hid
      have hpne : p.id ≠ ps.id := by rw [hpid]; exact hne
      exact ⟨p, mem_updPart.2 ⟨p, hp, by simp [hpne]⟩, hpid, hpdur, hpd⟩
  rw [flatMap_bat_congr (fun id _ => hbat id)]
  by_cases hin : ps.id ∈ S
  · -- S = the new part plus an old admissible set
    have hperm : S.Perm (ps.id :: S.erase ps.id) := List.perm_cons_erase hin
    have hS0 : Admissible G ms (S.erase ps.id) := by
      apply hold
      · exact hS.nodup.erase _
      · intro id hid
        exact ⟨List.mem_of_mem_erase hid, fun hh => by
          rw [hh] at hid; exact (List.Nodup.mem_erase_iff hS.nodup).1 hid |>.1 rfl⟩
      · intro id hid hne
        exact (List.mem_erase_of_ne hne).2 hid
    obtain ⟨k, hck, hkA, hp⟩ := hnext ms hms' hab' (hS.ready _ hin).1 _ hS0
    refine ⟨k, hck, hkA, ?_⟩
    have h1 : (S.flatMap G.bat).Perm ((ps.id :: S.erase ps.id).flatMap G.bat) := hperm.flatMap_right _
    refine h1.trans ?_
    rw [List.flatMap_cons, G.bat_of_mem hG ps hps]
    exact List.perm_append_comm.trans hp
  · have hS0 : Admissible G ms S := by
      apply hold S hS.nodup
      · intro id hid; exact ⟨hid, fun hh => hin (hh ▸ hid)⟩
      · intro id hid _; exact hid
    exact h ms hms' hab' S hS0

/-- a new manifest is registered -/
theorem acc_addMan {A : List Nat} {c : Nat} {G : Ghost} (h : Acc A c G) (ms0 : ManS)
    (hnew : ∀ S, Admissible G ms0 S → ∃ k, c ≤ k ∧ k ≤ A.length ∧ (S.flatMap G.bat).Perm (A.take k)) :
    Acc A c { G with mans := G.mans ++ [ms0] } := by
  intro ms hms hab S hS
  have hS' : Admissible G ms S := ⟨hS.nodup, hS.ready, hS.durable⟩
  have : ms ∈ G.mans ∨ ms = ms0 := by simpa using hms
  rcases this with hms' | rfl
  · exact h ms hms' hab S hS'
  · exact hnew S hS'

/-- a manifest becomes ready: nothing changes for the accounting -/
theorem acc_manReady {A : List Nat} {c : Nat} {G : Ghost} (h : Acc A c G) (e : Nat) : Acc A c (G.manReady e) := by
  intro ms' hms' hab S hS
  obtain ⟨ms, hms, rfl⟩ := mem_updMan.1 hms'
  have hids : (if ms.epoch = e then ({ ms with ready := true } : ManS) else ms).ids = ms.ids := by
    by_cases hh : ms.epoch = e <;> simp [hh]
  have hep : (if ms.epoch = e then ({ ms with ready := true } : ManS) else ms).epoch = ms.epoch := by
    by_cases hh : ms.epoch = e <;> simp [hh]
  have hS' : Admissible G ms S := ⟨hS.nodup, by rw [← hids]; exact hS.ready, by rw [← hids]; exact hS.durable⟩
  exact h ms hms (by rw [← hep]; exact hab) S hS'

/-- the floor advances to the newest manifest: the cover becomes what that manifest covers -/
theorem acc_setFloor {A : List Nat} {c' : Nat} {G : Ghost} (hG : (G.mans.map (·.epoch)).Nodup)
    (ms0 : ManS) (hms0 : ms0 ∈ G.mans) (hmax : ∀ ms ∈ G.mans, ms.epoch ≤ ms0.epoch)
    (hnew : ∀ S, Admissible G ms0 S → ∃ k, c' ≤ k ∧ k ≤ A.length ∧ (S.flatMap G.bat).Perm (A.take k)) :
    Acc A c' { G with floor := some ms0.epoch } := by
  intro ms hms hab S hS
  have hle := hab ms0.epoch rfl
  have hge := hmax ms hms
  have : ms = ms0 := eq_of_nodup_map (·.epoch) G.mans hG hms hms0 (by omega)
  subst this
  exact hnew S ⟨hS.nodup, hS.ready, hS.durable⟩

/-! ### the accounting predicate threaded through the protocol phases -/

/-- `Acc` plus: when nothing was published yet, nothing is covered -/
structure AccAt (A : List Nat) (c : Nat) (G : Ghost) : Prop where
  acc : Acc A c G
  zero : G.floor = none → c = 0

theorem acc_mono {A : List Nat} {c c' : Nat} {G : Ghost} (hle : c' ≤ c) (h : Acc A c G) : Acc A c' G := by
  intro ms hms hab S hS
  obtain ⟨k, hck, hkA, hp⟩ := h ms hms hab S hS
  exact ⟨k, Nat.le_trans hle hck, hkA, hp⟩

theorem accAt_mono {A : List Nat} {c c' : Nat} {G : Ghost} (hle : c' ≤ c) (h : AccAt A c G) : AccAt A c' G :=
  ⟨acc_mono hle h.acc, fun hf => by have := h.zero hf; omega⟩

theorem flatMap_congr' {α β : Type} {l : List α} {f g : α → List β} (h : ∀ a ∈ l, f a = g a) :
    l.flatMap f = l.flatMap g := by
  induction l with
  | nil => rfl
  | cons a l ih =>
    simp only [List.flatMap_cons]
    rw [h a List.mem_cons_self, ih (fun b hb => h b (List.mem_cons_of_mem _ hb))]

/-- When every part of `L` is listed by `ms` and durable, and every listed ready part is in `L`, the admissible
    sets of `ms` are exactly (the ids of) `L`. -/
theorem admissible_exact {G : Ghost} {ms : ManS} {L : List PartG} (hG : (G.parts.map (·.id)).Nodup)
    (hLnd : (L.map (·.id)).Nodup)
    (hsub : ∀ id ∈ ms.ids, ∀ ps ∈ G.parts, ps.id = id → ps.ready = true → ps.dying = false → id ∈ L.map (·.id))
    (hsup : ∀ p ∈ L, p.id ∈ ms.ids ∧
      ∃ ps ∈ G.parts, ps.id = p.id ∧ ps.bat = p.batches ∧ ps.durable = true ∧ ps.dying = false)
    {S : List Nat} (hS : Admissible G ms S) : (S.flatMap G.bat).Perm (L.flatMap (·.batches)) := by
  have h1 : S.Perm (L.map (·.id)) := by
    rw [List.perm_ext_iff_of_nodup hS.nodup hLnd]
    intro id
    constructor
    · intro hid
      obtain ⟨hin, ps, hps, hpid, hr, hd⟩ := hS.ready id hid
      exact hsub id hin ps hps hpid hr hd
    · intro hid
      obtain ⟨p, hp, rfl⟩ := List.mem_map.1 hid
      obtain ⟨hin, ps, hps, hpid, _, hdur, hdy⟩ := hsup p hp
      exact hS.durable p.id hin ⟨ps, hps, hpid, hdur, hdy⟩
  refine (h1.flatMap_right _).trans ?_
  rw [List.flatMap_map]
  rw [flatMap_congr' (g := fun p => p.batches)]
  intro p hp
  obtain ⟨_, ps, hps, hpid, hbat, _, _⟩ := hsup p hp
  rw [← hpid, G.bat_of_mem hG ps hps, hbat]

/-- a prefix of the acknowledged batches, extended by the next ones -/
theorem perm_take_extend {A fb x y : List Nat} (hfile : fb.Perm (A.take fb.length))
    (hmem : A.drop fb.length = x ++ y) :
    fb.length + x.length ≤ A.length ∧ (fb ++ x).Perm (A.take (fb.length + x.length)) := by
  have hn : fb.length ≤ A.length := by
    have := hfile.length_eq
    rw [List.length_take] at this
    omega
  have hlen : (A.drop fb.length).length = x.length + y.length := by rw [hmem]; simp
  rw [List.length_drop] at hlen
  refine ⟨by omega, ?_⟩
  rw [List.take_add, hmem, List.take_left' rfl]
  exact List.Perm.append_right _ hfile

theorem admissible_parts_eq {G G' : Ghost} (h : G'.parts = G.parts) {ms : ManS} {S : List Nat}
    (hS : Admissible G' ms S) : Admissible G ms S := by
  refine ⟨hS.nodup, ?_, ?_⟩
  · intro id hid; have := hS.ready id hid; rw [h] at this; exact this
  · intro id hid hh; apply hS.durable id hid; rw [h]; exact hh

theorem bat_parts_eq {G G' : Ghost} (h : G'.parts = G.parts) : G'.bat = G.bat := by
  funext id; unfold Ghost.bat; rw [h]

end Banyan.C04
