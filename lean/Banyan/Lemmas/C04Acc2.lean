/-
C04 — batch accounting through the protocol phases: a new part (flush / merge output), a new manifest.
Ghost-level facts; the file system is not involved.
-/
import Banyan.Lemmas.C04Link

namespace Banyan.C04
open Banyan.FS

/-- a new part becomes registered, ready, durable; `hnext` says what it adds for the manifests that list it -/
theorem new_part_acc {A : List Nat} {c : Nat} {G1 : Ghost} (hG1 : (G1.parts.map (·.id)).Nodup)
    (hacc : AccAt A c G1) (ps : PartS) (hfresh : ps.id ∉ G1.parts.map (·.id))
    (hr : ps.ready = false) (hdu : ps.durable = false)
    (hnext : ∀ ms ∈ ({ G1 with parts := G1.parts ++ [ps] } : Ghost).mans,
      ({ G1 with parts := G1.parts ++ [ps] } : Ghost).aboveFloor ms.epoch → ps.id ∈ ms.ids →
      ∀ S0, Admissible { G1 with parts := G1.parts ++ [ps] } ms S0 →
        ∃ k, c ≤ k ∧ k ≤ A.length ∧
          (S0.flatMap ({ G1 with parts := G1.parts ++ [ps] } : Ghost).bat ++ ps.bat).Perm (A.take k)) :
    AccAt A c { G1 with parts := G1.parts ++ [ps] } ∧
    AccAt A c (({ G1 with parts := G1.parts ++ [ps] } : Ghost).ready ps.id) ∧
    AccAt A c (G1.withPart ps) := by
  have hnd2 : (({ G1 with parts := G1.parts ++ [ps] } : Ghost).parts.map (·.id)).Nodup := by
    show ((G1.parts ++ [ps]).map (·.id)).Nodup
    rw [List.map_append, List.nodup_append]
    refine ⟨hG1, by simp, ?_⟩
    intro a ha b hb
    simp at hb; subst hb
    intro hab; subst hab; exact hfresh ha
  have a0 : Acc A c { G1 with parts := G1.parts ++ [ps] } := acc_addPart hacc.acc ps hr hdu
  have a1 : Acc A c (({ G1 with parts := G1.parts ++ [ps] } : Ghost).ready ps.id) :=
    acc_ready hnd2 a0 ps (by simp) hr hdu hnext
  have a2 : Acc A c (G1.withPart ps) := acc_durable a1 ps.id
  exact ⟨⟨a0, fun hf => hacc.zero hf⟩, ⟨a1, fun hf => hacc.zero hf⟩, ⟨a2, fun hf => hacc.zero hf⟩⟩

/-- a new part no manifest at or above the floor lists (the output of a merge) -/
theorem fresh_part_acc {A : List Nat} {c : Nat} {G1 : Ghost} (hG1 : (G1.parts.map (·.id)).Nodup)
    (hacc : AccAt A c G1) (ps : PartS) (hfresh : ps.id ∉ G1.parts.map (·.id))
    (hr : ps.ready = false) (hdu : ps.durable = false)
    (hun : ∀ ms ∈ G1.mans, G1.aboveFloor ms.epoch → ps.id ∉ ms.ids) :
    AccAt A c { G1 with parts := G1.parts ++ [ps] } ∧
    AccAt A c (({ G1 with parts := G1.parts ++ [ps] } : Ghost).ready ps.id) ∧
    AccAt A c (G1.withPart ps) :=
  new_part_acc hG1 hacc ps hfresh hr hdu (fun ms hms hab hin => absurd hin (hun ms hms hab))

/-- One memory part of a flush: the manifests that list it list every older memory part too, and those are
    complete already, so the new part's batch is exactly the next one. -/
theorem flush_step_acc {G G1 : Ghost} {tb : Tbl} (hL : Link G tb) (hG1 : (G1.parts.map (·.id)).Nodup)
    {d : List PartG} {p : PartG} {rest : List PartG} (hM : tb.parts.filter (·.mem) = d ++ p :: rest)
    (hPA : PartsAdded G G1 (d.map (fun p => (p.id, p.batches))))
    (hacc : AccAt tb.acked (fileBatches tb).length G1) (hfresh : p.id ∉ G1.parts.map (·.id))
    (ps : PartS) (hid : ps.id = p.id) (hbat : ps.bat = p.batches) (hr : ps.ready = false) (hdu : ps.durable = false)
    (hdy : ps.dying = false) :
    AccAt tb.acked (fileBatches tb).length { G1 with parts := G1.parts ++ [ps] } ∧
    AccAt tb.acked (fileBatches tb).length (({ G1 with parts := G1.parts ++ [ps] } : Ghost).ready ps.id) ∧
    (PartsAdded G (G1.withPart ps) ((d ++ [p]).map (fun p => (p.id, p.batches))) ∧
      AccAt tb.acked (fileBatches tb).length (G1.withPart ps)) := by
  have hfresh' : ps.id ∉ G1.parts.map (·.id) := by rw [hid]; exact hfresh
  have hnd2 : (({ G1 with parts := G1.parts ++ [ps] } : Ghost).parts.map (·.id)).Nodup := by
    show ((G1.parts ++ [ps]).map (·.id)).Nodup
    rw [List.map_append, List.nodup_append]
    refine ⟨hG1, by simp, ?_⟩
    intro a ha b hb
    simp at hb; subst hb
    intro hab; subst hab; exact hfresh' ha
  have hdsub : ∀ q ∈ d, q ∈ tb.parts ∧ q.mem = true := by
    intro q hq
    have : q ∈ tb.parts.filter (·.mem) := by rw [hM]; exact List.mem_append_left _ hq
    exact List.mem_filter.1 this
  -- the ids of the file parts and the flushed parts are distinct
  have hLnd : ((tb.parts.filter (fun p => !p.mem) ++ d).map (·.id)).Nodup := by
    have h1 : ((tb.parts.filter (fun p => !p.mem) ++ tb.parts.filter (·.mem)).map (·.id)).Nodup := by
      have hperm : (tb.parts.filter (fun p => !p.mem) ++ tb.parts.filter (·.mem)).Perm tb.parts :=
        List.perm_append_comm.trans (List.filter_append_perm (·.mem) tb.parts)
      exact ((hperm.map (·.id)).nodup_iff).2 hL.idsNodup
    refine List.Nodup.sublist (List.Sublist.map _ ?_) h1
    apply List.Sublist.append (List.Sublist.refl _)
    rw [hM]; exact List.sublist_append_left _ _
  obtain ⟨q0, q1, q2⟩ := new_part_acc hG1 hacc ps hfresh' hr hdu (by
    intro ms hms hab hlisted S0 hS0
    have hms' : ms ∈ G.mans := by
      have : ms ∈ G1.mans := hms
      rw [hPA.mans] at this; exact this
    have hab' : G.aboveFloor ms.epoch := by
      have : G1.aboveFloor ms.epoch := hab
      exact (aboveFloor_congr hPA.floor _).1 this
    have hex := admissible_exact (L := tb.parts.filter (fun p => !p.mem) ++ d) hnd2 hLnd ?_ ?_ hS0
    · have hLb : (tb.parts.filter (fun p => !p.mem) ++ d).flatMap (·.batches) =
          fileBatches tb ++ d.flatMap (·.batches) := by
        unfold fileBatches; rw [List.flatMap_append]
      rw [hLb] at hex
      obtain ⟨hk, hperm⟩ := perm_take_extend (x := d.flatMap (·.batches) ++ p.batches)
        (y := rest.flatMap (·.batches)) hL.tbl.file
        (by rw [← hL.tbl.mem]; unfold memBatches; rw [hM]; simp [List.flatMap_append])
      refine ⟨_, Nat.le_add_right _ _, hk, ?_⟩
      rw [hbat]
      refine (hex.append_right _).trans ?_
      rw [List.append_assoc]; exact hperm
    · -- a listed ready part is a file part of the snapshot or one of the parts flushed so far
      intro id hin ps' hps' hpid hrdy _
      have hps'' : ps' ∈ G1.parts ∨ ps' = ps := by simpa using hps'
      rcases hps'' with hps'' | rfl
      · rw [List.map_append, List.mem_append]
        rcases hPA.cases ps' hps'' with hold | ⟨x, hx, hxid, _⟩
        · left; exact hL.listed_known_file hms' hab' hin hold hpid
        · right
          obtain ⟨q, hq, rfl⟩ := List.mem_map.1 hx
          exact List.mem_map.2 ⟨q, hq, by rw [← hpid, hxid]⟩
      · rw [hr] at hrdy; cases hrdy
    · -- every such part is listed and durable
      intro q hq
      rcases List.mem_append.1 hq with hq | hq
      · obtain ⟨hq1, hq2⟩ := List.mem_filter.1 hq
        have hm : q.mem = false := by simpa using hq2
        refine ⟨hL.listsFile ms hms' hab' q hq1 hm, ?_⟩
        obtain ⟨ps0, hps0, h1, h2, h3, h4⟩ := hL.file_ghost hq1 hm
        exact ⟨ps0, by show ps0 ∈ G1.parts ++ [ps]; exact List.mem_append_left _ (hPA.old ps0 hps0), h1, h2, h3, h4⟩
      · constructor
        · obtain ⟨pre, suf, hps, hpre, hsuf⟩ := hL.listedPrefix ms hms' hab'
          rw [hM] at hps
          rcases List.append_eq_append_iff.1 hps with ⟨a', h1, _⟩ | ⟨c', _, h2⟩
          · exact hpre q (by rw [h1]; exact List.mem_append_left _ hq)
          · exfalso
            apply hsuf p (by rw [h2]; simp)
            rw [← hid]; exact hlisted
        · obtain ⟨ps0, hps0, h1, h2, _, h3, h4⟩ := hPA.added (q.id, q.batches) (List.mem_map.2 ⟨q, hq, rfl⟩)
          exact ⟨ps0, by show ps0 ∈ G1.parts ++ [ps]; exact List.mem_append_left _ hps0, h1, h2, h3, h4⟩)
  refine ⟨q0, q1, ?_, q2⟩
  have := partsAdded_snoc hPA ps hfresh' hdy
  rw [hid, hbat] at this
  rw [List.map_append]
  exact this

/-- the admissible sets of the manifest of a snapshot whose file parts are all complete -/
theorem publish_new_acc {G : Ghost} {t1 : Tbl} {A : List Nat} {n1 : Nat} (hG : (G.parts.map (·.id)).Nodup)
    (hnd1 : (t1.parts.map (·.id)).Nodup)
    (hmemFresh1 : ∀ p ∈ t1.parts, p.mem = true → p.id ∉ G.parts.map (·.id))
    (hknown1 : ∀ p ∈ t1.parts, p.mem = false →
      ∃ ps ∈ G.parts, ps.id = p.id ∧ ps.bat = p.batches ∧ ps.durable = true ∧ ps.dying = false)
    (hfile1 : (fileBatches t1).Perm (A.take n1)) (hn1 : n1 ≤ A.length)
    (ms : ManS) (hids : ms.ids = t1.ids) {S : List Nat} (hS : Admissible G ms S) :
    ∃ k, n1 ≤ k ∧ k ≤ A.length ∧ (S.flatMap G.bat).Perm (A.take k) := by
  refine ⟨n1, Nat.le_refl _, hn1, ?_⟩
  refine (admissible_exact (L := t1.parts.filter (fun p => !p.mem)) hG (nodup_map_filter _ _ _ hnd1) ?_ ?_ hS).trans hfile1
  · intro id hin ps hps hpid _ _
    rw [hids] at hin
    obtain ⟨p, hp, hpi⟩ := List.mem_map.1 hin
    have hm : p.mem = false := by
      apply bool_eq_false_of_ne_true
      intro hm
      exact hmemFresh1 p hp hm (List.mem_map.2 ⟨ps, hps, by rw [hpid, hpi]⟩)
    exact List.mem_map.2 ⟨p, List.mem_filter.2 ⟨hp, by simp [hm]⟩, hpi⟩
  · intro p hp
    obtain ⟨hp1, hp2⟩ := List.mem_filter.1 hp
    have hm : p.mem = false := by simpa using hp2
    exact ⟨by rw [hids]; exact List.mem_map.2 ⟨p, hp1, rfl⟩, hknown1 p hp1 hm⟩

/-- the three ghosts of `persist`: the manifest registered, ready, published (the floor) -/
theorem persist_acc {G : Ghost} {t1 : Tbl} {A : List Nat} {n n1 : Nat} (hG : (G.parts.map (·.id)).Nodup)
    (hGm : (G.mans.map (·.epoch)).Nodup) (hacc : AccAt A n G) (hle : n ≤ n1)
    (hnd1 : (t1.parts.map (·.id)).Nodup)
    (hmemFresh1 : ∀ p ∈ t1.parts, p.mem = true → p.id ∉ G.parts.map (·.id))
    (hknown1 : ∀ p ∈ t1.parts, p.mem = false →
      ∃ ps ∈ G.parts, ps.id = p.id ∧ ps.bat = p.batches ∧ ps.durable = true ∧ ps.dying = false)
    (hfile1 : (fileBatches t1).Perm (A.take n1)) (hn1 : n1 ≤ A.length)
    (hfresh : ∀ ms ∈ G.mans, ms.epoch < t1.epoch)
    (ms : ManS) (he : ms.epoch = t1.epoch) (hids : ms.ids = t1.ids) :
    AccAt A n { G with mans := G.mans ++ [ms] } ∧
    AccAt A n (({ G with mans := G.mans ++ [ms] } : Ghost).manReady ms.epoch) ∧
    AccAt A n1 (G.withMan ms) := by
  have hnew : ∀ S, Admissible G ms S → ∃ k, n1 ≤ k ∧ k ≤ A.length ∧ (S.flatMap G.bat).Perm (A.take k) :=
    fun S hS => publish_new_acc hG hnd1 hmemFresh1 hknown1 hfile1 hn1 ms hids hS
  have a0 : Acc A n { G with mans := G.mans ++ [ms] } :=
    acc_addMan hacc.acc ms (fun S hS => by
      obtain ⟨k, h1, h2, h3⟩ := hnew S hS
      exact ⟨k, Nat.le_trans hle h1, h2, h3⟩)
  have a1 : Acc A n (({ G with mans := G.mans ++ [ms] } : Ghost).manReady ms.epoch) := acc_manReady a0 _
  refine ⟨⟨a0, fun hf => hacc.zero hf⟩, ⟨a1, fun hf => hacc.zero hf⟩, ?_, ?_⟩
  · have hms0 : ({ ms with ready := true } : ManS) ∈ (({ G with mans := G.mans ++ [ms] } : Ghost).manReady ms.epoch).mans :=
      mem_updMan.2 ⟨ms, by simp, by simp⟩
    have hnd : ((({ G with mans := G.mans ++ [ms] } : Ghost).manReady ms.epoch).mans.map (·.epoch)).Nodup := by
      unfold Ghost.manReady
      rw [updMan_epochs (ψ := fun x => { x with ready := true }) (fun _ => rfl)]
      show ((G.mans ++ [ms]).map (·.epoch)).Nodup
      rw [List.map_append, List.nodup_append]
      refine ⟨hGm, by simp, ?_⟩
      intro a ha b hb
      simp at hb; subst hb
      obtain ⟨x, hx, rfl⟩ := List.mem_map.1 ha
      have := hfresh x hx
      omega
    have := acc_setFloor (A := A) (c' := n1) hnd { ms with ready := true } hms0
      (by
        intro x hx
        obtain ⟨y, hy, rfl⟩ := mem_updMan.1 hx
        have hy' : y ∈ G.mans ∨ y = ms := by simpa using hy
        have hye : y.epoch ≤ ms.epoch := by
          rcases hy' with hy' | rfl
          · have := hfresh y hy'; omega
          · exact Nat.le_refl _
        by_cases hh : y.epoch = ms.epoch
        · rw [if_pos hh]; exact hye
        · rw [if_neg hh]; exact hye)
      (fun S hS => hnew S ⟨hS.nodup, hS.ready, hS.durable⟩)
    exact this
  · intro hf; cases hf

/-- a removable part nothing at or above the floor lists is marked dying -/
theorem dying_acc {A : List Nat} {c : Nat} {G1 : Ghost} (id : Nat) (hacc : AccAt A c G1)
    (hfree : ∀ ms ∈ G1.mans, G1.aboveFloor ms.epoch → id ∉ ms.ids) : AccAt A c (G1.dyingPart id) :=
  ⟨acc_dying hacc.acc id hfree, fun hf => hacc.zero hf⟩

end Banyan.C04
