/-
C04 — from the ghost accounting `Acc` to the batches `recover` serves.
-/
import Banyan.Lemmas.C04Acc

namespace Banyan.C04
open Banyan.FS

theorem perm_insertSorted (x : Nat) (l : List Nat) : (insertSorted x l).Perm (x :: l) := by
  induction l with
  | nil => simp [insertSorted]
  | cons a l ih =>
    unfold insertSorted
    by_cases h : x ≤ a
    · simp [h]
    · simp only [h, if_false]
      exact (List.Perm.cons a ih).trans (List.Perm.swap x a l)

theorem perm_sortAsc (l : List Nat) : (sortAsc l).Perm l := by
  induction l with
  | nil => simp [sortAsc]
  | cons a l ih =>
    have : sortAsc (a :: l) = insertSorted a (sortAsc l) := rfl
    rw [this]
    exact (perm_insertSorted a _).trans (List.Perm.cons a ih)

theorem partOf_some {t : Tree} {n : Name} {id : Nat} (h : partOf t n = some id) : n = .part id := by
  cases n <;> simp [partOf] at h
  rw [h.2]

theorem nodup_eraseDups_aux {α : Type} [DecidableEq α] :
    ∀ (n : Nat) (l : List α), l.length ≤ n → l.eraseDups.Nodup := by
  intro n
  induction n with
  | zero =>
    intro l hl
    have : l = [] := List.length_eq_zero_iff.1 (by omega)
    subst this; simp
  | succ n ih =>
    intro l hl
    cases l with
    | nil => simp
    | cons a as =>
      rw [List.eraseDups_cons, List.nodup_cons]
      refine ⟨?_, ih _ ?_⟩
      · intro hm
        rw [List.mem_eraseDups, List.mem_filter] at hm
        simp at hm
      · have := List.length_filter_le (fun b => !b == a) as
        simp at hl; omega

theorem nodup_eraseDups' {α : Type} [DecidableEq α] (l : List α) : l.eraseDups.Nodup :=
  nodup_eraseDups_aux l.length l (Nat.le_refl _)

theorem nodup_filterMap_partOf (t : Tree) (l : List Name) (h : l.Nodup) : (l.filterMap (partOf t)).Nodup := by
  induction l with
  | nil => simp
  | cons a l ih =>
    rw [List.nodup_cons] at h
    rw [List.filterMap_cons]
    cases hp : partOf t a with
    | none => exact ih h.2
    | some id =>
      simp only
      rw [List.nodup_cons]
      refine ⟨?_, ih h.2⟩
      intro hm
      obtain ⟨b, hb, hpb⟩ := List.mem_filterMap.1 hm
      have : b = a := by rw [partOf_some hpb, partOf_some hp]
      subst this; exact h.1 hb

theorem nodup_served (t : Tree) (ids : List Nat) : (served t ids).Nodup := by
  unfold served
  have h1 : (sortAsc ((children t []).filterMap (partOf t))).Nodup := by
    rw [(perm_sortAsc _).nodup_iff]
    exact nodup_filterMap_partOf t _ (by unfold children; exact nodup_eraseDups' _)
  exact List.Pairwise.filter _ h1

theorem mem_served (t : Tree) (ids : List Nat) (id : Nat) :
    id ∈ served t ids ↔ id ∈ ids ∧ isDir t [.part id] = true ∧ validMeta t id = true := by
  unfold served
  rw [List.mem_filter, mem_sortAsc, mem_scan_parts]
  simp only [List.contains_eq_mem, decide_eq_true_eq]
  constructor
  · rintro ⟨⟨h1, h2⟩, h3⟩; exact ⟨h3, h1, h2⟩
  · rintro ⟨h3, h1, h2⟩; exact ⟨⟨h1, h2⟩, h3⟩

/-- the parts `recover` serves from a crash tree are an admissible set of the loaded manifest -/
theorem admissible_served {G : Ghost} {s : St} {m : NS Name} {data : Nat → Content}
    (hG : GWF G) (hN : NSOK G m) (hS : GStable G s) (hd : DataOK s data)
    (ms : ManS) (hms : ms ∈ G.mans) (hab : G.aboveFloor ms.epoch) :
    Admissible G ms (served (resolve m data) ms.ids) := by
  refine ⟨nodup_served _ _, ?_, ?_⟩
  · intro id hid
    obtain ⟨hin, _, hv⟩ := (mem_served _ _ _).1 hid
    refine ⟨hin, ?_⟩
    unfold validMeta at hv
    cases hrf : readFile (resolve m data) (pfile id .metadata) with
    | none => rw [hrf] at hv; simp at hv
    | some c =>
      obtain ⟨i, hi, _⟩ := get_resolve_file ((readFile_some_iff _ _ _).1 hrf)
      obtain ⟨ps, hps, hpid, _, hready⟩ := hN.file id .metadata i hi
      exact ⟨ps, hps, hpid, hready rfl, hG.protected_ ms hms hab id hin ps hps hpid⟩
  · intro id hin ⟨ps, hps, hpid, hdur, hnd⟩
    obtain ⟨hmeta, hdir⟩ := hN.durable ps hps hdur hnd
    rw [hpid] at hmeta hdir
    rw [mem_served]
    refine ⟨hin, ?_, ?_⟩
    · rw [isDir_iff, get_resolve, hdir]; rfl
    · -- metadata.json is there with its full content
      have hready : ps.ready = true := by
        obtain ⟨ps', hps', hpid', _, hr⟩ := hN.file id .metadata _ hmeta
        have : ps' = ps := eq_of_nodup_map (·.id) G.parts hG.partIds hps' hps (by rw [hpid', hpid])
        subst this; exact hr rfl
      unfold validMeta
      have : readFile (resolve m data) (pfile id .metadata) = some (encList ps.bat) := by
        rw [readFile_some_iff, get_resolve, hmeta]
        simp [resolveNode, stable_data (hS.part ps hps hready .metadata) hd, fileContent]
      rw [this]; simp

/-- With the accounting invariant, the batches served after a crash are a prefix of the acknowledged batches
    that contains the durable cover. -/
theorem served_batches_of_acc (fixed : Bool) {G : Ghost} {s : St} {m : NS Name} {data : Nat → Content} {A : List Nat}
    {c : Nat} (hG : GWF G) (hN : NSOK G m) (hS : GStable G s) (hd : DataOK s data) (hacc : Acc A c G)
    (hc0 : G.floor = none → c = 0) :
    ∃ r, recoverWith fixed (resolve m data) = .ok r ∧ PartsComplete r ∧
      ∃ k, c ≤ k ∧ k ≤ A.length ∧ (r.parts.flatMap (·.2)).Perm (A.take k) := by
  rcases treeOK_of_nsok hG hN hS hd with ⟨ms, hms, hab, _, hT⟩ | ⟨hfloor, hnone, hT0⟩
  · obtain ⟨r, hr, hparts, _, hc, _⟩ := recoverWith_treeOK fixed hT
    refine ⟨r, hr, hc, ?_⟩
    obtain ⟨k, hck, hkA, hp⟩ := hacc ms hms hab _ (admissible_served hG hN hS hd ms hms hab)
    refine ⟨k, hck, hkA, ?_⟩
    rw [hparts]
    simpa [List.flatMap_map] using hp
  · -- no manifest at all: nothing is served, and nothing was durably published
    obtain ⟨r, hr, hparts, _, _⟩ := recoverWith_treeOK0 fixed hT0
    refine ⟨r, hr, by intro p hp; rw [hparts] at hp; simp at hp, 0, by rw [hc0 hfloor]; exact Nat.le_refl _,
      Nat.zero_le _, ?_⟩
    rw [hparts]; simp

end Banyan.C04
