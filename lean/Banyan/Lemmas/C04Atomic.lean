/-
C04 — `localFileSystem.WriteAtomic` (open tmp, write, fsync, close, rename, fsync parent directory) is atomic
and, after it returned, durable — under `kill -9` and under power loss.
-/
import Banyan.Lemmas.C04Inv5

namespace Banyan.C04
open Banyan.FS

/-- the `.tmp` sibling `WriteAtomic` uses -/
def tmpOf (name : Path) : Path := name.dropLast ++ (name.getLast?.map Name.tmp).toList

theorem writeAtomic_eq (name : Path) (c : Content) :
    writeAtomic name c = [.create (tmpOf name), .write (tmpOf name) c, .fsync (tmpOf name), .close (tmpOf name),
      .rename (tmpOf name) name, .fsyncdir name.dropLast] := rfl

theorem name_tmp_ne (n : Name) : Name.tmp n ≠ n := by
  induction n with
  | tmp m ih => intro h; injection h with h'; exact ih h'
  | _ => intro h; cases h

theorem exists_snoc (name : Path) (hne : name ≠ []) : ∃ l a, name = l ++ [a] := by
  cases h : name.getLast? with
  | none => exact absurd (List.getLast?_eq_none_iff.1 h) hne
  | some a => exact ⟨name.dropLast, a, (dropLast_append_of_getLast? name a h).symm⟩

theorem tmpOf_ne (name : Path) (hne : name ≠ []) : tmpOf name ≠ name := by
  obtain ⟨l, a, rfl⟩ := exists_snoc name hne
  intro h
  simp [tmpOf] at h
  exact name_tmp_ne a h

theorem tmpOf_dropLast (name : Path) (hne : name ≠ []) : (tmpOf name).dropLast = name.dropLast := by
  obtain ⟨l, a, rfl⟩ := exists_snoc name hne
  simp [tmpOf]

/-- The precondition of `WriteAtomic name`: nothing pending touches `name` or its `.tmp` sibling, the `.tmp`
    sibling does not exist, and what `name` currently holds (if anything) is durable. -/
structure Settled (s : St) (name : Path) : Prop where
  nonroot : name ≠ []
  untouchedName : ∀ o ∈ s.pend, ¬ Affects o name
  untouchedTmp : ∀ o ∈ s.pend, ¬ Affects o (tmpOf name)
  agree : Map.get s.dur name = Map.get s.vol name
  tmpAbsent : Map.get s.dur (tmpOf name) = none ∧ Map.get s.vol (tmpOf name) = none
  oldDurable : ∀ i, Map.get s.vol name = some (.file i) → s.ddataOf i = s.vdataOf i ∧ i ≠ s.next
  dataPrefix : ∀ i, s.ddataOf i <+: s.vdataOf i
  fresh : s.vdataOf s.next = [] ∧ s.ddataOf s.next = []

/-- what a reader of `name` sees in a tree -/
def oldRead (s : St) (name : Path) : Option Content := readFile (crashKill s) name

theorem readFile_resolve (m : NS Name) (data : Nat → Content) (q : Path) :
    readFile (resolve m data) q = match Map.get m q with
      | some (.file i) => some (data i)
      | _ => none := by
  unfold readFile
  rw [get_resolve]
  cases h : Map.get m q with
  | none => rfl
  | some n => cases n <;> rfl

/-- name spaces that agree with the old one at `name`, with data that agree on the old inode, read the old
    content -/
theorem read_old {s : St} {name : Path} (hS : Settled s name) {m : NS Name} {data : Nat → Content}
    (hm : Map.get m name = Map.get s.vol name)
    (hd : ∀ i, Map.get s.vol name = some (.file i) → data i = s.vdataOf i) :
    readFile (resolve m data) name = oldRead s name := by
  unfold oldRead crashKill
  rw [readFile_resolve, readFile_resolve, hm]
  cases h : Map.get s.vol name with
  | none => rfl
  | some n =>
    cases n with
    | dir => rfl
    | file i => simp [hd i h]

theorem sublist_append_two {α : Type} {sub l : List α} {a b : α} (h : sub.Sublist (l ++ [a, b])) :
    ∃ sub0, sub0.Sublist l ∧ (sub = sub0 ∨ sub = sub0 ++ [a] ∨ sub = sub0 ++ [b] ∨ sub = sub0 ++ [a, b]) := by
  obtain ⟨l1, l2, rfl, h1, h2⟩ := List.sublist_append_iff.1 h
  refine ⟨l1, h1, ?_⟩
  have : l2 = [] ∨ l2 = [a] ∨ l2 = [b] ∨ l2 = [a, b] := by
    cases h2 with
    | cons _ h3 =>
      cases h3 with
      | cons _ h4 => cases h4; left; rfl
      | cons_cons _ h4 => cases h4; right; right; left; rfl
    | cons_cons _ h3 =>
      cases h3 with
      | cons _ h4 => cases h4; right; left; rfl
      | cons_cons _ h4 => cases h4; right; right; right; rfl
  rcases this with rfl | rfl | rfl | rfl <;> simp

theorem sublist_append_one {α : Type} {sub l : List α} {a : α} (h : sub.Sublist (l ++ [a])) :
    ∃ sub0, sub0.Sublist l ∧ (sub = sub0 ∨ sub = sub0 ++ [a]) := by
  obtain ⟨l1, l2, rfl, h1, h2⟩ := List.sublist_append_iff.1 h
  refine ⟨l1, h1, ?_⟩
  cases h2 with
  | cons _ h3 => cases h3; left; simp
  | cons_cons _ h3 => cases h3; right; rfl

/-- a crash outcome in either model -/
def CrashOutcome (s : St) (t : Tree) : Prop := t = crashKill s ∨ crashPower s t

/-- while nothing that is pending (or was applied) touches `name`, every crash reads the old content -/
theorem old_phase {s s' : St} {name : Path} (hS : Settled s name)
    (hd : s'.dur = s.dur) (E : List (DOp Name)) (hp : s'.pend = s.pend ++ E) (hE : ∀ o ∈ E, ¬ Affects o name)
    (hv : Map.get s'.vol name = Map.get s.vol name)
    (hdata : ∀ i, Map.get s.vol name = some (.file i) → s'.ddataOf i = s.vdataOf i ∧ s'.vdataOf i = s.vdataOf i)
    (t : Tree) (hc : CrashOutcome s' t) : readFile t name = oldRead s name := by
  rcases hc with rfl | ⟨sub, data, hsub, hdok, rfl⟩
  · exact read_old hS hv (fun i hi => (hdata i hi).2)
  · apply read_old hS
    · rw [get_applyOps_of_not_affects, hd, hS.agree]
      intro o ho
      have : o ∈ s.pend ++ E := by rw [← hp]; exact hsub.subset ho
      rcases List.mem_append.1 this with h1 | h1
      · exact hS.untouchedName o h1
      · exact hE o h1
    · intro i hi
      obtain ⟨h1, h2⟩ := hdok i
      rw [(hdata i hi).1] at h1
      rw [(hdata i hi).2] at h2
      exact prefix_antisymm h1 h2

theorem affects_add_tmp (name : Path) (hne : name ≠ []) (n : Node) : ¬ Affects (DOp.add (tmpOf name) n) name := by
  simp only [Affects]; exact tmpOf_ne name hne

/-- **`writeAtomic_atomic`**: at every prefix of the six system calls of `WriteAtomic name c`, under `kill -9`
    and under power loss, `name` reads as its old content or as `c` — never anything else. -/
theorem writeAtomic_cases (s : St) (name : Path) (c : Content) (hS : Settled s name) (k : Nat) (t : Tree)
    (hc : CrashOutcome (run s ((writeAtomic name c).take k)) t) :
    (readFile t name = oldRead s name ∨ readFile t name = some c) ∧ (6 ≤ k → readFile t name = some c) := by
  have hne := hS.nonroot
  have htn := tmpOf_ne name hne
  -- the states
  obtain ⟨s1, hs1⟩ : ∃ s1, s1 = exec s (.create (tmpOf name)) := ⟨_, rfl⟩
  have hvol1 : s1.vol = (DOp.add (tmpOf name) (.file s.next)).apply s.vol := by rw [hs1]; rfl
  have hget1 : Map.get s1.vol (tmpOf name) = some (.file s.next) := by rw [hvol1, get_apply_add]; simp
  have hv1 : ∀ j, s1.vdataOf j = s.vdataOf j := by
    intro j
    rw [hs1]
    show (Map.get (Map.set s.vdata s.next []) j).getD [] = _
    rw [Map.get_set]
    by_cases hj : j = s.next
    · subst hj; simp [hS.fresh.1]
    · simp [hj, St.vdataOf]
  have hd1 : ∀ j, s1.ddataOf j = s.ddataOf j := by
    intro j
    rw [hs1]
    show (Map.get (Map.set s.ddata s.next []) j).getD [] = _
    rw [Map.get_set]
    by_cases hj : j = s.next
    · subst hj; simp [hS.fresh.2]
    · simp [hj, St.ddataOf]
  obtain ⟨s2, hs2⟩ : ∃ s2, s2 = exec s1 (.write (tmpOf name) c) := ⟨_, rfl⟩
  have he2 : s2 = { s1 with vdata := Map.set s1.vdata s.next (s1.vdataOf s.next ++ c) } := by
    rw [hs2]; exact exec_write_eq s1 _ c s.next hget1
  have hv2 : ∀ j, s2.vdataOf j = if j = s.next then c else s.vdataOf j := by
    intro j
    rw [he2, vdataOf_set, hv1, hS.fresh.1, hv1]; simp
  have hd2 : ∀ j, s2.ddataOf j = s.ddataOf j := by intro j; rw [he2]; exact hd1 j
  obtain ⟨s3, hs3⟩ : ∃ s3, s3 = exec s2 (.fsync (tmpOf name)) := ⟨_, rfl⟩
  have hget2 : Map.get s2.vol (tmpOf name) = some (.file s.next) := by rw [he2]; exact hget1
  have he3 : s3 = { s2 with ddata := Map.set s2.ddata s.next (s2.vdataOf s.next) } := by
    rw [hs3]; exact exec_fsync_eq s2 _ s.next hget2
  have hv3 : ∀ j, s3.vdataOf j = if j = s.next then c else s.vdataOf j := by intro j; rw [he3]; exact hv2 j
  have hd3 : ∀ j, s3.ddataOf j = if j = s.next then c else s.ddataOf j := by
    intro j; rw [he3, ddataOf_set, hv2, hd2]; simp
  obtain ⟨s5, hs5⟩ : ∃ s5, s5 = exec s3 (.rename (tmpOf name) name) := ⟨_, rfl⟩
  obtain ⟨s6, hs6⟩ : ∃ s6, s6 = exec s5 (.fsyncdir name.dropLast) := ⟨_, rfl⟩
  -- components
  have hdur3 : s3.dur = s.dur := by rw [he3, he2, hs1]; rfl
  have hpend3 : s3.pend = s.pend ++ [.add (tmpOf name) (.file s.next)] := by rw [he3, he2, hs1]; rfl
  have hvol3 : s3.vol = (DOp.add (tmpOf name) (.file s.next)).apply s.vol := by rw [he3, he2]; exact hvol1
  have hnameVol1 : Map.get ((DOp.add (tmpOf name) (.file s.next)).apply s.vol) name = Map.get s.vol name :=
    get_apply_of_not_affects _ _ _ (affects_add_tmp name hne _)
  have holdData : ∀ (s' : St), (∀ j, s'.vdataOf j = if j = s.next then c else s.vdataOf j) →
      (∀ j, j ≠ s.next → s'.ddataOf j = s.ddataOf j) →
      ∀ i, Map.get s.vol name = some (.file i) → s'.ddataOf i = s.vdataOf i ∧ s'.vdataOf i = s.vdataOf i := by
    intro s' hv hd i hi
    obtain ⟨hdur, hne'⟩ := hS.oldDurable i hi
    exact ⟨by rw [hd i hne', hdur], by rw [hv i]; simp [hne']⟩
  -- which prefix?
  rw [writeAtomic_eq] at hc
  have hk : k = 0 ∨ k = 1 ∨ k = 2 ∨ k = 3 ∨ k = 4 ∨ k = 5 ∨ 6 ≤ k := by omega
  rcases hk with rfl | rfl | rfl | rfl | rfl | rfl | hk6
  · -- nothing done yet
    refine ⟨?_, fun h => absurd h (by omega)⟩
    left
    exact old_phase hS rfl [] (by simp) (by simp) rfl
      (fun i hi => ⟨(hS.oldDurable i hi).1, rfl⟩) t hc
  · refine ⟨?_, fun h => absurd h (by omega)⟩
    left
    simp only [List.take, run_cons, run_nil, ← hs1] at hc
    exact old_phase hS (by rw [hs1]; rfl) [.add (tmpOf name) (.file s.next)] (by rw [hs1]; rfl)
      (by intro o ho; simp at ho; subst ho; exact affects_add_tmp name hne _)
      (by rw [hvol1]; exact hnameVol1)
      (fun i hi => ⟨by rw [hd1]; exact (hS.oldDurable i hi).1, hv1 i⟩) t hc
  · refine ⟨?_, fun h => absurd h (by omega)⟩
    left
    simp only [List.take, run_cons, run_nil, ← hs1, ← hs2] at hc
    exact old_phase hS (by rw [he2, hs1]; rfl) [.add (tmpOf name) (.file s.next)] (by rw [he2, hs1]; rfl)
      (by intro o ho; simp at ho; subst ho; exact affects_add_tmp name hne _)
      (by rw [he2]; show Map.get s1.vol name = _; rw [hvol1]; exact hnameVol1)
      (holdData s2 hv2 (fun j _ => hd2 j)) t hc
  · refine ⟨?_, fun h => absurd h (by omega)⟩
    left
    simp only [List.take, run_cons, run_nil, ← hs1, ← hs2, ← hs3] at hc
    exact old_phase hS hdur3 [.add (tmpOf name) (.file s.next)] hpend3
      (by intro o ho; simp at ho; subst ho; exact affects_add_tmp name hne _)
      (by rw [hvol3]; exact hnameVol1)
      (holdData s3 hv3 (fun j hj => by rw [hd3]; simp [hj])) t hc
  · refine ⟨?_, fun h => absurd h (by omega)⟩
    left
    simp only [List.take, run_cons, run_nil, exec_close, ← hs1, ← hs2, ← hs3] at hc
    exact old_phase hS hdur3 [.add (tmpOf name) (.file s.next)] hpend3
      (by intro o ho; simp at ho; subst ho; exact affects_add_tmp name hne _)
      (by rw [hvol3]; exact hnameVol1)
      (holdData s3 hv3 (fun j hj => by rw [hd3]; simp [hj])) t hc
  · -- after the rename: old or new, never anything else
    refine ⟨?_, fun h => absurd h (by omega)⟩
    simp only [List.take, run_cons, run_nil, exec_close, ← hs1, ← hs2, ← hs3, ← hs5] at hc
    have hvol5 : s5.vol = (DOp.ren (tmpOf name) name).apply ((DOp.add (tmpOf name) (.file s.next)).apply s.vol) := by
      rw [hs5, exec_rename_vol, hvol3]
    have hpend5 : s5.pend = s.pend ++ [.add (tmpOf name) (.file s.next), .ren (tmpOf name) name] := by
      rw [hs5, exec_rename_pend, hpend3]; simp
    have hv5 : ∀ j, s5.vdataOf j = s3.vdataOf j := by intro j; rw [hs5]; rfl
    have hd5 : ∀ j, s5.ddataOf j = s3.ddataOf j := by intro j; rw [hs5]; rfl
    rcases hc with rfl | ⟨sub, data, hsub, hdok, rfl⟩
    · right
      unfold crashKill
      rw [readFile_resolve, hvol5, get_apply_ren, get_apply_add]
      simp [hv5, hv3]
    · rw [hpend5] at hsub
      obtain ⟨sub0, hsub0, hcase⟩ := sublist_append_two hsub
      have hdur5 : s5.dur = s.dur := by rw [hs5, exec_rename_dur, hdur3]
      have hbase : Map.get (applyOps sub0 s.dur) name = Map.get s.vol name := by
        rw [get_applyOps_of_not_affects _ _ _ (fun o ho => hS.untouchedName o (hsub0.subset ho)), hS.agree]
      have hbaseTmp : Map.get (applyOps sub0 s.dur) (tmpOf name) = none := by
        rw [get_applyOps_of_not_affects _ _ _ (fun o ho => hS.untouchedTmp o (hsub0.subset ho))]
        exact hS.tmpAbsent.1
      have holdd : ∀ i, Map.get s.vol name = some (.file i) → data i = s.vdataOf i := by
        intro i hi
        obtain ⟨h1, h2⟩ := hdok i
        obtain ⟨hdur, hne'⟩ := hS.oldDurable i hi
        rw [hd5, hd3] at h1; rw [hv5, hv3] at h2
        simp only [hne', if_false] at h1 h2
        rw [hdur] at h1
        exact prefix_antisymm h1 h2
      have hnew : data s.next = c := by
        obtain ⟨h1, h2⟩ := hdok s.next
        rw [hd5, hd3] at h1; rw [hv5, hv3] at h2
        simp only [if_true] at h1 h2
        exact prefix_antisymm h1 h2
      rw [hdur5]
      rcases hcase with rfl | rfl | rfl | rfl
      · left; exact read_old hS hbase holdd
      · left
        apply read_old hS _ holdd
        rw [applyOps_append, applyOps_cons, applyOps_nil,
          get_apply_of_not_affects _ _ _ (affects_add_tmp name hne _)]
        exact hbase
      · left
        apply read_old hS _ holdd
        rw [applyOps_append, applyOps_cons, applyOps_nil, get_apply_ren, hbaseTmp]
        exact hbase
      · right
        rw [readFile_resolve, applyOps_append, applyOps_cons, applyOps_cons, applyOps_nil, get_apply_ren,
          get_apply_add]
        simp [hnew]
  · -- after the directory fsync: new, durably
    suffices hnewAll : readFile t name = some c from ⟨Or.inr hnewAll, fun _ => hnewAll⟩
    have htake : ([Step.create (tmpOf name), .write (tmpOf name) c, .fsync (tmpOf name), .close (tmpOf name),
        .rename (tmpOf name) name, .fsyncdir name.dropLast]).take k =
        [Step.create (tmpOf name), .write (tmpOf name) c, .fsync (tmpOf name), .close (tmpOf name),
        .rename (tmpOf name) name, .fsyncdir name.dropLast] := List.take_of_length_le (by simpa using hk6)
    rw [htake] at hc
    simp only [run_cons, run_nil, exec_close, ← hs1, ← hs2, ← hs3, ← hs5, ← hs6] at hc
    have hpend5 : s5.pend = s.pend ++ [.add (tmpOf name) (.file s.next), .ren (tmpOf name) name] := by
      rw [hs5, exec_rename_pend, hpend3]; simp
    have hdir1 : (DOp.add (tmpOf name) (.file s.next) : DOp Name).dir = name.dropLast := by
      show parent (tmpOf name) = _; unfold parent; exact tmpOf_dropLast name hne
    have hdir2 : (DOp.ren (tmpOf name) name : DOp Name).dir = name.dropLast := by
      show parent (tmpOf name) = _; unfold parent; exact tmpOf_dropLast name hne
    have hdur6 : s6.dur = applyOps [.add (tmpOf name) (.file s.next), .ren (tmpOf name) name]
        (applyOps (s.pend.filter (fun o => decide (o.dir = name.dropLast))) s.dur) := by
      rw [hs6, exec_fsyncdir_dur, hpend5, List.filter_append, applyOps_append]
      have hdur5 : s5.dur = s.dur := by rw [hs5, exec_rename_dur, hdur3]
      rw [hdur5]
      simp [hdir1, hdir2]
    have hname6 : Map.get s6.dur name = some (.file s.next) := by
      rw [hdur6, applyOps_cons, applyOps_cons, applyOps_nil, get_apply_ren, get_apply_add]
      simp
    have hpend6 : ∀ o ∈ s6.pend, ¬ Affects o name := by
      intro o ho
      rw [hs6, exec_fsyncdir_pend, hpend5, List.filter_append] at ho
      rcases List.mem_append.1 ho with h1 | h1
      · exact hS.untouchedName o (List.mem_filter.1 h1).1
      · exfalso
        obtain ⟨hmem, hnd⟩ := List.mem_filter.1 h1
        simp only [List.mem_cons, List.not_mem_nil, or_false] at hmem
        rcases hmem with rfl | rfl
        · simp [hdir1] at hnd
        · simp [hdir2] at hnd
    have hv6 : ∀ j, s6.vdataOf j = s3.vdataOf j := by intro j; rw [hs6, hs5]; rfl
    have hd6 : ∀ j, s6.ddataOf j = s3.ddataOf j := by intro j; rw [hs6, hs5]; rfl
    rcases hc with rfl | ⟨sub, data, hsub, hdok, rfl⟩
    · unfold crashKill
      have hvol6 : s6.vol = (DOp.ren (tmpOf name) name).apply ((DOp.add (tmpOf name) (.file s.next)).apply s.vol) := by
        rw [hs6, exec_fsyncdir_vol, hs5, exec_rename_vol, hvol3]
      rw [readFile_resolve, hvol6, get_apply_ren, get_apply_add]
      simp [hv6, hv3]
    · have hnew : data s.next = c := by
        obtain ⟨h1, h2⟩ := hdok s.next
        rw [hd6, hd3] at h1; rw [hv6, hv3] at h2
        simp only [if_true] at h1 h2
        exact prefix_antisymm h1 h2
      rw [readFile_resolve, get_applyOps_of_not_affects _ _ _ (fun o ho => hpend6 o (hsub.subset ho)), hname6]
      simp [hnew]

/-- **`writeAtomic_atomic`**: at every prefix of the six system calls of `WriteAtomic name c`, under `kill -9`
    and under power loss, `name` reads as its old content or as `c` — never anything else. -/
theorem writeAtomic_atomic (s : St) (name : Path) (c : Content) (hS : Settled s name) (k : Nat) (t : Tree)
    (hc : CrashOutcome (run s ((writeAtomic name c).take k)) t) :
    readFile t name = oldRead s name ∨ readFile t name = some c :=
  (writeAtomic_cases s name c hS k t hc).1

/-- **durability**: once `WriteAtomic` has returned, every crash — power loss included — reads `c`. -/
theorem writeAtomic_durable (s : St) (name : Path) (c : Content) (hS : Settled s name) (t : Tree)
    (hc : CrashOutcome (run s (writeAtomic name c)) t) : readFile t name = some c := by
  have h6 : run s (writeAtomic name c) = run s ((writeAtomic name c).take 6) := by
    rw [List.take_of_length_le (by simp [writeAtomic_eq])]
  rw [h6] at hc
  exact (writeAtomic_cases s name c hS 6 t hc).2 (Nat.le_refl _)

/-- non-vacuity: the empty file system is settled for any non-root name -/
example : Settled ({} : St) [Name.snp 5] := by
  refine ⟨by simp, ?_, ?_, rfl, ⟨rfl, rfl⟩, ?_, ?_, ⟨rfl, rfl⟩⟩
  · intro o ho; simp at ho
  · intro o ho; simp at ho
  · intro i hi; simp [Map.get] at hi
  · intro i; simp [St.ddataOf, St.vdataOf]

end Banyan.C04
