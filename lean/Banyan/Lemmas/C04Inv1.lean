/-
C04 — the protocol invariant, part 1: ghost state, the predicate `NSOK` on name spaces (closed under every
pending directory operation, hence true of every name space a power loss can leave), and the bridge from
`NSOK` to the crash-tree interface `TreeOK` / `TreeOK0` consumed by `recover_treeOK`.
-/
import Banyan.Lemmas.C04Recover

namespace Banyan.C04
open Banyan.FS

/-! ### ghost state -/

/-- what the proof knows about a part directory.  `ino f` is the inode created for file `f` (the `.tmp`
    sibling of `tag.type` / `metadata.json` shares the inode of its final name: `rename` moves it). -/
structure PartS where
  id : Nat
  bat : List Nat
  ino : PFile → Nat
  /-- the seven non-`metadata.json` files are in every crash name space, and all eight inodes hold their full
      content durably (the rename of `metadata.json.tmp` may be issued) -/
  ready : Bool := false
  /-- `metadata.json` (and the part directory) is in every crash name space -/
  durable : Bool := false
  /-- the part is being removed; nothing is claimed about its presence any more -/
  dying : Bool := false

/-- what the proof knows about a manifest -/
structure ManS where
  epoch : Nat
  ids : List Nat
  ino : Nat
  /-- the inode holds the full content durably (the rename may be issued) -/
  ready : Bool := false

structure Ghost where
  parts : List PartS := []
  mans : List ManS := []
  /-- the manifest that is in every crash name space (the last durably published one) -/
  floor : Option Nat := none

def Ghost.bat (G : Ghost) (id : Nat) : List Nat :=
  match G.parts.find? (fun ps => ps.id == id) with
  | some ps => ps.bat
  | none => []

/-- `e` is at least the floor -/
def Ghost.aboveFloor (G : Ghost) (e : Nat) : Prop := ∀ e0, G.floor = some e0 → e0 ≤ e

/-- inode `i` holds `c`, durably -/
def Stable (s : St) (i : Nat) (c : Content) : Prop := s.ddataOf i = c ∧ s.vdataOf i = c

/-- the names the protocol ever creates -/
inductive Shape : Path → Node → Prop where
  | part (id : Nat) : Shape [.part id] .dir
  | snp (e i : Nat) : Shape [.snp e] (.file i)
  | snpTmp (e i : Nat) : Shape [.tmp (.snp e)] (.file i)
  | pf (id : Nat) (f : PFile) (i : Nat) : Shape [.part id, .pf f] (.file i)
  | pfTmp (id : Nat) (f : PFile) (i : Nat) : Shape [.part id, .tmp (.pf f)] (.file i)

/-- The predicate on name spaces.  Every clause is preserved by each kind of directory operation the
    protocol leaves pending (see `C04Inv2`), so it holds of the durable name space with ANY subset of the
    pending operations applied.  It does not mention the state: names point to the inodes the ghost
    recorded; what those inodes hold is `GStable`. -/
structure NSOK (G : Ghost) (m : NS Name) : Prop where
  shape : ∀ q v, Map.get m q = some v → Shape q v
  man : ∀ e i, Map.get m [.snp e] = some (.file i) → ∃ ms ∈ G.mans, ms.epoch = e ∧ ms.ino = i ∧ ms.ready = true
  manTmp : ∀ e i, Map.get m [.tmp (.snp e)] = some (.file i) → ∃ ms ∈ G.mans, ms.epoch = e ∧ ms.ino = i
  floor : ∀ e0, G.floor = some e0 → ∃ i, Map.get m [.snp e0] = some (.file i)
  file : ∀ id f i, Map.get m (pfile id f) = some (.file i) →
    ∃ ps ∈ G.parts, ps.id = id ∧ ps.ino f = i ∧ (f = .metadata → ps.ready = true)
  fileTmp : ∀ id f i, Map.get m [.part id, .tmp (.pf f)] = some (.file i) → ∃ ps ∈ G.parts, ps.id = id ∧ ps.ino f = i
  sealed : ∀ ps ∈ G.parts, ps.ready = true → ps.dying = false → ∀ f, f ≠ .metadata →
    Map.get m (pfile ps.id f) = some (.file (ps.ino f))
  durable : ∀ ps ∈ G.parts, ps.durable = true → ps.dying = false →
    Map.get m (pfile ps.id .metadata) = some (.file (ps.ino .metadata)) ∧ Map.get m [.part ps.id] = some .dir

/-- what the recorded inodes hold -/
structure GStable (G : Ghost) (s : St) : Prop where
  part : ∀ ps ∈ G.parts, ps.ready = true → ∀ f, Stable s (ps.ino f) (fileContent f ps.bat)
  man : ∀ ms ∈ G.mans, ms.ready = true → Stable s ms.ino (encList ms.ids)

/-- well-formedness of the ghost state -/
structure GWF (G : Ghost) : Prop where
  partIds : (G.parts.map (·.id)).Nodup
  manEpochs : (G.mans.map (·.epoch)).Nodup
  protected_ : ∀ ms ∈ G.mans, G.aboveFloor ms.epoch → ∀ id ∈ ms.ids, ∀ ps ∈ G.parts, ps.id = id → ps.dying = false
  floorKnown : ∀ e0, G.floor = some e0 → ∃ ms ∈ G.mans, ms.epoch = e0

/-! ### data after a crash -/

theorem prefix_antisymm {c d : Content} (h1 : c <+: d) (h2 : d <+: c) : d = c := by
  have hl1 := h1.length_le
  have hl2 := h2.length_le
  exact (List.IsPrefix.eq_of_length_le h2 (by omega))

theorem stable_data {s : St} {i : Nat} {c : Content} {data : Nat → Content}
    (hs : Stable s i c) (hd : DataOK s data) : data i = c := by
  obtain ⟨h1, h2⟩ := hd i
  rw [hs.1] at h1; rw [hs.2] at h2
  exact prefix_antisymm h1 h2

theorem eq_of_nodup_map {α β : Type} (f : α → β) (l : List α) (hn : (l.map f).Nodup) {a b : α}
    (ha : a ∈ l) (hb : b ∈ l) (h : f a = f b) : a = b := by
  induction l with
  | nil => simp at ha
  | cons x l ih =>
    simp only [List.map_cons, List.nodup_cons] at hn
    rcases List.mem_cons.1 ha with rfl | ha' <;> rcases List.mem_cons.1 hb with rfl | hb'
    · rfl
    · exfalso; apply hn.1; rw [h]; exact List.mem_map.2 ⟨b, hb', rfl⟩
    · exfalso; apply hn.1; rw [← h]; exact List.mem_map.2 ⟨a, ha', rfl⟩
    · exact ih hn.2 ha' hb'

theorem find_of_nodup (l : List PartS) (hn : (l.map (·.id)).Nodup) (ps : PartS) (hps : ps ∈ l) :
    l.find? (fun p => p.id == ps.id) = some ps := by
  induction l with
  | nil => simp at hps
  | cons a l ih =>
    simp only [List.map_cons, List.nodup_cons] at hn
    rcases List.mem_cons.1 hps with rfl | hmem
    · simp
    · have hne : a.id ≠ ps.id := by
        intro heq; apply hn.1; rw [heq]; exact List.mem_map.2 ⟨ps, hmem, rfl⟩
      simp [List.find?_cons, hne, ih hn.2 hmem]

theorem Ghost.bat_of_mem (G : Ghost) (hn : (G.parts.map (·.id)).Nodup) (ps : PartS) (hps : ps ∈ G.parts) :
    G.bat ps.id = ps.bat := by
  unfold Ghost.bat
  rw [find_of_nodup G.parts hn ps hps]

/-! ### from `NSOK` to the crash-tree interface -/

/-- the manifests present in a name space, as the ghost knows them -/
def presentMans (G : Ghost) (m : NS Name) : List ManS :=
  G.mans.filter (fun ms => (Map.get m [.snp ms.epoch]).isSome)

theorem exists_max_epoch (l : List ManS) (h : l ≠ []) : ∃ ms ∈ l, ∀ ms' ∈ l, ms'.epoch ≤ ms.epoch := by
  induction l with
  | nil => exact absurd rfl h
  | cons a l ih =>
    by_cases hl : l = []
    · subst hl; exact ⟨a, by simp, by intro ms' h'; simp at h'; rw [h']; exact Nat.le_refl _⟩
    · obtain ⟨b, hb, hmax⟩ := ih hl
      by_cases hab : b.epoch ≤ a.epoch
      · refine ⟨a, by simp, ?_⟩
        intro ms' h'
        rcases List.mem_cons.1 h' with rfl | h'
        · exact Nat.le_refl _
        · exact Nat.le_trans (hmax ms' h') hab
      · refine ⟨b, List.mem_cons_of_mem _ hb, ?_⟩
        intro ms' h'
        rcases List.mem_cons.1 h' with rfl | h'
        · omega
        · exact hmax ms' h'

theorem get_resolve_file {m : NS Name} {data : Nat → Content} {q : Path} {c : Content}
    (h : Map.get (resolve m data) q = some (.file c)) : ∃ i, Map.get m q = some (.file i) ∧ data i = c := by
  rw [get_resolve] at h
  cases hq : Map.get m q with
  | none => rw [hq] at h; simp at h
  | some v =>
    rw [hq] at h
    cases v with
    | dir => simp [resolveNode] at h
    | file i => exact ⟨i, rfl, by simpa [resolveNode] using h⟩

theorem get_resolve_some {m : NS Name} {data : Nat → Content} {q : Path} {v : TNode}
    (h : Map.get (resolve m data) q = some v) : ∃ n, Map.get m q = some n ∧ resolveNode data n = v := by
  rw [get_resolve] at h
  cases hq : Map.get m q with
  | none => rw [hq] at h; simp at h
  | some n => rw [hq] at h; exact ⟨n, rfl, by simpa using h⟩

/-- what `NSOK` gives for the resolved tree, whatever manifest turns out to be the newest one present -/
theorem treeOK_of_nsok {G : Ghost} {s : St} {m : NS Name} {data : Nat → Content}
    (hG : GWF G) (hN : NSOK G m) (hS : GStable G s) (hd : DataOK s data) :
    (∃ ms ∈ G.mans, G.aboveFloor ms.epoch ∧ (Map.get m [.snp ms.epoch]).isSome = true ∧
        TreeOK (resolve m data) ms.epoch ms.ids G.bat) ∨
    (G.floor = none ∧ (∀ e, Map.get m [.snp e] = none) ∧ TreeOK0 (resolve m data)) := by
  have hdepth : ∀ q, exists_ (resolve m data) q = true → q.length ≤ 2 := by
    intro q hq
    obtain ⟨v, hv⟩ := (exists_iff _ _).1 hq
    obtain ⟨n, hn, _⟩ := get_resolve_some hv
    cases hN.shape q n hn <;> simp
  have hpartShape : ∀ id n, exists_ (resolve m data) [.part id, n] = true →
      isFile (resolve m data) [.part id, n] = true ∧ ((∃ f, n = .pf f) ∨ (∃ f, n = .tmp (.pf f))) := by
    intro id n hq
    obtain ⟨v, hv⟩ := (exists_iff _ _).1 hq
    obtain ⟨nd, hn, hr⟩ := get_resolve_some hv
    have hsh := hN.shape _ nd hn
    cases hsh with
    | pf _ f i => exact ⟨(isFile_iff _ _).2 ⟨_, by rw [hv, ← hr]; rfl⟩, Or.inl ⟨f, rfl⟩⟩
    | pfTmp _ f i => exact ⟨(isFile_iff _ _).2 ⟨_, by rw [hv, ← hr]; rfl⟩, Or.inr ⟨f, rfl⟩⟩
  by_cases hpm : presentMans G m = []
  · -- no manifest in this name space
    right
    have hnone : ∀ e, Map.get m [.snp e] = none := by
      intro e
      cases hg : Map.get m [.snp e] with
      | none => rfl
      | some v =>
        exfalso
        have hsh := hN.shape _ v hg
        cases hsh with
        | snp _ i =>
          obtain ⟨ms, hms, he, _⟩ := hN.man e i hg
          have : ms ∈ presentMans G m := by
            unfold presentMans; rw [List.mem_filter]; exact ⟨hms, by rw [he, hg]; rfl⟩
          rw [hpm] at this; simp at this
    refine ⟨?_, hnone, hdepth, ?_⟩
    · cases hf : G.floor with
      | none => rfl
      | some e0 =>
        obtain ⟨i, hi⟩ := hN.floor e0 hf
        rw [hnone e0] at hi; cases hi
    · intro n hq
      obtain ⟨v, hv⟩ := (exists_iff _ _).1 hq
      obtain ⟨nd, hn, hr⟩ := get_resolve_some hv
      have hsh := hN.shape _ nd hn
      cases hsh with
      | part id => left; exact ⟨id, rfl, (isDir_iff _ _).2 (by rw [hv, ← hr]; rfl)⟩
      | snp e i => rw [hnone e] at hn; cases hn
      | snpTmp e i => right; exact ⟨e, rfl, (isFile_iff _ _).2 ⟨_, by rw [hv, ← hr]; rfl⟩⟩
  · -- the newest manifest present
    left
    obtain ⟨ms, hmsP, hmax⟩ := exists_max_epoch _ hpm
    have hms : ms ∈ G.mans := (List.mem_filter.1 hmsP).1
    have hpres : (Map.get m [.snp ms.epoch]).isSome = true := (List.mem_filter.1 hmsP).2
    have habove : G.aboveFloor ms.epoch := by
      intro e0 hf
      obtain ⟨i, hi⟩ := hN.floor e0 hf
      obtain ⟨ms0, hms0, he0, _⟩ := hN.man e0 i hi
      have : ms0 ∈ presentMans G m := by
        unfold presentMans; rw [List.mem_filter]; exact ⟨hms0, by rw [he0, hi]; rfl⟩
      have := hmax ms0 this
      omega
    refine ⟨ms, hms, habove, hpres, hdepth, ?_, hpartShape, ?_, ?_, ?_⟩
    · -- root shape
      intro n hq
      obtain ⟨v, hv⟩ := (exists_iff _ _).1 hq
      obtain ⟨nd, hn, hr⟩ := get_resolve_some hv
      have hsh := hN.shape _ nd hn
      cases hsh with
      | part id => left; exact ⟨id, rfl, (isDir_iff _ _).2 (by rw [hv, ← hr]; rfl)⟩
      | snp e i => right; left; exact ⟨e, rfl, (isFile_iff _ _).2 ⟨_, by rw [hv, ← hr]; rfl⟩⟩
      | snpTmp e i => right; right; exact ⟨e, rfl, (isFile_iff _ _).2 ⟨_, by rw [hv, ← hr]; rfl⟩⟩
    · -- the newest manifest is intact
      cases hg : Map.get m [.snp ms.epoch] with
      | none => rw [hg] at hpres; simp at hpres
      | some v =>
        have hsh := hN.shape _ v hg
        cases hsh with
        | snp _ i =>
          obtain ⟨ms', hms', he', hino, hr⟩ := hN.man _ i hg
          have : ms' = ms := eq_of_nodup_map (·.epoch) G.mans hG.manEpochs hms' hms he'
          subst this
          rw [readFile_some_iff, get_resolve, hg]
          simp [resolveNode, ← hino, stable_data (hS.man ms' hms' hr) hd]
    · -- it is the newest
      intro e hq
      obtain ⟨v, hv⟩ := (exists_iff _ _).1 hq
      obtain ⟨nd, hn, _⟩ := get_resolve_some hv
      have hsh := hN.shape _ nd hn
      cases hsh with
      | snp _ i =>
        obtain ⟨ms', hms', he', _⟩ := hN.man e i hn
        have : ms' ∈ presentMans G m := by
          unfold presentMans; rw [List.mem_filter]; exact ⟨hms', by rw [he', hn]; rfl⟩
        have := hmax ms' this
        omega
    · -- listed parts with a valid metadata.json are complete
      intro id hid _ hvalid f
      unfold validMeta at hvalid
      cases hrf : readFile (resolve m data) (pfile id .metadata) with
      | none => rw [hrf] at hvalid; simp at hvalid
      | some c =>
        obtain ⟨i, hi, hdi⟩ := get_resolve_file ((readFile_some_iff _ _ _).1 hrf)
        obtain ⟨ps, hps, hpid, hino, hready⟩ := hN.file id .metadata i hi
        have hready := hready rfl
        have hnd : ps.dying = false := hG.protected_ ms hms habove id hid ps hps hpid
        have hbat : G.bat id = ps.bat := by rw [← hpid]; exact G.bat_of_mem hG.partIds ps hps
        rw [hbat]
        by_cases hf : f = .metadata
        · subst hf
          rw [readFile_some_iff, get_resolve, hi]
          simp [resolveNode, ← hino, stable_data (hS.part ps hps hready .metadata) hd]
        · have hj := hN.sealed ps hps hready hnd f hf
          rw [hpid] at hj
          rw [readFile_some_iff, get_resolve, hj]
          simp [resolveNode, stable_data (hS.part ps hps hready f) hd]

end Banyan.C04
