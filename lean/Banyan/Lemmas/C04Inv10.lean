/-
C04 — the protocol invariant, part 10: the link between the ghost state and the table's control state, its
preservation by every history operation, and reachability for whole histories.
-/
import Banyan.Lemmas.C04Inv9

namespace Banyan.C04
open Banyan.FS

/-- how the ghost relates to the table's control state between operations -/
structure Link (G : Ghost) (tb : Tbl) : Prop where
  partBound : ∀ ps ∈ G.parts, ps.id ≤ tb.curPartID
  idsBound : ∀ p ∈ tb.parts, p.id ≤ tb.curPartID
  idsNodup : (tb.parts.map (·.id)).Nodup
  memFresh : ∀ p ∈ tb.parts, p.mem = true → p.id ∉ G.parts.map (·.id)
  fileKnown : ∀ p ∈ tb.parts, p.mem = false → ∃ ps ∈ G.parts, ps.id = p.id ∧ ps.dying = false
  zombKnown : ∀ id ∈ tb.zombies, (∃ ps ∈ G.parts, ps.id = id ∧ ps.dying = false) ∧ id ∉ tb.parts.map (·.id)
  dyingGone : ∀ ps ∈ G.parts, ps.dying = true → ps.id ∉ tb.parts.map (·.id) ∧ ps.id ∉ tb.zombies
  epochBound : ∀ ms ∈ G.mans, ms.epoch ≤ tb.epoch
  floorLink : (tb.liveEpoch = 0 ∧ G.floor = none) ∨ (0 < tb.liveEpoch ∧ G.floor = some tb.liveEpoch)
  liveBound : tb.liveEpoch ≤ tb.epoch
  deletableNil : tb.deletable = []
  aboveIds : ∀ ms ∈ G.mans, G.aboveFloor ms.epoch → ∀ id ∈ ms.ids, id ∈ tb.parts.map (·.id)

theorem link_init (e : Nat) : Link {} ({ epoch := e } : Tbl) := by
  refine ⟨?_, ?_, by simp, ?_, ?_, ?_, ?_, ?_, Or.inl ⟨rfl, rfl⟩, Nat.zero_le _, rfl, ?_⟩ <;>
    intros <;> simp_all

/-- what holds after an operation, starting from linked `G`, `tb`, `s` -/
def OpOK (tb : Tbl) (o : Op) (s : St) : Prop :=
  Along (fun s => ∃ G', Inv G' s) s (opSteps tb o).1 ∧
  ∃ G', Inv G' (run s (opSteps tb o).1) ∧ Link G' (opSteps tb o).2

theorem aboveFloor_of_floorLink {G : Ghost} {tb : Tbl} (hL : Link G tb) (e : Nat) (he : tb.epoch < e) :
    G.aboveFloor e := by
  intro e0 hf
  rcases hL.floorLink with ⟨_, hn⟩ | ⟨_, hs⟩
  · rw [hn] at hf; cases hf
  · rw [hs] at hf; cases hf
    have := hL.liveBound; omega

/-- publishing the snapshot `t1` (whose epoch is new) from a ghost whose parts cover `t1`'s file parts -/
theorem publish_ok {G : Ghost} {s : St} {t1 : Tbl} (h : Inv G s)
    (hfresh : ∀ ms ∈ G.mans, ms.epoch < t1.epoch)
    (hfloor : (t1.liveEpoch = 0 ∧ G.floor = none) ∨ (0 < t1.liveEpoch ∧ G.floor = some t1.liveEpoch))
    (hlive : t1.liveEpoch < t1.epoch) (hdel : t1.deletable = [])
    (halive : ∀ id ∈ t1.ids, ∀ ps ∈ G.parts, ps.id = id → ps.dying = false) :
    Along (fun s => ∃ G', Inv G' s) s (publish t1).1 ∧
    Inv (G.withMan ⟨t1.epoch, t1.ids, s.next, false⟩) (run s (publish t1).1) := by
  have hfr : t1.epoch ∉ G.mans.map (·.epoch) := by
    intro hmem
    obtain ⟨ms, hms, he⟩ := List.mem_map.1 hmem
    have := hfresh ms hms; omega
  have hab : G.aboveFloor t1.epoch := by
    intro e0 hf
    rcases hfloor with ⟨_, hn⟩ | ⟨_, hs⟩
    · rw [hn] at hf; cases hf
    · rw [hs] at hf; cases hf; omega
  obtain ⟨hA, hE⟩ := persist_along h t1.epoch t1.ids hfr hab halive
  have hfl : (G.withMan ⟨t1.epoch, t1.ids, s.next, false⟩).floor = some t1.epoch := rfl
  have hsteps : (publish t1).1 = persist t1.epoch t1.ids ++
      cleanSteps (if t1.liveEpoch > 0 then [t1.liveEpoch] else []) := by
    simp [publish, hdel]
  rw [hsteps]
  obtain ⟨hA2, hE2⟩ := clean_along (G := G.withMan ⟨t1.epoch, t1.ids, s.next, false⟩) t1.epoch hfl
    (if t1.liveEpoch > 0 then [t1.liveEpoch] else []) _ hE
    (by intro d hd; by_cases hp : t1.liveEpoch > 0 <;> simp [hp] at hd; omega)
  exact ⟨along_append hA (along_mono (fun _ hh => ⟨_, hh⟩) hA2), by rw [run_append]; exact hE2⟩

/-- the link after publishing: every part of the snapshot is a known, living file part -/
theorem link_after_publish {G : Ghost} {t1 : Tbl} {ino : Nat}
    (hgw : (G.mans.map (·.epoch)).Nodup)
    (hpb : ∀ ps ∈ G.parts, ps.id ≤ t1.curPartID) (hib : ∀ p ∈ t1.parts, p.id ≤ t1.curPartID)
    (hnd : (t1.parts.map (·.id)).Nodup)
    (hmemFresh : ∀ p ∈ t1.parts, p.mem = true → p.id ∉ G.parts.map (·.id))
    (hknown : ∀ p ∈ t1.parts, p.mem = false → ∃ ps ∈ G.parts, ps.id = p.id ∧ ps.dying = false)
    (hz : ∀ id ∈ t1.zombies, (∃ ps ∈ G.parts, ps.id = id ∧ ps.dying = false) ∧ id ∉ t1.parts.map (·.id))
    (hdg : ∀ ps ∈ G.parts, ps.dying = true → ps.id ∉ t1.parts.map (·.id) ∧ ps.id ∉ t1.zombies)
    (hfresh : ∀ ms ∈ G.mans, ms.epoch < t1.epoch) (hpos : 0 < t1.epoch) :
    Link (G.withMan ⟨t1.epoch, t1.ids, ino, false⟩) (publish t1).2 := by
  have hfr : (⟨t1.epoch, t1.ids, ino, false⟩ : ManS).epoch ∉ G.mans.map (·.epoch) := by
    intro hmem
    obtain ⟨ms, hms, he⟩ := List.mem_map.1 hmem
    have := hfresh ms hms
    have he' : ms.epoch = t1.epoch := he
    omega
  refine ⟨hpb, hib, hnd, hmemFresh, hknown, hz, hdg, ?_, Or.inr ⟨hpos, rfl⟩, Nat.le_refl _, rfl, ?_⟩
  · intro ms hms
    rcases (mem_withMan hfr).1 hms with hms | rfl
    · exact Nat.le_of_lt (hfresh ms hms)
    · exact Nat.le_refl _
  · intro ms hms hab id hid
    rcases (mem_withMan hfr).1 hms with hms | rfl
    · exfalso
      have := hab t1.epoch rfl
      have := hfresh ms hms
      omega
    · exact hid

/-! ### equations for `opSteps` -/

def flushT1 (t : Tbl) : Tbl := { t with parts := t.parts.map (fun p => { p with mem := false }), epoch := t.epoch + 1 }

theorem opSteps_flush (t : Tbl) :
    opSteps t .flush = if (t.parts.filter (·.mem)).isEmpty then ([], t) else
      ((t.parts.filter (·.mem)).flatMap (fun p => flushPart p.id p.batches) ++ (publish (flushT1 t)).1,
       (publish (flushT1 t)).2) := by
  unfold opSteps
  by_cases h : (t.parts.filter (·.mem)).isEmpty <;> simp [h, flushT1, publish]

def mergeMemT1 (t : Tbl) : Tbl :=
  { t with parts := t.parts.filter (fun p => !p.mem) ++ [⟨t.curPartID + 1, (t.parts.filter (·.mem)).flatMap (·.batches), false⟩],
           curPartID := t.curPartID + 1, epoch := t.epoch + 1 }

theorem opSteps_mergeMem (t : Tbl) :
    opSteps t .mergeMem = if (t.parts.filter (·.mem)).length < 2 then ([], t) else
      (mergeOut (t.curPartID + 1) ((t.parts.filter (·.mem)).flatMap (·.batches)) ++ (publish (mergeMemT1 t)).1,
       (publish (mergeMemT1 t)).2) := by
  unfold opSteps
  by_cases h : (t.parts.filter (·.mem)).length < 2 <;> simp [h, mergeMemT1, publish]

def mergeT1 (t : Tbl) (sel : List Nat) (hold : Bool) : Tbl :=
  let chosen := selectParts (t.parts.filter (fun p => !p.mem)) sel
  let gone := chosen.map (·.id)
  { t with parts := t.parts.filter (fun p => !gone.contains p.id) ++ [⟨t.curPartID + 1, chosen.flatMap (·.batches), false⟩],
           curPartID := t.curPartID + 1, epoch := t.epoch + 1,
           held := if hold then t.held ++ [(t.parts.filter (fun p => !p.mem)).map (·.id)] else t.held,
           zombies := t.zombies ++ gone }

theorem opSteps_merge (t : Tbl) (sel : List Nat) (hold : Bool) :
    opSteps t (.merge sel hold) =
      if (selectParts (t.parts.filter (fun p => !p.mem)) sel).length < 2 then ([], t) else
      (mergeOut (t.curPartID + 1) ((selectParts (t.parts.filter (fun p => !p.mem)) sel).flatMap (·.batches)) ++
         (publish (mergeT1 t sel hold)).1 ++ (reap (publish (mergeT1 t sel hold)).2).1,
       (reap (publish (mergeT1 t sel hold)).2).2) := by
  unfold opSteps
  by_cases h : (selectParts (t.parts.filter (fun p => !p.mem)) sel).length < 2 <;> simp [h, mergeT1, publish, reap]

theorem opSteps_release (t : Tbl) : opSteps t .release = reap { t with held := [] } := rfl

/-! ### the operations -/

def batchT (t : Tbl) (b : Nat) : Tbl := (opSteps t (.batch b)).2

theorem batchT_parts (t : Tbl) (b : Nat) : (batchT t b).parts = t.parts ++ [⟨t.curPartID + 1, [b], true⟩] := rfl
theorem batchT_cur (t : Tbl) (b : Nat) : (batchT t b).curPartID = t.curPartID + 1 := rfl
theorem batchT_epoch (t : Tbl) (b : Nat) : (batchT t b).epoch = t.epoch + 1 := rfl
theorem batchT_live (t : Tbl) (b : Nat) : (batchT t b).liveEpoch = t.liveEpoch := rfl
theorem batchT_del (t : Tbl) (b : Nat) : (batchT t b).deletable = t.deletable := rfl
theorem batchT_zomb (t : Tbl) (b : Nat) : (batchT t b).zombies = t.zombies := rfl

theorem op_batch {G : Ghost} {s : St} {tb : Tbl} (h : Inv G s) (hL : Link G tb) (b : Nat) :
    OpOK tb (.batch b) s := by
  refine ⟨along_nil ⟨G, h⟩, G, h, ?_⟩
  show Link G (batchT tb b)
  have hnew : tb.curPartID + 1 ∉ tb.parts.map (·.id) := by
    intro hm
    obtain ⟨p, hp, hid⟩ := List.mem_map.1 hm
    have := hL.idsBound p hp; omega
  have hmemP : ∀ p, p ∈ (batchT tb b).parts → p ∈ tb.parts ∨ p = ⟨tb.curPartID + 1, [b], true⟩ := by
    intro p hp; rw [batchT_parts] at hp; simpa using hp
  have hids : (batchT tb b).parts.map (·.id) = tb.parts.map (·.id) ++ [tb.curPartID + 1] := by
    rw [batchT_parts]; simp
  refine ⟨?_, ?_, ?_, ?_, ?_, ?_, ?_, ?_, ?_, ?_, ?_, ?_⟩
  · intro ps hps; have := hL.partBound ps hps; rw [batchT_cur]; omega
  · intro p hp
    rw [batchT_cur]
    rcases hmemP p hp with hp' | rfl
    · have := hL.idsBound p hp'; omega
    · exact Nat.le_refl _
  · rw [hids, List.nodup_append]
    refine ⟨hL.idsNodup, by simp, ?_⟩
    intro a ha c hc
    simp at hc; subst hc
    intro hac; subst hac; exact hnew ha
  · intro p hp hm
    rcases hmemP p hp with hp' | rfl
    · exact hL.memFresh p hp' hm
    · intro hmem
      obtain ⟨ps, hps, hid⟩ := List.mem_map.1 hmem
      have := hL.partBound ps hps
      have hid' : ps.id = tb.curPartID + 1 := hid
      omega
  · intro p hp hm
    rcases hmemP p hp with hp' | rfl
    · exact hL.fileKnown p hp' hm
    · cases hm
  · intro id hid
    rw [batchT_zomb] at hid
    obtain ⟨hk, hn⟩ := hL.zombKnown id hid
    refine ⟨hk, ?_⟩
    rw [hids, List.mem_append]
    rintro (hm | hm)
    · exact hn hm
    · obtain ⟨ps, hps, hpid, _⟩ := hk
      have := hL.partBound ps hps
      simp at hm; omega
  · intro ps hps hd
    obtain ⟨h1, h2⟩ := hL.dyingGone ps hps hd
    refine ⟨?_, by rw [batchT_zomb]; exact h2⟩
    rw [hids, List.mem_append]
    rintro (hm | hm)
    · exact h1 hm
    · have := hL.partBound ps hps
      simp at hm; omega
  · intro ms hms; have := hL.epochBound ms hms; rw [batchT_epoch]; omega
  · rw [batchT_live]; exact hL.floorLink
  · rw [batchT_live, batchT_epoch]; have := hL.liveBound; omega
  · rw [batchT_del]; exact hL.deletableNil
  · intro ms hms hab id hid
    rw [hids, List.mem_append]
    exact Or.inl (hL.aboveIds ms hms hab id hid)

end Banyan.C04
