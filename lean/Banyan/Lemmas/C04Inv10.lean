/-
C04 — the protocol invariant, part 10: what an operation of a history establishes (`OpOK`), publishing a
snapshot (`persist` + `gc.clean`) with its batch accounting, and the `batch` operation.
-/
import Banyan.Lemmas.C04Acc2

namespace Banyan.C04
open Banyan.FS

/-- What holds for an operation `o` started from `s`, `tb`:
    * at every prefix of its system calls the invariant holds for a ghost whose accounting covers the file
      parts of `tb`;
    * from the end of the manifest publication (`opPre`) on, the accounting covers the file parts of the new
      table state;
    * at the end the ghost is linked to the new table state. -/
def OpOK (tb : Tbl) (o : Op) (s : St) : Prop :=
  Along (InvQ (AccAt tb.acked (fileBatches tb).length)) s (opSteps tb o).1 ∧
  Along (InvQ (AccAt tb.acked (fileBatches (opSteps tb o).2).length)) (run s (opPre tb o)) (opPost tb o) ∧
  (fileBatches tb).length ≤ (fileBatches (opSteps tb o).2).length ∧
  ∃ G', Inv G' (run s (opSteps tb o).1) ∧ Link G' (opSteps tb o).2

/-- publishing the snapshot `t1` (whose epoch is new) from a ghost whose parts cover `t1`'s file parts -/
theorem publish_ok {G : Ghost} {s : St} {t1 : Tbl} {A : List Nat} {n n1 : Nat} (h : Inv G s)
    (hacc : AccAt A n G) (hle : n ≤ n1)
    (hfresh : ∀ ms ∈ G.mans, ms.epoch < t1.epoch)
    (hfloor : (t1.liveEpoch = 0 ∧ G.floor = none) ∨ (0 < t1.liveEpoch ∧ G.floor = some t1.liveEpoch))
    (hlive : t1.liveEpoch < t1.epoch) (hdel : t1.deletable = [])
    (halive : ∀ id ∈ t1.ids, ∀ ps ∈ G.parts, ps.id = id → ps.dying = false)
    (hnd1 : (t1.parts.map (·.id)).Nodup)
    (hmemFresh1 : ∀ p ∈ t1.parts, p.mem = true → p.id ∉ G.parts.map (·.id))
    (hknown1 : ∀ p ∈ t1.parts, p.mem = false →
      ∃ ps ∈ G.parts, ps.id = p.id ∧ ps.bat = p.batches ∧ ps.durable = true ∧ ps.dying = false)
    (hfile1 : (fileBatches t1).Perm (A.take n1)) (hn1 : n1 ≤ A.length) :
    Along (InvQ (AccAt A n)) s (publishPre t1) ∧
    Along (InvQ (AccAt A n1)) (run s (publishPre t1)) (publishPost t1) ∧
    Inv (G.withMan ⟨t1.epoch, t1.ids, s.next, false⟩) (run s (publish t1).1) := by
  have hfr : t1.epoch ∉ G.mans.map (·.epoch) := by
    intro hmem
    obtain ⟨ms, hms, he⟩ := List.mem_map.1 hmem
    have := hfresh ms hms; omega
  have hab : G.aboveFloor t1.epoch := by
    intro e0 hf
    rcases hfloor with ⟨_, hn⟩ | ⟨_, hs⟩
    · rw [hn] at hf; cases hf
    · rw [hs] at hf; cases hf; omega
  have hpa : ∀ ms : ManS, ms.epoch = t1.epoch → ms.ids = t1.ids →
      AccAt A n { G with mans := G.mans ++ [ms] } ∧
      AccAt A n (({ G with mans := G.mans ++ [ms] } : Ghost).manReady ms.epoch) ∧ AccAt A n1 (G.withMan ms) :=
    fun ms he hids => persist_acc h.gwf.partIds h.gwf.manEpochs hacc hle hnd1 hmemFresh1 hknown1 hfile1 hn1 hfresh
      ms he hids
  obtain ⟨hA, hE⟩ := persist_along h t1.epoch t1.ids hfr hab halive (AccAt A n)
    (fun ms he hids _ => ⟨(hpa ms he hids).1, (hpa ms he hids).2.1, accAt_mono hle (hpa ms he hids).2.2⟩)
  have hq2 : AccAt A n1 (G.withMan ⟨t1.epoch, t1.ids, s.next, false⟩) := (hpa _ rfl rfl).2.2
  have hfl : (G.withMan ⟨t1.epoch, t1.ids, s.next, false⟩).floor = some t1.epoch := rfl
  have hpost : publishPost t1 = cleanSteps (if t1.liveEpoch > 0 then [t1.liveEpoch] else []) := by
    simp [publishPost, hdel]
  obtain ⟨hA2, hE2⟩ := clean_along (G := G.withMan ⟨t1.epoch, t1.ids, s.next, false⟩) t1.epoch hfl
    (if t1.liveEpoch > 0 then [t1.liveEpoch] else []) _ hE
    (by intro d hd; by_cases hp : t1.liveEpoch > 0 <;> simp [hp] at hd; omega)
  refine ⟨hA, ?_, ?_⟩
  · rw [hpost]; exact along_mono (fun _ hh => ⟨_, hh, hq2⟩) hA2
  · rw [publish_steps, run_append, hpost]; exact hE2

/-- the link after publishing: every part of the snapshot is a known, living file part -/
theorem link_after_publish {G : Ghost} {t1 : Tbl} {ino : Nat}
    (hpb : ∀ ps ∈ G.parts, ps.id ≤ t1.curPartID) (hib : ∀ p ∈ t1.parts, p.id ≤ t1.curPartID)
    (hnd : (t1.parts.map (·.id)).Nodup)
    (hmemFresh : ∀ p ∈ t1.parts, p.mem = true → p.id ∉ G.parts.map (·.id))
    (hknown : ∀ p ∈ t1.parts, p.mem = false → ∃ ps ∈ G.parts, ps.id = p.id ∧ ps.dying = false)
    (hfull : ∀ p ∈ t1.parts, p.mem = false → ∀ ps ∈ G.parts, ps.id = p.id →
      ps.ready = true ∧ ps.durable = true ∧ ps.bat = p.batches)
    (hz : ∀ id ∈ t1.zombies, (∃ ps ∈ G.parts, ps.id = id ∧ ps.dying = false) ∧ id ∉ t1.parts.map (·.id))
    (hdg : ∀ ps ∈ G.parts, ps.dying = true → ps.id ∉ t1.parts.map (·.id) ∧ ps.id ∉ t1.zombies)
    (hfresh : ∀ ms ∈ G.mans, ms.epoch < t1.epoch) (hpos : 0 < t1.epoch) (htb : TB (publish t1).2) :
    Link (G.withMan ⟨t1.epoch, t1.ids, ino, false⟩) (publish t1).2 := by
  have hfr : (⟨t1.epoch, t1.ids, ino, false⟩ : ManS).epoch ∉ G.mans.map (·.epoch) := by
    intro hmem
    obtain ⟨ms, hms, he⟩ := List.mem_map.1 hmem
    have := hfresh ms hms
    have he' : ms.epoch = t1.epoch := he
    omega
  -- the only manifest at or above the new floor is the new one
  have honly : ∀ ms ∈ (G.withMan ⟨t1.epoch, t1.ids, ino, false⟩).mans,
      (G.withMan ⟨t1.epoch, t1.ids, ino, false⟩).aboveFloor ms.epoch → ms.ids = t1.ids := by
    intro ms hms hab
    rcases (mem_withMan hfr).1 hms with hms | rfl
    · exfalso
      have := hab t1.epoch rfl
      have := hfresh ms hms
      omega
    · rfl
  refine ⟨hpb, hib, hnd, hmemFresh, hknown, hz, hdg, ?_, Or.inr ⟨hpos, rfl⟩, Nat.le_refl _, rfl, ?_, hfull, ?_, ?_,
    htb⟩
  · intro ms hms
    rcases (mem_withMan hfr).1 hms with hms | rfl
    · exact Nat.le_of_lt (hfresh ms hms)
    · exact Nat.le_refl _
  · intro ms hms hab id hid
    rw [honly ms hms hab] at hid; exact hid
  · intro ms hms hab p hp _
    rw [honly ms hms hab]; exact List.mem_map.2 ⟨p, hp, rfl⟩
  · intro ms hms hab
    refine ⟨t1.parts.filter (·.mem), [], by simp [publish_parts], ?_, by simp⟩
    intro p hp
    rw [honly ms hms hab]; exact List.mem_map.2 ⟨p, (List.mem_filter.1 hp).1, rfl⟩

/-! ### the operations -/

theorem op_batch {G : Ghost} {s : St} {tb : Tbl} (h : Inv G s) (hL : Link G tb) (b : Nat) :
    OpOK tb (.batch b) s := by
  have hacc := acc_of_link h.gwf.partIds hL
  refine ⟨along_nil ⟨G, h, hacc⟩, ?_, ?_, G, h, ?_⟩
  · show Along _ s []
    refine along_nil ⟨G, h, ?_⟩
    show AccAt tb.acked (fileBatches (batchT tb b)).length G
    rw [fileBatches_batchT]; exact hacc
  · show (fileBatches tb).length ≤ (fileBatches (batchT tb b)).length
    rw [fileBatches_batchT]; exact Nat.le_refl _
  show Link G (batchT tb b)
  have hnew : tb.curPartID + 1 ∉ tb.parts.map (·.id) := by
    intro hm
    obtain ⟨p, hp, hid⟩ := List.mem_map.1 hm
    have := hL.idsBound p hp; omega
  have hmemP : ∀ p, p ∈ (batchT tb b).parts → p ∈ tb.parts ∨ p = ⟨tb.curPartID + 1, [b], true⟩ := by
    intro p hp; rw [batchT_parts] at hp; simpa using hp
  have hids : (batchT tb b).parts.map (·.id) = tb.parts.map (·.id) ++ [tb.curPartID + 1] := by
    rw [batchT_parts]; simp
  refine ⟨?_, ?_, ?_, ?_, ?_, ?_, ?_, ?_, ?_, ?_, ?_, ?_, ?_, ?_, ?_, tb_batch hL.tbl b⟩
  · intro ps hps; have := hL.partBound ps hps; rw [batchT_cur]; omega
  · intro p hp
    rw [batchT_cur]
    rcases hmemP p hp with hp' | rfl
    · have := hL.idsBound p hp'; omega
    · exact Nat.le_refl _
  · rw [hids, List.nodup_append]
    refine ⟨hL.idsNodup, by simp, ?_⟩
    intro a ha c hc
    simp at hc; subst hc
    intro hac; subst hac; exact hnew ha
  · intro p hp hm
    rcases hmemP p hp with hp' | rfl
    · exact hL.memFresh p hp' hm
    · intro hmem
      obtain ⟨ps, hps, hid⟩ := List.mem_map.1 hmem
      have := hL.partBound ps hps
      have hid' : ps.id = tb.curPartID + 1 := hid
      omega
  · intro p hp hm
    rcases hmemP p hp with hp' | rfl
    · exact hL.fileKnown p hp' hm
    · cases hm
  · intro id hid
    rw [batchT_zomb] at hid
    obtain ⟨hk, hn⟩ := hL.zombKnown id hid
    refine ⟨hk, ?_⟩
    rw [hids, List.mem_append]
    rintro (hm | hm)
    · exact hn hm
    · obtain ⟨ps, hps, hpid, _⟩ := hk
      have := hL.partBound ps hps
      simp at hm; omega
  · intro ps hps hd
    obtain ⟨h1, h2⟩ := hL.dyingGone ps hps hd
    refine ⟨?_, by rw [batchT_zomb]; exact h2⟩
    rw [hids, List.mem_append]
    rintro (hm | hm)
    · exact h1 hm
    · have := hL.partBound ps hps
      simp at hm; omega
  · intro ms hms; have := hL.epochBound ms hms; rw [batchT_epoch]; omega
  · rw [batchT_live]; exact hL.floorLink
  · rw [batchT_live, batchT_epoch]; have := hL.liveBound; omega
  · rw [batchT_del]; exact hL.deletableNil
  · intro ms hms hab id hid
    rw [hids, List.mem_append]
    exact Or.inl (hL.aboveIds ms hms hab id hid)
  · intro p hp hm
    rcases hmemP p hp with hp' | rfl
    · exact hL.fileFull p hp' hm
    · cases hm
  · intro ms hms hab p hp hm
    rcases hmemP p hp with hp' | rfl
    · exact hL.listsFile ms hms hab p hp' hm
    · cases hm
  · intro ms hms hab
    obtain ⟨pre, suf, hps, hpre, hsuf⟩ := hL.listedPrefix ms hms hab
    refine ⟨pre, suf ++ [⟨tb.curPartID + 1, [b], true⟩], ?_, hpre, ?_⟩
    · rw [batchT_parts, List.filter_append, hps]; simp
    · intro p hp
      rcases List.mem_append.1 hp with hp | hp
      · exact hsuf p hp
      · simp at hp; subst hp
        intro hin
        exact hnew (hL.aboveIds ms hms hab _ hin)

end Banyan.C04
