/-
C04 — the protocol invariant, part 11: flush.
-/
import Banyan.Lemmas.C04Inv10

namespace Banyan.C04
open Banyan.FS

/-- assembling `OpOK` from the two halves of an operation -/
theorem opOK_intro {tb : Tbl} {o : Op} {s : St} (pre post : List Step) (tb' : Tbl)
    (hst : opSteps tb o = (pre ++ post, tb')) (hpre : opPre tb o = pre) (hpost : opPost tb o = post)
    (hle : (fileBatches tb).length ≤ (fileBatches tb').length)
    (hA : Along (InvQ (AccAt tb.acked (fileBatches tb).length)) s pre)
    (hB : Along (InvQ (AccAt tb.acked (fileBatches tb').length)) (run s pre) post)
    (hfin : ∃ G', Inv G' (run (run s pre) post) ∧ Link G' tb') : OpOK tb o s := by
  unfold OpOK
  rw [hst, hpre, hpost]
  refine ⟨along_append hA (along_mono ?_ hB), hB, hle, by rw [run_append]; exact hfin⟩
  rintro _ ⟨G', hi, hq⟩
  exact ⟨G', hi, accAt_mono hle hq⟩

/-- an operation that does nothing -/
theorem opOK_noop {G : Ghost} {s : St} {tb : Tbl} {o : Op} (h : Inv G s) (hL : Link G tb)
    (hst : opSteps tb o = ([], tb)) (hpre : opPre tb o = []) (hpost : opPost tb o = []) : OpOK tb o s := by
  have hacc := acc_of_link h.gwf.partIds hL
  exact opOK_intro [] [] tb hst hpre hpost (Nat.le_refl _) (along_nil ⟨G, h, hacc⟩) (along_nil ⟨G, h, hacc⟩)
    ⟨G, h, hL⟩

theorem op_flush {G : Ghost} {s : St} {tb : Tbl} (h : Inv G s) (hL : Link G tb) : OpOK tb .flush s := by
  by_cases hem : (tb.parts.filter (·.mem)).isEmpty = true
  · exact opOK_noop h hL (by rw [opSteps_flush, if_pos hem]) (by rw [opPre_flush, if_pos hem])
      (by rw [opPost_flush, if_pos hem])
  · have hacc0 := acc_of_link h.gwf.partIds hL
    -- flush every memory part
    have hmemsub : ∀ p ∈ tb.parts.filter (·.mem), p ∈ tb.parts ∧ p.mem = true := by
      intro p hp; exact List.mem_filter.1 hp
    obtain ⟨hA1, G1, hE1, hPA, hacc1⟩ := flushMany_along (AccAt tb.acked (fileBatches tb).length)
      (fun d G1 => PartsAdded G G1 (d.map (fun p => (p.id, p.batches))) ∧
        AccAt tb.acked (fileBatches tb).length G1)
      (tb.parts.filter (·.mem)) (fun _ _ hq => hq.2)
      (fun d p rest G1 hM hq hnd hfr ps h1 h2 h3 h4 h5 => flush_step_acc hL hnd hM hq.1 hq.2 hfr ps h1 h2 h3 h4 h5)
      (tb.parts.filter (·.mem)) [] G s (by simp) h ⟨partsAdded_refl G, hacc0⟩
      (nodup_map_filter _ _ _ hL.idsNodup)
      (fun p hp => hL.memFresh p (hmemsub p hp).1 (hmemsub p hp).2)
    obtain ⟨s1, hs1⟩ : ∃ s1, s1 = run s ((tb.parts.filter (·.mem)).flatMap (fun p => flushPart p.id p.batches)) :=
      ⟨_, rfl⟩
    rw [← hs1] at hE1
    have htb' : TB (publish (flushT1 tb)).2 := tb_flush hL.tbl
    have hnomem : ∀ p ∈ (publish (flushT1 tb)).2.parts, p.mem = false := by
      intro p hp
      rw [publish_parts] at hp
      obtain ⟨p0, _, rfl⟩ := (mem_flushT1_parts tb p).1 hp
      rfl
    have hn1 : (fileBatches (publish (flushT1 tb)).2).length = tb.acked.length := htb'.len_all hnomem
    have hle : (fileBatches tb).length ≤ (fileBatches (publish (flushT1 tb)).2).length := by
      rw [hn1]; exact hL.tbl.len_le
    -- the parts of the new ghost
    have hnotDying : ∀ id ∈ (flushT1 tb).ids, ∀ ps ∈ G1.parts, ps.id = id → ps.dying = false := by
      intro id hid ps hps hpid
      rcases hPA.cases ps hps with hold | ⟨x, _, _, _, _, _, hnd⟩
      · apply bool_eq_false_of_ne_true
        intro hd
        have := (hL.dyingGone ps hold hd).1
        apply this
        have : id ∈ (flushT1 tb).parts.map (·.id) := hid
        rw [flushT1_ids] at this
        rw [hpid]; exact this
      · exact hnd
    have hfreshE : ∀ ms ∈ G1.mans, ms.epoch < (flushT1 tb).epoch := by
      intro ms hms
      rw [hPA.mans] at hms
      have := hL.epochBound ms hms
      show ms.epoch < tb.epoch + 1
      omega
    have hknown1 : ∀ p ∈ (flushT1 tb).parts, p.mem = false →
        ∃ ps ∈ G1.parts, ps.id = p.id ∧ ps.bat = p.batches ∧ ps.durable = true ∧ ps.dying = false := by
      intro p hp _
      obtain ⟨p0, hp0, rfl⟩ := (mem_flushT1_parts tb p).1 hp
      by_cases hm : p0.mem = true
      · obtain ⟨p', hp', hid, hbat, _, hdur, hnd⟩ := hPA.added (p0.id, p0.batches)
          (List.mem_map.2 ⟨p0, List.mem_filter.2 ⟨hp0, hm⟩, rfl⟩)
        exact ⟨p', hp', hid, hbat, hdur, hnd⟩
      · obtain ⟨ps, hps, h1, h2, h3, h4⟩ := hL.file_ghost hp0 (bool_eq_false_of_ne_true hm)
        exact ⟨ps, hPA.old ps hps, h1, h2, h3, h4⟩
    have hmemFresh1 : ∀ p ∈ (flushT1 tb).parts, p.mem = true → p.id ∉ G1.parts.map (·.id) := by
      intro p hp hmm
      obtain ⟨p0, _, rfl⟩ := (mem_flushT1_parts tb p).1 hp
      cases hmm
    obtain ⟨hA2, hB, hE2⟩ := publish_ok (t1 := flushT1 tb) (n1 := (fileBatches (publish (flushT1 tb)).2).length)
      hE1 hacc1 hle hfreshE
      (by rw [hPA.floor]; exact hL.floorLink)
      (by show tb.liveEpoch < tb.epoch + 1; have := hL.liveBound; omega)
      hL.deletableNil hnotDying (by rw [flushT1_ids]; exact hL.idsNodup) hmemFresh1 hknown1
      (by have := htb'.file; rw [fileBatches_congr (publish_parts _)] at this ⊢; exact this)
      (by rw [hn1]; exact Nat.le_refl _)
    refine opOK_intro
      ((tb.parts.filter (·.mem)).flatMap (fun p => flushPart p.id p.batches) ++ publishPre (flushT1 tb))
      (publishPost (flushT1 tb)) (publish (flushT1 tb)).2
      (by rw [opSteps_flush, if_neg hem, publish_steps, List.append_assoc])
      (by rw [opPre_flush, if_neg hem]) (by rw [opPost_flush, if_neg hem]) hle
      (along_append hA1 (by rw [← hs1]; exact hA2))
      (by rw [run_append, ← hs1]; exact hB)
      ⟨_, by rw [run_append, ← hs1, ← run_append, ← publish_steps]; exact hE2, ?_⟩
    apply link_after_publish
    · intro ps hps
      show ps.id ≤ tb.curPartID
      rcases hPA.cases ps hps with hold | ⟨x, hx, hid, _⟩
      · exact hL.partBound ps hold
      · obtain ⟨p, hp, rfl⟩ := List.mem_map.1 hx
        rw [hid]; exact hL.idsBound p (hmemsub p hp).1
    · intro p hp
      obtain ⟨p0, hp0, rfl⟩ := (mem_flushT1_parts tb p).1 hp
      exact hL.idsBound p0 hp0
    · rw [flushT1_ids]; exact hL.idsNodup
    · exact hmemFresh1
    · intro p hp hm
      obtain ⟨ps, hps, h1, _, _, h4⟩ := hknown1 p hp hm
      exact ⟨ps, hps, h1, h4⟩
    · intro p hp _ ps hps hpid
      obtain ⟨p0, hp0, rfl⟩ := (mem_flushT1_parts tb p).1 hp
      rcases hPA.cases ps hps with hold | ⟨x, hx, hxid, hxbat, hr, hdur, _⟩
      · have hm : p0.mem = false := by
          apply bool_eq_false_of_ne_true
          intro hm
          exact hL.memFresh p0 hp0 hm (List.mem_map.2 ⟨ps, hold, hpid⟩)
        exact hL.fileFull p0 hp0 hm ps hold hpid
      · obtain ⟨q, hq, rfl⟩ := List.mem_map.1 hx
        have : q = p0 := eq_of_nodup_map (·.id) tb.parts hL.idsNodup (hmemsub q hq).1 hp0 (by
          have hx' : ps.id = q.id := hxid
          show q.id = p0.id
          rw [← hx', hpid])
        subst this
        exact ⟨hr, hdur, hxbat⟩
    · intro id hid
      obtain ⟨⟨ps, hps, hpid, hnd⟩, hn⟩ := hL.zombKnown id hid
      exact ⟨⟨ps, hPA.old ps hps, hpid, hnd⟩, by rw [flushT1_ids]; exact hn⟩
    · intro ps hps hd
      rcases hPA.cases ps hps with hold | ⟨x, _, _, _, _, _, hnd⟩
      · obtain ⟨h1, h2⟩ := hL.dyingGone ps hold hd
        exact ⟨by rw [flushT1_ids]; exact h1, h2⟩
      · rw [hnd] at hd; cases hd
    · exact hfreshE
    · show 0 < tb.epoch + 1; omega
    · exact htb'

end Banyan.C04
