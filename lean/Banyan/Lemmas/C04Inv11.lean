/-
C04 — the protocol invariant, part 11: flush.
-/
import Banyan.Lemmas.C04Inv10

namespace Banyan.C04
open Banyan.FS

theorem flushT1_ids (t : Tbl) : (flushT1 t).parts.map (·.id) = t.parts.map (·.id) := by
  simp [flushT1, List.map_map, Function.comp_def]

theorem mem_flushT1_parts (t : Tbl) (p : PartG) :
    p ∈ (flushT1 t).parts ↔ ∃ p0 ∈ t.parts, p = { p0 with mem := false } := by
  simp only [flushT1, List.mem_map]
  constructor
  · rintro ⟨p0, h, rfl⟩; exact ⟨p0, h, rfl⟩
  · rintro ⟨p0, h, rfl⟩; exact ⟨p0, h, rfl⟩

theorem nodup_map_filter {α β : Type} (f : α → β) (p : α → Bool) (l : List α) (h : (l.map f).Nodup) :
    ((l.filter p).map f).Nodup := by
  induction l with
  | nil => simp
  | cons a l ih =>
    simp only [List.map_cons, List.nodup_cons] at h
    by_cases hp : p a = true
    · rw [List.filter_cons_of_pos hp, List.map_cons, List.nodup_cons]
      refine ⟨?_, ih h.2⟩
      intro hm
      obtain ⟨b, hb, hfb⟩ := List.mem_map.1 hm
      exact h.1 (List.mem_map.2 ⟨b, (List.mem_filter.1 hb).1, hfb⟩)
    · rw [List.filter_cons_of_neg hp]; exact ih h.2

theorem bool_eq_false_of_ne_true {b : Bool} (h : b = true → False) : b = false := by
  cases b <;> simp at h ⊢

theorem op_flush {G : Ghost} {s : St} {tb : Tbl} (h : Inv G s) (hL : Link G tb) : OpOK tb .flush s := by
  unfold OpOK
  by_cases hem : (tb.parts.filter (·.mem)).isEmpty = true
  · rw [opSteps_flush, if_pos hem]
    exact ⟨along_nil ⟨G, h⟩, G, h, hL⟩
  · rw [opSteps_flush, if_neg hem]
    show Along _ s (_ ++ _) ∧ ∃ G', Inv G' (run s (_ ++ _)) ∧ Link G' (publish (flushT1 tb)).2
    -- flush every memory part
    have hmemsub : ∀ p ∈ tb.parts.filter (·.mem), p ∈ tb.parts ∧ p.mem = true := by
      intro p hp; exact List.mem_filter.1 hp
    obtain ⟨hA1, G1, hE1, hPA⟩ := flushMany_along (tb.parts.filter (·.mem)) G s h
      (nodup_map_filter _ _ _ hL.idsNodup)
      (fun p hp => hL.memFresh p (hmemsub p hp).1 (hmemsub p hp).2)
    obtain ⟨s1, hs1⟩ : ∃ s1, s1 = run s ((tb.parts.filter (·.mem)).flatMap (fun p => flushPart p.id p.batches)) :=
      ⟨_, rfl⟩
    rw [← hs1] at hE1
    -- the parts of the new ghost
    have hnotDying : ∀ id ∈ (flushT1 tb).ids, ∀ ps ∈ G1.parts, ps.id = id → ps.dying = false := by
      intro id hid ps hps hpid
      rcases hPA.cases ps hps with hold | ⟨x, _, _, _, _, _, hnd⟩
      · apply bool_eq_false_of_ne_true
        intro hd
        have := (hL.dyingGone ps hold hd).1
        apply this
        have : id ∈ (flushT1 tb).parts.map (·.id) := hid
        rw [flushT1_ids] at this
        rw [hpid]; exact this
      · exact hnd
    have hfreshE : ∀ ms ∈ G1.mans, ms.epoch < (flushT1 tb).epoch := by
      intro ms hms
      rw [hPA.mans] at hms
      have := hL.epochBound ms hms
      show ms.epoch < tb.epoch + 1
      omega
    obtain ⟨hA2, hE2⟩ := publish_ok (t1 := flushT1 tb) hE1 hfreshE
      (by rw [hPA.floor]; exact hL.floorLink)
      (by show tb.liveEpoch < tb.epoch + 1; have := hL.liveBound; omega)
      hL.deletableNil hnotDying
    refine ⟨along_append hA1 (by rw [← hs1]; exact hA2), _, by rw [run_append, ← hs1]; exact hE2, ?_⟩
    apply link_after_publish hE1.gwf.manEpochs
    · intro ps hps
      show ps.id ≤ tb.curPartID
      rcases hPA.cases ps hps with hold | ⟨x, hx, hid, _⟩
      · exact hL.partBound ps hold
      · obtain ⟨p, hp, rfl⟩ := List.mem_map.1 hx
        rw [hid]; exact hL.idsBound p (hmemsub p hp).1
    · intro p hp
      obtain ⟨p0, hp0, rfl⟩ := (mem_flushT1_parts tb p).1 hp
      exact hL.idsBound p0 hp0
    · rw [flushT1_ids]; exact hL.idsNodup
    · intro p hp hmm
      obtain ⟨p0, _, rfl⟩ := (mem_flushT1_parts tb p).1 hp
      cases hmm
    · intro p hp _
      obtain ⟨p0, hp0, rfl⟩ := (mem_flushT1_parts tb p).1 hp
      by_cases hm : p0.mem = true
      · obtain ⟨p', hp', hid, _, _, _, hnd⟩ := hPA.added (p0.id, p0.batches)
          (List.mem_map.2 ⟨p0, List.mem_filter.2 ⟨hp0, hm⟩, rfl⟩)
        exact ⟨p', hp', hid, hnd⟩
      · obtain ⟨ps, hps, hid, hnd⟩ := hL.fileKnown p0 hp0 (bool_eq_false_of_ne_true hm)
        exact ⟨ps, hPA.old ps hps, hid, hnd⟩
    · intro id hid
      obtain ⟨⟨ps, hps, hpid, hnd⟩, hn⟩ := hL.zombKnown id hid
      exact ⟨⟨ps, hPA.old ps hps, hpid, hnd⟩, by rw [flushT1_ids]; exact hn⟩
    · intro ps hps hd
      rcases hPA.cases ps hps with hold | ⟨x, _, _, _, _, _, hnd⟩
      · obtain ⟨h1, h2⟩ := hL.dyingGone ps hold hd
        exact ⟨by rw [flushT1_ids]; exact h1, h2⟩
      · rw [hnd] at hd; cases hd
    · exact hfreshE
    · show 0 < tb.epoch + 1; omega

end Banyan.C04
