/-
C04 — the protocol invariant, part 12: merges, part removal (`reap`), release; whole histories.
-/
import Banyan.Lemmas.C04Inv11

namespace Banyan.C04
open Banyan.FS

/-- removal of the removable parts nothing references any more -/
theorem reap_ok {G : Ghost} {s : St} {t : Tbl} {A : List Nat} {c : Nat} (h : Inv G s) (hL : Link G t)
    (hacc : AccAt A c G) :
    Along (InvQ (AccAt A c)) s (reap t).1 ∧ ∃ G', Inv G' (run s (reap t).1) ∧ Link G' (reap t).2 := by
  obtain ⟨dead, hdead⟩ : ∃ dead, dead = sortAsc (t.zombies.filter (fun id => t.held.all (fun h => !h.contains id))) :=
    ⟨_, rfl⟩
  have hsub : ∀ id ∈ dead, id ∈ t.zombies := by
    intro id hid
    rw [hdead, mem_sortAsc] at hid
    exact (List.mem_filter.1 hid).1
  have hsteps : (reap t).1 = dead.flatMap rmPart := by rw [hdead]; rfl
  have htbl : (reap t).2 = { t with zombies := t.zombies.filter (fun id => !dead.contains id) } := by rw [hdead]; rfl
  obtain ⟨hA, G', hE, hPD, _⟩ := reapMany_along (AccAt A c) (fun G1 id hq hfree => dying_acc id hq hfree) dead G s h
    (by
      intro id hid
      obtain ⟨⟨ps, hps, hpid, _⟩, _⟩ := hL.zombKnown id (hsub id hid)
      exact ⟨ps, hps, hpid⟩)
    (by
      intro id hid ms hms hab hin
      exact (hL.zombKnown id (hsub id hid)).2 (hL.aboveIds ms hms hab id hin))
    hacc
  rw [hsteps, htbl]
  refine ⟨hA, G', hE, ?_⟩
  refine ⟨?_, hL.idsBound, hL.idsNodup, ?_, ?_, ?_, ?_, ?_, ?_, hL.liveBound, hL.deletableNil, ?_, ?_, ?_, ?_,
    tb_congr hL.tbl rfl rfl rfl⟩
  · intro p' hp'
    obtain ⟨p, hp, hid, _⟩ := hPD.cases p' hp'
    rw [hid]; exact hL.partBound p hp
  · intro p hp hm hmem
    obtain ⟨p', hp', hid'⟩ := List.mem_map.1 hmem
    obtain ⟨p0, hp0, hid0, _⟩ := hPD.cases p' hp'
    exact hL.memFresh p hp hm (List.mem_map.2 ⟨p0, hp0, by rw [← hid0, hid']⟩)
  · intro p hp hm
    obtain ⟨ps, hps, hid, hnd⟩ := hL.fileKnown p hp hm
    obtain ⟨p', hp', hid', hk⟩ := hPD.keep ps hps
    have hnotdead : ps.id ∉ dead := by
      intro hin
      exact (hL.zombKnown _ (hsub _ hin)).2 (by rw [hid]; exact List.mem_map.2 ⟨p, hp, rfl⟩)
    have := hk hnotdead
    subst this
    exact ⟨p', hp', hid, hnd⟩
  · intro id hid
    show (∃ ps ∈ G'.parts, ps.id = id ∧ ps.dying = false) ∧ id ∉ t.parts.map (·.id)
    have hid' : id ∈ t.zombies ∧ id ∉ dead := by
      have := List.mem_filter.1 hid
      exact ⟨this.1, by simpa using this.2⟩
    obtain ⟨⟨ps, hps, hpid, hnd⟩, hn⟩ := hL.zombKnown id hid'.1
    obtain ⟨p', hp', _, hk⟩ := hPD.keep ps hps
    have := hk (by rw [hpid]; exact hid'.2)
    subst this
    exact ⟨⟨p', hp', hpid, hnd⟩, hn⟩
  · intro p' hp' hd
    show p'.id ∉ t.parts.map (·.id) ∧ p'.id ∉ t.zombies.filter (fun id => !dead.contains id)
    obtain ⟨p, hp, hid, _, hc⟩ := hPD.cases p' hp'
    rcases hc with ⟨rfl, _⟩ | ⟨_, hin⟩
    · obtain ⟨h1, h2⟩ := hL.dyingGone p' hp hd
      exact ⟨h1, fun hm => h2 (List.mem_filter.1 hm).1⟩
    · rw [hid]
      refine ⟨(hL.zombKnown _ (hsub _ hin)).2, ?_⟩
      intro hm
      have := (List.mem_filter.1 hm).2
      simp at this; exact this hin
  · intro ms hms; rw [hPD.mans] at hms; exact hL.epochBound ms hms
  · rw [hPD.floor]; exact hL.floorLink
  · intro ms hms hab id hid
    rw [hPD.mans] at hms
    exact hL.aboveIds ms hms ((aboveFloor_congr hPD.floor _).1 hab) id hid
  · intro p hp hm p' hp' hpid
    obtain ⟨p0, hp0, hid0, _, hc⟩ := hPD.cases p' hp'
    rcases hc with ⟨rfl, _⟩ | ⟨_, hin⟩
    · exact hL.fileFull p hp hm p' hp0 hpid
    · exfalso
      exact (hL.zombKnown _ (hsub _ hin)).2 (List.mem_map.2 ⟨p, hp, by rw [← hid0, hpid]⟩)
  · intro ms hms hab p hp hm
    rw [hPD.mans] at hms
    exact hL.listsFile ms hms ((aboveFloor_congr hPD.floor _).1 hab) p hp hm
  · intro ms hms hab
    rw [hPD.mans] at hms
    exact hL.listedPrefix ms hms ((aboveFloor_congr hPD.floor _).1 hab)

theorem op_release {G : Ghost} {s : St} {tb : Tbl} (h : Inv G s) (hL : Link G tb) : OpOK tb .release s := by
  have hacc := acc_of_link h.gwf.partIds hL
  have hL0 : Link G { tb with held := [] } := link_congr hL rfl rfl rfl rfl rfl rfl rfl
  obtain ⟨hA, hfin⟩ := reap_ok h hL0 hacc
  have hfb : fileBatches (reap { tb with held := [] }).2 = fileBatches tb := fileBatches_congr rfl
  refine opOK_intro [] (reap { tb with held := [] }).1 (reap { tb with held := [] }).2 rfl rfl rfl
    (by rw [hfb]; exact Nat.le_refl _) (along_nil ⟨G, h, hacc⟩) (by rw [hfb]; exact hA) hfin

/-- a merge-like operation: a new file part `cur+1` replaces some parts of the snapshot -/
theorem merge_like_ok {G : Ghost} {s : St} {tb t1 : Tbl} (h : Inv G s) (hL : Link G tb)
    (keepP : PartG → Bool) (bs : List Nat) (gone : List Nat)
    (hparts : t1.parts = tb.parts.filter keepP ++ [⟨tb.curPartID + 1, bs, false⟩])
    (hcur : t1.curPartID = tb.curPartID + 1) (hep : t1.epoch = tb.epoch + 1)
    (hlive : t1.liveEpoch = tb.liveEpoch) (hdel : t1.deletable = tb.deletable)
    (hzomb : t1.zombies = tb.zombies ++ gone)
    (hgone : ∀ id ∈ gone, ∃ p ∈ tb.parts, p.id = id ∧ p.mem = false ∧ keepP p = false)
    (hack : t1.acked = tb.acked) (htb1 : TB (publish t1).2)
    (hle : (fileBatches tb).length ≤ (fileBatches (publish t1).2).length) :
    Along (InvQ (AccAt tb.acked (fileBatches tb).length)) s (mergeOut (tb.curPartID + 1) bs ++ publishPre t1) ∧
    Along (InvQ (AccAt tb.acked (fileBatches (publish t1).2).length))
      (run s (mergeOut (tb.curPartID + 1) bs ++ publishPre t1)) (publishPost t1) ∧
    ∃ G', Inv G' (run (run s (mergeOut (tb.curPartID + 1) bs ++ publishPre t1)) (publishPost t1)) ∧
      Link G' (publish t1).2 := by
  have hacc0 := acc_of_link h.gwf.partIds hL
  have hfreshId : tb.curPartID + 1 ∉ G.parts.map (·.id) := by
    intro hm
    obtain ⟨ps, hps, hid⟩ := List.mem_map.1 hm
    have := hL.partBound ps hps
    have hid' : ps.id = tb.curPartID + 1 := hid
    omega
  have hnewNotOld : tb.curPartID + 1 ∉ tb.parts.map (·.id) := by
    intro hm
    obtain ⟨p, hp, hid⟩ := List.mem_map.1 hm
    have := hL.idsBound p hp; omega
  have hpa : ∀ ps : PartS, ps.id = tb.curPartID + 1 → ps.ready = false → ps.durable = false →
      AccAt tb.acked (fileBatches tb).length { G with parts := G.parts ++ [ps] } ∧
      AccAt tb.acked (fileBatches tb).length (({ G with parts := G.parts ++ [ps] } : Ghost).ready ps.id) ∧
      AccAt tb.acked (fileBatches tb).length (G.withPart ps) := by
    intro ps hid hr hdu
    apply fresh_part_acc h.gwf.partIds hacc0 ps (by rw [hid]; exact hfreshId) hr hdu
    intro ms hms hab hin
    rw [hid] at hin
    exact hnewNotOld (hL.aboveIds ms hms hab _ hin)
  obtain ⟨hA1, hE1⟩ := mergeOut_along h (tb.curPartID + 1) bs hfreshId (AccAt tb.acked (fileBatches tb).length)
    (fun ps h1 _ h3 h4 _ => hpa ps h1 h3 h4)
  obtain ⟨ps, hps⟩ : ∃ ps : PartS, ps = ⟨tb.curPartID + 1, bs, mergeIno s.next, false, false, false⟩ := ⟨_, rfl⟩
  rw [← hps] at hE1
  have hpsid : ps.id = tb.curPartID + 1 := by rw [hps]
  have hacc1 : AccAt tb.acked (fileBatches tb).length (G.withPart ps) :=
    (hpa ps hpsid (by rw [hps]) (by rw [hps])).2.2
  have hmw := @mem_withPart G ps (by rw [hpsid]; exact hfreshId)
  obtain ⟨s1, hs1⟩ : ∃ s1, s1 = run s (mergeOut (tb.curPartID + 1) bs) := ⟨_, rfl⟩
  rw [← hs1] at hE1
  -- ids of the new snapshot
  have hids : t1.parts.map (·.id) = (tb.parts.filter keepP).map (·.id) ++ [tb.curPartID + 1] := by
    rw [hparts]; simp
  have hidsub : ∀ id ∈ t1.parts.map (·.id), id ∈ tb.parts.map (·.id) ∨ id = tb.curPartID + 1 := by
    intro id hid
    rw [hids, List.mem_append] at hid
    rcases hid with hid | hid
    · left
      obtain ⟨p, hp, rfl⟩ := List.mem_map.1 hid
      exact List.mem_map.2 ⟨p, (List.mem_filter.1 hp).1, rfl⟩
    · right; simpa using hid
  have hnotDying : ∀ id ∈ t1.ids, ∀ p' ∈ (G.withPart ps).parts, p'.id = id → p'.dying = false := by
    intro id hid p' hp' hpid
    rcases hmw.1 hp' with hold | rfl
    · apply bool_eq_false_of_ne_true
      intro hd
      have hg := hL.dyingGone p' hold hd
      rcases hidsub id hid with hin | heq
      · exact hg.1 (by rw [hpid]; exact hin)
      · have := hL.partBound p' hold; omega
    · rw [hps]
  have hfreshE : ∀ ms ∈ (G.withPart ps).mans, ms.epoch < t1.epoch := by
    intro ms hms
    rw [withPart_mans] at hms
    have := hL.epochBound ms hms
    rw [hep]; omega
  have hnd1 : (t1.parts.map (·.id)).Nodup := by
    rw [hids, List.nodup_append]
    refine ⟨nodup_map_filter _ _ _ hL.idsNodup, by simp, ?_⟩
    intro a ha c hc
    simp at hc; subst hc
    intro hac; subst hac
    obtain ⟨p, hp, hid⟩ := List.mem_map.1 ha
    exact hnewNotOld (List.mem_map.2 ⟨p, (List.mem_filter.1 hp).1, hid⟩)
  have hmemFresh1 : ∀ p ∈ t1.parts, p.mem = true → p.id ∉ (G.withPart ps).parts.map (·.id) := by
    intro p hp hm hmem
    rw [hparts, List.mem_append] at hp
    rcases hp with hp | hp
    · obtain ⟨p', hp', hid'⟩ := List.mem_map.1 hmem
      rcases hmw.1 hp' with hold | rfl
      · exact hL.memFresh p (List.mem_filter.1 hp).1 hm (List.mem_map.2 ⟨p', hold, hid'⟩)
      · have := hL.idsBound p (List.mem_filter.1 hp).1
        have hid'' : tb.curPartID + 1 = p.id := by rw [← hid', hps]
        omega
    · simp at hp; subst hp; cases hm
  have hknown1 : ∀ p ∈ t1.parts, p.mem = false →
      ∃ ps' ∈ (G.withPart ps).parts, ps'.id = p.id ∧ ps'.bat = p.batches ∧ ps'.durable = true ∧ ps'.dying = false := by
    intro p hp hm
    rw [hparts, List.mem_append] at hp
    rcases hp with hp | hp
    · obtain ⟨ps0, hps0, h1, h2, h3, h4⟩ := hL.file_ghost (List.mem_filter.1 hp).1 hm
      exact ⟨ps0, hmw.2 (Or.inl hps0), h1, h2, h3, h4⟩
    · simp at hp; subst hp
      exact ⟨_, hmw.2 (Or.inr rfl), by rw [hps], by rw [hps], rfl, by rw [hps]⟩
  obtain ⟨hA2, hB, hE2⟩ := publish_ok (t1 := t1) (A := tb.acked) (n1 := (fileBatches (publish t1).2).length)
    hE1 hacc1 hle hfreshE
    (by rw [withPart_floor, hlive]; exact hL.floorLink)
    (by rw [hlive, hep]; have := hL.liveBound; omega)
    (by rw [hdel]; exact hL.deletableNil) hnotDying hnd1 hmemFresh1 hknown1
    (by
      have := htb1.file
      rw [fileBatches_congr (publish_parts _), publish_acked, hack] at this
      rw [fileBatches_congr (publish_parts _)]; exact this)
    (by have := htb1.len_le; rw [publish_acked, hack] at this; exact this)
  refine ⟨along_append hA1 (by rw [← hs1]; exact hA2), by rw [run_append, ← hs1]; exact hB, _,
    by rw [run_append, ← hs1, ← run_append, ← publish_steps]; exact hE2, ?_⟩
  apply link_after_publish
  · intro p' hp'
    rw [hcur]
    rcases hmw.1 hp' with hold | rfl
    · have := hL.partBound p' hold; omega
    · rw [hps]; exact Nat.le_refl _
  · intro p hp
    rw [hcur]
    rw [hparts, List.mem_append] at hp
    rcases hp with hp | hp
    · have := hL.idsBound p (List.mem_filter.1 hp).1; omega
    · simp at hp; subst hp; exact Nat.le_refl _
  · exact hnd1
  · exact hmemFresh1
  · intro p hp hm
    obtain ⟨ps', hps', h1, _, _, h4⟩ := hknown1 p hp hm
    exact ⟨ps', hps', h1, h4⟩
  · intro p hp hm p' hp' hpid
    rw [hparts, List.mem_append] at hp
    rcases hmw.1 hp' with hold | rfl
    · rcases hp with hp | hp
      · exact hL.fileFull p (List.mem_filter.1 hp).1 hm p' hold hpid
      · simp at hp; subst hp
        have := hL.partBound p' hold
        have hpid' : p'.id = tb.curPartID + 1 := hpid
        omega
    · rcases hp with hp | hp
      · have := hL.idsBound p (List.mem_filter.1 hp).1
        have hpid' : ps.id = p.id := hpid
        omega
      · simp at hp; subst hp
        exact ⟨rfl, rfl, by rw [hps]⟩
  · intro id hid
    rw [hzomb, List.mem_append] at hid
    rcases hid with hid | hid
    · obtain ⟨⟨ps0, hps0, hpid, hnd⟩, hn⟩ := hL.zombKnown id hid
      refine ⟨⟨ps0, hmw.2 (Or.inl hps0), hpid, hnd⟩, ?_⟩
      intro hin
      rcases hidsub id hin with hin | heq
      · exact hn hin
      · have := hL.partBound ps0 hps0; omega
    · obtain ⟨p, hp, hpid, hpm, hpk⟩ := hgone id hid
      obtain ⟨ps0, hps0, hid0, hnd⟩ := hL.fileKnown p hp hpm
      refine ⟨⟨ps0, hmw.2 (Or.inl hps0), by rw [hid0, hpid], hnd⟩, ?_⟩
      intro hin
      rw [hids, List.mem_append] at hin
      rcases hin with hin | hin
      · obtain ⟨q, hq, hqid⟩ := List.mem_map.1 hin
        have hq' := List.mem_filter.1 hq
        have : q = p := eq_of_nodup_map (·.id) tb.parts hL.idsNodup hq'.1 hp (by rw [hqid, hpid])
        subst this
        rw [hpk] at hq'; exact absurd hq'.2 (by simp)
      · simp at hin
        have := hL.idsBound p hp; omega
  · intro p' hp' hd
    rcases hmw.1 hp' with hold | rfl
    · obtain ⟨h1, h2⟩ := hL.dyingGone p' hold hd
      refine ⟨?_, ?_⟩
      · intro hin
        rcases hidsub _ hin with hin | heq
        · exact h1 hin
        · have := hL.partBound p' hold; omega
      · rw [hzomb, List.mem_append]
        rintro (hz | hz)
        · exact h2 hz
        · obtain ⟨p, hp, hpid, _, _⟩ := hgone _ hz
          exact h1 (List.mem_map.2 ⟨p, hp, hpid⟩)
    · rw [hps] at hd; cases hd
  · exact hfreshE
  · rw [hep]; omega
  · exact htb1

theorem op_mergeMem {G : Ghost} {s : St} {tb : Tbl} (h : Inv G s) (hL : Link G tb) : OpOK tb .mergeMem s := by
  by_cases hlt : (tb.parts.filter (·.mem)).length < 2
  · exact opOK_noop h hL (by rw [opSteps_mergeMem, if_pos hlt]) (by rw [opPre_mergeMem, if_pos hlt])
      (by rw [opPost_mergeMem, if_pos hlt])
  · have htb1 : TB (publish (mergeMemT1 tb)).2 := tb_mergeMem hL.tbl
    have hnomem : ∀ p ∈ (publish (mergeMemT1 tb)).2.parts, p.mem = false := by
      intro p hp
      rw [publish_parts] at hp
      have hp' : p ∈ tb.parts.filter (fun p => !p.mem) ∨
          p = ⟨tb.curPartID + 1, (tb.parts.filter (·.mem)).flatMap (·.batches), false⟩ := by
        simpa [mergeMemT1] using hp
      rcases hp' with hp' | rfl
      · have := (List.mem_filter.1 hp').2; simpa using this
      · rfl
    have hle : (fileBatches tb).length ≤ (fileBatches (publish (mergeMemT1 tb)).2).length := by
      rw [htb1.len_all hnomem]; exact hL.tbl.len_le
    obtain ⟨hA, hB, hfin⟩ := merge_like_ok (t1 := mergeMemT1 tb) h hL (fun p => !p.mem) _ [] rfl rfl rfl rfl rfl
      (by simp [mergeMemT1]) (by intro id hid; simp at hid) rfl htb1 hle
    exact opOK_intro _ _ (publish (mergeMemT1 tb)).2
      (by rw [opSteps_mergeMem, if_neg hlt, publish_steps, List.append_assoc])
      (by rw [opPre_mergeMem, if_neg hlt]) (by rw [opPost_mergeMem, if_neg hlt]) hle hA hB hfin

theorem op_merge {G : Ghost} {s : St} {tb : Tbl} (h : Inv G s) (hL : Link G tb) (sel : List Nat) (hold : Bool) :
    OpOK tb (.merge sel hold) s := by
  by_cases hlt : (selectParts (tb.parts.filter (fun p => !p.mem)) sel).length < 2
  · exact opOK_noop h hL (by rw [opSteps_merge, if_pos hlt]) (by rw [opPre_merge, if_pos hlt])
      (by rw [opPost_merge, if_pos hlt])
  · obtain ⟨htb2, hlen⟩ := tb_merge hL.tbl hL.idsNodup sel hold
    have htb1 : TB (publish (mergeT1 tb sel hold)).2 := tb_congr htb2 rfl rfl rfl
    have hfb : fileBatches (reap (publish (mergeT1 tb sel hold)).2).2 = fileBatches (publish (mergeT1 tb sel hold)).2 :=
      fileBatches_congr rfl
    have hle : (fileBatches tb).length ≤ (fileBatches (publish (mergeT1 tb sel hold)).2).length := by
      rw [← hfb, hlen]; exact Nat.le_refl _
    obtain ⟨hA1, hB1, G1, hE1, hL1⟩ := merge_like_ok (t1 := mergeT1 tb sel hold) h hL
      (fun p => !((selectParts (tb.parts.filter (fun p => !p.mem)) sel).map (·.id)).contains p.id)
      ((selectParts (tb.parts.filter (fun p => !p.mem)) sel).flatMap (·.batches))
      ((selectParts (tb.parts.filter (fun p => !p.mem)) sel).map (·.id))
      rfl rfl rfl rfl rfl rfl
      (by
        intro id hid
        obtain ⟨p, hp, rfl⟩ := List.mem_map.1 hid
        have hp' := mem_selectParts hp
        obtain ⟨hp1, hp2⟩ := List.mem_filter.1 hp'
        refine ⟨p, hp1, rfl, by simpa using hp2, ?_⟩
        simp only [Bool.not_eq_false', List.contains_eq_mem, decide_eq_true_eq]
        exact List.mem_map.2 ⟨p, hp, rfl⟩)
      rfl htb1 hle
    have hacc1 : AccAt tb.acked (fileBatches (publish (mergeT1 tb sel hold)).2).length G1 :=
      acc_of_link hE1.gwf.partIds hL1
    obtain ⟨hA2, hfin⟩ := reap_ok hE1 hL1 hacc1
    refine opOK_intro _ (publishPost (mergeT1 tb sel hold) ++ (reap (publish (mergeT1 tb sel hold)).2).1)
      (reap (publish (mergeT1 tb sel hold)).2).2
      (by rw [opSteps_merge, if_neg hlt, publish_steps]; simp only [List.append_assoc])
      (by rw [opPre_merge, if_neg hlt]) (by rw [opPost_merge, if_neg hlt]) (by rw [hfb]; exact hle) hA1
      (by rw [hfb]; exact along_append hB1 hA2)
      (by rw [run_append]; exact hfin)

/-- every operation preserves the linked invariant and satisfies the invariant at every prefix -/
theorem op_ok {G : Ghost} {s : St} {tb : Tbl} (h : Inv G s) (hL : Link G tb) (o : Op) : OpOK tb o s := by
  cases o with
  | batch b => exact op_batch h hL b
  | flush => exact op_flush h hL
  | mergeMem => exact op_mergeMem h hL
  | merge sel hold => exact op_merge h hL sel hold
  | release => exact op_release h hL

/-! ### whole histories -/

theorem histSteps_cons (t : Tbl) (o : Op) (os : List Op) :
    histSteps t (o :: os) = (opSteps t o).1 ++ histSteps (opSteps t o).2 os := by
  simp [histSteps, histSegments]

theorem histTbl_cons (t : Tbl) (o : Op) (os : List Op) : histTbl t (o :: os) = histTbl (opSteps t o).2 os := rfl

/-- after any history the invariant holds with a linked ghost -/
theorem hist_ok : ∀ (os : List Op) (G : Ghost) (s : St) (tb : Tbl), Inv G s → Link G tb →
    ∃ G', Inv G' (run s (histSteps tb os)) ∧ Link G' (histTbl tb os) := by
  intro os
  induction os with
  | nil => intro G s tb h hL; exact ⟨G, h, hL⟩
  | cons o os ih =>
    intro G s tb h hL
    obtain ⟨_, _, _, G1, hE1, hL1⟩ := op_ok h hL o
    obtain ⟨G2, hE2, hL2⟩ := ih G1 _ _ hE1 hL1
    exact ⟨G2, by rw [histSteps_cons, run_append]; exact hE2, by rw [histTbl_cons]; exact hL2⟩

/-- At every cut point of every history — after the history `os` and the first `k` system calls of one more
    operation `o` — the invariant holds for a ghost whose accounting covers the file parts of the table before
    `o`, and those of the table after `o` once the manifest publication (`opPre`) is complete. -/
theorem acc_at_cut (e : Nat) (os : List Op) (o : Op) (k : Nat) :
    ∃ G c, Inv G (run (run ({} : St) (histSteps { epoch := e } os))
        (((opSteps (histTbl { epoch := e } os) o).1).take k)) ∧
      AccAt (histTbl { epoch := e } os).acked c G ∧
      (fileBatches (histTbl { epoch := e } os)).length ≤ c ∧
      ((opPre (histTbl { epoch := e } os) o).length ≤ k →
        (fileBatches (opSteps (histTbl { epoch := e } os) o).2).length ≤ c) := by
  obtain ⟨G, hE, hL⟩ := hist_ok os {} {} { epoch := e } inv_init (link_init e)
  obtain ⟨hA, hB, hle, _⟩ := op_ok hE hL o
  obtain ⟨tb, htb⟩ : ∃ tb, tb = histTbl { epoch := e } os := ⟨_, rfl⟩
  obtain ⟨s0, hs0⟩ : ∃ s0, s0 = run ({} : St) (histSteps { epoch := e } os) := ⟨_, rfl⟩
  rw [← htb] at hA hB hle ⊢
  rw [← hs0] at hA hB ⊢
  -- it is enough to look at `k` within the step list
  have main : ∀ k, k ≤ ((opSteps tb o).1).length →
      ∃ G c, Inv G (run s0 (((opSteps tb o).1).take k)) ∧ AccAt tb.acked c G ∧ (fileBatches tb).length ≤ c ∧
        ((opPre tb o).length ≤ k → (fileBatches (opSteps tb o).2).length ≤ c) := by
    intro k hk
    by_cases hpk : (opPre tb o).length ≤ k
    · have hk' : k ≤ (opPre tb o).length + (opPost tb o).length := by
        rw [opSteps_split] at hk; simpa using hk
      obtain ⟨G', hi, hq⟩ := hB (k - (opPre tb o).length) (by omega)
      refine ⟨G', _, ?_, hq, hle, fun _ => Nat.le_refl _⟩
      rw [opSteps_split, List.take_append, List.take_of_length_le hpk, run_append]
      exact hi
    · obtain ⟨G', hi, hq⟩ := hA k hk
      exact ⟨G', _, hi, hq, Nat.le_refl _, fun h => absurd h hpk⟩
  by_cases hk : k ≤ ((opSteps tb o).1).length
  · exact main k hk
  · obtain ⟨G', c, hi, hq, h1, h2⟩ := main _ (Nat.le_refl _)
    refine ⟨G', c, ?_, hq, h1, fun _ => h2 ?_⟩
    · rw [List.take_of_length_le (by omega)]
      rw [List.take_length] at hi; exact hi
    · rw [opSteps_split]; simp

/-- the batch bookkeeping of the table state after any history, and after one more operation -/
theorem tb_at (e : Nat) (os : List Op) : TB (histTbl { epoch := e } os) := by
  obtain ⟨_, _, hL⟩ := hist_ok os {} {} { epoch := e } inv_init (link_init e)
  exact hL.tbl

theorem tb_after (e : Nat) (os : List Op) (o : Op) : TB (opSteps (histTbl { epoch := e } os) o).2 := by
  obtain ⟨_, hE, hL⟩ := hist_ok os {} {} { epoch := e } inv_init (link_init e)
  obtain ⟨_, _, _, _, _, hL'⟩ := op_ok hE hL o
  exact hL'.tbl

/-- the invariant alone -/
theorem inv_at_cut (e : Nat) (os : List Op) (o : Op) (k : Nat) :
    ∃ G, Inv G (run (run ({} : St) (histSteps { epoch := e } os))
      (((opSteps (histTbl { epoch := e } os) o).1).take k)) := by
  obtain ⟨G, _, h, _⟩ := acc_at_cut e os o k
  exact ⟨G, h⟩

end Banyan.C04
