/-
C04 — the protocol invariant, part 12: merges, part removal (`reap`), release; whole histories.
-/
import Banyan.Lemmas.C04Inv11

namespace Banyan.C04
open Banyan.FS

/-- `Link` does not look at `held` / `acked` -/
theorem link_congr {G : Ghost} {t t' : Tbl} (hL : Link G t)
    (h1 : t'.parts = t.parts) (h2 : t'.curPartID = t.curPartID) (h3 : t'.epoch = t.epoch)
    (h4 : t'.liveEpoch = t.liveEpoch) (h5 : t'.deletable = t.deletable) (h6 : t'.zombies = t.zombies) :
    Link G t' := by
  refine ⟨?_, ?_, ?_, ?_, ?_, ?_, ?_, ?_, ?_, ?_, ?_, ?_⟩
  · rw [h2]; exact hL.partBound
  · rw [h1, h2]; exact hL.idsBound
  · rw [h1]; exact hL.idsNodup
  · rw [h1]; exact hL.memFresh
  · rw [h1]; exact hL.fileKnown
  · rw [h1, h6]; exact hL.zombKnown
  · rw [h1, h6]; exact hL.dyingGone
  · rw [h3]; exact hL.epochBound
  · rw [h4]; exact hL.floorLink
  · rw [h3, h4]; exact hL.liveBound
  · rw [h5]; exact hL.deletableNil
  · rw [h1]; exact hL.aboveIds

/-- removal of the removable parts nothing references any more -/
theorem reap_ok {G : Ghost} {s : St} {t : Tbl} (h : Inv G s) (hL : Link G t) :
    Along (fun s => ∃ G', Inv G' s) s (reap t).1 ∧ ∃ G', Inv G' (run s (reap t).1) ∧ Link G' (reap t).2 := by
  obtain ⟨dead, hdead⟩ : ∃ dead, dead = sortAsc (t.zombies.filter (fun id => t.held.all (fun h => !h.contains id))) :=
    ⟨_, rfl⟩
  have hsub : ∀ id ∈ dead, id ∈ t.zombies := by
    intro id hid
    rw [hdead, mem_sortAsc] at hid
    exact (List.mem_filter.1 hid).1
  have hsteps : (reap t).1 = dead.flatMap rmPart := by rw [hdead]; rfl
  have htbl : (reap t).2 = { t with zombies := t.zombies.filter (fun id => !dead.contains id) } := by rw [hdead]; rfl
  obtain ⟨hA, G', hE, hPD⟩ := reapMany_along dead G s h
    (by
      intro id hid
      obtain ⟨⟨ps, hps, hpid, _⟩, _⟩ := hL.zombKnown id (hsub id hid)
      exact ⟨ps, hps, hpid⟩)
    (by
      intro id hid ms hms hab hin
      exact (hL.zombKnown id (hsub id hid)).2 (hL.aboveIds ms hms hab id hin))
  rw [hsteps, htbl]
  refine ⟨hA, G', hE, ?_⟩
  refine ⟨?_, hL.idsBound, hL.idsNodup, ?_, ?_, ?_, ?_, ?_, ?_, hL.liveBound, hL.deletableNil, ?_⟩
  · intro p' hp'
    obtain ⟨p, hp, hid, _⟩ := hPD.cases p' hp'
    rw [hid]; exact hL.partBound p hp
  · intro p hp hm hmem
    obtain ⟨p', hp', hid'⟩ := List.mem_map.1 hmem
    obtain ⟨p0, hp0, hid0, _⟩ := hPD.cases p' hp'
    exact hL.memFresh p hp hm (List.mem_map.2 ⟨p0, hp0, by rw [← hid0, hid']⟩)
  · intro p hp hm
    obtain ⟨ps, hps, hid, hnd⟩ := hL.fileKnown p hp hm
    obtain ⟨p', hp', hid', hk⟩ := hPD.keep ps hps
    have hnotdead : ps.id ∉ dead := by
      intro hin
      exact (hL.zombKnown _ (hsub _ hin)).2 (by rw [hid]; exact List.mem_map.2 ⟨p, hp, rfl⟩)
    have := hk hnotdead
    subst this
    exact ⟨p', hp', hid, hnd⟩
  · intro id hid
    show (∃ ps ∈ G'.parts, ps.id = id ∧ ps.dying = false) ∧ id ∉ t.parts.map (·.id)
    have hid' : id ∈ t.zombies ∧ id ∉ dead := by
      have := List.mem_filter.1 hid
      exact ⟨this.1, by simpa using this.2⟩
    obtain ⟨⟨ps, hps, hpid, hnd⟩, hn⟩ := hL.zombKnown id hid'.1
    obtain ⟨p', hp', _, hk⟩ := hPD.keep ps hps
    have := hk (by rw [hpid]; exact hid'.2)
    subst this
    exact ⟨⟨p', hp', hpid, hnd⟩, hn⟩
  · intro p' hp' hd
    show p'.id ∉ t.parts.map (·.id) ∧ p'.id ∉ t.zombies.filter (fun id => !dead.contains id)
    obtain ⟨p, hp, hid, _, hc⟩ := hPD.cases p' hp'
    rcases hc with ⟨rfl, _⟩ | ⟨_, hin⟩
    · obtain ⟨h1, h2⟩ := hL.dyingGone p' hp hd
      exact ⟨h1, fun hm => h2 (List.mem_filter.1 hm).1⟩
    · rw [hid]
      refine ⟨(hL.zombKnown _ (hsub _ hin)).2, ?_⟩
      intro hm
      have := (List.mem_filter.1 hm).2
      simp at this; exact this hin
  · intro ms hms; rw [hPD.mans] at hms; exact hL.epochBound ms hms
  · rw [hPD.floor]; exact hL.floorLink
  · intro ms hms hab id hid
    rw [hPD.mans] at hms
    exact hL.aboveIds ms hms ((aboveFloor_congr hPD.floor _).1 hab) id hid

theorem op_release {G : Ghost} {s : St} {tb : Tbl} (h : Inv G s) (hL : Link G tb) : OpOK tb .release s := by
  unfold OpOK
  rw [opSteps_release]
  exact reap_ok h (link_congr hL rfl rfl rfl rfl rfl rfl)

/-- a merge-like operation: a new file part `cur+1` replaces some parts of the snapshot -/
theorem merge_like_ok {G : Ghost} {s : St} {tb t1 : Tbl} (h : Inv G s) (hL : Link G tb)
    (keepP : PartG → Bool) (bs : List Nat) (gone : List Nat)
    (hparts : t1.parts = tb.parts.filter keepP ++ [⟨tb.curPartID + 1, bs, false⟩])
    (hcur : t1.curPartID = tb.curPartID + 1) (hep : t1.epoch = tb.epoch + 1)
    (hlive : t1.liveEpoch = tb.liveEpoch) (hdel : t1.deletable = tb.deletable)
    (hzomb : t1.zombies = tb.zombies ++ gone)
    (hgone : ∀ id ∈ gone, ∃ p ∈ tb.parts, p.id = id ∧ p.mem = false ∧ keepP p = false) :
    Along (fun s => ∃ G', Inv G' s) s (mergeOut (tb.curPartID + 1) bs ++ (publish t1).1) ∧
    ∃ G', Inv G' (run s (mergeOut (tb.curPartID + 1) bs ++ (publish t1).1)) ∧ Link G' (publish t1).2 := by
  have hfreshId : tb.curPartID + 1 ∉ G.parts.map (·.id) := by
    intro hm
    obtain ⟨ps, hps, hid⟩ := List.mem_map.1 hm
    have := hL.partBound ps hps
    have hid' : ps.id = tb.curPartID + 1 := hid
    omega
  obtain ⟨hA1, hE1⟩ := mergeOut_along h (tb.curPartID + 1) bs hfreshId
  obtain ⟨ps, hps⟩ : ∃ ps : PartS, ps = ⟨tb.curPartID + 1, bs, mergeIno s.next, false, false, false⟩ := ⟨_, rfl⟩
  rw [← hps] at hE1
  have hpsid : ps.id = tb.curPartID + 1 := by rw [hps]
  have hmw := @mem_withPart G ps (by rw [hpsid]; exact hfreshId)
  obtain ⟨s1, hs1⟩ : ∃ s1, s1 = run s (mergeOut (tb.curPartID + 1) bs) := ⟨_, rfl⟩
  rw [← hs1] at hE1
  -- ids of the new snapshot
  have hids : t1.parts.map (·.id) = (tb.parts.filter keepP).map (·.id) ++ [tb.curPartID + 1] := by
    rw [hparts]; simp
  have hidsub : ∀ id ∈ t1.parts.map (·.id), id ∈ tb.parts.map (·.id) ∨ id = tb.curPartID + 1 := by
    intro id hid
    rw [hids, List.mem_append] at hid
    rcases hid with hid | hid
    · left
      obtain ⟨p, hp, rfl⟩ := List.mem_map.1 hid
      exact List.mem_map.2 ⟨p, (List.mem_filter.1 hp).1, rfl⟩
    · right; simpa using hid
  have hnewNotOld : tb.curPartID + 1 ∉ tb.parts.map (·.id) := by
    intro hm
    obtain ⟨p, hp, hid⟩ := List.mem_map.1 hm
    have := hL.idsBound p hp; omega
  have hnotDying : ∀ id ∈ t1.ids, ∀ p' ∈ (G.withPart ps).parts, p'.id = id → p'.dying = false := by
    intro id hid p' hp' hpid
    rcases hmw.1 hp' with hold | rfl
    · apply bool_eq_false_of_ne_true
      intro hd
      have hg := hL.dyingGone p' hold hd
      rcases hidsub id hid with hin | heq
      · exact hg.1 (by rw [hpid]; exact hin)
      · have := hL.partBound p' hold; omega
    · rw [hps]
  have hfreshE : ∀ ms ∈ (G.withPart ps).mans, ms.epoch < t1.epoch := by
    intro ms hms
    rw [withPart_mans] at hms
    have := hL.epochBound ms hms
    rw [hep]; omega
  obtain ⟨hA2, hE2⟩ := publish_ok (t1 := t1) hE1 hfreshE
    (by rw [withPart_floor, hlive]; exact hL.floorLink)
    (by rw [hlive, hep]; have := hL.liveBound; omega)
    (by rw [hdel]; exact hL.deletableNil) hnotDying
  refine ⟨along_append hA1 (by rw [← hs1]; exact hA2), _, by rw [run_append, ← hs1]; exact hE2, ?_⟩
  apply link_after_publish hE1.gwf.manEpochs
  · intro p' hp'
    rw [hcur]
    rcases hmw.1 hp' with hold | rfl
    · have := hL.partBound p' hold; omega
    · rw [hps]; exact Nat.le_refl _
  · intro p hp
    rw [hcur]
    rw [hparts, List.mem_append] at hp
    rcases hp with hp | hp
    · have := hL.idsBound p (List.mem_filter.1 hp).1; omega
    · simp at hp; subst hp; exact Nat.le_refl _
  · rw [hids, List.nodup_append]
    refine ⟨nodup_map_filter _ _ _ hL.idsNodup, by simp, ?_⟩
    intro a ha c hc
    simp at hc; subst hc
    intro hac; subst hac
    obtain ⟨p, hp, hid⟩ := List.mem_map.1 ha
    exact hnewNotOld (List.mem_map.2 ⟨p, (List.mem_filter.1 hp).1, hid⟩)
  · intro p hp hm hmem
    rw [hparts, List.mem_append] at hp
    rcases hp with hp | hp
    · obtain ⟨p', hp', hid'⟩ := List.mem_map.1 hmem
      rcases hmw.1 hp' with hold | rfl
      · exact hL.memFresh p (List.mem_filter.1 hp).1 hm (List.mem_map.2 ⟨p', hold, hid'⟩)
      · have := hL.idsBound p (List.mem_filter.1 hp).1
        have hid'' : tb.curPartID + 1 = p.id := by rw [← hid', hps]
        omega
    · simp at hp; subst hp; cases hm
  · intro p hp hm
    rw [hparts, List.mem_append] at hp
    rcases hp with hp | hp
    · obtain ⟨ps0, hps0, hid, hnd⟩ := hL.fileKnown p (List.mem_filter.1 hp).1 hm
      exact ⟨ps0, hmw.2 (Or.inl hps0), hid, hnd⟩
    · simp at hp; subst hp
      exact ⟨_, hmw.2 (Or.inr rfl), by rw [hps], by rw [hps]⟩
  · intro id hid
    rw [hzomb, List.mem_append] at hid
    rcases hid with hid | hid
    · obtain ⟨⟨ps0, hps0, hpid, hnd⟩, hn⟩ := hL.zombKnown id hid
      refine ⟨⟨ps0, hmw.2 (Or.inl hps0), hpid, hnd⟩, ?_⟩
      intro hin
      rcases hidsub id hin with hin | heq
      · exact hn hin
      · have := hL.partBound ps0 hps0; omega
    · obtain ⟨p, hp, hpid, hpm, hpk⟩ := hgone id hid
      obtain ⟨ps0, hps0, hid0, hnd⟩ := hL.fileKnown p hp hpm
      refine ⟨⟨ps0, hmw.2 (Or.inl hps0), by rw [hid0, hpid], hnd⟩, ?_⟩
      intro hin
      rw [hids, List.mem_append] at hin
      rcases hin with hin | hin
      · obtain ⟨q, hq, hqid⟩ := List.mem_map.1 hin
        have hq' := List.mem_filter.1 hq
        have : q = p := eq_of_nodup_map (·.id) tb.parts hL.idsNodup hq'.1 hp (by rw [hqid, hpid])
        subst this
        rw [hpk] at hq'; exact absurd hq'.2 (by simp)
      · simp at hin
        have := hL.idsBound p hp; omega
  · intro p' hp' hd
    rcases hmw.1 hp' with hold | rfl
    · obtain ⟨h1, h2⟩ := hL.dyingGone p' hold hd
      refine ⟨?_, ?_⟩
      · intro hin
        rcases hidsub _ hin with hin | heq
        · exact h1 hin
        · have := hL.partBound p' hold; omega
      · rw [hzomb, List.mem_append]
        rintro (hz | hz)
        · exact h2 hz
        · obtain ⟨p, hp, hpid, _, _⟩ := hgone _ hz
          exact h1 (List.mem_map.2 ⟨p, hp, hpid⟩)
    · rw [hps] at hd; cases hd
  · exact hfreshE
  · rw [hep]; omega

theorem op_mergeMem {G : Ghost} {s : St} {tb : Tbl} (h : Inv G s) (hL : Link G tb) : OpOK tb .mergeMem s := by
  unfold OpOK
  by_cases hlt : (tb.parts.filter (·.mem)).length < 2
  · rw [opSteps_mergeMem, if_pos hlt]
    exact ⟨along_nil ⟨G, h⟩, G, h, hL⟩
  · rw [opSteps_mergeMem, if_neg hlt]
    exact merge_like_ok (t1 := mergeMemT1 tb) h hL (fun p => !p.mem) _ [] rfl rfl rfl rfl rfl (by simp [mergeMemT1])
      (by intro id hid; simp at hid)

theorem mem_selectParts {fileParts : List PartG} {sel : List Nat} {p : PartG}
    (h : p ∈ selectParts fileParts sel) : p ∈ fileParts := by
  unfold selectParts at h
  rw [List.mem_eraseDups, List.mem_filterMap] at h
  obtain ⟨i, _, hi⟩ := h
  exact List.mem_of_getElem? hi

theorem op_merge {G : Ghost} {s : St} {tb : Tbl} (h : Inv G s) (hL : Link G tb) (sel : List Nat) (hold : Bool) :
    OpOK tb (.merge sel hold) s := by
  unfold OpOK
  by_cases hlt : (selectParts (tb.parts.filter (fun p => !p.mem)) sel).length < 2
  · rw [opSteps_merge, if_pos hlt]
    exact ⟨along_nil ⟨G, h⟩, G, h, hL⟩
  · rw [opSteps_merge, if_neg hlt]
    obtain ⟨hA1, G1, hE1, hL1⟩ := merge_like_ok (t1 := mergeT1 tb sel hold) h hL
      (fun p => !((selectParts (tb.parts.filter (fun p => !p.mem)) sel).map (·.id)).contains p.id)
      ((selectParts (tb.parts.filter (fun p => !p.mem)) sel).flatMap (·.batches))
      ((selectParts (tb.parts.filter (fun p => !p.mem)) sel).map (·.id))
      rfl rfl rfl rfl rfl rfl
      (by
        intro id hid
        obtain ⟨p, hp, rfl⟩ := List.mem_map.1 hid
        have hp' := mem_selectParts hp
        obtain ⟨hp1, hp2⟩ := List.mem_filter.1 hp'
        refine ⟨p, hp1, rfl, by simpa using hp2, ?_⟩
        simp only [Bool.not_eq_false', List.contains_eq_mem, decide_eq_true_eq]
        exact List.mem_map.2 ⟨p, hp, rfl⟩)
    obtain ⟨hA2, G2, hE2, hL2⟩ := reap_ok hE1 hL1
    refine ⟨?_, G2, ?_, hL2⟩
    · exact along_append hA1 hA2
    · rw [run_append]; exact hE2

/-- every operation preserves the linked invariant and satisfies the invariant at every prefix -/
theorem op_ok {G : Ghost} {s : St} {tb : Tbl} (h : Inv G s) (hL : Link G tb) (o : Op) : OpOK tb o s := by
  cases o with
  | batch b => exact op_batch h hL b
  | flush => exact op_flush h hL
  | mergeMem => exact op_mergeMem h hL
  | merge sel hold => exact op_merge h hL sel hold
  | release => exact op_release h hL

/-! ### whole histories -/

theorem histSteps_cons (t : Tbl) (o : Op) (os : List Op) :
    histSteps t (o :: os) = (opSteps t o).1 ++ histSteps (opSteps t o).2 os := by
  simp [histSteps, histSegments]

theorem histTbl_cons (t : Tbl) (o : Op) (os : List Op) : histTbl t (o :: os) = histTbl (opSteps t o).2 os := rfl

/-- after any history the invariant holds with a linked ghost -/
theorem hist_ok : ∀ (os : List Op) (G : Ghost) (s : St) (tb : Tbl), Inv G s → Link G tb →
    ∃ G', Inv G' (run s (histSteps tb os)) ∧ Link G' (histTbl tb os) := by
  intro os
  induction os with
  | nil => intro G s tb h hL; exact ⟨G, h, hL⟩
  | cons o os ih =>
    intro G s tb h hL
    obtain ⟨_, G1, hE1, hL1⟩ := op_ok h hL o
    obtain ⟨G2, hE2, hL2⟩ := ih G1 _ _ hE1 hL1
    exact ⟨G2, by rw [histSteps_cons, run_append]; exact hE2, by rw [histTbl_cons]; exact hL2⟩

/-- The invariant holds (for some ghost) after the history `os` followed by any prefix of the steps of one
    more operation `o` — i.e. at every cut point of every history. -/
theorem inv_at_cut (e : Nat) (os : List Op) (o : Op) (k : Nat) :
    ∃ G, Inv G (run (run ({} : St) (histSteps { epoch := e } os))
      (((opSteps (histTbl { epoch := e } os) o).1).take k)) := by
  obtain ⟨G, hE, hL⟩ := hist_ok os {} {} { epoch := e } inv_init (link_init e)
  obtain ⟨hA, _⟩ := op_ok hE hL o
  by_cases hk : k ≤ ((opSteps (histTbl { epoch := e } os) o).1).length
  · exact hA k hk
  · rw [List.take_of_length_le (by omega)]
    exact along_end hA

end Banyan.C04
