/-
C04 — the protocol invariant, part 2: the directory operations the protocol may leave pending (`Allowed`) and
the proof that each of them preserves `NSOK` on every name space (`nsok_apply`).  Together with
`applyOps_inv` this makes `NSOK` true of the durable name space with any subset of pending operations applied.
-/
import Banyan.Lemmas.C04Inv1

namespace Banyan.C04
open Banyan.FS

/-- The directory operations that may be pending.  They only ever bind a name to the inode the ghost recorded
    for it; removals concern parts nothing depends on and manifests older than the floor; the two
    publishing renames (`metadata.json`, `<epoch>.snp`) require the inode to be durable (`ready`). -/
inductive Allowed (G : Ghost) : DOp Name → Prop where
  | mkPart (id : Nat) : Allowed G (.add [.part id] .dir)
  | addFile (id : Nat) (f : PFile) (ps : PartS) (hps : ps ∈ G.parts) (hid : ps.id = id) (hf : f ≠ .metadata) :
      Allowed G (.add (pfile id f) (.file (ps.ino f)))
  | addTmp (id : Nat) (f : PFile) (ps : PartS) (hps : ps ∈ G.parts) (hid : ps.id = id) :
      Allowed G (.add [.part id, .tmp (.pf f)] (.file (ps.ino f)))
  | renFile (id : Nat) (f : PFile) (ps : PartS) (hps : ps ∈ G.parts) (hid : ps.id = id)
      (hr : f = .metadata → ps.ready = true) :
      Allowed G (.ren [.part id, .tmp (.pf f)] (pfile id f))
  | delPartFile (id : Nat) (n : Name) (ps : PartS) (hps : ps ∈ G.parts) (hid : ps.id = id) (h : ps.dying = true) :
      Allowed G (.del [.part id, n])
  | delPart (id : Nat) (ps : PartS) (hps : ps ∈ G.parts) (hid : ps.id = id) (h : ps.dying = true) :
      Allowed G (.del [.part id])
  | delSnp (e e0 : Nat) (hf : G.floor = some e0) (hlt : e < e0) : Allowed G (.del [.snp e])
  | addSnpTmp (ms : ManS) (hms : ms ∈ G.mans) : Allowed G (.add [.tmp (.snp ms.epoch)] (.file ms.ino))
  | renSnp (ms : ManS) (hms : ms ∈ G.mans) (hr : ms.ready = true) :
      Allowed G (.ren [.tmp (.snp ms.epoch)] [.snp ms.epoch])

theorem nsok_congr {G : Ghost} {m m' : NS Name} (h : ∀ q, Map.get m' q = Map.get m q)
    (hN : NSOK G m) : NSOK G m' := by
  refine ⟨?_, ?_, ?_, ?_, ?_, ?_, ?_, ?_⟩
  · intro q v hq; rw [h] at hq; exact hN.shape q v hq
  · intro e i hq; rw [h] at hq; exact hN.man e i hq
  · intro e i hq; rw [h] at hq; exact hN.manTmp e i hq
  · intro e0 hf; obtain ⟨i, hi⟩ := hN.floor e0 hf; exact ⟨i, by rw [h]; exact hi⟩
  · intro id f i hq; rw [h] at hq; exact hN.file id f i hq
  · intro id f i hq; rw [h] at hq; exact hN.fileTmp id f i hq
  · intro ps hps hs hd f hf; rw [h]; exact hN.sealed ps hps hs hd f hf
  · intro ps hps hdur hd
    obtain ⟨h1, h2⟩ := hN.durable ps hps hdur hd
    exact ⟨by rw [h]; exact h1, by rw [h]; exact h2⟩

/-- removing entries of parts nothing depends on, or of a manifest that is not the floor -/
theorem nsok_del {G : Ghost} {m : NS Name} (p : Path) (hN : NSOK G m)
    (hfloor : ∀ e0, G.floor = some e0 → p.isPrefixOf [Name.snp e0] = false)
    (hpart : ∀ ps ∈ G.parts, ps.dying = false → ∀ f, p.isPrefixOf (pfile ps.id f) = false)
    (hdir : ∀ ps ∈ G.parts, ps.dying = false → p.isPrefixOf [Name.part ps.id] = false) :
    NSOK G ((DOp.del p).apply m) := by
  have hsub : ∀ q v, Map.get ((DOp.del p).apply m) q = some v → Map.get m q = some v := by
    intro q v hq
    rw [get_apply_del] at hq
    by_cases hp : p.isPrefixOf q = true
    · simp [hp] at hq
    · simpa [hp] using hq
  refine ⟨?_, ?_, ?_, ?_, ?_, ?_, ?_, ?_⟩
  · intro q v hq; exact hN.shape q v (hsub q v hq)
  · intro e i hq; exact hN.man e i (hsub _ _ hq)
  · intro e i hq; exact hN.manTmp e i (hsub _ _ hq)
  · intro e0 hf
    obtain ⟨i, hi⟩ := hN.floor e0 hf
    exact ⟨i, by rw [get_apply_del, hfloor e0 hf]; simpa using hi⟩
  · intro id f i hq; exact hN.file id f i (hsub _ _ hq)
  · intro id f i hq; exact hN.fileTmp id f i (hsub _ _ hq)
  · intro ps hps hs hd f hf
    rw [get_apply_del, hpart ps hps hd f]; simpa using hN.sealed ps hps hs hd f hf
  · intro ps hps hdur hd
    obtain ⟨h1, h2⟩ := hN.durable ps hps hdur hd
    exact ⟨by rw [get_apply_del, hpart ps hps hd .metadata]; simpa using h1,
      by rw [get_apply_del, hdir ps hps hd]; simpa using h2⟩

theorem pfile_inj {id id' : Nat} {f f' : PFile} (h : pfile id f = pfile id' f') : id = id' ∧ f = f' := by
  simp [pfile] at h; exact h

/-- adding an entry that points to the recorded inode -/
theorem nsok_add {G : Ghost} (hG : GWF G) {m : NS Name} (p : Path) (n : Node) (hN : NSOK G m)
    (hshape : Shape p n)
    (hnotSnp : ∀ e, p ≠ [Name.snp e])
    (hmanTmp : ∀ e i, p = [Name.tmp (.snp e)] → n = .file i → ∃ ms ∈ G.mans, ms.epoch = e ∧ ms.ino = i)
    (hfile : ∀ id f i, p = pfile id f → n = .file i →
      ∃ ps ∈ G.parts, ps.id = id ∧ ps.ino f = i ∧ (f = .metadata → ps.ready = true))
    (hfileTmp : ∀ id f i, p = [Name.part id, .tmp (.pf f)] → n = .file i →
      ∃ ps ∈ G.parts, ps.id = id ∧ ps.ino f = i) :
    NSOK G ((DOp.add p n).apply m) := by
  have hg : ∀ q, Map.get ((DOp.add p n).apply m) q = if q = p then some n else Map.get m q := get_apply_add m p n
  -- what the new entry is, if it is a part file
  have hnew : ∀ ps ∈ G.parts, ∀ f, pfile ps.id f = p → n = .file (ps.ino f) := by
    intro ps hps f hp
    subst hp
    cases hshape with
    | pf _ _ i =>
      obtain ⟨ps', hps', hid', hino, _⟩ := hfile ps.id f i rfl rfl
      have : ps' = ps := eq_of_nodup_map (·.id) G.parts hG.partIds hps' hps hid'
      subst this; rw [hino]
  refine ⟨?_, ?_, ?_, ?_, ?_, ?_, ?_, ?_⟩
  · intro q v hq
    rw [hg] at hq
    by_cases hqp : q = p
    · subst hqp; simp at hq; subst hq; exact hshape
    · simp [hqp] at hq; exact hN.shape q v hq
  · intro e i hq
    rw [hg, if_neg (fun h => hnotSnp e h.symm)] at hq
    exact hN.man e i hq
  · intro e i hq
    rw [hg] at hq
    by_cases hqp : [Name.tmp (.snp e)] = p
    · rw [if_pos hqp] at hq
      exact hmanTmp e i hqp.symm (by simpa using hq)
    · rw [if_neg hqp] at hq; exact hN.manTmp e i hq
  · intro e0 hf
    obtain ⟨i, hi⟩ := hN.floor e0 hf
    exact ⟨i, by rw [hg, if_neg (fun h => hnotSnp e0 h.symm)]; exact hi⟩
  · intro id f i hq
    rw [hg] at hq
    by_cases hqp : pfile id f = p
    · rw [if_pos hqp] at hq
      exact hfile id f i hqp.symm (by simpa using hq)
    · rw [if_neg hqp] at hq; exact hN.file id f i hq
  · intro id f i hq
    rw [hg] at hq
    by_cases hqp : [Name.part id, .tmp (.pf f)] = p
    · rw [if_pos hqp] at hq
      exact hfileTmp id f i hqp.symm (by simpa using hq)
    · rw [if_neg hqp] at hq; exact hN.fileTmp id f i hq
  · intro ps hps hs hd f hf
    rw [hg]
    by_cases hqp : pfile ps.id f = p
    · rw [if_pos hqp, hnew ps hps f hqp]
    · rw [if_neg hqp]; exact hN.sealed ps hps hs hd f hf
  · intro ps hps hdur hd
    obtain ⟨h1, h2⟩ := hN.durable ps hps hdur hd
    refine ⟨?_, ?_⟩
    · rw [hg]
      by_cases hqp : pfile ps.id .metadata = p
      · rw [if_pos hqp, hnew ps hps .metadata hqp]
      · rw [if_neg hqp]; exact h1
    · rw [hg]
      by_cases hqp : [Name.part ps.id] = p
      · rw [if_pos hqp]
        subst hqp
        cases hshape with
        | part _ => rfl
      · rw [if_neg hqp]; exact h2

/-- every allowed operation preserves `NSOK` on every name space -/
theorem nsok_apply {G : Ghost} (hG : GWF G) {o : DOp Name} (ha : Allowed G o)
    {m : NS Name} (hN : NSOK G m) : NSOK G (o.apply m) := by
  cases ha with
  | mkPart id =>
    apply nsok_add hG _ _ hN (Shape.part id)
    · intro e; simp
    · intro e i h; simp at h
    · intro id' f i h; simp [pfile] at h
    · intro id' f i h; simp at h
  | addFile id f ps hps hid hf =>
    apply nsok_add hG _ _ hN (Shape.pf id f _)
    · intro e; simp [pfile]
    · intro e i' h'; simp [pfile] at h'
    · intro id' f' i' h' hi
      obtain ⟨h1, h2⟩ := pfile_inj h'
      subst h1; subst h2; cases hi
      exact ⟨ps, hps, hid, rfl, fun hm => absurd hm hf⟩
    · intro id' f' i' h'; simp [pfile] at h'
  | addTmp id f ps hps hid =>
    apply nsok_add hG _ _ hN (Shape.pfTmp id f _)
    · intro e; simp
    · intro e i' h'; simp at h'
    · intro id' f' i' h'; simp [pfile] at h'
    · intro id' f' i' h' hi
      simp at h'; obtain ⟨h1, h2⟩ := h'; subst h1; subst h2; cases hi
      exact ⟨ps, hps, hid, rfl⟩
  | delPartFile id n ps0 hps0 hid0 h =>
    apply nsok_del _ hN
    · intro e0 _; simp [List.isPrefixOf]
    · intro ps hps hd f
      simp only [pfile, List.isPrefixOf]
      by_cases hid : id = ps.id
      · have : ps = ps0 := eq_of_nodup_map (·.id) G.parts hG.partIds hps hps0 (by rw [hid0, hid])
        subst this; rw [hd] at h; cases h
      · simp [hid]
    · intro ps _ _; simp [List.isPrefixOf]
  | delPart id ps0 hps0 hid0 h =>
    apply nsok_del _ hN
    · intro e0 _; simp [List.isPrefixOf]
    · intro ps hps hd f
      simp only [pfile, List.isPrefixOf]
      by_cases hid : id = ps.id
      · have : ps = ps0 := eq_of_nodup_map (·.id) G.parts hG.partIds hps hps0 (by rw [hid0, hid])
        subst this; rw [hd] at h; cases h
      · simp [hid]
    · intro ps hps hd
      simp only [List.isPrefixOf]
      by_cases hid : id = ps.id
      · have : ps = ps0 := eq_of_nodup_map (·.id) G.parts hG.partIds hps hps0 (by rw [hid0, hid])
        subst this; rw [hd] at h; cases h
      · simp [hid]
  | delSnp e e0 hf hlt =>
    apply nsok_del _ hN
    · intro e0' hf'
      rw [hf] at hf'; cases hf'
      simp only [List.isPrefixOf]
      have : e ≠ e0 := by omega
      simp [this]
    · intro ps _ _ f; simp [pfile, List.isPrefixOf]
    · intro ps _ _; simp [List.isPrefixOf]
  | addSnpTmp ms hms =>
    apply nsok_add hG _ _ hN (Shape.snpTmp _ _)
    · intro e'; simp
    · intro e' i' h' hi
      simp at h'; cases hi
      exact ⟨ms, hms, h', rfl⟩
    · intro id' f i' h'; simp [pfile] at h'
    · intro id' f i' h'; simp at h'
  | renSnp ms hms hr =>
    -- the rename moves whatever is at the tmp name
    cases ha' : Map.get m [.tmp (.snp ms.epoch)] with
    | none =>
      apply nsok_congr _ hN
      intro q; rw [get_apply_ren, ha']
    | some n =>
      have hsh := hN.shape _ n ha'
      cases hsh with
      | snpTmp _ i =>
        obtain ⟨ms', hms', he', hino'⟩ := hN.manTmp _ i ha'
        have hmm : ms' = ms := eq_of_nodup_map (·.epoch) G.mans hG.manEpochs hms' hms he'
        subst hmm
        have hg : ∀ q, Map.get ((DOp.ren [.tmp (.snp ms'.epoch)] [.snp ms'.epoch]).apply m) q =
            if q = [.snp ms'.epoch] then some (.file i)
            else if q = [.tmp (.snp ms'.epoch)] then none else Map.get m q := by
          intro q; rw [get_apply_ren, ha']
        refine ⟨?_, ?_, ?_, ?_, ?_, ?_, ?_, ?_⟩
        · intro q v hq
          rw [hg] at hq
          by_cases h1 : q = [.snp ms'.epoch]
          · subst h1; simp at hq; subst hq; exact Shape.snp _ i
          · by_cases h2 : q = [.tmp (.snp ms'.epoch)]
            · subst h2; simp at hq
            · simp [h1, h2] at hq; exact hN.shape q v hq
        · intro e' i' hq
          rw [hg] at hq
          by_cases h1 : e' = ms'.epoch
          · subst h1; simp at hq; subst hq
            exact ⟨ms', hms', rfl, hino', hr⟩
          · have : [Name.snp e'] ≠ [Name.snp ms'.epoch] := by simp [h1]
            simp [this] at hq; exact hN.man e' i' hq
        · intro e' i' hq
          rw [hg] at hq
          by_cases h1 : e' = ms'.epoch
          · subst h1; simp at hq
          · have : [Name.tmp (Name.snp e')] ≠ [Name.tmp (Name.snp ms'.epoch)] := by simp [h1]
            simp [this] at hq; exact hN.manTmp e' i' hq
        · intro e0 hf
          by_cases h1 : e0 = ms'.epoch
          · subst h1; exact ⟨i, by rw [hg]; simp⟩
          · obtain ⟨i0, hi0⟩ := hN.floor e0 hf
            have : [Name.snp e0] ≠ [Name.snp ms'.epoch] := by simp [h1]
            exact ⟨i0, by rw [hg]; simp [this]; exact hi0⟩
        · intro id f i' hq
          rw [hg] at hq; simp [pfile] at hq; exact hN.file id f i' (by simpa [pfile] using hq)
        · intro id f i' hq
          rw [hg] at hq; simp at hq; exact hN.fileTmp id f i' hq
        · intro ps hps hs hd f hf
          rw [hg]; simp [pfile]; simpa [pfile] using hN.sealed ps hps hs hd f hf
        · intro ps hps hdur hd
          obtain ⟨h1, h2⟩ := hN.durable ps hps hdur hd
          exact ⟨by rw [hg]; simp [pfile]; simpa [pfile] using h1, by rw [hg]; simp; exact h2⟩
  | renFile id f ps hps hid hr =>
    cases ha' : Map.get m [.part id, .tmp (.pf f)] with
    | none =>
      apply nsok_congr _ hN
      intro q; rw [get_apply_ren, ha']
    | some n =>
      have hsh := hN.shape _ n ha'
      cases hsh with
      | pfTmp _ _ i =>
        obtain ⟨ps', hps', hid', hino'⟩ := hN.fileTmp id f i ha'
        have hpp : ps' = ps := eq_of_nodup_map (·.id) G.parts hG.partIds hps' hps (by rw [hid', hid])
        subst hpp
        have hg : ∀ q, Map.get ((DOp.ren [.part id, .tmp (.pf f)] (pfile id f)).apply m) q =
            if q = pfile id f then some (.file i)
            else if q = [.part id, .tmp (.pf f)] then none else Map.get m q := by
          intro q; rw [get_apply_ren, ha']
        refine ⟨?_, ?_, ?_, ?_, ?_, ?_, ?_, ?_⟩
        · intro q v hq
          rw [hg] at hq
          by_cases h1 : q = pfile id f
          · subst h1; simp at hq; subst hq; exact Shape.pf id f i
          · by_cases h2 : q = [.part id, .tmp (.pf f)]
            · subst h2; simp [pfile] at hq
            · simp [h1, h2] at hq; exact hN.shape q v hq
        · intro e' i' hq; rw [hg] at hq; simp [pfile] at hq; exact hN.man e' i' hq
        · intro e' i' hq; rw [hg] at hq; simp [pfile] at hq; exact hN.manTmp e' i' hq
        · intro e0 hf0
          obtain ⟨i0, hi0⟩ := hN.floor e0 hf0
          exact ⟨i0, by rw [hg]; simp [pfile]; exact hi0⟩
        · intro id' f' i' hq
          rw [hg] at hq
          by_cases h1 : pfile id' f' = pfile id f
          · obtain ⟨h1a, h1b⟩ := pfile_inj h1
            subst h1a; subst h1b
            simp at hq; subst hq
            exact ⟨ps', hps', hid', hino', hr⟩
          · have h2 : pfile id' f' ≠ [.part id, .tmp (.pf f)] := by simp [pfile]
            simp [h1, h2] at hq; exact hN.file id' f' i' hq
        · intro id' f' i' hq
          rw [hg] at hq
          have h1 : [Name.part id', Name.tmp (.pf f')] ≠ pfile id f := by simp [pfile]
          by_cases h2 : [Name.part id', Name.tmp (.pf f')] = [.part id, .tmp (.pf f)]
          · rw [if_neg h1, if_pos h2] at hq; cases hq
          · simp [h1, h2] at hq; exact hN.fileTmp id' f' i' hq
        · intro ps0 hps0 hs hd f' hf'
          rw [hg]
          by_cases h1 : pfile ps0.id f' = pfile id f
          · obtain ⟨h1a, h1b⟩ := pfile_inj h1
            have : ps0 = ps' := eq_of_nodup_map (·.id) G.parts hG.partIds hps0 hps' (by rw [h1a, hid'])
            subst this; subst h1b
            simp [h1, hino']
          · have h2 : pfile ps0.id f' ≠ [.part id, .tmp (.pf f)] := by simp [pfile]
            simp [h1, h2]; exact hN.sealed ps0 hps0 hs hd f' hf'
        · intro ps0 hps0 hdur hd
          obtain ⟨hm1, hm2⟩ := hN.durable ps0 hps0 hdur hd
          refine ⟨?_, by rw [hg]; simp [pfile]; exact hm2⟩
          rw [hg]
          by_cases h1 : pfile ps0.id .metadata = pfile id f
          · obtain ⟨h1a, h1b⟩ := pfile_inj h1
            have : ps0 = ps' := eq_of_nodup_map (·.id) G.parts hG.partIds hps0 hps' (by rw [h1a, hid'])
            subst this; subst h1b
            simp [h1, hino']
          · have h2 : pfile ps0.id .metadata ≠ [.part id, .tmp (.pf f)] := by simp [pfile]
            simp [h1, h2]; exact hm1

end Banyan.C04
