/-
C04 — the protocol invariant, part 3: the state invariant `Inv`, its preservation by each kind of system call,
and what it says about every crash outcome (kill -9 and power loss).
-/
import Banyan.Lemmas.C04Inv2

namespace Banyan.C04
open Banyan.FS

/-! ### contents are never empty -/

theorem encList_ne_nil (xs : List Nat) : encList xs ≠ [] := by simp [encList]

theorem fileContent_ne_nil (f : PFile) (bs : List Nat) : fileContent f bs ≠ [] := by
  cases f <;> simp [fileContent, dataContent, encList, tagTypeContent]

theorem gstable_mono {G : Ghost} {s s' : St}
    (h : ∀ j c, c ≠ [] → Stable s j c → Stable s' j c) (hS : GStable G s) : GStable G s' :=
  ⟨fun ps hps hr f => h _ _ (fileContent_ne_nil _ _) (hS.part ps hps hr f),
   fun ms hms hr => h _ _ (encList_ne_nil _) (hS.man ms hms hr)⟩

/-! ### the state invariant -/

structure Inv (G : Ghost) (s : St) : Prop where
  gwf : GWF G
  dur : NSOK G s.dur
  vol : NSOK G s.vol
  pend : ∀ o ∈ s.pend, Allowed G o
  stable : GStable G s
  dataPrefix : ∀ i, s.ddataOf i <+: s.vdataOf i
  dataFresh : ∀ i, s.next ≤ i → s.vdataOf i = [] ∧ s.ddataOf i = []

theorem nsok_nil (G : Ghost) (hf : G.floor = none) (hp : ∀ ps ∈ G.parts, ps.ready = false ∧ ps.durable = false) :
    NSOK G ([] : NS Name) := by
  refine ⟨?_, ?_, ?_, ?_, ?_, ?_, ?_, ?_⟩
  · intro q v h; simp at h
  · intro e i h; simp at h
  · intro e i h; simp at h
  · intro e0 h; rw [hf] at h; cases h
  · intro id f i h; simp at h
  · intro id f i h; simp at h
  · intro ps hps hr; rw [(hp ps hps).1] at hr; cases hr
  · intro ps hps hr; rw [(hp ps hps).2] at hr; cases hr

theorem inv_init : Inv {} ({} : St) := by
  refine ⟨⟨by simp, by simp, ?_, ?_⟩, nsok_nil _ rfl (by intro ps h; simp at h),
    nsok_nil _ rfl (by intro ps h; simp at h), ?_, ⟨?_, ?_⟩, ?_, ?_⟩
  · intro ms hms; simp at hms
  · intro e0 h; simp at h
  · intro o ho; simp at ho
  · intro ps hps; simp at hps
  · intro ms hms; simp at hms
  · intro i; simp [St.ddataOf, St.vdataOf]
  · intro i _; simp [St.ddataOf, St.vdataOf]

/-- a directory operation that is `Allowed` -/
theorem inv_dirop {G : Ghost} {s : St} (h : Inv G s) {o : DOp Name} (ha : Allowed G o) :
    Inv G (s.dirop o) := by
  refine ⟨h.gwf, h.dur, nsok_apply h.gwf ha h.vol, ?_, ⟨h.stable.part, h.stable.man⟩, h.dataPrefix, h.dataFresh⟩
  intro o' ho'
  simp only [St.dirop, List.mem_append, List.mem_singleton] at ho'
  rcases ho' with ho' | rfl
  · exact h.pend o' ho'
  · exact ha

theorem vdataOf_set (s : St) (i j : Nat) (c : Content) :
    ({ s with vdata := Map.set s.vdata i c } : St).vdataOf j = if j = i then c else s.vdataOf j := by
  simp only [St.vdataOf, Map.get_set]
  by_cases h : j = i <;> simp [h]

theorem ddataOf_set (s : St) (i j : Nat) (c : Content) :
    ({ s with ddata := Map.set s.ddata i c } : St).ddataOf j = if j = i then c else s.ddataOf j := by
  simp only [St.ddataOf, Map.get_set]
  by_cases h : j = i <;> simp [h]

/-- `openat(O_CREAT|O_TRUNC)` of a new name: a fresh inode, nobody's data changes -/
theorem inv_create {G : Ghost} {s : St} (h : Inv G s) (p : Path)
    (ha : Allowed G (.add p (.file s.next))) :
    Inv G (exec s (.create p)) ∧ (∀ j, (exec s (.create p)).vdataOf j = s.vdataOf j) ∧
      (∀ j, (exec s (.create p)).ddataOf j = s.ddataOf j) := by
  have hv : ∀ j, (exec s (.create p)).vdataOf j = s.vdataOf j := by
    intro j
    show (Map.get (Map.set s.vdata s.next []) j).getD [] = _
    rw [Map.get_set]
    by_cases hj : j = s.next
    · subst hj; simp [(h.dataFresh s.next (Nat.le_refl _)).1]
    · simp [hj, St.vdataOf]
  have hd : ∀ j, (exec s (.create p)).ddataOf j = s.ddataOf j := by
    intro j
    show (Map.get (Map.set s.ddata s.next []) j).getD [] = _
    rw [Map.get_set]
    by_cases hj : j = s.next
    · subst hj; simp [(h.dataFresh s.next (Nat.le_refl _)).2]
    · simp [hj, St.ddataOf]
  have hst : ∀ j c, Stable s j c → Stable (exec s (.create p)) j c := by
    intro j c hs; exact ⟨by rw [hd]; exact hs.1, by rw [hv]; exact hs.2⟩
  refine ⟨⟨h.gwf, h.dur, nsok_apply h.gwf ha h.vol, ?_, gstable_mono (fun j c _ => hst j c) h.stable, ?_, ?_⟩, hv, hd⟩
  · intro o' ho'
    have : o' ∈ s.pend ++ [DOp.add p (.file s.next)] := ho'
    simp only [List.mem_append, List.mem_singleton] at this
    rcases this with ho' | rfl
    · exact h.pend o' ho'
    · exact ha
  · intro i; rw [hv, hd]; exact h.dataPrefix i
  · intro i hi
    have hi' : s.next ≤ i := by
      have : (exec s (.create p)).next = s.next + 1 := rfl
      omega
    rw [hv, hd]; exact h.dataFresh i hi'

/-- the first `write` to a file that is still empty -/
theorem inv_write {G : Ghost} {s : St} (h : Inv G s) (p : Path) (c : Content) (i : Nat)
    (hp : Map.get s.vol p = some (.file i)) (hempty : s.vdataOf i = []) (hlt : i < s.next) :
    Inv G (exec s (.write p c)) ∧ (exec s (.write p c)).vdataOf i = c ∧
      (∀ j c', c' ≠ [] → Stable s j c' → Stable (exec s (.write p c)) j c') := by
  have he : exec s (.write p c) = { s with vdata := Map.set s.vdata i (s.vdataOf i ++ c) } := by
    simp [exec, hp]
  rw [he]
  have hv : ∀ j, ({ s with vdata := Map.set s.vdata i (s.vdataOf i ++ c) } : St).vdataOf j =
      if j = i then c else s.vdataOf j := by
    intro j; rw [vdataOf_set, hempty]; simp
  have hst : ∀ j c', c' ≠ [] → Stable s j c' →
      Stable ({ s with vdata := Map.set s.vdata i (s.vdataOf i ++ c) } : St) j c' := by
    intro j c' hne hs
    by_cases hj : j = i
    · subst hj; exfalso; apply hne; rw [← hs.2, hempty]
    · exact ⟨hs.1, by rw [hv]; simp [hj]; exact hs.2⟩
  refine ⟨⟨h.gwf, h.dur, h.vol, h.pend, gstable_mono hst h.stable, ?_, ?_⟩, by rw [hv]; simp, hst⟩
  · intro j
    rw [hv]
    by_cases hj : j = i
    · subst hj
      have := h.dataPrefix j
      rw [hempty] at this
      have : s.ddataOf j = [] := List.eq_nil_of_prefix_nil this
      simp only [if_true]
      show s.ddataOf j <+: c
      rw [this]; exact List.nil_prefix
    · simp [hj]; exact h.dataPrefix j
  · intro j hj
    have hj' : s.next ≤ j := hj
    have hji : j ≠ i := by omega
    rw [hv]; simp [hji]; exact h.dataFresh j hj'

/-- `fsync` of a regular file -/
theorem inv_fsync {G : Ghost} {s : St} (h : Inv G s) (p : Path) (i : Nat)
    (hp : Map.get s.vol p = some (.file i)) (hlt : i < s.next) :
    Inv G (exec s (.fsync p)) ∧ Stable (exec s (.fsync p)) i (s.vdataOf i) ∧
      (∀ j c, Stable s j c → Stable (exec s (.fsync p)) j c) := by
  have he : exec s (.fsync p) = { s with ddata := Map.set s.ddata i (s.vdataOf i) } := by
    simp [exec, hp]
  rw [he]
  have hd : ∀ j, ({ s with ddata := Map.set s.ddata i (s.vdataOf i) } : St).ddataOf j =
      if j = i then s.vdataOf i else s.ddataOf j := fun j => ddataOf_set s i j _
  have hst : ∀ j c', Stable s j c' → Stable ({ s with ddata := Map.set s.ddata i (s.vdataOf i) } : St) j c' := by
    intro j c' hs
    by_cases hj : j = i
    · subst hj; exact ⟨by rw [hd]; simp; exact hs.2, hs.2⟩
    · exact ⟨by rw [hd]; simp [hj]; exact hs.1, hs.2⟩
  refine ⟨⟨h.gwf, h.dur, h.vol, h.pend, gstable_mono (fun j c _ => hst j c) h.stable, ?_, ?_⟩,
    ⟨by rw [hd]; simp, rfl⟩, hst⟩
  · intro j
    rw [hd]
    by_cases hj : j = i
    · subst hj; simp; exact List.prefix_refl _
    · simp [hj]; exact h.dataPrefix j
  · intro j hj
    have hj' : s.next ≤ j := hj
    have hji : j ≠ i := by omega
    rw [hd]; simp [hji]; exact h.dataFresh j hj'

theorem inv_close {G : Ghost} {s : St} (h : Inv G s) (p : Path) : Inv G (exec s (.close p)) := h

/-- `fsync` of a directory: any directory, at any time -/
theorem inv_fsyncdir {G : Ghost} {s : St} (h : Inv G s) (d : Path) : Inv G (exec s (.fsyncdir d)) := by
  refine ⟨h.gwf, ?_, h.vol, ?_, ⟨h.stable.part, h.stable.man⟩, h.dataPrefix, h.dataFresh⟩
  · show NSOK G (applyOps (s.pend.filter (fun o => decide (o.dir = d))) s.dur)
    exact applyOps_inv (NSOK G) s.pend (fun o ho m hm => nsok_apply h.gwf (h.pend o ho) hm) _
      (List.filter_sublist) _ h.dur
  · intro o ho
    have : o ∈ s.pend.filter (fun o => !decide (o.dir = d)) := ho
    exact h.pend o (List.mem_filter.1 this).1

/-! ### what the invariant says about crashes -/

/-- every power-loss outcome is the resolution of a name space satisfying `NSOK` -/
theorem inv_crashPower {G : Ghost} {s : St} (h : Inv G s) (t : Tree) (hc : crashPower s t) :
    ∃ m data, t = resolve m data ∧ NSOK G m ∧ DataOK s data := by
  obtain ⟨sub, data, hsub, hdata, rfl⟩ := hc
  exact ⟨_, data, rfl,
    applyOps_inv (NSOK G) s.pend (fun o ho m hm => nsok_apply h.gwf (h.pend o ho) hm) sub hsub _ h.dur, hdata⟩

/-- so is the `kill -9` outcome -/
theorem inv_crashKill {G : Ghost} {s : St} (h : Inv G s) :
    ∃ m data, crashKill s = resolve m data ∧ NSOK G m ∧ DataOK s data :=
  ⟨s.vol, s.vdataOf, rfl, h.vol, fun i => ⟨h.dataPrefix i, List.prefix_refl _⟩⟩

end Banyan.C04
