/-
C04 — the protocol invariant, part 4: ghost transitions.  The ghost state is updated between system calls
(a part becomes `ready`, `durable`, `dying`; a manifest is registered, becomes `ready`, becomes the floor);
each update needs facts about the *durable and volatile* name spaces only — that they then hold in every
crash name space follows from closure (`nsok_apply`).
-/
import Banyan.Lemmas.C04Inv3

namespace Banyan.C04
open Banyan.FS

/-- `G'` knows at least what `G` knows -/
structure Refines (G G' : Ghost) : Prop where
  part : ∀ ps ∈ G.parts, ∃ ps' ∈ G'.parts, ps'.id = ps.id ∧ ps'.ino = ps.ino ∧ ps'.bat = ps.bat ∧
    (ps.ready = true → ps'.ready = true) ∧ (ps.dying = true → ps'.dying = true)
  man : ∀ ms ∈ G.mans, ∃ ms' ∈ G'.mans, ms'.epoch = ms.epoch ∧ ms'.ino = ms.ino ∧ ms'.ids = ms.ids ∧
    (ms.ready = true → ms'.ready = true)
  floor : ∀ e0, G.floor = some e0 → ∃ e0', G'.floor = some e0' ∧ e0 ≤ e0'

theorem allowed_refine {G G' : Ghost} (hR : Refines G G') {o : DOp Name} (ha : Allowed G o) : Allowed G' o := by
  cases ha with
  | mkPart id => exact .mkPart id
  | addFile id f ps hps hid hf =>
    obtain ⟨ps', hps', hid', hino, _, _, _⟩ := hR.part ps hps
    rw [← hino]; exact .addFile id f ps' hps' (by rw [hid', hid]) hf
  | addTmp id f ps hps hid =>
    obtain ⟨ps', hps', hid', hino, _, _, _⟩ := hR.part ps hps
    rw [← hino]; exact .addTmp id f ps' hps' (by rw [hid', hid])
  | renFile id f ps hps hid hr =>
    obtain ⟨ps', hps', hid', _, _, hrr, _⟩ := hR.part ps hps
    exact .renFile id f ps' hps' (by rw [hid', hid]) (fun hf => hrr (hr hf))
  | delPartFile id n ps hps hid h =>
    obtain ⟨ps', hps', hid', _, _, _, hdd⟩ := hR.part ps hps
    exact .delPartFile id n ps' hps' (by rw [hid', hid]) (hdd h)
  | delPart id ps hps hid h =>
    obtain ⟨ps', hps', hid', _, _, _, hdd⟩ := hR.part ps hps
    exact .delPart id ps' hps' (by rw [hid', hid]) (hdd h)
  | delSnp e e0 hf hlt =>
    obtain ⟨e0', hf', hle⟩ := hR.floor e0 hf
    exact .delSnp e e0' hf' (by omega)
  | addSnpTmp ms hms =>
    obtain ⟨ms', hms', he, hino, _, _⟩ := hR.man ms hms
    rw [← he, ← hino]; exact .addSnpTmp ms' hms'
  | renSnp ms hms hr =>
    obtain ⟨ms', hms', he, _, _, hrr⟩ := hR.man ms hms
    rw [← he]; exact .renSnp ms' hms' (hrr hr)

/-- a name space good for `G` is good for a refinement `G'`, provided the presence clauses of `G'` hold -/
theorem nsok_refine {G G' : Ghost} (hR : Refines G G') {m : NS Name} (hN : NSOK G m)
    (hfloor : ∀ e0, G'.floor = some e0 → ∃ i, Map.get m [.snp e0] = some (.file i))
    (hsealed : ∀ ps ∈ G'.parts, ps.ready = true → ps.dying = false → ∀ f, f ≠ .metadata →
      Map.get m (pfile ps.id f) = some (.file (ps.ino f)))
    (hdurable : ∀ ps ∈ G'.parts, ps.durable = true → ps.dying = false →
      Map.get m (pfile ps.id .metadata) = some (.file (ps.ino .metadata)) ∧ Map.get m [.part ps.id] = some .dir) :
    NSOK G' m := by
  refine ⟨hN.shape, ?_, ?_, hfloor, ?_, ?_, hsealed, hdurable⟩
  · intro e i hq
    obtain ⟨ms, hms, he, hino, hr⟩ := hN.man e i hq
    obtain ⟨ms', hms', he', hino', _, hrr⟩ := hR.man ms hms
    exact ⟨ms', hms', by rw [he', he], by rw [hino', hino], hrr hr⟩
  · intro e i hq
    obtain ⟨ms, hms, he, hino⟩ := hN.manTmp e i hq
    obtain ⟨ms', hms', he', hino', _, _⟩ := hR.man ms hms
    exact ⟨ms', hms', by rw [he', he], by rw [hino', hino]⟩
  · intro id f i hq
    obtain ⟨ps, hps, hid, hino, hr⟩ := hN.file id f i hq
    obtain ⟨ps', hps', hid', hino', _, hrr, _⟩ := hR.part ps hps
    exact ⟨ps', hps', by rw [hid', hid], by rw [hino', hino], fun hf => hrr (hr hf)⟩
  · intro id f i hq
    obtain ⟨ps, hps, hid, hino⟩ := hN.fileTmp id f i hq
    obtain ⟨ps', hps', hid', hino', _, _, _⟩ := hR.part ps hps
    exact ⟨ps', hps', by rw [hid', hid], by rw [hino', hino]⟩

/-! ### updating one part / one manifest -/

def Ghost.updPart (G : Ghost) (id : Nat) (φ : PartS → PartS) : Ghost :=
  { G with parts := G.parts.map (fun ps => if ps.id = id then φ ps else ps) }

def Ghost.updMan (G : Ghost) (e : Nat) (ψ : ManS → ManS) : Ghost :=
  { G with mans := G.mans.map (fun ms => if ms.epoch = e then ψ ms else ms) }

theorem mem_updPart {G : Ghost} {id : Nat} {φ : PartS → PartS} {ps' : PartS} :
    ps' ∈ (G.updPart id φ).parts ↔ ∃ ps ∈ G.parts, ps' = if ps.id = id then φ ps else ps := by
  simp only [Ghost.updPart, List.mem_map]
  constructor
  · rintro ⟨ps, hps, rfl⟩; exact ⟨ps, hps, rfl⟩
  · rintro ⟨ps, hps, rfl⟩; exact ⟨ps, hps, rfl⟩

theorem mem_updMan {G : Ghost} {e : Nat} {ψ : ManS → ManS} {ms' : ManS} :
    ms' ∈ (G.updMan e ψ).mans ↔ ∃ ms ∈ G.mans, ms' = if ms.epoch = e then ψ ms else ms := by
  simp only [Ghost.updMan, List.mem_map]
  constructor
  · rintro ⟨ms, hms, rfl⟩; exact ⟨ms, hms, rfl⟩
  · rintro ⟨ms, hms, rfl⟩; exact ⟨ms, hms, rfl⟩

theorem updPart_ids {G : Ghost} {id : Nat} {φ : PartS → PartS} (hφ : ∀ ps, (φ ps).id = ps.id) :
    (G.updPart id φ).parts.map (·.id) = G.parts.map (·.id) := by
  simp only [Ghost.updPart, List.map_map]
  apply List.map_congr_left
  intro ps _
  by_cases h : ps.id = id <;> simp [h, hφ]

theorem updMan_epochs {G : Ghost} {e : Nat} {ψ : ManS → ManS} (hψ : ∀ ms, (ψ ms).epoch = ms.epoch) :
    (G.updMan e ψ).mans.map (·.epoch) = G.mans.map (·.epoch) := by
  simp only [Ghost.updMan, List.map_map]
  apply List.map_congr_left
  intro ms _
  by_cases h : ms.epoch = e <;> simp [h, hψ]

/-- an update of one part that only raises flags refines -/
theorem refines_updPart {G : Ghost} (id : Nat) (φ : PartS → PartS)
    (hφ : ∀ ps, (φ ps).id = ps.id ∧ (φ ps).ino = ps.ino ∧ (φ ps).bat = ps.bat ∧
      (ps.ready = true → (φ ps).ready = true) ∧ (ps.dying = true → (φ ps).dying = true)) :
    Refines G (G.updPart id φ) := by
  refine ⟨?_, ?_, ?_⟩
  · intro ps hps
    refine ⟨if ps.id = id then φ ps else ps, mem_updPart.2 ⟨ps, hps, rfl⟩, ?_⟩
    by_cases h : ps.id = id
    · simp only [h, if_true]
      obtain ⟨h1, h2, h3, h4, h5⟩ := hφ ps
      rw [h] at h1
      exact ⟨h1, h2, h3, h4, h5⟩
    · simp [h]
  · intro ms hms; exact ⟨ms, hms, rfl, rfl, rfl, fun hh => hh⟩
  · intro e0 hf; exact ⟨e0, hf, Nat.le_refl _⟩

theorem refines_updMan {G : Ghost} (e : Nat) (ψ : ManS → ManS)
    (hψ : ∀ ms, (ψ ms).epoch = ms.epoch ∧ (ψ ms).ino = ms.ino ∧ (ψ ms).ids = ms.ids ∧
      (ms.ready = true → (ψ ms).ready = true)) :
    Refines G (G.updMan e ψ) := by
  refine ⟨?_, ?_, ?_⟩
  · intro ps hps; exact ⟨ps, hps, rfl, rfl, rfl, id, id⟩
  · intro ms hms
    refine ⟨if ms.epoch = e then ψ ms else ms, mem_updMan.2 ⟨ms, hms, rfl⟩, ?_⟩
    by_cases h : ms.epoch = e
    · simp only [h, if_true]
      obtain ⟨h1, h2, h3, h4⟩ := hψ ms
      rw [h] at h1
      exact ⟨h1, h2, h3, h4⟩
    · simp [h]
  · intro e0 hf; exact ⟨e0, hf, Nat.le_refl _⟩

/-! ### the transitions -/

/-- register a new part (flags off) -/
theorem inv_addPart {G : Ghost} {s : St} (h : Inv G s) (ps0 : PartS)
    (hfresh : ps0.id ∉ G.parts.map (·.id)) (hr : ps0.ready = false) (hd : ps0.durable = false)
    (hdy : ps0.dying = false) :
    Inv { G with parts := G.parts ++ [ps0] } s := by
  have hR : Refines G { G with parts := G.parts ++ [ps0] } := by
    refine ⟨?_, ?_, ?_⟩
    · intro ps hps; exact ⟨ps, List.mem_append_left _ hps, rfl, rfl, rfl, id, id⟩
    · intro ms hms; exact ⟨ms, hms, rfl, rfl, rfl, id⟩
    · intro e0 hf; exact ⟨e0, hf, Nat.le_refl _⟩
  have hmem : ∀ ps, ps ∈ G.parts ++ [ps0] → ps ∈ G.parts ∨ ps = ps0 := by
    intro ps hps; simpa using hps
  have hN : ∀ m, NSOK G m → NSOK { G with parts := G.parts ++ [ps0] } m := by
    intro m hm
    apply nsok_refine hR hm hm.floor
    · intro ps hps hrr hdd f hf
      rcases hmem ps hps with hps | rfl
      · exact hm.sealed ps hps hrr hdd f hf
      · rw [hr] at hrr; cases hrr
    · intro ps hps hdu hdd
      rcases hmem ps hps with hps | rfl
      · exact hm.durable ps hps hdu hdd
      · rw [hd] at hdu; cases hdu
  refine ⟨⟨?_, h.gwf.manEpochs, ?_, h.gwf.floorKnown⟩, hN _ h.dur, hN _ h.vol,
    fun o ho => allowed_refine hR (h.pend o ho), ⟨?_, h.stable.man⟩, h.dataPrefix, h.dataFresh⟩
  · show ((G.parts ++ [ps0]).map (·.id)).Nodup
    rw [List.map_append, List.nodup_append]
    refine ⟨h.gwf.partIds, by simp, ?_⟩
    intro a ha b hb
    simp at hb; subst hb
    intro hab; subst hab; exact hfresh ha
  · intro ms hms habove id hid ps hps hpid
    rcases hmem ps hps with hps | rfl
    · exact h.gwf.protected_ ms hms habove id hid ps hps hpid
    · exact hdy
  · intro ps hps hrr f
    rcases hmem ps hps with hps | rfl
    · exact h.stable.part ps hps hrr f
    · rw [hr] at hrr; cases hrr

/-- a part becomes `ready`: its seven files are in the durable and the volatile name space and all eight
    inodes are durable -/
theorem inv_setReady {G : Ghost} {s : St} (h : Inv G s) (ps : PartS) (hps : ps ∈ G.parts)
    (hdur : ∀ f, f ≠ .metadata → Map.get s.dur (pfile ps.id f) = some (.file (ps.ino f)))
    (hvol : ∀ f, f ≠ .metadata → Map.get s.vol (pfile ps.id f) = some (.file (ps.ino f)))
    (hst : ∀ f, Stable s (ps.ino f) (fileContent f ps.bat)) :
    Inv (G.updPart ps.id (fun p => { p with ready := true })) s := by
  have hφ : ∀ p : PartS, ({ p with ready := true } : PartS).id = p.id := fun _ => rfl
  have hR : Refines G (G.updPart ps.id (fun p => { p with ready := true })) :=
    refines_updPart ps.id _ (fun p => ⟨rfl, rfl, rfl, fun _ => rfl, id⟩)
  -- the parts of the new ghost
  have hcase : ∀ p' ∈ (G.updPart ps.id (fun p => { p with ready := true })).parts,
      (p' ∈ G.parts ∧ p'.id ≠ ps.id) ∨ p' = { ps with ready := true } := by
    intro p' hp'
    obtain ⟨p, hp, rfl⟩ := mem_updPart.1 hp'
    by_cases hid : p.id = ps.id
    · right
      have : p = ps := eq_of_nodup_map (·.id) G.parts h.gwf.partIds hp hps hid
      subst this; simp
    · left; simp [hid, hp]
  have hN : ∀ m, NSOK G m →
      (∀ f, f ≠ .metadata → Map.get m (pfile ps.id f) = some (.file (ps.ino f))) →
      NSOK (G.updPart ps.id (fun p => { p with ready := true })) m := by
    intro m hm hpres
    apply nsok_refine hR hm hm.floor
    · intro p' hp' hrr hdd f hf
      rcases hcase p' hp' with ⟨hp, _⟩ | rfl
      · exact hm.sealed p' hp hrr hdd f hf
      · exact hpres f hf
    · intro p' hp' hdu hdd
      rcases hcase p' hp' with ⟨hp, _⟩ | rfl
      · exact hm.durable p' hp hdu hdd
      · exact hm.durable ps hps hdu hdd
  refine ⟨⟨?_, h.gwf.manEpochs, ?_, h.gwf.floorKnown⟩, hN _ h.dur hdur, hN _ h.vol hvol,
    fun o ho => allowed_refine hR (h.pend o ho), ⟨?_, h.stable.man⟩, h.dataPrefix, h.dataFresh⟩
  · rw [updPart_ids hφ]; exact h.gwf.partIds
  · intro ms hms habove id hid p' hp' hpid
    rcases hcase p' hp' with ⟨hp, _⟩ | rfl
    · exact h.gwf.protected_ ms hms habove id hid p' hp hpid
    · exact h.gwf.protected_ ms hms habove id hid ps hps hpid
  · intro p' hp' hrr f
    rcases hcase p' hp' with ⟨hp, _⟩ | rfl
    · exact h.stable.part p' hp hrr f
    · exact hst f

/-- a part becomes `durable`: `metadata.json` and the part directory are in the durable and the volatile
    name space -/
theorem inv_setDurable {G : Ghost} {s : St} (h : Inv G s) (ps : PartS) (hps : ps ∈ G.parts)
    (hdur : Map.get s.dur (pfile ps.id .metadata) = some (.file (ps.ino .metadata)) ∧
      Map.get s.dur [.part ps.id] = some .dir)
    (hvol : Map.get s.vol (pfile ps.id .metadata) = some (.file (ps.ino .metadata)) ∧
      Map.get s.vol [.part ps.id] = some .dir) :
    Inv (G.updPart ps.id (fun p => { p with durable := true })) s := by
  have hφ : ∀ p : PartS, ({ p with durable := true } : PartS).id = p.id := fun _ => rfl
  have hR : Refines G (G.updPart ps.id (fun p => { p with durable := true })) :=
    refines_updPart ps.id _ (fun p => ⟨rfl, rfl, rfl, id, id⟩)
  have hcase : ∀ p' ∈ (G.updPart ps.id (fun p => { p with durable := true })).parts,
      (p' ∈ G.parts ∧ p'.id ≠ ps.id) ∨ p' = { ps with durable := true } := by
    intro p' hp'
    obtain ⟨p, hp, rfl⟩ := mem_updPart.1 hp'
    by_cases hid : p.id = ps.id
    · right
      have : p = ps := eq_of_nodup_map (·.id) G.parts h.gwf.partIds hp hps hid
      subst this; simp
    · left; simp [hid, hp]
  have hN : ∀ m, NSOK G m →
      (Map.get m (pfile ps.id .metadata) = some (.file (ps.ino .metadata)) ∧ Map.get m [.part ps.id] = some .dir) →
      NSOK (G.updPart ps.id (fun p => { p with durable := true })) m := by
    intro m hm hpres
    apply nsok_refine hR hm hm.floor
    · intro p' hp' hrr hdd f hf
      rcases hcase p' hp' with ⟨hp, _⟩ | rfl
      · exact hm.sealed p' hp hrr hdd f hf
      · exact hm.sealed ps hps hrr hdd f hf
    · intro p' hp' hdu hdd
      rcases hcase p' hp' with ⟨hp, _⟩ | rfl
      · exact hm.durable p' hp hdu hdd
      · exact hpres
  refine ⟨⟨?_, h.gwf.manEpochs, ?_, h.gwf.floorKnown⟩, hN _ h.dur hdur, hN _ h.vol hvol,
    fun o ho => allowed_refine hR (h.pend o ho), ⟨?_, h.stable.man⟩, h.dataPrefix, h.dataFresh⟩
  · rw [updPart_ids hφ]; exact h.gwf.partIds
  · intro ms hms habove id hid p' hp' hpid
    rcases hcase p' hp' with ⟨hp, _⟩ | rfl
    · exact h.gwf.protected_ ms hms habove id hid p' hp hpid
    · exact h.gwf.protected_ ms hms habove id hid ps hps hpid
  · intro p' hp' hrr f
    rcases hcase p' hp' with ⟨hp, _⟩ | rfl
    · exact h.stable.part p' hp hrr f
    · exact h.stable.part ps hps hrr f

/-- a part becomes `dying`: no manifest at or above the floor lists it -/
theorem inv_setDying {G : Ghost} {s : St} (h : Inv G s) (id : Nat)
    (hfree : ∀ ms ∈ G.mans, G.aboveFloor ms.epoch → id ∉ ms.ids) :
    Inv (G.updPart id (fun p => { p with dying := true })) s := by
  have hφ : ∀ p : PartS, ({ p with dying := true } : PartS).id = p.id := fun _ => rfl
  have hR : Refines G (G.updPart id (fun p => { p with dying := true })) :=
    refines_updPart id _ (fun p => ⟨rfl, rfl, rfl, fun hh => hh, fun _ => rfl⟩)
  have hcase : ∀ p' ∈ (G.updPart id (fun p => { p with dying := true })).parts,
      (p' ∈ G.parts ∧ p'.id ≠ id) ∨ (p'.dying = true ∧ p'.id = id ∧
        ∃ p ∈ G.parts, p' = { p with dying := true }) := by
    intro p' hp'
    obtain ⟨p, hp, rfl⟩ := mem_updPart.1 hp'
    by_cases hid : p.id = id
    · right
      rw [if_pos hid]
      exact ⟨rfl, hid, p, hp, rfl⟩
    · left; simp [hid, hp]
  have hN : ∀ m, NSOK G m → NSOK (G.updPart id (fun p => { p with dying := true })) m := by
    intro m hm
    apply nsok_refine hR hm hm.floor
    · intro p' hp' hrr hdd f hf
      rcases hcase p' hp' with ⟨hp, _⟩ | ⟨hdy, _⟩
      · exact hm.sealed p' hp hrr hdd f hf
      · rw [hdy] at hdd; cases hdd
    · intro p' hp' hdu hdd
      rcases hcase p' hp' with ⟨hp, _⟩ | ⟨hdy, _⟩
      · exact hm.durable p' hp hdu hdd
      · rw [hdy] at hdd; cases hdd
  refine ⟨⟨?_, h.gwf.manEpochs, ?_, h.gwf.floorKnown⟩, hN _ h.dur, hN _ h.vol,
    fun o ho => allowed_refine hR (h.pend o ho), ⟨?_, h.stable.man⟩, h.dataPrefix, h.dataFresh⟩
  · rw [updPart_ids hφ]; exact h.gwf.partIds
  · intro ms hms habove id' hid' p' hp' hpid
    rcases hcase p' hp' with ⟨hp, _⟩ | ⟨_, hpi, _⟩
    · exact h.gwf.protected_ ms hms habove id' hid' p' hp hpid
    · exfalso; apply hfree ms hms habove; rw [← hpi, hpid]; exact hid'
  · intro p' hp' hrr f
    rcases hcase p' hp' with ⟨hp, _⟩ | ⟨_, _, p, hp, rfl⟩
    · exact h.stable.part p' hp hrr f
    · exact h.stable.part p hp hrr f

/-- register a new manifest (not ready) whose listed parts are all alive -/
theorem inv_addMan {G : Ghost} {s : St} (h : Inv G s) (ms0 : ManS)
    (hfresh : ms0.epoch ∉ G.mans.map (·.epoch)) (hr : ms0.ready = false)
    (halive : ∀ id ∈ ms0.ids, ∀ ps ∈ G.parts, ps.id = id → ps.dying = false) :
    Inv { G with mans := G.mans ++ [ms0] } s := by
  have hR : Refines G { G with mans := G.mans ++ [ms0] } := by
    refine ⟨?_, ?_, ?_⟩
    · intro ps hps; exact ⟨ps, hps, rfl, rfl, rfl, id, id⟩
    · intro ms hms; exact ⟨ms, List.mem_append_left _ hms, rfl, rfl, rfl, id⟩
    · intro e0 hf; exact ⟨e0, hf, Nat.le_refl _⟩
  have hN : ∀ m, NSOK G m → NSOK { G with mans := G.mans ++ [ms0] } m :=
    fun m hm => nsok_refine hR hm hm.floor hm.sealed hm.durable
  refine ⟨⟨h.gwf.partIds, ?_, ?_, ?_⟩, hN _ h.dur, hN _ h.vol,
    fun o ho => allowed_refine hR (h.pend o ho), ⟨h.stable.part, ?_⟩, h.dataPrefix, h.dataFresh⟩
  · show ((G.mans ++ [ms0]).map (·.epoch)).Nodup
    rw [List.map_append, List.nodup_append]
    refine ⟨h.gwf.manEpochs, by simp, ?_⟩
    intro a ha b hb
    simp at hb; subst hb
    intro hab; subst hab; exact hfresh ha
  · intro ms hms habove id hid ps hps hpid
    have : ms ∈ G.mans ∨ ms = ms0 := by simpa using hms
    rcases this with hms | rfl
    · exact h.gwf.protected_ ms hms habove id hid ps hps hpid
    · exact halive id hid ps hps hpid
  · intro e0 hf
    obtain ⟨ms, hms, he⟩ := h.gwf.floorKnown e0 hf
    exact ⟨ms, List.mem_append_left _ hms, he⟩
  · intro ms hms hrr
    have : ms ∈ G.mans ∨ ms = ms0 := by simpa using hms
    rcases this with hms | rfl
    · exact h.stable.man ms hms hrr
    · rw [hr] at hrr; cases hrr

/-- a manifest becomes `ready`: its inode is durable -/
theorem inv_setManReady {G : Ghost} {s : St} (h : Inv G s) (ms : ManS) (hms : ms ∈ G.mans)
    (hst : Stable s ms.ino (encList ms.ids)) :
    Inv (G.updMan ms.epoch (fun x => { x with ready := true })) s := by
  have hψ : ∀ x : ManS, ({ x with ready := true } : ManS).epoch = x.epoch := fun _ => rfl
  have hR : Refines G (G.updMan ms.epoch (fun x => { x with ready := true })) :=
    refines_updMan ms.epoch _ (fun x => ⟨rfl, rfl, rfl, fun _ => rfl⟩)
  have hcase : ∀ x' ∈ (G.updMan ms.epoch (fun x => { x with ready := true })).mans,
      x' ∈ G.mans ∨ x' = { ms with ready := true } := by
    intro x' hx'
    obtain ⟨x, hx, rfl⟩ := mem_updMan.1 hx'
    by_cases he : x.epoch = ms.epoch
    · right
      have : x = ms := eq_of_nodup_map (·.epoch) G.mans h.gwf.manEpochs hx hms he
      subst this; simp
    · left; simp [he, hx]
  have hN : ∀ m, NSOK G m → NSOK (G.updMan ms.epoch (fun x => { x with ready := true })) m :=
    fun m hm => nsok_refine hR hm hm.floor hm.sealed hm.durable
  refine ⟨⟨h.gwf.partIds, ?_, ?_, ?_⟩, hN _ h.dur, hN _ h.vol,
    fun o ho => allowed_refine hR (h.pend o ho), ⟨h.stable.part, ?_⟩, h.dataPrefix, h.dataFresh⟩
  · rw [updMan_epochs hψ]; exact h.gwf.manEpochs
  · intro x' hx' habove id hid ps hps hpid
    rcases hcase x' hx' with hx | rfl
    · exact h.gwf.protected_ x' hx habove id hid ps hps hpid
    · exact h.gwf.protected_ ms hms habove id hid ps hps hpid
  · intro e0 hf
    obtain ⟨x, hx, he⟩ := h.gwf.floorKnown e0 hf
    obtain ⟨x', hx', he', _⟩ := hR.man x hx
    exact ⟨x', hx', by rw [he', he]⟩
  · intro x' hx' hrr
    rcases hcase x' hx' with hx | rfl
    · exact h.stable.man x' hx hrr
    · exact hst

/-- a manifest becomes the floor: it is in the durable and the volatile name space, and it is not older
    than the previous floor -/
theorem inv_setFloor {G : Ghost} {s : St} (h : Inv G s) (ms : ManS) (hms : ms ∈ G.mans)
    (hge : G.aboveFloor ms.epoch)
    (hdur : ∃ i, Map.get s.dur [.snp ms.epoch] = some (.file i))
    (hvol : ∃ i, Map.get s.vol [.snp ms.epoch] = some (.file i)) :
    Inv { G with floor := some ms.epoch } s := by
  have hR : Refines G { G with floor := some ms.epoch } := by
    refine ⟨?_, ?_, ?_⟩
    · intro ps hps; exact ⟨ps, hps, rfl, rfl, rfl, id, id⟩
    · intro x hx; exact ⟨x, hx, rfl, rfl, rfl, id⟩
    · intro e0 hf; exact ⟨ms.epoch, rfl, hge e0 hf⟩
  have hN : ∀ m, NSOK G m → (∃ i, Map.get m [.snp ms.epoch] = some (.file i)) →
      NSOK { G with floor := some ms.epoch } m := by
    intro m hm hp
    apply nsok_refine hR hm _ hm.sealed hm.durable
    intro e0 hf
    have : ms.epoch = e0 := by simpa using hf
    rw [← this]; exact hp
  refine ⟨⟨h.gwf.partIds, h.gwf.manEpochs, ?_, ?_⟩, hN _ h.dur hdur, hN _ h.vol hvol,
    fun o ho => allowed_refine hR (h.pend o ho), ⟨h.stable.part, h.stable.man⟩, h.dataPrefix, h.dataFresh⟩
  · intro x hx habove id hid ps hps hpid
    apply h.gwf.protected_ x hx _ id hid ps hps hpid
    intro e0 hf
    have h1 := hge e0 hf
    have h2 := habove ms.epoch rfl
    omega
  · intro e0 hf
    have : ms.epoch = e0 := by simpa using hf
    exact ⟨ms, hms, this⟩

end Banyan.C04
