/-
C04 — the protocol invariant, part 5: the invariant holds at every prefix of each protocol phase
(`mkdirSync`, `writeSync`, `writeAtomic`, `flushPart`, `mergeOut`, `persist`, `cleanSteps`, `rmPart`).
-/
import Banyan.Lemmas.C04Inv4

namespace Banyan.C04
open Banyan.FS

/-! ### running step lists -/

theorem run_nil (s : St) : run s ([] : List Step) = s := rfl
theorem run_cons (s : St) (st : Step) (l : List Step) : run s (st :: l) = run (exec s st) l := rfl
theorem run_append (s : St) (a b : List Step) : run s (a ++ b) = run (run s a) b := by
  simp [run, List.foldl_append]

/-- `P` holds after every prefix of `steps` -/
def Along (P : St → Prop) (s : St) (steps : List Step) : Prop :=
  ∀ k, k ≤ steps.length → P (run s (steps.take k))

/-- the invariant holds for some ghost that satisfies `Q` -/
abbrev InvQ (Q : Ghost → Prop) (s : St) : Prop := ∃ G', Inv G' s ∧ Q G'

theorem along_nil {P : St → Prop} {s : St} (h : P s) : Along P s [] := by
  intro k hk
  have : k = 0 := by simpa using hk
  subst this; exact h

theorem along_cons {P : St → Prop} {s : St} {st : Step} {l : List Step}
    (h0 : P s) (h : Along P (exec s st) l) : Along P s (st :: l) := by
  intro k hk
  cases k with
  | zero => exact h0
  | succ k =>
    rw [List.take_succ_cons, run_cons]
    exact h k (by simpa using hk)

theorem along_append {P : St → Prop} {s : St} {a b : List Step}
    (ha : Along P s a) (hb : Along P (run s a) b) : Along P s (a ++ b) := by
  intro k hk
  by_cases hka : k ≤ a.length
  · rw [List.take_append_of_le_length hka]; exact ha k hka
  · have hka' : a.length ≤ k := by omega
    rw [List.take_append, List.take_of_length_le hka', run_append]
    exact hb (k - a.length) (by simp at hk; omega)

theorem along_start {P : St → Prop} {s : St} {l : List Step} (h : Along P s l) : P s := by
  have := h 0 (Nat.zero_le _); simpa [run] using this

theorem along_end {P : St → Prop} {s : St} {l : List Step} (h : Along P s l) : P (run s l) := by
  have := h l.length (Nat.le_refl _); simpa using this

theorem along_mono {P Q : St → Prop} {s : St} {l : List Step} (hPQ : ∀ s, P s → Q s) (h : Along P s l) :
    Along Q s l := fun k hk => hPQ _ (h k hk)

/-! ### how each system call changes the components of the state -/

@[simp] theorem exec_mkdir_vol (s : St) (p : Path) : (exec s (.mkdir p)).vol = (DOp.add p .dir).apply s.vol := rfl
@[simp] theorem exec_mkdir_dur (s : St) (p : Path) : (exec s (.mkdir p)).dur = s.dur := rfl
@[simp] theorem exec_mkdir_pend (s : St) (p : Path) : (exec s (.mkdir p)).pend = s.pend ++ [.add p .dir] := rfl
@[simp] theorem exec_mkdir_next (s : St) (p : Path) : (exec s (.mkdir p)).next = s.next := rfl

@[simp] theorem exec_create_vol (s : St) (p : Path) :
    (exec s (.create p)).vol = (DOp.add p (.file s.next)).apply s.vol := rfl
@[simp] theorem exec_create_dur (s : St) (p : Path) : (exec s (.create p)).dur = s.dur := rfl
@[simp] theorem exec_create_pend (s : St) (p : Path) :
    (exec s (.create p)).pend = s.pend ++ [.add p (.file s.next)] := rfl
@[simp] theorem exec_create_next (s : St) (p : Path) : (exec s (.create p)).next = s.next + 1 := rfl

@[simp] theorem exec_rename_vol (s : St) (a b : Path) : (exec s (.rename a b)).vol = (DOp.ren a b).apply s.vol := rfl
@[simp] theorem exec_rename_dur (s : St) (a b : Path) : (exec s (.rename a b)).dur = s.dur := rfl
@[simp] theorem exec_rename_pend (s : St) (a b : Path) : (exec s (.rename a b)).pend = s.pend ++ [.ren a b] := rfl
@[simp] theorem exec_rename_next (s : St) (a b : Path) : (exec s (.rename a b)).next = s.next := rfl

@[simp] theorem exec_unlink_vol (s : St) (p : Path) : (exec s (.unlink p)).vol = (DOp.del p).apply s.vol := rfl
@[simp] theorem exec_unlink_dur (s : St) (p : Path) : (exec s (.unlink p)).dur = s.dur := rfl
@[simp] theorem exec_unlink_pend (s : St) (p : Path) : (exec s (.unlink p)).pend = s.pend ++ [.del p] := rfl
@[simp] theorem exec_unlink_next (s : St) (p : Path) : (exec s (.unlink p)).next = s.next := rfl

@[simp] theorem exec_rmdir_vol (s : St) (p : Path) : (exec s (.rmdir p)).vol = (DOp.del p).apply s.vol := rfl
@[simp] theorem exec_rmdir_dur (s : St) (p : Path) : (exec s (.rmdir p)).dur = s.dur := rfl
@[simp] theorem exec_rmdir_pend (s : St) (p : Path) : (exec s (.rmdir p)).pend = s.pend ++ [.del p] := rfl
@[simp] theorem exec_rmdir_next (s : St) (p : Path) : (exec s (.rmdir p)).next = s.next := rfl

@[simp] theorem exec_close (s : St) (p : Path) : exec s (.close p) = s := rfl

@[simp] theorem exec_fsyncdir_vol (s : St) (d : Path) : (exec s (.fsyncdir d)).vol = s.vol := rfl
@[simp] theorem exec_fsyncdir_dur (s : St) (d : Path) :
    (exec s (.fsyncdir d)).dur = applyOps (s.pend.filter (fun o => decide (o.dir = d))) s.dur := rfl
@[simp] theorem exec_fsyncdir_pend (s : St) (d : Path) :
    (exec s (.fsyncdir d)).pend = s.pend.filter (fun o => !decide (o.dir = d)) := rfl
@[simp] theorem exec_fsyncdir_next (s : St) (d : Path) : (exec s (.fsyncdir d)).next = s.next := rfl

theorem exec_write_eq (s : St) (p : Path) (c : Content) (i : Nat) (hp : Map.get s.vol p = some (.file i)) :
    exec s (.write p c) = { s with vdata := Map.set s.vdata i (s.vdataOf i ++ c) } := by simp [exec, hp]

theorem exec_fsync_eq (s : St) (p : Path) (i : Nat) (hp : Map.get s.vol p = some (.file i)) :
    exec s (.fsync p) = { s with ddata := Map.set s.ddata i (s.vdataOf i) } := by simp [exec, hp]

/-! ### create; write; fsync; close — one fresh file -/

/-- The four (five with the `create`) steps that produce one durable file at a fresh name `p`, as used by
    `Write`, by the block writer and by the first half of `WriteAtomic`. -/
structure FileDone (s s' : St) (p : Path) (c : Content) : Prop where
  vol : s'.vol = (DOp.add p (.file s.next)).apply s.vol
  dur : s'.dur = s.dur
  pend : s'.pend = s.pend ++ [.add p (.file s.next)]
  next : s'.next = s.next + 1
  stable : Stable s' s.next c
  keep : ∀ j c', c' ≠ [] → Stable s j c' → Stable s' j c'

theorem file_steps {G : Ghost} {s : St} (h : Inv G s) (p : Path) (c : Content)
    (ha : Allowed G (.add p (.file s.next))) :
    Along (Inv G) s [.create p, .write p c, .fsync p, .close p] ∧
    FileDone s (run s [.create p, .write p c, .fsync p, .close p]) p c := by
  obtain ⟨h1, hv1, hd1⟩ := inv_create h p ha
  have hp1 : Map.get (exec s (.create p)).vol p = some (.file s.next) := by
    rw [exec_create_vol, get_apply_add]; simp
  have hempty : (exec s (.create p)).vdataOf s.next = [] := by
    rw [hv1]; exact (h.dataFresh s.next (Nat.le_refl _)).1
  obtain ⟨h2, hv2, hk2⟩ := inv_write h1 p c s.next hp1 hempty (by simp)
  have he2 := exec_write_eq (exec s (.create p)) p c s.next hp1
  have hp2 : Map.get (exec (exec s (.create p)) (.write p c)).vol p = some (.file s.next) := by
    rw [he2]; exact hp1
  obtain ⟨h3, hs3, hk3⟩ := inv_fsync h2 p s.next hp2 (by rw [he2]; simp)
  have he3 := exec_fsync_eq (exec (exec s (.create p)) (.write p c)) p s.next hp2
  refine ⟨along_cons h (along_cons h1 (along_cons h2 (along_cons h3 (along_nil (inv_close h3 p))))), ?_⟩
  simp only [run_cons, run_nil, exec_close]
  refine ⟨?_, ?_, ?_, ?_, ?_, ?_⟩
  · rw [he3, he2]; rfl
  · rw [he3, he2]; rfl
  · rw [he3, he2]; rfl
  · rw [he3, he2]; rfl
  · rw [hv2] at hs3; exact hs3
  · intro j c' hne hs
    apply hk3; apply hk2 _ _ hne
    exact ⟨by rw [hd1]; exact hs.1, by rw [hv1]; exact hs.2⟩

end Banyan.C04

namespace Banyan.C04
open Banyan.FS

/-- write; fsync; close on a file that exists and is still empty -/
structure DataDone (s s' : St) (i : Nat) (c : Content) : Prop where
  vol : s'.vol = s.vol
  dur : s'.dur = s.dur
  pend : s'.pend = s.pend
  next : s'.next = s.next
  stable : Stable s' i c
  keep : ∀ j c', c' ≠ [] → Stable s j c' → Stable s' j c'
  vdata : ∀ j, j ≠ i → s'.vdataOf j = s.vdataOf j

theorem wfc_steps {G : Ghost} {s : St} (h : Inv G s) (p : Path) (c : Content) (i : Nat)
    (hp : Map.get s.vol p = some (.file i)) (hempty : s.vdataOf i = []) (hlt : i < s.next) :
    Along (Inv G) s [.write p c, .fsync p, .close p] ∧
    DataDone s (run s [.write p c, .fsync p, .close p]) i c := by
  obtain ⟨h2, hv2, hk2⟩ := inv_write h p c i hp hempty hlt
  have he2 := exec_write_eq s p c i hp
  have hp2 : Map.get (exec s (.write p c)).vol p = some (.file i) := by rw [he2]; exact hp
  obtain ⟨h3, hs3, hk3⟩ := inv_fsync h2 p i hp2 (by rw [he2]; exact hlt)
  have he3 := exec_fsync_eq (exec s (.write p c)) p i hp2
  refine ⟨along_cons h (along_cons h2 (along_cons h3 (along_nil (inv_close h3 p)))), ?_⟩
  simp only [run_cons, run_nil, exec_close]
  refine ⟨?_, ?_, ?_, ?_, ?_, ?_, ?_⟩
  · rw [he3, he2]
  · rw [he3, he2]
  · rw [he3, he2]
  · rw [he3, he2]
  · rw [hv2] at hs3; exact hs3
  · intro j c' hne hs; exact hk3 _ _ (hk2 _ _ hne hs)
  · intro j hj
    rw [he3, he2]
    show ({ s with vdata := Map.set s.vdata i (s.vdataOf i ++ c) } : St).vdataOf j = _
    rw [vdataOf_set]; simp [hj]

/-! ### directories of operations -/

@[simp] theorem dir_add_pfile (id : Nat) (f : PFile) (n : Node) : (DOp.add (pfile id f) n).dir = [Name.part id] := rfl
@[simp] theorem dir_add_ptmp (id : Nat) (x : Name) (n : Node) :
    (DOp.add [Name.part id, x] n).dir = [Name.part id] := rfl
@[simp] theorem dir_ren_p (id : Nat) (x : Name) (b : Path) : (DOp.ren [Name.part id, x] b).dir = [Name.part id] := rfl
@[simp] theorem dir_del_p (id : Nat) (x : Name) : (DOp.del [Name.part id, x] : DOp Name).dir = [Name.part id] := rfl
@[simp] theorem dir_add_root (x : Name) (n : Node) : (DOp.add [x] n).dir = ([] : Path) := rfl
@[simp] theorem dir_ren_root (x : Name) (b : Path) : (DOp.ren [x] b).dir = ([] : Path) := rfl
@[simp] theorem dir_del_root (x : Name) : (DOp.del [x] : DOp Name).dir = ([] : Path) := rfl

/-- a pending operation inside a part directory concerns a part the ghost knows -/
theorem allowed_dir_part {G : Ghost} {o : DOp Name} (ha : Allowed G o) (id : Nat) (hd : o.dir = [Name.part id]) :
    ∃ ps ∈ G.parts, ps.id = id := by
  cases ha with
  | mkPart id' => simp [DOp.dir, parent] at hd
  | addFile id' f ps hps hid hf => simp at hd; exact ⟨ps, hps, by rw [hid, hd]⟩
  | addTmp id' f ps hps hid => simp at hd; exact ⟨ps, hps, by rw [hid, hd]⟩
  | renFile id' f ps hps hid hr => simp at hd; exact ⟨ps, hps, by rw [hid, hd]⟩
  | delPartFile id' n ps hps hid h => simp at hd; exact ⟨ps, hps, by rw [hid, hd]⟩
  | delPart id' ps hps hid h => simp [DOp.dir, parent] at hd
  | delSnp e e0 hf hlt => simp [DOp.dir, parent] at hd
  | addSnpTmp ms hms => simp [DOp.dir, parent] at hd
  | renSnp ms hms hr => simp [DOp.dir, parent] at hd

/-- so a fresh part id has no pending operation in its directory -/
theorem no_pend_in_fresh_dir {G : Ghost} {s : St} (h : Inv G s) (id : Nat) (hfresh : id ∉ G.parts.map (·.id)) :
    s.pend.filter (fun o => decide (o.dir = [Name.part id])) = [] := by
  rw [List.filter_eq_nil_iff]
  intro o ho hd
  obtain ⟨ps, hps, hid⟩ := allowed_dir_part (h.pend o ho) id (by simpa using hd)
  exact hfresh (List.mem_map.2 ⟨ps, hps, hid⟩)

/-- operations that do not affect a path leave it alone -/
def Affects (o : DOp Name) (q : Path) : Prop :=
  match o with
  | .add p _ => p = q
  | .del p => p.isPrefixOf q = true
  | .ren a b => a = q ∨ b = q

theorem get_apply_of_not_affects (o : DOp Name) (m : NS Name) (q : Path) (h : ¬ Affects o q) :
    Map.get (o.apply m) q = Map.get m q := by
  cases o with
  | add p n =>
    rw [get_apply_add]; simp only [Affects] at h
    rw [if_neg (fun hh => h hh.symm)]
  | del p =>
    rw [get_apply_del]; simp only [Affects] at h
    simp [h]
  | ren a b =>
    rw [get_apply_ren]; simp only [Affects, not_or] at h
    cases Map.get m a with
    | none => rfl
    | some n =>
      have h1 : ¬ q = b := fun hh => h.2 hh.symm
      have h2 : ¬ q = a := fun hh => h.1 hh.symm
      simp [h1, h2]

theorem get_applyOps_of_not_affects (L : List (DOp Name)) (m : NS Name) (q : Path)
    (h : ∀ o ∈ L, ¬ Affects o q) : Map.get (applyOps L m) q = Map.get m q := by
  induction L generalizing m with
  | nil => rfl
  | cons o L ih =>
    rw [applyOps_cons, ih _ (fun o' ho' => h o' (List.mem_cons_of_mem _ ho')),
      get_apply_of_not_affects o m q (h o List.mem_cons_self)]

/-- a list of `add`s that all bind their path to the right value: once right, stays right -/
theorem get_applyOps_adds (L : List (DOp Name)) (m : NS Name) (q : Path) (n : Node)
    (hL : ∀ o ∈ L, (∃ p n', o = .add p n' ∧ (p = q → n' = n)))
    (h : Map.get m q = some n ∨ DOp.add q n ∈ L) : Map.get (applyOps L m) q = some n := by
  induction L generalizing m with
  | nil =>
    rcases h with h | h
    · exact h
    · simp at h
  | cons o L ih =>
    rw [applyOps_cons]
    apply ih _ (fun o' ho' => hL o' (List.mem_cons_of_mem _ ho'))
    obtain ⟨p, n', rfl, hpn⟩ := hL o List.mem_cons_self
    rw [get_apply_add]
    by_cases hqp : q = p
    · left; rw [if_pos hqp, hpn hqp.symm]
    · rw [if_neg hqp]
      rcases h with h | h
      · left; exact h
      · rcases List.mem_cons.1 h with h | h
        · cases h; exact absurd rfl hqp
        · right; exact h

end Banyan.C04

namespace Banyan.C04
open Banyan.FS

def dataFiles : List PFile := [.mt, .primary, .timestamps, .fv, .tf, .tfm]

theorem mem_dataFiles (f : PFile) : f ∈ dataFiles ↔ f ≠ .tagType ∧ f ≠ .metadata := by
  cases f <;> simp [dataFiles]

theorem writeAtomic_pfile (id : Nat) (f : PFile) (c : Content) :
    writeAtomic (pfile id f) c =
      [.create [.part id, .tmp (.pf f)], .write [.part id, .tmp (.pf f)] c, .fsync [.part id, .tmp (.pf f)],
       .close [.part id, .tmp (.pf f)]] ++
      [.rename [.part id, .tmp (.pf f)] (pfile id f), .fsyncdir [.part id]] := rfl

/-- the state of a part directory after its six data files were written and fsynced -/
structure Built (G : Ghost) (s : St) (ps : PartS) : Prop where
  inv : Inv G s
  mem : ps ∈ G.parts
  vol : ∀ f ∈ dataFiles, Map.get s.vol (pfile ps.id f) = some (.file (ps.ino f))
  volDir : Map.get s.vol [.part ps.id] = some .dir
  durDir : Map.get s.dur [.part ps.id] = some .dir
  pendP : ∀ o ∈ s.pend, o.dir = [.part ps.id] → ∃ f ∈ dataFiles, o = .add (pfile ps.id f) (.file (ps.ino f))
  pendAll : ∀ f ∈ dataFiles, DOp.add (pfile ps.id f) (.file (ps.ino f)) ∈ s.pend
  stable : ∀ f ∈ dataFiles, Stable s (ps.ino f) (fileContent f ps.bat)
  next : s.next = ps.ino .tagType
  nextMeta : ps.ino .metadata = ps.ino .tagType + 1

theorem stable_of_data_eq {s s' : St} (hv : s'.vdata = s.vdata) (hd : s'.ddata = s.ddata) {j : Nat} {c : Content}
    (h : Stable s j c) : Stable s' j c := by
  unfold Stable St.ddataOf St.vdataOf at *
  rw [hv, hd]; exact h

def Ghost.ready (G : Ghost) (id : Nat) : Ghost := G.updPart id (fun p => { p with ready := true })
def Ghost.durable (G : Ghost) (id : Nat) : Ghost := G.updPart id (fun p => { p with durable := true })

/-- `tag.type` and `metadata.json` through `WriteAtomic`: the part becomes ready before the second rename and
    durable with the last directory fsync. -/
theorem seal_part {G : Ghost} {s : St} {ps : PartS} (hB : Built G s ps) (Q : Ghost → Prop)
    (q0 : Q G) (q1 : Q (G.ready ps.id)) (q2 : Q ((G.ready ps.id).durable ps.id)) :
    Along (InvQ Q) s
      (writeAtomic (pfile ps.id .tagType) tagTypeContent ++ writeAtomic (pfile ps.id .metadata) (encList ps.bat)) ∧
    Inv ((G.ready ps.id).durable ps.id)
      (run s (writeAtomic (pfile ps.id .tagType) tagTypeContent ++
        writeAtomic (pfile ps.id .metadata) (encList ps.bat))) := by
  have h := hB.inv
  have hgwf := h.gwf
  -- phase 1: tag.type.tmp
  obtain ⟨hA1, hF1⟩ := file_steps h [.part ps.id, .tmp (.pf .tagType)] tagTypeContent
    (by rw [hB.next]; exact .addTmp ps.id .tagType ps hB.mem rfl)
  obtain ⟨s4, hs4⟩ : ∃ s4, s4 = run s [.create [.part ps.id, .tmp (.pf .tagType)],
    .write [.part ps.id, .tmp (.pf .tagType)] tagTypeContent, .fsync [.part ps.id, .tmp (.pf .tagType)],
    .close [.part ps.id, .tmp (.pf .tagType)]] := ⟨_, rfl⟩
  rw [← hs4] at hF1
  have h4 : Inv G s4 := by rw [hs4]; exact along_end hA1
  -- rename
  have h5 : Inv G (exec s4 (.rename [.part ps.id, .tmp (.pf .tagType)] (pfile ps.id .tagType))) :=
    inv_dirop h4 (.renFile ps.id .tagType ps hB.mem rfl (fun hh => by cases hh))
  obtain ⟨s5, hs5⟩ : ∃ s5, s5 = exec s4 (.rename [.part ps.id, .tmp (.pf .tagType)] (pfile ps.id .tagType)) := ⟨_, rfl⟩
  rw [← hs5] at h5
  have h6 : Inv G (exec s5 (.fsyncdir [.part ps.id])) := inv_fsyncdir h5 _
  obtain ⟨s6, hs6⟩ : ∃ s6, s6 = exec s5 (.fsyncdir [.part ps.id]) := ⟨_, rfl⟩
  rw [← hs6] at h6
  -- the state after phase 1
  have hvol5 : s5.vol = (DOp.ren [.part ps.id, .tmp (.pf .tagType)] (pfile ps.id .tagType)).apply
      ((DOp.add [.part ps.id, .tmp (.pf .tagType)] (.file s.next)).apply s.vol) := by
    rw [hs5, exec_rename_vol, hF1.vol]
  have hpend5 : s5.pend = s.pend ++ [.add [.part ps.id, .tmp (.pf .tagType)] (.file s.next),
      .ren [.part ps.id, .tmp (.pf .tagType)] (pfile ps.id .tagType)] := by
    rw [hs5, exec_rename_pend, hF1.pend]; simp
  have hdur6 : s6.dur = applyOps [.add [.part ps.id, .tmp (.pf .tagType)] (.file s.next),
      .ren [.part ps.id, .tmp (.pf .tagType)] (pfile ps.id .tagType)]
      (applyOps (s.pend.filter (fun o => decide (o.dir = [Name.part ps.id]))) s.dur) := by
    rw [hs6, exec_fsyncdir_dur, hpend5, List.filter_append, applyOps_append]
    have hd5 : s5.dur = s.dur := by rw [hs5, exec_rename_dur, hF1.dur]
    rw [hd5]; simp
  have hpend6 : s6.pend = s.pend.filter (fun o => !decide (o.dir = [Name.part ps.id])) := by
    rw [hs6, exec_fsyncdir_pend, hpend5, List.filter_append]; simp
  have hnext6 : s6.next = s.next + 1 := by
    rw [hs6, exec_fsyncdir_next, hs5, exec_rename_next, hF1.next]
  have hvol6 : s6.vol = s5.vol := by rw [hs6, exec_fsyncdir_vol]
  -- the seven files in the durable and the volatile name space
  have hdata_dur0 : ∀ f ∈ dataFiles,
      Map.get (applyOps (s.pend.filter (fun o => decide (o.dir = [Name.part ps.id]))) s.dur) (pfile ps.id f) =
        some (.file (ps.ino f)) := by
    intro f hf
    apply get_applyOps_adds
    · intro o ho
      obtain ⟨ho1, ho2⟩ := List.mem_filter.1 ho
      obtain ⟨g, hg, rfl⟩ := hB.pendP o ho1 (by simpa using ho2)
      refine ⟨_, _, rfl, ?_⟩
      intro hpq
      rw [(pfile_inj hpq).2]
    · right
      exact List.mem_filter.2 ⟨hB.pendAll f hf, by simp⟩
  have hdur6_data : ∀ f ∈ dataFiles, Map.get s6.dur (pfile ps.id f) = some (.file (ps.ino f)) := by
    intro f hf
    have hne := (mem_dataFiles f).1 hf
    rw [hdur6, get_applyOps_of_not_affects _ _ _ ?_]
    · exact hdata_dur0 f hf
    · intro o ho
      simp only [List.mem_cons, List.mem_singleton, List.not_mem_nil, or_false] at ho
      rcases ho with rfl | rfl
      · simp [Affects, pfile]
      · simp only [Affects, not_or]
        refine ⟨by simp [pfile], ?_⟩
        intro hh; exact hne.1 (pfile_inj hh).2.symm
  have hdur6_tag : Map.get s6.dur (pfile ps.id .tagType) = some (.file (ps.ino .tagType)) := by
    rw [hdur6, applyOps_cons, applyOps_cons, applyOps_nil, get_apply_ren, get_apply_add]
    simp [hB.next]
  have hdur6_dir : Map.get s6.dur [.part ps.id] = some .dir := by
    rw [hdur6, get_applyOps_of_not_affects, get_applyOps_of_not_affects]
    · exact hB.durDir
    · intro o ho
      obtain ⟨ho1, ho2⟩ := List.mem_filter.1 ho
      obtain ⟨g, _, rfl⟩ := hB.pendP o ho1 (by simpa using ho2)
      simp [Affects, pfile]
    · intro o ho
      simp only [List.mem_cons, List.mem_singleton, List.not_mem_nil, or_false] at ho
      rcases ho with rfl | rfl <;> simp [Affects, pfile]
  have hvol6_data : ∀ f ∈ dataFiles, Map.get s6.vol (pfile ps.id f) = some (.file (ps.ino f)) := by
    intro f hf
    have hne := (mem_dataFiles f).1 hf
    rw [hvol6, hvol5, get_apply_of_not_affects, get_apply_of_not_affects]
    · exact hB.vol f hf
    · simp [Affects, pfile]
    · simp only [Affects, not_or]
      refine ⟨by simp [pfile], ?_⟩
      intro hh; exact hne.1 (pfile_inj hh).2.symm
  have hvol6_tag : Map.get s6.vol (pfile ps.id .tagType) = some (.file (ps.ino .tagType)) := by
    rw [hvol6, hvol5, get_apply_ren, get_apply_add]
    simp [hB.next]
  have hvol6_dir : Map.get s6.vol [.part ps.id] = some .dir := by
    rw [hvol6, hvol5, get_apply_of_not_affects, get_apply_of_not_affects]
    · exact hB.volDir
    · simp [Affects]
    · simp [Affects, pfile]
  -- stability so far
  have hkeep6 : ∀ j c, c ≠ [] → Stable s j c → Stable s6 j c := by
    intro j c hne hs
    have h4' := hF1.keep j c hne hs
    have : Stable s5 j c := stable_of_data_eq (by rw [hs5]; rfl) (by rw [hs5]; rfl) h4'
    exact stable_of_data_eq (by rw [hs6]; rfl) (by rw [hs6]; rfl) this
  have hst6_tag : Stable s6 (ps.ino .tagType) tagTypeContent := by
    have h4' := hF1.stable
    rw [hB.next] at h4'
    have : Stable s5 (ps.ino .tagType) tagTypeContent := stable_of_data_eq (by rw [hs5]; rfl) (by rw [hs5]; rfl) h4'
    exact stable_of_data_eq (by rw [hs6]; rfl) (by rw [hs6]; rfl) this
  -- phase 2: metadata.json.tmp
  obtain ⟨hA2, hF2⟩ := file_steps h6 [.part ps.id, .tmp (.pf .metadata)] (encList ps.bat)
    (by rw [hnext6, hB.next, ← hB.nextMeta]; exact .addTmp ps.id .metadata ps hB.mem rfl)
  obtain ⟨s10, hs10⟩ : ∃ s10, s10 = run s6 [.create [.part ps.id, .tmp (.pf .metadata)],
    .write [.part ps.id, .tmp (.pf .metadata)] (encList ps.bat), .fsync [.part ps.id, .tmp (.pf .metadata)],
    .close [.part ps.id, .tmp (.pf .metadata)]] := ⟨_, rfl⟩
  rw [← hs10] at hF2
  have h10 : Inv G s10 := by rw [hs10]; exact along_end hA2
  have hino_meta : s6.next = ps.ino .metadata := by rw [hnext6, hB.next, ← hB.nextMeta]
  -- the part becomes ready
  have h10r : Inv (G.ready ps.id) s10 := by
    apply inv_setReady h10 ps hB.mem
    · intro f hf
      rw [hF2.dur]
      by_cases hft : f = .tagType
      · subst hft; exact hdur6_tag
      · exact hdur6_data f ((mem_dataFiles f).2 ⟨hft, hf⟩)
    · intro f hf
      rw [hF2.vol, get_apply_of_not_affects _ _ _ (by simp [Affects, pfile])]
      by_cases hft : f = .tagType
      · subst hft; exact hvol6_tag
      · exact hvol6_data f ((mem_dataFiles f).2 ⟨hft, hf⟩)
    · intro f
      by_cases hfm : f = .metadata
      · subst hfm
        have := hF2.stable
        rw [hino_meta] at this
        exact this
      · by_cases hft : f = .tagType
        · subst hft
          exact hF2.keep _ _ (fileContent_ne_nil .tagType ps.bat) hst6_tag
        · have hf := (mem_dataFiles f).2 ⟨hft, hfm⟩
          exact hF2.keep _ _ (fileContent_ne_nil _ _) (hkeep6 _ _ (fileContent_ne_nil _ _) (hB.stable f hf))
  -- rename metadata.json.tmp -> metadata.json
  have hps' : ({ ps with ready := true } : PartS) ∈ (G.ready ps.id).parts :=
    mem_updPart.2 ⟨ps, hB.mem, by simp⟩
  have h11 : Inv (G.ready ps.id) (exec s10 (.rename [.part ps.id, .tmp (.pf .metadata)] (pfile ps.id .metadata))) :=
    inv_dirop h10r (.renFile ps.id .metadata _ hps' rfl (fun _ => rfl))
  obtain ⟨s11, hs11⟩ : ∃ s11, s11 = exec s10 (.rename [.part ps.id, .tmp (.pf .metadata)] (pfile ps.id .metadata)) :=
    ⟨_, rfl⟩
  rw [← hs11] at h11
  have h12 : Inv (G.ready ps.id) (exec s11 (.fsyncdir [.part ps.id])) := inv_fsyncdir h11 _
  obtain ⟨s12, hs12⟩ : ∃ s12, s12 = exec s11 (.fsyncdir [.part ps.id]) := ⟨_, rfl⟩
  rw [← hs12] at h12
  have hvol11 : s11.vol = (DOp.ren [.part ps.id, .tmp (.pf .metadata)] (pfile ps.id .metadata)).apply
      ((DOp.add [.part ps.id, .tmp (.pf .metadata)] (.file s6.next)).apply s6.vol) := by
    rw [hs11, exec_rename_vol, hF2.vol]
  have hpend11 : s11.pend = s6.pend ++ [.add [.part ps.id, .tmp (.pf .metadata)] (.file s6.next),
      .ren [.part ps.id, .tmp (.pf .metadata)] (pfile ps.id .metadata)] := by
    rw [hs11, exec_rename_pend, hF2.pend]; simp
  have hdur12 : s12.dur = applyOps [.add [.part ps.id, .tmp (.pf .metadata)] (.file s6.next),
      .ren [.part ps.id, .tmp (.pf .metadata)] (pfile ps.id .metadata)] s6.dur := by
    rw [hs12, exec_fsyncdir_dur, hpend11, List.filter_append, applyOps_append]
    have hd11 : s11.dur = s6.dur := by rw [hs11, exec_rename_dur, hF2.dur]
    have hnil : s6.pend.filter (fun o => decide (o.dir = [Name.part ps.id])) = [] := by
      rw [hpend6, List.filter_filter, List.filter_eq_nil_iff]
      intro o _; simp
    rw [hd11, hnil]; simp [applyOps_nil]
  -- the part becomes durable
  have h12d : Inv ((G.ready ps.id).durable ps.id) s12 := by
    have := inv_setDurable h12 { ps with ready := true } hps'
      (by
        constructor
        · show Map.get s12.dur (pfile ps.id .metadata) = some (.file (ps.ino .metadata))
          rw [hdur12, applyOps_cons, applyOps_cons, applyOps_nil, get_apply_ren, get_apply_add]
          simp [hino_meta]
        · show Map.get s12.dur [.part ps.id] = some .dir
          rw [hdur12, get_applyOps_of_not_affects]
          · exact hdur6_dir
          · intro o ho
            simp only [List.mem_cons, List.mem_singleton, List.not_mem_nil, or_false] at ho
            rcases ho with rfl | rfl <;> simp [Affects, pfile])
      (by
        have hv12 : s12.vol = s11.vol := by rw [hs12, exec_fsyncdir_vol]
        constructor
        · show Map.get s12.vol (pfile ps.id .metadata) = some (.file (ps.ino .metadata))
          rw [hv12, hvol11, get_apply_ren, get_apply_add]
          simp [hino_meta]
        · show Map.get s12.vol [.part ps.id] = some .dir
          rw [hv12, hvol11, get_apply_of_not_affects, get_apply_of_not_affects]
          · exact hvol6_dir
          · simp [Affects]
          · simp [Affects, pfile])
    exact this
  -- assemble
  have hrun1 : run s (writeAtomic (pfile ps.id .tagType) tagTypeContent) = s6 := by
    rw [writeAtomic_pfile, run_append, ← hs4]
    simp only [run_cons, run_nil]
    rw [← hs5, ← hs6]
  have hrun2 : run s6 (writeAtomic (pfile ps.id .metadata) (encList ps.bat)) = s12 := by
    rw [writeAtomic_pfile, run_append, ← hs10]
    simp only [run_cons, run_nil]
    rw [← hs11, ← hs12]
  constructor
  · apply along_append
    · rw [writeAtomic_pfile]
      apply along_append
      · exact along_mono (fun _ hh => ⟨G, hh, q0⟩) hA1
      · rw [← hs4]
        refine along_cons ⟨G, h4, q0⟩ ?_
        rw [← hs5]
        refine along_cons ⟨G, h5, q0⟩ ?_
        rw [← hs6]
        exact along_nil ⟨G, h6, q0⟩
    · rw [hrun1, writeAtomic_pfile]
      apply along_append
      · exact along_mono (fun _ hh => ⟨G, hh, q0⟩) hA2
      · rw [← hs10]
        refine along_cons ⟨_, h10r, q1⟩ ?_
        rw [← hs11]
        refine along_cons ⟨_, h11, q1⟩ ?_
        rw [← hs12]
        exact along_nil ⟨_, h12d, q2⟩
  · rw [run_append, hrun1, hrun2]
    exact h12d

end Banyan.C04

namespace Banyan.C04
open Banyan.FS

/-! ### the data files of a part -/

/-- the `add` operations of a list of files -/
def addOps (ps : PartS) (fs : List PFile) : List (DOp Name) :=
  fs.map (fun f => DOp.add (pfile ps.id f) (.file (ps.ino f)))

theorem idxOf_cons_ne {f g : PFile} {fs : List PFile} (h : g ≠ f) : (f :: fs).idxOf g = fs.idxOf g + 1 := by
  rw [List.idxOf_cons]
  have : (f == g) = false := by simp [Ne.symm h]
  simp [this]

/-- `flushPart`'s six `Write`s (create, write, fsync, close each) -/
theorem flush_files {G : Ghost} {ps : PartS} (hps : ps ∈ G.parts) (c : PFile → Content) :
    ∀ (fs : List PFile) (s : St), Inv G s → fs.Nodup → (∀ f ∈ fs, f ≠ .metadata ∧ c f ≠ []) →
      (∀ f ∈ fs, ps.ino f = s.next + fs.idxOf f) →
      Along (Inv G) s (fs.flatMap (fun f => writeSync (pfile ps.id f) (c f))) ∧
      (let s' := run s (fs.flatMap (fun f => writeSync (pfile ps.id f) (c f)))
       s'.vol = applyOps (addOps ps fs) s.vol ∧ s'.dur = s.dur ∧ s'.pend = s.pend ++ addOps ps fs ∧
       s'.next = s.next + fs.length ∧ (∀ f ∈ fs, Stable s' (ps.ino f) (c f)) ∧
       (∀ j c', c' ≠ [] → Stable s j c' → Stable s' j c')) := by
  intro fs
  induction fs with
  | nil =>
    intro s h _ _ _
    exact ⟨along_nil h, rfl, rfl, by simp [addOps, run_nil], rfl, by simp, fun _ _ _ hs => hs⟩
  | cons f fs ih =>
    intro s h hnd hnm hino
    have hf0 : ps.ino f = s.next := by
      have := hino f List.mem_cons_self; simpa using this
    obtain ⟨hA, hF⟩ := file_steps h (pfile ps.id f) (c f)
      (by rw [← hf0]; exact .addFile ps.id f ps hps rfl (hnm f List.mem_cons_self).1)
    obtain ⟨s1, hs1⟩ : ∃ s1, s1 = run s [.create (pfile ps.id f), .write (pfile ps.id f) (c f),
      .fsync (pfile ps.id f), .close (pfile ps.id f)] := ⟨_, rfl⟩
    rw [← hs1] at hF
    have h1 : Inv G s1 := by rw [hs1]; exact along_end hA
    rw [List.nodup_cons] at hnd
    obtain ⟨hA', hv, hd, hp, hn, hst, hk⟩ := ih s1 h1 hnd.2 (fun g hg => hnm g (List.mem_cons_of_mem _ hg))
      (by
        intro g hg
        have hne : g ≠ f := by intro hh; subst hh; exact hnd.1 hg
        rw [hino g (List.mem_cons_of_mem _ hg), idxOf_cons_ne hne, hF.next]; omega)
    have hflat : (f :: fs).flatMap (fun f => writeSync (pfile ps.id f) (c f)) =
        [.create (pfile ps.id f), .write (pfile ps.id f) (c f), .fsync (pfile ps.id f), .close (pfile ps.id f)] ++
        fs.flatMap (fun f => writeSync (pfile ps.id f) (c f)) := by
      simp [List.flatMap_cons, writeSync]
    rw [hflat]
    refine ⟨along_append hA (by rw [← hs1]; exact hA'), ?_⟩
    simp only [run_append, ← hs1]
    refine ⟨?_, ?_, ?_, ?_, ?_, ?_⟩
    · rw [hv, hF.vol, ← hf0]; simp [addOps, applyOps_cons]
    · rw [hd, hF.dur]
    · rw [hp, hF.pend, ← hf0]; simp [addOps]
    · rw [hn, hF.next]; simp; omega
    · intro g hg
      rcases List.mem_cons.1 hg with rfl | hg
      · have := hF.stable
        rw [← hf0] at this
        exact hk _ _ (hnm g List.mem_cons_self).2 this
      · exact hst g hg
    · intro j c' hne hs
      exact hk _ _ hne (hF.keep _ _ hne hs)

end Banyan.C04
